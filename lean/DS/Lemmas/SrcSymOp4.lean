import DS.Gen.SrcSymOp
import DS.Lemmas.SrcSymOp
import DS.Lemmas.SrcSymOp2
import DS.Lemmas.SrcSymOp3
import DS.Lemmas.SrcSymOp5
/-!
The split of a row at its variable terms against the one-pass scanner of the model (T18, proof of `getSymOp_eq`):
* `decomp`: the scanner on `piece ++ tail` (no variable term starts inside `piece`; `tail` is empty or begins with one) is
  the piece scanner on `piece`, then the scanner on `tail`;
* `searchFrom_spec` / the shape of `re.split` at the variable terms;
* `rowR`, `rowT`: the two loops of `getSymOp` over the odd and the even pieces.
-/
namespace DS.SrcSymOp4
open DS.Rx DS.PyStr DS.SymText DS.Src.SymOp

def Ascii (s : List Char) : Prop := ∀ c ∈ s, c.toNat < 128

theorem Ascii.tail {c : Char} {s : List Char} (h : Ascii (c :: s)) : Ascii s :=
  fun x hx => h x (List.mem_cons_of_mem _ hx)
theorem Ascii.head {c : Char} {s : List Char} (h : Ascii (c :: s)) : c.toNat < 128 := h c (List.mem_cons_self ..)
theorem Ascii.right {a b : List Char} (h : Ascii (a ++ b)) : Ascii b :=
  fun x hx => h x (List.mem_append_right _ hx)
theorem Ascii.left {a b : List Char} (h : Ascii (a ++ b)) : Ascii a :=
  fun x hx => h x (List.mem_append_left _ hx)

/-! ### one step of the scanner, by cases -/

theorem scanRowG_nil (ax : Char → Option Nat) (f : Nat) (first : Bool) : scanRowG ax (f + 1) first [] = some [] := by
  simp [scanRowG]

theorem scanRowG_axis {ax : Char → Option Nat} {c : Char} {a : Nat} (h : ax c = some a) (f : Nat) (first : Bool)
    (rest : List Char) :
    scanRowG ax (f + 1) first (c :: rest) = (scanRowG ax f true rest).map (Tok.var false a :: ·) := by
  simp [scanRowG, h]

theorem scanRowG_sign_nil {ax : Char → Option Nat} {c : Char} (h : ax c = none) (hs : isSign c = true) (f : Nat)
    (first : Bool) : scanRowG ax (f + 1) first [c] = none := by
  simp [scanRowG, h, hs]

theorem scanRowG_sign_axis {ax : Char → Option Nat} {c d : Char} {a : Nat} (h : ax c = none) (hs : isSign c = true)
    (hd : ax d = some a) (f : Nat) (first : Bool) (rest : List Char) :
    scanRowG ax (f + 1) first (c :: d :: rest) =
      (scanRowG ax f true rest).map (Tok.var (decide (c = '-')) a :: ·) := by
  simp [scanRowG, h, hs, hd]

theorem scanRowG_sign_num {ax : Char → Option Nat} {c d : Char} (h : ax c = none) (hs : isSign c = true)
    (hd : ax d = none) (f : Nat) (first : Bool) (rest : List Char) :
    scanRowG ax (f + 1) first (c :: d :: rest) =
      (scanQuot (d :: rest)).bind (fun x =>
        (scanRowG ax f false x.2).map (Tok.num (if c = '-' then x.1.neg else x.1) :: ·)) := by
  simp only [scanRowG, h, hs, hd, if_true]
  cases scanQuot (d :: rest) <;> rfl

theorem scanRowG_first {ax : Char → Option Nat} {c : Char} (h : ax c = none) (hs : isSign c = false) (f : Nat)
    (rest : List Char) :
    scanRowG ax (f + 1) true (c :: rest) =
      (scanQuot (c :: rest)).bind (fun x => (scanRowG ax f false x.2).map (Tok.num x.1 :: ·)) := by
  simp only [scanRowG, h, hs, if_true, Bool.false_eq_true, if_false]
  cases scanQuot (c :: rest) <;> rfl

theorem scanRowG_notfirst {ax : Char → Option Nat} {c : Char} (h : ax c = none) (hs : isSign c = false) (f : Nat)
    (rest : List Char) : scanRowG ax (f + 1) false (c :: rest) = none := by
  simp [scanRowG, h, hs]

/-! ### ASCII characters -/

theorem sign_no_axis_ascii : ∀ n : Fin 128, isSign (Char.ofNat n) = true → axCI (Char.ofNat n) = none := by decide

theorem sign_no_axis {c : Char} (h : c.toNat < 128) (hs : isSign c = true) : axCI c = none := by
  have := sign_no_axis_ascii ⟨c.toNat, h⟩
  simp only [Char.ofNat_toNat] at this
  exact this hs

theorem stop_char_ascii : ∀ n : Fin 128, (isSign (Char.ofNat n) || (axCI (Char.ofNat n)).isSome) = true →
    ((Char.ofNat n).isDigit = false ∧ Char.ofNat n ≠ '.' ∧ Char.ofNat n ≠ '/') := by decide

theorem stop_char {c : Char} (h : c.toNat < 128) (hs : (isSign c || (axCI c).isSome) = true) :
    c.isDigit = false ∧ c ≠ '.' ∧ c ≠ '/' := by
  have := stop_char_ascii ⟨c.toNat, h⟩
  simp only [Char.ofNat_toNat] at this
  exact this hs

theorem sign_lower_ascii : ∀ n : Fin 128, isSign (Char.ofNat n) = true → (Char.ofNat n).toLower = Char.ofNat n := by
  decide

theorem sign_lower {c : Char} (hs : isSign c = true) : c.toLower = c := by
  simp only [isSign, Bool.or_eq_true, decide_eq_true_eq] at hs
  rcases hs with rfl | rfl <;> decide

theorem axisCI_eq {c : Char} (h : c.toNat < 128) : isAxisCI c = (axCI c).isSome := isAxisCI_eq h

/-! ### where a variable term starts -/

/-- no variable term starts inside `p` (read with `tail` behind it) -/
def NoVar (tail : List Char) : List Char → Prop
  | [] => True
  | c :: p => varRest (c :: (p ++ tail)) = none ∧ NoVar tail p

theorem NoVar_suffix (tail : List Char) : ∀ (a b : List Char), NoVar tail (a ++ b) → NoVar tail b
  | [], _, h => h
  | _ :: a, b, h => NoVar_suffix tail a b h.2

/-- `tail` is empty or begins with a variable term -/
def TailOK (tail : List Char) : Prop := tail = [] ∨ ∃ rest, varRest tail = some rest

theorem varRest_none_head {c : Char} {r : List Char} (hc : c.toNat < 128) (h : varRest (c :: r) = none) :
    axCI c = none := by
  by_cases hs : isSign c = true
  · exact sign_no_axis hc hs
  · have hs' : isSignCI c = false := by rw [isSignCI_eq hc]; simpa using hs
    simp only [varRest, hs', Bool.false_eq_true, if_false] at h
    by_cases ha : isAxisCI c = true
    · simp [ha] at h
    · rw [axisCI_eq hc] at ha
      cases hx : axCI c with
      | none => rfl
      | some a => simp [hx] at ha

theorem varRest_none_second {c d : Char} {r : List Char} (hc : c.toNat < 128) (hd : d.toNat < 128)
    (hs : isSign c = true) (h : varRest (c :: d :: r) = none) : axCI d = none := by
  have hs' : isSignCI c = true := by rw [isSignCI_eq hc]; exact hs
  simp only [varRest, hs', if_true] at h
  by_cases ha : isAxisCI d = true
  · simp [ha] at h
  · rw [axisCI_eq hd] at ha
    cases hx : axCI d with
    | none => rfl
    | some a => simp [hx] at ha

/-- the head of a text that begins with a variable term is a sign or an axis letter -/
theorem varRest_some_head {c : Char} {r rest : List Char} (hc : c.toNat < 128) (h : varRest (c :: r) = some rest) :
    (isSign c || (axCI c).isSome) = true := by
  by_cases hs : isSign c = true
  · simp [hs]
  · have hs' : isSignCI c = false := by rw [isSignCI_eq hc]; simpa using hs
    simp only [varRest, hs', Bool.false_eq_true, if_false] at h
    by_cases ha : isAxisCI c = true
    · rw [axisCI_eq hc] at ha; simp [ha]
    · simp [ha] at h

theorem TailOK.stop {tail : List Char} (ha : Ascii tail) (h : TailOK tail) : Stop tail := by
  intro d r e
  subst e
  rcases h with h | ⟨rest, h⟩
  · cases h
  · exact stop_char ha.head (varRest_some_head ha.head h)

theorem symvec_unit : ∀ (c : Char) (a : Nat), axisOf c = some a →
      dictGet symvec [c] = .ok (unitVec false a) ∧
      dictGet symvec ['+', c] = .ok (unitVec false a) ∧
      dictGet symvec ['-', c] = .ok (unitVec true a) := by
  intro c a h
  unfold axisOf at h
  split at h
  · rename_i hc; subst hc; cases h; exact ⟨rfl, rfl, rfl⟩
  · split at h
    · rename_i hc; subst hc; cases h; exact ⟨rfl, rfl, rfl⟩
    · split at h
      · rename_i hc; subst hc; cases h; exact ⟨rfl, rfl, rfl⟩
      · cases h

/-- one variable term at the head of the text: what the model reads there, what the dictionary gives for it -/
theorem varStep {tail rest : List Char} (ha : Ascii tail) (h : varRest tail = some rest) :
    ∃ (neg : Bool) (a : Nat) (m : List Char), tail = m ++ rest ∧ m ≠ [] ∧
      tail.take (tail.length - rest.length) = m ∧
      (∀ fuel first, scanRowG axCI (fuel + 1) first tail = (scanRowG axCI fuel true rest).map (Tok.var neg a :: ·)) ∧
      dictGet symvec (lower m) = .ok (unitVec neg a) := by
  cases tail with
  | nil => simp [varRest] at h
  | cons c r =>
    have hc := ha.head
    by_cases hs : isSign c = true
    · have hs' : isSignCI c = true := by rw [isSignCI_eq hc]; exact hs
      have hcx : axCI c = none := sign_no_axis hc hs
      have hcn : isAxisCI c = false := by rw [axisCI_eq hc, hcx]; rfl
      cases r with
      | nil => simp [varRest, hs', hcn] at h
      | cons d r' =>
        have hd := ha.tail.head
        simp only [varRest, hs', if_true, hcn, Bool.false_eq_true, if_false] at h
        by_cases hax : isAxisCI d = true
        · simp only [hax, if_true, Option.some.injEq] at h
          subst h
          rw [axisCI_eq hd] at hax
          cases hx : axCI d with
          | none => simp [hx] at hax
          | some a =>
            refine ⟨decide (c = '-'), a, [c, d], rfl, by simp, ?_, ?_, ?_⟩
            · have : (c :: d :: r').length - r'.length = 2 := by simp only [List.length_cons]; omega
              rw [this]; rfl
            · intro fuel first
              exact scanRowG_sign_axis hcx hs hx fuel first r'
            · have hu := symvec_unit d.toLower a hx
              simp only [isSign, Bool.or_eq_true, decide_eq_true_eq] at hs
              rcases hs with rfl | rfl
              · exact hu.2.1
              · exact hu.2.2
        · simp [hax] at h
    · have hs' : isSignCI c = false := by rw [isSignCI_eq hc]; simpa using hs
      simp only [varRest, hs', Bool.false_eq_true, if_false] at h
      by_cases hax : isAxisCI c = true
      · simp only [hax, if_true, Option.some.injEq] at h
        subst h
        rw [axisCI_eq hc] at hax
        cases hx : axCI c with
        | none => simp [hx] at hax
        | some a =>
          refine ⟨false, a, [c], rfl, by simp, ?_, ?_, ?_⟩
          · have : (c :: r).length - r.length = 1 := by simp only [List.length_cons]; omega
            rw [this]; rfl
          · intro fuel first
            exact scanRowG_axis hx fuel first r
          · exact (symvec_unit c.toLower a hx).1
      · simp [hax] at h

/-! ### the scanner across a piece boundary -/

theorem bind_map_cons (x T : Option (List Tok)) (t : Tok) :
    ((x.map (t :: ·)).bind (fun a => T.map (a ++ ·))) = (x.bind (fun a => T.map (a ++ ·))).map (t :: ·) := by
  cases x <;> cases T <;> rfl

/-- at a text that is empty or begins with a variable term the scanner does not look at `first` -/
theorem scanRowG_tail_first {tail : List Char} (ha : Ascii tail) (h : TailOK tail) (f : Nat) (first : Bool) :
    scanRowG axCI (f + 1) first tail = scanRowG axCI (f + 1) true tail := by
  rcases h with h | ⟨rest, h⟩
  · subst h; rfl
  · obtain ⟨neg, a, m, _, _, _, hstep, _⟩ := varStep ha h
    rw [hstep f first, hstep f true]

/-- the tail of the induction step of `decomp`: after one number of the piece -/
theorem decomp_num {m : Nat}
    (ih : ∀ (p : List Char), p.length ≤ m → ∀ (tail : List Char) (first : Bool) (fuel : Nat),
      Ascii (p ++ tail) → NoVar tail p → TailOK tail → (p ++ tail).length < fuel →
      scanRowG axCI fuel first (p ++ tail) =
        (pieceToks (p.length + 1) first p).bind (fun a => (scanRowG axCI (tail.length + 1) true tail).map (a ++ ·)))
    (q tail : List Char) (hq : q.length ≤ m + 1) (ha : Ascii (q ++ tail)) (hnv : NoVar tail q) (ht : TailOK tail)
    (f : Nat) (hf : (q ++ tail).length < f + 1) (g : Frac → Frac) (k : Nat) (hk : q.length ≤ k) :
    (scanQuot (q ++ tail)).bind (fun x => (scanRowG axCI f false x.2).map (Tok.num (g x.1) :: ·)) =
      ((scanQuot q).bind (fun x => (pieceToks k false x.2).map (Tok.num (g x.1) :: ·))).bind
        (fun a => (scanRowG axCI (tail.length + 1) true tail).map (a ++ ·)) := by
  rw [scanQuot_append q tail (ht.stop ha.right)]
  cases hsq : scanQuot q with
  | none => rfl
  | some x =>
    obtain ⟨v, r⟩ := x
    have hlt := scanQuot_lt hsq
    obtain ⟨pre, hpre, _, _⟩ := scanQuot_prefix hsq
    simp only [Option.map_some, Option.bind_some]
    have hnr : NoVar tail r := NoVar_suffix tail pre r (hpre ▸ hnv)
    have har : Ascii (r ++ tail) := by
      intro x hx
      apply ha x
      rw [hpre]
      rcases List.mem_append.mp hx with hx | hx
      · exact List.mem_append_left _ (List.mem_append_right _ hx)
      · exact List.mem_append_right _ hx
    have hlen : (r ++ tail).length < f := by
      simp only [List.length_append] at hf ⊢
      omega
    rw [ih r (by omega) tail false f har hnr ht hlen]
    have hfuel : pieceToks k false r = pieceToks (r.length + 1) false r :=
      scanRowG_fuel axNone _ _ false r (by omega) (Nat.lt_succ_self _)
    rw [hfuel, bind_map_cons]

theorem decomp : ∀ (n : Nat) (p : List Char), p.length ≤ n → ∀ (tail : List Char) (first : Bool) (fuel : Nat),
    Ascii (p ++ tail) → NoVar tail p → TailOK tail → (p ++ tail).length < fuel →
    scanRowG axCI fuel first (p ++ tail) =
      (pieceToks (p.length + 1) first p).bind (fun a => (scanRowG axCI (tail.length + 1) true tail).map (a ++ ·)) := by
  intro n
  induction n with
  | zero =>
    intro p hp tail first fuel ha hnv ht hf
    have : p = [] := List.eq_nil_of_length_eq_zero (by omega)
    subst this
    cases fuel with
    | zero => omega
    | succ f =>
      simp only [List.nil_append] at hf ha ⊢
      rw [scanRowG_tail_first ha ht f first, scanRowG_fuel axCI (f + 1) (tail.length + 1) true tail hf (Nat.lt_succ_self _)]
      simp [pieceToks, scanRowG_nil]
  | succ m ih =>
    intro p hp tail first fuel ha hnv ht hf
    cases fuel with
    | zero => omega
    | succ f =>
    cases p with
    | nil =>
      simp only [List.nil_append] at hf ha ⊢
      rw [scanRowG_tail_first ha ht f first, scanRowG_fuel axCI (f + 1) (tail.length + 1) true tail hf (Nat.lt_succ_self _)]
      simp [pieceToks, scanRowG_nil]
    | cons c p' =>
      have hc : c.toNat < 128 := ha c (by simp)
      obtain ⟨hv, hnv'⟩ := hnv
      have hcx : axCI c = none := varRest_none_head hc hv
      have hcn : axNone c = none := rfl
      by_cases hs : isSign c = true
      · cases p' with
        | nil =>
          cases tail with
          | nil =>
            simp only [List.append_nil, pieceToks]
            rw [scanRowG_sign_nil hcx hs, scanRowG_sign_nil hcn hs]; rfl
          | cons d t =>
            have hd : d.toNat < 128 := ha d (by simp)
            have hdx : axCI d = none := varRest_none_second hc hd hs hv
            have hds : isSign d = true := by
              rcases ht with ht | ⟨rest, ht⟩
              · cases ht
              · have := varRest_some_head hd ht
                simpa [hdx] using this
            simp only [List.cons_append, List.nil_append, pieceToks]
            rw [scanRowG_sign_num hcx hs hdx, scanRowG_sign_nil hcn hs]
            have : scanQuot (d :: t) = none := by simp [scanQuot, scanLit_sign t hds]
            rw [this]; rfl
        | cons d p'' =>
          have hd : d.toNat < 128 := ha d (by simp)
          have hdx : axCI d = none := varRest_none_second hc hd hs hv
          have hdn : axNone d = none := rfl
          simp only [List.cons_append, pieceToks]
          rw [scanRowG_sign_num hcx hs hdx, scanRowG_sign_num hcn hs hdn]
          have := decomp_num ih (d :: p'') tail (by simp only [List.length_cons] at hp ⊢; omega) (ha.tail) hnv' ht f
            (by simp only [List.length_append, List.length_cons] at hf ⊢; omega)
            (fun v => if c = '-' then v.neg else v) ((d :: p'').length + 1) (by omega)
          simpa [pieceToks] using this
      · have hs' : isSign c = false := by simpa using hs
        cases first with
        | false =>
          simp only [List.cons_append, pieceToks]
          rw [scanRowG_notfirst hcx hs', scanRowG_notfirst hcn hs']; rfl
        | true =>
          simp only [List.cons_append, pieceToks]
          rw [scanRowG_first hcx hs', scanRowG_first hcn hs']
          have := decomp_num ih (c :: p') tail hp ha ⟨hv, hnv'⟩ ht f
            (by simpa using hf) (fun v => v) (c :: p').length
            (Nat.le_refl _)
          simpa [pieceToks] using this

/-! ### `re.split` at the variable terms -/

theorem matchRest_split (n : Nat) (s : List Char) : matchRest rx_split n s = varRest s := matchRest_rxVar n s

theorem searchFrom_spec (n : Nat) : ∀ (s acc : List Char),
    (searchFrom rx_split n acc s = none → NoVar [] s) ∧
    (∀ a m rest, searchFrom rx_split n acc s = some (a, m, rest) →
      ∃ p tail, a = p.reverse ++ acc ∧ s = p ++ tail ∧ NoVar tail p ∧ varRest tail = some rest ∧
        m = tail.take (tail.length - rest.length)) := by
  intro s
  induction s with
  | nil =>
    intro acc
    simp [searchFrom, matchRest_split, varRest, NoVar]
  | cons c s ih =>
    intro acc
    unfold searchFrom
    rw [matchRest_split]
    cases h : varRest (c :: s) with
    | some rest =>
      refine ⟨by simp, ?_⟩
      intro a m rest' e
      simp only [Option.some.injEq, Prod.mk.injEq] at e
      obtain ⟨rfl, rfl, rfl⟩ := e
      exact ⟨[], c :: s, rfl, rfl, trivial, h, rfl⟩
    | none =>
      obtain ⟨ih1, ih2⟩ := ih (c :: acc)
      refine ⟨?_, ?_⟩
      · intro e
        exact ⟨by simpa using h, ih1 e⟩
      · intro a m rest e
        obtain ⟨p, tail, ha, hs, hnv, hv, hm⟩ := ih2 a m rest e
        refine ⟨c :: p, tail, by simp [ha], by simp [hs], ⟨?_, hnv⟩, hv, hm⟩
        rw [← hs]; exact h

theorem splitGo_succ (n fuel : Nat) (s : List Char) :
    splitGo rx_split n true (fuel + 1) s =
      match searchFrom rx_split n [] s with
      | none => [s]
      | some (acc, m, rest) =>
        if m.isEmpty then [s] else acc.reverse :: m :: splitGo rx_split n true fuel rest := by
  conv => lhs; unfold splitGo
  cases searchFrom rx_split n [] s with
  | none => rfl
  | some x => obtain ⟨a, m, r⟩ := x; simp

theorem pieceToks_rowVec : ∀ (f : Nat) (first : Bool) (s : List Char) (a : List Tok),
    pieceToks f first s = some a → rowVec a = (0, 0, 0) := by
  intro f
  induction f with
  | zero => intro first s a h; simp [pieceToks, scanRowG] at h
  | succ f ih =>
    intro first s a h
    unfold pieceToks at h
    cases s with
    | nil => rw [scanRowG_nil] at h; cases h; rfl
    | cons c r =>
      have hcn : axNone c = none := rfl
      by_cases hs : isSign c = true
      · cases r with
        | nil => rw [scanRowG_sign_nil hcn hs] at h; cases h
        | cons d r' =>
          rw [scanRowG_sign_num hcn hs (rfl : axNone d = none)] at h
          cases hq : scanQuot (d :: r') with
          | none => simp [hq] at h
          | some x =>
            simp only [hq, Option.bind_some, Option.map_eq_some_iff] at h
            obtain ⟨b, hb, rfl⟩ := h
            exact ih false _ b hb
      · have hs' : isSign c = false := by simpa using hs
        cases first with
        | false => rw [scanRowG_notfirst hcn hs'] at h; cases h
        | true =>
          rw [scanRowG_first hcn hs'] at h
          cases hq : scanQuot (c :: r) with
          | none => simp [hq] at h
          | some x =>
            simp only [hq, Option.bind_some, Option.map_eq_some_iff] at h
            obtain ⟨b, hb, rfl⟩ := h
            exact ih false _ b hb

/-- the scanner of the model along the first cut of `re.split`: no variable term at all -/
theorem scan_split_none {n : Nat} {s : List Char} (ha : Ascii s) (h : searchFrom rx_split n [] s = none) :
    scanRowG axCI (s.length + 1) true s = pieceToks (s.length + 1) true s := by
  have hnv := (searchFrom_spec n s []).1 h
  have := decomp s.length s (Nat.le_refl _) [] true (s.length + 1) (by simpa using ha) hnv (Or.inl rfl) (by simp)
  simp only [List.append_nil] at this
  rw [this]
  cases pieceToks (s.length + 1) true s with
  | none => rfl
  | some a => simp [scanRowG_nil]

/-- … the constant piece before the first variable term, the term, the rest -/
theorem scan_split_some {n : Nat} {s a m rest : List Char} (ha : Ascii s)
    (h : searchFrom rx_split n [] s = some (a, m, rest)) :
    ∃ (neg : Bool) (ax : Nat), m.isEmpty = false ∧ rest.length < s.length ∧ Ascii rest ∧
      dictGet symvec (lower m) = .ok (unitVec neg ax) ∧
      scanRowG axCI (s.length + 1) true s =
        (pieceToks (a.reverse.length + 1) true a.reverse).bind (fun x =>
          (scanRowG axCI (rest.length + 1) true rest).map (fun b => x ++ Tok.var neg ax :: b)) := by
  obtain ⟨p, tail, hacc, hs, hnv, hv, hm⟩ := (searchFrom_spec n s []).2 a m rest h
  have hap : a.reverse = p := by simp [hacc]
  subst hs
  have hat : Ascii tail := ha.right
  obtain ⟨neg, ax, m', htl, hne, htake, hstep, hdict⟩ := varStep hat hv
  have hmm : m = m' := hm.trans htake
  subst hmm
  have har : Ascii rest := by rw [htl] at hat; exact hat.right
  have hlen : rest.length < (p ++ tail).length := by
    have : 0 < m.length := List.length_pos_iff.mpr hne
    rw [htl]; simp only [List.length_append]; omega
  have hme : m.isEmpty = false := by
    cases m with
    | nil => exact absurd rfl hne
    | cons _ _ => rfl
  refine ⟨neg, ax, hme, hlen, har, hdict, ?_⟩
  have hd := decomp p.length p (Nat.le_refl _) tail true ((p ++ tail).length + 1) ha hnv (Or.inr ⟨rest, hv⟩)
    (Nat.lt_succ_self _)
  rw [hap]
  rw [hd, hstep tail.length true]
  have hfu : scanRowG axCI tail.length true rest = scanRowG axCI (rest.length + 1) true rest :=
    scanRowG_fuel axCI _ _ true rest (by rw [htl]; simp only [List.length_append]; have : 0 < m.length := List.length_pos_iff.mpr hne; omega)
      (Nat.lt_succ_self _)
  rw [hfu]
  cases pieceToks (p.length + 1) true p with
  | none => rfl
  | some x =>
    cases scanRowG axCI (rest.length + 1) true rest with
    | none => rfl
    | some b => rfl

/-! ### the two loops of `getSymOp` over the pieces of one row -/

def addRowP (R : Vec × Vec × Vec) (i : Nat) (v : Vec) : Vec × Vec × Vec :=
  if i = 0 then (addVec R.1 v, R.2.1, R.2.2) else if i = 1 then (R.1, addVec R.2.1 v, R.2.2)
  else (R.1, R.2.1, addVec R.2.2 v)

def addAtP (t : Frac × Frac × Frac) (i : Nat) (c : Frac) : Frac × Frac × Frac :=
  if i = 0 then (t.1.add c, t.2.1, t.2.2) else if i = 1 then (t.1, t.2.1.add c, t.2.2)
  else (t.1, t.2.1, t.2.2.add c)

theorem addRow_ok {i : Nat} (hi : i < 3) (R : Vec × Vec × Vec) (v : Vec) : addRow R i v = .ok (addRowP R i v) := by
  rcases i with _ | _ | _ | i
  · rfl
  · rfl
  · rfl
  · omega

theorem addAt_ok {i : Nat} (hi : i < 3) (t : Frac × Frac × Frac) (c : Frac) : addAt t i c = .ok (addAtP t i c) := by
  rcases i with _ | _ | _ | i
  · rfl
  · rfl
  · rfl
  · omega

theorem addRowP_add (R : Vec × Vec × Vec) (i : Nat) (u v : Vec) :
    addRowP (addRowP R i u) i v = addRowP R i (addVec u v) := by
  unfold addRowP
  split
  · simp [addVec_assoc]
  · split <;> simp [addVec_assoc]

theorem addAtP_add (t : Frac × Frac × Frac) (i : Nat) (a b : Frac) :
    addAtP (addAtP t i a) i b = addAtP t i (a.add b) := by
  unfold addAtP
  split
  · simp [Frac.add_assoc]
  · split <;> simp [Frac.add_assoc]

theorem addVec_zero_right (v : Int × Int × Int) : addVec v (0, 0, 0) = v := by
  simp [addVec]

theorem addRowP_zero (R : Vec × Vec × Vec) (i : Nat) : addRowP R i (0, 0, 0) = R := by
  unfold addRowP
  split
  · simp [addVec_zero_right]
  · split <;> simp [addVec_zero_right]

theorem rowVec_append : ∀ (a b : List Tok), rowVec (a ++ b) = addVec (rowVec a) (rowVec b)
  | [], b => by simp [rowVec, addVec_zero_left]
  | .var n x :: a, b => by simp [rowVec, rowVec_append a b, addVec_assoc]
  | .num _ :: a, b => by simp [rowVec, rowVec_append a b]

theorem rowConst_append : ∀ (a b : List Tok), rowConst (a ++ b) = (rowConst a).add (rowConst b)
  | [], b => by simp [rowConst, Frac.zero_add]
  | .var n x :: a, b => by simp [rowConst, rowConst_append a b]
  | .num _ :: a, b => by simp [rowConst, rowConst_append a b, Frac.add_assoc]

def fR (i : Nat) (R : Vec × Vec × Vec) (Rpart : List Char) : Except Exn (Vec × Vec × Vec) := do
  let v ← dictGet symvec (lower Rpart)
  addRow R i v

def fT (i : Nat) (t : Frac × Frac × Frac) (tpart : List Char) : Except Exn (Frac × Frac × Frac) := do
  let c ← symop_constant tpart
  addAt t i c

theorem slice1_cons2 (p m : List Char) (L : List (List Char)) : sliceStep 1 2 (p :: m :: L) = m :: sliceStep 1 2 L := rfl
theorem slice0_cons2 (p m : List Char) (L : List (List Char)) : sliceStep 0 2 (p :: m :: L) = p :: sliceStep 0 2 L := rfl

theorem slice0_single (p : List Char) : sliceStep 0 2 [p] = [p] := rfl

theorem ok_bind {α β : Type} (a : α) (f : α → Except Exn β) : (Except.ok a >>= f) = f a := rfl
theorem err_bind {α β : Type} (e : Exn) (f : α → Except Exn β) : ((Except.error e : Except Exn α) >>= f) = .error e := rfl

theorem fT_eq {i : Nat} (hi : i < 3) (t : Frac × Frac × Frac) (p : List Char) :
    fT i t p = match pieceToks (p.length + 1) true p with
      | none => .error .structureFormatError
      | some a => .ok (addAtP t i (rowConst a)) := by
  unfold fT
  rw [DS.SrcSymOp3.symop_constant_eq]
  cases pieceToks (p.length + 1) true p with
  | none => rfl
  | some a => simp only [ok_bind]; exact addAt_ok hi _ _

/-- the loop over the variable terms never fails; it adds the model's row vector -/
theorem rowR (n : Nat) {i : Nat} (hi : i < 3) : ∀ (fuel : Nat) (s : List Char) (R0 : Vec × Vec × Vec),
    Ascii s → s.length < fuel →
    ∃ R', (sliceStep 1 2 (splitGo rx_split n true fuel s)).foldlM (fR i) R0 = .ok R' ∧
      ∀ T, scanRowG axCI (s.length + 1) true s = some T → R' = addRowP R0 i (rowVec T) := by
  intro fuel
  induction fuel with
  | zero => intro s R0 _ h; omega
  | succ f ih =>
    intro s R0 ha hf
    rw [splitGo_succ]
    cases hsf : searchFrom rx_split n [] s with
    | none =>
      refine ⟨R0, rfl, ?_⟩
      intro T hT
      rw [scan_split_none ha hsf] at hT
      rw [pieceToks_rowVec _ _ _ _ hT, addRowP_zero]
    | some x =>
      obtain ⟨a, m, rest⟩ := x
      obtain ⟨neg, ax, hme, hlen, har, hdict, hscan⟩ := scan_split_some ha hsf
      simp only [hme, Bool.false_eq_true, if_false, slice1_cons2, List.foldlM_cons]
      obtain ⟨R', hR', hT'⟩ := ih rest (addRowP R0 i (unitVec neg ax)) har (by omega)
      refine ⟨R', ?_, ?_⟩
      · have : fR i R0 m = .ok (addRowP R0 i (unitVec neg ax)) := by
          unfold fR; rw [hdict]; exact addRow_ok hi _ _
        rw [this]; exact hR'
      · intro T hT
        rw [hscan] at hT
        cases hp : pieceToks (a.reverse.length + 1) true a.reverse with
        | none => rw [hp] at hT; cases hT
        | some x =>
          rw [hp] at hT
          cases hb : scanRowG axCI (rest.length + 1) true rest with
          | none => rw [hb] at hT; cases hT
          | some b =>
            rw [hb] at hT
            simp only [Option.bind_some, Option.map_some, Option.some.injEq] at hT
            subst hT
            rw [hT' b hb, addRowP_add, rowVec_append, pieceToks_rowVec _ _ _ _ hp, addVec_zero_left]
            rfl

/-- the loop over the constant pieces: `StructureFormatError` exactly when the model rejects the row, else the model's sum -/
theorem rowT (n : Nat) {i : Nat} (hi : i < 3) : ∀ (fuel : Nat) (s : List Char) (t0 : Frac × Frac × Frac),
    Ascii s → s.length < fuel →
    (sliceStep 0 2 (splitGo rx_split n true fuel s)).foldlM (fT i) t0 =
      match scanRowG axCI (s.length + 1) true s with
      | none => .error .structureFormatError
      | some T => .ok (addAtP t0 i (rowConst T)) := by
  intro fuel
  induction fuel with
  | zero => intro s t0 _ h; omega
  | succ f ih =>
    intro s t0 ha hf
    rw [splitGo_succ]
    cases hsf : searchFrom rx_split n [] s with
    | none =>
      rw [scan_split_none ha hsf]
      show List.foldlM (fT i) t0 [s] = _
      simp only [List.foldlM_cons, List.foldlM_nil, bind_pure]
      exact fT_eq hi t0 s
    | some x =>
      obtain ⟨a, m, rest⟩ := x
      obtain ⟨neg, ax, hme, hlen, har, hdict, hscan⟩ := scan_split_some ha hsf
      simp only [hme, Bool.false_eq_true, if_false, slice0_cons2, List.foldlM_cons]
      rw [hscan, fT_eq hi]
      cases hp : pieceToks (a.reverse.length + 1) true a.reverse with
      | none => rfl
      | some x =>
        simp only [Option.bind_some, ok_bind]
        rw [ih rest (addAtP t0 i (rowConst x)) har (by omega)]
        cases hb : scanRowG axCI (rest.length + 1) true rest with
        | none => rfl
        | some b =>
          simp only [Option.map_some]
          rw [addAtP_add, rowConst_append]
          rfl

/-! ### one pass of `for i in (0, 1, 2)` -/

theorem pySplit_eq (e : List Char) :
    pySplit rx_split rx_split_keep e = some (splitGo rx_split e.length true (e.length + 1) e) := rfl

theorem parseRow_lower {e : List Char} (ha : Ascii e) : parseRow (lower e) = scanRowG axCI (e.length + 1) true e := by
  unfold parseRow
  rw [DS.SrcSymOp5.lower_length, DS.SrcSymOp5.scanRow_lower _ _ _ ha]

/-- **one row**: the body of the loop of `getSymOp` on component `i` is the model's `parseRow` on the lower-cased
component — `StructureFormatError` exactly when the model rejects it, else the model's row vector and constant added -/
theorem getSymOp_row_eq {i : Nat} (hi : i < 3) (eqlist : List (List Char))
    (st : (Vec × Vec × Vec) × (Frac × Frac × Frac)) (e : List Char) (he : eqlist[i]? = some e) (ha : Ascii e) :
    getSymOp_row eqlist st i =
      match parseRow (lower e) with
      | none => .error .structureFormatError
      | some T => .ok (addRowP st.1 i (rowVec T), addAtP st.2 i (rowConst T)) := by
  show (do let e' ← listIndex eqlist i
           let eqparts ← (match pySplit rx_split rx_split_keep e' with | some l => pure l | none => .error .outside)
           let R ← (sliceStep 1 2 eqparts).foldlM (fR i) st.1
           let t ← (sliceStep 0 2 eqparts).foldlM (fT i) st.2
           pure (R, t)) = _
  have hidx : listIndex eqlist i = .ok e := by simp [listIndex, he]
  obtain ⟨R', hR, hRT⟩ := rowR e.length hi (e.length + 1) e st.1 ha (Nat.lt_succ_self _)
  have hT := rowT e.length hi (e.length + 1) e st.2 ha (Nat.lt_succ_self _)
  rw [hidx, ok_bind, pySplit_eq]
  simp only [pure_bind]
  rw [hR, ok_bind, hT, parseRow_lower ha]
  cases hs : scanRowG axCI (e.length + 1) true e with
  | none => rfl
  | some T => rw [hRT T hs]; rfl

theorem getSymOp_row_index {i : Nat} (eqlist : List (List Char))
    (st : (Vec × Vec × Vec) × (Frac × Frac × Frac)) (he : eqlist[i]? = none) :
    getSymOp_row eqlist st i = .error .indexError := by
  show (do let e' ← listIndex eqlist i
           let eqparts ← (match pySplit rx_split rx_split_keep e' with | some l => pure l | none => .error .outside)
           let R ← (sliceStep 1 2 eqparts).foldlM (fR i) st.1
           let t ← (sliceStep 0 2 eqparts).foldlM (fT i) st.2
           pure (R, t)) = _
  have hidx : listIndex eqlist i = .error .indexError := by simp [listIndex, he]
  rw [hidx]; rfl

end DS.SrcSymOp4
