/-
M3 — schedules: the lazily built space-group lookup tables used from several threads
(`spacegroups.py`: `_sg_lookup_table` / `_buildSGLookupTable` / `GetSpaceGroup` and
`_sg_hash_lookup_table` / `_getSGHashLookupTable` / `FindSpaceGroup`).  No Mathlib import.

* Keys are abstract: the table that a complete build produces has the `K` keys `0 … K-1`
  (in insertion order), key `k` carrying the value `val k`.  `K` and `val` are arbitrary.
* A thread performs one lookup of a list of candidate keys (`GetSpaceGroup` tries the identifier
  and two case/blank-normalised variants; `FindSpaceGroup` has one candidate):
  `load table; if empty then build; for q in candidates: if q in table: return table[q]; raise`.
* Two build protocols:
  `inplace clr` — the code before commit e1d4cbb: (`clear()` when `clr`), then one store per key
                  *on the shared table*;
  `publish`     — the current code: fill a private table, then ONE `update` of the shared table.
* Small-step interleaving semantics: in every step any one thread executes its next atomic action
  (CPython: one bytecode / one C call under the GIL).
-/
namespace DS.Sched

/-- a table: key ↦ value (absent = `none`) -/
abbrev Table := Nat → Option Nat

def emptyT : Table := fun _ => none

/-- the table a complete build produces -/
def fullT (K : Nat) (val : Nat → Nat) : Table := fun k => if k < K then some (val k) else none

/-- the first `i` keys stored (state of a table in the middle of a build) -/
def prefixT (K : Nat) (val : Nat → Nat) (i : Nat) : Table :=
  fun k => if k < i ∧ k < K then some (val k) else none

/-- `dict.setdefault(k, v)` / first store of a key -/
def setdefault (t : Table) (k v : Nat) : Table :=
  fun j => if j = k then (match t j with | some w => some w | none => some v) else t j

/-- `shared.update(priv)` -/
def update (s p : Table) : Table := fun k => match p k with | some v => some v | none => s k

/-- `not table` — all keys that are ever stored are `< K` -/
def isEmptyB (K : Nat) (t : Table) : Bool := (List.range K).all fun k => (t k).isNone

def isFullB (K : Nat) (val : Nat → Nat) (t : Table) : Bool :=
  (List.range K).all fun k => t k == some (val k)

inductive Protocol where
  | inplace (clr : Bool)
  | publish
  | unknown
deriving DecidableEq, Repr

/-- shape of the reader functions as extracted from the source -/
inductive Reader where
  | ensureFirst   -- emptiness test (and build) strictly before the first contains / get
  | other
deriving DecidableEq, Repr

inductive Result where
  | found (v : Nat)
  | notFound        -- ValueError: unknown identifier / no such operation list
  | keyError        -- `table[q]` failed after `q in table` succeeded
deriving DecidableEq, Repr

/-- program counter of one thread -/
inductive PC where
  | start                              -- about to test `not table`
  | pbuild (priv : Table) (i : Nat)    -- publish: next store goes to the private table (key `i`); `i = K`: publish
  | iclear                             -- inplace: about to `clear()` the shared table
  | ibuild (i : Nat)                   -- inplace: next store goes to the SHARED table (key `i`)
  | check (rest : List Nat)            -- about to test `q in table` for the head of `rest`
  | get (q : Nat)                      -- `q in table` was true; about to read `table[q]`
  | done (r : Result)

structure Thread where
  qs : List Nat     -- candidate keys of this lookup
  pc : PC

structure State where
  shared : Table
  threads : List Thread

/-- sequential (single-threaded) result of a lookup -/
def seqResult (K : Nat) (val : Nat → Nat) : List Nat → Result
  | [] => .notFound
  | q :: rest => if q < K then .found (val q) else seqResult K val rest

/-- one atomic action of a thread; `none` when the thread has finished -/
def stepThread (P : Protocol) (K : Nat) (val : Nat → Nat) (sh : Table) (th : Thread) :
    Option (Table × Thread) :=
  match th.pc with
  | .start =>
    if isEmptyB K sh then
      match P with
      | .publish => some (sh, { th with pc := .pbuild emptyT 0 })
      | .inplace true => some (sh, { th with pc := .iclear })
      | .inplace false => some (sh, { th with pc := .ibuild 0 })
      | .unknown => none
    else some (sh, { th with pc := .check th.qs })
  | .pbuild priv i =>
    if i < K then some (sh, { th with pc := .pbuild (setdefault priv i (val i)) (i + 1) })
    else some (update sh priv, { th with pc := .check th.qs })
  | .iclear => some (emptyT, { th with pc := .ibuild 0 })
  | .ibuild i =>
    if i < K then some (setdefault sh i (val i), { th with pc := .ibuild (i + 1) })
    else some (sh, { th with pc := .check th.qs })
  | .check [] => some (sh, { th with pc := .done .notFound })
  | .check (q :: rest) =>
    if (sh q).isSome then some (sh, { th with pc := .get q })
    else some (sh, { th with pc := .check rest })
  | .get q =>
    match sh q with
    | some v => some (sh, { th with pc := .done (.found v) })
    | none => some (sh, { th with pc := .done .keyError })
  | .done _ => none

/-- thread number `i` takes one step -/
def step (P : Protocol) (K : Nat) (val : Nat → Nat) (s : State) (i : Nat) : Option State :=
  match s.threads[i]? with
  | none => none
  | some th =>
    match stepThread P K val s.shared th with
    | none => none
    | some (sh', th') => some { shared := sh', threads := s.threads.set i th' }

/-- all threads at the start, nothing built yet -/
def init (lookups : List (List Nat)) : State :=
  { shared := emptyT, threads := lookups.map fun qs => { qs := qs, pc := .start } }

/-- states reachable by any interleaving -/
inductive Reach (P : Protocol) (K : Nat) (val : Nat → Nat) (lookups : List (List Nat)) : State → Prop where
  | init : Reach P K val lookups (init lookups)
  | step {s s' : State} (i : Nat) : Reach P K val lookups s → step P K val s i = some s' →
      Reach P K val lookups s'

/-- run a schedule (list of thread numbers); steps of finished/absent threads are skipped -/
def run (P : Protocol) (K : Nat) (val : Nat → Nat) (s : State) : List Nat → State
  | [] => s
  | i :: rest =>
    match step P K val s i with
    | some s' => run P K val s' rest
    | none => run P K val s rest

/-- run thread `i` until it finishes (at most `fuel` steps) -/
def runToEnd (P : Protocol) (K : Nat) (val : Nat → Nat) (s : State) (i : Nat) : Nat → State
  | 0 => s
  | fuel + 1 =>
    match step P K val s i with
    | some s' => runToEnd P K val s' i fuel
    | none => s

def results (s : State) : List (Option Result) :=
  s.threads.map fun th => match th.pc with | .done r => some r | _ => none

/-- observable class of the shared table -/
inductive TClass where
  | empty | part | complete
deriving DecidableEq, Repr

def classOf (K : Nat) (val : Nat → Nat) (t : Table) : TClass :=
  if isEmptyB K t then .empty else if isFullB K val t then .complete else .part

/-! ### driver -/

def showResult : Option Result → String
  | none => "running"
  | some (.found v) => s!"found:{v}"
  | some .notFound => "notFound"
  | some .keyError => "keyError"

def showClass : TClass → String
  | .empty => "empty" | .part => "partial" | .complete => "complete"

def parseProtocol : String → Option Protocol
  | "publish" => some .publish
  | "inplace" => some (.inplace true)
  | "inplace-noclear" => some (.inplace false)
  | _ => none

/-- count of keys present -/
def nkeys (K : Nat) (t : Table) : Nat := ((List.range K).filter fun k => (t k).isSome).length

/-- execute segments `(thread, nsteps)`; after each segment record the class and the key count -/
def runSegments (P : Protocol) (K : Nat) (val : Nat → Nat) (s : State) :
    List (Nat × Nat) → List String → State × List String
  | [], acc => (s, acc.reverse)
  | (i, n) :: rest, acc =>
    let s' := runToEnd' s i n
    runSegments P K val s' rest (s!"{showClass (classOf K val s'.shared)}/{nkeys K s'.shared}" :: acc)
where
  runToEnd' (s : State) (i : Nat) : Nat → State
    | 0 => s
    | n + 1 => match step P K val s i with
      | some s' => runToEnd' s' i n
      | none => s

def parseNatList (s : String) : Option (List Nat) :=
  if s == "-" then some [] else (s.splitOn ",").mapM String.toNat?

def parseSegs (ws : List String) : Option (List (Nat × Nat)) :=
  ws.mapM fun w => match w.splitOn "*" with
    | [a, b] => do let i ← a.toNat?; let n ← b.toNat?; pure (i, n)
    | _ => none

/-- `sched.run <protocol> <K> <nthreads> <cands thread0> … <cands thread n-1> <thread*steps> …`
candidate lists are comma separated key numbers (`-` = none; keys `≥ K` are unknown identifiers);
values are `val k = k + 1000000`.  Output: `results=r0,r1,… trace=class/nkeys,…` (one entry per segment). -/
def schedHandle (ws : List String) : Option String :=
  match ws with
  | "sched.run" :: p :: k :: n :: rest =>
    some <| (do
      let P ← parseProtocol p
      let K ← k.toNat?
      let n ← n.toNat?
      if rest.length < n then none
      let lookups ← (rest.take n).mapM parseNatList
      let segs ← parseSegs (rest.drop n)
      let val := fun k => k + 1000000
      let (s, tr) := runSegments P K val (init lookups) segs []
      pure s!"results={",".intercalate ((results s).map showResult)} trace={",".intercalate tr}").getD "bad-op"
  | _ => none

end DS.Sched
