/-
M4 — control flow of the parsers' `parseLines` over *abstract documents* (no Mathlib import: this
file is linked into the driver).

Source modelled: `diffpy/structure/parsers/p_{pdffit,discus,xyz,rawxyz,xcfg,pdb,cif}.py` of the
tree under test.  An abstract document keeps, for every line, exactly what the control flow of the
parser looks at: the record keyword, how many tokens there are, and for every token the *result
class* of the primitives applied to it (`float()` succeeds?, `int()` value or failure, first
character `#`, …).  Every primitive that can raise is a function into `Except Kind`.
Outcomes of numeric library calls whose result depends on the actual values (`Lattice(...)`,
`setLatPar`, `setLatBase`, `numpy.linalg.inv`, `setattr` on an `Atom`) are *oracle fields* of the
abstract document: the theorems quantify over all of their possible values; the harness computes
them with the real primitive.

The handler tuple of every `try … except (…)` is a **parameter** (`H : List Kind`); the property
file instantiates it with the tuples generated from the source (`DS/Gen/Handlers.lean`).
-/
namespace DS.Parsers

/-- Exception kinds (the small enum of the line protocol). -/
inductive Kind where
  | SFE | NotImpl
  | ValueError | IndexError | TypeError | KeyError | StopIteration | ZeroDivisionError
  | LatticeError | UnboundLocalError | AttributeError | OverflowError | AssertionError
  | YappsSyntaxError | StarError
  /-- unbounded loop / allocation driven by the input (observed as watchdog timeout or MemoryError) -/
  | Resource
  | Other
  deriving DecidableEq, Repr, Inhabited

def Kind.name : Kind → String
  | .SFE => "SFE" | .NotImpl => "NotImpl" | .ValueError => "ValueError" | .IndexError => "IndexError"
  | .TypeError => "TypeError" | .KeyError => "KeyError" | .StopIteration => "StopIteration"
  | .ZeroDivisionError => "ZeroDivisionError" | .LatticeError => "LatticeError"
  | .UnboundLocalError => "UnboundLocalError" | .AttributeError => "AttributeError"
  | .OverflowError => "OverflowError" | .AssertionError => "AssertionError"
  | .YappsSyntaxError => "YappsSyntaxError" | .StarError => "StarError" | .Resource => "Resource"
  | .Other => "Other"

def Kind.all : List Kind :=
  [.SFE, .NotImpl, .ValueError, .IndexError, .TypeError, .KeyError, .StopIteration, .ZeroDivisionError,
   .LatticeError, .UnboundLocalError, .AttributeError, .OverflowError, .AssertionError,
   .YappsSyntaxError, .StarError, .Resource, .Other]

def Kind.ofName (s : String) : Option Kind := Kind.all.find? (fun k => k.name == s)

abbrev M := Except Kind

/-- What the caller of `parse` observes. `none` is `P_cif` returning `None`. -/
inductive Outcome where
  | ok | none | err (k : Kind)
  deriving DecidableEq, Repr

def Outcome.name : Outcome → String
  | .ok => "ok" | .none => "none" | .err k => k.name

/-- The property: a structure, or the format error, or the documented not-implemented error. -/
def Outcome.allowed : Outcome → Bool
  | .ok => true | .none => true | .err .SFE => true | .err .NotImpl => true | _ => false

def toOutcome : M Unit → Outcome
  | .ok _ => .ok
  | .error k => .err k

/-- `try: body  except H: raise StructureFormatError`. -/
def tryExcept {α} (H : List Kind) (body : M α) : M α :=
  match body with
  | .ok a => .ok a
  | .error k => if k ∈ H then .error .SFE else .error k

/-- `try: body  except H: pass` (used by the ATOM record of p_pdb for the optional columns). -/
def trySwallow (H : List Kind) (body : M Unit) : M Unit :=
  match body with
  | .ok a => .ok a
  | .error k => if k ∈ H then .ok () else .error k

/-! ## Tokens and primitives -/

/-- Keywords the word-based parsers compare tokens with. -/
inductive Kw where
  | other | title | scale | sharp | spcgr | shape | cell | dcell | ncell | format | atoms
  | pdffit | sphere | stepcut | generator | molecule | symmetry
  deriving DecidableEq, Repr, Inhabited

def Kw.ofCode : Nat → Kw
  | 1 => .title | 2 => .scale | 3 => .sharp | 4 => .spcgr | 5 => .shape | 6 => .cell | 7 => .dcell
  | 8 => .ncell | 9 => .format | 10 => .atoms | 11 => .pdffit | 12 => .sphere | 13 => .stepcut
  | 14 => .generator | 15 => .molecule | 16 => .symmetry | _ => .other

def Kw.code : Kw → Nat
  | .other => 0 | .title => 1 | .scale => 2 | .sharp => 3 | .spcgr => 4 | .shape => 5 | .cell => 6 | .dcell => 7
  | .ncell => 8 | .format => 9 | .atoms => 10 | .pdffit => 11 | .sphere => 12 | .stepcut => 13
  | .generator => 14 | .molecule => 15 | .symmetry => 16

/-- One whitespace-separated token, abstracted to the results of the primitives applied to it. -/
structure Tok where
  kw : Kw := .other
  /-- `int(tok)`: the value, or `none` for `ValueError` -/
  int : Option Int := none
  /-- `float(tok)` succeeds -/
  flt : Bool := false
  /-- `tok[0] == '#'` -/
  hash : Bool := false
  /-- `tok == '#'` -/
  isHash : Bool := false
  /-- `str(int(tok)) == tok` -/
  canon : Bool := false
  deriving DecidableEq, Repr, Inhabited

def raise {α} (k : Kind) : M α := .error k

/-- `l[i]` -/
def idx {α} (l : List α) (i : Nat) : M α :=
  match l[i]? with
  | some a => pure a
  | none => raise .IndexError

/-- `float(t)` -/
def pyFloat (t : Tok) : M Unit := if t.flt then pure () else raise .ValueError

/-- `int(t)` -/
def pyInt (t : Tok) : M Int :=
  match t.int with
  | some v => pure v
  | none => raise .ValueError

/-- `[float(w) for w in ts]` -/
def floats : List Tok → M Unit
  | [] => pure ()
  | t :: ts => do pyFloat t; floats ts

/-- `[int(w) for w in ts]` -/
def ints : List Tok → M (List Int)
  | [] => pure []
  | t :: ts => do
    let v ← pyInt t
    let vs ← ints ts
    pure (v :: vs)

/-- `float(l[i])` -/
def floatAt (l : List Tok) (i : Nat) : M Unit := do
  let t ← idx l i
  pyFloat t

/-- Outcome of a lattice construction / update, as computed by the real primitive (oracle field). -/
inductive LatOut where
  | ok | valueError | zeroDiv | latticeError
  deriving DecidableEq, Repr, Inhabited

def LatOut.run : LatOut → M Unit
  | .ok => pure ()
  | .valueError => raise .ValueError
  | .zeroDiv => raise .ZeroDivisionError
  | .latticeError => raise .LatticeError

def LatOut.ofCode : Nat → LatOut
  | 1 => .valueError | 2 => .zeroDiv | 3 => .latticeError | _ => .ok

def LatOut.code : LatOut → Nat
  | .ok => 0 | .valueError => 1 | .zeroDiv => 2 | .latticeError => 3

/-- Outcome of `Lattice(a, b, c, alpha, beta, gamma)` / `setLatPar(...)`: these never raise `LatticeError`. -/
inductive ParOut where
  | ok | valueError | zeroDiv
  deriving DecidableEq, Repr, Inhabited

def ParOut.run : ParOut → M Unit
  | .ok => pure ()
  | .valueError => raise .ValueError
  | .zeroDiv => raise .ZeroDivisionError

def ParOut.ofCode : Nat → Option ParOut
  | 0 => some .ok | 1 => some .valueError | 2 => some .zeroDiv | _ => none

def ParOut.code : ParOut → Nat
  | .ok => 0 | .valueError => 1 | .zeroDiv => 2

/-- `int → float` conversion raises `OverflowError` beyond the double range
(`n ≥ 2^1024 − 2^970` rounds to `2^1024`). -/
def hugeInt (n : Int) : Bool := decide (n.natAbs ≥ 2 ^ 1024 - 2 ^ 970)

/-- `x * n` for a float `x` and an int `n` -/
def mulFloatInt (n : Int) : M Unit := if hugeInt n then raise .OverflowError else pure ()

/-- `reduce(lambda x, y: x * y, l, 1)`; without the initial value an empty list is a `TypeError`. -/
def pyProduct (hasInit : Bool) (l : List Int) : M Int :=
  match l, hasInit with
  | [], false => raise .TypeError
  | l, _ => pure (l.foldl (· * ·) 1)

/-- One line of a word-based format. `cwords` is `line.replace(",", " ").split()`. -/
structure Line where
  words : List Tok := []
  cwords : List Tok := []
  /-- outcome of the lattice call made for this line if it is a complete `cell` record -/
  lat : ParOut := .ok
  deriving DecidableEq, Repr, Inhabited

def Line.blank (l : Line) : Bool := l.words.isEmpty

/-- `stop = len(lines); while stop > 0 and lines[stop-1].strip() == "": stop -= 1; lines[:stop]` -/
def stripTrailing {α} (blank : α → Bool) (ls : List α) : List α :=
  (ls.reverse.dropWhile blank).reverse

/-! ## PDFfit (`p_pdffit.py`) -/

/-- Facts read off the source by the translator (besides the handler tuple). -/
structure PdffitCfg where
  H : List Kind
  /-- `reduce(..., 1)` carries an initial value -/
  reduceInit : Bool
  deriving Repr

structure PdffitDoc where
  lines : List Line
  /-- outcome of `Lattice(*superlatpars)` (only consulted when the supercell branch is taken) -/
  superLat : ParOut := .ok
  deriving DecidableEq, Repr, Inhabited

structure PState where
  cellRead : Bool := false
  /-- `len(latpars)`: 0 (a bare `cell` record → `Lattice()`) or 6 -/
  nLatpars : Nat := 0
  ncell : List Int := [1, 1, 1, 0]
  deriving Repr

/-- `Lattice(*latpars)` with `n` positional arguments. -/
def latticeCtor (n : Nat) (o : ParOut) : M Unit :=
  if n = 0 then pure () else if n < 6 then raise .ValueError else o.run

/-- `_parse_shape(line)` of p_pdffit: all indexing is into the comma-free split. -/
def pdffitShape (l : Line) : M Unit := do
  -- `assert words[0] == "shape"` cannot fail: the record was dispatched on the comma-free first word
  let t ← idx l.cwords 1
  if t.kw = .sphere ∨ t.kw = .stepcut then floatAt l.cwords 2
  else raise .SFE

/-- header loop; returns the state and the lines left in the iterator after `atoms` -/
def pdffitHeader : List Line → PState → M (PState × List Line)
  | [], _ => raise .SFE           -- `for … else: raise StructureFormatError`: no `atoms` record
  | l :: rest, st =>
    match l.words with
    | [] => pdffitHeader rest st
    | w0 :: _ =>
      if w0.hash then pdffitHeader rest st else
      match w0.kw with
      | .title => pdffitHeader rest st
      | .scale => do floatAt l.words 1; pdffitHeader rest st
      | .sharp => do
        let ps := l.cwords.drop 1
        floats ps
        -- sharp_pars[0..2] (or [0..3] when there are at least four)
        if ps.length < 3 then raise .IndexError
        pdffitHeader rest st
      | .spcgr => pdffitHeader rest st
      | .shape => do pdffitShape l; pdffitHeader rest st
      | .cell => do
        let ps := (l.cwords.drop 1).take 6
        floats ps
        latticeCtor ps.length l.lat
        pdffitHeader rest { st with cellRead := true, nLatpars := ps.length }
      | .dcell => do floats ((l.cwords.drop 1).take 6); pdffitHeader rest st
      | .ncell => do
        let v ← ints ((l.cwords.drop 1).take 4)
        pdffitHeader rest { st with ncell := v }
      | .format => do
        let w1 ← idx l.words 1
        if w1.kw ≠ .pdffit then raise .SFE
        pdffitHeader rest st
      | .atoms => if st.cellRead then pure (st, rest) else pdffitHeader rest st
      | _ => pdffitHeader rest st

/-- `next(ilines)` -/
def nextLine {α} : List α → M (α × List α)
  | [] => raise .StopIteration
  | l :: rest => pure (l, rest)

/-- atom block: six lines per atom; returns the number of atoms read -/
def pdffitAtoms : Nat → List Line → Nat → M Nat
  | 0, _, n => pure n          -- fuel, never reached (fuel = number of lines + 1)
  | _, [], n => pure n
  | fuel + 1, l1 :: rest, n => do
    let _ ← idx l1.words 0                     -- wl1[0][0]
    floats ((l1.words.drop 1).take 3)
    floatAt l1.words 4
    let (l2, rest) ← nextLine rest
    floats (l2.words.take 3)
    floatAt l2.words 3
    let (l3, rest) ← nextLine rest
    let (l4, rest) ← nextLine rest
    let (l5, rest) ← nextLine rest
    let (l6, rest) ← nextLine rest
    floatAt l3.words 0; floatAt l3.words 1; floatAt l3.words 2
    floatAt l4.words 0; floatAt l4.words 1; floatAt l4.words 2
    floatAt l5.words 0; floatAt l5.words 1; floatAt l5.words 2
    floatAt l6.words 0; floatAt l6.words 1; floatAt l6.words 2
    pdffitAtoms fuel rest (n + 1)

/-- `[latpars[i] * ncell[i] for i in range(3)]` followed by `Lattice(*superlatpars)` -/
def superStep (nLatpars : Nat) (ncell : List Int) (i : Nat) : M Unit :=
  if nLatpars ≤ i then raise .IndexError
  else do
    let n ← idx ncell i
    mulFloatInt n

def superCell (nLatpars : Nat) (ncell : List Int) (superLat : ParOut) : M Unit := do
  superStep nLatpars ncell 0
  superStep nLatpars ncell 1
  superStep nLatpars ncell 2
  superLat.run

def pdffitBody (cfg : PdffitCfg) (d : PdffitDoc) : M Unit := do
  let ls := stripTrailing Line.blank d.lines
  let (st, rest) ← pdffitHeader ls {}
  if !st.cellRead then raise .SFE
  let natoms ← pyProduct cfg.reduceInit st.ncell
  let n ← pdffitAtoms (rest.length + 1) rest 0
  if (n : Int) ≠ natoms then raise .SFE
  if st.ncell.take 3 ≠ [1, 1, 1] then
    superCell st.nLatpars st.ncell d.superLat

def parsePdffit (cfg : PdffitCfg) (d : PdffitDoc) : Outcome :=
  toOutcome (tryExcept cfg.H (pdffitBody cfg d))

/-! ## DISCUS (`p_discus.py`) -/

structure DiscusCfg where
  H : List Kind
  /-- handler tuple of the inner `try` around `setLatPar` in `_parse_cell` -/
  Hcell : List Kind
  reduceInit : Bool
  deriving Repr

structure DState where
  cellRead : Bool := false
  ncellRead : Bool := false
  ncell : List Int := [1, 1, 1, 0]
  deriving Repr

def discusShape (l : Line) : M Unit := do
  let t ← idx l.cwords 1                        -- wordsfixed[1]
  if t.kw = .sphere ∨ t.kw = .stepcut then floatAt l.words 2     -- float(words[2]) on the *unfixed* split
  else raise .SFE

def discusHeader (cfg : DiscusCfg) : List Line → DState → M (DState × List Line)
  | [], _ => raise .SFE           -- `for … else: raise StructureFormatError`: no `atoms` record
  | l :: rest, st =>
    match l.words with
    | [] => discusHeader cfg rest st
    | w0 :: _ =>
      if w0.hash then discusHeader cfg rest st else
      match w0.kw with
      | .atoms => pure (st, rest)
      | .cell => do
        floats ((l.cwords.drop 1).take 6)
        tryExcept cfg.Hcell l.lat.run            -- setLatPar(*latpars) under the inner handler
        discusHeader cfg rest { st with cellRead := true }
      | .format => do
        let w1 ← idx l.words 1
        if w1.kw = .pdffit then raise .SFE
        discusHeader cfg rest st
      | .generator => raise .NotImpl
      | .molecule => raise .NotImpl
      | .symmetry => raise .NotImpl
      | .ncell => do
        let v ← ints ((l.cwords.drop 1).take 4)
        discusHeader cfg rest { st with ncell := v, ncellRead := true }
      | .shape => do discusShape l; discusHeader cfg rest st
      | _ => discusHeader cfg rest st            -- title, spcgr, unknown records

def discusAtoms : List Line → Nat → M Nat
  | [], n => pure n
  | l :: rest, n =>
    match l.cwords with
    | [] => discusAtoms rest n
    | w0 :: _ =>
      if w0.hash then discusAtoms rest n else do
      floats ((l.cwords.drop 1).take 3)
      floatAt l.cwords 4
      discusAtoms rest (n + 1)

structure DiscusDoc where
  lines : List Line
  superLat : ParOut := .ok
  deriving DecidableEq, Repr, Inhabited

def discusBody (cfg : DiscusCfg) (d : DiscusDoc) : M Unit := do
  let ls := stripTrailing Line.blank d.lines
  let (st, rest) ← discusHeader cfg ls {}
  if !st.cellRead then raise .SFE
  let n ← discusAtoms rest 0
  let exp ← pyProduct cfg.reduceInit st.ncell
  if st.ncellRead ∧ exp ≠ (n : Int) then raise .SFE
  if st.ncell.take 3 ≠ [1, 1, 1] then
    superCell 6 st.ncell d.superLat             -- latpars = list(abcABG()) always has six entries

def parseDiscus (cfg : DiscusCfg) (d : DiscusDoc) : Outcome :=
  toOutcome (tryExcept cfg.H (discusBody cfg d))

/-! ## XYZ (`p_xyz.py`): two separate `try` blocks -/

structure XyzCfg where
  H1 : List Kind
  H2 : List Kind
  /-- the title line may be missing (`lines[start + 1].strip() if start + 1 < len(lines) else ""`) -/
  titleOptional : Bool
  deriving Repr

/-- a line is its `split()` -/
abbrev WLine := List Tok

def isSkip (f : WLine) : Bool :=
  match f with
  | [] => true
  | w :: _ => w.isHash

structure XyzDoc where
  lines : List WLine
  deriving DecidableEq, Repr, Inhabited

/-- `stru.title = lines[start + 1].strip()`, guarded or not -/
def xyzTitle (cfg : XyzCfg) (ls : List WLine) (start : Nat) : M Unit :=
  if cfg.titleOptional then pure ()
  else do
    let _ ← idx ls (start + 1)
    pure ()

/-- first `try`: returns `p_natoms`; `start` is the number of leading skipped lines -/
def xyzHead (cfg : XyzCfg) (ls : List WLine) (start : Nat) : M Int := do
  let lfs ← idx ls start
  let w1 ← idx lfs 0
  if lfs.length = 1 then
    let v ← pyInt w1
    if w1.canon then
      xyzTitle cfg ls start
      pure v
    else raise .SFE
  else raise .SFE

def xyzRecords (nfields : Nat) : List WLine → Nat → M Nat
  | [], n => pure n
  | f :: rest, n =>
    if f.isEmpty then xyzRecords nfields rest n
    else if f.length ≠ nfields then raise .SFE
    else do
      floats ((f.drop 1).take 3)
      xyzRecords nfields rest (n + 1)

def xyzRun (cfg : XyzCfg) (d : XyzDoc) : M Unit := do
  let ls := d.lines
  let start := (ls.takeWhile isSkip).length
  let natoms ← tryExcept cfg.H1 (xyzHead cfg ls start)
  let start := start + 2
  let body := stripTrailing List.isEmpty (ls.drop start)      -- linefields[start:stop]
  if natoms = 0 ∨ body.isEmpty then pure ()
  else
    match body with
    | [] => pure ()
    | f0 :: _ =>
      if f0.length ≠ 4 then raise .SFE
      else do
        let n ← tryExcept cfg.H2 (xyzRecords 4 (ls.drop start) 0)
        if (n : Int) ≠ natoms then raise .SFE

def parseXyz (cfg : XyzCfg) (d : XyzDoc) : Outcome := toOutcome (xyzRun cfg d)

/-! ## RAWXYZ (`p_rawxyz.py`) -/

structure RawxyzCfg where
  H : List Kind
  deriving Repr

def rawRecords (nfields x0 : Nat) : List WLine → M Unit
  | [] => pure ()
  | f :: rest =>
    if f.isEmpty then rawRecords nfields x0 rest
    else if f.length ≠ nfields then raise .SFE
    else do
      floats ((f.drop x0).take 3)
      rawRecords nfields x0 rest

def rawxyzRun (cfg : RawxyzCfg) (d : XyzDoc) : M Unit := do
  let ls := d.lines
  let start := (ls.takeWhile isSkip).length
  let body := stripTrailing List.isEmpty (ls.drop start)
  match body with
  | [] => pure ()
  | f0 :: _ =>
    let n := f0.length
    if n ≠ 3 ∧ n ≠ 4 then raise .SFE
    else
      let ff := f0.map (·.flt)
      if ff.take 3 = [true, true, true] then tryExcept cfg.H (rawRecords n 0 (ls.drop start))
      else if ff.take 4 = [false, true, true, true] then tryExcept cfg.H (rawRecords n 1 (ls.drop start))
      else raise .SFE

def parseRawxyz (cfg : RawxyzCfg) (d : XyzDoc) : Outcome := toOutcome (rawxyzRun cfg d)

/-! ## XCFG (`p_xcfg.py`) -/

structure XcfgCfg where
  H : List Kind
  /-- the explicit `if xcfg_A is None: raise StructureFormatError` check is present -/
  checkA : Bool
  /-- the `ecnt != xcfg_entry_count` check precedes the `for i in range(p_auxnum)` loop -/
  ecntFirst : Bool
  deriving Repr

/-- header view of a line: which `elif` of the header loop it takes once the particle count is known -/
inductive XKind where
  | blank | comment | number | a | h0 | noVelocity | entryCount | aux | other
  deriving DecidableEq, Repr, Inhabited

def XKind.ofCode : Nat → XKind
  | 0 => .blank | 1 => .comment | 2 => .number | 3 => .a | 4 => .h0 | 5 => .noVelocity
  | 6 => .entryCount | 7 => .aux | _ => .other

def XKind.code : XKind → Nat
  | .blank => 0 | .comment => 1 | .number => 2 | .a => 3 | .h0 => 4 | .noVelocity => 5
  | .entryCount => 6 | .aux => 7 | .other => 8

/-- `int(line[k])` for a single character: line too short / not a digit / the digit -/
inductive DigitRes where
  | short | bad | val (d : Nat)
  deriving DecidableEq, Repr, Inhabited

def DigitRes.run : DigitRes → M Nat
  | .short => raise .IndexError
  | .bad => raise .ValueError
  | .val d => pure d

/-- outcome of assigning one auxiliary value to a fresh atom (`_assign_auxiliaries`, real primitive) -/
inductive AuxOut where
  | ok | indexError | typeError | attributeError | valueError
  deriving DecidableEq, Repr, Inhabited

def AuxOut.run : AuxOut → M Unit
  | .ok => pure ()
  | .indexError => raise .IndexError
  | .typeError => raise .TypeError
  | .attributeError => raise .AttributeError
  | .valueError => raise .ValueError

def AuxOut.ofCode : Nat → AuxOut
  | 1 => .indexError | 2 => .typeError | 3 => .attributeError | 4 => .valueError | _ => .ok

def AuxOut.code : AuxOut → Nat
  | .ok => 0 | .indexError => 1 | .typeError => 2 | .attributeError => 3 | .valueError => 4

structure XLine where
  hk : XKind := .other
  /-- the token after the key (`line[k:].split(None, 1)[0]`); `none` = nothing there (`IndexError`) -/
  tok : Option Tok := none
  hi : DigitRes := .short
  hj : DigitRes := .short
  /-- `int(m.group(1))` of an `auxiliary[n] =` line (`none` = `ValueError`, more than 4300 digits) -/
  auxIdx : Option Nat := none
  auxOut : AuxOut := .ok
  /-- data view: `len(line.split())`, `isfloat(words[0])`, all words convert -/
  nw : Nat := 0
  w0flt : Bool := false
  allflt : Bool := false
  deriving DecidableEq, Repr, Inhabited

structure XcfgDoc where
  lines : List XLine
  /-- outcome of `stru.lattice.setLatBase(xcfg_H0)` -/
  baseLat : LatOut := .ok
  deriving DecidableEq, Repr, Inhabited

structure XState where
  aSet : Bool := false
  h0set : List Bool := [false, false, false, false, false, false, false, false, false]
  noVel : Bool := false
  entryCount : Option Int := none
  /-- `p_auxiliary` in dict (insertion) order -/
  aux : List (Nat × AuxOut) := []
  deriving Repr

def tokAt (t : Option Tok) : M Tok :=
  match t with
  | some t => pure t
  | none => raise .IndexError

/-- `d[k] = v` keeping the insertion position of an existing key -/
def dictSet {β} (d : List (Nat × β)) (k : Nat) (v : β) : List (Nat × β) :=
  if d.any (·.1 == k) then d.map (fun p => if p.1 == k then (k, v) else p) else d ++ [(k, v)]

/-- numpy index `H0[i, j]` with `i = d - 1`: valid for `d ∈ {0,1,2,3}` (−1 wraps to the last row) -/
def h0Index (d : Nat) : M Nat :=
  if d = 0 then pure 2 else if d ≤ 3 then pure (d - 1) else raise .IndexError

/-- header loop while `xcfg_Number_of_particles is None`: blank and comment lines are skipped, the
first other line must be the particle count.  `none` = the lines ran out. -/
def xcfgFindNumber : List XLine → M (Option (Int × List XLine))
  | [] => pure none
  | l :: rest =>
    match l.hk with
    | .blank => xcfgFindNumber rest
    | .comment => xcfgFindNumber rest
    | .number => do
      let t ← tokAt l.tok
      let v ← pyInt t
      pure (some (v, rest))
    | _ => raise .SFE

/-- header loop once the particle count is known -/
def xcfgHeader : List XLine → XState → M (XState × List XLine)
  | [], st => pure (st, [])
  | l :: rest, st =>
    match l.hk with
    | .blank => xcfgHeader rest st
    | .comment => xcfgHeader rest st
    | .a => do
      let t ← tokAt l.tok
      pyFloat t
      xcfgHeader rest { st with aSet := true }
    | .h0 => do
      let di ← l.hi.run
      let dj ← l.hj.run
      let t ← tokAt l.tok
      pyFloat t
      let i ← h0Index di
      let j ← h0Index dj
      xcfgHeader rest { st with h0set := st.h0set.set (3 * i + j) true }
    | .noVelocity => xcfgHeader rest { st with noVel := true }
    | .entryCount => do
      let t ← tokAt l.tok
      let v ← pyInt t
      xcfgHeader rest { st with entryCount := some v }
    | .aux =>
      match l.auxIdx with
      | none => raise .ValueError
      | some k => do
        let _ ← tokAt l.tok
        xcfgHeader rest { st with aux := dictSet st.aux k l.auxOut }
    | _ => pure (st, rest)                        -- `else: break` (the line is consumed)

/-- a `for i in range(n)` loop filling a dict beyond this size is observed as hang / MemoryError -/
def resourceBound : Nat := 10 ^ 8

def auxRun : List (Nat × AuxOut) → M Unit
  | [] => pure ()
  | p :: ps => do p.2.run; auxRun ps

/-- data block; `elemSet` is `p_element is not None` -/
def xcfgData (aSet : Bool) (entryCount : Int) (aux : List (Nat × AuxOut)) : List XLine → Bool → Nat → M Nat
  | [], _, n => pure n
  | l :: rest, elemSet, n =>
    if l.nw = 1 ∧ l.w0flt then xcfgData aSet entryCount aux rest elemSet n
    else if l.nw ≤ 1 then xcfgData aSet entryCount aux rest true n
    else if (l.nw : Int) = entryCount ∧ elemSet then do
      if !l.allflt then raise .ValueError
      if !aSet then raise .TypeError            -- `None * float`
      auxRun aux
      xcfgData aSet entryCount aux rest elemSet (n + 1)
    else raise .SFE

/-- `len(p_auxiliary) and max(p_auxiliary.keys()) + 1` -/
def auxNum (aux : List (Nat × AuxOut)) : Nat :=
  match aux.map (·.1) with
  | [] => 0
  | k :: ks => ks.foldl max k + 1

/-- `for i in range(p_auxnum)`: fills the missing indices; afterwards `len(p_auxiliary) = p_auxnum` -/
def xcfgFill (st : XState) : M Unit :=
  if auxNum st.aux ≥ resourceBound then raise .Resource else pure ()

/-- `ecnt != xcfg_entry_count` (`ecnt` is `p_auxnum + 3|6` before the fill loop, `len(p_auxiliary) + 3|6`
after it: the same number) -/
def xcfgEntryCount (st : XState) : M Int :=
  match st.entryCount with
  | none => raise .SFE
  | some ec =>
    if ((auxNum st.aux : Nat) : Int) + (if st.noVel then 3 else 6) ≠ ec then raise .SFE else pure ec

def xcfgAfterHeader (cfg : XcfgCfg) (d : XcfgDoc) (natoms : Int) (st : XState) (rest : List XLine) : M Unit := do
  if cfg.checkA ∧ !st.aSet then raise .SFE
  if st.h0set.any (!·) then raise .SFE
  let ec ← (if cfg.ecntFirst then do
      let ec ← xcfgEntryCount st
      xcfgFill st
      pure ec
    else do
      xcfgFill st
      xcfgEntryCount st)
  d.baseLat.run
  let n ← xcfgData st.aSet ec st.aux rest false 0
  if (n : Int) ≠ natoms then raise .SFE

def xcfgBody (cfg : XcfgCfg) (d : XcfgDoc) : M Unit := do
  let ls := stripTrailing (fun l : XLine => l.hk = .blank) d.lines
  match ← xcfgFindNumber ls with
  | none => raise .SFE      -- no particle count: `xcfg_A is None` / the H0 check raise StructureFormatError
  | some (natoms, ls') =>
    let (st, rest) ← xcfgHeader ls' {}
    xcfgAfterHeader cfg d natoms st rest

def parseXcfg (cfg : XcfgCfg) (d : XcfgDoc) : Outcome :=
  toOutcome (tryExcept cfg.H (xcfgBody cfg d))

/-! ## PDB (`p_pdb.py`) -/

structure PdbCfg where
  H : List Kind
  /-- handler tuple of the inner `try` blocks around the optional occupancy / B columns -/
  Hopt : List Kind
  /-- `elif record in ("SIGATM", "ANISOU", "SIGUIJ") and last_atom is None: raise StructureFormatError` -/
  guard : Bool
  /-- `last_atom = None` is assigned before the loop -/
  lastAtomInit : Bool
  deriving Repr

inductive PRec where
  | blank | title | cryst1 | scale1 | scale2 | scale3 | atom | sigatm | anisou | siguij | valid | invalid
  deriving DecidableEq, Repr, Inhabited

def PRec.ofCode : Nat → PRec
  | 0 => .blank | 1 => .title | 2 => .cryst1 | 3 => .scale1 | 4 => .scale2 | 5 => .scale3 | 6 => .atom
  | 7 => .sigatm | 8 => .anisou | 9 => .siguij | 10 => .valid | _ => .invalid

def PRec.code : PRec → Nat
  | .blank => 0 | .title => 1 | .cryst1 => 2 | .scale1 => 3 | .scale2 => 4 | .scale3 => 5 | .atom => 6
  | .sigatm => 7 | .anisou => 8 | .siguij => 9 | .valid => 10 | .invalid => 11

structure PLine where
  kind : PRec := .invalid
  /-- number of tokens of the coordinate / matrix-row / Uij column range -/
  n : Nat := 0
  /-- all of them convert with `float()` (for CRYST1: all six fixed columns convert) -/
  allf : Bool := false
  /-- `float(line[45:55])` of a SCALEn record succeeds -/
  uf : Bool := false
  /-- optional columns convert (ATOM: occupancy, B; SIGATM: sigo, sigB) -/
  occ : Bool := false
  b : Bool := false
  /-- ATOM: an element symbol can be read (columns 77-78 or 13-14 non-blank) -/
  elemOk : Bool := false
  /-- CRYST1: `setLatPar`; SCALE3: `setLatBase` -/
  lat : LatOut := .ok
  /-- SCALE3: `numpy.linalg.inv(sc)` succeeds; cell consistent with CRYST1; origin offset non-zero -/
  invOk : Bool := true
  consistent : Bool := true
  offset : Bool := false
  deriving DecidableEq, Repr, Inhabited

structure PdbDoc where
  lines : List PLine
  deriving DecidableEq, Repr, Inhabited

/-- `sc[k, :] = [float(x) for x in line[10:40].split()]; scaleU[k] = float(line[45:55])` -/
def pdbScaleRow (l : PLine) : M Unit := do
  if !l.allf then raise .ValueError
  if l.n ≠ 1 ∧ l.n ≠ 3 then raise .ValueError     -- numpy broadcast of the row
  if !l.uf then raise .ValueError

/-- use of `last_atom` before any ATOM record: `None` has no such attribute, or the local is unbound.
(With the guard present this point is not reached: `pdbGuard` has already raised.) -/
def pdbNoAtom (cfg : PdbCfg) : M Unit :=
  if cfg.guard then raise .SFE
  else if cfg.lastAtomInit then raise .AttributeError else raise .UnboundLocalError

/-- the `elif record in ("SIGATM", "ANISOU", "SIGUIJ") and last_atom is None` guard (when present) -/
def pdbGuard (cfg : PdbCfg) (last : Option Bool) : M Unit :=
  if cfg.guard ∧ last.isNone then
    (if cfg.lastAtomInit then raise .SFE else raise .UnboundLocalError)
  else pure ()

/-- state: `none` = no atom yet; `some s` = last atom, `s` = it has a `sigU` attribute.
`kU` is the kind raised when `last_atom.sigU` is read but was never set (`AttributeError`; a parameter
only so that `Lemmas/Parsers.lean` can state that well-ordered documents never reach that site). -/
def pdbLoopK (kU : Kind) (cfg : PdbCfg) : List PLine → Option Bool → M Unit
  | [], _ => pure ()
  | l :: rest, last =>
    match l.kind with
    | .blank => pdbLoopK kU cfg rest last
    | .title => pdbLoopK kU cfg rest last
    | .cryst1 => do
      if !l.allf then raise .ValueError
      l.lat.run
      pdbLoopK kU cfg rest last
    | .scale1 => do pdbScaleRow l; pdbLoopK kU cfg rest last
    | .scale2 => do pdbScaleRow l; pdbLoopK kU cfg rest last
    | .scale3 => do
      pdbScaleRow l
      if !l.invOk then raise .ValueError          -- numpy.linalg.LinAlgError is a ValueError
      l.lat.run
      if !l.consistent then raise .SFE
      if l.offset then raise .NotImpl
      pdbLoopK kU cfg rest last
    | .atom => do
      if !l.allf then raise .ValueError
      trySwallow cfg.Hopt (if l.occ then pure () else raise .ValueError)
      trySwallow cfg.Hopt (if l.b then pure () else raise .ValueError)
      if !l.elemOk then raise .IndexError
      if l.n ≠ 3 then raise .ValueError           -- xyz_cartn setter: shape mismatch
      pdbLoopK kU cfg rest (some false)
    | .sigatm => do
      pdbGuard cfg last
      if !l.allf then raise .ValueError
      if l.n ≠ 3 then raise .ValueError           -- numpy.dot(scale, sigrc)
      trySwallow cfg.Hopt (if l.occ then pure () else raise .ValueError)
      trySwallow cfg.Hopt (if l.b then pure () else raise .ValueError)
      match last with
      | none => pdbNoAtom cfg                     -- `last_atom.sigxyz = …`
      | some _ => pdbLoopK kU cfg rest (some true)
    | .anisou => do
      pdbGuard cfg last
      match last with
      | none => pdbNoAtom cfg                     -- `last_atom.anisotropy = True` comes first
      | some s => do
        if !l.allf then raise .ValueError
        if l.n < 6 then raise .IndexError
        pdbLoopK kU cfg rest (some s)
    | .siguij => do
      pdbGuard cfg last
      if !l.allf then raise .ValueError
      if l.n = 0 then raise .IndexError           -- `sigUij[0]` is evaluated before `last_atom.sigU`
      match last with
      | none => pdbNoAtom cfg
      | some s => do
        if !s then raise kU          -- `last_atom.sigU` exists only after SIGATM
        if l.n < 6 then raise .IndexError
        pdbLoopK kU cfg rest (some s)
    | .valid => pdbLoopK kU cfg rest last
    | .invalid => raise .SFE

def pdbLoop (cfg : PdbCfg) : List PLine → Option Bool → M Unit := pdbLoopK .AttributeError cfg

/-- every SIGUIJ record comes after a SIGATM record of the same atom (syntactic, conservative) -/
def pdbOrdered : List PLine → Option Bool → Bool
  | [], _ => true
  | l :: rest, last =>
    match l.kind with
    | .atom => pdbOrdered rest (some false)
    | .sigatm => pdbOrdered rest (last.map fun _ => true)
    | .siguij => (last != some false) && pdbOrdered rest last
    | _ => pdbOrdered rest last

def parsePdb (cfg : PdbCfg) (d : PdbDoc) : Outcome :=
  toOutcome (tryExcept cfg.H (pdbLoop cfg d.lines none))

/-! ## CIF (`p_cif.py`): diffpy's glue after PyCifRW

PyCifRW (`CifFile(...)`) is a parameter: it either raises one of an enumerated set of kinds or
returns blocks.  The glue runs, for the first block that has `_atom_site_label`, the four block
parsers in order; the outcome kind of each (computed by the real method on the real block) is an
oracle field.  `_parse_lattice` has its own inner handler for `KeyError`. -/

structure CifCfg where
  H : List Kind
  /-- inner handler of `_parse_lattice` -/
  Hlat : List Kind
  deriving Repr

structure CifBlock where
  hasSites : Bool := false
  /-- kind raised inside the inner `try` of `_parse_lattice` (reading the six cell items) -/
  cellItems : Option Kind := none
  /-- kind raised by `Lattice(*latpars)` -/
  lattice : Option Kind := none
  sites : Option Kind := none
  aniso : Option Kind := none
  symops : Option Kind := none
  deriving DecidableEq, Repr, Inhabited

structure CifDoc where
  cifFile : Option Kind := none
  blocks : List CifBlock := []
  deriving DecidableEq, Repr, Inhabited

def step (o : Option Kind) : M Unit :=
  match o with
  | none => pure ()
  | some k => raise k

/-- the four block parsers, in the order `_parseCifBlock` calls them -/
def cifBlock (cfg : CifCfg) (b : CifBlock) : M Unit := do
  tryExcept cfg.Hlat (step b.cellItems)
  step b.lattice
  step b.sites
  step b.aniso
  step b.symops

/-- returns `true` when a structure was produced (first block with `_atom_site_label`) -/
def cifBlocks (cfg : CifCfg) : List CifBlock → M Bool
  | [] => pure false
  | b :: rest =>
    if !b.hasSites then cifBlocks cfg rest
    else (cifBlock cfg b).map (fun _ => true)

def cifBody (cfg : CifCfg) (d : CifDoc) : M Bool := do
  step d.cifFile
  cifBlocks cfg d.blocks

def parseCif (cfg : CifCfg) (d : CifDoc) : Outcome :=
  match tryExcept cfg.H (cifBody cfg d) with
  | .ok true => .ok
  | .ok false => .none
  | .error k => .err k

/-- kinds PyCifRW is assumed to raise -/
def cifFileKinds : List Kind := [.YappsSyntaxError, .StarError, .ValueError, .IndexError, .KeyError, .TypeError]
/-- kinds each glue step may raise (validated by the harness on every document it abstracts) -/
def cifCellKinds : List Kind := [.KeyError, .ValueError, .AttributeError]
def cifLatticeKinds : List Kind := [.ValueError, .ZeroDivisionError]
def cifSitesKinds : List Kind := [.KeyError, .ValueError, .IndexError, .AttributeError, .TypeError]
def cifAnisoKinds : List Kind := [.KeyError, .ValueError, .IndexError, .AttributeError, .TypeError]
def cifSymopsKinds : List Kind :=
  [.SFE, .KeyError, .ValueError, .IndexError, .AttributeError, .TypeError, .ZeroDivisionError]

def optIn (o : Option Kind) (S : List Kind) : Bool :=
  match o with
  | none => true
  | some k => S.contains k

def CifBlock.wf (b : CifBlock) : Bool :=
  optIn b.cellItems cifCellKinds && optIn b.lattice cifLatticeKinds && optIn b.sites cifSitesKinds
    && optIn b.aniso cifAnisoKinds && optIn b.symops cifSymopsKinds

def CifDoc.wf (d : CifDoc) : Bool := optIn d.cifFile cifFileKinds && d.blocks.all CifBlock.wf

/-! ## Kinds each handler tuple has to contain, and a witness document per kind

`needed…` is derived by hand from the model (Lemmas/Parsers.lean proves it sufficient,
`witness…_raises` proves each entry necessary). -/

structure AllCfg where
  pdffit : PdffitCfg
  discus : DiscusCfg
  xyz : XyzCfg
  rawxyz : RawxyzCfg
  xcfg : XcfgCfg
  pdb : PdbCfg
  cif : CifCfg
  deriving Repr

def neededPdffit (cfg : PdffitCfg) : List Kind :=
  [.ValueError, .IndexError, .StopIteration, .ZeroDivisionError, .OverflowError]
    ++ (if cfg.reduceInit then [] else [.TypeError])

def neededDiscus (cfg : DiscusCfg) : List Kind :=
  [.ValueError, .IndexError, .ZeroDivisionError, .OverflowError]
    ++ (if cfg.reduceInit then [] else [.TypeError])

def neededXyz1 : List Kind := [.IndexError, .ValueError]
def neededXyz2 : List Kind := [.ValueError]
def neededRawxyz : List Kind := [.ValueError]

def neededXcfg (_cfg : XcfgCfg) : List Kind :=
  [.ValueError, .IndexError, .TypeError, .ZeroDivisionError, .LatticeError, .AttributeError, .Resource]

def neededPdb (cfg : PdbCfg) : List Kind :=
  [.ValueError, .IndexError, .ZeroDivisionError, .LatticeError, .AttributeError]
    ++ (if cfg.lastAtomInit then [] else [.UnboundLocalError])

def neededCif : List Kind :=
  [.YappsSyntaxError, .StarError, .ValueError, .IndexError, .KeyError, .TypeError, .ZeroDivisionError, .AttributeError]

private def fl : Tok := { flt := true }                       -- a float that is not an int
private def it (v : Int) : Tok := { int := some v, flt := true, canon := true }
private def wd : Tok := {}                                     -- a word
private def kw (k : Kw) : Tok := { kw := k }
private def ln (ws : List Tok) : Line := { words := ws, cwords := ws }
private def cellLine (o : ParOut := .ok) : Line :=
  { words := [kw .cell, fl, fl, fl, fl, fl, fl], cwords := [kw .cell, fl, fl, fl, fl, fl, fl], lat := o }
def hugeVal : Int := 10 ^ 400

def witnessPdffit (k : Kind) : Option PdffitDoc :=
  match k with
  | .ValueError => some { lines := [ln [kw .scale, wd]] }
  | .IndexError => some { lines := [ln [kw .scale]] }
  | .StopIteration => some { lines := [cellLine, ln [kw .atoms], ln [wd, fl, fl, fl, fl]] }
  | .ZeroDivisionError => some { lines := [cellLine .zeroDiv] }
  | .OverflowError => some { lines := [cellLine, ln [kw .ncell, it hugeVal, it 0, it 1, it 1], ln [kw .atoms]] }
  | .TypeError => some { lines := [cellLine, ln [kw .ncell], ln [kw .atoms]] }
  | _ => none

def witnessDiscus (k : Kind) : Option DiscusDoc :=
  match k with
  | .ValueError => some { lines := [ln [kw .cell, wd]] }
  | .IndexError => some { lines := [ln [kw .format]] }
  | .ZeroDivisionError => some { lines := [cellLine, ln [kw .ncell, it 0, it 1, it 1, it 1], ln [kw .atoms]], superLat := .zeroDiv }
  | .OverflowError => some { lines := [cellLine, ln [kw .ncell, it hugeVal, it 0, it 1, it 1], ln [kw .atoms]] }
  | .TypeError => some { lines := [cellLine, ln [kw .ncell], ln [kw .atoms]] }
  | _ => none

def witnessXyz1 (k : Kind) : Option XyzDoc :=
  match k with
  | .IndexError => some { lines := [[]] }
  | .ValueError => some { lines := [[wd]] }
  | _ => none

def witnessXyz2 (k : Kind) : Option XyzDoc :=
  match k with
  | .ValueError => some { lines := [[it 1], [wd], [wd, fl, fl, wd]] }
  | _ => none

def witnessRawxyz (k : Kind) : Option XyzDoc :=
  match k with
  | .ValueError => some { lines := [[fl, fl, fl], [fl, fl, wd]] }
  | _ => none

private def xh (i j : Nat) : XLine := { hk := .h0, tok := some fl, hi := .val i, hj := .val j, nw := 3 }
/-- a complete header for one particle without velocities and with the given auxiliaries -/
private def xHeader (aux : List (Nat × AuxOut)) (ec : Int := 3 + aux.length) : List XLine :=
  [ { hk := .number, tok := some (it 1), nw := 5 }, { hk := .a, tok := some fl, nw := 3 },
    xh 1 1, xh 1 2, xh 1 3, xh 2 1, xh 2 2, xh 2 3, xh 3 1, xh 3 2, xh 3 3,
    { hk := .noVelocity, nw := 1 },
    { hk := .entryCount, tok := some (it ec), nw := 3 } ]
  ++ aux.map (fun p => { hk := .aux, tok := some wd, auxIdx := some p.1, auxOut := p.2, nw := 3 })
private def xAtoms (n : Nat) : List XLine :=
  [ { hk := .other, nw := 1, w0flt := true, allflt := true },      -- mass line, ends the header
    { hk := .other, nw := 1 },                                      -- element symbol
    { hk := .other, nw := n, w0flt := true, allflt := true } ]      -- one atom record

def witnessXcfg (k : Kind) : Option XcfgDoc :=
  match k with
  | .ValueError => some { lines := [{ hk := .number, tok := some wd, nw := 5 }] }
  | .IndexError => some { lines := [{ hk := .number, tok := none, nw := 4 }] }
  | .TypeError => some { lines := xHeader [(0, .typeError)] ++ xAtoms 4 }
  | .AttributeError => some { lines := xHeader [(0, .attributeError)] ++ xAtoms 4 }
  | .ZeroDivisionError => some { lines := xHeader [], baseLat := .zeroDiv }
  | .LatticeError => some { lines := xHeader [], baseLat := .latticeError }
  | .Resource => some { lines := xHeader [(10 ^ 10, .ok)] (10 ^ 10 + 4) }
  | _ => none

private def pAtom : PLine := { kind := .atom, n := 3, allf := true, occ := true, b := true, elemOk := true }

def witnessPdb (k : Kind) : Option PdbDoc :=
  match k with
  | .ValueError => some { lines := [{ kind := .cryst1, allf := false }] }
  | .IndexError => some { lines := [{ pAtom with elemOk := false }] }
  | .ZeroDivisionError => some { lines := [{ kind := .cryst1, allf := true, lat := .zeroDiv }] }
  | .LatticeError => some { lines := [{ kind := .scale3, n := 3, allf := true, uf := true, lat := .latticeError }] }
  | .AttributeError => some { lines := [pAtom, { kind := .siguij, n := 6, allf := true }] }
  | .UnboundLocalError => some { lines := [{ kind := .anisou, n := 6, allf := true }] }
  | _ => none

def witnessCif (k : Kind) : Option CifDoc :=
  match k with
  | .ZeroDivisionError => some { blocks := [{ hasSites := true, lattice := some .ZeroDivisionError }] }
  | .AttributeError => some { blocks := [{ hasSites := true, cellItems := some .AttributeError }] }
  | k => if cifFileKinds.contains k then some { cifFile := some k } else none

/-! ## Line protocol: encoding of abstract documents

One word per item.  `t<kw>,<int|n>,<flags>` is a token (`flags` ⊆ `fhxc`: float ok, starts with `#`,
equals `#`, canonical int); `L<lat>` starts a line, `C` switches to the comma-free split of the same
line; `S<lat>` / `B<lat>` are the document-level lattice outcomes; `X…` an XCFG line; `P…` a PDB
line; `F<kind|->`, `K…` the CIF document. -/

def b01 (b : Bool) : String := if b then "1" else "0"
def of01 (s : String) : Option Bool := if s = "1" then some true else if s = "0" then some false else none

def Tok.encode (t : Tok) : String :=
  let i := match t.int with | some v => toString v | none => "n"
  let f := (if t.flt then "f" else "") ++ (if t.hash then "h" else "") ++ (if t.isHash then "x" else "")
    ++ (if t.canon then "c" else "")
  s!"t{t.kw.code},{i},{f}"

def tail1 (s : String) : String := (s.drop 1).toString

def optInt (s : String) : Option (Option Int) := if s = "n" then some none else s.toInt?.map some
def optNat (s : String) : Option (Option Nat) := if s = "n" then some none else s.toNat?.map some

def Tok.decode (w : String) : Option Tok :=
  match (tail1 w).splitOn "," with
  | [k, i, f] => do
    let k ← k.toNat?
    let i ← optInt i
    let cs := f.toList
    if cs.all (fun c => c == 'f' || c == 'h' || c == 'x' || c == 'c') then
      pure { kw := Kw.ofCode k, int := i, flt := cs.contains 'f', hash := cs.contains 'h',
             isHash := cs.contains 'x', canon := cs.contains 'c' }
    else none
  | _ => none

def Line.encode (l : Line) : List String :=
  [s!"L{l.lat.code}"] ++ l.words.map Tok.encode ++ ["C"] ++ l.cwords.map Tok.encode

/-- decoder state: finished lines (reversed), current line, whether `C` was seen -/
def decodeLines : List String → List Line → Option Line → Bool → Option (List Line)
  | [], acc, cur, _ => some ((match cur with | some l => l :: acc | none => acc).reverse)
  | w :: ws, acc, cur, c =>
    match w.front with
    | 'L' =>
      match (tail1 w).toNat?.bind ParOut.ofCode with
      | some o =>
        let acc := match cur with | some l => l :: acc | none => acc
        decodeLines ws acc (some { lat := o }) false
      | none => none
    | 'C' => if w = "C" then decodeLines ws acc cur true else none
    | 't' =>
      match Tok.decode w, cur with
      | some t, some l =>
        decodeLines ws acc (some (if c then { l with cwords := l.cwords ++ [t] } else { l with words := l.words ++ [t] })) c
      | _, _ => none
    | _ => none

/-- `S<lat>` followed by lines -/
def decodeWordDoc (ws : List String) : Option (ParOut × List Line) :=
  match ws with
  | w :: rest =>
    if w.front = 'S' then do
      let o ← (tail1 w).toNat?.bind ParOut.ofCode
      let ls ← decodeLines rest [] none false
      pure (o, ls)
    else none
  | [] => none

def PdffitDoc.encode (d : PdffitDoc) : List String := [s!"S{d.superLat.code}"] ++ d.lines.flatMap Line.encode
def DiscusDoc.encode (d : DiscusDoc) : List String := [s!"S{d.superLat.code}"] ++ d.lines.flatMap Line.encode
def XyzDoc.encode (d : XyzDoc) : List String := ["S0"] ++ d.lines.flatMap (fun l => ["L0"] ++ l.map Tok.encode)

def DigitRes.encode : DigitRes → String
  | .short => "s" | .bad => "b" | .val d => toString d
def DigitRes.decode (s : String) : Option DigitRes :=
  if s = "s" then some .short else if s = "b" then some .bad else s.toNat?.map .val

def XLine.encode (l : XLine) : String :=
  let (tp, ti, tf) := match l.tok with
    | some t => ("1", (match t.int with | some v => toString v | none => "n"), b01 t.flt)
    | none => ("0", "n", "0")
  let ai := match l.auxIdx with | some k => toString k | none => "n"
  s!"X{l.hk.code},{tp},{ti},{tf},{l.hi.encode},{l.hj.encode},{ai},{l.auxOut.code},{l.nw},{b01 l.w0flt},{b01 l.allflt}"

def XLine.decode (w : String) : Option XLine :=
  match (tail1 w).splitOn "," with
  | [hk, tp, ti, tf, hi, hj, ai, ao, nw, w0, af] => do
    let hk ← hk.toNat?
    let tp ← of01 tp
    let ti ← optInt ti
    let tf ← of01 tf
    let hi ← DigitRes.decode hi
    let hj ← DigitRes.decode hj
    let ai ← optNat ai
    let ao ← ao.toNat?
    let nw ← nw.toNat?
    let w0 ← of01 w0
    let af ← of01 af
    pure { hk := XKind.ofCode hk, tok := if tp then some { int := ti, flt := tf } else none, hi := hi, hj := hj,
           auxIdx := ai, auxOut := AuxOut.ofCode ao, nw := nw, w0flt := w0, allflt := af }
  | _ => none

def XcfgDoc.encode (d : XcfgDoc) : List String := [s!"B{d.baseLat.code}"] ++ d.lines.map XLine.encode

def XcfgDoc.decode (ws : List String) : Option XcfgDoc :=
  match ws with
  | w :: rest =>
    if w.front = 'B' then do
      let o ← (tail1 w).toNat?
      let ls ← rest.mapM XLine.decode
      pure { lines := ls, baseLat := LatOut.ofCode o }
    else none
  | [] => none

def PLine.encode (l : PLine) : String :=
  s!"P{l.kind.code},{l.n},{b01 l.allf},{b01 l.uf},{b01 l.occ},{b01 l.b},{b01 l.elemOk},{l.lat.code},{b01 l.invOk},{b01 l.consistent},{b01 l.offset}"

def PLine.decode (w : String) : Option PLine :=
  match (tail1 w).splitOn "," with
  | [k, n, af, uf, oc, b, el, la, iv, co, off] => do
    let k ← k.toNat?
    let n ← n.toNat?
    let af ← of01 af
    let uf ← of01 uf
    let oc ← of01 oc
    let b ← of01 b
    let el ← of01 el
    let la ← la.toNat?
    let iv ← of01 iv
    let co ← of01 co
    let off ← of01 off
    pure { kind := PRec.ofCode k, n := n, allf := af, uf := uf, occ := oc, b := b, elemOk := el,
           lat := LatOut.ofCode la, invOk := iv, consistent := co, offset := off }
  | _ => none

def PdbDoc.encode (d : PdbDoc) : List String := d.lines.map PLine.encode
def PdbDoc.decode (ws : List String) : Option PdbDoc := (ws.mapM PLine.decode).map (fun ls => { lines := ls })

def encKind (o : Option Kind) : String := match o with | some k => k.name | none => "-"
def decKind (s : String) : Option (Option Kind) := if s = "-" then some none else (Kind.ofName s).map some

def CifBlock.encode (b : CifBlock) : String :=
  s!"K{b01 b.hasSites},{encKind b.cellItems},{encKind b.lattice},{encKind b.sites},{encKind b.aniso},{encKind b.symops}"

def CifBlock.decode (w : String) : Option CifBlock :=
  match (tail1 w).splitOn "," with
  | [h, c, l, s, a, y] => do
    let h ← of01 h
    let c ← decKind c
    let l ← decKind l
    let s ← decKind s
    let a ← decKind a
    let y ← decKind y
    pure { hasSites := h, cellItems := c, lattice := l, sites := s, aniso := a, symops := y }
  | _ => none

def CifDoc.encode (d : CifDoc) : List String := [s!"F{encKind d.cifFile}"] ++ d.blocks.map CifBlock.encode

def CifDoc.decode (ws : List String) : Option CifDoc :=
  match ws with
  | w :: rest =>
    if w.front = 'F' then do
      let f ← decKind (tail1 w)
      let bs ← rest.mapM CifBlock.decode
      pure { cifFile := f, blocks := bs }
    else none
  | [] => none

/-! ## Driver handler -/

def joinWords (ws : List String) : String := String.intercalate " " ws

/-- kinds of `needed` the handler tuple `H` lacks, each with its witness document -/
def missing {δ} (needed H : List Kind) (wit : Kind → Option δ) (enc : δ → List String) (tag : String) : List String :=
  (needed.filter (fun k => !H.contains k)).map (fun k =>
    match wit k with
    | some d => s!"{tag}:{k.name}:{joinWords (enc d)}"
    | none => s!"{tag}:{k.name}:?")

def escapesOf (c : AllCfg) (fmt : String) : Option (List String) :=
  match fmt with
  | "pdffit" => some (missing (neededPdffit c.pdffit) c.pdffit.H witnessPdffit PdffitDoc.encode "pdffit")
  | "discus" => some (missing (neededDiscus c.discus) c.discus.H witnessDiscus DiscusDoc.encode "discus")
  | "xyz" => some (missing neededXyz1 c.xyz.H1 witnessXyz1 XyzDoc.encode "xyz"
                   ++ missing neededXyz2 c.xyz.H2 witnessXyz2 XyzDoc.encode "xyz")
  | "rawxyz" => some (missing neededRawxyz c.rawxyz.H witnessRawxyz XyzDoc.encode "rawxyz")
  | "xcfg" => some (missing (neededXcfg c.xcfg) c.xcfg.H witnessXcfg XcfgDoc.encode "xcfg")
  | "pdb" => some (missing (neededPdb c.pdb) c.pdb.H witnessPdb PdbDoc.encode "pdb")
  | "cif" => some (missing neededCif c.cif.H witnessCif CifDoc.encode "cif")
  | _ => none

/-- `parse.<fmt> <encoded abstract document>` → outcome name under the generated configuration;
`parse.escapes <fmt>` → `|`-separated `fmt:Kind:<encoded witness>` for every needed kind that the
generated handler tuple lacks (`-` when none). -/
def parsersHandle (c : AllCfg) (ws : List String) : Option String :=
  match ws with
  | "parse.pdffit" :: rest =>
    some (match decodeWordDoc rest with
      | some (s, ls) => (parsePdffit c.pdffit { lines := ls, superLat := s }).name
      | none => "bad-op")
  | "parse.discus" :: rest =>
    some (match decodeWordDoc rest with
      | some (s, ls) => (parseDiscus c.discus { lines := ls, superLat := s }).name
      | none => "bad-op")
  | "parse.xyz" :: rest =>
    some (match decodeWordDoc rest with
      | some (_, ls) => (parseXyz c.xyz { lines := ls.map (·.words) }).name
      | none => "bad-op")
  | "parse.rawxyz" :: rest =>
    some (match decodeWordDoc rest with
      | some (_, ls) => (parseRawxyz c.rawxyz { lines := ls.map (·.words) }).name
      | none => "bad-op")
  | "parse.xcfg" :: rest =>
    some (match XcfgDoc.decode rest with
      | some d => (parseXcfg c.xcfg d).name
      | none => "bad-op")
  | "parse.pdb" :: rest =>
    some (match PdbDoc.decode rest with
      | some d => (parsePdb c.pdb d).name
      | none => "bad-op")
  | "parse.cif" :: rest =>
    some (match CifDoc.decode rest with
      | some d => if d.wf then (parseCif c.cif d).name else "bad-doc"
      | none => "bad-op")
  | ["parse.escapes", fmt] =>
    some (match escapesOf c fmt with
      | some [] => "-"
      | some l => String.intercalate " | " l
      | none => "bad-op")
  | _ => none

end DS.Parsers
