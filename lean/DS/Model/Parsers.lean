/-
M4 — control flow of the parsers' `parseLines` over *abstract documents* (no Mathlib import: this
file is linked into the driver).

Source modelled: `diffpy/structure/parsers/p_{pdffit,discus,xyz,rawxyz,xcfg,pdb,cif}.py` of the
tree under test.  An abstract document keeps, for every line, exactly what the control flow of the
parser looks at: the record keyword, how many tokens there are, and for every token the *result
class* of the primitives applied to it (`float()` succeeds?, `int()` value or failure, first
character `#`, …).  Every primitive that can raise is a function into `Except Kind`.
Outcomes of numeric library calls whose result depends on the actual values (`Lattice(...)`,
`setLatPar`, `setLatBase`, `numpy.linalg.inv`, `setattr` on an `Atom`) are *oracle fields* of the
abstract document: the theorems quantify over all of their possible values; the harness computes
them with the real primitive.

The handler tuple of every `try … except (…)` is a **parameter** (`H : List Kind`); the property
file instantiates it with the tuples generated from the source (`DS/Gen/Handlers.lean`).
-/
namespace DS.Parsers

/-- Exception kinds (the small enum of the line protocol). -/
inductive Kind where
  | SFE | NotImpl
  | ValueError | IndexError | TypeError | KeyError | StopIteration | ZeroDivisionError
  | LatticeError | UnboundLocalError | AttributeError | OverflowError | AssertionError
  | YappsSyntaxError | StarError
  /-- unbounded loop / allocation driven by the input (observed as watchdog timeout or MemoryError) -/
  | Resource
  | Other
  deriving DecidableEq, Repr, Inhabited

def Kind.name : Kind → String
  | .SFE => "SFE" | .NotImpl => "NotImpl" | .ValueError => "ValueError" | .IndexError => "IndexError"
  | .TypeError => "TypeError" | .KeyError => "KeyError" | .StopIteration => "StopIteration"
  | .ZeroDivisionError => "ZeroDivisionError" | .LatticeError => "LatticeError"
  | .UnboundLocalError => "UnboundLocalError" | .AttributeError => "AttributeError"
  | .OverflowError => "OverflowError" | .AssertionError => "AssertionError"
  | .YappsSyntaxError => "YappsSyntaxError" | .StarError => "StarError" | .Resource => "Resource"
  | .Other => "Other"

def Kind.all : List Kind :=
  [.SFE, .NotImpl, .ValueError, .IndexError, .TypeError, .KeyError, .StopIteration, .ZeroDivisionError,
   .LatticeError, .UnboundLocalError, .AttributeError, .OverflowError, .AssertionError,
   .YappsSyntaxError, .StarError, .Resource, .Other]

def Kind.ofName (s : String) : Option Kind := Kind.all.find? (fun k => k.name == s)

abbrev M := Except Kind

/-- What the caller of `parse` observes. `none` is `P_cif` returning `None`. -/
inductive Outcome where
  | ok | none | err (k : Kind)
  deriving DecidableEq, Repr

def Outcome.name : Outcome → String
  | .ok => "ok" | .none => "none" | .err k => k.name

/-- The property: a structure, or the format error, or the documented not-implemented error. -/
def Outcome.allowed : Outcome → Bool
  | .ok => true | .none => true | .err .SFE => true | .err .NotImpl => true | _ => false

def toOutcome : M Unit → Outcome
  | .ok _ => .ok
  | .error k => .err k

/-- `try: body  except H: raise StructureFormatError`. -/
def tryExcept {α} (H : List Kind) (body : M α) : M α :=
  match body with
  | .ok a => .ok a
  | .error k => if k ∈ H then .error .SFE else .error k

/-- `try: body  except H: pass` (used by the ATOM record of p_pdb for the optional columns). -/
def trySwallow (H : List Kind) (body : M Unit) : M Unit :=
  match body with
  | .ok a => .ok a
  | .error k => if k ∈ H then .ok () else .error k

/-! ## Tokens and primitives -/

/-- Keywords the word-based parsers compare tokens with. -/
inductive Kw where
  | other | title | scale | sharp | spcgr | shape | cell | dcell | ncell | format | atoms
  | pdffit | sphere | stepcut | generator | molecule | symmetry
  deriving DecidableEq, Repr, Inhabited

def Kw.ofNat : Nat → Kw
  | 1 => .title | 2 => .scale | 3 => .sharp | 4 => .spcgr | 5 => .shape | 6 => .cell | 7 => .dcell
  | 8 => .ncell | 9 => .format | 10 => .atoms | 11 => .pdffit | 12 => .sphere | 13 => .stepcut
  | 14 => .generator | 15 => .molecule | 16 => .symmetry | _ => .other

def Kw.toNat : Kw → Nat
  | .other => 0 | .title => 1 | .scale => 2 | .sharp => 3 | .spcgr => 4 | .shape => 5 | .cell => 6 | .dcell => 7
  | .ncell => 8 | .format => 9 | .atoms => 10 | .pdffit => 11 | .sphere => 12 | .stepcut => 13
  | .generator => 14 | .molecule => 15 | .symmetry => 16

/-- One whitespace-separated token, abstracted to the results of the primitives applied to it. -/
structure Tok where
  kw : Kw := .other
  /-- `int(tok)`: the value, or `none` for `ValueError` -/
  int : Option Int := none
  /-- `float(tok)` succeeds -/
  flt : Bool := false
  /-- `tok[0] == '#'` -/
  hash : Bool := false
  /-- `tok == '#'` -/
  isHash : Bool := false
  /-- `str(int(tok)) == tok` -/
  canon : Bool := false
  deriving DecidableEq, Repr, Inhabited

def raise {α} (k : Kind) : M α := .error k

/-- `l[i]` -/
def idx {α} (l : List α) (i : Nat) : M α :=
  match l[i]? with
  | some a => pure a
  | none => raise .IndexError

/-- `float(t)` -/
def pyFloat (t : Tok) : M Unit := if t.flt then pure () else raise .ValueError

/-- `int(t)` -/
def pyInt (t : Tok) : M Int :=
  match t.int with
  | some v => pure v
  | none => raise .ValueError

/-- `[float(w) for w in ts]` -/
def floats : List Tok → M Unit
  | [] => pure ()
  | t :: ts => do pyFloat t; floats ts

/-- `[int(w) for w in ts]` -/
def ints : List Tok → M (List Int)
  | [] => pure []
  | t :: ts => do
    let v ← pyInt t
    let vs ← ints ts
    pure (v :: vs)

/-- `float(l[i])` -/
def floatAt (l : List Tok) (i : Nat) : M Unit := do
  let t ← idx l i
  pyFloat t

/-- Outcome of a lattice construction / update, as computed by the real primitive (oracle field). -/
inductive LatOut where
  | ok | valueError | zeroDiv | latticeError
  deriving DecidableEq, Repr, Inhabited

def LatOut.run : LatOut → M Unit
  | .ok => pure ()
  | .valueError => raise .ValueError
  | .zeroDiv => raise .ZeroDivisionError
  | .latticeError => raise .LatticeError

def LatOut.ofNat : Nat → LatOut
  | 1 => .valueError | 2 => .zeroDiv | 3 => .latticeError | _ => .ok

def LatOut.toNat : LatOut → Nat
  | .ok => 0 | .valueError => 1 | .zeroDiv => 2 | .latticeError => 3

/-- `int → float` conversion raises `OverflowError` beyond the double range
(`n ≥ 2^1024 − 2^970` rounds to `2^1024`). -/
def hugeInt (n : Int) : Bool := decide (n.natAbs ≥ 2 ^ 1024 - 2 ^ 970)

/-- `x * n` for a float `x` and an int `n` -/
def mulFloatInt (n : Int) : M Unit := if hugeInt n then raise .OverflowError else pure ()

/-- `reduce(lambda x, y: x * y, l, 1)`; without the initial value an empty list is a `TypeError`. -/
def pyProduct (hasInit : Bool) (l : List Int) : M Int :=
  match l, hasInit with
  | [], false => raise .TypeError
  | l, _ => pure (l.foldl (· * ·) 1)

/-- One line of a word-based format. `cwords` is `line.replace(",", " ").split()`. -/
structure Line where
  words : List Tok := []
  cwords : List Tok := []
  /-- outcome of the lattice call made for this line if it is a complete `cell` record -/
  lat : LatOut := .ok
  deriving DecidableEq, Repr, Inhabited

def Line.blank (l : Line) : Bool := l.words.isEmpty

/-- `stop = len(lines); while stop > 0 and lines[stop-1].strip() == "": stop -= 1; lines[:stop]` -/
def stripTrailing {α} (blank : α → Bool) (ls : List α) : List α :=
  (ls.reverse.dropWhile blank).reverse

/-! ## PDFfit (`p_pdffit.py`) -/

/-- Facts read off the source by the translator (besides the handler tuple). -/
structure PdffitCfg where
  H : List Kind
  /-- `reduce(..., 1)` carries an initial value -/
  reduceInit : Bool
  deriving Repr

structure PdffitDoc where
  lines : List Line
  /-- outcome of `Lattice(*superlatpars)` (only consulted when the supercell branch is taken) -/
  superLat : LatOut := .ok
  deriving DecidableEq, Repr, Inhabited

structure PState where
  cellRead : Bool := false
  /-- `len(latpars)`: 0 (a bare `cell` record → `Lattice()`) or 6 -/
  nLatpars : Nat := 0
  ncell : List Int := [1, 1, 1, 0]
  deriving Repr

/-- `Lattice(*latpars)` with `n` positional arguments. -/
def latticeCtor (n : Nat) (o : LatOut) : M Unit :=
  if n = 0 then pure () else if n < 6 then raise .ValueError else o.run

/-- `_parse_shape(line)` of p_pdffit: all indexing is into the comma-free split. -/
def pdffitShape (l : Line) : M Unit := do
  let w0 ← idx l.cwords 0
  if w0.kw ≠ .shape then raise .AssertionError
  let t ← idx l.cwords 1
  if t.kw = .sphere ∨ t.kw = .stepcut then floatAt l.cwords 2
  else raise .SFE

/-- header loop; returns the state and the lines left in the iterator after `atoms` -/
def pdffitHeader : List Line → PState → M (PState × List Line)
  | [], st => pure (st, [])
  | l :: rest, st =>
    match l.words with
    | [] => pdffitHeader rest st
    | w0 :: _ =>
      if w0.hash then pdffitHeader rest st else
      match w0.kw with
      | .title => pdffitHeader rest st
      | .scale => do floatAt l.words 1; pdffitHeader rest st
      | .sharp => do
        let ps := l.cwords.drop 1
        floats ps
        -- sharp_pars[0..2] (or [0..3] when there are at least four)
        if ps.length < 3 then raise .IndexError
        pdffitHeader rest st
      | .spcgr => pdffitHeader rest st
      | .shape => do pdffitShape l; pdffitHeader rest st
      | .cell => do
        let ps := (l.cwords.drop 1).take 6
        floats ps
        latticeCtor ps.length l.lat
        pdffitHeader rest { st with cellRead := true, nLatpars := ps.length }
      | .dcell => do floats ((l.cwords.drop 1).take 6); pdffitHeader rest st
      | .ncell => do
        let v ← ints ((l.cwords.drop 1).take 4)
        pdffitHeader rest { st with ncell := v }
      | .format => do
        let w1 ← idx l.words 1
        if w1.kw ≠ .pdffit then raise .SFE
        pdffitHeader rest st
      | .atoms => if st.cellRead then pure (st, rest) else pdffitHeader rest st
      | _ => pdffitHeader rest st

/-- `next(ilines)` -/
def nextLine {α} : List α → M (α × List α)
  | [] => raise .StopIteration
  | l :: rest => pure (l, rest)

/-- atom block: six lines per atom; returns the number of atoms read -/
def pdffitAtoms : Nat → List Line → Nat → M Nat
  | 0, _, n => pure n          -- fuel, never reached (fuel = number of lines + 1)
  | _, [], n => pure n
  | fuel + 1, l1 :: rest, n => do
    let _ ← idx l1.words 0                     -- wl1[0][0]
    floats ((l1.words.drop 1).take 3)
    floatAt l1.words 4
    let (l2, rest) ← nextLine rest
    floats (l2.words.take 3)
    floatAt l2.words 3
    let (l3, rest) ← nextLine rest
    let (l4, rest) ← nextLine rest
    let (l5, rest) ← nextLine rest
    let (l6, rest) ← nextLine rest
    floatAt l3.words 0; floatAt l3.words 1; floatAt l3.words 2
    floatAt l4.words 0; floatAt l4.words 1; floatAt l4.words 2
    floatAt l5.words 0; floatAt l5.words 1; floatAt l5.words 2
    floatAt l6.words 0; floatAt l6.words 1; floatAt l6.words 2
    pdffitAtoms fuel rest (n + 1)

/-- `[latpars[i] * ncell[i] for i in range(3)]` followed by `Lattice(*superlatpars)` -/
def superCell (nLatpars : Nat) (ncell : List Int) (superLat : LatOut) : M Unit := do
  for i in [0, 1, 2] do
    if nLatpars ≤ i then raise .IndexError
    let n ← idx ncell i
    mulFloatInt n
  superLat.run

def pdffitBody (cfg : PdffitCfg) (d : PdffitDoc) : M Unit := do
  let ls := stripTrailing Line.blank d.lines
  let (st, rest) ← pdffitHeader ls {}
  if !st.cellRead then raise .SFE
  let natoms ← pyProduct cfg.reduceInit st.ncell
  let n ← pdffitAtoms (rest.length + 1) rest 0
  if (n : Int) ≠ natoms then raise .SFE
  if st.ncell.take 3 ≠ [1, 1, 1] then
    superCell st.nLatpars st.ncell d.superLat

def parsePdffit (cfg : PdffitCfg) (d : PdffitDoc) : Outcome :=
  toOutcome (tryExcept cfg.H (pdffitBody cfg d))

/-! ## DISCUS (`p_discus.py`) -/

structure DiscusCfg where
  H : List Kind
  /-- handler tuple of the inner `try` around `setLatPar` in `_parse_cell` -/
  Hcell : List Kind
  reduceInit : Bool
  deriving Repr

structure DState where
  cellRead : Bool := false
  ncellRead : Bool := false
  ncell : List Int := [1, 1, 1, 0]
  deriving Repr

def discusShape (l : Line) : M Unit := do
  let t ← idx l.cwords 1                        -- wordsfixed[1]
  if t.kw = .sphere ∨ t.kw = .stepcut then floatAt l.words 2     -- float(words[2]) on the *unfixed* split
  else raise .SFE

def discusHeader (cfg : DiscusCfg) : List Line → DState → M (DState × List Line)
  | [], st => pure (st, [])
  | l :: rest, st =>
    match l.words with
    | [] => discusHeader cfg rest st
    | w0 :: _ =>
      if w0.hash then discusHeader cfg rest st else
      match w0.kw with
      | .atoms => pure (st, rest)
      | .cell => do
        floats ((l.cwords.drop 1).take 6)
        tryExcept cfg.Hcell l.lat.run            -- setLatPar(*latpars) under the inner handler
        discusHeader cfg rest { st with cellRead := true }
      | .format => do
        let w1 ← idx l.words 1
        if w1.kw = .pdffit then raise .SFE
        discusHeader cfg rest st
      | .generator => raise .NotImpl
      | .molecule => raise .NotImpl
      | .symmetry => raise .NotImpl
      | .ncell => do
        let v ← ints ((l.cwords.drop 1).take 4)
        discusHeader cfg rest { st with ncell := v, ncellRead := true }
      | .shape => do discusShape l; discusHeader cfg rest st
      | _ => discusHeader cfg rest st            -- title, spcgr, unknown records

def discusAtoms : List Line → Nat → M Nat
  | [], n => pure n
  | l :: rest, n =>
    match l.cwords with
    | [] => discusAtoms rest n
    | w0 :: _ =>
      if w0.hash then discusAtoms rest n else do
      floats ((l.cwords.drop 1).take 3)
      floatAt l.cwords 4
      discusAtoms rest (n + 1)

structure DiscusDoc where
  lines : List Line
  superLat : LatOut := .ok
  deriving DecidableEq, Repr, Inhabited

def discusBody (cfg : DiscusCfg) (d : DiscusDoc) : M Unit := do
  let ls := stripTrailing Line.blank d.lines
  let (st, rest) ← discusHeader cfg ls {}
  if !st.cellRead then raise .SFE
  let n ← discusAtoms rest 0
  let exp ← pyProduct cfg.reduceInit st.ncell
  if st.ncellRead ∧ exp ≠ (n : Int) then raise .SFE
  if st.ncell.take 3 ≠ [1, 1, 1] then
    superCell 6 st.ncell d.superLat             -- latpars = list(abcABG()) always has six entries

def parseDiscus (cfg : DiscusCfg) (d : DiscusDoc) : Outcome :=
  toOutcome (tryExcept cfg.H (discusBody cfg d))

/-! ## XYZ (`p_xyz.py`): two separate `try` blocks -/

structure XyzCfg where
  H1 : List Kind
  H2 : List Kind
  deriving Repr

/-- a line is its `split()` -/
abbrev WLine := List Tok

def isSkip (f : WLine) : Bool :=
  match f with
  | [] => true
  | w :: _ => w.isHash

structure XyzDoc where
  lines : List WLine
  deriving DecidableEq, Repr, Inhabited

/-- first `try`: returns `p_natoms`; `start` is the number of leading skipped lines -/
def xyzHead (ls : List WLine) (start : Nat) : M Int := do
  let lfs ← idx ls start
  let w1 ← idx lfs 0
  if lfs.length = 1 then
    let v ← pyInt w1
    if w1.canon then
      let _ ← idx ls (start + 1)                 -- lines[start + 1].strip()
      pure v
    else raise .SFE
  else raise .SFE

def xyzRecords (nfields : Nat) : List WLine → Nat → M Nat
  | [], n => pure n
  | f :: rest, n =>
    if f.isEmpty then xyzRecords nfields rest n
    else if f.length ≠ nfields then raise .SFE
    else do
      floats ((f.drop 1).take 3)
      xyzRecords nfields rest (n + 1)

def xyzRun (cfg : XyzCfg) (d : XyzDoc) : M Unit := do
  let ls := d.lines
  let start := (ls.takeWhile isSkip).length
  let natoms ← tryExcept cfg.H1 (xyzHead ls start)
  let start := start + 2
  let body := stripTrailing List.isEmpty (ls.drop start)      -- linefields[start:stop]
  if natoms = 0 ∨ body.isEmpty then pure ()
  else
    match body with
    | [] => pure ()
    | f0 :: _ =>
      if f0.length ≠ 4 then raise .SFE
      else do
        let n ← tryExcept cfg.H2 (xyzRecords 4 (ls.drop start) 0)
        if (n : Int) ≠ natoms then raise .SFE

def parseXyz (cfg : XyzCfg) (d : XyzDoc) : Outcome := toOutcome (xyzRun cfg d)

/-! ## RAWXYZ (`p_rawxyz.py`) -/

structure RawxyzCfg where
  H : List Kind
  deriving Repr

def rawRecords (nfields x0 : Nat) : List WLine → M Unit
  | [] => pure ()
  | f :: rest =>
    if f.isEmpty then rawRecords nfields x0 rest
    else if f.length ≠ nfields then raise .SFE
    else do
      floats ((f.drop x0).take 3)
      rawRecords nfields x0 rest

def rawxyzRun (cfg : RawxyzCfg) (d : XyzDoc) : M Unit := do
  let ls := d.lines
  let start := (ls.takeWhile isSkip).length
  let body := stripTrailing List.isEmpty (ls.drop start)
  match body with
  | [] => pure ()
  | f0 :: _ =>
    let n := f0.length
    if n ≠ 3 ∧ n ≠ 4 then raise .SFE
    else
      let ff := f0.map (·.flt)
      if ff.take 3 = [true, true, true] then tryExcept cfg.H (rawRecords n 0 (ls.drop start))
      else if ff.take 4 = [false, true, true, true] then tryExcept cfg.H (rawRecords n 1 (ls.drop start))
      else raise .SFE

def parseRawxyz (cfg : RawxyzCfg) (d : XyzDoc) : Outcome := toOutcome (rawxyzRun cfg d)

end DS.Parsers
