/-!
M4 — which symmetry the CIF reader uses: the decision logic of
`P_cif._parse_space_group_symop_operation_xyz` (Mathlib-free; linked into the driver).

A CIF block can state its symmetry in several ways at once: an explicit operator list (under either of two loop
names), a Hall symbol, three Hermann–Mauguin items, two International-Tables-number items.  The reader
1. reads the operator list of the FIRST synonym present (each text through `getSymOp`, which may reject it);
2. forgets the space group of the file read before (`self.spacegroup = None`);
3. if operators were listed: looks the list up among the tabulated settings (`FindSpaceGroup`; unknown = `ValueError`, swallowed);
4. if nothing was found and the identifier (`IT number or Int-Tables number or H-M`) is a known identifier: takes the
   tabulated setting of that identifier (`GetSpaceGroup`) — ALSO when operators were listed (the listed operators are then
   not used: finding `symsource:listed-ops-overridden`);
5. if operators were listed and there is still no group: defines an ad-hoc group from the listed operators;
6. if there is still no group: `StructureFormatError`.

The library functions are parameters (`Env`): `getSymOp` (model: `DS.SymText.parseSymOp`), `FindSpaceGroup`,
`IsSpaceGroupIdentifier`, `GetSpaceGroup` (models: `DS.Lookup`).  Scalar items are strings (a list-valued item — given inside a
loop — makes the real reader raise, which `_parseCifDataSource` turns into the format error; outside this model).
-/
namespace DS.CifSym

/-- exception kinds that can leave the method -/
inductive Exn where
  | structureFormatError
  | indexError
  | valueError
  | other (name : String)
  deriving DecidableEq, Repr, Inhabited

/-- what the method looks at in a CIF block -/
structure Block where
  /-- names present in the block (`name in block`), scalar items and loop columns alike -/
  names : List String
  /-- scalar items: `block.get(name, default)` / `block.get(name)` -/
  items : List (String × String)
  /-- loop columns: `block.GetLoop(name)[name]` -/
  cols : List (String × List String)
  deriving Repr, Inhabited

def Block.has (b : Block) (n : String) : Bool := b.names.contains n

def Block.lookup (b : Block) (n : String) : Option String := (b.items.find? (fun p => p.1 == n)).map (·.2)

/-- `block.get(n, "")` -/
def Block.getD (b : Block) (n : String) : String := (b.lookup n).getD ""

/-- `block.get(n)` (`None` when absent) -/
def Block.get? (b : Block) (n : String) : Option String := b.lookup n

/-- `block.GetLoop(n)[n]` -/
def Block.col (b : Block) (n : String) : List String := ((b.cols.find? (fun p => p.1 == n)).map (·.2)).getD []

/-- Python `a or b` on strings (the empty string is false) -/
def pyOr (a b : String) : String := if a != "" then a else b

/-- Python `a or b` where `a` may be `None` and `b` is a string -/
def optOr (a : Option String) (b : String) : String :=
  match a with
  | some s => if s != "" then s else b
  | none => b

/-- Python `a or None` on a string -/
def orNone (a : String) : Option String := if a != "" then some a else none

/-- the space group the reader ends up with -/
inductive SGRes (G Op : Type) where
  /-- a tabulated setting (the object of the table) -/
  | tab (g : G)
  /-- `SpaceGroup(short_name=…, crystal_system=…, symop_list=…)` -/
  | custom (shortName crystalSystem : String) (ops : List Op)
  deriving Repr

/-- the library functions the method calls -/
structure Env (G Op : Type) where
  /-- `getSymOp(text)` -/
  getSymOp : String → Except Exn Op
  /-- `FindSpaceGroup(ops)`: `none` = `ValueError` -/
  find : List Op → Option G
  /-- `IsSpaceGroupIdentifier(s)` -/
  isId : String → Bool
  /-- `GetSpaceGroup(s)` -/
  getSG : String → Except Exn G
  /-- `str.upper` -/
  upper : String → String

/-- the attributes of the parser object the method reads or writes -/
structure PState (G Op A : Type) where
  stru : List A
  asymmetric_unit : List A
  cif_sgname : Option String
  spacegroup : Option (SGRes G Op)

def symSynonyms : List String := ["_space_group_symop_operation_xyz", "_symmetry_equiv_pos_as_xyz"]

/-- the operator list the reader uses: the column of the first synonym present, every text read by `getSymOp` -/
def listedOps {G Op : Type} (env : Env G Op) (b : Block) : Except Exn (List Op) :=
  match symSynonyms.filter b.has with
  | [] => pure []
  | n :: _ => (b.col n).mapM env.getSymOp

def hall (b : Block) : String := pyOr (b.getD "_space_group_name_Hall") (b.getD "_symmetry_space_group_name_Hall")

def hm (b : Block) : String :=
  pyOr (pyOr (b.getD "_space_group_name_H-M_alt") (b.getD "_space_group_name_H-M_ref")) (b.getD "_symmetry_space_group_name_H-M")

/-- the identifier looked up when the operator list does not decide -/
def sgid (b : Block) : String :=
  pyOr (pyOr (b.getD "_space_group_IT_number") (b.getD "_symmetry_Int_Tables_number")) (hm b)

def crystalSystem {G Op : Type} (env : Env G Op) (b : Block) : String :=
  env.upper (optOr (b.get? "_space_group_crystal_system") (optOr (b.get? "_symmetry_cell_setting") "TRICLINIC"))

/-- the decision, as a function of the listed operators -/
def choose {G Op : Type} (env : Env G Op) (b : Block) (ops : List Op) : Except Exn (SGRes G Op) :=
  match (if ops.isEmpty then none else env.find ops) with
  | some g => pure (.tab g)
  | none =>
    if sgid b != "" && env.isId (sgid b) then do
      let g ← env.getSG (sgid b)
      pure (.tab g)
    else if !ops.isEmpty then pure (.custom ("CIF " ++ pyOr (hall b) "data") (crystalSystem env b) ops)
    else .error .structureFormatError

/-- the whole method up to the call of `_expandAsymmetricUnit` -/
def resolve {G Op A : Type} (env : Env G Op) (b : Block) (st : PState G Op A) : Except Exn (PState G Op A) := do
  let ops ← listedOps env b
  let r ← choose env b ops
  pure { st with asymmetric_unit := st.stru, cif_sgname := orNone (pyOr (hall b) (hm b)), spacegroup := some r }

/-! ## driver: `cifsym.resolve` — operators are opaque numbers, the library functions are given as tables -/

private def unesc (s : String) : String := if s == "~" then "" else s.replace "%20" " "

/-- `cifsym.resolve <names;…> <item=value;…> <col=v|v|…;…> <badop,…> <findkey:result;…> <id=number;…>`
operator texts are opaque; `getSymOp` rejects the texts listed in `badop`; `find` maps a `|`-joined operator list to a
setting number; `isId`/`getSG` by the table of identifiers.  Fields are `~` when empty, blanks written `%20`. -/
def cifsymHandle (ws : List String) : Option String :=
  match ws with
  | ["cifsym.resolve", names, items, cols, bad, finds, ids] =>
    let lst (s : String) : List String := if s == "~" then [] else (s.splitOn ";")
    let kv (s : String) : List (String × String) := (lst s).filterMap (fun e => match e.splitOn "=" with | [k, v] => some (unesc k, unesc v) | _ => none)
    let b : Block := { names := (lst names).map unesc, items := kv items,
                       cols := (kv cols).map (fun p => (p.1, if p.2 == "" then [] else p.2.splitOn "|")) }
    let badl := (lst bad).map unesc
    let findT := (lst finds).filterMap (fun e => match e.splitOn ":" with | [k, v] => some (unesc k, unesc v) | _ => none)
    let idT := kv ids
    let env : Env String String := {
      getSymOp := fun t => if badl.contains t then .error .structureFormatError else .ok t
      find := fun l => (findT.find? (fun p => p.1 == "|".intercalate l)).map (·.2)
      isId := fun s => idT.any (fun p => p.1 == s)
      getSG := fun s => match idT.find? (fun p => p.1 == s) with | some p => .ok p.2 | none => .error .valueError
      upper := String.toUpper }
    let st : PState String String Nat := { stru := [], asymmetric_unit := [], cif_sgname := none, spacegroup := none }
    some (match resolve env b st with
      | .error .structureFormatError => "SFE"
      | .error .indexError => "IndexError"
      | .error .valueError => "ValueError"
      | .error (.other n) => n
      | .ok s =>
        let nm := match s.cif_sgname with | some n => n.replace " " "%20" | none => "~"
        match s.spacegroup with
        | some (.tab g) => "tab " ++ g ++ " " ++ nm
        | some (.custom n c ops) => "custom " ++ n.replace " " "%20" ++ " " ++ c.replace " " "%20" ++ " " ++ "|".intercalate ops ++ " " ++ nm
        | none => "none")
  | _ => none

end DS.CifSym
