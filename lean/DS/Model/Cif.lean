import DS.Model.Orbit
import DS.Model.Constraints
/-!
M4/M1 — the symmetry expansion step of the CIF reader (`P_cif._expandAsymmetricUnit`), exact.

Each listed site is expanded with `expandPosition` (model `Orbit.result`); the `j`-th image carries
the parent's element and occupancy, the label `L` (first image) or `L_<j+1>`, and — for an
anisotropic site — the parent's tensor rotated by the first operation that generates the image.
-/
namespace DS
namespace Cif

structure Site where
  label : String
  elem : String
  x : P3
  occ : Rat
  aniso : Bool
  U : Mat3 Rat
deriving Repr, Inhabited

structure OutAtom where
  site : Nat        -- index of the parent site
  img : Nat         -- index of the image within the orbit (0 = the site itself)
  label : String
  elem : String
  pos : P3
  occ : Rat
  aniso : Bool
  U : Mat3 Rat
deriving Repr, Inhabited

def imageLabel (l : String) (j : Nat) : String := if j = 0 then l else l ++ "_" ++ toString (j + 1)

/-- images of one site -/
def expandSite (ops : List Op) (k E : Int) (i : Nat) (s : Site) : List OutAtom :=
  let r := Orbit.result ops k E (0, 0, 0) s.x
  (List.range r.1.length).map (fun j =>
    let p := r.1.getD j (0, 0, 0)
    let g := (r.2.1.getD j []).headD Op.one
    { site := i, img := j, label := imageLabel s.label j, elem := s.elem, pos := p, occ := s.occ, aniso := s.aniso,
      U := if s.aniso then Con.rotT (Con.rotQ g) s.U else s.U })

def expandFrom (ops : List Op) (k E : Int) : Nat → List Site → List OutAtom
  | _, [] => []
  | i, s :: ss => expandSite ops k E i s ++ expandFrom ops k E (i + 1) ss

/-- the atom list the reader produces: images grouped by parent site, in site order -/
def expand (ops : List Op) (k E : Int) (sites : List Site) : List OutAtom := expandFrom ops k E 0 sites

end Cif
end DS
