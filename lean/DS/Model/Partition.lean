import DS.Model.Orbit
/-!
M1 — the orbit partition of `SymmetryConstraints._findConstraints`, on exact positions (no Mathlib).

Positions are processed in listing order.  A position that is still independent becomes a
generator; every still independent position (the generator itself included) that is equivalent to
it — i.e. coincides, modulo lattice translations, with an image of the generator — is attached to it
and stops being independent.  The result is `coremap`: generator index ↦ indices of its members.
-/
namespace DS
namespace Partition

/-- reduction into the cell (definitionally `Orbit.red` of `DS.Lemmas.Orbit`) -/
def redP (k : Int) (x : P3) : P3 := (x.1 % (24 * k), x.2.1 % (24 * k), x.2.2 % (24 * k))

/-- `p` is (modulo lattice translations) an image of `gen` under one of the operations -/
def inOrbit (ops : List Op) (k : Int) (gen p : P3) : Bool :=
  ops.any (fun g => decide (Orbit.img g k (0, 0, 0) gen = redP k p))

/-- the greedy partition on a list of (index, position) pairs; `fuel` bounds the recursion
(the list gets strictly shorter in every step, `fuel = length` suffices) -/
def partAux (ops : List Op) (k : Int) : Nat → List (Nat × P3) → List (Nat × List Nat)
  | 0, _ => []
  | _, [] => []
  | fuel + 1, (i, p) :: rest =>
    let mine := rest.filter (fun q => inOrbit ops k p q.2)
    let others := rest.filter (fun q => !inOrbit ops k p q.2)
    (i, i :: mine.map (·.1)) :: partAux ops k fuel others

/-- `coremap` of `SymmetryConstraints` for the listed positions -/
def coremap (ops : List Op) (k : Int) (positions : List P3) : List (Nat × List Nat) :=
  partAux ops k positions.length (positions.zipIdx.map (fun pi => (pi.2, pi.1)))

/-- (round 6, T11) the same greedy partition on indices for an arbitrary relation `rel i j` ("listed position `j` is adopted
by the generator `i`"): what `DS.Props.SrcConstraints.findConstraints_eq` proves the loop of `_findConstraints` to compute;
`coremap` is the instance `rel i j = inOrbit ops k positions[i] positions[j]` (`DS.Props.SrcConstraints.coremap_eq_partRel`) -/
def partRel (rel : Nat → Nat → Bool) : Nat → List Nat → List (Nat × List Nat)
  | 0, _ => []
  | _, [] => []
  | fuel + 1, i :: rest =>
    (i, i :: rest.filter (fun j => rel i j)) :: partRel rel fuel (rest.filter (fun j => !rel i j))

end Partition
end DS
