/-
M1 — exact symmetry algebra (no Mathlib import: this file is also used by the driver).

A symmetry operation of `diffpy.structure.spacegroupmod.SymOp` is `x ↦ R x + t` with an
integer 3×3 matrix `R` and a translation `t` whose components are multiples of 1/24.
Here the translation is stored as integers in 24ths.  All arithmetic is exact.
-/
namespace DS

/-- One symmetry operation: rotation part (row major) and translation in 24ths. -/
structure Op where
  r11 : Int
  r12 : Int
  r13 : Int
  r21 : Int
  r22 : Int
  r23 : Int
  r31 : Int
  r32 : Int
  r33 : Int
  t1 : Int
  t2 : Int
  t3 : Int
deriving DecidableEq, Repr, Inhabited

namespace Op

def one : Op := ⟨1, 0, 0, 0, 1, 0, 0, 0, 1, 0, 0, 0⟩

/-- `a.comp b` is "apply `b` first, then `a`", translations reduced modulo lattice
translations (24 twenty-fourths). -/
def comp (a b : Op) : Op :=
  { r11 := a.r11 * b.r11 + a.r12 * b.r21 + a.r13 * b.r31
    r12 := a.r11 * b.r12 + a.r12 * b.r22 + a.r13 * b.r32
    r13 := a.r11 * b.r13 + a.r12 * b.r23 + a.r13 * b.r33
    r21 := a.r21 * b.r11 + a.r22 * b.r21 + a.r23 * b.r31
    r22 := a.r21 * b.r12 + a.r22 * b.r22 + a.r23 * b.r32
    r23 := a.r21 * b.r13 + a.r22 * b.r23 + a.r23 * b.r33
    r31 := a.r31 * b.r11 + a.r32 * b.r21 + a.r33 * b.r31
    r32 := a.r31 * b.r12 + a.r32 * b.r22 + a.r33 * b.r32
    r33 := a.r31 * b.r13 + a.r32 * b.r23 + a.r33 * b.r33
    t1 := (a.r11 * b.t1 + a.r12 * b.t2 + a.r13 * b.t3 + a.t1) % 24
    t2 := (a.r21 * b.t1 + a.r22 * b.t2 + a.r23 * b.t3 + a.t2) % 24
    t3 := (a.r31 * b.t1 + a.r32 * b.t2 + a.r33 * b.t3 + a.t3) % 24 }

def det (a : Op) : Int :=
  a.r11 * (a.r22 * a.r33 - a.r23 * a.r32)
  - a.r12 * (a.r21 * a.r33 - a.r23 * a.r31)
  + a.r13 * (a.r21 * a.r32 - a.r22 * a.r31)

def trace (a : Op) : Int := a.r11 + a.r22 + a.r33

/-- rotation part is the identity matrix (a pure, possibly zero, translation) -/
def isTrans (a : Op) : Bool :=
  a.r11 == 1 && a.r12 == 0 && a.r13 == 0 && a.r21 == 0 && a.r22 == 1 && a.r23 == 0 &&
  a.r31 == 0 && a.r32 == 0 && a.r33 == 1

/-- entries in range: rotation entries in {-1,0,1}, translations in [0,24). -/
def inRange (a : Op) : Bool :=
  let e := fun (x : Int) => decide (-1 ≤ x) && decide (x ≤ 1)
  let t := fun (x : Int) => decide (0 ≤ x) && decide (x < 24)
  e a.r11 && e a.r12 && e a.r13 && e a.r21 && e a.r22 && e a.r23 &&
  e a.r31 && e a.r32 && e a.r33 && t a.t1 && t a.t2 && t a.t3

/-- injective (on `inRange` operations) packed key, used for cheap duplicate detection -/
def key (a : Op) : Nat :=
  ((a.r11 + 1) + 3 * ((a.r12 + 1) + 3 * ((a.r13 + 1) + 3 * ((a.r21 + 1) + 3 * ((a.r22 + 1)
    + 3 * ((a.r23 + 1) + 3 * ((a.r31 + 1) + 3 * ((a.r32 + 1) + 3 * ((a.r33 + 1)
    + 3 * (a.t1 + 24 * (a.t2 + 24 * a.t3))))))))))).toNat

/-- Action on a position given in units of `1/D` (with `24 ∣ D`), result reduced into
`[0, D)` per coordinate. `k = D / 24`. -/
def act (a : Op) (k : Int) (x : Int × Int × Int) : Int × Int × Int :=
  let D := 24 * k
  ((a.r11 * x.1 + a.r12 * x.2.1 + a.r13 * x.2.2 + k * a.t1) % D,
   (a.r21 * x.1 + a.r22 * x.2.1 + a.r23 * x.2.2 + k * a.t2) % D,
   (a.r31 * x.1 + a.r32 * x.2.1 + a.r33 * x.2.2 + k * a.t3) % D)

end Op

/-- Boolean duplicate test on keys (structural recursion, kernel friendly). -/
def nodupNat : List Nat → Bool
  | [] => true
  | x :: xs => !(xs.elem x) && nodupNat xs

/-- Crystal systems as used by the `crystal_system` field. -/
inductive CSys
  | triclinic | monoclinic | orthorhombic | tetragonal | trigonal | hexagonal | cubic
deriving DecidableEq, Repr, Inhabited

/-- One tabulated setting with its metadata, as carried by `SpaceGroup` objects. -/
structure SG where
  number : Nat
  nsym : Nat
  nprim : Nat
  short : String
  pdb : String
  pgname : String
  system : CSys
  ops : List Op
deriving Repr, Inhabited

/-- Untrusted certificate computed by the translator and verified by `checkGroup`. -/
structure Cert where
  gens : List Op            -- generators
  cay  : List (List Nat)    -- cay[i][j] = index of ops[i] ∘ gens[j]
  par  : List (Nat × Nat)   -- par[i] = (p, j) with ops[i] = ops[p] ∘ gens[j]  (unless ops[i] = 1)
  rank : List Nat           -- rank[p] < rank[i] for the parent
  inv  : List Nat           -- ops[i] ∘ ops[inv[i]] = 1
deriving Repr, Inhabited

def getOp (ops : List Op) (i : Nat) : Op := ops.getD i Op.one

/-- (A) every product `ops[i] ∘ gens[j]` is the table entry named by the certificate. -/
def checkCayRow (ops : List Op) (s : Op) : List Op → List Nat → Bool
  | [], _ => true
  | _ :: _, [] => false
  | g :: gs, i :: is => decide (i < ops.length) && decide (getOp ops i = s.comp g) && checkCayRow ops s gs is

def checkCay (ops : List Op) (gens : List Op) : List Op → List (List Nat) → Bool
  | [], _ => true
  | _ :: _, [] => false
  | s :: ss, row :: rows => checkCayRow ops s gens row && checkCay ops gens ss rows

/-- (B) every operation is the identity or `parent ∘ generator` with a parent of smaller rank. -/
def checkParAux (ops gens : List Op) (rank : List Nat) : Nat → List Op → List (Nat × Nat) → Bool
  | _, [], _ => true
  | _, _ :: _, [] => false
  | i, s :: ss, (p, j) :: ps =>
    (decide (s = Op.one) ||
      (decide (p < ops.length) && decide (j < gens.length) &&
       decide (s = (getOp ops p).comp (gens.getD j Op.one)) &&
       decide (rank.getD p 0 < rank.getD i 0))) &&
    checkParAux ops gens rank (i + 1) ss ps

/-- (C) inverses. -/
def checkInv (ops : List Op) : List Op → List Nat → Bool
  | [], _ => true
  | _ :: _, [] => false
  | s :: ss, i :: is => decide (i < ops.length) && decide (s.comp (getOp ops i) = Op.one) && checkInv ops ss is

def checkGroup (ops : List Op) (c : Cert) : Bool :=
  decide (ops.head? = some Op.one) &&
  ops.all Op.inRange &&
  nodupNat (ops.map Op.key) &&
  ops.all (fun a => decide (a.det = 1) || decide (a.det = -1)) &&
  checkCay ops c.gens ops c.cay &&
  checkParAux ops c.gens c.rank 0 ops c.par &&
  checkInv ops ops c.inv

/-- number of pure translations in the list (centring translations incl. the zero one) -/
def ncentring (ops : List Op) : Nat := (ops.filter Op.isTrans).length

def checkCounts (g : SG) : Bool :=
  decide (g.ops.length = g.nsym) &&
  decide (ncentring g.ops * g.nprim = g.nsym)

/-! ### Centring letter -/

/-- translation parts (24ths) of the pure translations, sorted lexicographically by the translator
is not assumed: we compare as sets via membership both ways. -/
def centringVecs (ops : List Op) : List (Int × Int × Int) :=
  (ops.filter Op.isTrans).map (fun a => (a.t1, a.t2, a.t3))

def sameSet (a b : List (Int × Int × Int)) : Bool :=
  a.all (fun x => b.elem x) && b.all (fun x => a.elem x) && decide (a.length = b.length)

/-- Expected centring translations for the lattice letter of a Hermann–Mauguin symbol.
`H` (hexagonal axes of an R lattice) and `R` as used in the tables; `R` in rhombohedral axes
is primitive. -/
def centringOf : Char → Option (List (List (Int × Int × Int)))
  | 'P' => some [[(0,0,0)]]
  | 'A' => some [[(0,0,0),(0,12,12)]]
  | 'B' => some [[(0,0,0),(12,0,12)]]
  | 'C' => some [[(0,0,0),(12,12,0)]]
  | 'I' => some [[(0,0,0),(12,12,12)]]
  | 'F' => some [[(0,0,0),(0,12,12),(12,0,12),(12,12,0)]]
  -- R lattice: hexagonal axes obverse (2/3,1/3,1/3),(1/3,2/3,2/3) or rhombohedral axes (primitive)
  | 'R' => some [[(0,0,0)], [(0,0,0),(16,8,8),(8,16,16)]]
  | 'H' => some [[(0,0,0),(16,8,8),(8,16,16)]]
  | _ => none

def checkCentring (g : SG) : Bool :=
  match g.short.toList.head?, g.pdb.toList.head? with
  | some c1, some c2 =>
    c1 == c2 &&
    (match centringOf c1 with
     | some alts => alts.any (fun e => sameSet (centringVecs g.ops) e)
     | none => false)
  | _, _ => false

/-! ### Crystal class from the (det, trace) census -/

/-- counts of rotation types `[1, 2, 3, 4, 6, -1, m, -3, -4, -6]` among a list of operations -/
def census (ops : List Op) : List Nat :=
  let cnt := fun (d tr : Int) => (ops.filter (fun a => a.det == d && a.trace == tr)).length
  [cnt 1 3, cnt 1 (-1), cnt 1 0, cnt 1 1, cnt 1 2, cnt (-1) (-3), cnt (-1) 1, cnt (-1) 0, cnt (-1) (-1), cnt (-1) (-2)]

/-- The 32 geometric crystal classes: (name, census for the point group, crystal system,
first IT number, last IT number).  Reference data (trusted, see DESIGN §1). -/
def classTable : List (String × List Nat × CSys × Nat × Nat) :=
  [ ("1",     [1,0,0,0,0,0,0,0,0,0], .triclinic,   1,   1),
    ("-1",    [1,0,0,0,0,1,0,0,0,0], .triclinic,   2,   2),
    ("2",     [1,1,0,0,0,0,0,0,0,0], .monoclinic,  3,   5),
    ("m",     [1,0,0,0,0,0,1,0,0,0], .monoclinic,  6,   9),
    ("2/m",   [1,1,0,0,0,1,1,0,0,0], .monoclinic,  10,  15),
    ("222",   [1,3,0,0,0,0,0,0,0,0], .orthorhombic, 16, 24),
    ("mm2",   [1,1,0,0,0,0,2,0,0,0], .orthorhombic, 25, 46),
    ("mmm",   [1,3,0,0,0,1,3,0,0,0], .orthorhombic, 47, 74),
    ("4",     [1,1,0,2,0,0,0,0,0,0], .tetragonal,  75,  80),
    ("-4",    [1,1,0,0,0,0,0,0,2,0], .tetragonal,  81,  82),
    ("4/m",   [1,1,0,2,0,1,1,0,2,0], .tetragonal,  83,  88),
    ("422",   [1,5,0,2,0,0,0,0,0,0], .tetragonal,  89,  98),
    ("4mm",   [1,1,0,2,0,0,4,0,0,0], .tetragonal,  99,  110),
    ("-42m",  [1,3,0,0,0,0,2,0,2,0], .tetragonal,  111, 122),
    ("4/mmm", [1,5,0,2,0,1,5,0,2,0], .tetragonal,  123, 142),
    ("3",     [1,0,2,0,0,0,0,0,0,0], .trigonal,    143, 146),
    ("-3",    [1,0,2,0,0,1,0,2,0,0], .trigonal,    147, 148),
    ("32",    [1,3,2,0,0,0,0,0,0,0], .trigonal,    149, 155),
    ("3m",    [1,0,2,0,0,0,3,0,0,0], .trigonal,    156, 161),
    ("-3m",   [1,3,2,0,0,1,3,2,0,0], .trigonal,    162, 167),
    ("6",     [1,1,2,0,2,0,0,0,0,0], .hexagonal,   168, 173),
    ("-6",    [1,0,2,0,0,0,1,0,0,2], .hexagonal,   174, 174),
    ("6/m",   [1,1,2,0,2,1,1,2,0,2], .hexagonal,   175, 176),
    ("622",   [1,7,2,0,2,0,0,0,0,0], .hexagonal,   177, 182),
    ("6mm",   [1,1,2,0,2,0,6,0,0,0], .hexagonal,   183, 186),
    ("-6m2",  [1,3,2,0,0,0,4,0,0,2], .hexagonal,   187, 190),
    ("6/mmm", [1,7,2,0,2,1,7,2,0,2], .hexagonal,   191, 194),
    ("23",    [1,3,8,0,0,0,0,0,0,0], .cubic,       195, 199),
    ("m-3",   [1,3,8,0,0,1,3,8,0,0], .cubic,       200, 206),
    ("432",   [1,9,8,6,0,0,0,0,0,0], .cubic,       207, 214),
    ("-43m",  [1,3,8,0,0,0,6,0,6,0], .cubic,       215, 220),
    ("m-3m",  [1,9,8,6,0,1,9,8,6,0], .cubic,       221, 230) ]

/-- class-table row for an International Tables number -/
def classOfNumber (n : Nat) : Option (String × List Nat × CSys × Nat × Nat) :=
  classTable.find? (fun r => decide (r.2.2.2.1 ≤ n) && decide (n ≤ r.2.2.2.2))

/-- The operations imply the crystal class registered for `number % 1000`, and the declared
crystal system is the system of that class. -/
def checkClass (g : SG) : Bool :=
  match classOfNumber (g.number % 1000) with
  | some (_, cen, sys, _, _) =>
    let nc := ncentring g.ops
    decide (sys = g.system) && decide (census g.ops = cen.map (· * nc))
  | none => false

def checkSG (g : SG) (c : Cert) : Bool :=
  checkGroup g.ops c && checkCounts g && checkCentring g && checkClass g

end DS
