import DS.Model.Sym
import DS.Model.Lin
/-!
# Lattice-compatibility rule of `isSpaceGroupLatPar` and invariance of the metric tensor

(no Mathlib import)

* `CellP α` — the six cell parameters `a b c alpha beta gamma` (angles in degrees);
  `metric` — the metric tensor `g11 = a*a, g12 = a*b*cosd gamma, …`.
* `Invariant R G` — `Rᵀ G R = G` for the rotation part of an operation (3×3 matrices, all nine entries).
* `rule` — the seven crystal-system rules of
  `diffpy.structure.symmetryutilities.isSpaceGroupLatPar`, written as the code states them
  (a Python chain `x == y == 90` is `x == y and y == 90`).
* `Atom`/`Conj`/`DNF` — the same rules as data (disjunction of conjunctions of equalities, each
  conjunction normalised to equivalence classes: `x == y == 90` becomes `x == 90, y == 90`);
  `ruleTable` is that normal form of `rule` (`DS.LatRule.rule_iff_table`), `Gen.ruleSrc` is what the
  translator `translate/latpar.py` reads from the repository's source.
* linear forms `LF` in the six metric entries, `entryForm R e` = entry `e` of `Rᵀ G R − G`,
  and the Boolean certificate checker `checkLatCert`.
-/
namespace DS.LatRule
open DS

/-- cell parameters as passed to `isSpaceGroupLatPar` (angles in degrees) -/
structure CellP (α : Type) where
  a : α
  b : α
  c : α
  alpha : α
  beta : α
  gamma : α
deriving Repr, Inhabited

/-- symmetric metric tensor, upper triangle -/
structure Metric (α : Type) where
  g11 : α
  g22 : α
  g33 : α
  g12 : α
  g13 : α
  g23 : α
deriving Repr, Inhabited

inductive Len | a | b | c
deriving DecidableEq, Repr, Inhabited

inductive Ang | alpha | beta | gamma
deriving DecidableEq, Repr, Inhabited

/-- the axis opposite to an angle (`alpha` is the angle between `b` and `c`) -/
def Ang.opp : Ang → Len
  | .alpha => .a | .beta => .b | .gamma => .c
/-- first axis of the angle -/
def Ang.ax1 : Ang → Len
  | .alpha => .b | .beta => .a | .gamma => .a
/-- second axis of the angle -/
def Ang.ax2 : Ang → Len
  | .alpha => .c | .beta => .c | .gamma => .b

section generic
variable {α : Type}

def CellP.len (c : CellP α) : Len → α
  | .a => c.a | .b => c.b | .c => c.c
def CellP.ang (c : CellP α) : Ang → α
  | .alpha => c.alpha | .beta => c.beta | .gamma => c.gamma

def Metric.diag (G : Metric α) : Len → α
  | .a => G.g11 | .b => G.g22 | .c => G.g33
def Metric.off (G : Metric α) : Ang → α
  | .alpha => G.g23 | .beta => G.g13 | .gamma => G.g12

/-- the full symmetric 3×3 matrix -/
def Metric.toMat (G : Metric α) : Mat3 α :=
  ⟨G.g11, G.g12, G.g13, G.g12, G.g22, G.g23, G.g13, G.g23, G.g33⟩

/-- metric tensor of a cell: `g_ii = a_i²`, `g_ij = a_i a_j cos(angle_ij)` -/
def metric [Mul α] [Elem α] (c : CellP α) : Metric α :=
  { g11 := c.a * c.a, g22 := c.b * c.b, g33 := c.c * c.c,
    g12 := c.a * c.b * Elem.cosd c.gamma,
    g13 := c.a * c.c * Elem.cosd c.beta,
    g23 := c.b * c.c * Elem.cosd c.alpha }

/-- rotation part of an operation as a matrix over `α` -/
def rotMat [IntCast α] (R : Op) : Mat3 α :=
  ⟨(R.r11 : α), (R.r12 : α), (R.r13 : α), (R.r21 : α), (R.r22 : α), (R.r23 : α),
   (R.r31 : α), (R.r32 : α), (R.r33 : α)⟩

/-- `Rᵀ G R = G` (all nine entries): the operation `x ↦ R x + t` preserves the scalar product
`xᵀ G y` of the lattice with metric `G` -/
def Invariant [IntCast α] [Add α] [Mul α] (R : Op) (G : Metric α) : Prop :=
  ((rotMat R : Mat3 α).transpose.mul G.toMat).mul (rotMat R) = G.toMat

/-! ### The rule, as the code states it -/

/-- `isSpaceGroupLatPar`: `crystal_system_rules[spacegroup.crystal_system]()`.
Python's `x == y == z` is `x == y and y == z`. -/
def rule [OfNat α 90] [OfNat α 120] : CSys → CellP α → Prop
  | .triclinic, _ => True
  | .monoclinic, c =>
      (c.alpha = c.gamma ∧ c.gamma = 90) ∨ (c.alpha = c.beta ∧ c.beta = 90) ∨ (c.beta = c.gamma ∧ c.gamma = 90)
  | .orthorhombic, c => c.alpha = c.beta ∧ c.beta = c.gamma ∧ c.gamma = 90
  | .tetragonal, c => c.a = c.b ∧ (c.alpha = c.beta ∧ c.beta = c.gamma ∧ c.gamma = 90)
  | .trigonal, c =>
      ((c.a = c.b ∧ c.b = c.c) ∧ (c.alpha = c.beta ∧ c.beta = c.gamma)) ∨
      (c.a = c.b ∧ (c.alpha = c.beta ∧ c.beta = 90) ∧ c.gamma = 120)
  | .hexagonal, c => c.a = c.b ∧ (c.alpha = c.beta ∧ c.beta = 90) ∧ c.gamma = 120
  | .cubic, c => (c.a = c.b ∧ c.b = c.c) ∧ (c.alpha = c.beta ∧ c.beta = c.gamma ∧ c.gamma = 90)

/-! ### The rule as data -/

/-- one equality of a normalised conjunction -/
inductive Atom
  | lenEq (x y : Len)          -- `x == y` for two lengths
  | angEq (x y : Ang)          -- `x == y` for two angles
  | angIs (x : Ang) (v : Nat)  -- `x == v` for an angle and an integer literal
deriving DecidableEq, Repr, Inhabited

abbrev Conj := List Atom
abbrev DNF := List Conj

def evalAtom [NatCast α] (c : CellP α) : Atom → Prop
  | .lenEq x y => c.len x = c.len y
  | .angEq x y => c.ang x = c.ang y
  | .angIs x v => c.ang x = (v : α)

def evalConj [NatCast α] (c : CellP α) (k : Conj) : Prop := ∀ a ∈ k, evalAtom c a
def evalDNF [NatCast α] (c : CellP α) (d : DNF) : Prop := ∃ k ∈ d, evalConj c k

end generic

/-- normal form of `rule` (what `translate/latpar.py` must read from the source for the
model to agree with it): each conjunction sorted, alternatives sorted -/
def ruleTable : CSys → DNF
  | .triclinic => [[]]
  | .monoclinic => [[.angIs .alpha 90, .angIs .beta 90], [.angIs .alpha 90, .angIs .gamma 90],
                    [.angIs .beta 90, .angIs .gamma 90]]
  | .orthorhombic => [[.angIs .alpha 90, .angIs .beta 90, .angIs .gamma 90]]
  | .tetragonal => [[.lenEq .a .b, .angIs .alpha 90, .angIs .beta 90, .angIs .gamma 90]]
  | .trigonal => [[.lenEq .a .b, .lenEq .b .c, .angEq .alpha .beta, .angEq .beta .gamma],
                  [.lenEq .a .b, .angIs .alpha 90, .angIs .beta 90, .angIs .gamma 120]]
  | .hexagonal => [[.lenEq .a .b, .angIs .alpha 90, .angIs .beta 90, .angIs .gamma 120]]
  | .cubic => [[.lenEq .a .b, .lenEq .b .c, .angIs .alpha 90, .angIs .beta 90, .angIs .gamma 90]]

def allSys : List CSys :=
  [.triclinic, .monoclinic, .orthorhombic, .tetragonal, .trigonal, .hexagonal, .cubic]

/-- the crystal systems for which a rule table (read from the source) equals the model's -/
def agreeing (src : CSys → DNF) : List CSys := allSys.filter (fun S => decide (src S = ruleTable S))

/-! ### Linear forms in the six metric entries -/

/-- `c11*g11 + c22*g22 + c33*g33 + c12*g12 + c13*g13 + c23*g23` -/
structure LF where
  c11 : Int
  c22 : Int
  c33 : Int
  c12 : Int
  c13 : Int
  c23 : Int
deriving DecidableEq, Repr, Inhabited

namespace LF
def zero : LF := ⟨0, 0, 0, 0, 0, 0⟩
def add (f g : LF) : LF := ⟨f.c11 + g.c11, f.c22 + g.c22, f.c33 + g.c33, f.c12 + g.c12, f.c13 + g.c13, f.c23 + g.c23⟩
def sub (f g : LF) : LF := ⟨f.c11 - g.c11, f.c22 - g.c22, f.c33 - g.c33, f.c12 - g.c12, f.c13 - g.c13, f.c23 - g.c23⟩
def smul (k : Int) (f : LF) : LF := ⟨k * f.c11, k * f.c22, k * f.c33, k * f.c12, k * f.c13, k * f.c23⟩
def diag : Len → LF
  | .a => ⟨1, 0, 0, 0, 0, 0⟩ | .b => ⟨0, 1, 0, 0, 0, 0⟩ | .c => ⟨0, 0, 1, 0, 0, 0⟩
def off : Ang → LF
  | .gamma => ⟨0, 0, 0, 1, 0, 0⟩ | .beta => ⟨0, 0, 0, 0, 1, 0⟩ | .alpha => ⟨0, 0, 0, 0, 0, 1⟩
def eval {α : Type} [IntCast α] [Add α] [Mul α] (f : LF) (G : Metric α) : α :=
  (f.c11 : α) * G.g11 + (f.c22 : α) * G.g22 + (f.c33 : α) * G.g33 +
  (f.c12 : α) * G.g12 + (f.c13 : α) * G.g13 + (f.c23 : α) * G.g23
end LF

/-- the linear form `uᵀ G v` in the entries of `G` -/
def bil (u v : Int × Int × Int) : LF :=
  ⟨u.1 * v.1, u.2.1 * v.2.1, u.2.2 * v.2.2,
   u.1 * v.2.1 + u.2.1 * v.1, u.1 * v.2.2 + u.2.2 * v.1, u.2.1 * v.2.2 + u.2.2 * v.2.1⟩

def col1 (R : Op) : Int × Int × Int := (R.r11, R.r21, R.r31)
def col2 (R : Op) : Int × Int × Int := (R.r12, R.r22, R.r32)
def col3 (R : Op) : Int × Int × Int := (R.r13, R.r23, R.r33)

/-- entry number `e` of `Rᵀ G R − G` as a linear form with integer coefficients;
`e = 0 … 5` are the entries (1,1) (2,2) (3,3) (1,2) (1,3) (2,3); the zero form otherwise -/
def entryForm (R : Op) : Nat → LF
  | 0 => (bil (col1 R) (col1 R)).sub (LF.diag .a)
  | 1 => (bil (col2 R) (col2 R)).sub (LF.diag .b)
  | 2 => (bil (col3 R) (col3 R)).sub (LF.diag .c)
  | 3 => (bil (col1 R) (col2 R)).sub (LF.off .gamma)
  | 4 => (bil (col1 R) (col3 R)).sub (LF.off .beta)
  | 5 => (bil (col2 R) (col3 R)).sub (LF.off .alpha)
  | _ => LF.zero

/-! ### Metric conditions behind each atom, and the certificate checker -/

/-- atoms whose truth follows from linear conditions on the metric (of a valid cell) -/
def Atom.supported : Atom → Bool
  | .lenEq _ _ => true
  | .angEq _ _ => true
  | .angIs _ v => v == 90 || v == 120

/-- linear forms that must vanish on the metric:
* `x == y` (lengths): `g_xx − g_yy`;
* `x == y` (angles; they share exactly one axis): `g(x) − g(y)` and equality of the two other axes,
  which are the axes opposite to `y` and to `x`;
* `x == 90`: `g(x)`;  `x == 120`: `2 g(x) + g_ii` and `g_ii − g_jj` for the two axes `i, j` of `x`. -/
def Atom.forms : Atom → List LF
  | .lenEq x y => [(LF.diag x).sub (LF.diag y)]
  | .angEq x y => [(LF.off x).sub (LF.off y), (LF.diag y.opp).sub (LF.diag x.opp)]
  | .angIs x v =>
    if v == 90 then [LF.off x]
    else [((LF.off x).smul 2).add (LF.diag x.ax1), (LF.diag x.ax1).sub (LF.diag x.ax2)]

/-- certificate row: (index of the operation in the setting's list, entry `e` of `Rᵀ G R − G`, coefficient) -/
abbrev Row := Nat × Nat × Int

/-- `den * target = Σ coef * entryForm ops[idx] e` with `den ≠ 0` -/
structure Combo where
  den : Nat
  rows : List Row
deriving Repr, Inhabited

/-- untrusted certificate found by `translate/latpar.py`: which alternative of the rule, and one
combination per required linear form, in the order of `Atom.forms` over the alternative's atoms -/
structure LatCert where
  alt : Nat
  combos : List Combo
deriving Repr, Inhabited

def comboSum (ops : List Op) : List Row → LF
  | [] => LF.zero
  | (i, e, k) :: rs =>
    (match ops[i]? with
     | some R => (entryForm R e).smul k
     | none => LF.zero).add (comboSum ops rs)

def checkCombo (ops : List Op) (t : LF) (cb : Combo) : Bool :=
  decide (cb.den ≠ 0) && decide (comboSum ops cb.rows = t.smul (cb.den : Int))

def checkForms (ops : List Op) : List LF → List Combo → Bool
  | [], [] => true
  | t :: ts, cb :: cbs => checkCombo ops t cb && checkForms ops ts cbs
  | _, _ => false

def checkConj (ops : List Op) (k : Conj) (combos : List Combo) : Bool :=
  k.all Atom.supported && checkForms ops (k.flatMap Atom.forms) combos

/-- the certificate names an alternative of the rule `d` all of whose atoms are supported and all of
whose linear forms are the stated combinations of entries of `Rᵀ G R − G`, `R` from `ops` -/
def checkLatCertD (d : DNF) (ops : List Op) (lc : LatCert) : Bool :=
  match d[lc.alt]? with
  | some k => checkConj ops k lc.combos
  | none => false

def checkLatCert (src : CSys → DNF) (g : SG) (lc : LatCert) : Bool :=
  checkLatCertD (src g.system) g.ops lc

/-- exact invariance test of an integer metric under all listed operations (used for the
concrete non-vacuity witnesses: cells with angles 90/120 have a rational metric) -/
def checkInvInt (ops : List Op) (G : Metric Int) : Bool :=
  ops.all fun R => (List.range 6).all fun e => decide ((entryForm R e).eval G = 0)

end DS.LatRule
