import DS.Model.Sym
/-!
M1 — space-group lookup by identifier and by operation list (no Mathlib).

`spacegroups.GetSpaceGroup`, `_buildSGLookupTable`, `FindSpaceGroup`, `_hashSymOpList`.
Settings are referred to by their position in `SpaceGroupList`.
-/
namespace DS
namespace Lookup

/-- identifiers are Python ints or strings -/
inductive Key
  | num (n : Nat)
  | str (s : String)
deriving DecidableEq, Repr, Inhabited

abbrev Table := List (Key × Nat)

def lookup (t : Table) (k : Key) : Option Nat := (t.find? (fun e => e.1 == k)).map (·.2)

/-- `dict.setdefault`: first registration wins -/
def setdefault (t : Table) (k : Key) (v : Nat) : Table :=
  match lookup t k with
  | some _ => t
  | none => t ++ [(k, v)]

/-- the four registrations of one setting -/
def addSG (t : Table) (g : SG) (i : Nat) : Table :=
  let t := setdefault t (.num g.number) i
  let t := setdefault t (.str (toString g.number)) i
  let t := setdefault t (.str g.short) i
  setdefault t (.str g.pdb) i

def addAll : Table → List SG → Nat → Table
  | t, [], _ => t
  | t, g :: gs, i => addAll (addSG t g i) gs (i + 1)

def removeBlanks (s : String) : String := String.ofList (s.toList.filter (· ≠ ' '))

/-- aliases `(alias, full H-M name)`: registered under the setting found for the blank-free name.
A missing target is a `KeyError` in the code: the model returns `none`. -/
def addAliases : Table → List (String × String) → Option Table
  | t, [] => some t
  | t, (a, hm) :: rest =>
    match lookup t (.str (removeBlanks hm)) with
    | some i => addAliases (setdefault t (.str a) i) rest
    | none => none

def buildTable (sgs : List SG) (aliases : List (String × String)) : Option Table :=
  addAliases (addAll [] sgs 0) aliases

/-- the 17 legacy aliases of `_buildSGLookupTable` -/
def stdAliases : List (String × String) :=
  [("Pm3", "P m -3"), ("Pn3", "P n -3"), ("Fm3", "F m -3"), ("Fd3", "F d -3"), ("Im3", "I m -3"),
   ("Pa3", "P a -3"), ("Ia3", "I a -3"), ("Pm3m", "P m -3 m"), ("Pn3n", "P n -3 n"), ("Pm3n", "P m -3 n"),
   ("Pn3m", "P n -3 m"), ("Fm3m", "F m -3 m"), ("Fm3c", "F m -3 c"), ("Fd3m", "F d -3 m"), ("Fd3c", "F d -3 c"),
   ("Im3m", "I m -3 m"), ("Ia3d", "I a -3 d")]

/-! ### identifier normalisation of `GetSpaceGroup` -/

def isBlank (c : Char) : Bool := c == ' ' || c == '\t' || c == '\n' || c == '\r' || c == '\x0b' || c == '\x0c'

/-- `str.strip()` (ASCII white space) -/
def strip (s : String) : String :=
  String.ofList ((s.toList.dropWhile isBlank).reverse.dropWhile isBlank).reverse

/-- `s[:1].upper() + s[1:].lower()` on ASCII -/
def capitalise (s : String) : String :=
  match s.toList with
  | [] => ""
  | c :: cs => String.ofList (c.toUpper :: cs.map Char.toLower)

/-- `sgbare.replace(" ", "")` then capitalise (the blank removal is `removeBlanks`, which the kernel
can evaluate; `String.replace` cannot be reduced by `decide`) -/
def normShort (s : String) : String := capitalise (removeBlanks (strip s))
def normFull (s : String) : String := capitalise (strip s)

/-- `GetSpaceGroup`: exact key, then the two case/spacing normalisations of a string identifier;
`none` is the `ValueError` -/
def getSG (t : Table) (id : Key) : Option Nat :=
  match lookup t id with
  | some i => some i
  | none =>
    match id with
    | .num _ => none
    | .str s =>
      match lookup t (.str (normShort s)) with
      | some i => some i
      | none => lookup t (.str (normFull s))

/-! ### identification from operations -/

/-- insertion into a sorted list -/
def insertSorted (x : Nat) : List Nat → List Nat
  | [] => [x]
  | y :: ys => if x ≤ y then x :: y :: ys else y :: insertSorted x ys

def sortNat : List Nat → List Nat
  | [] => []
  | x :: xs => insertSorted x (sortNat xs)

/-- order-independent fingerprint of an operation list: the sorted list of the printable forms
(`str(op)` is modelled by the injective key `Op.key`; the translator checks on every run that
`str` and `key` induce the same equality on all tabulated operations) -/
def canon (ops : List Op) : List Nat := sortNat (ops.map Op.key)

/-- `_getSGHashLookupTable` + `FindSpaceGroup`: index of the tabulated setting with the same
fingerprint (the table is keyed by fingerprint; later entries overwrite earlier ones) -/
def findSG (sgs : List SG) (ops : List Op) : Option Nat :=
  let c := canon ops
  let rec go (rest : List SG) (i : Nat) (acc : Option Nat) : Option Nat :=
    match rest with
    | [] => acc
    | g :: gs => go gs (i + 1) (if canon g.ops == c then some i else acc)
  go sgs 0 none

/-- the flag `sameorder` of `FindSpaceGroup`: the returned object is the tabulated one iff the
printable forms agree position by position -/
def sameOrder (a b : List Op) : Bool := a.map Op.key == b.map Op.key

end Lookup
end DS
