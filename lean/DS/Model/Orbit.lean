import DS.Model.Sym
/-!
M1 — `symmetryutilities.expandPosition` on exact coordinates (no Mathlib).

Coordinates are integers in units of `1/D`, `D = 24·k`; the tolerance `eps` is the integer `E`
in the same units.  The algorithm is transcribed literally: images are reduced into the cell,
bucketed at resolution `E`; a bucket that has not been seen is checked against the nearest
already listed position with the periodic box distance and, when that position is within
`E`, aliased to its class instead of opening a new one.
-/
namespace DS

abbrev P3 := Int × Int × Int

namespace Orbit

/-- image of `x` under `a` for a space-group origin shifted by `off`:
`a(x + off) − off`, reduced into `[0, D)` (lines 282–284 of symmetryutilities.py) -/
def img (a : Op) (k : Int) (off x : P3) : P3 :=
  let D := 24 * k
  let y1 := x.1 + off.1
  let y2 := x.2.1 + off.2.1
  let y3 := x.2.2 + off.2.2
  ((a.r11 * y1 + a.r12 * y2 + a.r13 * y3 + k * a.t1 - off.1) % D,
   (a.r21 * y1 + a.r22 * y2 + a.r23 * y3 + k * a.t2 - off.2.1) % D,
   (a.r31 * y1 + a.r32 * y2 + a.r33 * y3 + k * a.t3 - off.2.2) % D)

/-- `_Position2Tuple`: integer bucket of each (already reduced) coordinate -/
def bucket (E : Int) (p : P3) : P3 := (p.1 / E, p.2.1 / E, p.2.2 / E)

/-- one coordinate of `positionDifference`: difference mapped into `[0, D/2]` -/
def pdiff1 (D u v : Int) : Int :=
  let d := (u - v) % D
  if 2 * d > D then D - d else d

/-- box distance used by `nearestSiteIndex` / `equalPositions` -/
def boxDist (D : Int) (p q : P3) : Int :=
  max (pdiff1 D p.1 q.1) (max (pdiff1 D p.2.1 q.2.1) (pdiff1 D p.2.2 q.2.2))

/-- index of the first position with minimal box distance (`numpy.argmin`) -/
def nearestIdx (D : Int) (ps : List P3) (p : P3) : Nat :=
  let rec go (rest : List P3) (i best : Nat) (bd : Int) : Nat :=
    match rest with
    | [] => best
    | q :: qs =>
      let d := boxDist D q p
      if d < bd then go qs (i + 1) i d else go qs (i + 1) best bd
  match ps with
  | [] => 0
  | q :: qs => go qs 1 0 (boxDist D q p)

/-- state of the loop: listed positions, bucket → class index, operations of each class -/
structure St where
  positions : List P3
  keymap : List (P3 × Nat)
  classes : List (List Op)
deriving Repr, Inhabited

def lookupKey (m : List (P3 × Nat)) (b : P3) : Option Nat :=
  (m.find? (fun e => e.1 == b)).map (·.2)

def addToClass (cs : List (List Op)) (i : Nat) (a : Op) : List (List Op) :=
  cs.modify i (fun l => l ++ [a])

/-- one iteration of the loop of `expandPosition` -/
def stepOp (k E : Int) (off x : P3) (s : St) (a : Op) : St :=
  let D := 24 * k
  let pos := img a k off x
  let tpl := bucket E pos
  match lookupKey s.keymap tpl with
  | some i => { s with classes := addToClass s.classes i a }
  | none =>
    if s.positions.isEmpty then
      { positions := [pos], keymap := [(tpl, 0)], classes := [[a]] }
    else
      let j := nearestIdx D s.positions pos
      let near := s.positions.getD j pos
      if boxDist D near pos ≤ E then
        -- alias the new bucket to the class of the near position
        match lookupKey s.keymap (bucket E near) with
        | some i => { s with keymap := s.keymap ++ [(tpl, i)], classes := addToClass s.classes i a }
        | none => s   -- unreachable: every listed position has its bucket registered
      else
        let i := s.positions.length
        { positions := s.positions ++ [pos], keymap := s.keymap ++ [(tpl, i)], classes := s.classes ++ [[a]] }

def expand (ops : List Op) (k E : Int) (off x : P3) : St :=
  ops.foldl (stepOp k E off x) { positions := [], keymap := [], classes := [] }

/-- what `expandPosition` returns: positions, `pos_symops`, multiplicity -/
def result (ops : List Op) (k E : Int) (off x : P3) : List P3 × List (List Op) × Nat :=
  let s := expand ops k E off x
  let cls := s.positions.map (fun p => match lookupKey s.keymap (bucket E p) with
    | some i => s.classes.getD i []
    | none => [])
  (s.positions, cls, s.positions.length)

/-! ### specification side -/

/-- first-occurrence de-duplication -/
def dedupFirst : List P3 → List P3
  | [] => []
  | p :: ps => p :: (dedupFirst ps).filter (fun q => q != p)

/-- every two images are equal or farther apart than `E` in at least one coordinate -/
def Sep (ops : List Op) (k E : Int) (off x : P3) : Prop :=
  ∀ a ∈ ops, ∀ b ∈ ops, img a k off x = img b k off x ∨ E < boxDist (24 * k) (img a k off x) (img b k off x)

instance (ops : List Op) (k E : Int) (off x : P3) : Decidable (Sep ops k E off x) := by
  unfold Sep; infer_instance

end Orbit
end DS
