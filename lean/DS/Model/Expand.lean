import DS.Model.Lin
/-!
M2/M3 — structure expansion: `supercell` (expansion/supercell_mod.py), `findCenter`
(expansion/shapeutils.py), `makeEllipsoid` / `makeSphere` (expansion/makeellipsoid.py).

Scalar-generic and Mathlib-free.  An atom is its fractional position plus an opaque attribute
bundle `β` (element, label, occupancy, displacement parameters, any extra per-atom attributes:
everything `Atom.__copy__` carries over through `__dict__.update`).  The lattice enters through
the cell parameters and `baserot`; the derived quantities (`ar, br, cr, cgr, sgr, stdbase, base,
recbase, normbase, recnormbase`) are the expressions of `Lattice.setLatPar` (lattice.py 333-374).

Everything lives in `DS.Expand` (other model files own `DS.Lattice`, `DS.AtomS`, ...).
-/
namespace DS.Expand
open DS

inductive Err
  | ValueError
  | IndexError
deriving Repr, DecidableEq, Inhabited

def Err.name : Err → String
  | .ValueError => "ValueError"
  | .IndexError => "IndexError"

/-- an atom: fractional coordinates and everything else it carries -/
structure Atom (α β : Type) where
  xyz : Vec3 α
  attrs : β
deriving Repr, Inhabited, DecidableEq

/-- the independent data of a `Lattice`: cell parameters and `baserot` -/
structure Cell (α : Type) where
  a : α
  b : α
  c : α
  alpha : α
  beta : α
  gamma : α
  baserot : Mat3 α
deriving Repr, Inhabited, DecidableEq

structure Stru (α β : Type) where
  cell : Cell α
  atoms : List (Atom α β)
deriving Repr, Inhabited, DecidableEq

/-- `math.ceil` returning a Python `int` -/
class IntCeil (α : Type) where
  ceilInt : α → Int

/-! ### the lattice quantities that `setLatPar` derives (same expressions, same order) -/
section cell
variable {α : Type} [Add α] [Mul α] [Sub α] [Neg α] [Div α] [OfNat α 0] [OfNat α 1] [OfNat α 2] [Elem α]

namespace Cell
def ca (L : Cell α) : α := Elem.cosd L.alpha
def cb (L : Cell α) : α := Elem.cosd L.beta
def cg (L : Cell α) : α := Elem.cosd L.gamma
def sa (L : Cell α) : α := Elem.sind L.alpha
def sb (L : Cell α) : α := Elem.sind L.beta
def sg (L : Cell α) : α := Elem.sind L.gamma
/-- `Lattice.unitvolume` -/
def unitvolume (L : Cell α) : α :=
  Elem.sqrt (1 + 2 * L.ca * L.cb * L.cg - L.ca * L.ca - L.cb * L.cb - L.cg * L.cg)
def ar (L : Cell α) : α := L.sa / (L.a * L.unitvolume)
def br (L : Cell α) : α := L.sb / (L.b * L.unitvolume)
def cr (L : Cell α) : α := L.sg / (L.c * L.unitvolume)
def cgr (L : Cell α) : α := (L.ca * L.cb - L.cg) / (L.sa * L.sb)
def sgr (L : Cell α) : α := Elem.sqrt (1 - L.cgr * L.cgr)
/-- `stdbase` (lattice.py 363-366) -/
def stdbase (L : Cell α) : Mat3 α :=
  ⟨1 / L.ar, -L.cgr / L.sgr / L.ar, L.cb * L.a,
   0, L.b * L.sa, L.b * L.ca,
   0, 0, L.c⟩
/-- `base = dot(stdbase, baserot)` -/
def base (L : Cell α) : Mat3 α := L.stdbase.mul L.baserot
/-- `recbase = inv(base)` -/
def recbase (L : Cell α) : Mat3 α := L.base.inv
/-- `normbase = base * [[ar],[br],[cr]]` (row i scaled) -/
def normbase (L : Cell α) : Mat3 α :=
  let B := L.base
  ⟨B.a11 * L.ar, B.a12 * L.ar, B.a13 * L.ar,
   B.a21 * L.br, B.a22 * L.br, B.a23 * L.br,
   B.a31 * L.cr, B.a32 * L.cr, B.a33 * L.cr⟩
/-- `recnormbase = recbase / [ar, br, cr]` (column j divided) -/
def recnormbase (L : Cell α) : Mat3 α :=
  let R := L.recbase
  ⟨R.a11 / L.ar, R.a12 / L.br, R.a13 / L.cr,
   R.a21 / L.ar, R.a22 / L.br, R.a23 / L.cr,
   R.a31 / L.ar, R.a32 / L.br, R.a33 / L.cr⟩
/-- `Lattice.cartesian`: `dot(u, base)` -/
def cartesian (L : Cell α) (u : Vec3 α) : Vec3 α := Mat3.vecMul u L.base
/-- `Lattice.fractional`: `dot(rc, recbase)` -/
def fractional (L : Cell α) (r : Vec3 α) : Vec3 α := Mat3.vecMul r L.recbase
/-- `Lattice.norm`: `sqrt((cartesian(xyz)**2).sum())` -/
def norm (L : Cell α) (u : Vec3 α) : α :=
  let r := L.cartesian u
  Elem.sqrt (r.x * r.x + r.y * r.y + r.z * r.z)
/-- `Lattice.dist` -/
def dist (L : Cell α) (u v : Vec3 α) : α := L.norm (u.sub v)
/-- `setLatPar(a=l*a, b=m*b, c=n*c)`: angles and `baserot` are kept -/
def scale [NatCast α] (L : Cell α) (l m n : Nat) : Cell α :=
  { L with a := (l : α) * L.a, b := (m : α) * L.b, c := (n : α) * L.c }
end Cell
end cell

/-! ### supercell -/
section supercell
variable {α β : Type} [Add α] [Mul α] [Div α] [NatCast α]

/-- `[(i,j,k) for i in range(l) for j in range(m) for k in range(n)]`: `i` outermost, `k` fastest -/
def ijkList (l m n : Nat) : List (Nat × Nat × Nat) :=
  (List.range l).flatMap fun i => (List.range m).flatMap fun j => (List.range n).map fun k => (i, j, k)

/-- `adup = Atom(a); adup.xyz = (a.xyz + ijk) / mnofloats` -/
def image (l m n : Nat) (a : Atom α β) (t : Nat × Nat × Nat) : Atom α β :=
  { a with xyz := ⟨(a.xyz.x + (t.1 : α)) / (l : α), (a.xyz.y + (t.2.1 : α)) / (m : α),
                   (a.xyz.z + (t.2.2 : α)) / (n : α)⟩ }

/-- inner loop `for ijk in ijklist` for one parent -/
def images (l m n : Nat) (a : Atom α β) : List (Atom α β) := (ijkList l m n).map (image l m n a)

/-- the general path of `supercell`: outer loop over parents, lattice rescaled -/
def supercellGen (S : Stru α β) (l m n : Nat) : Stru α β :=
  ⟨S.cell.scale l m n, S.atoms.flatMap (images l m n)⟩

/-- `supercell(S, mno)`.  `mno` is the sequence of (integer) multipliers as passed by the caller.
Order of the checks as in the source: length, then `min(mno) < 1`; then the `(1,1,1)` shortcut
returning the plain copy `Structure(S)`. -/
def supercell (S : Stru α β) (mno : List Int) : Except Err (Stru α β) :=
  if mno.length ≠ 3 then .error .ValueError
  else match mno with
    | [l, m, n] =>
      if min l (min m n) < 1 then .error .ValueError
      else
        let l := l.toNat
        let m := m.toNat
        let n := n.toNat
        if (l, m, n) = (1, 1, 1) then .ok S
        else .ok (supercellGen S l m n)
    | _ => .error .ValueError

end supercell

/-! ### object identity (M3): results are fresh objects -/
section heap
variable {α β : Type} [Add α] [Mul α] [Div α] [NatCast α]

/-- the atom objects alive, addressed by position -/
structure Heap (α β : Type) where
  atoms : List (Atom α β)

/-- a `Structure` object: its own lattice and the addresses of its atoms -/
structure HStru (α : Type) where
  cell : Cell α
  refs : List Nat

def Heap.read (h : Heap α β) (refs : List Nat) : List (Atom α β) := refs.filterMap (h.atoms[·]?)

/-- a test on atoms applied through a reference -/
def refTest (A : List (Atom α β)) (q : Atom α β → Bool) (r : Nat) : Bool :=
  match A[r]? with
  | some p => q p
  | none => false

def HStru.value (h : Heap α β) (S : HStru α) : Stru α β := ⟨S.cell, h.read S.refs⟩

/-- `supercell` on the heap: every atom of the result is a newly allocated object (`Atom(a)` in
both paths), the lattice is a new `Lattice` object; nothing existing is written. -/
def supercellH (h : Heap α β) (S : HStru α) (mno : List Int) : Except Err (Heap α β × HStru α) :=
  match supercell (S.value h) mno with
  | .error e => .error e
  | .ok T => .ok (⟨h.atoms ++ T.atoms⟩, ⟨T.cell, List.range' h.atoms.length T.atoms.length⟩)

end heap

/-! ### findCenter, makeEllipsoid, makeSphere -/
section ellipsoid
variable {α β : Type} [Add α] [Mul α] [Sub α] [Neg α] [Div α] [OfNat α 0] [OfNat α 1] [OfNat α 2]
  [Elem α] [NatCast α] [LT α] [DecidableRel (α := α) (· < ·)] [IntCeil α]

/-- the loop of `findCenter`: `best`, `bestd` updated on strict `d < bestd` -/
def findCenterAux (L : Cell α) : List (Atom α β) → Nat → Option Nat → α → Option Nat
  | [], _, best, _ => best
  | a :: as, i, best, bestd =>
    let d := L.dist a.xyz ⟨1 / 2, 1 / 2, 1 / 2⟩
    if d < bestd then findCenterAux L as (i + 1) (some i) d
    else findCenterAux L as (i + 1) best bestd

/-- `findCenter(S)`; `none` is the source's `-1` (no atom closer than `len(S)`) -/
def findCenter (S : Stru α β) : Option Nat :=
  findCenterAux S.cell S.atoms 0 none (S.atoms.length : α)

/-- Python indexing `newS[ncenter]` with `ncenter = -1` meaning the last atom; `none` = IndexError -/
def centreIndex (T : Stru α β) : Option Nat :=
  match findCenter T with
  | some i => some i
  | none => if T.atoms.length = 0 then none else some (T.atoms.length - 1)

/-- `d = sum(((xyz - cxyz) / sabc) ** 2) ** 0.5` (`sum` starts from `0`) -/
def ellD (sabc cxyz r : Vec3 α) : α :=
  let dx := (r.x - cxyz.x) / sabc.x
  let dy := (r.y - cxyz.y) / sabc.y
  let dz := (r.z - cxyz.z) / sabc.z
  Elem.sqrt (0 + dx * dx + dy * dy + dz * dz)

/-- the test under which an atom survives: the source deletes when `d > 1` -/
def keeps (L : Cell α) (sabc cxyz : Vec3 α) (a : Atom α β) : Bool :=
  !decide (1 < ellD sabc cxyz (L.cartesian a.xyz))

/-- the cutting loop for a given centre index -/
def cutWith (T : Stru α β) (sabc : Vec3 α) (nc : Nat) : Except Err (Stru α β) :=
  match T.atoms[nc]? with
  | none => .error .IndexError
  | some ca => .ok ⟨T.cell, T.atoms.filter (keeps T.cell sabc (T.cell.cartesian ca.xyz))⟩

/-- `max(ceil(2 * xi) for xi in S.lattice.fractional(sabc))` -/
def ellMno (L : Cell α) (sabc : Vec3 α) : Int :=
  let f := L.fractional sabc
  max (max (IntCeil.ceilInt (2 * f.x)) (IntCeil.ceilInt (2 * f.y))) (IntCeil.ceilInt (2 * f.z))

/-- the part of `makeEllipsoid` after the block size is known -/
def ellipsoidWith (S : Stru α β) (sabc : Vec3 α) (k : Int) : Except Err (Stru α β) :=
  match supercell S [k, k, k] with
  | .error e => .error e
  | .ok T =>
    match centreIndex T with
    | none => .error .IndexError
    | some nc => cutWith T sabc nc

/-- `makeEllipsoid(S, a, b=None, c=None)` -/
def makeEllipsoid (S : Stru α β) (a : α) (b c : Option α) : Except Err (Stru α β) :=
  let sabc : Vec3 α := ⟨a, b.getD a, c.getD a⟩
  ellipsoidWith S sabc (ellMno S.cell sabc)

/-- `makeSphere(S, radius)` -/
def makeSphere (S : Stru α β) (radius : α) : Except Err (Stru α β) := makeEllipsoid S radius none none

/-- `makeEllipsoid` on the heap: the block is the freshly allocated structure of `supercellH`; the
deleting loop `newS.pop(i)` only removes references from that new structure's own list -/
def ellipsoidWithH (h : Heap α β) (S : HStru α) (sabc : Vec3 α) (k : Int) :
    Except Err (Heap α β × HStru α) :=
  match supercellH h S [k, k, k] with
  | .error e => .error e
  | .ok (h', T) =>
    match centreIndex (T.value h') with
    | none => .error .IndexError
    | some nc =>
      match (T.value h').atoms[nc]? with
      | none => .error .IndexError
      | some ca =>
        .ok (h', ⟨T.cell, T.refs.filter (refTest h'.atoms (keeps T.cell sabc (T.cell.cartesian ca.xyz)))⟩)

def makeEllipsoidH (h : Heap α β) (S : HStru α) (a : α) (b c : Option α) :
    Except Err (Heap α β × HStru α) :=
  let sabc : Vec3 α := ⟨a, b.getD a, c.getD a⟩
  ellipsoidWithH h S sabc (ellMno S.cell sabc)

end ellipsoid

/-! ### driver handler (`Float` instance; atoms carry a payload number) -/
namespace Drv

scoped instance instNatCastFloat : NatCast Float := ⟨Float.ofNat⟩
scoped instance instIntCeilFloat : IntCeil Float := ⟨fun x => (Float.ceil x).toInt64.toInt⟩

abbrev A := Atom Float Nat
abbrev S := Stru Float Nat

def parseCell : List Float → Option (Cell Float)
  | [a, b, c, al, be, ga, r11, r12, r13, r21, r22, r23, r31, r32, r33] =>
    some ⟨a, b, c, al, be, ga, ⟨r11, r12, r13, r21, r22, r23, r31, r32, r33⟩⟩
  | _ => none

/-- atoms as `<payload> <x> <y> <z>` groups -/
def parseAtoms : List String → Option (List A)
  | [] => some []
  | p :: x :: y :: z :: rest => do
    let p ← p.toNat?
    let x ← floatOfBits? x
    let y ← floatOfBits? y
    let z ← floatOfBits? z
    let as ← parseAtoms rest
    pure (⟨⟨x, y, z⟩, p⟩ :: as)
  | _ => none

/-- `<15 cell words> <natoms> <4 words per atom>` -/
def parseStru (ws : List String) : Option (S × List String) := do
  let cell ← parseFloats (ws.take 15) >>= parseCell
  let n ← (ws.drop 15).head? >>= String.toNat?
  let body := ws.drop 16
  if body.length < 4 * n then none
  else
    let as ← parseAtoms (body.take (4 * n))
    pure (⟨cell, as⟩, body.drop (4 * n))

def showAtoms (as : List A) : String :=
  " ".intercalate (as.map fun a => s!"{a.attrs} {showVec a.xyz}")

def showCell (L : Cell Float) : String :=
  s!"{bitsOfFloat L.a} {bitsOfFloat L.b} {bitsOfFloat L.c} {bitsOfFloat L.alpha} {bitsOfFloat L.beta} {bitsOfFloat L.gamma}"

def showStru (T : S) : String :=
  s!"ok {showCell T.cell} {showMat T.cell.base} {showMat T.cell.normbase} {T.atoms.length} {showAtoms T.atoms}"

/-- index of the atoms that `cutWith` keeps, and the `d` of every atom -/
def cutReport (T : S) (sabc : Vec3 Float) (nc : Nat) : String :=
  match T.atoms[nc]? with
  | none => "IndexError"
  | some ca =>
    let cxyz := T.cell.cartesian ca.xyz
    let idx := (List.range T.atoms.length).zip T.atoms
    let kept := idx.filter (fun p => keeps T.cell sabc cxyz p.2)
    let ds := T.atoms.map fun a => bitsOfFloat (ellD sabc cxyz (T.cell.cartesian a.xyz))
    s!"{kept.length} {" ".intercalate (kept.map fun p => toString p.1)} {" ".intercalate ds}"

def optFloat (s : String) : Option (Option Float) :=
  if s = "none" then some none else (floatOfBits? s).map some

end Drv

open Drv in
/-- line protocol:
* `sc.ijk l m n` → the `ijklist` as `i j k` triples
* `sc.run <k> <k multipliers> <cell15> <n> <atoms>` → `ok <cell6> <base9> <normbase9> <N> <atoms>` | error name
* `ell.center <cell15> <n> <atoms>` → `<best or -1> <bestd>` (findCenter on the given structure)
* `ell.mno <a> <b> <c> <cell15>` → block multiplier chosen by `makeEllipsoid`
* `ell.cut <a> <b|none> <c|none> <forcemno|auto> <forcecentre|auto> <cell15> <n> <atoms>` →
  `ok <mno> <centre> <N> <nkept> <kept indices> <d of every supercell atom>` | error name -/
def expandHandle (ws : List String) : Option String :=
  match ws with
  | ["sc.ijk", l, m, n] =>
    match l.toNat?, m.toNat?, n.toNat? with
    | some l, some m, some n =>
      some (" ".intercalate ((ijkList l m n).map fun t => s!"{t.1} {t.2.1} {t.2.2}"))
    | _, _, _ => some "bad-op"
  | "sc.run" :: k :: rest =>
    match k.toNat? with
    | none => some "bad-op"
    | some k =>
      match (rest.take k).mapM String.toInt?, parseStru (rest.drop k) with
      | some mno, some (st, []) =>
        if mno.length ≠ k then some "bad-op"
        else match supercell st mno with
          | .error e => some e.name
          | .ok T => some (showStru T)
      | _, _ => some "bad-op"
  | "ell.center" :: rest =>
    match parseStru rest with
    | some (st, []) =>
      let c : Int := match findCenter st with | some i => i | none => -1
      some s!"{c}"
    | _ => some "bad-op"
  | "ell.mno" :: a :: b :: c :: rest =>
    match floatOfBits? a, floatOfBits? b, floatOfBits? c, parseFloats rest >>= parseCell with
    | some a, some b, some c, some L => some s!"{ellMno L ⟨a, b, c⟩}"
    | _, _, _, _ => some "bad-op"
  | "ell.cut" :: a :: b :: c :: fm :: fc :: rest =>
    match floatOfBits? a, optFloat b, optFloat c, parseStru rest with
    | some a, some b, some c, some (st, []) =>
      let sabc : Vec3 Float := ⟨a, b.getD a, c.getD a⟩
      let fmv : Option Int := if fm = "auto" then some (ellMno st.cell sabc) else fm.toInt?
      match fmv with
      | none => some "bad-op"
      | some k =>
        if fm = "auto" ∧ fc = "auto" then
          -- the whole function as the source runs it; the report below re-derives its pieces
          match makeEllipsoid st a b c, supercell st [k, k, k] with
          | .error e, _ => some e.name
          | .ok R, .ok T =>
            match centreIndex T with
            | some nc => some s!"ok {k} {nc} {T.atoms.length} {R.atoms.length} {cutReport T sabc nc}"
            | none => some "IndexError"
          | .ok _, .error e => some e.name
        else
          match supercell st [k, k, k] with
          | .error e => some e.name
          | .ok T =>
            let ncv : Option Nat := if fc = "auto" then centreIndex T else fc.toNat?
            match ncv with
            | none => some "IndexError"
            | some nc =>
              match cutWith T sabc nc with
              | .error e => some e.name
              | .ok R => some s!"ok {k} {nc} {T.atoms.length} {R.atoms.length} {cutReport T sabc nc}"
    | _, _, _, _ => some "bad-op"
  | _ => none

end DS.Expand
