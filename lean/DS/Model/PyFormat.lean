import DS.Model.Dec
/-!
# Python's `%` formatting mini-language on exact values (used by the writer source tie, C04)

`translate/src_writers.py` reads the `toLines` methods of the parsers and emits them as Lean functions of
the document types of `DS.Formats`; every `"<template>" % args` of the source becomes
`pyFormat <pieces> <args>` (tuple / single argument) or `pyFormatD <pieces> <dict>` (`%(name)…` with a
dictionary).  This file is the interpreter: it dispatches every conversion to the formatting functions
of `DS.Dec` the property theorems are about (`fmtFbody`, `fmtG`, `fmtIbody`, `padLeft`, `padRight`).

Subset of CPython's `PyUnicode_Format`:

* flags `-` (left adjust) and `0` (zero padding of numbers); `+`, blank and `#` are not in the subset
  (`parseTemplate` rejects them, the translator then emits `…_untranslatable`);
* minimum width, `.precision` (both decimal literals; `*` is rejected);
* conversions `f` (default precision 6), `g` (default 6, precision 0 read as 1), `i` = `d`
  (a float argument is truncated towards zero like `int(x)`), `s` (strings; `str()` of an integer;
  precision = truncation), `c` (a one-character string), `%%`;
* `%(key)…` with a dictionary argument.

A missing / superfluous argument or a type the conversion does not accept is Python's `TypeError` /
`KeyError`: `fmtTuple` / `fmtDict` return `none`, and the total versions print the marker `typeError`,
which no model line equals — an equality `model line = pyFormat …` can therefore only be proved
when the conversion succeeds.

`parseTemplate` is the same template parser in Lean; `DS.Props.SrcWriters.templates_parse` checks, on every
run, that it reads each source string into exactly the pieces the translator emitted.
-/
namespace DS.PyFormat
open DS.Dec

inductive Ty where
  | f | g | i | s | c
deriving DecidableEq, Repr

structure Spec where
  left : Bool
  zero : Bool
  width : Nat
  prec : Option Nat
  ty : Ty
deriving DecidableEq, Repr

inductive Piece where
  | lit (s : Str)
  | conv (sp : Spec)
  | named (key : Str) (sp : Spec)
deriving DecidableEq, Repr

/-- an argument of `%`: a float (exact value of the double), an integer, a string -/
inductive Val where
  | num (x : Rat)
  | int (n : Int)
  | str (s : Str)
deriving DecidableEq

/-- the text a failing conversion stands for (`TypeError` / `KeyError` of Python) -/
def typeError : Str := ['<', 'T', 'y', 'p', 'e', 'E', 'r', 'r', 'o', 'r', '>']

/-- `int(x)` of a float: truncation towards zero -/
def truncInt (x : Rat) : Int := Int.tdiv x.num (x.den : Int)

/-- zero padding keeps the sign in front -/
def zpad (w : Nat) (body : Str) : Str :=
  match body with
  | '-' :: r => '-' :: (List.replicate (w - 1 - r.length) '0' ++ r)
  | _ => List.replicate (w - body.length) '0' ++ body

/-- field adjustment of a number -/
def padNum (sp : Spec) (body : Str) : Str :=
  if sp.left then padRight sp.width body else if sp.zero then zpad sp.width body else padLeft sp.width body

/-- field adjustment of text (`0` has no effect) -/
def padStr (sp : Spec) (body : Str) : Str :=
  if sp.left then padRight sp.width body else padLeft sp.width body

def precStr (sp : Spec) (s : Str) : Str :=
  match sp.prec with
  | none => s
  | some p => s.take p

/-- one conversion -/
def conv1 (sp : Spec) (v : Val) : Option Str :=
  match sp.ty, v with
  | .f, .num x => some (padNum sp (fmtFbody (sp.prec.getD 6) x))
  | .f, .int n => some (padNum sp (fmtFbody (sp.prec.getD 6) (n : Rat)))
  | .g, .num x => some (padNum sp (fmtG (sp.prec.getD 6) x))
  | .g, .int n => some (padNum sp (fmtG (sp.prec.getD 6) (n : Rat)))
  | .i, .int n => some (padNum sp (fmtIbody n))
  | .i, .num x => some (padNum sp (fmtIbody (truncInt x)))
  | .s, .str s => some (padStr sp (precStr sp s))
  | .s, .int n => some (padStr sp (precStr sp (fmtIbody n)))
  | .c, .str [c] => some (padStr sp [c])
  | _, _ => none

/-- `template % (v1, …, vn)`; a single non-tuple argument is the one-element list -/
def fmtTuple : List Piece → List Val → Option Str
  | [], [] => some []
  | [], _ :: _ => none
  | .lit s :: ps, vs => (fmtTuple ps vs).map (fun r => s ++ r)
  | .conv _ :: _, [] => none
  | .conv sp :: ps, v :: vs =>
    match conv1 sp v, fmtTuple ps vs with
    | some a, some r => some (a ++ r)
    | _, _ => none
  | .named _ _ :: _, _ => none

def lookup (k : Str) : List (Str × Val) → Option Val
  | [] => none
  | (k', v) :: r => if k' = k then some v else lookup k r

/-- `template % {…}` with `%(key)…` conversions -/
def fmtDict : List Piece → List (Str × Val) → Option Str
  | [], _ => some []
  | .lit s :: ps, d => (fmtDict ps d).map (fun r => s ++ r)
  | .named k sp :: ps, d =>
    match (lookup k d).bind (conv1 sp), fmtDict ps d with
    | some a, some r => some (a ++ r)
    | _, _ => none
  | .conv _ :: _, _ => none

def pyFormat (ps : List Piece) (vs : List Val) : Str := (fmtTuple ps vs).getD typeError
def pyFormatD (ps : List Piece) (d : List (Str × Val)) : Str := (fmtDict ps d).getD typeError

/-! ## the template parser -/

def isFlag (c : Char) : Bool := c == '-' || c == '0'

def tyOf (c : Char) : Option Ty :=
  if c == 'f' then some .f else if c == 'g' then some .g else if c == 'i' || c == 'd' then some .i
  else if c == 's' then some .s else if c == 'c' then some .c else none

/-- after `%` (and the optional `(key)`): flags, width, `.precision`, conversion character -/
def parseSpec (s : Str) : Option (Spec × Str) :=
  let fl := s.takeWhile isFlag
  let s1 := s.dropWhile isFlag
  let w := numOf (s1.takeWhile isDigit)
  let s2 := s1.dropWhile isDigit
  let pr : Option Nat × Str :=
    match s2 with
    | '.' :: r => (some (numOf (r.takeWhile isDigit)), r.dropWhile isDigit)
    | _ => (none, s2)
  match pr.2 with
  | c :: r => (tyOf c).map (fun t => (⟨fl.contains '-', fl.contains '0', w, pr.1, t⟩, r))
  | [] => none

def flush (acc : Str) (ps : List Piece) : List Piece := if acc.isEmpty then ps else .lit acc.reverse :: ps

/-- fuel-bounded scanner; `acc` = pending literal text, reversed -/
def parseT : Nat → Str → Str → Option (List Piece)
  | 0, _, _ => none
  | _ + 1, acc, [] => some (flush acc [])
  | n + 1, acc, '%' :: '%' :: r => parseT n ('%' :: acc) r
  | n + 1, acc, '%' :: '(' :: r =>
    match r.dropWhile (fun c => c != ')') with
    | ')' :: r2 =>
      match parseSpec r2 with
      | some (sp, r3) => (parseT n [] r3).map (fun ps => flush acc (.named (r.takeWhile (fun c => c != ')')) sp :: ps))
      | none => none
    | _ => none
  | n + 1, acc, '%' :: r =>
    match parseSpec r with
    | some (sp, r3) => (parseT n [] r3).map (fun ps => flush acc (.conv sp :: ps))
    | none => none
  | n + 1, acc, c :: r => parseT n (c :: acc) r

def parseTemplate (s : Str) : Option (List Piece) := parseT (s.length + 1) [] s

end DS.PyFormat
