import DS.Model.SymType
import DS.Ref.ItRef
/-!
M1 — space-group TYPE by explicit equivalence certificates (no Mathlib import).

Two operation lists describe settings of the same space-group type iff an orientation-preserving affine change of
coordinates `x' = P x + p` (`P` rational, `det P > 0`, mapping the one translation lattice onto the other) conjugates the
one group onto the other:  `(R, t) ↦ (P R P⁻¹, P t + (1 − P R P⁻¹) p)`.

`checkEquiv gops rops c` verifies a translator-supplied certificate `c` — no search in the kernel — in exact integer
arithmetic with common denominators: `P = Pn / d`, `P⁻¹ = Qn / e`, `p = pn / f` (translations and `p` in 24ths of the cell):

* `Pn · Qn = Qn · Pn = d·e`, `0 < det Pn`;
* lattice: `Pn v = d · Σ aᵢ wᵢ` for every generator `v` of the lattice of `gops` (`wᵢ` the generators of the lattice of
  `rops`), and `Qn w = e · Σ aᵢ vᵢ` the other way round (coefficients supplied);
* forward: for the `i`-th operation `a = (R, t)` of `gops` the certificate names an operation `b = (R', τ)` of `rops` with
  `R' Pn = Pn R` and `f·Pn t + d·(1 − R') pn − d·f·τ ≡ 0 (mod 24·d·f)`, i.e. the conjugate of `a` is `b` up to an integer
  translation;
* backward: for the `j`-th operation `b = (R', τ)` of `rops` the certificate names an operation `a = (R, t)` of `gops` with
  `R' Pn = Pn R` and `Qn (f·τ − (1 − R') pn) − e·f·t ≡ 0 (mod 24·e·f)`, i.e. `b` is the conjugate of `a` up to an integer
  translation.

The reference of a tabulated setting is the frozen standard setting of `number % 1000` (`DS.Ref.itRef`, committed
reference data).  Soundness (`DS.Props.C03d.checkEquiv_sound`): the conjugation maps the group described by `gops` onto
the group described by `rops`.
-/
namespace DS
namespace SymEquiv
open SymType

/-- Untrusted certificate of an affine equivalence, see the module comment. -/
structure EqCert where
  Pn : M
  d : Nat
  Qn : M
  e : Nat
  pn : V
  f : Nat
  /-- per lattice generator of the setting: coefficients of `P v` in the lattice generators of the reference -/
  latF : List (List Int)
  /-- per lattice generator of the reference: coefficients of `P⁻¹ w` in the lattice generators of the setting -/
  latB : List (List Int)
  /-- per operation of the setting: index of its conjugate in the reference list -/
  fwd : List Nat
  /-- per operation of the reference: index of the operation of the setting it is the conjugate of -/
  bwd : List Nat
deriving Repr, Inhabited

/-- `k · 1` -/
def scalarM (k : Int) : M := ⟨k, 0, 0, 0, k, 0, 0, 0, k⟩

/-- every component is divisible by `q` -/
def divisible (v : V) (q : Int) : Bool :=
  decide (v.x % q = 0) && decide (v.y % q = 0) && decide (v.z % q = 0)

/-- `A v = k · Σ aᵢ wᵢ` for every `v` of the list with its coefficient list `a` -/
def checkLat (A : M) (k : Int) (tgt : List V) : List V → List (List Int) → Bool
  | [], [] => true
  | v :: vs, a :: as => decide (A.mulVec v = Vec3.smul k (lincomb a tgt)) && checkLat A k tgt vs as
  | _, _ => false

/-- `(1 − R) p` -/
def oneSub (R : M) (p : V) : V := p.sub (R.mulVec p)

/-- `f·Pn t + d·(1 − R') pn − d·f·τ`  (`d·f` times the difference between the conjugate of `a` and `b`) -/
def fwdVec (c : EqCert) (a b : Op) : V :=
  ((Vec3.smul (c.f : Int) (c.Pn.mulVec (tr a))).add (Vec3.smul (c.d : Int) (oneSub (rot b) c.pn))).sub
    (Vec3.smul ((c.d : Int) * (c.f : Int)) (tr b))

/-- `Qn (f·τ − (1 − R') pn) − e·f·t`  (`e·f` times the difference between the back-conjugate of `b` and `a`) -/
def bwdVec (c : EqCert) (a b : Op) : V :=
  (c.Qn.mulVec ((Vec3.smul (c.f : Int) (tr b)).sub (oneSub (rot b) c.pn))).sub
    (Vec3.smul ((c.e : Int) * (c.f : Int)) (tr a))

/-- the rotation parts correspond: `R' Pn = Pn R` -/
def rotRel (c : EqCert) (a b : Op) : Bool := decide ((rot b).mul c.Pn = c.Pn.mul (rot a))

def checkFwdOne (c : EqCert) (a b : Op) : Bool :=
  rotRel c a b && divisible (fwdVec c a b) (24 * ((c.d : Int) * (c.f : Int)))

def checkBwdOne (c : EqCert) (a b : Op) : Bool :=
  rotRel c a b && divisible (bwdVec c a b) (24 * ((c.e : Int) * (c.f : Int)))

/-- every operation of the first list, with the operation of `rops` the certificate names, passes `checkFwdOne` -/
def checkFwd (c : EqCert) (rops : List Op) : List Op → List Nat → Bool
  | [], [] => true
  | a :: as, j :: js =>
    (match rops[j]? with
     | some b => checkFwdOne c a b
     | none => false) && checkFwd c rops as js
  | _, _ => false

/-- every operation of the first list (the reference), with the operation of `gops` the certificate names, passes
`checkBwdOne` -/
def checkBwd (c : EqCert) (gops : List Op) : List Op → List Nat → Bool
  | [], [] => true
  | b :: bs, i :: is =>
    (match gops[i]? with
     | some a => checkBwdOne c a b
     | none => false) && checkBwd c gops bs is
  | _, _ => false

/-- the certificate checker -/
def checkEquiv (gops rops : List Op) (c : EqCert) : Bool :=
  decide (0 < c.d) && decide (0 < c.e) && decide (0 < c.f) &&
  decide (c.Pn.mul c.Qn = scalarM ((c.d : Int) * (c.e : Int))) &&
  decide (c.Qn.mul c.Pn = scalarM ((c.d : Int) * (c.e : Int))) &&
  decide (0 < c.Pn.det) &&
  checkLat c.Pn (c.d : Int) (latGens rops) (latGens gops) c.latF &&
  checkLat c.Qn (c.e : Int) (latGens gops) (latGens rops) c.latB &&
  checkFwd c rops gops c.fwd &&
  checkBwd c gops rops c.bwd

/-- the kernel obligation per tabulated setting: equivalent to the frozen standard setting of `number % 1000` -/
def checkEquivSG (g : SG) (c : EqCert) : Bool :=
  checkEquiv g.ops (Ref.itRef (g.number % 1000)) c

end SymEquiv
end DS
