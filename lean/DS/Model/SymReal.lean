/-!
Semantics of the numpy / Python primitives that `symmetryutilities.expandPosition` and its helpers use, over a
generic scalar `α` (an ordered field with a floor function; no Mathlib here: only the core operation classes).

The transliteration `DS/Gen/SrcSym.lean` (written by `translate/src_sym.py` from the current source) is a
composition of exactly these primitives; `DS/Props/SrcSym.lean` proves that, over any linearly ordered field with
floor (ℚ, ℝ), it computes `DS.Orbit.expand` on the integer grid.

What is fixed here (trusted reading of numpy / Python, each one line):
* element-wise arithmetic and comparison of length-3 arrays, a scalar operand is broadcast (`fill`);
* `numpy.floor` returns the floor as a scalar of the same type;
* `A[mask] = B` (B element-wise in `A[mask]`) is `where(mask, B, A)`;
* `numpy.dot(R, v)` of a 3×3 with a 3-vector: row sums `(r1·v1 + r2·v2) + r3·v3`;
* `X.max(axis=1)` of an n×3 array: `max(max(a, b), c)` per row; `numpy.argmin`: index of the FIRST minimum, an error
  on an empty array; `numpy.all` of a length-3 boolean array: conjunction;
* `int(y)`: truncation toward zero;
* a `dict` whose values are `list` OBJECTS: key ↦ object identity, identity ↦ contents (`RefDict`), so that two keys
  bound to the same list see each other's `append`.
-/
namespace DS

/-- the one primitive of the scalar that is not a field operation or a comparison -/
class FloorOrd (α : Type) where
  floor : α → Int

abbrev V3 (α : Type) := α × α × α

/-- `spacegroupmod.SymOp`: rotation rows `R`, translation `t` -/
structure SymOp (α : Type) where
  R : V3 (V3 α)
  t : V3 α

namespace Np
section
variable {α β γ : Type}

def map3 (f : α → β) (v : V3 α) : V3 β := (f v.1, f v.2.1, f v.2.2)
def zip3 (f : α → β → γ) (u : V3 α) (v : V3 β) : V3 γ := (f u.1 v.1, f u.2.1 v.2.1, f u.2.2 v.2.2)
/-- a scalar operand broadcast to a length-3 array -/
def fill (c : α) : V3 α := (c, c, c)

def add [Add α] (u v : V3 α) : V3 α := zip3 (· + ·) u v
def sub [Sub α] (u v : V3 α) : V3 α := zip3 (· - ·) u v

def lt [LT α] [DecidableLT α] (u v : V3 α) : V3 Bool := zip3 (fun a b => decide (a < b)) u v
def gt [LT α] [DecidableLT α] (u v : V3 α) : V3 Bool := zip3 (fun a b => decide (a > b)) u v
def le [LE α] [DecidableLE α] (u v : V3 α) : V3 Bool := zip3 (fun a b => decide (a ≤ b)) u v
def ge [LE α] [DecidableLE α] (u v : V3 α) : V3 Bool := zip3 (fun a b => decide (a ≥ b)) u v
def logical_or (u v : V3 Bool) : V3 Bool := zip3 (· || ·) u v
def all (b : V3 Bool) : Bool := b.1 && b.2.1 && b.2.2

/-- `numpy.floor` on a scalar -/
def floorS [IntCast α] [FloorOrd α] (x : α) : α := ((FloorOrd.floor x : Int) : α)
/-- `numpy.floor` on a length-3 array -/
def floor [IntCast α] [FloorOrd α] (v : V3 α) : V3 α := map3 floorS v

/-- `A[mask] = B`, where `B` is an element-wise expression in `A[mask]` (given on the whole array) -/
def assignMask (a : V3 α) (mask : V3 Bool) (b : V3 α) : V3 α :=
  zip3 (fun (m : Bool) (xy : α × α) => if m then xy.2 else xy.1) mask (zip3 Prod.mk a b)

def dotRow [Add α] [Mul α] (r v : V3 α) : α := r.1 * v.1 + r.2.1 * v.2.1 + r.2.2 * v.2.2
/-- `numpy.dot(R, v)` -/
def dot [Add α] [Mul α] (R : V3 (V3 α)) (v : V3 α) : V3 α := map3 (fun r => dotRow r v) R

/-- `numpy.maximum` of two scalars -/
def max2 [LE α] [DecidableLE α] (a b : α) : α := if a ≤ b then b else a
/-- `X.max(axis=1)` of an n×3 array -/
def maxAxis1 [LE α] [DecidableLE α] (rows : List (V3 α)) : List α :=
  rows.map fun r => max2 (max2 r.1 r.2.1) r.2.2

/-- `numpy.argmin` of a 1-d array: index of the first minimum; `none` = `ValueError` on an empty array -/
def argmin [LT α] [DecidableLT α] (l : List α) : Option Nat :=
  let rec go (rest : List α) (i best : Nat) (bv : α) : Nat :=
    match rest with
    | [] => best
    | v :: vs => if v < bv then go vs (i + 1) i v else go vs (i + 1) best bv
  match l with
  | [] => none
  | v :: vs => some (go vs 1 0 v)

end
end Np

namespace Py
section
variable {α β : Type}

/-- `int(y)` of a float: truncation toward zero -/
def int [LT α] [DecidableLT α] [Neg α] [OfNat α 0] [FloorOrd α] (y : α) : Int :=
  if y < 0 then -(FloorOrd.floor (-y)) else FloorOrd.floor y

/-- `[f(p) for p in l]` where `f` may raise (`none`) -/
def mapOpt (f : α → Option β) : List α → Option (List β)
  | [] => some []
  | a :: l => (f a).bind fun b => (mapOpt f l).bind fun bs => some (b :: bs)

end
end Py

/-- `dict` with hashable keys `κ` whose values are Python `list` objects with elements `σ` -/
structure RefDict (κ σ : Type) where
  /-- key ↦ identity of the list object it is bound to -/
  keys : List (κ × Nat)
  /-- identity ↦ current contents; identities are allocated in order -/
  objs : List (List σ)

namespace RefDict
section
variable {κ σ : Type} [BEq κ]

def empty : RefDict κ σ := ⟨[], []⟩

def lookup (m : List (κ × Nat)) (k : κ) : Option Nat := (m.find? (fun e => e.1 == k)).map (·.2)

/-- `d[k] = v` on the key table: rebinding an existing key or adding a new one -/
def assocSet (m : List (κ × Nat)) (k : κ) (v : Nat) : List (κ × Nat) :=
  match lookup m k with
  | some _ => m.map fun e => if e.1 == k then (e.1, v) else e
  | none => m ++ [(k, v)]

/-- `k in d` -/
def contains (d : RefDict κ σ) (k : κ) : Bool := (lookup d.keys k).isSome
/-- `d[k] = []`: a NEW list object -/
def bindFresh (d : RefDict κ σ) (k : κ) : RefDict κ σ :=
  { keys := assocSet d.keys k d.objs.length, objs := d.objs ++ [[]] }
/-- `d[k] = d[k']`: the SAME list object under a second key (`none` = `KeyError`) -/
def bindSame (d : RefDict κ σ) (k k' : κ) : Option (RefDict κ σ) :=
  (lookup d.keys k').map fun i => { d with keys := assocSet d.keys k i }
/-- `d[k].append(x)` (`none` = `KeyError`) -/
def appendAt (d : RefDict κ σ) (k : κ) (x : σ) : Option (RefDict κ σ) :=
  (lookup d.keys k).map fun i => { d with objs := d.objs.modify i (fun l => l ++ [x]) }
/-- `d[k]` (`none` = `KeyError`) -/
def get (d : RefDict κ σ) (k : κ) : Option (List σ) :=
  (lookup d.keys k).bind fun i => d.objs[i]?

end
end RefDict

/-- the mutable locals of the loop of `expandPosition` -/
structure LoopSt (α : Type) where
  positions : List (V3 α)
  site_symops : RefDict (V3 Int) (SymOp α)

end DS
