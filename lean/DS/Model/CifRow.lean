import DS.Model.Adp
/-!
M4 — the atom-site *row phase* of the CIF reader (`parsers/p_cif.py`), before symmetry expansion
(no Mathlib import; scalar-generic over the classes of `DS.Model.Adp`).

What is mirrored, statement by statement, from `/repo/src/diffpy/structure/parsers/p_cif.py`:

* the 26 setters `P_cif._tr_*` (`applySetter`), acting on an `Atom` = element, label, occupancy and the
  ADP/position state machine `DS.AtomS` of `atom.py` (storage `_U`, flag `_anisotropy`, `xyz`, `lattice`);
* `P_cif.BtoU` (= `DS.BtoU`), the element-symbol normalisation of `_tr_atom_site_type_symbol`
  (regular expression `_psymb`, `smbl[:1].upper() + smbl[1:].lower()`), the label rule
  (`if not a.element`), `a.xyz[k] = …`, `a.xyz_cartn[k] = …` (through `_AtomCartesianCoordinates.__setitem__`:
  all three Cartesian coordinates are recomputed from `xyz`, component `k` is replaced, `xyz` is recomputed
  with `lattice.fractional`), `leading_float(value, d)` on an already-read number;
* the name table `_atom_setters` (`setterTable`: every method name and its lower-case form) and
  `_get_atom_setters` (`itemOfName?`: `"_tr" + p.lower()`, default `_tr_ignore`, `getattr`);
* `_parse_atom_site_label` (`siteLoop`: `?` label skipped, `labelindex`, fresh atom in the structure's lattice,
  setters in column order, `does_adp_type → anisotropy[label]`) and `_parse_atom_site_aniso_label`
  (`anisoLoop`: `?` **ends** the loop, `labelindex[lb]` or `KeyError`, `lb not in anisotropy → a.anisotropy = True`,
  setters in column order).

A value of a loop is `Value`: the text PyCifRW delivers and the number `leading_float` reads from it
(`none` when the text does not start with a number; the number reader itself is `DS.CifNum`).  A format error
(`ValueError`, `KeyError`, … → `StructureFormatError`) is `none` / `LoopSt.err`.

Strings are handled as ASCII (`str.upper/lower/strip`, `\d`, `[a-zA-Z]`).
-/
namespace DS
namespace CifRow

/-! ### strings (ASCII model of the `str` methods used) -/

/-- `s.lower()` -/
def pyLower (s : String) : String := String.ofList (s.toList.map Char.toLower)
/-- `s.upper()` -/
def pyUpper (s : String) : String := String.ofList (s.toList.map Char.toUpper)
/-- `s[:n]` -/
def pyTake (n : Nat) (s : String) : String := String.ofList (s.toList.take n)
/-- `s[n:]` -/
def pyDrop (n : Nat) (s : String) : String := String.ofList (s.toList.drop n)

def isWs (c : Char) : Bool := c == ' ' || c == '\t' || c == '\n' || c == '\r' || c == '\x0b' || c == '\x0c'
/-- `s.strip()` -/
def pyStrip (s : String) : String :=
  String.ofList ((s.toList.dropWhile isWs).reverse.dropWhile isWs).reverse

def isDig (c : Char) : Bool := c.isDigit
def isLetter (c : Char) : Bool := c.isAlpha

/-- `re.compile(r"(\d+-)?([a-zA-Z]+)(\d[+-])?").match(s)` : the text of group 0, `none` when there is no match.
(With the nucleon prefix taken, a failure of the letters cannot be repaired by back-tracking: giving up the prefix
leaves a digit in front.) -/
def symbolMatch (s : List Char) : Option (List Char) :=
  let d := s.takeWhile isDig
  let pre : List Char × List Char :=
    if d.isEmpty then ([], s)
    else match s.dropWhile isDig with
      | '-' :: r => (d ++ ['-'], r)
      | _ => ([], s)
  let letters := pre.2.takeWhile isLetter
  if letters.isEmpty then none
  else
    let ox : List Char := match pre.2.dropWhile isLetter with
      | c :: sg :: _ => if isDig c && (sg == '+' || sg == '-') then [c, sg] else []
      | _ => []
    some (pre.1 ++ letters ++ ox)

/-- the pattern `symbolMatch` was written for -/
def psymbPattern : String := "(\\d+-)?([a-zA-Z]+)(\\d[+-])?"

/-- `P_cif._psymb.match(value)` as an optional group-0 text -/
def psymbMatch (s : String) : Option String := (symbolMatch s.toList).map String.ofList

/-- `rx and rx.group(0) or value` -/
def groupOr (rx : Option String) (value : String) : String :=
  match rx with
  | some g => if g == "" then value else g
  | none => value

/-! ### items, values, atoms -/

/-- the six tensor components the CIF items name, in the order of the source -/
inductive Pair where
  | p11 | p22 | p33 | p12 | p13 | p23
deriving DecidableEq, Repr, Inhabited

def Pair.i : Pair → Ix
  | .p11 => .i0 | .p22 => .i1 | .p33 => .i2 | .p12 => .i0 | .p13 => .i0 | .p23 => .i1
def Pair.j : Pair → Ix
  | .p11 => .i0 | .p22 => .i1 | .p33 => .i2 | .p12 => .i1 | .p13 => .i2 | .p23 => .i2

/-- the 26 setters of `P_cif._atom_setters` -/
inductive Item where
  | ignore
  | label
  | typeSymbol
  | fract (k : Ix)
  | cartn (k : Ix)
  | uiso
  | biso
  | adpType
  | thermalType
  | occupancy
  | anisoU (p : Pair)
  | anisoB (p : Pair)
deriving DecidableEq, Repr, Inhabited

/-- a loop value: the text and the number `leading_float` reads from it (`none`: the text does not start with a number) -/
structure Value (α : Type) where
  text : String
  num : Option α
deriving Repr, Inhabited

/-- the text is `.` or `?` after stripping -/
def isUnknown (t : String) : Bool := pyStrip t == "." || pyStrip t == "?"

/-- `leading_float(value, d)`: `none` = `ValueError` -/
def leadingFloat? {α : Type} (v : Value α) (d : α) : Option α :=
  match v.num with
  | some x => some x
  | none => if isUnknown v.text then some d else none

/-- `leading_float(value, d)` where it does not raise -/
def numOf {α : Type} (v : Value α) (d : α) : α := v.num.getD d

/-- an `Atom` object as far as the reader writes it -/
structure Atom (α : Type) where
  element : String
  label : String
  occ : α
  s : AtomS α
deriving Repr, Inhabited

def _root_.DS.Vec3.getIx {α : Type} (u : Vec3 α) : Ix → α
  | .i0 => u.x | .i1 => u.y | .i2 => u.z
def _root_.DS.Vec3.setIx {α : Type} (u : Vec3 α) (k : Ix) (v : α) : Vec3 α :=
  match k with
  | .i0 => { u with x := v } | .i1 => { u with y := v } | .i2 => { u with z := v }

section
variable {α : Type} [Add α] [Mul α] [Sub α] [Neg α] [Div α] [OfNat α 0] [OfNat α 1]
  [OfNat α 2] [OfNat α 3] [OfNat α 8] [LT α] [DecidableLT α] [Elem α] [AdpConst α]

/-- `Lattice.fractional(rc) = numpy.dot(rc, recbase)` -/
def frac (l : LatData α) (rc : Vec3 α) : Vec3 α := Mat3.vecMul rc l.recbase

/-- position part of the setters: `a.xyz[k] = v` -/
def setXyzIx (k : Ix) (v : α) (_ : Option (LatData α)) (x : Vec3 α) : Vec3 α := Vec3.setIx x k v

/-- position part of the setters: `a.xyz_cartn[k] = v`.
`xyz_cartn` is `self.xyz` itself when there is no lattice, otherwise a fresh `_AtomCartesianCoordinates`
(`lattice.cartesian(xyz)`) whose `__setitem__` stores the component and assigns
`xyz[:] = lattice.fractional(<the whole Cartesian triple>)`. -/
def setCartnIx (k : Ix) (v : α) (lat : Option (LatData α)) (x : Vec3 α) : Vec3 α :=
  match lat with
  | none => Vec3.setIx x k v
  | some l => frac l (Vec3.setIx (l.cart x) k v)

namespace Atom

/-- `Atom(lattice=stru.lattice)` as `Structure.addNewAtom()` creates it -/
def fresh (lat : Option (LatData α)) : Atom α :=
  { element := "", label := "", occ := 1, s := { (AtomS.default : AtomS α) with lat := lat } }

def setLabel (t : String) (a : Atom α) : Atom α := { a with label := t }
def setElement (t : String) (a : Atom α) : Atom α := { a with element := t }
def setOcc (v : α) (a : Atom α) : Atom α := { a with occ := v }
/-- a write to `xyz` (directly or through `xyz_cartn`) -/
def movePos (f : Option (LatData α) → Vec3 α → Vec3 α) (a : Atom α) : Atom α :=
  { a with s := { a.s with xyz := f a.s.lat a.s.xyz } }
/-- an assignment handled by the ADP state machine of `atom.py` -/
def liftS (f : AtomS α → AtomS α) (a : Atom α) : Atom α := { a with s := f a.s }

end Atom

/-- the new element symbol of `_tr_atom_site_type_symbol` -/
def normSymbol (value : String) : String :=
  let smbl := groupOr (psymbMatch value) value
  pyUpper (pyTake 1 smbl) ++ pyLower (pyDrop 1 smbl)

/-- `value not in ("Uiso", "Biso")` -/
def adpFlag (value : String) : Bool := !(["Uiso", "Biso"].contains value)

/-- the effect of one setter, by the part of the atom it writes -/
inductive Eff (α : Type) where
  | nop
  /-- `(element, label) ↦ (element', label')` -/
  | names (f : String → String → String × String)
  | pos (f : Option (LatData α) → Vec3 α → Vec3 α)
  | occ (v : α)
  | adp (f : AtomS α → AtomS α)

def Eff.run : Eff α → Atom α → Atom α
  | .nop, a => a
  | .names f, a => { a with element := (f a.element a.label).1, label := (f a.element a.label).2 }
  | .pos f, a => a.movePos f
  | .occ v, a => a.setOcc v
  | .adp f, a => a.liftS f

/-- `_tr_atom_site_label`: the label is stored; the element is derived from it only when none is set yet -/
def labelNames (value : String) (e _l : String) : String × String :=
  (if e == "" then normSymbol value else e, value)

/-- the 26 setters by their effect -/
def eff : Item → Value α → Eff α
  | .ignore, _ => .nop
  | .label, v => .names (labelNames v.text)
  | .typeSymbol, v => .names (fun _ l => (normSymbol v.text, l))
  | .fract k, v => .pos (setXyzIx k (numOf v 0))
  | .cartn k, v => .pos (setCartnIx k (numOf v 0))
  | .uiso, v => .adp (AtomS.setUiso (numOf v 0))
  | .biso, v => .adp (AtomS.setUiso (BtoU * numOf v 0))
  | .adpType, v => .adp (AtomS.setAniso (adpFlag v.text))
  | .thermalType, v => .adp (AtomS.setAniso (adpFlag v.text))
  | .occupancy, v => .occ (numOf v 1)
  | .anisoU p, v => .adp (AtomS.setUij p.i p.j (numOf v 0))
  | .anisoB p, v => .adp (AtomS.setUij p.i p.j (BtoU * numOf v 0))

/-- `P_cif._tr_<item>(a, value)` -/
def applySetter (it : Item) (v : Value α) (a : Atom α) : Atom α := (eff it v).run a

/-- items whose setter calls `leading_float` -/
def needsNum : Item → Bool
  | .fract _ | .cartn _ | .uiso | .biso | .occupancy | .anisoU _ | .anisoB _ => true
  | _ => false

/-- the setter does not raise on this value -/
def valueOK (it : Item) (v : Value α) : Bool := !needsNum it || v.num.isSome || isUnknown v.text

/-- the columns of one row: `zip(prop_setters, values)` -/
abbrev Col (α : Type) := Item × Value α

/-- `for fset, val in zip(prop_setters, values): fset(a, val)` -/
def applyCols (cols : List (Col α)) (a : Atom α) : Atom α :=
  cols.foldl (fun a c => applySetter c.1 c.2 a) a

def colsValid (cols : List (Col α)) : Bool := cols.all (fun c => valueOK c.1 c.2)

end

/-! ### the name table -/

/-- `P_cif._atom_setters` after the class body has run: every method name and its lower-case form map to the method name -/
def setterTable : List (String × String) :=
  [("_tr_ignore", "_tr_ignore"),
   ("_tr_atom_site_label", "_tr_atom_site_label"),
   ("_tr_atom_site_type_symbol", "_tr_atom_site_type_symbol"),
   ("_tr_atom_site_fract_x", "_tr_atom_site_fract_x"),
   ("_tr_atom_site_fract_y", "_tr_atom_site_fract_y"),
   ("_tr_atom_site_fract_z", "_tr_atom_site_fract_z"),
   ("_tr_atom_site_cartn_x", "_tr_atom_site_cartn_x"),
   ("_tr_atom_site_cartn_y", "_tr_atom_site_cartn_y"),
   ("_tr_atom_site_cartn_z", "_tr_atom_site_cartn_z"),
   ("_tr_atom_site_U_iso_or_equiv", "_tr_atom_site_U_iso_or_equiv"),
   ("_tr_atom_site_B_iso_or_equiv", "_tr_atom_site_B_iso_or_equiv"),
   ("_tr_atom_site_adp_type", "_tr_atom_site_adp_type"),
   ("_tr_atom_site_thermal_displace_type", "_tr_atom_site_thermal_displace_type"),
   ("_tr_atom_site_occupancy", "_tr_atom_site_occupancy"),
   ("_tr_atom_site_aniso_U_11", "_tr_atom_site_aniso_U_11"),
   ("_tr_atom_site_aniso_U_22", "_tr_atom_site_aniso_U_22"),
   ("_tr_atom_site_aniso_U_33", "_tr_atom_site_aniso_U_33"),
   ("_tr_atom_site_aniso_U_12", "_tr_atom_site_aniso_U_12"),
   ("_tr_atom_site_aniso_U_13", "_tr_atom_site_aniso_U_13"),
   ("_tr_atom_site_aniso_U_23", "_tr_atom_site_aniso_U_23"),
   ("_tr_atom_site_aniso_B_11", "_tr_atom_site_aniso_B_11"),
   ("_tr_atom_site_aniso_B_22", "_tr_atom_site_aniso_B_22"),
   ("_tr_atom_site_aniso_B_33", "_tr_atom_site_aniso_B_33"),
   ("_tr_atom_site_aniso_B_12", "_tr_atom_site_aniso_B_12"),
   ("_tr_atom_site_aniso_B_13", "_tr_atom_site_aniso_B_13"),
   ("_tr_atom_site_aniso_B_23", "_tr_atom_site_aniso_B_23"),
   ("_tr_atom_site_u_iso_or_equiv", "_tr_atom_site_U_iso_or_equiv"),
   ("_tr_atom_site_b_iso_or_equiv", "_tr_atom_site_B_iso_or_equiv"),
   ("_tr_atom_site_aniso_u_11", "_tr_atom_site_aniso_U_11"),
   ("_tr_atom_site_aniso_u_22", "_tr_atom_site_aniso_U_22"),
   ("_tr_atom_site_aniso_u_33", "_tr_atom_site_aniso_U_33"),
   ("_tr_atom_site_aniso_u_12", "_tr_atom_site_aniso_U_12"),
   ("_tr_atom_site_aniso_u_13", "_tr_atom_site_aniso_U_13"),
   ("_tr_atom_site_aniso_u_23", "_tr_atom_site_aniso_U_23"),
   ("_tr_atom_site_aniso_b_11", "_tr_atom_site_aniso_B_11"),
   ("_tr_atom_site_aniso_b_22", "_tr_atom_site_aniso_B_22"),
   ("_tr_atom_site_aniso_b_33", "_tr_atom_site_aniso_B_33"),
   ("_tr_atom_site_aniso_b_12", "_tr_atom_site_aniso_B_12"),
   ("_tr_atom_site_aniso_b_13", "_tr_atom_site_aniso_B_13"),
   ("_tr_atom_site_aniso_b_23", "_tr_atom_site_aniso_B_23")]

/-- `getattr(P_cif, name)` for the setter methods, as items -/
def setterAttrs : List (String × Item) :=
  [("_tr_ignore", .ignore),
   ("_tr_atom_site_label", .label),
   ("_tr_atom_site_type_symbol", .typeSymbol),
   ("_tr_atom_site_fract_x", .fract .i0),
   ("_tr_atom_site_fract_y", .fract .i1),
   ("_tr_atom_site_fract_z", .fract .i2),
   ("_tr_atom_site_cartn_x", .cartn .i0),
   ("_tr_atom_site_cartn_y", .cartn .i1),
   ("_tr_atom_site_cartn_z", .cartn .i2),
   ("_tr_atom_site_U_iso_or_equiv", .uiso),
   ("_tr_atom_site_B_iso_or_equiv", .biso),
   ("_tr_atom_site_adp_type", .adpType),
   ("_tr_atom_site_thermal_displace_type", .thermalType),
   ("_tr_atom_site_occupancy", .occupancy),
   ("_tr_atom_site_aniso_U_11", .anisoU .p11),
   ("_tr_atom_site_aniso_U_22", .anisoU .p22),
   ("_tr_atom_site_aniso_U_33", .anisoU .p33),
   ("_tr_atom_site_aniso_U_12", .anisoU .p12),
   ("_tr_atom_site_aniso_U_13", .anisoU .p13),
   ("_tr_atom_site_aniso_U_23", .anisoU .p23),
   ("_tr_atom_site_aniso_B_11", .anisoB .p11),
   ("_tr_atom_site_aniso_B_22", .anisoB .p22),
   ("_tr_atom_site_aniso_B_33", .anisoB .p33),
   ("_tr_atom_site_aniso_B_12", .anisoB .p12),
   ("_tr_atom_site_aniso_B_13", .anisoB .p13),
   ("_tr_atom_site_aniso_B_23", .anisoB .p23)]

/-- the method name `_get_atom_setters` selects for the loop item `p` -/
def fncName (p : String) : String := (setterTable.lookup ("_tr" ++ pyLower p)).getD "_tr_ignore"

/-- `_get_atom_setters`, one item: `none` = `AttributeError` (does not occur, `itemOfName?_isSome`) -/
def itemOfName? (p : String) : Option Item := setterAttrs.lookup (fncName p)

/-! ### the two loops -/

/-- Python `dict` with string keys, as its lookup function -/
abbrev Dict (β : Type) := String → Option β
def Dict.empty {β : Type} : Dict β := fun _ => none
/-- `d[k] = v` -/
def Dict.set {β : Type} (d : Dict β) (k : String) (v : β) : Dict β := fun k' => if k' = k then some v else d k'

/-- what the row phase builds: `self.stru` (atoms in order), `self.labelindex`, `self.anisotropy` -/
structure PState (α : Type) where
  atoms : List (Atom α)
  labelindex : Dict Nat
  anisotropy : Dict Bool

def PState.empty {α : Type} : PState α := { atoms := [], labelindex := Dict.empty, anisotropy := Dict.empty }

/-- `values[ilb]` -/
def rowLabel {α : Type} (ilb : Nat) (vals : List (Value α)) : Option String := (vals[ilb]?).map (·.text)

section
variable {α : Type} [Add α] [Mul α] [Sub α] [Neg α] [Div α] [OfNat α 0] [OfNat α 1]
  [OfNat α 2] [OfNat α 3] [OfNat α 8] [LT α] [DecidableLT α] [Elem α] [AdpConst α]

/-- body of `for values in sitedatalist` in `_parse_atom_site_label`; `none` = exception -/
def siteRow (lat : Option (LatData α)) (its : List Item) (ilb : Nat) (doesAdp : Bool)
    (st : PState α) (vals : List (Value α)) : Option (PState α) :=
  match rowLabel ilb vals with
  | none => none
  | some cur =>
    if cur == "?" then some st                                   -- `continue`
    else if !colsValid (its.zip vals) then none
    else
      let a := applyCols (its.zip vals) (Atom.fresh lat)
      some { atoms := st.atoms ++ [a],
             labelindex := st.labelindex.set cur st.atoms.length,
             anisotropy := if doesAdp then st.anisotropy.set cur a.s.aniso else st.anisotropy }

def siteLoop (lat : Option (LatData α)) (its : List Item) (ilb : Nat) (doesAdp : Bool) :
    PState α → List (List (Value α)) → Option (PState α)
  | st, [] => some st
  | st, vals :: rest =>
    match siteRow lat its ilb doesAdp st vals with
    | none => none
    | some st' => siteLoop lat its ilb doesAdp st' rest

/-- state of a `for` loop that may `break` or raise -/
inductive LoopSt (σ : Type) where
  | run (s : σ)
  | done (s : σ)
  | err

/-- `some` = the loop ended (exhausted or `break`), `none` = exception -/
def LoopSt.result {σ : Type} : LoopSt σ → Option σ
  | .run s => some s
  | .done s => some s
  | .err => none

/-- body of `for values in sitedatalist` in `_parse_atom_site_aniso_label` -/
def anisoRow (its : List Item) (ilb : Nat) (st : PState α) (vals : List (Value α)) : LoopSt (PState α) :=
  match rowLabel ilb vals with
  | none => .err
  | some lb =>
    if lb == "?" then .done st                                   -- `break`
    else match st.labelindex lb with
      | none => .err                                             -- `KeyError`
      | some idx =>
        match st.atoms[idx]? with
        | none => .err
        | some a0 =>
          let known := (st.anisotropy lb).isSome
          let a1 := if known then a0 else a0.liftS (AtomS.setAniso true)
          let an := if known then st.anisotropy else st.anisotropy.set lb true
          if !colsValid (its.zip vals) then .err
          else .run { st with atoms := st.atoms.set idx (applyCols (its.zip vals) a1), anisotropy := an }

def anisoStep (its : List Item) (ilb : Nat) : LoopSt (PState α) → List (Value α) → LoopSt (PState α)
  | .run st, vals => anisoRow its ilb st vals
  | x, _ => x

def anisoLoop (its : List Item) (ilb : Nat) (st : PState α) (rows : List (List (Value α))) : LoopSt (PState α) :=
  rows.foldl (anisoStep its ilb) (.run st)

/-- a CIF loop as PyCifRW hands it over: `keys()` and `zip(*values())` -/
structure Loop (α : Type) where
  names : List String
  rows : List (List (Value α))

/-- `_parse_atom_site_label(block)` on a fresh parser state -/
def parseSite (lat : Option (LatData α)) (lp : Loop α) : Option (PState α) :=
  let doesAdp := lp.names.contains "_atom_site_adp_type" || lp.names.contains "_atom_site_thermal_displace_type"
  match lp.names.mapM itemOfName?, lp.names.idxOf? "_atom_site_label" with
  | some its, some ilb => siteLoop lat its ilb doesAdp PState.empty lp.rows
  | _, _ => none

/-- `_parse_atom_site_aniso_label(block)`; `none` for the loop = `"_atom_site_aniso_label" not in block` -/
def parseAniso (lp : Option (Loop α)) (st : PState α) : Option (PState α) :=
  match lp with
  | none => some st
  | some lp =>
    match lp.names.mapM itemOfName?, lp.names.idxOf? "_atom_site_aniso_label" with
    | some its, some ilb => (anisoLoop its ilb st lp.rows).result
    | _, _ => none

/-- the row phase of `_parseCifBlock`: site loop, then aniso loop -/
def parseAtoms (lat : Option (LatData α)) (site : Loop α) (aniso : Option (Loop α)) : Option (PState α) :=
  (parseSite lat site).bind (parseAniso aniso)

end

/-! ### driver handler (`Float` instance) -/

namespace Drv

def hexVal (c : Char) : Option Nat :=
  if c.isDigit then some (c.toNat - '0'.toNat)
  else if 'a' ≤ c && c ≤ 'f' then some (c.toNat - 'a'.toNat + 10) else none

def unhex : List Char → Option (List Char)
  | [] => some []
  | a :: b :: r =>
    match hexVal a, hexVal b, unhex r with
    | some x, some y, some t => some (Char.ofNat (16 * x + y) :: t)
    | _, _, _ => none
  | _ => none

def hexDigit (n : Nat) : Char := if n < 10 then Char.ofNat (n + 48) else Char.ofNat (n + 87)
def hex (s : String) : String :=
  String.ofList ('x' :: s.toList.flatMap (fun c => [hexDigit (c.toNat / 16 % 16), hexDigit (c.toNat % 16)]))

/-- `x<hex of the text>:<bits of the number | ->` -/
def parseValue (w : String) : Option (Value Float) :=
  match w.splitOn ":" with
  | [t, n] =>
    match t.toList with
    | 'x' :: h =>
      match unhex h with
      | none => none
      | some cs =>
        if n == "-" then some { text := String.ofList cs, num := none }
        else (floatOfBits? n).map (fun x => { text := String.ofList cs, num := some x })
    | _ => none
  | _ => none

def chunk {β : Type} (n : Nat) : Nat → List β → List (List β)
  | 0, _ => []
  | k + 1, l => l.take n :: chunk n k (l.drop n)

/-- `<ncols> <nrows> <names…> <values row by row…>`; returns the loop and the remaining words -/
def parseLoop (ws : List String) : Option (Loop Float × List String) :=
  match ws with
  | nc :: nr :: rest =>
    match nc.toNat?, nr.toNat? with
    | some nc, some nr =>
      if rest.length < nc + nc * nr then none else
      match ((rest.drop nc).take (nc * nr)).mapM parseValue with
      | none => none
      | some vs => some ({ names := rest.take nc, rows := chunk nc nr vs }, rest.drop (nc + nc * nr))
    | _, _ => none
  | _ => none

def showAtom (st : PState Float) (a : Atom Float) : String :=
  let r := a.s.getU
  let li := match st.labelindex a.label with | some i => toString i | none => "-"
  let an := match st.anisotropy a.label with | some true => "1" | some false => "0" | none => "-"
  s!"{hex a.element} {hex a.label} {showVec a.s.xyz} {bitsOfFloat a.occ} {if a.s.aniso then "1" else "0"} {showMat r.1} {bitsOfFloat a.s.uisoequiv} {li} {an}"

end Drv

open Drv in
/-- driver commands

* `cifrow.parse <63 lattice words> <site loop> <0 | 1 <aniso loop>>` with a loop written as
  `<ncols> <nrows> <names…> <values…>` and a value as `x<hex text>:<bits | ->`.
  Result: `err` (format error) or, per atom, `element label xyz(3) occ flag U(9) Uisoequiv labelindex[label] anisotropy[label]`
  separated by ` | ` (`empty` when there is no atom).
* `cifrow.item <name>` — the method `_get_atom_setters` selects for a loop item.
* `cifrow.symbol <hex text>` — the element symbol `_tr_atom_site_type_symbol` stores. -/
def cifrowHandle (ws : List String) : Option String :=
  match ws with
  | "cifrow.parse" :: rest =>
    match AdpDrv.parseLats 1 rest with
    | some ([l], rest) =>
      match parseLoop rest with
      | none => some "bad-op"
      | some (site, rest) =>
        let an : Option (Option (Loop Float)) :=
          match rest with
          | ["0"] => some none
          | "1" :: r => match parseLoop r with
            | some (lp, []) => some (some lp)
            | _ => none
          | _ => none
        match an with
        | none => some "bad-op"
        | some an =>
          match parseAtoms (some l) site an with
          | none => some "err"
          | some st => some (if st.atoms.isEmpty then "empty" else " | ".intercalate (st.atoms.map (showAtom st)))
    | _ => some "bad-op"
  | ["cifrow.item", p] => some (fncName p)
  | ["cifrow.symbol", h] =>
    match h.toList with
    | 'x' :: cs => match unhex cs with
      | some t => some (hex (normSymbol (String.ofList t)))
      | none => some "bad-op"
    | _ => some "bad-op"
  | _ => none

end CifRow
end DS
