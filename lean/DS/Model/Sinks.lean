/-
M4 — "dangerous sink" records extracted by `translate/sinks.py` from the `ast` of every module of
`diffpy.structure` reachable from the parser entry points (property C17b).  No Mathlib import.
-/
namespace DS.Sinks

inductive Kind where
  | eval | exec | compile | import_ | importlib | osCommand | subprocess | openWrite | unpickle
  | getattr | setattr | delattr | format
deriving DecidableEq, Repr

/-- sinks through which text could become code, a process, or a file -/
def Kind.isExec : Kind → Bool
  | .getattr | .setattr | .delattr | .format => false
  | _ => true

structure Sink where
  module : String       -- e.g. "parsers.p_xcfg"
  func : String         -- qualified function name, "<module>" for module level code
  line : Nat
  kind : Kind
  onParsePath : Bool    -- enclosing function reachable (name-based call graph) from parse entry points
  tainted : Bool        -- the critical argument may derive from file content (conservative, intraprocedural)
  arg : String          -- the critical argument as written
  derivation : String   -- the same with single-assignment locals / module constants substituted
  guards : String       -- `if … : raise` tests preceding the call in the function, joined by " ; "
deriving DecidableEq, Repr

/-- a reviewed exception: matches sinks by module, function, kind, derivation and guards -/
structure Allow where
  module : String
  func : String
  kind : Kind
  derivation : String
  guards : String
  reason : String
deriving DecidableEq, Repr

def Allow.covers (a : Allow) (s : Sink) : Bool :=
  a.module == s.module && a.func == s.func && a.kind == s.kind && a.derivation == s.derivation && a.guards == s.guards

def allowed (al : List Allow) (s : Sink) : Bool := al.any (·.covers s)

/-- code/process/file sinks on the parse path fed by possibly file-derived text, not reviewed -/
def taintedExecSinks (al : List Allow) (l : List Sink) : List Sink :=
  l.filter fun s => s.kind.isExec && s.onParsePath && s.tainted && !allowed al s

/-- attribute-name / format-string sinks on the parse path fed by possibly file-derived text, not reviewed -/
def taintedAttrSinks (al : List Allow) (l : List Sink) : List Sink :=
  l.filter fun s => !s.kind.isExec && s.onParsePath && s.tainted && !allowed al s

end DS.Sinks
