/-!
M3 — whole-column attribute assignment `stru.<attr> = value` (`utils._linkAtomAttribute.fset`), no Mathlib.

    n = len(self);  if n == 0: return
    v0 = getattr(self[0], attrname)
    genvalues = repeat(value) if numpy.isscalar(value) else numpy.broadcast_to(value, (n,) + numpy.shape(v0))
    for a, v in zip(self, genvalues): setvalue(a, v)        # setattr for scalar attributes, `a.attr[:] = v` for arrays

The atoms themselves (identity, order, lattice reference) are not touched: the model returns only the new
attribute value of every atom, as flat row-major data.  `bc` is NumPy's broadcasting rule for a value whose
shape has been left-padded with ones to the rank of the target.
-/
namespace DS
namespace Column

def prod : List Nat → Nat
  | [] => 1
  | t :: ts => t * prod ts

/-- `k`-element slices `0 … n-1` of flat data -/
def chunks {α : Type} (k : Nat) (n : Nat) (d : List α) : List (List α) :=
  (List.range n).map (fun i => (d.drop (i * k)).take k)

def allSome {β : Type} : List (Option β) → Option (List β)
  | [] => some []
  | none :: _ => none
  | some x :: r => (allSome r).map (fun l => x :: l)

/-- `numpy.broadcast_to(value, tshape)` for `value` of shape `vshape` (same rank), flat row-major data -/
def bc : List Nat → List Nat → List Int → Option (List Int)
  | [], [], d => if d.length = 1 then some d else none
  | t :: ts, v :: vs, d =>
    if v = t then
      (allSome ((List.range t).map (fun i => bc ts vs ((d.drop (i * prod vs)).take (prod vs))))).map List.flatten
    else if v = 1 then (bc ts vs d).map (fun r => (List.replicate t r).flatten)
    else none
  | _, _, _ => none

/-- left-pad a shape with ones to rank `n` -/
def pad (n : Nat) (vs : List Nat) : List Nat := List.replicate (n - vs.length) 1 ++ vs

inductive Res where
  | ok (vals : List (List Int))
  | valueError
deriving DecidableEq, Repr

/-- the column setter on `n` atoms whose attribute has shape `item`.
`scalar = some c` : `numpy.isscalar(value)`; otherwise the value has shape `vshape` and flat data `vdata`. -/
def setColumn (n : Nat) (item : List Nat) (scalar : Option Int) (vshape : List Nat) (vdata : List Int) : Res :=
  if n = 0 then .ok []
  else match scalar with
    | some c => .ok (List.replicate n (List.replicate (prod item) c))
    | none =>
      if vshape.length > item.length + 1 then .valueError
      else match bc (n :: item) (pad (item.length + 1) vshape) vdata with
        | some r => .ok (chunks (prod item) n r)
        | none => .valueError

/-! driver: `col.set <n> <item dims,> <s c | a dims, data,>` -/
def natList (s : String) : Option (List Nat) :=
  if s = "-" then some [] else (s.splitOn ",").mapM String.toNat?
def intList (s : String) : Option (List Int) :=
  if s = "-" then some [] else (s.splitOn ",").mapM String.toInt?

def columnHandle (ws : List String) : Option String :=
  match ws with
  | ["col.set", n, item, "s", c] =>
    match n.toNat?, natList item, c.toInt? with
    | some n, some item, some c =>
      match setColumn n item (some c) [] [] with
      | .ok r => some ("ok " ++ ";".intercalate (r.map (fun l => ",".intercalate (l.map toString))))
      | .valueError => some "ValueError"
    | _, _, _ => some "bad-op"
  | ["col.set", n, item, "a", vs, vd] =>
    match n.toNat?, natList item, natList vs, intList vd with
    | some n, some item, some vs, some vd =>
      if vd.length ≠ prod vs then some "bad-op" else
      match setColumn n item none vs vd with
      | .ok r => some ("ok " ++ ";".intercalate (r.map (fun l => ",".intercalate (l.map toString))))
      | .valueError => some "ValueError"
    | _, _, _, _ => some "bad-op"
  | _ => none

end Column
end DS
