/-
M4/M1 — the x,y,z operator text grammar: model of the CURRENT `getSymOp` / `_symop_constant`
(`src/diffpy/structure/parsers/p_cif.py`) as a total function.  No Mathlib import.

`getSymOp(s)`: blanks removed; split on `,`; the first three components are used (fewer: IndexError);
each component is cut by `re.split("(?i)([+-]?[xyz])", …)` into variable terms and the constant text
between them; a constant text is a sum of numbers `[+-]?(d+ .? d* | . d+)( / (d+ .? d* | . d+))?`, every
number after the first in a piece carrying an explicit sign; anything else is a `StructureFormatError`.
The one-pass scanner below is that grammar: at each position either a variable term (optional sign
directly followed by x/y/z) or a number.  Values are exact fractions (numerator, positive denominator);
no part of the text is ever interpreted in any other way — the only operations are digit-to-number
conversion, addition, division of two literals, and reduction modulo 1.

ASCII input only (the correspondence feeds ASCII; Python's `\d` / `(?i)` on non-ASCII text is outside
the model and is exercised by the audit-hook oracle only).
-/
namespace DS.SymText

inductive Err where
  | format   -- StructureFormatError
  | index    -- IndexError: fewer than three comma separated components
deriving DecidableEq, Repr

/-- exact fraction `num/den`, `den > 0` for all values produced below -/
structure Frac where
  num : Int
  den : Nat
deriving DecidableEq, Repr

namespace Frac
def zero : Frac := ⟨0, 1⟩
def add (a b : Frac) : Frac := ⟨a.num * b.den + b.num * a.den, a.den * b.den⟩
def neg (a : Frac) : Frac := ⟨-a.num, a.den⟩
/-- `a / b` for `b.num > 0` -/
def div (a b : Frac) : Frac := ⟨a.num * b.den, a.den * b.num.toNat⟩
/-- `t - floor(t)` : the representative in `[0, 1)` -/
def fract (a : Frac) : Frac := ⟨a.num % a.den, a.den⟩
end Frac

inductive Tok where
  | var (neg : Bool) (axis : Nat)      -- `x`,`+x`,`-x`, … ; axis 0,1,2
  | num (v : Frac)                     -- a signed number or quotient of two literals
deriving DecidableEq, Repr

def axisOf (c : Char) : Option Nat :=
  if c = 'x' then some 0 else if c = 'y' then some 1 else if c = 'z' then some 2 else none

def isSign (c : Char) : Bool := c = '+' || c = '-'

def digitsVal (cs : List Char) : Nat := cs.foldl (fun n c => 10 * n + (c.toNat - '0'.toNat)) 0

/-- numeric literal `d+ .? d*` or `. d+` at the head of `cs`: value and remaining text -/
def scanLit (cs : List Char) : Option (Frac × List Char) :=
  let ip := cs.takeWhile Char.isDigit
  let r1 := cs.dropWhile Char.isDigit
  match r1 with
  | '.' :: r2 =>
    let fp := r2.takeWhile Char.isDigit
    if ip.isEmpty && fp.isEmpty then none
    else some (⟨digitsVal (ip ++ fp), 10 ^ fp.length⟩, r2.dropWhile Char.isDigit)
  | _ => if ip.isEmpty then none else some (⟨digitsVal ip, 1⟩, r1)

/-- literal optionally followed by `/ literal`; a zero denominator is a format error -/
def scanQuot (cs : List Char) : Option (Frac × List Char) :=
  match scanLit cs with
  | none => none
  | some (a, r) =>
    match r with
    | '/' :: r' =>
      match scanLit r' with
      | none => none           -- the regex backtracks to the numerator, then fails at the `/`
      | some (b, r'') => if b.num ≤ 0 then none else some (a.div b, r'')
    | _ => some (a, r)

/-- one component of the operator (already blank-free and lower-cased); `first` = at the beginning
of a constant piece, where the sign of a number is optional -/
def scanRow : Nat → Bool → List Char → Option (List Tok)
  | 0, _, _ => none
  | fuel + 1, first, cs =>
    match cs with
    | [] => some []
    | c :: rest =>
      match axisOf c with
      | some a => (scanRow fuel true rest).map (Tok.var false a :: ·)
      | none =>
        if isSign c then
          match rest with
          | [] => none
          | d :: rest' =>
            match axisOf d with
            | some a => (scanRow fuel true rest').map (Tok.var (c = '-') a :: ·)
            | none =>
              match scanQuot rest with
              | none => none
              | some (v, r) => (scanRow fuel false r).map (Tok.num (if c = '-' then v.neg else v) :: ·)
        else if first then
          match scanQuot cs with
          | none => none
          | some (v, r) => (scanRow fuel false r).map (Tok.num v :: ·)
        else none

def unitVec (neg : Bool) (axis : Nat) : Int × Int × Int :=
  let s : Int := if neg then -1 else 1
  (if axis = 0 then s else 0, if axis = 1 then s else 0, if axis = 2 then s else 0)

def addVec (a b : Int × Int × Int) : Int × Int × Int := (a.1 + b.1, a.2.1 + b.2.1, a.2.2 + b.2.2)

/-- rotation row = sum of the signed unit vectors of the variable terms -/
def rowVec : List Tok → Int × Int × Int
  | [] => (0, 0, 0)
  | .var n a :: r => addVec (unitVec n a) (rowVec r)
  | .num _ :: r => rowVec r

/-- constant = sum of the numbers -/
def rowConst : List Tok → Frac
  | [] => Frac.zero
  | .var _ _ :: r => rowConst r
  | .num v :: r => v.add (rowConst r)

def splitComma : List Char → List (List Char)
  | [] => [[]]
  | c :: r =>
    match splitComma r with
    | [] => [[c]]       -- unreachable
    | h :: t => if c = ',' then [] :: h :: t else (c :: h) :: t

/-- the text as `getSymOp` sees it: blanks removed, letters lower-cased -/
def normalize (s : List Char) : List Char := (s.filter (· ≠ ' ')).map Char.toLower

structure SymOp where
  r1 : Int × Int × Int
  r2 : Int × Int × Int
  r3 : Int × Int × Int
  t1 : Frac
  t2 : Frac
  t3 : Frac
deriving DecidableEq, Repr

def parseRow (cs : List Char) : Option (List Tok) := scanRow (cs.length + 1) true cs

/-- components are processed in order, as the source does: a malformed component is reported before a
missing later one -/
def parseSymOp (s : List Char) : Except Err SymOp :=
  match splitComma (normalize s) with
  | [] => .error .index
  | a :: rest =>
    match parseRow a with
    | none => .error .format
    | some ta =>
      match rest with
      | [] => .error .index
      | b :: rest2 =>
        match parseRow b with
        | none => .error .format
        | some tb =>
          match rest2 with
          | [] => .error .index
          | c :: _ =>
            match parseRow c with
            | none => .error .format
            | some tc =>
              .ok { r1 := rowVec ta, r2 := rowVec tb, r3 := rowVec tc,
                    t1 := (rowConst ta).fract, t2 := (rowConst tb).fract, t3 := (rowConst tc).fract }

/-- the characters that can occur in an accepted component -/
def inAlphabet (c : Char) : Bool :=
  c.isDigit || c = '.' || c = '/' || c = '+' || c = '-' || c = 'x' || c = 'y' || c = 'z'

/-! ### rendering (for the round trip) -/

def renderNat (n : Nat) : List Char := (toString n).toList

def renderVar (v : Int) (c : Char) : List Char :=
  if v = 1 then ['+', c] else if v = -1 then ['-', c] else []

/-- row `(a, b, c)` with entries in {-1,0,1} and translation `k/24`: `+x-y+k/24` -/
def renderRow (r : Int × Int × Int) (k : Nat) : List Char :=
  renderVar r.1 'x' ++ renderVar r.2.1 'y' ++ renderVar r.2.2 'z' ++
    (if k = 0 then [] else '+' :: renderNat k ++ '/' :: renderNat 24)

/-! ### driver -/

def hexVal (c : Char) : Option Nat :=
  if '0' ≤ c ∧ c ≤ '9' then some (c.toNat - '0'.toNat)
  else if 'a' ≤ c ∧ c ≤ 'f' then some (c.toNat - 'a'.toNat + 10)
  else none

def hexChars : List Char → Option (List Char)
  | [] => some []
  | a :: b :: rest => do
    let x ← hexVal a
    let y ← hexVal b
    let r ← hexChars rest
    pure (Char.ofNat (16 * x + y) :: r)
  | _ => none

def showVec (v : Int × Int × Int) : String := s!"{v.1} {v.2.1} {v.2.2}"
def showFrac (f : Frac) : String := s!"{f.num}/{f.den}"

/-- `symtext.parse x<hex of the ASCII bytes>` → `ok r11 … r33 n1/d1 n2/d2 n3/d3` | `err format` | `err index` -/
def symTextHandle (ws : List String) : Option String :=
  match ws with
  | ["symtext.parse", w] =>
    some <| match w.toList with
      | 'x' :: h =>
        match hexChars h with
        | none => "bad-op"
        | some cs =>
          if cs.any (fun c => c.toNat ≥ 128) then "bad-op" else
          match parseSymOp cs with
          | .ok o => s!"ok {showVec o.r1} {showVec o.r2} {showVec o.r3} {showFrac o.t1} {showFrac o.t2} {showFrac o.t3}"
          | .error .format => "err format"
          | .error .index => "err index"
      | _ => "bad-op"
  | _ => none

end DS.SymText
