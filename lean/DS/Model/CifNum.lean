/-!
M4 — the numeric prefix `leading_float` of `parsers/p_cif.py` extracts (no Mathlib).

`leading_float(s)` strips `s`, matches

    rx_float = [-+]?(\d+(\.\d*)?|\.\d+)([eE][-+]?\d+)?

at the start and converts the matched text with `float`; whatever follows the match — in particular
a standard-uncertainty suffix `(12)` — is ignored.  `floatMatch` is that match on a list of
characters (greedy, leftmost alternative first, exactly as `re.match` evaluates the pattern;
for this pattern that is also the longest match).  `\d` is modelled for the ASCII digits.
-/
namespace DS
namespace CifNum

def isDig (c : Char) : Bool := c.isDigit

def isSign (c : Char) : Bool := c == '-' || c == '+'

def isE (c : Char) : Bool := c == 'e' || c == 'E'

/-- `[-+]?` : the optional sign and the remaining input -/
def optSign : List Char → List Char × List Char
  | c :: r => if isSign c then ([c], r) else ([], c :: r)
  | [] => ([], [])

/-- `(\d+(\.\d*)?|\.\d+)` : matched text and remaining input -/
def mantissa (s : List Char) : Option (List Char × List Char) :=
  let d1 := s.takeWhile isDig
  let r1 := s.dropWhile isDig
  if d1.isEmpty then
    match s with
    | '.' :: r2 =>
      let d2 := r2.takeWhile isDig
      if d2.isEmpty then none else some ('.' :: d2, r2.dropWhile isDig)
    | _ => none
  else
    match r1 with
    | '.' :: r2 => some (d1 ++ '.' :: r2.takeWhile isDig, r2.dropWhile isDig)
    | _ => some (d1, r1)

/-- `([eE][-+]?\d+)?` : the matched exponent (empty when the group does not match) -/
def expPart : List Char → List Char
  | c :: r =>
    if isE c then
      let sr := optSign r
      let ds := sr.2.takeWhile isDig
      if ds.isEmpty then [] else c :: (sr.1 ++ ds)
    else []
  | [] => []

/-- the text `rx_float.match` returns, `none` when the pattern does not match -/
def floatMatch (s : List Char) : Option (List Char) :=
  let sr := optSign s
  match mantissa sr.2 with
  | none => none
  | some (m, rest) => some (sr.1 ++ m ++ expPart rest)

/-- matched prefix, empty when there is no match (a match is never empty) -/
def floatPrefix (s : List Char) : List Char := (floatMatch s).getD []

/-- a CIF number without exponent: `[sign] digits ['.' digits*]` or `[sign] '.' digits` -/
def isFloatLit (d : List Char) : Bool :=
  let body := (optSign d).2
  let ip := body.takeWhile isDig
  match body.dropWhile isDig with
  | [] => !ip.isEmpty
  | c :: f => c == '.' && f.all isDig && (!ip.isEmpty || !f.isEmpty)

/-- a number with exponent: a literal, `e`/`E`, optional sign, at least one digit -/
def isFloatLitExp (d : List Char) : Bool :=
  match d.span (fun c => !isE c) with
  | (m, e :: x) => isFloatLit m && isE e && !(optSign x).2.isEmpty && (optSign x).2.all isDig
  | (_, []) => false

def cifnumHandle (ws : List String) : Option String :=
  match ws with
  | ["cifnum.prefix", s] =>
    match floatMatch s.toList with
    | some m => some (String.ofList m)
    | none => some "nomatch"
  | _ => none

end CifNum
end DS
