import DS.Model.SymReal
import DS.Model.Dec
/-!
Semantics of the numpy / Python primitives used by the constraint code of `symmetryutilities.py`
(`_findInvariants`, `GeneratorSite.__init__`, `_findPosParameters`, `_findUParameters`, `_findeqUij`, `positionFormula`,
`UFormula`, `eqIndex`, `signedRatStr`, `ExpandAsymmetricUnit.__init__`, `pruneFormulaDictionary`,
`SymmetryConstraints._findConstraints`, `positionFormulas`, `UFormulas`), over a generic scalar `α` (no Mathlib).  Continues
`DS/Model/SymReal.lean`; the transliteration `DS/Gen/SrcConstraints.lean` (written by `translate/src_constraints.py` from the
current source) is a composition of exactly these primitives, `DS/Props/SrcConstraints.lean` proves that it computes the
models of `DS.Con` / `DS.Partition`.

Trusted reading of numpy / Python fixed here (each one line):
* `numpy.fabs`, `abs`: `if x < 0 then -x else x`; `x.round()`: nearest integer, a tie goes to the even one;
* `numpy.mean(A, axis=0)` of an n×3 array: column sums (from the left, starting at 0) divided by `n`;
* `numpy.where(mask)[0]`: the indices of the true (non-zero) entries in increasing order;
* `numpy.dot` of two 3×3 arrays / of an n×3 with a 3×3 array / of two flat arrays: sums of products, from the left;
  `A.flatten()`: row-major; `numpy.tril(A, -1)`: the strictly lower triangle, zeros elsewhere; `A[idx]` with an index array;
* `l[i]` of a Python list / 1-d array: `i < 0` counts from the end, out of range = `IndexError`;
* a `for` loop with `break`; `next(generator)`: the first element or `StopIteration`;
* a `dict` with hashable keys in insertion order (`d[k] = v`, `d[k]`, `k in d`, `dict(zip(a, b))`, `dict.fromkeys`);
  a `set` of ints used only through `in`, `remove`, `sorted`: its sorted list of elements;
* `re.sub(pat, fn, s)` for a pattern that is a sequence of `\b`, character classes and `\d`, the last atom possibly with `+`:
  leftmost non-overlapping greedy matches are replaced by `fn(match)`.
-/
namespace DS

abbrev M3 (α : Type) := V3 (V3 α)

namespace Np
section
variable {α β γ : Type}

def toList3 (v : V3 α) : List α := [v.1, v.2.1, v.2.2]

/-- `v[i]` for `0 ≤ i < 3`; `none` = `IndexError` -/
def get3? (v : V3 α) (i : Nat) : Option α :=
  match i with
  | 0 => some v.1
  | 1 => some v.2.1
  | 2 => some v.2.2
  | _ => none

/-- `abs(x)`, `numpy.fabs(x)` of a scalar -/
def absS [LT α] [DecidableLT α] [Neg α] [OfNat α 0] (x : α) : α := if x < 0 then -x else x
/-- `numpy.fabs` of a length-3 array -/
def fabs [LT α] [DecidableLT α] [Neg α] [OfNat α 0] (v : V3 α) : V3 α := map3 absS v

def eq [DecidableEq α] (u v : V3 α) : V3 Bool := zip3 (fun a b => decide (a = b)) u v
def ne [DecidableEq α] (u v : V3 α) : V3 Bool := zip3 (fun a b => decide (a ≠ b)) u v
def any (b : V3 Bool) : Bool := b.1 || b.2.1 || b.2.2

/-- `c * v` (scalar first) -/
def mulS [Mul α] (c : α) (v : V3 α) : V3 α := map3 (fun x => c * x) v
/-- `v * c` (array first) -/
def mulVS [Mul α] (v : V3 α) (c : α) : V3 α := map3 (fun x => x * c) v

/-- `numpy.where(mask)[0]` of a 1-d boolean array given as a list -/
def whereL (m : List Bool) : List Nat := ((List.range m.length).zip m).filterMap fun p => if p.2 then some p.1 else none
/-- `numpy.where(mask)[0]` of a length-3 boolean array -/
def where3 (m : V3 Bool) : List Nat := whereL (toList3 m)

/-- `x.round()` of a scalar: the nearest integer, a tie goes to the even one (IEEE round-half-even, as numpy does) -/
def roundS [Sub α] [LT α] [DecidableLT α] [OfScientific α] [IntCast α] [FloorOrd α] (x : α) : α :=
  let f := FloorOrd.floor x
  let d := x - ((f : Int) : α)
  if d < (0.5 : α) then ((f : Int) : α)
  else if (0.5 : α) < d then ((f + 1 : Int) : α)
  else if f % 2 = 0 then ((f : Int) : α) else ((f + 1 : Int) : α)
def round [Sub α] [LT α] [DecidableLT α] [OfScientific α] [IntCast α] [FloorOrd α] (v : V3 α) : V3 α := map3 roundS v

/-- `numpy.mean(A, axis=0)` of an n×3 array -/
def mean0 [Add α] [Div α] [OfNat α 0] [IntCast α] (rows : List (V3 α)) : V3 α :=
  map3 (fun s => s / (((rows.length : Nat) : Int) : α)) (rows.foldl add (fill 0))

/-! #### 3×3 arrays -/

def mapM3 (f : α → β) (m : M3 α) : M3 β := map3 (map3 f) m
def zipM3 (f : α → β → γ) (a : M3 α) (b : M3 β) : M3 γ := zip3 (zip3 f) a b
/-- `A.T`, `A.transpose()`, `numpy.transpose(A)` -/
def transpose (m : M3 α) : M3 α :=
  ((m.1.1, m.2.1.1, m.2.2.1), (m.1.2.1, m.2.1.2.1, m.2.2.2.1), (m.1.2.2, m.2.1.2.2, m.2.2.2.2))
/-- `numpy.dot(v, B)` of a 3-vector with a 3×3 array -/
def vecMat [Add α] [Mul α] (v : V3 α) (b : M3 α) : V3 α := map3 (fun c => dotRow v c) (transpose b)
/-- `numpy.dot(A, B)` of two 3×3 arrays -/
def matmul [Add α] [Mul α] (a b : M3 α) : M3 α := map3 (fun r => vecMat r b) a
/-- `numpy.dot(X, B)` of an n×3 with a 3×3 array -/
def dotLM [Add α] [Mul α] (rows : List (V3 α)) (b : M3 α) : List (V3 α) := rows.map fun r => vecMat r b
/-- `A.flatten()` -/
def flatten (m : M3 α) : List α := toList3 m.1 ++ toList3 m.2.1 ++ toList3 m.2.2
/-- `numpy.dot(a, b)` of two flat arrays -/
def dot1 [Add α] [Mul α] [OfNat α 0] (a b : List α) : α := (List.zipWith (fun x y => x * y) a b).foldl (fun s p => s + p) 0
def zerosM [OfNat α 0] : M3 α := fill (fill 0)
def addM [Add α] (a b : M3 α) : M3 α := zipM3 (fun x y => x + y) a b
def subM [Sub α] (a b : M3 α) : M3 α := zipM3 (fun x y => x - y) a b
/-- `c * A` -/
def smulM [Mul α] (c : α) (a : M3 α) : M3 α := mapM3 (fun x => c * x) a
/-- `numpy.tril(A, -1)` -/
def tril1 [OfNat α 0] (m : M3 α) : M3 α := ((0, 0, 0), (m.2.1.1, 0, 0), (m.2.2.1, m.2.2.2.1, 0))
def eqM [DecidableEq α] (a b : M3 α) : M3 Bool := zipM3 (fun x y => decide (x = y)) a b
def allM (b : M3 Bool) : Bool := all b.1 && all b.2.1 && all b.2.2
/-- `numpy.identity(3, dtype=float)` -/
def identity3 [OfScientific α] : M3 α := (((1.0 : α), (0.0 : α), (0.0 : α)), ((0.0 : α), (1.0 : α), (0.0 : α)), ((0.0 : α), (0.0 : α), (1.0 : α)))
/-- `numpy.zeros(3, dtype=float)` -/
def zeros3 [OfScientific α] : V3 α := ((0.0 : α), (0.0 : α), (0.0 : α))
/-- `numpy.where(a)[0]` of a flat numeric array: the indices of the non-zero entries -/
def whereNZ [DecidableEq α] [OfNat α 0] (l : List α) : List Nat := whereL (l.map fun x => decide (x ≠ 0))

end
end Np

namespace Py
section
variable {α β κ σ : Type}

/-- `l[i]` (`i < 0` counts from the end); `none` = `IndexError` -/
def getIdx (l : List β) (i : Int) : Option β :=
  if 0 ≤ i then l[i.toNat]? else if i.natAbs ≤ l.length then l[l.length - i.natAbs]? else none

/-- `a[idx]` with an integer index array (fancy indexing); `none` = `IndexError` -/
def takeIdx (l : List β) (idx : List Nat) : Option (List β) := mapOpt (fun i => l[i]?) idx

/-- `for x in l: body` where the body may `break`: the body returns the new state and whether it broke out -/
def forBreak (l : List β) (s : σ) (body : σ → β → σ × Bool) : σ :=
  match l with
  | [] => s
  | x :: xs => let r := body s x; if r.2 then r.1 else forBreak xs r.1 body

/-- truth value of `None` or a list: `if invrnts:` -/
def truthyOL (o : Option (List β)) : Bool :=
  match o with
  | none => false
  | some l => !l.isEmpty
/-- `enumerate(l)` -/
def enumerate (l : List β) : List (Nat × β) := (List.range l.length).zip l
/-- `next(generator)`; `none` = `StopIteration` -/
def next? (l : List β) : Option β := l.head?

/-- `for x in l: body` where the body may raise (`none`) -/
def forM (l : List β) (s : σ) (body : σ → β → Option σ) : Option σ := l.foldlM body s

/-- `l[a:]` -/
def sliceFrom (l : List β) (a : Nat) : List β := l.drop a
/-- `l[a:b]` for `0 ≤ a`, `0 ≤ b` -/
def slice (l : List β) (a b : Nat) : List β := (l.drop a).take (b - a)
/-- `l.index(x)`; `none` = `ValueError` -/
def index? [BEq β] (l : List β) (x : β) : Option Nat :=
  let i := l.findIdx (fun y => y == x)
  if i < l.length then some i else none

/-! `dict` with insertion order -/
def dictGet [BEq κ] (d : List (κ × β)) (k : κ) : Option β := (d.find? fun e => e.1 == k).map (·.2)
def dictHas [BEq κ] (d : List (κ × β)) (k : κ) : Bool := (dictGet d k).isSome
def dictSet [BEq κ] (d : List (κ × β)) (k : κ) (v : β) : List (κ × β) :=
  if dictHas d k then d.map fun e => if e.1 == k then (e.1, v) else e else d ++ [(k, v)]
/-- `dict(zip(a, b))` -/
def dictZip [BEq κ] (a : List κ) (b : List β) : List (κ × β) := (a.zip b).foldl (fun d e => dictSet d e.1 e.2) []
/-- `dict.fromkeys(keys, v)` -/
def dictFromKeys [BEq κ] (keys : List κ) (v : β) : List (κ × β) := keys.foldl (fun d k => dictSet d k v) []
/-- `d[k] = f(d[k])` (e.g. `d[k] += x`, `d[k].append(x)`); `none` = `KeyError` -/
def dictUpd [BEq κ] (d : List (κ × β)) (k : κ) (f : β → β) : Option (List (κ × β)) :=
  (dictGet d k).map fun v => dictSet d k (f v)

/-! a `set` of ints, used only through `in`, `remove`, `sorted`: its sorted list of elements -/
def insertNat (x : Nat) : List Nat → List Nat
  | [] => [x]
  | y :: ys => if x ≤ y then x :: y :: ys else y :: insertNat x ys
/-- `sorted(l)` of a list of ints -/
def sortedNat (l : List Nat) : List Nat := l.foldr insertNat []
/-- `set(range(n))` -/
def setRange (n : Nat) : List Nat := List.range n
/-- `s.remove(x)`; `none` = `KeyError` -/
def setRemove (s : List Nat) (x : Nat) : Option (List Nat) := if s.contains x then some (s.filter fun y => y != x) else none
/-- `l[i] = v` of a Python list; `none` = `IndexError` -/
def listSet (l : List β) (i : Nat) (v : β) : Option (List β) := if i < l.length then some (l.set i v) else none

/-- `str(i)` of a non-negative int -/
def strNat (n : Nat) : List Char := Dec.natDigits n
/-- iteration over a `str`: its one-character strings -/
def chars (s : List Char) : List (List Char) := s.map fun c => [c]

end
end Py

/-! ### the records of the constraint classes (attribute names of the source) -/

/-- a piece of a formula string under construction: `"%s*%s " % (signedRatStr(c), sym)` / `"%+g*%s" % (c, sym)` (a term)
or `signedRatStr(c)` (a constant); how the numbers are printed is the business of `signedRatStr` / `%+g` -/
inductive FPiece (α σ : Type) where
  | term (coef : α) (sym : σ)
  | const (c : α)
deriving DecidableEq, Repr

/-- a formula string under construction: its pieces in order (`s += piece`); `""` = `[]` -/
abbrev FStr (α : Type) := List (FPiece α (List Char))
/-- a formula dictionary (`{"x": ..., "y": ..., "z": ...}` / `{"U11": ..., ...}`); `{}` = `[]` -/
abbrev FDict (α : Type) := List (List Char × FStr α)

/-- `GeneratorSite` after `__init__` -/
structure GenSite (α : Type) where
  xyz : V3 α
  Uij : M3 α
  sgoffset : V3 α
  eps : α
  eqxyz : List (V3 α)
  eqUij : List (M3 α)
  symops : List (List (SymOp α))
  multiplicity : Nat
  Uisotropy : Bool
  invariants : List (SymOp α)
  null_space : List (V3 α)
  Uspace : List (M3 α)
  pparameters : List (List Char × α)
  Uparameters : List (List Char × α)

/-- the mutable attributes and locals of `SymmetryConstraints._findConstraints` -/
structure FCSt (α : Type) where
  positions : List (V3 α)
  Uijs : List (M3 α)
  independent : List Nat
  coremap : List (Nat × List Nat)
  pospars : List (List Char × α)
  Upars : List (List Char × α)
  /-- `None` or a formula dictionary -/
  poseqns : List (Option (FDict α))
  Ueqns : List (Option (FDict α))
  Uisotropy : List Bool

/-! ### `re.sub` for the patterns of `positionFormulas` / `UFormulas` -/

/-- atoms of the supported regular expressions -/
inductive RxAtom where
  /-- `\b` -/
  | wordB
  /-- `[abc]` or a literal character -/
  | cls (cs : List Char)
  /-- `\d` -/
  | digit
  /-- `\d+` (greedy) -/
  | digits1
deriving DecidableEq, Repr

namespace Rx

/-- `\w` of Python 3 `re` on the ASCII range (the strings scanned are the formula strings built by the printers) -/
def isWord (c : Char) : Bool := c.isAlpha || Dec.isDigit c || c == '_'

def takeDigits : List Char → List Char × List Char
  | [] => ([], [])
  | c :: cs => if Dec.isDigit c then let r := takeDigits cs; (c :: r.1, r.2) else ([], c :: cs)

/-- match the atoms at the current position; `prev` = the character before it; returns (matched text, rest).
`\d+` is only supported as the LAST atom (no backtracking needed) -/
def matchAt : List RxAtom → Option Char → List Char → Option (List Char × List Char)
  | [], _, s => some ([], s)
  | RxAtom.wordB :: as, prev, s =>
    let pw := match prev with | some c => isWord c | none => false
    let nw := match s with | c :: _ => isWord c | [] => false
    if pw != nw then matchAt as prev s else none
  | RxAtom.cls cs :: as, _, s =>
    match s with
    | c :: rest => if cs.contains c then (matchAt as (some c) rest).map fun r => (c :: r.1, r.2) else none
    | [] => none
  | RxAtom.digit :: as, _, s =>
    match s with
    | c :: rest => if Dec.isDigit c then (matchAt as (some c) rest).map fun r => (c :: r.1, r.2) else none
    | [] => none
  | RxAtom.digits1 :: as, _, s =>
    match as with
    | [] => let r := takeDigits s; if r.1.isEmpty then none else some r
    | _ :: _ => none

/-- `re.sub(pat, fn, s)`: scan from the left; `fuel` bounds the recursion (`s.length + 1` suffices);
`none` = `fn` raised (`KeyError`) -/
def subAux (pat : List RxAtom) (fn : List Char → Option (List Char)) : Nat → Option Char → List Char → Option (List Char)
  | 0, _, s => some s
  | _ + 1, _, [] => some []
  | fuel + 1, prev, c :: cs =>
    match matchAt pat prev (c :: cs) with
    | some (m, rest) =>
      if m.isEmpty then (subAux pat fn fuel (some c) cs).map fun r => c :: r
      else (fn m).bind fun rep => (subAux pat fn fuel m.getLast? rest).map fun r => rep ++ r
    | none => (subAux pat fn fuel (some c) cs).map fun r => c :: r

def sub (pat : List RxAtom) (fn : List Char → Option (List Char)) (s : List Char) : Option (List Char) :=
  subAux pat fn (s.length + 1) none s

end Rx

end DS
