/-
M2 base — scalar-generic 3-vectors and 3×3 matrices (no Mathlib import).

The scalar type `α` only needs the core operator classes, so the same definitions run on
`Float` (correspondence with the NumPy implementation) and are reasoned about on `ℝ`
(instances from Mathlib, see `DS.Lemmas.RealElem`).  After `simp only [defs]` every goal is
an identity between field expressions that `ring` / `field_simp` / `linear_combination` close.
-/
namespace DS

/-- transcendental / rounding primitives the geometry code uses -/
class Elem (α : Type) where
  sqrt : α → α
  /-- cosine of an angle in degrees, as `lattice.cosd` (exact table values at multiples of 30/60/90) -/
  cosd : α → α
  /-- sine of an angle in degrees, as `lattice.sind` -/
  sind : α → α
  /-- arccosine in degrees -/
  acosd : α → α
  floor : α → α
  ceil : α → α

structure Vec3 (α : Type) where
  x : α
  y : α
  z : α
deriving Repr, Inhabited, DecidableEq

structure Mat3 (α : Type) where
  a11 : α
  a12 : α
  a13 : α
  a21 : α
  a22 : α
  a23 : α
  a31 : α
  a32 : α
  a33 : α
deriving Repr, Inhabited, DecidableEq

section
variable {α : Type} [Add α] [Mul α] [Sub α] [Neg α] [Div α] [OfNat α 0] [OfNat α 1]

namespace Vec3
def add (u v : Vec3 α) : Vec3 α := ⟨u.x + v.x, u.y + v.y, u.z + v.z⟩
def sub (u v : Vec3 α) : Vec3 α := ⟨u.x - v.x, u.y - v.y, u.z - v.z⟩
def smul (c : α) (u : Vec3 α) : Vec3 α := ⟨c * u.x, c * u.y, c * u.z⟩
/-- Euclidean dot product of component triples -/
def dot (u v : Vec3 α) : α := u.x * v.x + u.y * v.y + u.z * v.z
def zero : Vec3 α := ⟨0, 0, 0⟩
end Vec3

namespace Mat3
def one : Mat3 α := ⟨1, 0, 0, 0, 1, 0, 0, 0, 1⟩
def zero : Mat3 α := ⟨0, 0, 0, 0, 0, 0, 0, 0, 0⟩
def row1 (m : Mat3 α) : Vec3 α := ⟨m.a11, m.a12, m.a13⟩
def row2 (m : Mat3 α) : Vec3 α := ⟨m.a21, m.a22, m.a23⟩
def row3 (m : Mat3 α) : Vec3 α := ⟨m.a31, m.a32, m.a33⟩
def ofRows (r1 r2 r3 : Vec3 α) : Mat3 α := ⟨r1.x, r1.y, r1.z, r2.x, r2.y, r2.z, r3.x, r3.y, r3.z⟩
def transpose (m : Mat3 α) : Mat3 α := ⟨m.a11, m.a21, m.a31, m.a12, m.a22, m.a32, m.a13, m.a23, m.a33⟩
def add (m n : Mat3 α) : Mat3 α :=
  ⟨m.a11 + n.a11, m.a12 + n.a12, m.a13 + n.a13, m.a21 + n.a21, m.a22 + n.a22, m.a23 + n.a23,
   m.a31 + n.a31, m.a32 + n.a32, m.a33 + n.a33⟩
def sub (m n : Mat3 α) : Mat3 α :=
  ⟨m.a11 - n.a11, m.a12 - n.a12, m.a13 - n.a13, m.a21 - n.a21, m.a22 - n.a22, m.a23 - n.a23,
   m.a31 - n.a31, m.a32 - n.a32, m.a33 - n.a33⟩
def smul (c : α) (m : Mat3 α) : Mat3 α :=
  ⟨c * m.a11, c * m.a12, c * m.a13, c * m.a21, c * m.a22, c * m.a23, c * m.a31, c * m.a32, c * m.a33⟩
/-- matrix product `m · n` (as `numpy.dot(m, n)`) -/
def mul (m n : Mat3 α) : Mat3 α :=
  ⟨m.a11 * n.a11 + m.a12 * n.a21 + m.a13 * n.a31, m.a11 * n.a12 + m.a12 * n.a22 + m.a13 * n.a32,
   m.a11 * n.a13 + m.a12 * n.a23 + m.a13 * n.a33,
   m.a21 * n.a11 + m.a22 * n.a21 + m.a23 * n.a31, m.a21 * n.a12 + m.a22 * n.a22 + m.a23 * n.a32,
   m.a21 * n.a13 + m.a22 * n.a23 + m.a23 * n.a33,
   m.a31 * n.a11 + m.a32 * n.a21 + m.a33 * n.a31, m.a31 * n.a12 + m.a32 * n.a22 + m.a33 * n.a32,
   m.a31 * n.a13 + m.a32 * n.a23 + m.a33 * n.a33⟩
/-- `m · v` for a column vector (as `numpy.dot(m, v)`) -/
def mulVec (m : Mat3 α) (v : Vec3 α) : Vec3 α :=
  ⟨m.a11 * v.x + m.a12 * v.y + m.a13 * v.z, m.a21 * v.x + m.a22 * v.y + m.a23 * v.z,
   m.a31 * v.x + m.a32 * v.y + m.a33 * v.z⟩
/-- `v · m` for a row vector (as `numpy.dot(v, m)`) -/
def vecMul (v : Vec3 α) (m : Mat3 α) : Vec3 α :=
  ⟨v.x * m.a11 + v.y * m.a21 + v.z * m.a31, v.x * m.a12 + v.y * m.a22 + v.z * m.a32,
   v.x * m.a13 + v.y * m.a23 + v.z * m.a33⟩
def det (m : Mat3 α) : α :=
  m.a11 * (m.a22 * m.a33 - m.a23 * m.a32) - m.a12 * (m.a21 * m.a33 - m.a23 * m.a31)
    + m.a13 * (m.a21 * m.a32 - m.a22 * m.a31)
def trace (m : Mat3 α) : α := m.a11 + m.a22 + m.a33
/-- adjugate (transposed cofactor matrix) -/
def adj (m : Mat3 α) : Mat3 α :=
  ⟨m.a22 * m.a33 - m.a23 * m.a32, m.a13 * m.a32 - m.a12 * m.a33, m.a12 * m.a23 - m.a13 * m.a22,
   m.a23 * m.a31 - m.a21 * m.a33, m.a11 * m.a33 - m.a13 * m.a31, m.a13 * m.a21 - m.a11 * m.a23,
   m.a21 * m.a32 - m.a22 * m.a31, m.a12 * m.a31 - m.a11 * m.a32, m.a11 * m.a22 - m.a12 * m.a21⟩
/-- inverse by the adjugate formula; models `numpy.linalg.inv` (exact over a field when `det ≠ 0`) -/
def inv (m : Mat3 α) : Mat3 α :=
  let d := m.det
  let a := m.adj
  ⟨a.a11 / d, a.a12 / d, a.a13 / d, a.a21 / d, a.a22 / d, a.a23 / d, a.a31 / d, a.a32 / d, a.a33 / d⟩
def isSymm (m : Mat3 α) : Prop := m.a12 = m.a21 ∧ m.a13 = m.a31 ∧ m.a23 = m.a32
end Mat3
end

/-! ### Float instance of `Elem` (executable side of the correspondence) -/

/-- `lattice.cosd`: exact values at 0, 60, 90, 120, 180, 240, 270, 300 (after `x % 360`),
otherwise `cos(radians x)` -/
def cosdFloat (x : Float) : Float :=
  -- Python's float % : result has the sign of the divisor
  let r := x - 360.0 * Float.floor (x / 360.0)
  if r == 0.0 then 1.0 else if r == 60.0 then 0.5 else if r == 90.0 then 0.0
  else if r == 120.0 then -0.5 else if r == 180.0 then -1.0 else if r == 240.0 then -0.5
  else if r == 270.0 then 0.0 else if r == 300.0 then 0.5
  else Float.cos (x * (3.141592653589793 / 180.0))

instance : Elem Float where
  sqrt := Float.sqrt
  cosd := cosdFloat
  sind := fun x => cosdFloat (90.0 - x)
  acosd := fun c => Float.acos c * (180.0 / 3.141592653589793)
  floor := Float.floor
  ceil := Float.ceil

/-! ### line-protocol helpers shared by the model drivers -/

/-- floats travel as IEEE-754 bit patterns (decimal `UInt64`) so that both sides see the same values -/
def floatOfBits? (s : String) : Option Float := s.toNat?.map (fun n => Float.ofBits n.toUInt64)
def bitsOfFloat (x : Float) : String := toString x.toBits.toNat
def showVec (v : Vec3 Float) : String := s!"{bitsOfFloat v.x} {bitsOfFloat v.y} {bitsOfFloat v.z}"
def showMat (m : Mat3 Float) : String :=
  s!"{bitsOfFloat m.a11} {bitsOfFloat m.a12} {bitsOfFloat m.a13} {bitsOfFloat m.a21} {bitsOfFloat m.a22} {bitsOfFloat m.a23} {bitsOfFloat m.a31} {bitsOfFloat m.a32} {bitsOfFloat m.a33}"
def parseFloats (ws : List String) : Option (List Float) := ws.mapM floatOfBits?
def vecOfList : List Float → Option (Vec3 Float)
  | [a, b, c] => some ⟨a, b, c⟩
  | _ => none
def matOfList : List Float → Option (Mat3 Float)
  | [a, b, c, d, e, f, g, h, i] => some ⟨a, b, c, d, e, f, g, h, i⟩
  | _ => none

end DS
