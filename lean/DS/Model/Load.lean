import DS.Gen.Registry
/-!
M4 — decision logic of loading and saving (no Mathlib import).

* `orderFor` : `P_auto._getOrderedFormats` (registry, `fnmatch` on the basename, matches moved to the front);
* `auto`     : `P_auto._wrapParseMethod` (first candidate that does not raise wins; per-candidate
  exception filtering; a `None` result is taken as success by the loop and as failure after it);
* `read`, `readStr` (`Structure.read/readStr` + the `PDFFitStructure` post-step), `write`.

The per-format parsers are *parameters* (`parse : String → Outcome R`): the models of the parsers
themselves belong to C13.  The registry and the exception table are generated on every run
(`DS.Gen.Reg`, translate/registry.py).
-/
namespace DS.Load

/-! ## Registry -/

structure Entry where
  name : String
  pattern : String
  ext : String
  hasInput : Bool
  hasOutput : Bool
  /-- the `format` attribute a parser instance of this format reports -/
  selfName : String
deriving Repr, DecidableEq, Inhabited

abbrev Registry := List Entry

def Entry.ofRaw (r : String × String × String × Bool × Bool × String) : Entry :=
  ⟨r.1, r.2.1, r.2.2.1, r.2.2.2.1, r.2.2.2.2.1, r.2.2.2.2.2⟩

/-- the registry of the tree under test (dict order) -/
def genRegistry : Registry := Gen.Reg.entriesRaw.map Entry.ofRaw

/-- constants of `_getOrderedFormats` read from the source -/
structure OrderCfg where
  excluded : List String
  skipPatterns : List String
  /-- the pattern separator (a one-character string in the source) -/
  sep : Char
deriving Repr

/-- the separator read from the source is a single character (obligation `DS.Props.C12.gen_separator`; the driver
refuses to answer otherwise) -/
def genSepOk : Bool := Gen.Reg.separatorRaw.toList.length == 1

def genOrderCfg : OrderCfg := ⟨Gen.Reg.excludedRaw, Gen.Reg.skipPatternsRaw, Gen.Reg.separatorRaw.toList.headD '|'⟩

/-- `str.split(c)` for a one-character separator -/
def splitChar (c : Char) : List Char → List (List Char)
  | [] => [[]]
  | a :: s =>
    if a == c then [] :: splitChar c s
    else match splitChar c s with
      | [] => [[a]]
      | w :: ws => (a :: w) :: ws

/-- insertion into a list sorted by code-point order of strings -/
def insertSorted (a : String) : List String → List String
  | [] => [a]
  | b :: l => if a ≤ b then a :: b :: l else b :: insertSorted a l

/-- `sorted(names)` (a permutation in ascending order; names are distinct dict keys) -/
def isort : List String → List String
  | [] => []
  | a :: l => insertSorted a (isort l)

/-! ## `fnmatch` (POSIX: `normcase` is the identity) for patterns made of literals, `*` and `?` -/

/-- does some suffix of the list (the list itself and `[]` included) satisfy `f`? -/
def anySuffix (f : List Char → Bool) : List Char → Bool
  | [] => f []
  | c :: s => f (c :: s) || anySuffix f s

/-- `globL pattern name` -/
def globL : List Char → List Char → Bool
  | [], s => s.isEmpty
  | a :: p, s =>
    if a == '*' then anySuffix (globL p) s
    else match s with
      | [] => false
      | c :: s => (a == '?' || a == c) && globL p s

/-- character classes `[...]` are not modelled; the translator and the driver refuse them -/
def globSupported (pat : String) : Bool := !(pat.toList.contains '[')

def fnmatch (name pat : String) : Bool := globL pat.toList name.toList

/-- `os.path.basename` on POSIX -/
def basenameL (l : List Char) : List Char := (l.reverse.takeWhile (· != '/')).reverse
def basename (p : String) : String := String.ofList (basenameL p.toList)

/-! ## Candidate order -/

/-- `sorted(fmt for fmt, prop in parser_index.items() if prop["has_input"])` -/
def inputFormats (reg : Registry) : List String :=
  isort ((reg.filter (·.hasInput)).map (·.name))

def outputFormats (reg : Registry) : List String :=
  isort ((reg.filter (·.hasOutput)).map (·.name))

/-- does the file's base name match one of the `sep`-separated patterns of `fmt`
(patterns `*.*` and `*` never count) -/
def matchesFmt (cfg : OrderCfg) (reg : Registry) (base : String) (fmt : String) : Bool :=
  match reg.find? (·.name == fmt) with
  | none => false
  | some e => !(cfg.skipPatterns.contains e.pattern) && (splitChar cfg.sep e.pattern.toList).any (fun p => globL p base.toList)

/-- the loop `for fmt in list(ofmts): if match: ofmts.remove(fmt); ofmts.insert(0, fmt)` -/
def reorder (m : String → Bool) (sorted : List String) : List String :=
  sorted.foldl (fun acc f => if m f then f :: acc.erase f else acc) sorted

/-- candidates before reordering -/
def candidates (cfg : OrderCfg) (reg : Registry) : List String :=
  (inputFormats reg).filter (fun f => !(cfg.excluded.contains f))

/-- `_getOrderedFormats` (`filename = none` ↔ `self.filename is None`; `""` is falsy as well) -/
def orderFor (cfg : OrderCfg) (reg : Registry) (filename : Option String) : List String :=
  match filename with
  | none => candidates cfg reg
  | some fn => if fn = "" then candidates cfg reg else reorder (matchesFmt cfg reg (basename fn)) (candidates cfg reg)

/-! ## The automatic parser -/

/-- what one parser does with the text -/
inductive Outcome (R : Type) where
  | ok (r : R)
  /-- returned `None` (P_cif when no block has atom sites) -/
  | none
  | err (kind msg : String)
deriving Repr, DecidableEq

/-- what `_wrapParseMethod` does with an exception kind raised by a candidate -/
inductive Handler where
  | escape
  | collect
  | skip
deriving Repr, DecidableEq

structure AutoCfg where
  handler : String → Handler
  header : List String
  /-- `"%s: %s"` split at the two `%s` -/
  p0 : String
  p1 : String
  p2 : String
  joiner : String
  /-- class raised when nothing succeeded -/
  raised : String

def handlerOfNat : Nat → Handler
  | 1 => .collect
  | 2 => .skip
  | _ => .escape

/-- kinds outside the generated table are classes the table's universe does not contain; the harness maps every
observed exception to the first class of its MRO that is in the universe, so the default is never used there -/
def genHandler (k : String) : Handler :=
  match Gen.Reg.handlerRaw.lookup k with
  | some n => handlerOfNat n
  | none => .escape

def genAutoCfg : AutoCfg :=
  { handler := genHandler
    header := Gen.Reg.headerRaw
    p0 := Gen.Reg.complaintPartsRaw.getD 0 ""
    p1 := Gen.Reg.complaintPartsRaw.getD 1 ""
    p2 := Gen.Reg.complaintPartsRaw.getD 2 ""
    joiner := Gen.Reg.joinerRaw
    raised := Gen.Reg.raisedRaw }

inductive AutoResult (R : Type) where
  /-- success: detected format (`parser.format`) and the structure -/
  | ok (fmt : String) (r : R)
  | err (kind msg : String)
deriving Repr, DecidableEq

def AutoCfg.complaint (c : AutoCfg) (fmt msg : String) : String := c.p0 ++ fmt ++ c.p1 ++ msg ++ c.p2

def AutoCfg.failMsg (c : AutoCfg) (msgs : List String) : String := c.joiner.intercalate (c.header ++ msgs)

/-- the loop of `_wrapParseMethod`; `msgs` = `parsers_emsgs` so far -/
def autoLoop {R : Type} (c : AutoCfg) (parse : String → Outcome R) : List String → List String → AutoResult R
  | [], msgs => .err c.raised (c.failMsg msgs)
  | f :: fs, msgs =>
    match parse f with
    | .ok r => .ok f r
    | .none => .err c.raised (c.failMsg msgs)      -- `stru = None; self.format = f; break`, then `stru is None`
    | .err k m =>
      match c.handler k with
      | .collect => autoLoop c parse fs (msgs ++ [c.complaint f m])
      | .skip => autoLoop c parse fs msgs
      | .escape => .err k m

def auto {R : Type} (c : AutoCfg) (parse : String → Outcome R) (order : List String) : AutoResult R :=
  autoLoop c parse order []

/-- the candidates that were actually called, in order -/
def autoTried {R : Type} (c : AutoCfg) (parse : String → Outcome R) : List String → List String
  | [] => []
  | f :: fs =>
    match parse f with
    | .ok _ => [f]
    | .none => [f]
    | .err k _ =>
      match c.handler k with
      | .escape => [f]
      | _ => f :: autoTried c parse fs

/-! ## Objects: `Structure`, `PDFFitStructure` -/

inductive Val where
  | none
  | str (s : String)
  /-- a dict of canonical renderings (`pdffit`, `xcfg`) -/
  | dict (kv : List (String × String))
  /-- a `Lattice` object: identity and canonical rendering of its value -/
  | lat (id : Nat) (v : String)
deriving Repr, DecidableEq, Inhabited

inductive Cls where
  /-- `Structure` (or a subclass that does not override `read`) -/
  | base
  /-- `PDFFitStructure` (or a subclass) -/
  | pdffit
deriving Repr, DecidableEq

structure Atom where
  payload : String
  /-- identity of the lattice the atom refers to -/
  lat : Option Nat
deriving Repr, DecidableEq

abbrev Dict := List (String × Val)

structure Obj where
  cls : Cls
  /-- instance `__dict__` -/
  dict : Dict
  atoms : List Atom
deriving Repr, DecidableEq

/-- what a parser returns: a new structure object (its `__dict__` and atoms) -/
structure Parsed where
  dict : Dict
  atoms : List Atom
deriving Repr, DecidableEq

/-- `d[k] = v` -/
def setKey {β : Type} (d : List (String × β)) (k : String) (v : β) : List (String × β) :=
  if d.any (·.1 == k) then d.map (fun p => if p.1 == k then (k, v) else p) else d ++ [(k, v)]

/-- `d.update(n)` -/
def update (d n : Dict) : Dict := n.foldl (fun d p => setKey d p.1 p.2) d

/-- class attributes of `Structure` (inherited by `PDFFitStructure`) -/
def classDefault : String → Option Val
  | "title" => some (.str "")
  | "_lattice" => some .none
  | "pdffit" => some .none
  | _ => Option.none

def getattr (o : Obj) (k : String) : Option Val :=
  match o.dict.lookup k with
  | some v => some v
  | none => classDefault k

def latIdOf : Option Val → Option Nat
  | some (.lat id _) => some id
  | _ => Option.none

/-- `self.lattice = v` (property setter: every atom is re-pointed) -/
def setLattice (o : Obj) (v : Val) : Obj :=
  { o with dict := setKey o.dict "_lattice" v, atoms := o.atoms.map (fun a => { a with lat := latIdOf (some v) }) }

def defaultLatticeValue : String := "Lattice(1,1,1,90,90,90; base=1.000000,0.000000,0.000000,0.000000,1.000000,0.000000,0.000000,0.000000,1.000000)"

/-- `Structure.__init__(self)` without arguments on an existing object: only a missing lattice is created -/
def init0 (fresh : Nat) (o : Obj) : Obj :=
  match getattr o "_lattice" with
  | some .none => setLattice o (.lat fresh defaultLatticeValue)
  | _ => o

/-- the defaults of `PDFFitStructure.__init__`, values in the harness' canonical rendering (`%.10g` floats, `repr` strings) -/
def defaultPdffit : List (String × String) :=
  [("scale", "1"), ("delta1", "0"), ("delta2", "0"), ("sratio", "1"), ("rcut", "0"), ("spcgr", "'P1'"),
   ("spdiameter", "0"), ("stepcut", "0"), ("dcell", "[0, 0, 0, 0, 0, 0]"), ("ncell", "[1, 1, 1, 0]")]

/-- the object as `T.__new__` + the part of `T.__init__` that precedes `self.read(...)` leave it -/
def newObj (cls : Cls) : Obj :=
  match cls with
  | .base => ⟨cls, [], []⟩
  | .pdffit => ⟨cls, [("pdffit", .dict defaultPdffit)], []⟩

/-- `T()` -/
def freshObj (cls : Cls) (fresh : Nat) : Obj := init0 fresh (newObj cls)

/-- `self.__dict__.update(new.__dict__); self[:] = new` (atoms are copied and re-pointed to `self.lattice`) -/
def replace (o : Obj) (n : Parsed) : Obj :=
  let o1 : Obj := { o with dict := update o.dict n.dict }
  { o1 with atoms := n.atoms.map (fun a => { a with lat := latIdOf (getattr o1 "_lattice") }) }

def truthy : Option Val → Bool
  | some (.str s) => s != ""
  | some (.dict kv) => !kv.isEmpty
  | some (.lat _ _) => true
  | _ => false

/-- `os.path.splitext(os.path.basename(filename))[0]` -/
def splitextRoot (b : List Char) : List Char :=
  -- position of the last dot; leading dots do not start an extension
  let lead := b.takeWhile (· == '.')
  let rest := b.drop lead.length
  if rest.contains '.' then lead ++ (rest.reverse.dropWhile (· != '.')).reverse.dropLast else b

def tailbase (filename : String) : String := String.ofList (splitextRoot (basenameL filename.toList))

/-- the title-from-file-name rule of `Structure.read` (not in `readStr`) -/
def titleStep (filename : Option String) (o : Obj) : Obj :=
  match filename with
  | none => o
  | some fn => if truthy (getattr o "title") then o else { o with dict := setKey o.dict "title" (.str (tailbase fn)) }

structure ReadIn where
  /-- identity for a `Lattice()` created by `Structure.__init__` -/
  fresh : Nat
  /-- `some` for `read`, `none` for `readStr` -/
  filename : Option String
  /-- exception raised by `getParser(format)`, if any -/
  getParser : Option (String × String)
  parse : Outcome Parsed
  /-- `short_name` of a truthy `p.spacegroup` after parsing -/
  spacegroup : Option String
deriving Repr

structure ReadOut where
  err : Option (String × String)
  obj : Obj
deriving Repr, DecidableEq

/-- `Structure.read` / `Structure.readStr` -/
def structureRead (i : ReadIn) (o : Obj) : ReadOut :=
  match i.getParser with
  | some e => ⟨some e, o⟩
  | none =>
    match i.parse with
    | .err k m => ⟨some (k, m), o⟩
    | .none => ⟨none, titleStep i.filename (init0 i.fresh o)⟩
    | .ok n => ⟨none, titleStep i.filename (replace (init0 i.fresh o) n)⟩

/-- the `PDFFitStructure` post-step `sg = getattr(p, "spacegroup", None); if sg: self.pdffit["spcgr"] = sg.short_name`
(runs only when `Structure.read` returned, i.e. did not raise) -/
def postStep (cls : Cls) (sg : Option String) (r : ReadOut) : ReadOut :=
  match cls, r.err, sg with
  | .pdffit, none, some sg =>
    match getattr r.obj "pdffit" with
    | some (.dict kv) => ⟨none, { r.obj with dict := setKey r.obj.dict "pdffit" (.dict (setKey kv "spcgr" sg)) }⟩
    | _ => ⟨some ("TypeError", "object does not support item assignment"), r.obj⟩
  | _, _, _ => r

/-- `T.read` / `T.readStr` for `T` = `Structure` or `PDFFitStructure` -/
def read (i : ReadIn) (o : Obj) : ReadOut := postStep o.cls i.spacegroup (structureRead i o)

/-- what the property observes of a structure -/
structure Obs where
  atoms : List String
  /-- every atom refers to the structure's own lattice object -/
  atomsOwnLattice : Bool
  lattice : Option String
  title : Option Val
  pdffit : Option Val
  xcfg : Option Val
deriving Repr, DecidableEq

def latValueOf : Option Val → Option String
  | some (.lat _ v) => some v
  | _ => Option.none

def observe (o : Obj) : Obs :=
  { atoms := o.atoms.map (·.payload)
    atomsOwnLattice := o.atoms.all (fun a => a.lat == latIdOf (getattr o "_lattice"))
    lattice := latValueOf (getattr o "_lattice")
    title := getattr o "title"
    pdffit := getattr o "pdffit"
    xcfg := getattr o "xcfg" }

/-- attribute names that are part of the observable state besides atoms and lattice -/
def obsKeys : List String := ["title", "pdffit", "xcfg"]

/-! ## write -/

structure WriteIn where
  getParser : Option (String × String)
  /-- `p.tostring(self)` -/
  serialise : Except (String × String) String
  /-- `open(filename, "w")` fails (missing directory, permissions): nothing is created or truncated -/
  openErr : Option (String × String)
  /-- encoding the text fails after the file has been opened -/
  encodeErr : Option (String × String)
deriving Repr

/-- `Structure.write` on one path whose content is `file` (`none` = absent) -/
def write (i : WriteIn) (file : Option String) : Option (String × String) × Option String :=
  match i.getParser with
  | some e => (some e, file)
  | none =>
    match i.serialise with
    | .error e => (some e, file)
    | .ok s =>
      match i.openErr with
      | some e => (some e, file)
      | none =>
        match i.encodeErr with
        | some e => (some e, some "")
        | none => (none, some s)

/-! ## Driver protocol -/

def hexDigit (n : Nat) : Char := if n < 10 then Char.ofNat (48 + n) else Char.ofNat (87 + n)

/-- `x` followed by the hex digits of the UTF-8 bytes (the prefix keeps the empty string visible as a word) -/
def hex (s : String) : String :=
  String.ofList ('x' :: s.toUTF8.toList.flatMap (fun b => [hexDigit (b.toNat / 16), hexDigit (b.toNat % 16)]))

def unhexDigit (c : Char) : Option Nat :=
  if '0' ≤ c ∧ c ≤ '9' then some (c.toNat - 48)
  else if 'a' ≤ c ∧ c ≤ 'f' then some (c.toNat - 87)
  else none

def unhexBytes : List Char → Option (List UInt8)
  | [] => some []
  | [_] => none
  | a :: b :: rest => do
    let x ← unhexDigit a
    let y ← unhexDigit b
    let r ← unhexBytes rest
    pure ((x * 16 + y).toUInt8 :: r)

def unhex (s : String) : Option String :=
  match s.toList with
  | 'x' :: r => do
    let bs ← unhexBytes r
    String.fromUTF8? (ByteArray.mk bs.toArray)
  | _ => none

/-- `-` = absent, otherwise hex -/
def optHex (w : String) : Option (Option String) :=
  if w = "-" then some none else (unhex w).map some

def splitNonEmpty (s : String) (sep : String) : List String := if s = "-" || s = "" then [] else s.splitOn sep

/-- registry spec: `gen` or `namehex:pathex:0|1;…` -/
def parseReg (w : String) : Option Registry :=
  if w = "gen" then some genRegistry else
  (splitNonEmpty w ";").mapM (fun (e : String) =>
    match e.splitOn ":" with
    | [n, p, i] => do
      let n ← unhex n
      let p ← unhex p
      if i = "1" then pure ⟨n, p, "", true, true, n⟩ else if i = "0" then pure ⟨n, p, "", false, true, n⟩ else none
    | _ => none)

/-- outcomes: `namehex=o | namehex=n | namehex=e:Kind:msghex`, `;`-separated; result payload of `ok` is the name -/
def parseOutcomes (w : String) : Option (List (String × Outcome String)) :=
  (splitNonEmpty w ";").mapM (fun (e : String) =>
    match e.splitOn "=" with
    | [n, o] => do
      let n ← unhex n
      match o.splitOn ":" with
      | ["o"] => pure (n, .ok n)
      | ["n"] => pure (n, .none)
      | ["e", k, m] => do
        let m ← unhex m
        pure (n, .err k m)
      | _ => none
    | _ => none)

def regSupported (reg : Registry) : Bool := reg.all (fun e => globSupported e.pattern)

def encVal : Val → String
  | .none => "N"
  | .str s => "S" ++ hex s
  | .dict kv => "D" ++ ",".intercalate (kv.map (fun p => hex p.1 ++ "~" ++ hex p.2))
  | .lat id v => "L" ++ toString id ++ "~" ++ hex v

def decVal (w : String) : Option Val :=
  match w.toList with
  | ['N'] => some .none
  | 'S' :: r => (unhex (String.ofList r)).map .str
  | 'D' :: r =>
    (splitNonEmpty (String.ofList r) ",").mapM (fun (e : String) =>
      match e.splitOn "~" with
      | [k, v] => do
        let k ← unhex k
        let v ← unhex v
        pure (k, v)
      | _ => none) |>.map .dict
  | 'L' :: r =>
    match (String.ofList r).splitOn "~" with
    | [i, v] => do
      let i ← i.toNat?
      let v ← unhex v
      pure (.lat i v)
    | _ => none
  | _ => none

def encDict (d : Dict) : String := if d.isEmpty then "-" else ";".intercalate (d.map (fun p => hex p.1 ++ "=" ++ encVal p.2))

def decDict (w : String) : Option Dict :=
  (splitNonEmpty w ";").mapM (fun (e : String) =>
    match e.splitOn "=" with
    | [k, v] => do
      let k ← unhex k
      let v ← decVal v
      pure (k, v)
    | _ => none)

def encAtoms (l : List Atom) : String :=
  if l.isEmpty then "-" else ",".intercalate (l.map (fun a => hex a.payload ++ "@" ++ (match a.lat with | some i => toString i | none => "-")))

def decAtoms (w : String) : Option (List Atom) :=
  (splitNonEmpty w ",").mapM (fun (e : String) =>
    match e.splitOn "@" with
    | [p, l] => do
      let p ← unhex p
      if l = "-" then pure ⟨p, none⟩ else do
        let i ← l.toNat?
        pure ⟨p, some i⟩
    | _ => none)

def decErr (w : String) : Option (Option (String × String)) :=
  if w = "-" then some none else
  match w.splitOn ":" with
  | ["e", k] => some (some (k, ""))
  | _ => none

def encErr : Option (String × String) → String
  | none => "ok"
  | some (k, _) => "err:" ++ k

def encObs (o : Obs) : String :=
  let ov : Option Val → String := fun v => match v with | some v => encVal v | none => "-"
  s!"atoms={if o.atoms.isEmpty then "-" else ",".intercalate (o.atoms.map hex)} own={o.atomsOwnLattice} lattice={match o.lattice with | some v => hex v | none => "-"} title={ov o.title} pdffit={ov o.pdffit} xcfg={ov o.xcfg}"

/-- Commands (every string travels hex-encoded UTF-8, `-` = absent / empty list):
* `auto.order <reg|gen> <filename|->` — candidate order, names hex, `,`-joined;
* `auto.run <reg|gen> <filename|-> <outcomes>` — `ok <fmthex> tried=<…>` or `err <Kind> <msghex> tried=<…>`;
* `auto.fnmatch <name> <pattern>`; `read.tailbase <filename>`;
* `read.run <S|P> <fresh> <filename|-> <getParserErr> <tdict> <tatoms> <n|e:Kind|o> <ndict> <natoms> <sg|->`
  — `<ok|err:Kind> <dict> <atoms> | <observation>`;
* `read.fresh <S|P> <fresh>` — a new object `T()`;
* `write.run <getParserErr> <o:texthex|e:Kind> <openErr> <encodeErr> <file|->` — `<ok|err:Kind> <file|->`. -/
def loadHandle (ws : List String) : Option String :=
  match ws with
  | ["auto.order", reg, fn] =>
    match parseReg reg, optHex fn with
    | some reg, some fn =>
      if !regSupported reg || !genSepOk then some "bad-op" else
      some (",".intercalate ((orderFor genOrderCfg reg fn).map hex))
    | _, _ => some "bad-op"
  | ["auto.run", reg, fn, outs] =>
    match parseReg reg, optHex fn, parseOutcomes outs with
    | some reg, some fn, some outs =>
      if !regSupported reg || !genSepOk then some "bad-op" else
      let order := orderFor genOrderCfg reg fn
      -- every candidate must have a scripted outcome: reject otherwise
      if !(order.all (fun f => (outs.lookup f).isSome)) then some "bad-op" else
      let parse : String → Outcome String := fun f => (outs.lookup f).getD .none
      let tried := ",".intercalate ((autoTried genAutoCfg parse order).map hex)
      match auto genAutoCfg parse order with
      | .ok f _ => some s!"ok {hex f} tried={tried}"
      | .err k m => some s!"err {k} {hex m} tried={tried}"
    | _, _, _ => some "bad-op"
  | ["auto.fnmatch", name, pat] =>
    match unhex name, unhex pat with
    | some name, some pat => if globSupported pat then some (toString (fnmatch name pat)) else some "bad-op"
    | _, _ => some "bad-op"
  | ["read.tailbase", fn] =>
    match unhex fn with
    | some fn => some (hex (tailbase fn))
    | none => some "bad-op"
  | ["read.fresh", cls, fresh] =>
    match (if cls = "S" then some Cls.base else if cls = "P" then some Cls.pdffit else none), fresh.toNat? with
    | some cls, some fresh =>
      let o := freshObj cls fresh
      some s!"ok {encDict o.dict} {encAtoms o.atoms} | {encObs (observe o)}"
    | _, _ => some "bad-op"
  | ["read.run", cls, fresh, fn, gp, tdict, tatoms, pk, ndict, natoms, sg] =>
    match (if cls = "S" then some Cls.base else if cls = "P" then some Cls.pdffit else none), fresh.toNat?, optHex fn,
          decErr gp, decDict tdict, decAtoms tatoms, decDict ndict, decAtoms natoms, optHex sg with
    | some cls, some fresh, some fn, some gp, some tdict, some tatoms, some ndict, some natoms, some sg =>
      let parse : Option (Outcome Parsed) :=
        match pk.splitOn ":" with
        | ["n"] => some .none
        | ["o"] => some (.ok ⟨ndict, natoms⟩)
        | ["e", k] => some (.err k "")
        | _ => none
      match parse with
      | none => some "bad-op"
      | some parse =>
        let r := read ⟨fresh, fn, gp, parse, sg⟩ ⟨cls, tdict, tatoms⟩
        some s!"{encErr r.err} {encDict r.obj.dict} {encAtoms r.obj.atoms} | {encObs (observe r.obj)}"
    | _, _, _, _, _, _, _, _, _ => some "bad-op"
  | ["write.run", gp, ser, oe, ee, file] =>
    let ser : Option (Except (String × String) String) :=
      match ser.splitOn ":" with
      | ["o", t] => (unhex t).map .ok
      | ["e", k] => some (.error (k, ""))
      | _ => none
    match decErr gp, ser, decErr oe, decErr ee, optHex file with
    | some gp, some ser, some oe, some ee, some file =>
      let r := write ⟨gp, ser, oe, ee⟩ file
      some s!"{encErr r.1} {match r.2 with | some t => hex t | none => "-"}"
    | _, _, _, _, _ => some "bad-op"
  | _ => none

end DS.Load
