import DS.Model.Dec
/-!
# Per-format record models (M4): what each writer prints and what each reader makes of it

Every format `f` has

* a document type `FS` — exactly the quantities `P_f.toLines` reads off a `Structure` (the harness
  fills it through the public API: `a.xyz_cartn`, `a.Bisoequiv`, `lattice.abcABG()` …, as the exact
  fractions of the doubles),
* `writeF : FS → List Str`   — the lines `toLines` returns,
* `parseF : List Str → Except PErr FS` — the control flow of `parseLines` on arbitrary lines,
* `quantF : FS → FS`   — every carried quantity rounded to the printed precision, text fields
  normalised the way the reader does,
* `reprF : FS → Bool`  — the decidable representable range the round-trip proof needs.

`writeTextF = toText ∘ writeF` and `parseTextF = parseF ∘ ofText` are `tostring` / `parse`.
The theorems are in `DS.Lemmas.Formats` / `DS.Props.C04`.
-/
namespace DS.Formats
open DS.Dec

/-- exception kinds a reader raises -/
inductive PErr where
  | sfe      -- StructureFormatError
  | notImpl  -- NotImplementedError
  | unmodelled  -- the reader continues with lattice algebra that this text model does not contain
                -- (supercell folding of `ncell` records); never reached on written text
deriving DecidableEq, Repr

abbrev PRes := Except PErr

instance [DecidableEq α] : DecidableEq (PRes α)
  | .ok a, .ok b => if h : a = b then isTrue (congrArg _ h) else isFalse (fun e => h (Except.ok.inj e))
  | .error a, .error b => if h : a = b then isTrue (congrArg _ h) else isFalse (fun e => h (Except.error.inj e))
  | .ok _, .error _ => isFalse (fun e => by cases e)
  | .error _, .ok _ => isFalse (fun e => by cases e)

/-- element symbols the models handle: non-empty printable ASCII without blanks (so that Python's
`upper()/lower()` are the ASCII maps and `split()` keeps the symbol as one token) -/
def elemOk (e : Str) : Bool := !e.isEmpty && e.all isGraphA

/-- a title / free text line: no line break -/
def lineOk (t : Str) : Bool := t.all (fun c => c != '\n' && c != '\r')

/-! ## XYZ  (`p_xyz.py`) and raw XYZ (`p_rawxyz.py`) -/

/-- element and Cartesian coordinates -/
structure PAtom where
  el : Str
  x : Rat
  y : Rat
  z : Rat
deriving DecidableEq

structure XyzS where
  title : Str
  atoms : List PAtom
deriving DecidableEq

/-- `len(field) == 0 or field[0] == "#"` -/
def isSkip (f : List Str) : Bool :=
  match f with
  | [] => true
  | w :: _ => w == ['#']

/-- `str(int(w)) == w`: the canonical decimal integers -/
def canonInt (w : Str) : Option Int :=
  match w with
  | '-' :: r =>
    if allDigits r && !r.isEmpty && r.head? != some '0' then some (-(numOf r : Int)) else none
  | _ =>
    if allDigits w && !w.isEmpty && (w == ['0'] || w.head? != some '0') then some (numOf w : Int) else none

/-- `%-3s %g %g %g` -/
def xyzLine (a : PAtom) : Str :=
  padRight 3 a.el ++ ' ' :: (fmtG 6 a.x ++ ' ' :: (fmtG 6 a.y ++ ' ' :: fmtG 6 a.z))

def writeXyz (d : XyzS) : List Str :=
  natDigits d.atoms.length :: d.title :: d.atoms.map xyzLine

/-- the record loop of `P_xyz.parseLines` (`nfields = 4`) -/
def xyzAtoms : List (List Str) → PRes (List PAtom)
  | [] => .ok []
  | [] :: rest => xyzAtoms rest
  | [e, a, b, c] :: rest =>
    match parseDec a, parseDec b, parseDec c with
    | some x, some y, some z =>
      match xyzAtoms rest with
      | .ok as => .ok (⟨capitalize e, x, y, z⟩ :: as)
      | .error k => .error k
    | _, _, _ => .error .sfe
  | _ :: _ => .error .sfe

def parseXyz (lines : List Str) : PRes XyzS :=
  let fields := lines.map splitWs
  let start := (fields.takeWhile isSkip).length
  match fields.drop start with
  | [w1] :: _ =>
    match canonInt w1 with
    | none => .error .sfe
    | some n =>
      -- `lines[start + 1].strip() if start + 1 < len(lines) else ""`
      let title := match lines.drop (start + 1) with
        | tl :: _ => strip tl
        | [] => []
      let rest := fields.drop (start + 2)
      if n = 0 ∨ rest.all List.isEmpty = true then .ok ⟨title, []⟩
      else match rest with
        | [] => .ok ⟨title, []⟩
        | f :: _ =>
          if f.length ≠ 4 then .error .sfe else
          match xyzAtoms rest with
          | .error k => .error k
          | .ok atoms => if (atoms.length : Int) = n then .ok ⟨title, atoms⟩ else .error .sfe
  | _ => .error .sfe

def quantPAtomCap (a : PAtom) : PAtom := ⟨capitalize a.el, roundSig 6 a.x, roundSig 6 a.y, roundSig 6 a.z⟩

def quantXyz (d : XyzS) : XyzS := ⟨strip d.title, d.atoms.map quantPAtomCap⟩

def pAtomOk (a : PAtom) : Bool := elemOk a.el

/-- the range of the XYZ format: a one-line title, element symbols that are single tokens -/
def rangeXyz (d : XyzS) : Bool := lineOk d.title && d.atoms.all pAtomOk

/-- representable in XYZ (since the repair 9dc2009 of `P_xyz.parseLines` an atom-less structure with
a blank title is readable too: `parse` strips the final line breaks, the reader takes the missing
title line as an empty title) -/
def reprXyz (d : XyzS) : Bool := rangeXyz d

def writeTextXyz (d : XyzS) : Str := toText (writeXyz d)
def parseTextXyz (t : Str) : PRes XyzS := parseXyz (ofText t)

/-! ### raw XYZ -/

/-- `utils.isfloat`: `float(s)` succeeds (decimal literals, `inf`, `nan`, `infinity`) -/
def isFloatTok (s : Str) : Bool :=
  let t := lower (match s with | '-' :: r => r | '+' :: r => r | _ => s)
  (parseDec s).isSome || t == "inf".toList || t == "nan".toList || t == "infinity".toList

/-- `("%s %g %g %g" % …).lstrip()` -/
def rawLine (a : PAtom) : Str :=
  lstrip (a.el ++ ' ' :: (fmtG 6 a.x ++ ' ' :: (fmtG 6 a.y ++ ' ' :: fmtG 6 a.z)))

def writeRaw (atoms : List PAtom) : List Str := atoms.map rawLine

/-- record loop of `P_rawxyz.parseLines`; `withEl` = the first record has an element column;
`nf` = its number of columns -/
def rawAtoms (withEl : Bool) (nf : Nat) : List (List Str) → PRes (List PAtom)
  | [] => .ok []
  | [] :: rest => rawAtoms withEl nf rest
  | f :: rest =>
    if f.length ≠ nf then .error .sfe else
    let el := if withEl then f.headD [] else []
    let xs := (if withEl then f.drop 1 else f).take 3
    match xs.mapM parseDec with
    | none => .error .sfe
    | some vs =>
      -- `if len(xyz) == 2: xyz.append(0.0)` cannot happen for nf ∈ {3,4} with the layouts accepted
      match vs, rawAtoms withEl nf rest with
      | [x, y, z], .ok as => .ok (⟨el, x, y, z⟩ :: as)
      | _, .error k => .error k
      | _, _ => .error .sfe

def parseRaw (lines : List Str) : PRes (List PAtom) :=
  let fields := lines.map splitWs
  let rest := fields.dropWhile isSkip
  if rest.all List.isEmpty = true then .ok [] else
  match rest with
  | [] => .ok []
  | f :: _ =>
    let ff := f.map isFloatTok
    if f.length ≠ 3 ∧ f.length ≠ 4 then .error .sfe
    else if ff.take 3 = [true, true, true] then rawAtoms false f.length rest
    else if ff.take 4 = [false, true, true, true] then rawAtoms true f.length rest
    else .error .sfe

def quantPAtom (a : PAtom) : PAtom := ⟨a.el, roundSig 6 a.x, roundSig 6 a.y, roundSig 6 a.z⟩
def quantRaw (atoms : List PAtom) : List PAtom := atoms.map quantPAtom

/-- element column of raw XYZ: a single token that is not itself a number and not the comment
mark; or no element at all — but then for every atom (the layout is fixed by the first record) -/
def rawElOk (e : Str) : Bool := elemOk e && !isFloatTok e && e != ['#']

def reprRaw (atoms : List PAtom) : Bool :=
  atoms.all (fun a => rawElOk a.el) || atoms.all (fun a => a.el.isEmpty)

def writeTextRaw (d : List PAtom) : Str := toText (writeRaw d)
def parseTextRaw (t : Str) : PRes (List PAtom) := parseRaw (ofText t)


/-! ## DISCUS (`p_discus.py`) and PDFfit (`p_pdffit.py`) -/

structure V3 where
  x : Rat
  y : Rat
  z : Rat
deriving DecidableEq

structure Cell6 where
  a : Rat
  b : Rat
  c : Rat
  al : Rat
  be : Rat
  ga : Rat
deriving DecidableEq

def Cell6.default : Cell6 := ⟨1, 1, 1, 90, 90, 90⟩
def Cell6.toList (c : Cell6) : List Rat := [c.a, c.b, c.c, c.al, c.be, c.ga]
def Cell6.map (f : Rat → Rat) (c : Cell6) : Cell6 := ⟨f c.a, f c.b, f c.c, f c.al, f c.be, f c.ga⟩

/-- `lattice.setLatPar(*vals)`: positional, missing parameters keep their value -/
def Cell6.update (c : Cell6) : List Rat → Cell6
  | [] => c
  | [a] => { c with a := a }
  | [a, b] => { c with a := a, b := b }
  | [a, b, c'] => { c with a := a, b := b, c := c' }
  | [a, b, c', al] => { c with a := a, b := b, c := c', al := al }
  | [a, b, c', al, be] => { c with a := a, b := b, c := c', al := al, be := be }
  | a :: b :: c' :: al :: be :: ga :: _ => ⟨a, b, c', al, be, ga⟩

/-- necessary and sufficient for a non-degenerate cell: positive lengths and angles that are the
sides of a proper spherical triangle (then `1 - cos²α - cos²β - cos²γ + 2 cosα cosβ cosγ > 0`);
`Lattice` accepting exactly these is C01's subject, here it is part of the representable range -/
def Cell6.ok (c : Cell6) : Bool :=
  decide (0 < c.a) && decide (0 < c.b) && decide (0 < c.c) &&
  decide (0 < c.al) && decide (0 < c.be) && decide (0 < c.ga) &&
  decide (c.al < 180) && decide (c.be < 180) && decide (c.ga < 180) &&
  decide (c.al + c.be + c.ga < 360) &&
  decide (c.al < c.be + c.ga) && decide (c.be < c.al + c.ga) && decide (c.ga < c.al + c.be)

def kwTitle : Str := ['t', 'i', 't', 'l', 'e']
def kwSpcgr : Str := ['s', 'p', 'c', 'g', 'r']
def kwShape : Str := ['s', 'h', 'a', 'p', 'e']
def kwSphere : Str := ['s', 'p', 'h', 'e', 'r', 'e']
def kwStepcut : Str := ['s', 't', 'e', 'p', 'c', 'u', 't']
def kwCell : Str := ['c', 'e', 'l', 'l']
def kwDcell : Str := ['d', 'c', 'e', 'l', 'l']
def kwNcell : Str := ['n', 'c', 'e', 'l', 'l']
def kwAtoms : Str := ['a', 't', 'o', 'm', 's']
def kwFormat : Str := ['f', 'o', 'r', 'm', 'a', 't']
def kwPdffit : Str := ['p', 'd', 'f', 'f', 'i', 't']
def kwScale : Str := ['s', 'c', 'a', 'l', 'e']
def kwSharp : Str := ['s', 'h', 'a', 'r', 'p']
def kwGenerator : Str := ['g', 'e', 'n', 'e', 'r', 'a', 't', 'o', 'r']
def kwMolecule : Str := ['m', 'o', 'l', 'e', 'c', 'u', 'l', 'e']
def kwSymmetry : Str := ['s', 'y', 'm', 'm', 'e', 't', 'r', 'y']
def sp (k : Nat) : Str := List.replicate k ' '

/-- `sep.join(fields)` -/
def joinSep (sep : Str) : List Str → Str
  | [] => []
  | [f] => f
  | f :: g :: gs => f ++ sep ++ joinSep sep (g :: gs)
/-- `", ".join(fields)` -/
def csv (fs : List Str) : Str := joinSep [',', ' '] fs
/-- `" ".join(fields)` -/
def ssv (fs : List Str) : Str := joinSep [' '] fs

/-- lines before the trailing blank ones (`while stop > 0 and lines[stop-1].strip() == ""`) -/
def dropTrailingBlank (lines : List Str) : List Str :=
  (lines.reverse.dropWhile (fun l => (strip l).isEmpty)).reverse

/-- `line.lstrip()[5:].strip()` — also what `line[line.find("spcgr")+5:].strip()` is on a line whose
first word is `spcgr` -/
def afterKw (line : Str) : Str := strip ((lstrip line).drop 5)

/-- `_parse_shape`: `(spdiameter, stepcut)` update -/
def shapeRecord (words : List Str) (tyWords : List Str) (spd stepcut : Rat) : PRes (Rat × Rat) :=
  match tyWords with
  | _ :: st :: _ =>
    if st = kwSphere then
      match words with
      | _ :: _ :: w2 :: _ => match parseDec w2 with
        | some v => .ok (v, stepcut)
        | none => .error .sfe
      | _ => .error .sfe
    else if st = kwStepcut then
      match words with
      | _ :: _ :: w2 :: _ => match parseDec w2 with
        | some v => .ok (spd, v)
        | none => .error .sfe
      | _ => .error .sfe
    else .error .sfe
  | _ => .error .sfe

structure DAtom where
  el : Str
  pos : V3
  b : Rat
deriving DecidableEq

structure DiscusS where
  title : Str
  spcgr : Str
  spd : Rat
  stepcut : Rat
  cell : Cell6
  atoms : List DAtom
deriving DecidableEq

def discusAtomLine (a : DAtom) : Str :=
  ssv [padRight 4 (upper a.el), fmtF 17 8 a.pos.x, fmtF 17 8 a.pos.y, fmtF 17 8 a.pos.z, fmtF 12 4 a.b]

def shapeLines (spd stepcut : Rat) : List Str :=
  (if 0 < spd then [kwShape ++ sp 3 ++ kwSphere ++ [',', ' '] ++ fmtG 6 spd] else []) ++
  (if 0 < stepcut then [kwShape ++ sp 3 ++ kwStepcut ++ [',', ' '] ++ fmtG 6 stepcut] else [])

def cellLine (kw : Str) (k : Nat) (c : Cell6) : Str := kw ++ sp k ++ csv (c.toList.map (fmtF 9 6))

def ncellLine (n : Nat) : Str := kwNcell ++ sp 2 ++ csv [fmtI 9 1, fmtI 9 1, fmtI 9 1, fmtI 9 n]

def writeDiscus (d : DiscusS) : List Str :=
  [strip (kwTitle ++ sp 3 ++ d.title), kwSpcgr ++ sp 3 ++ d.spcgr] ++ shapeLines d.spd d.stepcut ++
  [cellLine kwCell 3 d.cell, ncellLine d.atoms.length, kwAtoms] ++ d.atoms.map discusAtomLine

structure DHdr where
  title : Str
  spcgr : Str
  spd : Rat
  stepcut : Rat
  cell : Cell6
  cellRead : Bool
  ncell : Option (List Int)

def DHdr.init : DHdr := ⟨[], ['P', '1'], 0, 0, Cell6.default, false, none⟩

/-- one header record of `P_discus.parseLines` (dispatch on the first word) -/
def discusRecord (h : DHdr) (line : Str) (words : List Str) (w0 : Str) : PRes DHdr :=
  if w0 = kwCell then
    match (((splitWs (commasToBlanks line)).drop 1).take 6).mapM parseDec with
    | none => .error .sfe
    | some vs => .ok { h with cell := h.cell.update vs, cellRead := true }
  else if w0 = kwFormat then
    match words with
    | _ :: w1 :: _ => if w1 = kwPdffit then .error .sfe else .ok h
    | _ => .error .sfe
  else if w0 = kwGenerator ∨ w0 = kwMolecule ∨ w0 = kwSymmetry then .error .notImpl
  else if w0 = kwNcell then
    match (((splitWs (commasToBlanks line)).drop 1).take 4).mapM parseInt with
    | none => .error .sfe
    | some vs => .ok { h with ncell := some vs }
  else if w0 = kwSpcgr then .ok { h with spcgr := (words.drop 1).flatten }
  else if w0 = kwTitle then .ok { h with title := afterKw line }
  else if w0 = kwShape then
    match shapeRecord words (splitWs (commasToBlanks (ssv words))) h.spd h.stepcut with
    | .ok (a, b) => .ok { h with spd := a, stepcut := b }
    | .error k => .error k
  else .ok h

def discusHeader : List Str → DHdr → PRes (DHdr × List Str)
  | [], _ => .error .sfe          -- the header loop ended without an `atoms` record (`for … else: raise`)
  | line :: rest, h =>
    match splitWs line with
    | [] => discusHeader rest h
    | w0 :: ws =>
      if w0.head? = some '#' then discusHeader rest h
      else if w0 = kwAtoms then .ok (h, rest)
      else match discusRecord h line (w0 :: ws) w0 with
        | .error k => .error k
        | .ok h' => discusHeader rest h'

def discusAtoms : List Str → PRes (List DAtom)
  | [] => .ok []
  | line :: rest =>
    match splitWs (commasToBlanks line) with
    | [] => discusAtoms rest
    | w0 :: ws =>
      if w0.head? = some '#' then discusAtoms rest else
      match ws with
      | a :: b :: c :: d :: _ =>
        match parseDec a, parseDec b, parseDec c, parseDec d with
        | some x, some y, some z, some bb =>
          match discusAtoms rest with
          | .ok as => .ok (⟨capitalize w0, ⟨x, y, z⟩, bb⟩ :: as)
          | .error k => .error k
        | _, _, _, _ => .error .sfe
      | _ => .error .sfe

def intProd (l : List Int) : Int := l.foldl (· * ·) 1

def parseDiscus (lines : List Str) : PRes DiscusS :=
  match discusHeader (dropTrailingBlank lines) DHdr.init with
  | .error k => .error k
  | .ok (h, rest) =>
    if h.cellRead = false then .error .sfe else
    match discusAtoms rest with
    | .error k => .error k
    | .ok atoms =>
      match h.ncell with
      | some nc =>
        if intProd nc ≠ (atoms.length : Int) then .error .sfe
        else if nc.take 3 ≠ [1, 1, 1] then .error .unmodelled
        else .ok ⟨h.title, h.spcgr, h.spd, h.stepcut, h.cell, atoms⟩
      | none => .ok ⟨h.title, h.spcgr, h.spd, h.stepcut, h.cell, atoms⟩

def noWsStr (s : Str) : Str := s.filter (fun c => !isWs c)

def quantShape (v : Rat) : Rat := if 0 < v then roundSig 6 v else 0

def quantDAtom (a : DAtom) : DAtom :=
  ⟨capitalize (upper a.el), ⟨roundTo 8 a.pos.x, roundTo 8 a.pos.y, roundTo 8 a.pos.z⟩, roundTo 4 a.b⟩

def quantDiscus (d : DiscusS) : DiscusS :=
  ⟨strip d.title, noWsStr d.spcgr, quantShape d.spd, quantShape d.stepcut, d.cell.map (roundTo 6),
   d.atoms.map quantDAtom⟩

/-- element column of DISCUS / PDFfit: one printable token without the separator `,` and not a
comment mark -/
def elemOkD (e : Str) : Bool := elemOk e && e.all (· != ',') && e.head? != some '#'

def rangeDiscus (d : DiscusS) : Bool :=
  lineOk d.title && lineOk d.spcgr && d.atoms.all (fun a => elemOkD a.el)

def reprDiscus (d : DiscusS) : Bool := rangeDiscus d

def writeTextDiscus (d : DiscusS) : Str := toText (writeDiscus d)
def parseTextDiscus (t : Str) : PRes DiscusS := parseDiscus (ofText t)

/-! ### PDFfit -/

structure PFAtom where
  el : Str
  pos : V3
  occ : Rat
  sigpos : V3
  sigo : Rat
  uii : V3
  suii : V3
  uij : V3
  suij : V3
deriving DecidableEq

structure PdffitS where
  title : Str
  scale : Rat
  delta2 : Rat
  delta1 : Rat
  sratio : Rat
  rcut : Rat
  spcgr : Str
  spd : Rat
  stepcut : Rat
  cell : Cell6
  dcell : Cell6
  atoms : List PFAtom
deriving DecidableEq

def f3 (v : V3) : List Str := [fmtF 18 8 v.x, fmtF 17 8 v.y, fmtF 17 8 v.z]

def pdffitAtomLines (a : PFAtom) : List Str :=
  [ ssv [padRight 4 (upper a.el), fmtF 17 8 a.pos.x, fmtF 17 8 a.pos.y, fmtF 17 8 a.pos.z, fmtF 12 4 a.occ],
    sp 4 ++ ssv (f3 a.sigpos ++ [fmtF 12 4 a.sigo]),
    sp 4 ++ ssv (f3 a.uii), sp 4 ++ ssv (f3 a.suii), sp 4 ++ ssv (f3 a.uij), sp 4 ++ ssv (f3 a.suij) ]

def writePdffit (d : PdffitS) : List Str :=
  [ strip (kwTitle ++ sp 2 ++ d.title),
    kwFormat ++ sp 1 ++ kwPdffit,
    kwScale ++ sp 2 ++ fmtF 9 6 d.scale,
    kwSharp ++ sp 2 ++ csv [fmtF 9 6 d.delta2, fmtF 9 6 d.delta1, fmtF 9 6 d.sratio, fmtF 9 6 d.rcut],
    kwSpcgr ++ sp 3 ++ d.spcgr ] ++ shapeLines d.spd d.stepcut ++
  [ cellLine kwCell 3 d.cell, cellLine kwDcell 2 d.dcell, ncellLine d.atoms.length, kwAtoms ] ++
  (d.atoms.map pdffitAtomLines).flatten

structure PHdr where
  title : Str
  scale : Rat
  delta2 : Rat
  delta1 : Rat
  sratio : Rat
  rcut : Rat
  spcgr : Str
  spd : Rat
  stepcut : Rat
  cell : Cell6
  cellRead : Bool
  dcell : Cell6
  ncell : List Int

def PHdr.init : PHdr := ⟨[], 1, 0, 0, 1, 0, ['P', '1'], 0, 0, Cell6.default, false, ⟨0, 0, 0, 0, 0, 0⟩, [1, 1, 1, 0]⟩

/-- `dcell` list → six numbers (the reader stores whatever it found; fewer than six make the
writer fail later — outside the written texts) -/
def cellOfList : List Rat → Option Cell6
  | [a, b, c, al, be, ga] => some ⟨a, b, c, al, be, ga⟩
  | _ => none

def pdffitRecord (h : PHdr) (line : Str) (words : List Str) (w0 : Str) : PRes PHdr :=
  let cw := splitWs (commasToBlanks line)
  if w0 = kwTitle then .ok { h with title := afterKw line }
  else if w0 = kwScale then
    match words with
    | _ :: w1 :: _ => match parseDec w1 with
      | some v => .ok { h with scale := v }
      | none => .error .sfe
    | _ => .error .sfe
  else if w0 = kwSharp then
    match (cw.drop 1).mapM parseDec with
    | none => .error .sfe
    | some [a, b, c] => .ok { h with delta2 := a, sratio := b, rcut := c }
    | some (a :: b :: c :: d :: _) => .ok { h with delta2 := a, delta1 := b, sratio := c, rcut := d }
    | some _ => .error .sfe
  else if w0 = kwSpcgr then .ok { h with spcgr := afterKw line }
  else if w0 = kwShape then
    match shapeRecord cw cw h.spd h.stepcut with
    | .ok (a, b) => .ok { h with spd := a, stepcut := b }
    | .error k => .error k
  else if w0 = kwCell then
    match ((cw.drop 1).take 6).mapM parseDec with
    | none => .error .sfe
    | some [] => .ok { h with cell := Cell6.default, cellRead := true }
    | some vs => match cellOfList vs with
      | some c => .ok { h with cell := c, cellRead := true }
      | none => .error .sfe
  else if w0 = kwDcell then
    match ((cw.drop 1).take 6).mapM parseDec with
    | none => .error .sfe
    | some vs => match cellOfList vs with
      | some c => .ok { h with dcell := c }
      | none => .error .unmodelled
  else if w0 = kwNcell then
    match ((cw.drop 1).take 4).mapM parseInt with
    | none => .error .sfe
    | some vs => .ok { h with ncell := vs }
  else if w0 = kwFormat then
    match words with
    | _ :: w1 :: _ => if w1 ≠ kwPdffit then .error .sfe else .ok h
    | _ => .error .sfe
  else .ok h

def pdffitHeader : List Str → PHdr → PRes (PHdr × List Str)
  | [], _ => .error .sfe          -- the header loop ended without an `atoms` record (`for … else: raise`)
  | line :: rest, h =>
    match splitWs line with
    | [] => pdffitHeader rest h
    | w0 :: ws =>
      if w0.head? = some '#' then pdffitHeader rest h
      else if w0 = kwAtoms ∧ h.cellRead = true then .ok (h, rest)
      else match pdffitRecord h line (w0 :: ws) w0 with
        | .error k => .error k
        | .ok h' => pdffitHeader rest h'

def tok3 (ws : List Str) : Option V3 :=
  match ws with
  | a :: b :: c :: _ => match parseDec a, parseDec b, parseDec c with
    | some x, some y, some z => some ⟨x, y, z⟩
    | _, _, _ => none
  | _ => none

/-- the six-line atom blocks -/
def pdffitAtoms : List Str → PRes (List PFAtom)
  | [] => .ok []
  | l1 :: l2 :: l3 :: l4 :: l5 :: l6 :: rest =>
    match splitWs l1, splitWs l2 with
    | w0 :: w1, s0 :: s1 :: s2 :: s3 :: _ =>
      match tok3 w1, (w1.drop 3).head?.bind parseDec, tok3 [s0, s1, s2], parseDec s3,
            tok3 (splitWs l3), tok3 (splitWs l4), tok3 (splitWs l5), tok3 (splitWs l6) with
      | some p, some o, some sp', some so, some u, some su, some uj, some suj =>
        match pdffitAtoms rest with
        | .ok as => .ok (⟨capitalize w0, p, o, sp', so, u, su, uj, suj⟩ :: as)
        | .error k => .error k
      | _, _, _, _, _, _, _, _ => .error .sfe
    | _, _ => .error .sfe
  | _ => .error .sfe

def parsePdffit (lines : List Str) : PRes PdffitS :=
  match pdffitHeader (dropTrailingBlank lines) PHdr.init with
  | .error k => .error k
  | .ok (h, rest) =>
    if h.cellRead = false then .error .sfe else
    match pdffitAtoms rest with
    | .error k => .error k
    | .ok atoms =>
      if intProd h.ncell ≠ (atoms.length : Int) then .error .sfe
      else if h.ncell.take 3 ≠ [1, 1, 1] then .error .unmodelled
      else .ok ⟨h.title, h.scale, h.delta2, h.delta1, h.sratio, h.rcut, h.spcgr, h.spd, h.stepcut,
                h.cell, h.dcell, atoms⟩

def V3.map (f : Rat → Rat) (v : V3) : V3 := ⟨f v.x, f v.y, f v.z⟩

def quantPFAtom (a : PFAtom) : PFAtom :=
  ⟨capitalize (upper a.el), a.pos.map (roundTo 8), roundTo 4 a.occ, a.sigpos.map (roundTo 8), roundTo 4 a.sigo,
   a.uii.map (roundTo 8), a.suii.map (roundTo 8), a.uij.map (roundTo 8), a.suij.map (roundTo 8)⟩

def quantPdffit (d : PdffitS) : PdffitS :=
  ⟨strip d.title, roundTo 6 d.scale, roundTo 6 d.delta2, roundTo 6 d.delta1, roundTo 6 d.sratio, roundTo 6 d.rcut,
   strip d.spcgr, quantShape d.spd, quantShape d.stepcut, d.cell.map (roundTo 6), d.dcell.map (roundTo 6),
   d.atoms.map quantPFAtom⟩

def rangePdffit (d : PdffitS) : Bool :=
  lineOk d.title && lineOk d.spcgr && d.atoms.all (fun a => elemOk a.el)

def reprPdffit (d : PdffitS) : Bool := rangePdffit d

def writeTextPdffit (d : PdffitS) : Str := toText (writePdffit d)
def parseTextPdffit (t : Str) : PRes PdffitS := parsePdffit (ofText t)


/-! ## PDB (`p_pdb.py`): fixed columns -/

structure PdbAtom where
  name : Str          -- `a.label or a.element`, columns 13-16
  el : Str            -- columns 77-78
  pos : V3            -- Cartesian, `%8.3f`
  occ : Rat           -- `%6.2f`
  b : Rat             -- `%6.2f`
  aniso : Option (List Int)   -- the six `numpy.around(1e4 * U)` integers of an ANISOU record
deriving DecidableEq

structure PdbS where
  title : Str
  cell : Option Cell6     -- `none`: the default unit cell, no CRYST1 record
  atoms : List PdbAtom
deriving DecidableEq

def kwTITLE : Str := ['T', 'I', 'T', 'L', 'E']
def kwCRYST1 : Str := ['C', 'R', 'Y', 'S', 'T', '1']
def kwATOM : Str := ['A', 'T', 'O', 'M']
def kwHETATM : Str := ['H', 'E', 'T', 'A', 'T', 'M']
def kwANISOU : Str := ['A', 'N', 'I', 'S', 'O', 'U']
def kwSIGATM : Str := ['S', 'I', 'G', 'A', 'T', 'M']
def kwSIGUIJ : Str := ['S', 'I', 'G', 'U', 'I', 'J']
def kwTER : Str := ['T', 'E', 'R']
def kwEND : Str := ['E', 'N', 'D']
def kwSCALE (k : Char) : Str := ['S', 'C', 'A', 'L', 'E', k]

/-- the other record names of `P_pdb.orderOfRecords` (accepted and ignored by the reader) -/
def pdbOtherRecords : List Str :=
  ["HEADER", "OBSLTE", "CAVEAT", "COMPND", "SOURCE", "KEYWDS", "EXPDTA", "AUTHOR", "REVDAT", "SPRSDE", "JRNL",
   "REMARK", "DBREF", "SEQADV", "SEQRES", "MODRES", "HET", "HETNAM", "HETSYN", "FORMUL", "HELIX", "SHEET", "TURN",
   "SSBOND", "LINK", "HYDBND", "SLTBRG", "CISPEP", "SITE", "ORIGX1", "ORIGX2", "ORIGX3", "MTRIX1", "MTRIX2",
   "MTRIX3", "TVECT", "MODEL", "TER", "ENDMDL", "CONECT", "MASTER", "END"].map String.toList

/-- `title.rfind(" ", 10, 60)`: the last blank among the indices 10..59, if any -/
def rfindSpace (t : Str) : Option Nat :=
  (((t.take 60).zipIdx.drop 10).filter (fun p => p.1 == ' ')).getLast?.map (·.2)

/-- the chunks `titleLines` cuts the title into (at most 60 characters each) -/
def titleChunks (fuel : Nat) (t : Str) : List Str :=
  match fuel with
  | 0 => []
  | fuel + 1 =>
    if t.isEmpty then [] else
    let stop := if t.length > 60 then (rfindSpace t).getD 60 else t.length
    t.take stop :: titleChunks fuel (t.drop stop)

def pdbTitleLine (k : Nat) (chunk : Str) : Str :=
  padRight 80 (kwTITLE ++ sp 3 ++ (if k = 0 then sp 2 else fmtI 2 ((k : Int) + 1)) ++ chunk)

def pdbTitleLines (t : Str) : List Str :=
  (titleChunks (t.length + 1) t).zipIdx.map (fun p => pdbTitleLine p.2 p.1)

def pdbCrystLine (c : Cell6) : Str :=
  padRight 80 (kwCRYST1 ++ (fmtF 9 3 c.a ++ (fmtF 9 3 c.b ++ (fmtF 9 3 c.c ++ (fmtF 7 2 c.al ++ (fmtF 7 2 c.be ++ fmtF 7 2 c.ga))))))

/-- columns 17-30 of an ATOM record as the writer fills them: altLoc ` `, resName `   `, ` `,
chainID ` `, resSeq `   1`, iCode ` `, `   ` -/
def pdbMid : Str := sp 9 ++ '1' :: sp 4

/-- the ATOM record (`%c` of a blank = one blank; resName, segID, charge are empty strings);
columns: 1-6 `ATOM  `, 7-11 serial, 12 blank, 13-16 name, 17-30 `pdbMid`, 31-54 x y z, 55-60 occupancy,
61-66 B, 67-76 blank, 77-78 element, 79-80 charge -/
def pdbAtomLine (serial : Nat) (a : PdbAtom) : Str :=
  kwATOM ++ (sp 2 ++ (fmtI 5 serial ++ (sp 1 ++ (padRight 4 a.name ++ (pdbMid ++
  (fmtF 8 3 a.pos.x ++ (fmtF 8 3 a.pos.y ++ (fmtF 8 3 a.pos.z ++ (fmtF 6 2 a.occ ++ (fmtF 6 2 a.b ++ (sp 10 ++
  (padLeft 2 a.el ++ sp 2))))))))))))

def pdbAnisouLine (atomline : Str) (u : List Int) : Str :=
  kwANISOU ++ (slice 6 27 atomline ++ (sp 1 ++ ((u.map (fmtI 7)).flatten ++ (sp 2 ++ slice 72 80 atomline))))

def pdbAtomLines (serial : Nat) (a : PdbAtom) : List Str :=
  let l := pdbAtomLine serial a
  match a.aniso with
  | none => [l]
  | some u => [l, pdbAnisouLine l u]

def pdbAtomsLines : Nat → List PdbAtom → List Str
  | _, [] => []
  | k, a :: as => pdbAtomLines (k + 1) a ++ pdbAtomsLines (k + 1) as

def pdbTerLine (n : Nat) : Str :=
  kwTER ++ sp 3 ++ fmtI 5 ((n : Int) + 1) ++ sp 6 ++ sp 3 ++ sp 1 ++ sp 1 ++ fmtI 4 1 ++ sp 1 ++ padLeft 53 (sp 1)

def writePdb (d : PdbS) : List Str :=
  pdbTitleLines d.title ++ (match d.cell with | none => [] | some c => [pdbCrystLine c]) ++
  pdbAtomsLines 0 d.atoms ++ [pdbTerLine d.atoms.length, padRight 80 kwEND]

/-- reader state: atoms in reverse order (the last atom first) -/
structure PdbSt where
  title : Str
  cell : Option Cell6
  ratoms : List PdbAtom

def floatOr (s : Str) (dflt : Rat) : Rat := (pyFloat s).getD dflt

def pdbRecord (st : PdbSt) (line : Str) (record : Str) : PRes PdbSt :=
  if record = kwTITLE then
    if (strip (slice 8 10 line)).isEmpty then .ok { st with title := rstrip (line.drop 10) }
    else .ok { st with title := st.title ++ rstrip (line.drop 10) }
  else if record = kwCRYST1 then
    match pyFloat (slice 7 15 line), pyFloat (slice 15 24 line), pyFloat (slice 24 33 line),
          pyFloat (slice 33 40 line), pyFloat (slice 40 47 line), pyFloat (slice 47 54 line) with
    | some a, some b, some c, some al, some be, some ga => .ok { st with cell := some ⟨a, b, c, al, be, ga⟩ }
    | _, _, _, _, _, _ => .error .sfe
  else if record = kwSCALE '1' ∨ record = kwSCALE '2' ∨ record = kwSCALE '3' then .error .unmodelled
  else if record = kwATOM ∨ record = kwHETATM then
    let name := strip (slice 12 16 line)
    match (splitWs (slice 30 54 line)).mapM parseDec with
    | some [x, y, z] =>
      let occ := floatOr (slice 54 60 line) 1
      let b := floatOr (slice 60 66 line) 0
      let el := strip (slice 76 78 line)
      if el.isEmpty then
        let e2 := strip (slice 12 14 line)
        if e2.isEmpty then .error .sfe
        else .ok { st with ratoms := ⟨name, capitalize e2, ⟨x, y, z⟩, occ, b, none⟩ :: st.ratoms }
      else .ok { st with ratoms := ⟨name, el, ⟨x, y, z⟩, occ, b, none⟩ :: st.ratoms }
    | _ => .error .sfe
  else if record = kwSIGATM ∨ record = kwANISOU ∨ record = kwSIGUIJ then
    match st.ratoms with
    | [] => .error .sfe
    | last :: before =>
      if record = kwANISOU then
        match (splitWs (slice 28 70 line)).mapM parseDec with
        | some (u0 :: u1 :: u2 :: u3 :: u4 :: u5 :: _) =>
          -- the model keeps the printed integers (unit 1e-4 Å²); a non-integer field is outside it
          match [u0, u1, u2, u3, u4, u5].mapM (fun q => if q.den = 1 then some q.num else none) with
          | some us => .ok { st with ratoms := { last with aniso := some us } :: before }
          | none => .error .unmodelled
        | _ => .error .sfe
      else .error .unmodelled
  else if pdbOtherRecords.contains record then .ok st
  else .error .sfe

def pdbLoop : List Str → PdbSt → PRes PdbSt
  | [], st => .ok st
  | line :: rest, st =>
    if (strip line).isEmpty then pdbLoop rest st else
    let line := if line.length < 80 then padRight 80 line else line
    match splitWs line with
    | [] => pdbLoop rest st
    | record :: _ =>
      match pdbRecord st line record with
      | .error k => .error k
      | .ok st' => pdbLoop rest st'

def parsePdb (lines : List Str) : PRes PdbS :=
  match pdbLoop lines ⟨[], none, []⟩ with
  | .error k => .error k
  | .ok st => .ok ⟨st.title, st.cell, st.ratoms.reverse⟩

def quantPdbAtom (a : PdbAtom) : PdbAtom :=
  ⟨a.name, a.el, a.pos.map (roundTo 3), roundTo 2 a.occ, roundTo 2 a.b, a.aniso⟩

def quantPdbCell (c : Cell6) : Cell6 :=
  ⟨roundTo 3 c.a, roundTo 3 c.b, roundTo 3 c.c, roundTo 2 c.al, roundTo 2 c.be, roundTo 2 c.ga⟩

def quantPdbTitle (t : Str) : Str := ((titleChunks (t.length + 1) t).map rstrip).flatten

def quantPdb (d : PdbS) : PdbS := ⟨quantPdbTitle d.title, d.cell.map quantPdbCell, d.atoms.map quantPdbAtom⟩

def fitsF (w p : Nat) (x : Rat) : Bool := decide ((fmtFbody p x).length ≤ w)
def fitsI (w : Nat) (n : Int) : Bool := decide ((fmtIbody n).length ≤ w)

def pdbAnisoOk (u : List Int) : Bool :=
  match u with
  | [u0, u1, u2, u3, u4, u5] => fitsI 7 u0 && fitsI 6 u1 && fitsI 6 u2 && fitsI 6 u3 && fitsI 6 u4 && fitsI 6 u5
  | _ => false

/-- an atom that fits the columns: name of 1-4 and element of 1-2 printable characters, `x` in 8
columns, `y`, `z` in 7 (they need the blank that separates them from their left neighbour),
occupancy and B in 6, ANISOU integers in 7 resp. 6 columns -/
def pdbAtomOk (a : PdbAtom) : Bool :=
  elemOk a.name && decide (a.name.length ≤ 4) && elemOk a.el && decide (a.el.length ≤ 2) &&
  fitsF 8 3 a.pos.x && fitsF 7 3 a.pos.y && fitsF 7 3 a.pos.z && fitsF 6 2 a.occ && fitsF 6 2 a.b &&
  (match a.aniso with | none => true | some u => pdbAnisoOk u)

def pdbCellOk (c : Cell6) : Bool :=
  fitsF 8 3 c.a && fitsF 9 3 c.b && fitsF 9 3 c.c && fitsF 7 2 c.al && fitsF 7 2 c.be && fitsF 7 2 c.ga

/-- the range of the PDB format as the writer lays it out (any one-line title) -/
def rangePdb (d : PdbS) : Bool :=
  lineOk d.title && (match d.cell with | none => true | some c => pdbCellOk c) &&
  d.atoms.all pdbAtomOk && decide (d.atoms.length ≤ 9998)

/-- hypothesis of the round-trip theorem: inside the range, and a title of at most 60 characters
(one TITLE record; longer titles are wrapped over continuation records and are exercised by the
correspondence only) -/
def reprPdb (d : PdbS) : Bool :=
  lineOk d.title && decide (d.title.length ≤ 60) && (match d.cell with | none => true | some c => pdbCellOk c) &&
  d.atoms.all pdbAtomOk && decide (d.atoms.length ≤ 9998)

def writeTextPdb (d : PdbS) : Str := toText (writePdb d)
def parseTextPdb (t : Str) : PRes PdbS := parsePdb (ofText t)


/-! ## XCFG (`p_xcfg.py`, AtomEye extended CFG) -/

structure XAtom where
  el : Str
  mass : Rat            -- `AtomicMass.get(element, 0.0)` (table lookup done by the harness)
  xyz : V3              -- fractional coordinates
  occ : Rat
  u : List Rat          -- `numpy.ravel(a.U)`, nine numbers
  v : Option V3         -- `a.v` when the atom has one
  aux : List Rat        -- values of the stored, non-derived auxiliaries, in their order
deriving DecidableEq

structure XcfgS where
  base : List Rat       -- `lattice.base` row-major, nine numbers
  unitCell : Bool       -- `numpy.allclose(lattice.abcABG(), (1, 1, 1, 90, 90, 90))`
  storedAux : List Str  -- `stru.xcfg["auxiliaries"]` (`[]` when absent)
  atoms : List XAtom
deriving DecidableEq

def ratFloor (q : Rat) : Int := q.num / (q.den : Int)
def ratCeil (q : Rat) : Int := -ratFloor (-q)

def listMax (d : Rat) (l : List Rat) : Rat := l.foldl (fun a b => if a < b then b else a) d
def listMin (d : Rat) (l : List Rat) : Rat := l.foldl (fun a b => if b < a then b else a) d
def maxOf (l : List Rat) : Rat := match l with | [] => 0 | a :: as => listMax a as
def minOf (l : List Rat) : Rat := match l with | [] => 0 | a :: as => listMin a as

def coords (k : Nat) (atoms : List XAtom) : List Rat :=
  atoms.map (fun a => match k with | 0 => a.xyz.x | 1 => a.xyz.y | _ => a.xyz.z)

/-- `_is_derived_auxiliary`: names the writer derives from occupancy and displacement parameters -/
def isDerivedAux (p : Str) : Bool :=
  p == "occupancy".toList || p == "Uiso".toList || p == "Biso".toList ||
  (match p with
   | [c, a, b] => (c == 'B' || c == 'U') && (a == '1' || a == '2' || a == '3') && (b == '1' || b == '2' || b == '3')
   | _ => false)

/-- smallest natural `A` with `A² · h2 ≥ 49/4` (`ceil(3.5 / sqrt(h2))`), by search from an under-estimate -/
def ceilRatio (h2 : Rat) : Nat :=
  let q : Rat := (49 / 4 : Rat) / h2
  let s := Nat.sqrt (ratFloor q).toNat
  let rec go (fuel a : Nat) : Nat :=
    match fuel with
    | 0 => a
    | fuel + 1 => if (49 / 4 : Rat) ≤ ((a * a : Nat) : Rat) * h2 then a else go fuel (a + 1)
  go 4 s

structure XLayout where
  a : Nat               -- the length unit `p_A`
  shift : V3            -- `p_dxyz`
  noVel : Bool
  aux : List Str        -- names of all auxiliaries written
  uMode : Nat           -- 0: none, 1: Uiso, 2: U11.. (with flags below)
  u12 : Bool
  u13 : Bool
  u23 : Bool
  occ : Bool

def uIsIso (u : List Rat) : Bool :=
  match u with
  | [a, b, c, d, e, f, g, h, i] => b == 0 && c == 0 && d == 0 && f == 0 && g == 0 && h == 0 && e == a && i == a
  | _ => false

def xcfgLayout (d : XcfgS) : XLayout :=
  let los := [0, 1, 2].map (fun k => minOf (coords k d.atoms))
  let his := [0, 1, 2].map (fun k => maxOf (coords k d.atoms))
  let ranges := (his.zip los).map (fun p => fl (p.1 - p.2))
  let maxRange := if d.unitCell then fl (maxOf ranges + 2) else maxOf ranges
  -- `numpy.ceil(max_range_xyz + 1.0e-13)` with the exact value of the double 1.0e-13
  let a0 : Nat := (ratCeil (fl (maxRange + mkRat 3961408125713217 39614081257132168796771975168))).toNat
  let rows := [d.base.take 3, (d.base.drop 3).take 3, (d.base.drop 6).take 3]
  let h2 := maxOf (rows.map (fun r => (r.map (fun x => x * x)).foldl (· + ·) 0))
  let a : Nat := if h2 * ((a0 * a0 : Nat) : Rat) < 49 / 4 then ceilRatio h2 else a0
  let aq : Rat := (a : Rat)
  let sh := (his.zip los).map (fun p =>
    if fl (p.2 / aq) < 0 ∨ 1 ≤ fl (p.1 / aq) ∨ (p.2 = p.1 ∧ p.2 = 0) then fl ((1 / 2 : Rat) - fl (fl (fl (p.1 + p.2) / 2) / aq)) else 0)
  let noVel := match d.atoms with | a :: _ => a.v.isNone | [] => true
  let stored := d.storedAux.filter (fun n => !isDerivedAux n)
  let anyOcc := d.atoms.any (fun a => a.occ != 1)
  let allZero := d.atoms.all (fun a => a.u.all (· == 0))
  let allIso := d.atoms.all (fun a => uIsIso a.u)
  let u12 := d.atoms.any (fun a => a.u.getD 1 0 != 0)
  let u13 := d.atoms.any (fun a => a.u.getD 2 0 != 0)
  let u23 := d.atoms.any (fun a => a.u.getD 5 0 != 0)
  let uMode := if allZero then 0 else if allIso then 1 else 2
  let uNames : List Str :=
    if uMode = 0 then [] else if uMode = 1 then ["Uiso".toList]
    else ["U11".toList, "U22".toList, "U33".toList] ++ (if u12 then ["U12".toList] else []) ++
         (if u13 then ["U13".toList] else []) ++ (if u23 then ["U23".toList] else [])
  ⟨a, ⟨sh.getD 0 0, sh.getD 1 0, sh.getD 2 0⟩, noVel,
   stored ++ (if anyOcc then ["occupancy".toList] else []) ++ uNames, uMode, u12, u13, u23, anyOcc⟩

def g8 (x : Rat) : Str := fmtG 8 x

/-- `a.xyz / p_A + p_dxyz` in double arithmetic -/
def xcfgPos (L : XLayout) (a : XAtom) : List Rat :=
  let aq : Rat := (L.a : Rat)
  [fl (fl (a.xyz.x / aq) + L.shift.x), fl (fl (a.xyz.y / aq) + L.shift.y), fl (fl (a.xyz.z / aq) + L.shift.z)]

def xcfgEntry (L : XLayout) (a : XAtom) : Str :=
  let pos := xcfgPos L a
  let vel := if L.noVel then [] else match a.v with | some v => [v.x, v.y, v.z] | none => []
  let us : List Rat :=
    if L.uMode = 0 then [] else if L.uMode = 1 then [a.u.getD 0 0]
    else [a.u.getD 0 0, a.u.getD 4 0, a.u.getD 8 0] ++ (if L.u12 then [a.u.getD 1 0] else []) ++
         (if L.u13 then [a.u.getD 2 0] else []) ++ (if L.u23 then [a.u.getD 5 0] else [])
  ssv ((pos ++ vel ++ a.aux ++ (if L.occ then [a.occ] else []) ++ us).map g8)

def xcfgAtomLines (L : XLayout) : Option Str → List XAtom → List Str
  | _, [] => []
  | prev, a :: as =>
    (if prev = some a.el then [] else [fmtF 0 4 a.mass, a.el]) ++ xcfgEntry L a :: xcfgAtomLines L (some a.el) as

def nameI (i : Nat) : Str := natDigits i

/-- `toLines` (defined for at least one atom; the writer refuses an empty structure) -/
def writeXcfg (d : XcfgS) : List Str :=
  let L := xcfgLayout d
  ["Number of particles = ".toList ++ natDigits d.atoms.length,
   "A = ".toList ++ g8 (L.a : Rat) ++ " Angstrom".toList] ++
  ((List.range 9).map (fun k => "H0(".toList ++ nameI (k / 3 + 1) ++ [','] ++ nameI (k % 3 + 1) ++ ") = ".toList ++
      g8 (d.base.getD k 0) ++ " A".toList)) ++
  (if L.noVel then [".NO_VELOCITY.".toList] else []) ++
  ["entry_count = ".toList ++ natDigits ((if L.noVel then 3 else 6) + L.aux.length)] ++
  (L.aux.zipIdx.map (fun p => "auxiliary[".toList ++ natDigits p.2 ++ "] = ".toList ++ p.1 ++ " [au]".toList)) ++
  [[]] ++ xcfgAtomLines L none d.atoms

/-- what the reader reconstructs from one entry line: element, fractional position `A * pos`, and the
named auxiliary values -/
structure XRead where
  el : Str
  xyz : V3
  v : Option V3
  aux : List (Str × Rat)
deriving DecidableEq

structure XcfgRead where
  natoms : Int
  a : Rat
  base : List Rat
  atoms : List XRead
deriving DecidableEq

def isPrefixOf (p s : Str) : Bool := s.take p.length == p

def firstTok (s : Str) : Option Str := (splitWs s).head?

structure XHdr where
  n : Option Int
  a : Option Rat
  h0 : List (Option Rat)      -- nine entries
  noVel : Bool
  entryCount : Option Int
  aux : List (Nat × Str)

/-- `^auxiliary\[(\d+)\] =` -/
def auxMatch (line : Str) : Option (Nat × Str) :=
  let p := "auxiliary[".toList
  if !isPrefixOf p line then none else
  let r := line.drop p.length
  let ds := r.takeWhile isDigit
  let r2 := r.dropWhile isDigit
  if ds.isEmpty || !isPrefixOf "] =".toList r2 then none else some (numOf ds, r2.drop 3)

def digit1 (c : Char) : Option Nat := if isDigit c then some (digitVal c) else none

def xcfgHeader : List Str → XHdr → PRes (XHdr × List Str)
  | [], h => .ok (h, [])
  | line :: rest, h =>
    if (strip line).isEmpty || line.head? == some '#' then xcfgHeader rest h
    else if h.n.isNone then
      if !isPrefixOf "Number of particles =".toList line then .error .sfe else
      match (firstTok (line.drop 21)).bind parseInt with
      | some n => xcfgHeader rest { h with n := some n }
      | none => .error .sfe
    else if isPrefixOf "A =".toList line then
      match (firstTok (line.drop 3)).bind parseDec with
      | some a => xcfgHeader rest { h with a := some a }
      | none => .error .sfe
    else if isPrefixOf "H0(".toList line then
      match (line.drop 3).head?.bind digit1, (line.drop 5).head?.bind digit1, (firstTok (line.drop 10)).bind parseDec with
      | some i, some j, some v =>
        if 1 ≤ i ∧ i ≤ 3 ∧ 1 ≤ j ∧ j ≤ 3 then xcfgHeader rest { h with h0 := h.h0.set ((i - 1) * 3 + (j - 1)) (some v) }
        else .error .unmodelled
      | _, _, _ => .error .sfe
    else if isPrefixOf ".NO_VELOCITY.".toList line then xcfgHeader rest { h with noVel := true }
    else if isPrefixOf "entry_count =".toList line then
      match (firstTok (line.drop 13)).bind parseInt with
      | some n => xcfgHeader rest { h with entryCount := some n }
      | none => .error .sfe
    else match auxMatch line with
      | some (idx, r) =>
        match firstTok r with
        | some nm => xcfgHeader rest { h with aux := (h.aux.filter (fun p => p.1 != idx)) ++ [(idx, nm)] }
        | none => .error .sfe
      | none => .ok (h, rest)      -- `break`: this line is consumed

def xcfgData (a : Rat) (noVel : Bool) (ec : Nat) (names : List Str) : Option Str → List Str → PRes (List XRead)
  | _, [] => .ok []
  | pel, line :: rest =>
    let words := splitWs line
    match words with
    | [w] => if isFloatTok w then xcfgData a noVel ec names pel rest
             else xcfgData a noVel ec names (some (capitalize (strip line))) rest
    | [] => xcfgData a noVel ec names (some []) rest
    | _ =>
      match pel with
      | none => .error .sfe
      | some el =>
        if words.length ≠ ec then .error .sfe else
        match words.mapM parseDec with
        | none => .error .sfe
        | some fs =>
          let xyz : V3 := ⟨a * fs.getD 0 0, a * fs.getD 1 0, a * fs.getD 2 0⟩
          let v := if noVel then none else some (⟨fs.getD 3 0, fs.getD 4 0, fs.getD 5 0⟩ : V3)
          let first := if noVel then 3 else 6
          match xcfgData a noVel ec names pel rest with
          | .ok as => .ok (⟨el, xyz, v, names.zip (fs.drop first)⟩ :: as)
          | .error k => .error k

def parseXcfg (lines : List Str) : PRes XcfgRead :=
  match xcfgHeader (dropTrailingBlank lines) ⟨none, none, List.replicate 9 none, false, none, []⟩ with
  | .error k => .error k
  | .ok (h, rest) =>
    match h.a, h.h0.mapM id, h.n with
    | some a, some base, some n =>
      let auxnum := if h.aux.isEmpty then 0 else (h.aux.map (·.1)).foldl max 0 + 1
      let ecnt : Int := (auxnum : Int) + (if h.noVel then 3 else 6)
      if some ecnt ≠ h.entryCount then .error .sfe else
      let names := (List.range auxnum).map (fun i =>
        match h.aux.find? (fun p => p.1 == i) with
        | some p => p.2
        | none => "aux".toList ++ natDigits i)
      match xcfgData a h.noVel ecnt.toNat names none rest with
      | .error k => .error k
      | .ok atoms => if (atoms.length : Int) ≠ n then .error .sfe else .ok ⟨n, a, base, atoms⟩
    | _, _, _ => .error .sfe

/-- element symbols of XCFG: one token that is not itself a number (it would be taken for a mass) -/
def rangeXcfg (d : XcfgS) : Bool :=
  !d.atoms.isEmpty && d.base.length == 9 && d.atoms.all (fun a => elemOk a.el && !isFloatTok a.el && a.u.length == 9) &&
  d.storedAux.all elemOk &&
  -- reduced coordinates stay below 1 after printing with 8 significant digits (a coordinate that
  -- prints as `1` puts the atom on the box face; the next write recentres the whole structure)
  d.atoms.all (fun a => (xcfgPos (xcfgLayout d) a).all (fun p => decide (roundSig 8 p < 1)))

/-- what the reader makes of the written text, computed from the document -/
def quantXcfg (d : XcfgS) : XcfgRead :=
  let L := xcfgLayout d
  let aq : Rat := roundSig 8 (L.a : Rat)
  let names := L.aux
  ⟨d.atoms.length, aq, d.base.map (roundSig 8),
   d.atoms.map (fun a =>
     let pos := xcfgPos L a
     let vel := if L.noVel then none else a.v.map (fun v => v.map (roundSig 8))
     let us : List Rat :=
       if L.uMode = 0 then [] else if L.uMode = 1 then [a.u.getD 0 0]
       else [a.u.getD 0 0, a.u.getD 4 0, a.u.getD 8 0] ++ (if L.u12 then [a.u.getD 1 0] else []) ++
            (if L.u13 then [a.u.getD 2 0] else []) ++ (if L.u23 then [a.u.getD 5 0] else [])
     ⟨capitalize a.el, ⟨aq * roundSig 8 (pos.getD 0 0), aq * roundSig 8 (pos.getD 1 0), aq * roundSig 8 (pos.getD 2 0)⟩, vel,
      names.zip ((a.aux ++ (if L.occ then [a.occ] else []) ++ us).map (roundSig 8))⟩)⟩

/-- consistency of the document type (not a restriction on structures): every atom carries exactly one
value per stored, non-derived auxiliary, and every atom has a velocity when the first one has.  On a
structure that violates either, `P_xcfg.toLines` raises `AttributeError` (`a.<aux>` / `a.v` missing), so
no text exists; the model's writer is total and would print short entry lines there. -/
def wfXcfg (d : XcfgS) : Bool :=
  d.atoms.all (fun a => a.aux.length == (d.storedAux.filter (fun n => !isDerivedAux n)).length) &&
  ((match d.atoms with | a :: _ => a.v.isNone | [] => true) || d.atoms.all (fun a => a.v.isSome))

/-- hypothesis of the XCFG round-trip theorem: inside the range, and a consistent document -/
def reprXcfg (d : XcfgS) : Bool := rangeXcfg d && wfXcfg d

/-- the full-strength statement for XCFG (proved: `DS.Formats.roundtrip_xcfg`, `DS.Props.C04.roundtrip_xcfg`;
also checked on every generated case by the correspondence) -/
def roundtrip_xcfg_statement : Prop :=
  ∀ d : XcfgS, reprXcfg d = true → parseXcfg (ofText (toText (writeXcfg d))) = .ok (quantXcfg d)


/-! ## CIF (`p_cif.py`): the text `P_cif.toLines` produces, and a reader of exactly that layout

The real reader goes through PyCifRW (an external tokeniser/grammar, not modelled).  `parseCif`
recognises the layout the writer emits — single-line `_tag value` items and the two `loop_`s with
one row per line — and then applies diffpy's glue (`leading_float`, element normalisation, ADP
type, anisotropic loop by label).  The space group of a written file is always P1, whose expansion
only folds the positions into `[0, 1)`; that folding is applied by the harness when comparing. -/

structure CifAtom where
  el : Str
  xyz : V3
  uiso : Rat          -- `a.Uisoequiv`
  occ : Rat
  u : List Rat        -- `numpy.ravel(a.U)`
deriving DecidableEq

structure CifS where
  title : Str
  cell : Cell6
  atoms : List CifAtom
deriving DecidableEq

def tagLine (tag : String) (value : Str) : Str := padRight 31 tag.toList ++ ' ' :: value

/-- site labels `"%s%i" % (element, running count of that element)` -/
def cifLabels : List Str → List Str → List Str
  | _, [] => []
  | seen, e :: es => (e ++ natDigits ((seen.filter (· == e)).length + 1)) :: cifLabels (e :: seen) es

def splitOnNL (s : Str) : List Str := splitLines s

def cifAtomLine (label : Str) (a : CifAtom) : Str :=
  sp 2 ++ ssv [padRight 5 label, padRight 3 a.el, fmtF 11 6 a.xyz.x, fmtF 11 6 a.xyz.y, fmtF 11 6 a.xyz.z,
    fmtF 11 6 a.uiso, padRight 5 (if uIsIso a.u then "Uiso".toList else "Uani".toList), fmtF 0 4 a.occ]

def cifAnisoLine (label : Str) (a : CifAtom) : Str :=
  sp 2 ++ ssv (padRight 5 label :: [0, 4, 8, 1, 2, 5].map (fun k => fmtF 9 6 (a.u.getD k 0)))

/-- `toLines`; the creation date is printed as `DATE` (a wildcard in the comparison) -/
def writeCif (d : CifS) : List Str :=
  let labels := cifLabels [] (d.atoms.map (·.el))
  let la := labels.zip d.atoms
  let ani := la.filter (fun p => !uIsIso p.2.u)
  (if (strip d.title).isEmpty then [] else (splitOnNL d.title).map (fun l => '#' :: ' ' :: strip l) ++ [[]]) ++
  ["data_3D".toList, tagLine "_audit_creation_date" "DATE".toList, tagLine "_audit_creation_method" "P_cif.py".toList, [],
   tagLine "_symmetry_space_group_name_H-M" "'P1'".toList, tagLine "_symmetry_Int_Tables_number" "1".toList,
   tagLine "_symmetry_cell_setting" "triclinic".toList, [],
   tagLine "_cell_length_a" (fmtG 6 d.cell.a), tagLine "_cell_length_b" (fmtG 6 d.cell.b),
   tagLine "_cell_length_c" (fmtG 6 d.cell.c), tagLine "_cell_angle_alpha" (fmtG 6 d.cell.al),
   tagLine "_cell_angle_beta" (fmtG 6 d.cell.be), tagLine "_cell_angle_gamma" (fmtG 6 d.cell.ga), [],
   "loop_".toList, "  _atom_site_label".toList, "  _atom_site_type_symbol".toList, "  _atom_site_fract_x".toList,
   "  _atom_site_fract_y".toList, "  _atom_site_fract_z".toList, "  _atom_site_U_iso_or_equiv".toList,
   "  _atom_site_adp_type".toList, "  _atom_site_occupancy".toList] ++
  la.map (fun p => cifAtomLine p.1 p.2) ++
  (if ani.isEmpty then [] else
    ["loop_".toList, "  _atom_site_aniso_label".toList, "  _atom_site_aniso_U_11".toList, "  _atom_site_aniso_U_22".toList,
     "  _atom_site_aniso_U_33".toList, "  _atom_site_aniso_U_12".toList, "  _atom_site_aniso_U_13".toList,
     "  _atom_site_aniso_U_23".toList] ++ ani.map (fun p => cifAnisoLine p.1 p.2))

structure CifRAtom where
  label : Str
  el : Str
  xyz : V3
  uiso : Rat
  aniso : Bool
  occ : Rat
  u : Option (List Rat)     -- U11 U22 U33 U12 U13 U23 of the anisotropic loop
deriving DecidableEq

structure CifRead where
  cell : Cell6
  atoms : List CifRAtom
deriving DecidableEq

def isTagLine (l : Str) : Bool := (lstrip l).head? == some '_'

/-- rows of a loop: the lines up to the next blank line, `loop_`, tag or comment -/
def loopRows : List Str → List (List Str)
  | [] => []
  | l :: rest =>
    let w := splitWs l
    match w with
    | [] => []
    | w0 :: _ => if w0 == "loop_".toList || w0.head? == some '_' || w0.head? == some '#' then [] else w :: loopRows rest

/-- all loops of the text: (tags, rows) -/
def cifLoops : Nat → List Str → List (List Str × List (List Str))
  | 0, _ => []
  | _, [] => []
  | fuel + 1, l :: rest =>
    if splitWs l == ["loop_".toList] then
      let tagLines := rest.takeWhile isTagLine
      let body := rest.dropWhile isTagLine
      (tagLines.map strip, loopRows body) :: cifLoops fuel body
    else cifLoops fuel rest

def cifItem (lines : List Str) (tag : String) : Option Str :=
  (lines.findSome? (fun l => match splitWs l with
    | [t, v] => if t == tag.toList then some v else none
    | _ => none))

def colOf (tags : List Str) (tag : String) (row : List Str) : Option Str :=
  match tags.idxOf? tag.toList with
  | some i => row[i]?
  | none => none

def parseCif (lines : List Str) : PRes CifRead :=
  let item := cifItem lines
  match (item "_cell_length_a").bind parseDec, (item "_cell_length_b").bind parseDec, (item "_cell_length_c").bind parseDec,
        (item "_cell_angle_alpha").bind parseDec, (item "_cell_angle_beta").bind parseDec, (item "_cell_angle_gamma").bind parseDec with
  | some a, some b, some c, some al, some be, some ga =>
    let loops := cifLoops lines.length lines
    match loops.find? (fun p => p.1.contains "_atom_site_label".toList) with
    | none => .error .sfe
    | some (tags, rows) =>
      let aniso := loops.find? (fun p => p.1.contains "_atom_site_aniso_label".toList)
      let atoms := rows.mapM (fun row =>
        if row.length ≠ tags.length then none else
        match colOf tags "_atom_site_label" row, colOf tags "_atom_site_type_symbol" row,
              (colOf tags "_atom_site_fract_x" row).bind parseDec, (colOf tags "_atom_site_fract_y" row).bind parseDec,
              (colOf tags "_atom_site_fract_z" row).bind parseDec, (colOf tags "_atom_site_U_iso_or_equiv" row).bind parseDec,
              colOf tags "_atom_site_adp_type" row, (colOf tags "_atom_site_occupancy" row).bind parseDec with
        | some lb, some ty, some x, some y, some z, some ui, some adp, some oc =>
          let flag := !(adp == "Uiso".toList || adp == "Biso".toList)
          let urow := match aniso with
            | none => none
            | some (atags, arows) => (arows.find? (fun r => colOf atags "_atom_site_aniso_label" r == some lb)).bind (fun r =>
                ["_atom_site_aniso_U_11", "_atom_site_aniso_U_22", "_atom_site_aniso_U_33", "_atom_site_aniso_U_12",
                 "_atom_site_aniso_U_13", "_atom_site_aniso_U_23"].mapM (fun t => (colOf atags t r).bind parseDec))
          some (⟨lb, capitalize ty, ⟨x, y, z⟩, ui, flag || urow.isSome, oc, urow⟩ : CifRAtom)
        | _, _, _, _, _, _, _, _ => none)
      match atoms with
      | some as => .ok ⟨⟨a, b, c, al, be, ga⟩, as⟩
      | none => .error .sfe
  | _, _, _, _, _, _ => .error .sfe

/-- CIF element symbols as the reader's pattern `(\d+-)?([a-zA-Z]+)(\d[+-])?` keeps them: letters,
optionally followed by one digit and a sign -/
def cifElemOk (e : Str) : Bool :=
  let letters := e.takeWhile (fun c => isUpperA c || isLowerA c)
  let rest := e.dropWhile (fun c => isUpperA c || isLowerA c)
  !letters.isEmpty && (rest.isEmpty || (match rest with | [dg, sg] => isDigit dg && (sg == '+' || sg == '-') | _ => false))

def rangeCif (d : CifS) : Bool := d.atoms.all (fun a => cifElemOk a.el && a.u.length == 9)

/-- CONFIRMED DEFECT carve-out (harness key `cif:empty-structure`): for a structure without atoms
the writer emits the `_atom_site` loop header without rows, which is not valid CIF; the reader
rejects it. -/
def defectCif (d : CifS) : Bool := d.atoms.isEmpty

def reprCif (d : CifS) : Bool := rangeCif d && !defectCif d

def quantCif (d : CifS) : CifRead :=
  let labels := cifLabels [] (d.atoms.map (·.el))
  ⟨d.cell.map (roundSig 6), (labels.zip d.atoms).map (fun p =>
    let a := p.2
    let ani := !uIsIso a.u
    ⟨p.1, capitalize a.el, a.xyz.map (roundTo 6), roundTo 6 a.uiso, ani, roundTo 4 a.occ,
     if ani then some ([0, 4, 8, 1, 2, 5].map (fun k => roundTo 6 (a.u.getD k 0))) else none⟩)⟩

/-- the full-strength statement for CIF on the writer's own layout (proved: `DS.Formats.roundtrip_cif`,
`DS.Props.C04.roundtrip_cif`; also checked on every generated case by the correspondence) -/
def roundtrip_cif_statement : Prop :=
  ∀ d : CifS, reprCif d = true → parseCif (ofText (toText (writeCif d))) = .ok (quantCif d)

/-! ## wire format -/

def showPAtom (a : PAtom) : String :=
  s!"{encodeStr a.el} {showRat a.x} {showRat a.y} {showRat a.z}"

def readPAtoms : List String → Option (List PAtom)
  | [] => some []
  | e :: x :: y :: z :: rest =>
    match decodeStr e, parseRat x, parseRat y, parseRat z, readPAtoms rest with
    | some e, some x, some y, some z, some as => some (⟨e, x, y, z⟩ :: as)
    | _, _, _, _, _ => none
  | _ => none

def showErr : PErr → String
  | .sfe => "StructureFormatError"
  | .notImpl => "NotImplementedError"
  | .unmodelled => "unmodelled"

def showXyz (d : XyzS) : String :=
  s!"ok {encodeStr d.title} {d.atoms.length}" ++ String.join (d.atoms.map (fun a => " " ++ showPAtom a))

def showRawRes (r : PRes (List PAtom)) : String :=
  match r with
  | .error k => showErr k
  | .ok as => s!"ok {as.length}" ++ String.join (as.map (fun a => " " ++ showPAtom a))

def showXyzRes (r : PRes XyzS) : String :=
  match r with
  | .error k => showErr k
  | .ok d => showXyz d

/-- `xyz.write <title> <atoms…>` → text lines · `xyz.quant …` → quantised document ·
`xyz.repr …` → `true|false` · `xyz.parse <line>…` → document read from real text (lines encoded) -/
def xyzHandle (ws : List String) : Option String :=
  match ws with
  | "fmt.xyz.write" :: t :: rest =>
    match decodeStr t, readPAtoms rest with
    | some t, some as => some (encodeLines (writeXyz ⟨t, as⟩))
    | _, _ => some "bad-op"
  | "fmt.xyz.quant" :: t :: rest =>
    match decodeStr t, readPAtoms rest with
    | some t, some as => some (showXyz (quantXyz ⟨t, as⟩))
    | _, _ => some "bad-op"
  | "fmt.xyz.repr" :: t :: rest =>
    match decodeStr t, readPAtoms rest with
    | some t, some as => some s!"repr={reprXyz ⟨t, as⟩} range={rangeXyz ⟨t, as⟩}"
    | _, _ => some "bad-op"
  | "fmt.xyz.trip" :: t :: rest =>
    match decodeStr t, readPAtoms rest with
    | some t, some as => some (showXyzRes (parseTextXyz (writeTextXyz ⟨t, as⟩)))
    | _, _ => some "bad-op"
  | "fmt.xyz.parse" :: rest =>
    match rest.mapM decodeStr with
    | some ls => some (showXyzRes (parseXyz ls))
    | none => some "bad-op"
  | "fmt.rawxyz.write" :: rest =>
    match readPAtoms rest with
    | some as => some (encodeLines (writeRaw as))
    | none => some "bad-op"
  | "fmt.rawxyz.quant" :: rest =>
    match readPAtoms rest with
    | some as => some (showRawRes (.ok (quantRaw as)))
    | none => some "bad-op"
  | "fmt.rawxyz.repr" :: rest =>
    match readPAtoms rest with
    | some as => some s!"repr={reprRaw as} range={reprRaw as}"
    | none => some "bad-op"
  | "fmt.rawxyz.trip" :: rest =>
    match readPAtoms rest with
    | some as => some (showRawRes (parseTextRaw (writeTextRaw as)))
    | none => some "bad-op"
  | "fmt.rawxyz.parse" :: rest =>
    match rest.mapM decodeStr with
    | some ls => some (showRawRes (parseRaw ls))
    | none => some "bad-op"
  | _ => none


/-! ### word-stream reader for the wire format -/

abbrev Rd := StateT (List String) Option

def rdWord : Rd String := do
  match (← get) with
  | w :: ws => set ws; pure w
  | [] => failure

def rdStr : Rd Str := do
  match decodeStr (← rdWord) with
  | some s => pure s
  | none => failure

def rdRat : Rd Rat := do
  match parseRat (← rdWord) with
  | some s => pure s
  | none => failure

def rdNat : Rd Nat := do
  match (← rdWord).toNat? with
  | some s => pure s
  | none => failure

def rdV3 : Rd V3 := do
  let x ← rdRat; let y ← rdRat; let z ← rdRat; pure ⟨x, y, z⟩

def rdCell : Rd Cell6 := do
  let a ← rdRat; let b ← rdRat; let c ← rdRat; let al ← rdRat; let be ← rdRat; let ga ← rdRat
  pure ⟨a, b, c, al, be, ga⟩

def rdN (p : Rd α) : Nat → Rd (List α)
  | 0 => pure []
  | n + 1 => do let a ← p; let as ← rdN p n; pure (a :: as)

def rdAll (p : Rd α) (ws : List String) : Option α :=
  match p.run ws with
  | some (a, []) => some a
  | _ => none

def shV3 (v : V3) : String := s!"{showRat v.x} {showRat v.y} {showRat v.z}"
def shCell (c : Cell6) : String := " ".intercalate (c.toList.map showRat)

def rdDiscus : Rd DiscusS := do
  let title ← rdStr; let spcgr ← rdStr; let spd ← rdRat; let stepcut ← rdRat; let cell ← rdCell
  let n ← rdNat
  let atoms ← rdN (do let e ← rdStr; let p ← rdV3; let b ← rdRat; pure (⟨e, p, b⟩ : DAtom)) n
  pure ⟨title, spcgr, spd, stepcut, cell, atoms⟩

def showDiscus (d : DiscusS) : String :=
  s!"ok {encodeStr d.title} {encodeStr d.spcgr} {showRat d.spd} {showRat d.stepcut} {shCell d.cell} {d.atoms.length}" ++
  String.join (d.atoms.map (fun a => s!" {encodeStr a.el} {shV3 a.pos} {showRat a.b}"))

def rdPdffit : Rd PdffitS := do
  let title ← rdStr; let scale ← rdRat; let d2 ← rdRat; let d1 ← rdRat; let sr ← rdRat; let rc ← rdRat
  let spcgr ← rdStr; let spd ← rdRat; let stepcut ← rdRat; let cell ← rdCell; let dcell ← rdCell
  let n ← rdNat
  let atoms ← rdN (do
    let e ← rdStr; let p ← rdV3; let o ← rdRat; let sp' ← rdV3; let so ← rdRat
    let u ← rdV3; let su ← rdV3; let uj ← rdV3; let suj ← rdV3
    pure (⟨e, p, o, sp', so, u, su, uj, suj⟩ : PFAtom)) n
  pure ⟨title, scale, d2, d1, sr, rc, spcgr, spd, stepcut, cell, dcell, atoms⟩

def showPdffit (d : PdffitS) : String :=
  s!"ok {encodeStr d.title} {showRat d.scale} {showRat d.delta2} {showRat d.delta1} {showRat d.sratio} {showRat d.rcut} " ++
  s!"{encodeStr d.spcgr} {showRat d.spd} {showRat d.stepcut} {shCell d.cell} {shCell d.dcell} {d.atoms.length}" ++
  String.join (d.atoms.map (fun a =>
    s!" {encodeStr a.el} {shV3 a.pos} {showRat a.occ} {shV3 a.sigpos} {showRat a.sigo} {shV3 a.uii} {shV3 a.suii} {shV3 a.uij} {shV3 a.suij}"))

def showRes (sh : α → String) (r : PRes α) : String :=
  match r with
  | .error k => showErr k
  | .ok d => sh d

/-- the five commands of one format: `write`, `quant`, `repr`, `trip` take a document,
`parse` takes encoded lines -/
def formatHandle (name : String) (rd : Rd α) (sh : α → String) (write : α → List Str) (quant : α → α)
    (repr range : α → Bool) (parse : List Str → PRes α) (ws : List String) : Option String :=
  match ws with
  | cmd :: rest =>
    if cmd == s!"fmt.{name}.parse" then
      match rest.mapM decodeStr with
      | some ls => some (showRes sh (parse ls))
      | none => some "bad-op"
    else if cmd == s!"fmt.{name}.write" || cmd == s!"fmt.{name}.quant" || cmd == s!"fmt.{name}.repr"
        || cmd == s!"fmt.{name}.trip" then
      match rdAll rd rest with
      | none => some "bad-op"
      | some d =>
        if cmd == s!"fmt.{name}.write" then some (encodeLines (write d))
        else if cmd == s!"fmt.{name}.quant" then some (sh (quant d))
        else if cmd == s!"fmt.{name}.repr" then some s!"repr={repr d} range={range d}"
        else some (showRes sh (parse (ofText (toText (write d)))))
    else none
  | [] => none


def rdOpt (p : Rd α) : Rd (Option α) := do
  let w ← rdWord
  if w == "some" then (do let a ← p; pure (some a)) else if w == "none" then pure none else failure

def rdInt : Rd Int := do
  match (← rdWord).toInt? with
  | some s => pure s
  | none => failure

def rdPdb : Rd PdbS := do
  let title ← rdStr
  let cell ← rdOpt rdCell
  let n ← rdNat
  let atoms ← rdN (do
    let name ← rdStr; let el ← rdStr; let p ← rdV3; let o ← rdRat; let b ← rdRat
    let u ← rdOpt (rdN rdInt 6)
    pure (⟨name, el, p, o, b, u⟩ : PdbAtom)) n
  pure ⟨title, cell, atoms⟩

def shOpt (sh : α → String) : Option α → String
  | none => "none"
  | some a => "some " ++ sh a

def showPdb (d : PdbS) : String :=
  s!"ok {encodeStr d.title} {shOpt shCell d.cell} {d.atoms.length}" ++
  String.join (d.atoms.map (fun a =>
    s!" {encodeStr a.name} {encodeStr a.el} {shV3 a.pos} {showRat a.occ} {showRat a.b} " ++
    shOpt (fun u => " ".intercalate (u.map toString)) a.aniso))

def pdbHandle := formatHandle "pdb" rdPdb showPdb writePdb quantPdb reprPdb rangePdb parsePdb

def rdBool : Rd Bool := do
  let w ← rdWord
  if w == "true" then pure true else if w == "false" then pure false else failure

def rdXcfg : Rd XcfgS := do
  let base ← rdN rdRat 9
  let unit ← rdBool
  let na ← rdNat
  let names ← rdN rdStr na
  let n ← rdNat
  let atoms ← rdN (do
    let e ← rdStr; let m ← rdRat; let p ← rdV3; let o ← rdRat; let u ← rdN rdRat 9
    let v ← rdOpt rdV3
    let k ← rdNat
    let aux ← rdN rdRat k
    pure (⟨e, m, p, o, u, v, aux⟩ : XAtom)) n
  pure ⟨base, unit, names, atoms⟩

def showXcfgRead (d : XcfgRead) : String :=
  s!"ok {d.natoms} {showRat d.a} " ++ " ".intercalate (d.base.map showRat) ++ s!" {d.atoms.length}" ++
  String.join (d.atoms.map (fun a =>
    s!" {encodeStr a.el} {shV3 a.xyz} {shOpt shV3 a.v} {a.aux.length}" ++
    String.join (a.aux.map (fun p => s!" {encodeStr p.1} {showRat p.2}"))))

/-- XCFG commands (the document read back has its own type) -/
def xcfgHandle (ws : List String) : Option String :=
  match ws with
  | "fmt.xcfg.parse" :: rest =>
    match rest.mapM decodeStr with
    | some ls => some (showRes showXcfgRead (parseXcfg ls))
    | none => some "bad-op"
  | cmd :: rest =>
    if cmd == "fmt.xcfg.write" || cmd == "fmt.xcfg.quant" || cmd == "fmt.xcfg.repr" || cmd == "fmt.xcfg.trip" then
      match rdAll rdXcfg rest with
      | none => some "bad-op"
      | some d =>
        if cmd == "fmt.xcfg.write" then some (encodeLines (writeXcfg d))
        else if cmd == "fmt.xcfg.quant" then some (showXcfgRead (quantXcfg d))
        else if cmd == "fmt.xcfg.repr" then some s!"repr={reprXcfg d} range={rangeXcfg d}"
        else some (showRes showXcfgRead (parseXcfg (ofText (toText (writeXcfg d)))))
    else none
  | [] => none

def rdCif : Rd CifS := do
  let title ← rdStr
  let cell ← rdCell
  let n ← rdNat
  let atoms ← rdN (do
    let e ← rdStr; let p ← rdV3; let ui ← rdRat; let o ← rdRat; let u ← rdN rdRat 9
    pure (⟨e, p, ui, o, u⟩ : CifAtom)) n
  pure ⟨title, cell, atoms⟩

def showCifRead (d : CifRead) : String :=
  s!"ok {shCell d.cell} {d.atoms.length}" ++
  String.join (d.atoms.map (fun a =>
    s!" {encodeStr a.label} {encodeStr a.el} {shV3 a.xyz} {showRat a.uiso} {a.aniso} {showRat a.occ} " ++
    shOpt (fun u => " ".intercalate (u.map showRat)) a.u))

def cifHandle (ws : List String) : Option String :=
  match ws with
  | "fmt.cif.parse" :: rest =>
    match rest.mapM decodeStr with
    | some ls => some (showRes showCifRead (parseCif ls))
    | none => some "bad-op"
  | cmd :: rest =>
    if cmd == "fmt.cif.write" || cmd == "fmt.cif.quant" || cmd == "fmt.cif.repr" || cmd == "fmt.cif.trip" then
      match rdAll rdCif rest with
      | none => some "bad-op"
      | some d =>
        if cmd == "fmt.cif.write" then some (encodeLines (writeCif d))
        else if cmd == "fmt.cif.quant" then some (showCifRead (quantCif d))
        else if cmd == "fmt.cif.repr" then some s!"repr={reprCif d} range={rangeCif d}"
        else some (showRes showCifRead (parseCif (ofText (toText (writeCif d)))))
    else none
  | [] => none

def discusHandle := formatHandle "discus" rdDiscus showDiscus writeDiscus quantDiscus reprDiscus rangeDiscus parseDiscus
def pdffitHandle := formatHandle "pdffit" rdPdffit showPdffit writePdffit quantPdffit reprPdffit rangePdffit parsePdffit

end DS.Formats

namespace DS
/-- driver handler of C04: the text layer (`fmt.f`, `fmt.g`, …) and the per-format models -/
def fmtHandle (ws : List String) : Option String :=
  [DS.Dec.decHandle, DS.Formats.xyzHandle, DS.Formats.discusHandle, DS.Formats.pdffitHandle, DS.Formats.pdbHandle, DS.Formats.xcfgHandle, DS.Formats.cifHandle].findSome? (fun h => h ws)
end DS
