import DS.Model.Dec
/-!
# Per-format record models (M4) — see below; driver handler `fmtHandle` at the end.
-/
namespace DS.Formats
open DS.Dec

end DS.Formats

namespace DS
/-- driver handler of C04: the text layer (`fmt.f`, `fmt.g`, …) and the per-format models -/
def fmtHandle (ws : List String) : Option String :=
  DS.Dec.decHandle ws
end DS
