/-!
# M3 — object-graph model of `diffpy.structure.Structure` (property C08)

A `World` is a heap of atoms (id ↦ payload, lattice ref) and of structures (handle ↦ list of atom
ids, lattice ref, liveness).  `step` mirrors, for every public container operation of
`structure.py` and every argument form, what the *current* code does: which atoms are copied,
which are shared, to which atoms a lattice reference is written, what CPython's `list` does with
the index/slice, and which exception kind escapes (possibly *after* side effects).

The model is layered so that the same planning function serves the implementation model and the
plain-list specification:

* `planG` (generic in the element type `α`): resolves the arguments of an `Op` against a `View α`
  (what a Python caller sees: the member lists and the pool of free atoms) into an `Act α` — the
  incoming elements, the copy decisions (`flags`), and a list `Edit` (CPython `list` semantics).
* `World.exec` executes an `Act Nat` on the heap (allocation of copies, lattice writes, list edit).
* `ListSpec.exec` executes the same `Act Nat` on plain payload lists (no identity, no lattice).

No Mathlib import (linked into the driver).
-/
namespace DS.World

/-! ## Syntax of operations -/

inductive Err | index | value | type | bad
  deriving DecidableEq, Repr, Inhabited

def Err.name : Err → String
  | .index => "IndexError" | .value => "ValueError" | .type => "TypeError" | .bad => "bad-op"

/-- the `copy=` argument: default, `True`, `False` -/
inductive CopyFlag | dflt | yes | no
  deriving DecidableEq, Repr

/-- an `Atom` object given as argument: the `k`-th free-standing atom made by `mkAtom`, or the member
`stru_h[i]` (Python integer index, may be negative) -/
inductive ARef
  | pool (k : Nat)
  | mem (h : Nat) (i : Int)
  deriving DecidableEq, Repr

/-- an iterable of atoms given as argument -/
inductive Iter
  | list (xs : List ARef)      -- a Python list
  | gen (xs : List ARef)       -- a generator yielding these atoms
  | stru (h : Nat)             -- the Structure `h` itself (may be the target)
  | tolist (h : Nat)           -- `h.tolist()`: a plain list of the members
  | genOf (h : Nat)            -- `(a for a in h)`
  deriving DecidableEq, Repr

structure Slice where
  start : Option Int
  stop : Option Int
  step : Option Int
  deriving DecidableEq, Repr

inductive Key | int (i : Int) | label (p : Nat)
  deriving DecidableEq, Repr

inductive Index
  | int (i : Int)
  | slice (s : Slice)
  | arr (is : List Int)        -- numpy integer array / list of ints
  | mask (bs : List Bool)      -- boolean mask
  | label (p : Nat)            -- string label (labels are derived from payloads)
  | tuple (ks : List Key)      -- Python tuple of ints and labels
  | keys (ks : List Key)       -- Python list of ints and labels
  deriving DecidableEq, Repr

inductive LatSrc | fresh | ofStru (h : Nat)
  deriving DecidableEq, Repr

inductive Op
  | mkAtom (p : Nat)                                   -- a = Atom(...) with payload p, lattice None
  | mkStru                                             -- Structure() / PDFFitStructure()
  | addNew (h : Nat) (p : Nat)                         -- h.addNewAtom(...)
  | append (h : Nat) (a : ARef) (c : CopyFlag)
  | insert (h : Nat) (i : Int) (a : ARef) (c : CopyFlag)
  | extend (h : Nat) (it : Iter) (c : CopyFlag)
  | getitem (h : Nat) (ix : Index)
  | setitem (h : Nat) (i : Int) (a : ARef) (c : Bool)
  | setslice (h : Nat) (s : Slice) (it : Iter) (c : Bool)
  | delitem (h : Nat) (i : Int)
  | delslice (h : Nat) (s : Slice)
  | add (h : Nat) (it : Iter)
  | iadd (h : Nat) (it : Iter)
  | sub (h : Nat) (it : Iter)
  | isub (h : Nat) (it : Iter)
  | mul (h : Nat) (n : Int)
  | imul (h : Nat) (n : Int)
  | copy (h : Nat)                                     -- h.copy(), copy.copy(h), Structure(h), PDFFitStructure(h)
  | pickle (h : Nat) (proto : Nat)                     -- pickle.loads(pickle.dumps(h, proto))
  | deepcopy (h : Nat)
  | setLat (h : Nat) (src : LatSrc)                    -- h.lattice = Lattice() / h.lattice = h'.lattice
  | pop (h : Nat) (i : Option Int)
  | remove (h : Nat) (a : ARef)
  | reverse (h : Nat)
  | sort (h : Nat)                                     -- h.sort(key=payload)
  | clear (h : Nat)
  | drop (h : Nat)                                     -- the caller forgets the structure (`del name`)
  /-- the constructor with arguments: `Structure(atoms, lattice=L)` / `PDFFitStructure(...)` / `title=`;
  `atoms` absent, a Structure (copy construction) or any other iterable; `lattice` absent, a new
  `Lattice` object or the lattice object of a live structure -/
  | ctor (src : Option Iter) (lat : Option LatSrc)
  deriving DecidableEq, Repr

/-! ## CPython `list` index / slice arithmetic (polymorphic, shared by model and specification) -/

/-- integer index → position (`None` = IndexError) -/
def normIdx (len : Nat) (i : Int) : Option Nat :=
  if i < 0 then (if 0 ≤ i + len then some (i + len).toNat else none)
  else if i < len then some i.toNat else none

def clampIdx (n lower upper x : Int) : Int :=
  if x < 0 then max (x + n) lower else min x upper

/-- `PySlice_Unpack` + `PySlice_AdjustIndices`: (start, stop, step) -/
def sliceAdjust (len : Nat) (sl : Slice) : Except Err (Int × Int × Int) :=
  let step := sl.step.getD 1
  if step = 0 then .error .value else
  let n : Int := len
  let lower : Int := if step < 0 then -1 else 0
  let upper : Int := if step < 0 then n - 1 else n
  let start := match sl.start with
    | none => if step < 0 then upper else lower
    | some s => clampIdx n lower upper s
  let stop := match sl.stop with
    | none => if step < 0 then lower else upper
    | some s => clampIdx n lower upper s
  .ok (start, stop, step)

def sliceLen (start stop step : Int) : Nat :=
  if step > 0 then (if start < stop then ((stop - start - 1) / step + 1).toNat else 0)
  else (if stop < start then ((start - stop - 1) / (-step) + 1).toNat else 0)

def sliceIdx (a : Int × Int × Int) : List Nat :=
  (List.range (sliceLen a.1 a.2.1 a.2.2)).map (fun (k : Nat) => (a.1 + (k : Int) * a.2.2).toNat)

def pick {α} (l : List α) (idxs : List Nat) : List α := idxs.filterMap (fun i => l[i]?)

def dropIdx {α} (idxs : List Nat) : List α → Nat → List α
  | [], _ => []
  | a :: l, k => if k ∈ idxs then dropIdx idxs l (k + 1) else a :: dropIdx idxs l (k + 1)

def setMany {α} : List α → List Nat → List α → List α
  | l, i :: is, y :: ys => setMany (l.set i y) is ys
  | l, _, _ => l

/-- `list.insert` position (`ins1`) -/
def insPos (len : Nat) (i : Int) : Nat :=
  if i < 0 then (if 0 ≤ i + len then (i + len).toNat else 0) else (if i ≤ len then i.toNat else len)

def rep {α} (n : Nat) (l : List α) : List α :=
  match n with
  | 0 => []
  | n + 1 => l ++ rep n l

def trueIdx : List Bool → Nat → List Nat
  | [], _ => []
  | b :: bs, k => if b then k :: trueIdx bs (k + 1) else trueIdx bs (k + 1)

def insertByKey (keys : List Nat) (i : Nat) : List Nat → List Nat
  | [] => [i]
  | j :: r => if keys.getD i 0 < keys.getD j 0 then i :: j :: r else j :: insertByKey keys i r

/-- stable sort permutation of the positions by key -/
def sortIdx (keys : List Nat) : List Nat :=
  (List.range keys.length).foldl (fun acc i => insertByKey keys i acc) []

def mapE {β γ} (f : β → Except Err γ) : List β → Except Err (List γ)
  | [] => .ok []
  | b :: bs =>
    match f b with
    | .error e => .error e
    | .ok a =>
      match mapE f bs with
      | .error e => .error e
      | .ok as => .ok (a :: as)

/-- the in-place list edits of CPython's `list`, polymorphic in the element type -/
inductive Edit
  | append                   -- old ++ ys
  | insert (i : Int)         -- list.insert(i, y)
  | setInt (i : Int)         -- old[i] = y
  | setSlice (sl : Slice)    -- old[sl] = ys
  | replace                  -- old[:] = ys
  | delInt (i : Int)         -- del old[i]
  | delSlice (sl : Slice)    -- del old[sl]
  | pop (i : Option Int)
  | delAt (k : Nat)          -- list.remove, position already found
  | reverse
  | permute (idxs : List Nat)
  | clear
  deriving DecidableEq, Repr

def Edit.apply {α} : Edit → List α → List α → Except Err (List α × Option α)
  | .append, old, ys => .ok (old ++ ys, none)
  | .insert i, old, ys => .ok (old.take (insPos old.length i) ++ ys ++ old.drop (insPos old.length i), none)
  | .setInt i, old, ys =>
    match normIdx old.length i, ys with
    | some k, [y] => .ok (old.set k y, none)
    | none, _ => .error .index
    | _, _ => .error .bad
  | .setSlice sl, old, ys =>
    match sliceAdjust old.length sl with
    | .error e => .error e
    | .ok a =>
      if a.2.2 = 1 then
        .ok (old.take a.1.toNat ++ ys ++ old.drop (max a.2.1 a.1).toNat, none)
      else if (sliceIdx a).length ≠ ys.length then .error .value
      else .ok (setMany old (sliceIdx a) ys, none)
  | .replace, _, ys => .ok (ys, none)
  | .delInt i, old, _ =>
    match normIdx old.length i with
    | some k => .ok (old.eraseIdx k, none)
    | none => .error .index
  | .delSlice sl, old, _ =>
    match sliceAdjust old.length sl with
    | .error e => .error e
    | .ok a => .ok (dropIdx (sliceIdx a) old 0, none)
  | .pop i, old, _ =>
    match normIdx old.length (i.getD (-1)) with
    | some k => .ok (old.eraseIdx k, old[k]?)
    | none => .error .index
  | .delAt k, old, _ => .ok (old.eraseIdx k, none)
  | .reverse, old, _ => .ok (old.reverse, none)
  | .permute idxs, old, _ => .ok (pick old idxs, none)
  | .clear, _, _ => .ok ([], none)

/-! ## Planning: argument resolution and copy decisions, generic in the element type -/

/-- what a Python caller sees of the state: the member list of each live structure, the pool of
free-standing atoms, and the label of an element -/
structure View (α : Type) where
  strus : List (Option (List α))
  pool : List α
  lab : α → Nat

inductive Tgt | old (h : Nat) | new (lat : LatSrc)
  deriving DecidableEq, Repr

structure Plan (α : Type) where
  tgt : Tgt
  /-- lattice of structure `h` is written to these atoms first (the intermediate selection of `-`) -/
  pre : Option (Nat × List α)
  inc : List α
  flags : List Bool
  edit : Edit

inductive Act (α : Type)
  | plan (p : Plan α)
  | retAtom (a : α) (h : Nat)
  | mkAtom (p : Nat)
  | addNew (h : Nat) (p : Nat)
  | setLat (h : Nat) (src : LatSrc)
  | drop (h : Nat)
  | copyShape (h : Nat) (xs : List α)      -- pickle protocol 0/1: copies that keep the identity pattern

namespace View
variable {α : Type}

def atoms (v : View α) (h : Nat) : Except Err (List α) :=
  match v.strus[h]? with
  | some (some l) => .ok l
  | _ => .error .bad

def aref (v : View α) : ARef → Except Err α
  | .pool k => match v.pool[k]? with
    | some a => .ok a
    | none => .error .bad
  | .mem h i =>
    match v.atoms h with
    | .error e => .error e
    | .ok l =>
      match normIdx l.length i with
      | none => .error .index
      | some k => match l[k]? with
        | some a => .ok a
        | none => .error .index

/-- the atoms an iterable yields, and whether the iterable is a `Structure` instance -/
def iter (v : View α) : Iter → Except Err (List α × Bool)
  | .list xs => match mapE v.aref xs with
    | .ok l => .ok (l, false)
    | .error e => .error e
  | .gen xs => match mapE v.aref xs with
    | .ok l => .ok (l, false)
    | .error e => .error e
  | .stru h => match v.atoms h with
    | .ok l => .ok (l, true)
    | .error e => .error e
  | .tolist h => match v.atoms h with
    | .ok l => .ok (l, false)
    | .error e => .error e
  | .genOf h => match v.atoms h with
    | .ok l => .ok (l, false)
    | .error e => .error e

end View

/-- `extend(copy=None)` of a non-Structure: copy an atom iff it is already a member or was yielded before -/
def memoFlags {α} [DecidableEq α] (seen : List α) : List α → List Bool
  | [] => []
  | a :: r => decide (a ∈ seen) :: memoFlags (a :: seen) r

/-- positions carrying label `p` → the unique one, else IndexError -/
def findLabel {α} (lab : α → Nat) (l : List α) (p : Nat) : Except Err Nat :=
  match (trueIdx (l.map (fun a => lab a == p)) 0) with
  | [k] => .ok k
  | _ => .error .index

def resolveKey {α} (lab : α → Nat) (l : List α) : Key → Except Err Int
  | .int i => .ok i
  | .label p => match findLabel lab l p with
    | .ok k => .ok (k : Int)
    | .error e => .error e

def normIdxE (len : Nat) (i : Int) : Except Err Nat :=
  match normIdx len i with
  | some k => .ok k
  | none => .error .index

def selPlan {α} (h : Nat) (xs : List α) : Act α :=
  .plan { tgt := .new (.ofStru h), pre := none, inc := xs, flags := xs.map (fun _ => false), edit := .replace }

def allTrue {α} (xs : List α) : List Bool := xs.map (fun _ => true)
def allFalse {α} (xs : List α) : List Bool := xs.map (fun _ => false)

def planIndex {α} (v : View α) (h : Nat) (old : List α) : Index → Except Err (Act α)
  | .int i => match normIdx old.length i with
    | some k => match old[k]? with
      | some a => .ok (.retAtom a h)
      | none => .error .index
    | none => .error .index
  | .slice sl => match sliceAdjust old.length sl with
    | .error e => .error e
    | .ok a => .ok (selPlan h (pick old (sliceIdx a)))
  | .arr is => match mapE (normIdxE old.length) is with
    | .error e => .error e
    | .ok idxs => .ok (selPlan h (pick old idxs))
  -- numpy accepts an empty boolean index on an axis of any size (it selects nothing)
  | .mask bs => if bs.length ≠ old.length ∧ bs ≠ [] then .error .index else .ok (selPlan h (pick old (trueIdx bs 0)))
  | .label p => match findLabel v.lab old p with
    | .error e => .error e
    | .ok k => match old[k]? with
      | some a => .ok (.retAtom a h)
      | none => .error .index
  | .tuple ks =>
    if ks = [] then .error .value else
    match mapE (resolveKey v.lab old) ks with
    | .error e => .error e
    | .ok is => match mapE (normIdxE old.length) is with
      | .error e => .error e
      | .ok idxs => .ok (selPlan h (pick old idxs))
  | .keys ks =>
    match mapE (resolveKey v.lab old) ks with
    | .error e => .error e
    | .ok is => match mapE (normIdxE old.length) is with
      | .error e => .error e
      | .ok idxs => .ok (selPlan h (pick old idxs))

def copyFlags {α} [DecidableEq α] (c : CopyFlag) (isStru : Bool) (old xs : List α) : List Bool :=
  match c with
  | .yes => allTrue xs
  | .no => allFalse xs
  | .dflt => if isStru then allTrue xs else memoFlags old xs

def idxOfE {α} [DecidableEq α] (x : α) : List α → Nat → Except Err Nat
  | [], _ => .error .value
  | a :: l, k => if a = x then .ok k else idxOfE x l (k + 1)

/-- the `lattice=` argument of the constructor: absent means a new `Lattice()` -/
def checkLat {α} (v : View α) : Option LatSrc → Except Err LatSrc
  | none => .ok .fresh
  | some .fresh => .ok .fresh
  | some (.ofStru h') => match v.atoms h' with
    | .error e => .error e
    | .ok _ => .ok (.ofStru h')

/-- the plan of an operation.  Errors raised here happen before any side effect. -/
def planG {α} [DecidableEq α] (v : View α) : Op → Except Err (Act α)
  | .mkAtom p => .ok (.mkAtom p)
  | .mkStru => .ok (.plan { tgt := .new .fresh, pre := none, inc := [], flags := [], edit := .replace })
  | .addNew h p => match v.atoms h with
    | .error e => .error e
    | .ok _ => .ok (.addNew h p)
  | .append h a c => match v.atoms h with
    | .error e => .error e
    | .ok _ => match v.aref a with
      | .error e => .error e
      | .ok x => .ok (.plan { tgt := .old h, pre := none, inc := [x], flags := [decide (c ≠ .no)], edit := .append })
  | .insert h i a c => match v.atoms h with
    | .error e => .error e
    | .ok _ => match v.aref a with
      | .error e => .error e
      | .ok x => .ok (.plan { tgt := .old h, pre := none, inc := [x], flags := [decide (c ≠ .no)], edit := .insert i })
  | .extend h it c => match v.atoms h with
    | .error e => .error e
    | .ok old => match v.iter it with
      | .error e => .error e
      | .ok (xs, isS) =>
        .ok (.plan { tgt := .old h, pre := none, inc := xs, flags := copyFlags c isS old xs, edit := .append })
  | .getitem h ix => match v.atoms h with
    | .error e => .error e
    | .ok old => planIndex v h old ix
  | .setitem h i a c => match v.atoms h with
    | .error e => .error e
    | .ok _ => match v.aref a with
      | .error e => .error e
      | .ok x => .ok (.plan { tgt := .old h, pre := none, inc := [x], flags := [c], edit := .setInt i })
  | .setslice h sl it c => match v.atoms h with
    | .error e => .error e
    | .ok old => match v.iter it with
      | .error e => .error e
      | .ok (xs, _) => match sliceAdjust old.length sl with
        | .error e => .error e
        | .ok a =>
          let keep := pick old (sliceIdx a)
          .ok (.plan { tgt := .old h, pre := none, inc := xs,
                       flags := if c then xs.map (fun x => decide (x ∉ keep)) else allFalse xs,
                       edit := .setSlice sl })
  | .delitem h i => match v.atoms h with
    | .error e => .error e
    | .ok _ => .ok (.plan { tgt := .old h, pre := none, inc := [], flags := [], edit := .delInt i })
  | .delslice h sl => match v.atoms h with
    | .error e => .error e
    | .ok _ => .ok (.plan { tgt := .old h, pre := none, inc := [], flags := [], edit := .delSlice sl })
  | .add h it => match v.atoms h with
    | .error e => .error e
    | .ok old => match v.iter it with
      | .error e => .error e
      | .ok (xs, _) =>
        .ok (.plan { tgt := .new .fresh, pre := none, inc := old ++ xs, flags := allTrue (old ++ xs), edit := .replace })
  | .iadd h it => match v.atoms h with
    | .error e => .error e
    | .ok _ => match v.iter it with
      | .error e => .error e
      | .ok (xs, _) => .ok (.plan { tgt := .old h, pre := none, inc := xs, flags := allTrue xs, edit := .append })
  | .sub h it => match v.atoms h with
    | .error e => .error e
    | .ok old => match v.iter it with
      | .error e => .error e
      | .ok (xs, _) =>
        let kept := old.filter (fun a => decide (a ∉ xs))
        .ok (.plan { tgt := .new .fresh, pre := some (h, kept), inc := kept, flags := allTrue kept, edit := .replace })
  | .isub h it => match v.atoms h with
    | .error e => .error e
    | .ok old => match v.iter it with
      | .error e => .error e
      | .ok (xs, _) =>
        let kept := old.filter (fun a => decide (a ∉ xs))
        .ok (.plan { tgt := .old h, pre := none, inc := kept, flags := allFalse kept, edit := .replace })
  | .mul h n => match v.atoms h with
    | .error e => .error e
    | .ok old =>
      .ok (.plan { tgt := .new .fresh, pre := some (h, []), inc := rep n.toNat old, flags := allTrue (rep n.toNat old), edit := .replace })
  | .imul h n => match v.atoms h with
    | .error e => .error e
    | .ok old =>
      if n ≤ 0 then .ok (.plan { tgt := .old h, pre := none, inc := [], flags := [], edit := .replace })
      else .ok (.plan { tgt := .old h, pre := none, inc := rep (n - 1).toNat old, flags := allTrue (rep (n - 1).toNat old), edit := .append })
  | .copy h => match v.atoms h with
    | .error e => .error e
    | .ok old => .ok (.plan { tgt := .new .fresh, pre := none, inc := old, flags := allTrue old, edit := .replace })
  | .pickle h proto => match v.atoms h with
    | .error e => .error e
    | .ok old =>
      if 2 ≤ proto then .ok (.plan { tgt := .new .fresh, pre := none, inc := old, flags := allTrue old, edit := .replace })
      else .ok (.copyShape h old)
  | .deepcopy h => match v.atoms h with
    | .error e => .error e
    | .ok old => .ok (.plan { tgt := .new .fresh, pre := none, inc := old, flags := allTrue old, edit := .replace })
  | .setLat h src => match v.atoms h with
    | .error e => .error e
    | .ok _ => match src with
      | .fresh => .ok (.setLat h src)
      | .ofStru h' => match v.atoms h' with
        | .error e => .error e
        | .ok _ => .ok (.setLat h src)
  | .pop h i => match v.atoms h with
    | .error e => .error e
    | .ok _ => .ok (.plan { tgt := .old h, pre := none, inc := [], flags := [], edit := .pop i })
  | .remove h a => match v.atoms h with
    | .error e => .error e
    | .ok old => match v.aref a with
      | .error e => .error e
      | .ok x => match idxOfE x old 0 with
        | .error e => .error e
        | .ok k => .ok (.plan { tgt := .old h, pre := none, inc := [], flags := [], edit := .delAt k })
  | .reverse h => match v.atoms h with
    | .error e => .error e
    | .ok _ => .ok (.plan { tgt := .old h, pre := none, inc := [], flags := [], edit := .reverse })
  | .sort h => match v.atoms h with
    | .error e => .error e
    | .ok old => .ok (.plan { tgt := .old h, pre := none, inc := [], flags := [], edit := .permute (sortIdx (old.map v.lab)) })
  | .clear h => match v.atoms h with
    | .error e => .error e
    | .ok _ => .ok (.plan { tgt := .old h, pre := none, inc := [], flags := [], edit := .clear })
  | .drop h => match v.atoms h with
    | .error e => .error e
    | .ok _ => .ok (.drop h)
  -- `__init__`: copy construction (`__copy__`: all atoms copied) or `extend(atoms)` with the default
  -- flag on the empty new structure; the `lattice` argument goes through the property setter, so in
  -- the end every atom of the new structure refers to the structure's lattice
  | .ctor src lat => match src with
    | none => match checkLat v lat with
      | .error e => .error e
      | .ok L => .ok (.plan { tgt := .new L, pre := none, inc := [], flags := [], edit := .replace })
    | some it => match v.iter it with
      | .error e => .error e
      | .ok (xs, isS) => match checkLat v lat with
        | .error e => .error e
        | .ok L => .ok (.plan { tgt := .new L, pre := none, inc := xs, flags := copyFlags .dflt isS [] xs, edit := .replace })

/-! ## The heap -/

structure Stru where
  atoms : List Nat
  lat : Nat
  live : Bool
  deriving DecidableEq, Repr

structure World where
  pay : Nat → Nat          -- payload of atom id
  alat : Nat → Nat         -- lattice id the atom refers to (0 = None)
  nextA : Nat              -- next fresh atom id
  nextL : Nat              -- next fresh lattice id (≥ 1)
  pool : List Nat          -- free-standing atoms the caller holds
  strus : List Stru        -- handle ↦ structure

inductive Res | none | atom (a : Nat) (h : Nat) | stru (h : Nat)
  deriving DecidableEq, Repr

def updAt {α} : List α → Nat → (α → α) → List α
  | [], _, _ => []
  | a :: l, 0, f => f a :: l
  | a :: l, k + 1, f => a :: updAt l k f

namespace World

def empty : World := ⟨fun _ => 0, fun _ => 0, 0, 1, [], []⟩

def view (w : World) : View Nat :=
  ⟨w.strus.map (fun s => if s.live then some s.atoms else none), w.pool, w.pay⟩

def latOf (w : World) (h : Nat) : Nat := match w.strus[h]? with
  | some s => s.lat
  | none => 0

def atomsOf (w : World) (h : Nat) : List Nat := match w.strus[h]? with
  | some s => if s.live then s.atoms else []
  | none => []

def setAtoms (w : World) (h : Nat) (l : List Nat) : World :=
  { w with strus := updAt w.strus h (fun s => { s with atoms := l }) }

def setLats (w : World) (ys : List Nat) (L : Nat) : World :=
  { w with alat := fun i => if i ∈ ys then L else w.alat i }

def allocAtom (w : World) (p L : Nat) : World :=
  { w with pay := fun i => if i = w.nextA then p else w.pay i,
           alat := fun i => if i = w.nextA then L else w.alat i,
           nextA := w.nextA + 1 }

/-- materialise the incoming atoms: flagged ones are replaced by fresh copies (`Atom(a)` /
`copy.copy(a)`: same payload, same lattice reference), the others are taken as they are -/
def copySome (w : World) : List Nat → List Bool → World × List Nat
  | [], _ => (w, [])
  | a :: r, true :: fr =>
    let c := copySome (w.allocAtom (w.pay a) (w.alat a)) r fr
    (c.1, w.nextA :: c.2)
  | a :: r, _ :: fr =>
    let c := copySome w r fr
    (c.1, a :: c.2)
  | a :: r, [] =>
    let c := copySome w r []
    (c.1, a :: c.2)

def pushStru (w : World) (L : Nat) : World := { w with strus := w.strus ++ [⟨[], L, true⟩] }

def newLat (w : World) : World := { w with nextL := w.nextL + 1 }

def dedup : List Nat → List Nat → List Nat
  | [], _ => []
  | a :: r, seen => if a ∈ seen then dedup r seen else a :: dedup r (a :: seen)

/-- pre-writes done (`pre`), the target structure present (pushed if new), the incoming atoms
materialised and linked to the target's lattice: (world, target handle, materialised atoms) -/
def prep (w : World) (p : Plan Nat) : World × Nat × List Nat :=
  let w0 := match p.pre with
    | some (h, xs) => w.setLats xs (w.latOf h)
    | none => w
  let w1 := match p.tgt with
    | .old _ => w0
    | .new .fresh => (w0.pushStru w0.nextL).newLat
    | .new (.ofStru h') => w0.pushStru (w0.latOf h')
  let h := match p.tgt with
    | .old h => h
    | .new _ => w0.strus.length
  let c := copySome w1 p.inc p.flags
  (c.1.setLats c.2 (w1.latOf h), h, c.2)

def execPlan (w : World) (p : Plan Nat) : World × Except Err Res :=
  let q := w.prep p
  match p.edit.apply (q.1.atomsOf q.2.1) q.2.2 with
  | .ok (new, ret) =>
    (q.1.setAtoms q.2.1 new,
     .ok (match p.tgt, ret with
          | .new _, _ => .stru q.2.1
          | .old _, some a => .atom a q.2.1
          | .old _, none => .none))
  | .error e => (q.1, .error e)

def exec (w : World) : Act Nat → World × Except Err Res
  | .plan p => w.execPlan p
  | .retAtom a h => (w, .ok (.atom a h))
  | .mkAtom p => ({ (w.allocAtom p 0) with pool := w.pool ++ [w.nextA] }, .ok .none)
  | .addNew h p =>
    ((w.allocAtom p (w.latOf h)).setAtoms h (w.atomsOf h ++ [w.nextA]), .ok .none)
  | .setLat h src =>
    let L := match src with
      | .fresh => w.nextL
      | .ofStru h' => w.latOf h'
    let w1 := match src with
      | .fresh => w.newLat
      | .ofStru _ => w
    ({ (w1.setLats (w.atomsOf h) L) with strus := updAt w1.strus h (fun s => { s with lat := L }) }, .ok .none)
  | .drop h => ({ w with strus := updAt w.strus h (fun s => { s with live := false }) }, .ok .none)
  | .copyShape _ xs =>
    let ds := dedup xs []
    let w1 := (w.pushStru w.nextL).newLat
    let c := copySome w1 ds (allTrue ds)
    let ys := xs.filterMap (fun x => c.2[ds.idxOf x]?)
    let w2 := c.1.setLats ys w.nextL
    (w2.setAtoms w.strus.length ys, .ok (.stru w.strus.length))

/-- one operation: the new world (side effects survive an exception) and the outcome -/
def stepFull (w : World) (op : Op) : World × Except Err Res :=
  match planG w.view op with
  | .error e => (w, .error e)
  | .ok act => w.exec act

/-- the `Except` form: an exception discards the (possibly modified) world -/
def step (w : World) (op : Op) : Except Err (World × Res) :=
  match stepFull w op with
  | (w', .ok r) => .ok (w', r)
  | (_, .error e) => .error e

def run (w : World) : List Op → World
  | [] => w
  | op :: ops => run (stepFull w op).1 ops

end World

/-! ## The plain-list specification -/

structure SpecState where
  pool : List Nat
  lists : List (Option (List Nat))
  deriving DecidableEq, Repr

inductive SRes | none | val (p : Nat) | list (h : Nat)
  deriving DecidableEq, Repr

namespace ListSpec

def view (s : SpecState) : View Nat := ⟨s.lists, s.pool, id⟩

def listOf (s : SpecState) (h : Nat) : List Nat := match s.lists[h]? with
  | some (some l) => l
  | _ => []

def setList (s : SpecState) (h : Nat) (l : List Nat) : SpecState :=
  { s with lists := updAt s.lists h (Option.map (fun _ => l)) }

def dropList (s : SpecState) (h : Nat) : SpecState :=
  { s with lists := updAt s.lists h (fun _ => none) }

def exec (s : SpecState) : Act Nat → SpecState × Except Err SRes
  | .plan p =>
    let s1 : SpecState := match p.tgt with
      | .old _ => s
      | .new _ => { s with lists := s.lists ++ [some []] }
    let h := match p.tgt with
      | .old h => h
      | .new _ => s.lists.length
    match p.edit.apply (listOf s1 h) p.inc with
    | .ok (new, ret) =>
      (setList s1 h new,
       .ok (match p.tgt, ret with
            | .new _, _ => .list h
            | .old _, some a => .val a
            | .old _, none => .none))
    | .error e => (s1, .error e)
  | .retAtom a _ => (s, .ok (.val a))
  | .mkAtom p => ({ s with pool := s.pool ++ [p] }, .ok .none)
  | .addNew h p => (setList s h (listOf s h ++ [p]), .ok .none)
  | .setLat _ _ => (s, .ok .none)
  | .drop h => (dropList s h, .ok .none)
  | .copyShape _ xs => ({ s with lists := s.lists ++ [some xs] }, .ok (.list s.lists.length))

/-- one operation on plain lists of payloads: `lst.append(x)`, `lst[sl] = xs`, `lst + xs`, … -/
def stepFull (s : SpecState) (op : Op) : SpecState × Except Err SRes :=
  match planG (view s) op with
  | .error e => (s, .error e)
  | .ok act => exec s act

def run (s : SpecState) : List Op → SpecState
  | [] => s
  | op :: ops => run (stepFull s op).1 ops

end ListSpec

/-- abstraction: every live structure ↦ its list of payloads -/
def World.abs (w : World) : SpecState :=
  ⟨w.pool.map w.pay, w.strus.map (fun s => if s.live then some (s.atoms.map w.pay) else none)⟩

/-! ## Line protocol (`world.*`) -/

section Parse

abbrev P (α : Type) := List String → Option (α × List String)

def pInt : P Int
  | w :: r => (w.toInt?).map (fun i => (i, r))
  | [] => none

def pNat : P Nat
  | w :: r => (w.toNat?).map (fun i => (i, r))
  | [] => none

def pOptInt : P (Option Int)
  | "_" :: r => some (none, r)
  | w :: r => (w.toInt?).map (fun i => (some i, r))
  | [] => none

def pMany {α} (p : P α) : Nat → P (List α)
  | 0, ws => some ([], ws)
  | n + 1, ws => match p ws with
    | none => none
    | some (a, r) => match pMany p n r with
      | none => none
      | some (as, r') => some (a :: as, r')

def pCounted {α} (p : P α) : P (List α) := fun ws =>
  match pNat ws with
  | some (n, r) => pMany p n r
  | none => none

def pARef : P ARef
  | "P" :: r => (pNat r).map (fun (k, r') => (.pool k, r'))
  | "M" :: r => match pNat r with
    | some (h, r') => (pInt r').map (fun (i, r'') => (.mem h i, r''))
    | none => none
  | _ => none

def pIter : P Iter
  | "L" :: r => (pCounted pARef r).map (fun (xs, r') => (.list xs, r'))
  | "G" :: r => (pCounted pARef r).map (fun (xs, r') => (.gen xs, r'))
  | "S" :: r => (pNat r).map (fun (h, r') => (.stru h, r'))
  | "T" :: r => (pNat r).map (fun (h, r') => (.tolist h, r'))
  | "GS" :: r => (pNat r).map (fun (h, r') => (.genOf h, r'))
  | _ => none

def pSlice : P Slice := fun ws =>
  match pOptInt ws with
  | some (a, r) => match pOptInt r with
    | some (b, r') => (pOptInt r').map (fun (c, r'') => (⟨a, b, c⟩, r''))
    | none => none
  | none => none

def pKey : P Key
  | "I" :: r => (pInt r).map (fun (i, r') => (.int i, r'))
  | "B" :: r => (pNat r).map (fun (p, r') => (.label p, r'))
  | _ => none

def pBool : P Bool
  | "1" :: r => some (true, r)
  | "0" :: r => some (false, r)
  | _ => none

def pIndex : P Index
  | "i" :: r => (pInt r).map (fun (i, r') => (.int i, r'))
  | "s" :: r => (pSlice r).map (fun (s, r') => (.slice s, r'))
  | "a" :: r => (pCounted pInt r).map (fun (xs, r') => (.arr xs, r'))
  | "m" :: r => (pCounted pBool r).map (fun (xs, r') => (.mask xs, r'))
  | "l" :: r => (pNat r).map (fun (p, r') => (.label p, r'))
  | "t" :: r => (pCounted pKey r).map (fun (xs, r') => (.tuple xs, r'))
  | "k" :: r => (pCounted pKey r).map (fun (xs, r') => (.keys xs, r'))
  | _ => none

def pCopy : P CopyFlag
  | "d" :: r => some (.dflt, r)
  | "y" :: r => some (.yes, r)
  | "n" :: r => some (.no, r)
  | _ => none

def pLatSrc : P LatSrc
  | "new" :: r => some (.fresh, r)
  | "of" :: r => (pNat r).map (fun (h, r') => (.ofStru h, r'))
  | _ => none

def pOptLat : P (Option LatSrc)
  | "_" :: r => some (none, r)
  | r => (pLatSrc r).map (fun (l, r') => (some l, r'))

def pOp : P Op
  | "mkatom" :: r => (pNat r).map (fun (p, r') => (.mkAtom p, r'))
  | "mkstru" :: r => some (.mkStru, r)
  | "addnew" :: r => do
    let (h, r) ← pNat r; let (p, r) ← pNat r; pure (.addNew h p, r)
  | "append" :: r => do
    let (h, r) ← pNat r; let (a, r) ← pARef r; let (c, r) ← pCopy r; pure (.append h a c, r)
  | "insert" :: r => do
    let (h, r) ← pNat r; let (i, r) ← pInt r; let (a, r) ← pARef r; let (c, r) ← pCopy r; pure (.insert h i a c, r)
  | "extend" :: r => do
    let (h, r) ← pNat r; let (it, r) ← pIter r; let (c, r) ← pCopy r; pure (.extend h it c, r)
  | "get" :: r => do
    let (h, r) ← pNat r; let (ix, r) ← pIndex r; pure (.getitem h ix, r)
  | "set" :: r => do
    let (h, r) ← pNat r; let (i, r) ← pInt r; let (a, r) ← pARef r; let (c, r) ← pBool r; pure (.setitem h i a c, r)
  | "setsl" :: r => do
    let (h, r) ← pNat r; let (s, r) ← pSlice r; let (it, r) ← pIter r; let (c, r) ← pBool r; pure (.setslice h s it c, r)
  | "del" :: r => do
    let (h, r) ← pNat r; let (i, r) ← pInt r; pure (.delitem h i, r)
  | "delsl" :: r => do
    let (h, r) ← pNat r; let (s, r) ← pSlice r; pure (.delslice h s, r)
  | "add" :: r => do
    let (h, r) ← pNat r; let (it, r) ← pIter r; pure (.add h it, r)
  | "iadd" :: r => do
    let (h, r) ← pNat r; let (it, r) ← pIter r; pure (.iadd h it, r)
  | "sub" :: r => do
    let (h, r) ← pNat r; let (it, r) ← pIter r; pure (.sub h it, r)
  | "isub" :: r => do
    let (h, r) ← pNat r; let (it, r) ← pIter r; pure (.isub h it, r)
  | "mul" :: r => do
    let (h, r) ← pNat r; let (n, r) ← pInt r; pure (.mul h n, r)
  | "imul" :: r => do
    let (h, r) ← pNat r; let (n, r) ← pInt r; pure (.imul h n, r)
  | "copy" :: r => do
    let (h, r) ← pNat r; pure (.copy h, r)
  | "pickle" :: r => do
    let (h, r) ← pNat r; let (n, r) ← pNat r; pure (.pickle h n, r)
  | "deepcopy" :: r => do
    let (h, r) ← pNat r; pure (.deepcopy h, r)
  | "setlat" :: r => do
    let (h, r) ← pNat r; let (s, r) ← pLatSrc r; pure (.setLat h s, r)
  | "pop" :: r => do
    let (h, r) ← pNat r; let (i, r) ← pOptInt r; pure (.pop h i, r)
  | "remove" :: r => do
    let (h, r) ← pNat r; let (a, r) ← pARef r; pure (.remove h a, r)
  | "reverse" :: r => do
    let (h, r) ← pNat r; pure (.reverse h, r)
  | "sort" :: r => do
    let (h, r) ← pNat r; pure (.sort h, r)
  | "clear" :: r => do
    let (h, r) ← pNat r; pure (.clear h, r)
  | "drop" :: r => do
    let (h, r) ← pNat r; pure (.drop h, r)
  | "ctor" :: "N" :: r => do
    let (l, r) ← pOptLat r; pure (.ctor none l, r)
  | "ctor" :: r => do
    let (it, r) ← pIter r; let (l, r) ← pOptLat r; pure (.ctor (some it) l, r)
  | _ => none

/-- ops separated by ";" -/
def pOps : Nat → List String → Option (List Op)
  | _, [] => some []
  | 0, _ => none
  | fuel + 1, ws =>
    match pOp ws with
    | some (op, ";" :: r) => (pOps fuel r).map (op :: ·)
    | some (op, []) => some [op]
    | _ => none

end Parse

section Show

def joinWith (sep : String) (xs : List String) : String := sep.intercalate xs

/-- first-occurrence numbering -/
def numberIn (seen : List Nat) (x : Nat) : List Nat × Nat :=
  match seen.idxOf? x with
  | some k => (seen, k)
  | none => (seen ++ [x], seen.length)

def numberAll (seen : List Nat) : List Nat → List Nat × List Nat
  | [] => (seen, [])
  | x :: r =>
    let (s1, k) := numberIn seen x
    let (s2, ks) := numberAll s1 r
    (s2, k :: ks)

/-- canonical observation of the world: per live structure `h:payloads:identity pattern:lattice flags:lattice number` -/
def World.observe (w : World) : String :=
  let rec go (ss : List Stru) (h : Nat) (seenA seenL : List Nat) : List String :=
    match ss with
    | [] => []
    | s :: r =>
      if s.live then
        let (sa, ks) := numberAll seenA s.atoms
        let (sl, kl) := numberIn seenL s.lat
        let pays := joinWith "," (s.atoms.map (fun a => toString (w.pay a)))
        let ids := joinWith "," (ks.map toString)
        let oks := joinWith "," (s.atoms.map (fun a => if w.alat a = s.lat then "1" else "0"))
        s!"{h}:{pays}:{ids}:{oks}:{kl}" :: go r (h + 1) sa sl
      else go r (h + 1) seenA seenL
  joinWith " " (go w.strus 0 [] [])

def showOutcome (w : World) : Except Err Res → String
  | .error e => e.name
  | .ok .none => "ok"
  | .ok (.atom a h) => s!"atom:{w.pay a}:{if w.alat a = w.latOf h then 1 else 0}"
  | .ok (.stru h) => s!"stru:{h}"

def showSOutcome : Except Err SRes → String
  | .error e => e.name
  | .ok .none => "ok"
  | .ok (.val p) => s!"atom:{p}"
  | .ok (.list h) => s!"stru:{h}"

def SpecState.observe (s : SpecState) : String :=
  let rec go (ls : List (Option (List Nat))) (h : Nat) : List String :=
    match ls with
    | [] => []
    | some l :: r => s!"{h}:{joinWith "," (l.map toString)}" :: go r (h + 1)
    | none :: r => go r (h + 1)
  joinWith " " (go s.lists 0)

def runObserve (w : World) : List Op → List String
  | [] => []
  | op :: ops =>
    let r := w.stepFull op
    s!"{showOutcome r.1 r.2} {r.1.observe}" :: runObserve r.1 ops

def specObserve (s : SpecState) : List Op → List String
  | [] => []
  | op :: ops =>
    let r := ListSpec.stepFull s op
    s!"{showSOutcome r.2} {r.1.observe}" :: specObserve r.1 ops

end Show

/-- `world.hist op ; op ; …`  → observations after every step, separated by " | ";
`world.spec op ; op ; …` → the same history on the plain-list specification -/
def worldHandle (ws : List String) : Option String :=
  match ws with
  | "world.hist" :: rest =>
    match pOps (rest.length + 1) rest with
    | some ops => some (joinWith " | " (runObserve World.empty ops))
    | none => some "bad-op"
  | "world.spec" :: rest =>
    match pOps (rest.length + 1) rest with
    | some ops => some (joinWith " | " (specObserve ⟨[], []⟩ ops))
    | none => some "bad-op"
  | _ => none

end DS.World
