/-!
# Exact decimal text layer (M4): `printf`-style formatting and `float()` parsing on exact rationals

Text is `List Char` (`Str`) so that every function is structurally recursive and the theorems of
`DS.Lemmas.Dec` / `DS.Props.C04` are about plain lists.  Numbers are core `Rat` (the harness ships
a double as the exact fraction `Fraction(x).as_integer_ratio()`).

Mirrors of CPython:

* `fmtF w p x`  = `"%w.pf" % x`   (correctly rounded, ties to even on the exact value, `-` kept when
                                   a negative value rounds to zero, width = minimum width)
* `fmtG P x`    = `"%.Pg" % x`    (`P ≥ 1`; exponent `X` of the value rounded to `P` significant
                                   digits; fixed notation iff `-4 ≤ X < P`; trailing zeros removed)
* `fmtI w n`    = `"%wi" % n`
* `parseDec s`  = `float(s)` on the decimal literals `[+-]digits[.digits][e[+-]digits]`, `.5`, `5.`
* `splitWs`     = `str.split()`, `strip/lstrip/rstrip` = `str.strip()` …, `slice i j s` = `s[i:j]`
-/
namespace DS.Dec

abbrev Str := List Char

/-! ## characters -/

/-- Python's `str.isspace` on one character: the set `str.split()` / `str.strip()` use. -/
def isWs (c : Char) : Bool :=
  let n := c.toNat
  (9 ≤ n && n ≤ 13) || (28 ≤ n && n ≤ 32) || n == 0x85 || n == 0xa0 || n == 0x1680 ||
  (0x2000 ≤ n && n ≤ 0x200a) || n == 0x2028 || n == 0x2029 || n == 0x202f || n == 0x205f || n == 0x3000

def isDigit (c : Char) : Bool := 48 ≤ c.toNat && c.toNat ≤ 57

def digitChar (d : Nat) : Char := Char.ofNat (48 + d % 10)

def digitVal (c : Char) : Nat := c.toNat - 48

/-! ## naturals ↔ digit lists -/

/-- decimal digits, most significant first; `"0"` for zero -/
def natDigits (n : Nat) : Str :=
  if n < 10 then [digitChar n] else natDigits (n / 10) ++ [digitChar n]
termination_by n
decreasing_by omega

/-- exactly `k` digits of `n mod 10^k`, zero padded on the left -/
def fixDigits : Nat → Nat → Str
  | 0, _ => []
  | k + 1, n => fixDigits k (n / 10) ++ [digitChar n]

/-- value of a digit list (no check) -/
def numOf (ds : Str) : Nat := ds.foldl (fun a c => a * 10 + digitVal c) 0

def allDigits (ds : Str) : Bool := ds.all isDigit

/-! ## rounding -/

/-- round-half-even of `n / d` (`d > 0`) -/
def rhe (n d : Nat) : Nat :=
  let q := n / d
  let r := n % d
  if 2 * r < d then q else if d < 2 * r then q + 1 else if q % 2 = 0 then q else q + 1

/-- `|x| · 10^p` rounded half-even, as a natural -/
def scaledAbs (p : Nat) (x : Rat) : Nat := rhe (x.num.natAbs * 10 ^ p) x.den

/-- `x` rounded to `p` decimals (half-even): what `"%.pf"` prints, as a number -/
def roundTo (p : Nat) (x : Rat) : Rat :=
  let m : Int := scaledAbs p x
  (if x < 0 then -m else m : Int) / ((10 ^ p : Nat) : Rat)

/-! ## padding -/

def padLeft (w : Nat) (s : Str) : Str := List.replicate (w - s.length) ' ' ++ s
def padRight (w : Nat) (s : Str) : Str := s ++ List.replicate (w - s.length) ' '

/-! ## `%w.pf`, `%wi` -/

def signStr (neg : Bool) : Str := if neg then ['-'] else []

/-- digits of a scaled magnitude `m = |x|·10^p`: integer part, `.`, `p` fraction digits -/
def fixedBody (p : Nat) (m : Nat) : Str :=
  natDigits (m / 10 ^ p) ++ (if p = 0 then [] else '.' :: fixDigits p m)

def fmtFbody (p : Nat) (x : Rat) : Str :=
  signStr (decide (x < 0)) ++ fixedBody p (scaledAbs p x)

def fmtF (w p : Nat) (x : Rat) : Str := padLeft w (fmtFbody p x)

def fmtIbody (n : Int) : Str := signStr (decide (n < 0)) ++ natDigits n.natAbs

def fmtI (w : Nat) (n : Int) : Str := padLeft w (fmtIbody n)

/-! ## `%.Pg` -/

/-- number of decimal digits of `n` (`1` for `0`) -/
def numDigits (n : Nat) : Nat := (natDigits n).length

/-- `n / d` compared with `10^e`:  `10^e ≤ n/d` -/
def geTenPow (n d : Nat) (e : Int) : Bool :=
  if 0 ≤ e then d * 10 ^ e.toNat ≤ n else d ≤ n * 10 ^ (-e).toNat

/-- decimal exponent of `n/d > 0`: the `X` with `10^X ≤ n/d < 10^(X+1)` -/
def sciExp (n d : Nat) : Int :=
  let g : Int := (numDigits n : Int) - (numDigits d : Int)
  if geTenPow n d g then g else g - 1

/-- `n/d / 10^e` rounded half-even -/
def rheShift (n d : Nat) (e : Int) : Nat :=
  if 0 ≤ e then rhe n (d * 10 ^ e.toNat) else rhe (n * 10 ^ (-e).toNat) d

/-- scientific decomposition of `n/d > 0` to `P ≥ 1` significant digits: `(X, m)` with
`10^(P-1) ≤ m < 10^P` and `n/d ≈ m · 10^(X-P+1)` -/
def sci (P : Nat) (n d : Nat) : Int × Nat :=
  let X := sciExp n d
  let m := rheShift n d (X - (P : Int) + 1)
  if m = 10 ^ P then (X + 1, 10 ^ (P - 1)) else (X, m)

def stripZeros (ds : Str) : Str := (ds.reverse.dropWhile (· == '0')).reverse

/-- `.` followed by the fraction digits without trailing zeros; nothing if none remain -/
def fracPart (ds : Str) : Str :=
  let f := stripZeros ds
  if f.isEmpty then [] else '.' :: f

def expStr (X : Int) : Str :=
  'e' :: (if X < 0 then '-' else '+') :: (if X.natAbs < 10 then '0' :: natDigits X.natAbs else natDigits X.natAbs)

/-- body of `%.Pg` for a positive magnitude `m · 10^(X-P+1)` (`10^(P-1) ≤ m < 10^P`):
fixed notation with `P-1-X` decimals iff `-4 ≤ X < P`, else `d.ddd…e±XX`; trailing zeros removed -/
def gBody (P : Nat) (X : Int) (m : Nat) : Str :=
  if -4 ≤ X ∧ X < (P : Int) then
    let k := ((P : Int) - 1 - X).toNat
    natDigits (m / 10 ^ k) ++ fracPart (fixDigits k m)
  else natDigits (m / 10 ^ (P - 1)) ++ fracPart (fixDigits (P - 1) m) ++ expStr X

def fmtGbody (P : Nat) (x : Rat) : Str :=
  if x = 0 then ['0'] else
  let r := sci P x.num.natAbs x.den
  signStr (decide (x < 0)) ++ gBody P r.1 r.2

def fmtG (P : Nat) (x : Rat) : Str := fmtGbody (if P = 0 then 1 else P) x

/-- `v · 10^e` -/
def scale10 (v : Rat) (e : Int) : Rat :=
  if 0 ≤ e then v * ((10 ^ e.toNat : Nat) : Rat) else v / ((10 ^ (-e).toNat : Nat) : Rat)

/-- the number `%.Pg` prints: `x` rounded to `P` significant digits -/
def roundSigP (P : Nat) (x : Rat) : Rat :=
  if x = 0 then 0 else
  let r := sci P x.num.natAbs x.den
  let v : Rat := scale10 (r.2 : Rat) (r.1 - (P : Int) + 1)
  if x < 0 then -v else v

def roundSig (P : Nat) (x : Rat) : Rat := roundSigP (if P = 0 then 1 else P) x

/-! ## `float()` on decimal literals -/

def parseDigitsInt (neg : Bool) (r : Str) : Option Int :=
  if r.isEmpty || !allDigits r then none else some (if neg then -(numOf r : Int) else numOf r)

/-- `[+-]?digits+` → integer -/
def parseInt (s : Str) : Option Int :=
  match s with
  | '-' :: r => parseDigitsInt true r
  | '+' :: r => parseDigitsInt false r
  | _ => parseDigitsInt false s

/-- value of `ip.fp × 10^e` -/
def decValue (neg : Bool) (ip fp : Str) (e : Int) : Rat :=
  let m : Nat := numOf ip * 10 ^ fp.length + numOf fp
  let v : Rat := (m : Rat) / ((10 ^ fp.length : Nat) : Rat)
  let v : Rat := scale10 v e
  if neg then -v else v

/-- optional exponent part -/
def parseExp (neg : Bool) (ip fp : Str) (s3 : Str) : Option Rat :=
  match s3 with
  | [] => some (decValue neg ip fp 0)
  | c :: r => if c == 'e' || c == 'E' then (parseInt r).map (decValue neg ip fp) else none

/-- optional fraction part; at least one digit before or after the point -/
def parseFrac (neg : Bool) (ip : Str) (s2 : Str) : Option Rat :=
  match s2 with
  | '.' :: r =>
    let fp := r.takeWhile isDigit
    if ip.isEmpty && fp.isEmpty then none else parseExp neg ip fp (r.dropWhile isDigit)
  | _ => if ip.isEmpty then none else parseExp neg ip [] s2

def parseUnsigned (neg : Bool) (s1 : Str) : Option Rat :=
  parseFrac neg (s1.takeWhile isDigit) (s1.dropWhile isDigit)

/-- `float(s)` for a decimal literal without surrounding blanks; `none` = `ValueError`
(also for `inf`/`nan`, which never denote a representable value here). -/
def parseDec (s : Str) : Option Rat :=
  match s with
  | '-' :: r => parseUnsigned true r
  | '+' :: r => parseUnsigned false r
  | _ => parseUnsigned false s


/-! ## IEEE-754 double rounding of an exact value (normal range; round to nearest, ties to even)

Used where a writer *computes* with doubles before printing (XCFG: `xyz / A + shift`): the model
applies `fl` after every arithmetic operation, so that its tokens agree with CPython/numpy even
for values that sit on a printing tie. -/

def fl (q : Rat) : Rat :=
  if q = 0 then 0 else
  let n := q.num.natAbs
  let d := q.den
  let g : Int := (Nat.log2 n : Int) - (Nat.log2 d : Int)
  -- e = floor(log2(n/d)) ∈ {g-1, g}
  let ge : Bool := if 0 ≤ g then d * 2 ^ g.toNat ≤ n else d ≤ n * 2 ^ (-g).toNat
  let e : Int := if ge then g else g - 1
  let s : Int := e - 52            -- the ulp is 2^s
  let m : Nat := if 0 ≤ s then rhe n (d * 2 ^ s.toNat) else rhe (n * 2 ^ (-s).toNat) d
  let v : Rat := if 0 ≤ s then ((m * 2 ^ s.toNat : Nat) : Rat) else (m : Rat) / ((2 ^ (-s).toNat : Nat) : Rat)
  if q < 0 then -v else v

/-! ## blanks: strip, split, slices -/

def lstrip (s : Str) : Str := s.dropWhile isWs
def rstrip (s : Str) : Str := (s.reverse.dropWhile isWs).reverse
def strip (s : Str) : Str := rstrip (lstrip s)

/-- `float(s)` of Python: surrounding blanks are ignored -/
def pyFloat (s : Str) : Option Rat := parseDec (strip s)

/-- `str.split()`: maximal blank-free runs -/
def splitAux : Str → Str → List Str
  | [], acc => if acc.isEmpty then [] else [acc.reverse]
  | c :: cs, acc =>
    if isWs c then (if acc.isEmpty then splitAux cs [] else acc.reverse :: splitAux cs [])
    else splitAux cs (c :: acc)

def splitWs (s : Str) : List Str := splitAux s []

/-- `s[i:j]` for `0 ≤ i ≤ j` -/
def slice (i j : Nat) (s : Str) : Str := (s.drop i).take (j - i)

/-- `s.replace(",", " ")` -/
def commasToBlanks (s : Str) : Str := s.map (fun c => if c == ',' then ' ' else c)

def isUpperA (c : Char) : Bool := 65 ≤ c.toNat && c.toNat ≤ 90
def isLowerA (c : Char) : Bool := 97 ≤ c.toNat && c.toNat ≤ 122
def toUpperA (c : Char) : Char := if isLowerA c then Char.ofNat (c.toNat - 32) else c
def toLowerA (c : Char) : Char := if isUpperA c then Char.ofNat (c.toNat + 32) else c
def upper (s : Str) : Str := s.map toUpperA
def lower (s : Str) : Str := s.map toLowerA

/-- `e[:1].upper() + e[1:].lower()` (ASCII) -/
def capitalize : Str → Str
  | [] => []
  | c :: cs => toUpperA c :: lower cs

/-- printable ASCII without blank: `!`…`~` -/
def isGraphA (c : Char) : Bool := 33 ≤ c.toNat && c.toNat ≤ 126

/-! ## lines ↔ text (`StructureParser.tostring` / `StructureParser.parse`) -/

def joinLines : List Str → Str
  | [] => []
  | [l] => l
  | l :: ls => l ++ '\n' :: joinLines ls

/-- `"\n".join(lines) + "\n"` -/
def toText (ls : List Str) : Str := joinLines ls ++ ['\n']

/-- `s.split("\n")` -/
def splitLinesAux : Str → Str → List Str
  | [], acc => [acc.reverse]
  | c :: cs, acc => if c == '\n' then acc.reverse :: splitLinesAux cs [] else splitLinesAux cs (c :: acc)

def splitLines (s : Str) : List Str := splitLinesAux s []

/-- `s.rstrip("\r\n")` -/
def rstripNL (s : Str) : Str := (s.reverse.dropWhile (fun c => c == '\n' || c == '\r')).reverse

/-- `StructureParser.parse`: the lines handed to `parseLines` -/
def ofText (s : Str) : List Str := splitLines (rstripNL s)

/-! ## wire format of the driver (strings travel as code points) -/

def encodeStr (s : Str) : String :=
  if s.isEmpty then "-" else ",".intercalate (s.map (fun c => toString c.toNat))

def decodeStr (w : String) : Option Str :=
  if w == "-" then some [] else (w.splitOn ",").mapM (fun t => t.toNat?.map Char.ofNat)

def parseRat (w : String) : Option Rat :=
  match w.splitOn "/" with
  | [a] => a.toInt?.map (fun n => (n : Rat))
  | [a, b] => match a.toInt?, b.toNat? with
    | some n, some d => if d = 0 then none else some (mkRat n d)
    | _, _ => none
  | _ => none

def showRat (x : Rat) : String := s!"{x.num}/{x.den}"

def encodeLines (ls : List Str) : String := " ".intercalate (ls.map encodeStr)

/-- driver commands of the text layer:
`fmt.f w p x` · `fmt.g P x` · `fmt.i w n` · `fmt.parse <str>` · `fmt.split <str>` -/
def decHandle (ws : List String) : Option String :=
  match ws with
  | ["fmt.f", w, p, x] =>
    match w.toNat?, p.toNat?, parseRat x with
    | some w, some p, some x => some (encodeStr (fmtF w p x) ++ " " ++ showRat (roundTo p x))
    | _, _, _ => some "bad-op"
  | ["fmt.g", p, x] =>
    match p.toNat?, parseRat x with
    | some p, some x => some (encodeStr (fmtG p x) ++ " " ++ showRat (roundSig p x))
    | _, _ => some "bad-op"
  | ["fmt.i", w, n] =>
    match w.toNat?, n.toInt? with
    | some w, some n => some (encodeStr (fmtI w n))
    | _, _ => some "bad-op"
  | ["fmt.fl", x] =>
    match parseRat x with
    | some x => some (showRat (fl x))
    | none => some "bad-op"
  | ["fmt.parse", s] =>
    match decodeStr s with
    | some s => some (match pyFloat s with | some v => showRat v | none => "ValueError")
    | none => some "bad-op"
  | ["fmt.split", s] =>
    match decodeStr s with
    | some s => some (encodeLines (splitWs s))
    | none => some "bad-op"
  | _ => none

end DS.Dec
