import DS.Model.Lin
/-!
M2 — the displacement-parameter (ADP) state machine of `diffpy.structure.atom.Atom`
and `Structure.placeInLattice` (no Mathlib import; scalar-generic).

What is mirrored, line by line, from `/repo/src/diffpy/structure/atom.py`:

* storage `_U` (3×3), flag `_anisotropy`, reference `lattice` (possibly `None`);
  the *dual meaning* of the storage: with the flag off only `_U[0,0]` is meaningful and
  is the isotropic value, the eight other entries are stale;
* `anisotropy` setter (both conversions), `U` getter (which **rewrites the storage** when the flag
  is off), `U` setter, `_get_Uij`, `_set_Uij`, `Uisoequiv` getter (three branches: flag off /
  `lattice is None` / six-term formula) and setter (three branches: flag off / `|uequiv| < ε` /
  rescale), `Bij`, `Bisoequiv` through `_BtoU = 1/(8π²)` and `_UtoB = 1/_BtoU`,
  `msdLat`, `msdCart`;
* `Structure.placeInLattice` (structure.py): `Tx = base₁·recbase₂`, `Tu = normbase₁·recnormbase₂`,
  `xyz ↦ xyz·Tx`, and only for atoms whose flag is set `U ↦ Tuᵀ·(U·Tu)`; then every atom's
  lattice reference is replaced.

A lattice is represented by the record `LatData` of exactly those attributes of a
`diffpy.structure.lattice.Lattice` object that the code above reads.  `LatOK` collects, as
explicit hypotheses, the relations between these attributes that a genuine lattice satisfies
(`setLatPar` lines 354–374); the correspondence harness builds `LatData` values from the real
object's attributes and checks `LatOK` numerically on them.
-/
namespace DS

/-- constants of `atom.py` / `lattice.py` that are not field operations -/
class AdpConst (α : Type) where
  /-- `numpy.pi` -/
  pi : α
  /-- `Lattice._epsilon` (1.0e-8) -/
  eps : α

instance : AdpConst Float where
  pi := 3.141592653589793
  eps := 1.0e-8

/-- row / column index of a 3×3 array -/
inductive Ix where
  | i0 | i1 | i2
deriving DecidableEq, Repr, Inhabited

/-- the attributes of a `Lattice` object read by `atom.py` and `placeInLattice` -/
structure LatData (α : Type) where
  a : α
  b : α
  c : α
  ca : α
  cb : α
  cg : α
  ar : α
  br : α
  cr : α
  base : Mat3 α
  recbase : Mat3 α
  normbase : Mat3 α
  recnormbase : Mat3 α
  isotropicunit : Mat3 α
  metrics : Mat3 α
deriving Repr, Inhabited

/-- state of one atom as far as positions and displacement parameters are concerned -/
structure AtomS (α : Type) where
  xyz : Vec3 α
  /-- `_U` -/
  U : Mat3 α
  /-- `_anisotropy` -/
  aniso : Bool
  /-- `lattice` (`none` = Python `None`) -/
  lat : Option (LatData α)
deriving Repr, Inhabited

section
variable {α : Type}

namespace Mat3
def get (m : Mat3 α) : Ix → Ix → α
  | .i0, .i0 => m.a11 | .i0, .i1 => m.a12 | .i0, .i2 => m.a13
  | .i1, .i0 => m.a21 | .i1, .i1 => m.a22 | .i1, .i2 => m.a23
  | .i2, .i0 => m.a31 | .i2, .i1 => m.a32 | .i2, .i2 => m.a33

def set (m : Mat3 α) (i j : Ix) (v : α) : Mat3 α :=
  match i, j with
  | .i0, .i0 => { m with a11 := v } | .i0, .i1 => { m with a12 := v } | .i0, .i2 => { m with a13 := v }
  | .i1, .i0 => { m with a21 := v } | .i1, .i1 => { m with a22 := v } | .i1, .i2 => { m with a23 := v }
  | .i2, .i0 => { m with a31 := v } | .i2, .i1 => { m with a32 := v } | .i2, .i2 => { m with a33 := v }
end Mat3
end

section
variable {α : Type} [Add α] [Mul α] [Sub α] [Neg α] [Div α] [OfNat α 0] [OfNat α 1]

namespace Mat3
/-- `m * [[p],[q],[r]]` (NumPy broadcasting): row `i` multiplied by the `i`-th factor -/
def rowScale (m : Mat3 α) (p q r : α) : Mat3 α :=
  ⟨m.a11 * p, m.a12 * p, m.a13 * p, m.a21 * q, m.a22 * q, m.a23 * q, m.a31 * r, m.a32 * r, m.a33 * r⟩
/-- `m / [p, q, r]` (NumPy broadcasting): column `j` divided by the `j`-th divisor -/
def colDiv (m : Mat3 α) (p q r : α) : Mat3 α :=
  ⟨m.a11 / p, m.a12 / q, m.a13 / r, m.a21 / p, m.a22 / q, m.a23 / r, m.a31 / p, m.a32 / q, m.a33 / r⟩
/-- the three assignments `isounit[k, k] = 1` of `_isotropicunit` -/
def forceDiag1 (m : Mat3 α) : Mat3 α := { m with a11 := 1, a22 := 1, a33 := 1 }
/-- `m *= f` (element-wise, factor on the right) -/
def scaleR (m : Mat3 α) (f : α) : Mat3 α :=
  ⟨m.a11 * f, m.a12 * f, m.a13 * f, m.a21 * f, m.a22 * f, m.a23 * f, m.a31 * f, m.a32 * f, m.a33 * f⟩
end Mat3

/-- `lattice._isotropicunit(recnormbase)` -/
def isotropicunitOf (rn : Mat3 α) : Mat3 α := (rn.transpose.mul rn).forceDiag1

/-- the metrics tensor exactly as `setLatPar` lines 355–362 write it -/
def metricsOf (a b c ca cb cg : α) : Mat3 α :=
  ⟨a * a, a * b * cg, a * c * cb, b * a * cg, b * b, b * c * ca, c * a * cb, c * b * ca, c * c⟩

/-- `diffpy.structure.lattice.cartesian = Lattice()`: the lattice used when `atom.lattice` is `None` -/
def cartesianLat : LatData α :=
  { a := 1, b := 1, c := 1, ca := 0, cb := 0, cg := 0, ar := 1, br := 1, cr := 1,
    base := Mat3.one, recbase := Mat3.one, normbase := Mat3.one, recnormbase := Mat3.one,
    isotropicunit := Mat3.one, metrics := Mat3.one }

/-- Relations between the attributes of a genuine lattice (hypotheses of the theorems).
All of them are consequences of `Lattice.setLatPar` for a valid cell with an orthogonal `baserot`;
they are *assumed* here and checked numerically by the harness on every `Lattice` it uses. -/
structure LatOK (l : LatData α) : Prop where
  base_rec : l.base.mul l.recbase = Mat3.one
  rec_base : l.recbase.mul l.base = Mat3.one
  /-- `self.normbase = self.base * [[ar], [br], [cr]]` -/
  normbase_def : l.normbase = l.base.rowScale l.ar l.br l.cr
  /-- `self.recnormbase = self.recbase / [ar, br, cr]` -/
  recnormbase_def : l.recnormbase = l.recbase.colDiv l.ar l.br l.cr
  ar_ne : l.ar ≠ 0
  br_ne : l.br ≠ 0
  cr_ne : l.cr ≠ 0
  /-- `self.isotropicunit = _isotropicunit(self.recnormbase)` -/
  iso_def : l.isotropicunit = isotropicunitOf l.recnormbase
  /-- the columns of `recnormbase` are unit vectors (the reciprocal axes divided by their
  lengths), so forcing the diagonal to 1 only removes round-off -/
  iso_diag11 : (l.recnormbase.transpose.mul l.recnormbase).a11 = 1
  iso_diag22 : (l.recnormbase.transpose.mul l.recnormbase).a22 = 1
  iso_diag33 : (l.recnormbase.transpose.mul l.recnormbase).a33 = 1
  /-- `self.metrics = [[a*a, a*b*cg, …], …]` -/
  metrics_def : l.metrics = metricsOf l.a l.b l.c l.ca l.cb l.cg
  /-- the metrics tensor is the Gram matrix of the base vectors (rows of `base`) -/
  metrics_gram : l.base.mul l.base.transpose = l.metrics

end

section
variable {α : Type} [Add α] [Mul α] [Sub α] [Neg α] [Div α] [OfNat α 0] [OfNat α 1]
  [OfNat α 2] [OfNat α 3] [OfNat α 8] [LT α] [DecidableLT α] [Elem α] [AdpConst α]

/-- `_BtoU = 1.0 / (8 * numpy.pi**2)` -/
def BtoU : α := 1 / (8 * (AdpConst.pi * AdpConst.pi))
/-- `_UtoB = 1.0 / _BtoU` -/
def UtoB : α := 1 / (BtoU : α)

/-- Python `abs` -/
def absα (x : α) : α := if x < 0 then -x else x

namespace AtomS

/-- a fresh `Atom()`: zero storage, flag off, no lattice -/
def default : AtomS α := { xyz := Vec3.zero, U := Mat3.zero, aniso := false, lat := none }

/-- `self.lattice or cartesian_lattice` -/
def latOf (s : AtomS α) : LatData α := s.lat.getD cartesianLat

/-- the `U` getter: returns the tensor and the (possibly rewritten) state.
`numpy.multiply(self._U[0, 0], lat.isotropicunit, out=self._U)` when the flag is off. -/
def getU (s : AtomS α) : Mat3 α × AtomS α :=
  if s.aniso then (s.U, s)
  else
    let u := Mat3.smul s.U.a11 s.latOf.isotropicunit
    (u, { s with U := u })

/-- the `U` setter: `self._U[:] = value` -/
def setU (m : Mat3 α) (s : AtomS α) : AtomS α := { s with U := m }

/-- `_get_Uij` -/
def getUij (s : AtomS α) (i j : Ix) : α :=
  if s.aniso then s.U.get i j else s.U.a11 * s.latOf.isotropicunit.get i j

/-- `_set_Uij` -/
def setUij (i j : Ix) (v : α) (s : AtomS α) : AtomS α :=
  let u1 := (s.U.set i j v).set j i v
  let u2 := if !s.aniso && i == j && i != Ix.i0 then u1.set .i0 .i0 v else u1
  { s with U := u2 }

/-- `Uisoequiv` getter -/
def uisoequiv (s : AtomS α) : α :=
  if !s.aniso then s.U.a11
  else match s.lat with
    | none => s.U.trace / 3
    | some l =>
      1 / 3 *
        (s.U.a11 * l.ar * l.ar * l.a * l.a
          + s.U.a22 * l.br * l.br * l.b * l.b
          + s.U.a33 * l.cr * l.cr * l.c * l.c
          + 2 * s.U.a12 * l.ar * l.br * l.a * l.b * l.cg
          + 2 * s.U.a13 * l.ar * l.cr * l.a * l.c * l.cb
          + 2 * s.U.a23 * l.br * l.cr * l.b * l.c * l.ca)

/-- `anisotropy` setter -/
def setAniso (b : Bool) (s : AtomS α) : AtomS α :=
  if b == s.aniso then s
  else if b then { (s.getU).2 with aniso := true }          -- `self._U = self.U`
  else { s with U := s.U.set .i0 .i0 s.uisoequiv, aniso := false }   -- `self._U[0, 0] = self.Uisoequiv`

/-- `Uisoequiv` setter -/
def setUiso (v : α) (s : AtomS α) : AtomS α :=
  if s.aniso then
    let l := s.latOf
    let ue := s.uisoequiv
    if absα ue < AdpConst.eps then { s with U := Mat3.smul v l.isotropicunit }   -- `value * lat.isotropicunit`
    else { s with U := s.U.scaleR (v / ue) }                                       -- `self._U *= value / uequiv`
  else { s with U := s.U.set .i0 .i0 v }

/-- `Bij` getter -/
def getBij (s : AtomS α) (i j : Ix) : α := UtoB * s.getUij i j
/-- `Bij` setter -/
def setBij (i j : Ix) (v : α) (s : AtomS α) : AtomS α := s.setUij i j (BtoU * v)
/-- `Bisoequiv` getter -/
def bisoequiv (s : AtomS α) : α := UtoB * s.uisoequiv
/-- `Bisoequiv` setter -/
def setBiso (v : α) (s : AtomS α) : AtomS α := s.setUiso (BtoU * v)
/-- assignment to `atom.lattice` -/
def setLattice (l : Option (LatData α)) (s : AtomS α) : AtomS α := { s with lat := l }

end AtomS

/-- `Lattice.cartesian(u) = numpy.dot(u, base)` -/
def LatData.cart (l : LatData α) (u : Vec3 α) : Vec3 α := Mat3.vecMul u l.base
/-- `Lattice.norm(xyz) = sqrt((cartesian(xyz)**2).sum())` -/
def LatData.norm (l : LatData α) (u : Vec3 α) : α :=
  let r := l.cart u
  Elem.sqrt (r.x * r.x + r.y * r.y + r.z * r.z)

def Vec3.divS (u : Vec3 α) (d : α) : Vec3 α := ⟨u.x / d, u.y / d, u.z / d⟩

namespace AtomS

/-- the Cartesian displacement tensor `F1ᵀ · (_U · F1)`, `F1 = normbase` (as in `msdCart`) -/
def ucart (l : LatData α) (u : Mat3 α) : Mat3 α := l.normbase.transpose.mul (u.mul l.normbase)

/-- `msdLat` -/
def msdLat (s : AtomS α) (vl : Vec3 α) : α :=
  if !s.aniso then s.uisoequiv
  else
    let l := s.latOf
    let vln := vl.divS (l.norm vl)
    let g := l.metrics
    let rhsM := g.rowScale l.ar l.br l.cr        -- `[G[0] * lat.ar, G[1] * lat.br, G[2] * lat.cr]`
    let rhs := rhsM.mulVec vln
    Vec3.dot rhs ((s.getU).1.mulVec rhs)

/-- `msdCart` -/
def msdCart (s : AtomS α) (vc : Vec3 α) : α :=
  if !s.aniso then s.uisoequiv
  else
    let l := s.latOf
    let vcn := vc.divS (Elem.sqrt (vc.x * vc.x + vc.y * vc.y + vc.z * vc.z))
    let uc := ucart l s.U
    Vec3.dot vcn (uc.mulVec vcn)

end AtomS

/-- one step of an assignment history (reads that do not change the state are not steps;
the `U` getter does change the storage and therefore is one) -/
inductive AdpOp (α : Type) where
  | setAniso (b : Bool)
  | setU (m : Mat3 α)
  | setUij (i j : Ix) (v : α)
  | setBij (i j : Ix) (v : α)
  | setUiso (v : α)
  | setBiso (v : α)
  | setLattice (l : Option (LatData α))
  | readU

def AdpOp.apply (s : AtomS α) : AdpOp α → AtomS α
  | .setAniso b => s.setAniso b
  | .setU m => s.setU m
  | .setUij i j v => s.setUij i j v
  | .setBij i j v => s.setBij i j v
  | .setUiso v => s.setUiso v
  | .setBiso v => s.setBiso v
  | .setLattice l => s.setLattice l
  | .readU => (s.getU).2

/-- the state after a history -/
def runOps (s : AtomS α) (ops : List (AdpOp α)) : AtomS α := ops.foldl AdpOp.apply s

/-! ### `Structure.placeInLattice` -/

/-- a structure: its lattice and its atoms (each atom carries its own lattice reference) -/
structure StruS (α : Type) where
  lat : LatData α
  atoms : List (AtomS α)

/-- body of the `for a in self` loop, followed by the lattice assignment for this atom -/
def placeAtom (l1 l2 : LatData α) (a : AtomS α) : AtomS α :=
  let tx := l1.base.mul l2.recbase
  let tu := l1.normbase.mul l2.recnormbase
  let a1 : AtomS α := { a with xyz := Mat3.vecMul a.xyz tx }
  let a2 : AtomS α :=
    if a1.aniso then
      let r := a1.getU
      r.2.setU (tu.transpose.mul (r.1.mul tu))
    else a1
  a2.setLattice (some l2)

/-- `Structure.placeInLattice(new_lattice)` -/
def placeInLattice (s : StruS α) (l2 : LatData α) : StruS α :=
  { lat := l2, atoms := s.atoms.map (placeAtom s.lat l2) }

end

/-! ### driver handler (`Float` instance) -/

namespace AdpDrv

def latOfList : List Float → Option (LatData Float)
  | a :: b :: c :: ca :: cb :: cg :: ar :: br :: cr :: rest =>
    if rest.length != 54 then none else
    match matOfList (rest.take 9), matOfList ((rest.drop 9).take 9), matOfList ((rest.drop 18).take 9),
          matOfList ((rest.drop 27).take 9), matOfList ((rest.drop 36).take 9), matOfList ((rest.drop 45).take 9) with
    | some base, some recbase, some normbase, some recnormbase, some iso, some metrics =>
      some { a, b, c, ca, cb, cg, ar, br, cr, base, recbase, normbase, recnormbase, isotropicunit := iso, metrics }
    | _, _, _, _, _, _ => none
  | _ => none

/-- parse `n` lattices of 63 bit patterns each -/
def parseLats : Nat → List String → Option (List (LatData Float) × List String)
  | 0, ws => some ([], ws)
  | n + 1, ws =>
    if ws.length < 63 then none else
    match parseFloats (ws.take 63) with
    | none => none
    | some fs =>
      match latOfList fs, parseLats n (ws.drop 63) with
      | some l, some (ls, rest) => some (l :: ls, rest)
      | _, _ => none

def ixOf : String → Option Ix
  | "0" => some .i0 | "1" => some .i1 | "2" => some .i2 | _ => none

def boolOf : String → Option Bool
  | "0" => some false | "1" => some true | _ => none

/-- lattice number `0` is `None`, `k ≥ 1` the `k`-th lattice of the header -/
def pickLat (lats : List (LatData Float)) (w : String) : Option (Option (LatData Float)) :=
  match w.toNat? with
  | some 0 => some none
  | some (k + 1) => (lats[k]?).map some
  | none => none

/-- one op of a history; returns the op and the remaining words -/
def parseOp (lats : List (LatData Float)) : List String → Option (AdpOp Float × List String)
  | "A" :: b :: rest => (boolOf b).map (fun b => (.setAniso b, rest))
  | "U" :: rest =>
    if rest.length < 9 then none else
    ((parseFloats (rest.take 9)).bind matOfList).map (fun m => (.setU m, rest.drop 9))
  | "u" :: i :: j :: v :: rest =>
    match ixOf i, ixOf j, floatOfBits? v with
    | some i, some j, some v => some (.setUij i j v, rest)
    | _, _, _ => none
  | "b" :: i :: j :: v :: rest =>
    match ixOf i, ixOf j, floatOfBits? v with
    | some i, some j, some v => some (.setBij i j v, rest)
    | _, _, _ => none
  | "I" :: v :: rest => (floatOfBits? v).map (fun v => (.setUiso v, rest))
  | "J" :: v :: rest => (floatOfBits? v).map (fun v => (.setBiso v, rest))
  | "L" :: k :: rest => (pickLat lats k).map (fun l => (.setLattice l, rest))
  | "G" :: rest => some (.readU, rest)
  | _ => none

def parseOps (lats : List (LatData Float)) : Nat → List String → Option (List (AdpOp Float))
  | _, [] => some []
  | 0, _ => none
  | fuel + 1, ws =>
    match parseOp lats ws with
    | none => none
    | some (op, rest) => (parseOps lats fuel rest).map (op :: ·)

def ixPairs : List (Ix × Ix) := [(.i0, .i0), (.i1, .i1), (.i2, .i2), (.i0, .i1), (.i0, .i2), (.i1, .i2)]

/-- every quantity readable without changing the state:
flag, U11 U22 U33 U12 U13 U23, B11 … B23, Uisoequiv, Bisoequiv, msdLat(v), msdCart(cart v) -/
def readout (s : AtomS Float) (v : Vec3 Float) : String :=
  let us := ixPairs.map (fun p => bitsOfFloat (s.getUij p.1 p.2))
  let bs := ixPairs.map (fun p => bitsOfFloat (s.getBij p.1 p.2))
  let vc := s.latOf.cart v
  " ".intercalate ([if s.aniso then "1" else "0"] ++ us ++ bs ++
    [bitsOfFloat s.uisoequiv, bitsOfFloat s.bisoequiv, bitsOfFloat (s.msdLat v), bitsOfFloat (s.msdCart vc)])

/-- run a history, collecting the readout after every step (and the returned tensor for `G`) -/
def runHist (v : Vec3 Float) : AtomS Float → List (AdpOp Float) → List String
  | _, [] => []
  | s, op :: ops =>
    let s' := op.apply s
    let extra := match op with
      | .readU => " " ++ showMat (s.getU).1
      | _ => ""
    (readout s' v ++ extra) :: runHist v s' ops

def parseAtoms (fs : List Float) (flags : List Bool) : Option (List (AtomS Float)) :=
  match flags with
  | [] => if fs.isEmpty then some [] else none
  | f :: flags =>
    if fs.length < 12 then none else
    match vecOfList (fs.take 3), matOfList ((fs.drop 3).take 9), parseAtoms (fs.drop 12) flags with
    | some x, some u, some rest => some ({ xyz := x, U := u, aniso := f, lat := none } :: rest)
    | _, _, _ => none

def showAtom (a : AtomS Float) : String :=
  let r := a.getU
  s!"{showVec a.xyz} {if a.aniso then "1" else "0"} {showMat r.1} {bitsOfFloat a.uisoequiv}"

def runChain (s : StruS Float) : List (LatData Float) → List String
  | [] => []
  | l :: ls =>
    let s' := placeInLattice s l
    " ".intercalate (s'.atoms.map showAtom) :: runChain s' ls

end AdpDrv

open AdpDrv in
/-- driver commands

* `adp.hist <vx vy vz> <nlat> <63 words per lattice>… <ops>` — a history on a fresh `Atom()`;
  ops: `A 0|1`, `U m11…m33`, `u i j v`, `b i j v`, `I v`, `J v`, `L k` (0 = `None`), `G` (read `U`).
  Result: the step readouts separated by ` | `.
* `place.chain <nlat> <lattices>… <natoms> <flags…> <12 words per atom: xyz, U>… <k₁ k₂ …>` —
  a structure in lattice 1 placed successively into lattices `k₁, k₂, …`;
  result per placement: for every atom `xyz flag U(9) Uisoequiv`, placements separated by ` | `. -/
def adpHandle (ws : List String) : Option String :=
  match ws with
  | "adp.hist" :: vx :: vy :: vz :: n :: rest =>
    match floatOfBits? vx, floatOfBits? vy, floatOfBits? vz, n.toNat? with
    | some vx, some vy, some vz, some n =>
      match parseLats n rest with
      | none => some "bad-op"
      | some (lats, rest) =>
        match parseOps lats (rest.length + 1) rest with
        | none => some "bad-op"
        | some ops => some (" | ".intercalate (runHist ⟨vx, vy, vz⟩ AtomS.default ops))
    | _, _, _, _ => some "bad-op"
  | "place.chain" :: n :: rest =>
    match n.toNat? with
    | none => some "bad-op"
    | some n =>
      match parseLats n rest with
      | some (l1 :: lats, na :: rest) =>
        match na.toNat? with
        | none => some "bad-op"
        | some na =>
          if rest.length < 13 * na then some "bad-op" else
          match (rest.take na).mapM boolOf, parseFloats ((rest.drop na).take (12 * na)),
                ((rest.drop (13 * na)).mapM (pickLat (l1 :: lats))) with
          | some flags, some fs, some chain =>
            match parseAtoms fs flags, chain.mapM id with
            | some atoms, some chain =>
              let atoms := atoms.map (fun a => { a with lat := some l1 })
              some (" | ".intercalate (runChain { lat := l1, atoms } chain))
            | _, _ => some "bad-op"
          | _, _, _ => some "bad-op"
      | _ => some "bad-op"
  | _ => none

end DS
