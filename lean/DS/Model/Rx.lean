import DS.Model.SymText
/-!
# A small regular-expression matcher with Python `re` semantics, and the Python string primitives
used by the transliteration of `getSymOp` (task T18; serves C17 and C07).  No Mathlib import.

`Re` covers exactly the constructs the operator reader of `p_cif.py` uses (and the anchors):
character classes (members: characters, ranges, `\d`; negation; `(?i)` as a per-class flag), `.`,
concatenation, ordered alternation `|`, greedy `?`, `*`, `+`, groups (captures are not recorded), `^`/`\A`,
`$`, `\Z`.  The matcher is the backtracking search of `sre` written with a success continuation: choices are
tried in Python's priority order (first alternative first, one more iteration before stopping), and the
first complete match wins.  An iteration of `*`/`+` that consumes nothing is not repeated (as in `sre`).

The translation pattern text -> `Re` is done in Python by `translate/src_symop.py` from CPython's own
parse tree (`re._parser.parse`); anything outside the constructs above is refused there.  The matcher is
compared with `re` on random patterns and subjects by the `rx.*` differential stream of `harness/c17.py`.

ASCII only: `\d` is `[0-9]`, case folding is `Char.toLower`/`Char.toUpper`.
-/
namespace DS.Rx

/-- one member of a character class -/
inductive Item where
  | chr (c : Char)
  | range (lo hi : Char)
  | digit                      -- `\d`
deriving DecidableEq, Repr

def Item.has : Item → Char → Bool
  | .chr a, c => c = a
  | .range lo hi, c => lo.toNat ≤ c.toNat && c.toNat ≤ hi.toNat
  | .digit, c => c.isDigit

inductive Re where
  | empty
  | cls (ic neg : Bool) (items : List Item)
  | any                         -- `.` without DOTALL: anything but a newline
  | seq (a b : Re)
  | alt (a b : Re)
  | opt (a : Re)
  | star (a : Re)
  | plus (a : Re)
  | group (a : Re)
  | bos                         -- `^` (no MULTILINE), `\A`
  | eos                         -- `$` (no MULTILINE): at the end or before a final newline
  | eosZ                        -- `\Z`
deriving DecidableEq, Repr

/-- membership in a class; with `ic` a character also matches through either of its case variants -/
def clsHas (ic neg : Bool) (items : List Item) (c : Char) : Bool :=
  (items.any (·.has c) || (ic && (items.any (·.has c.toLower) || items.any (·.has c.toUpper)))) != neg

/-- greedy iteration: one more round of `step` that makes progress, else the continuation -/
def starK {α : Type} (step : List Char → (List Char → Option α) → Option α) (k : List Char → Option α) :
    Nat → List Char → Option α
  | 0, s => k s
  | f + 1, s =>
    (step s (fun s' => if s'.length < s.length then starK step k f s' else none)).orElse (fun _ => k s)

/-- `mK n r s k`: match `r` at the head of `s` (a suffix of a subject of length `n`), then `k` on the rest -/
def mK {α : Type} (n : Nat) : Re → List Char → (List Char → Option α) → Option α
  | .empty, s, k => k s
  | .cls ic neg items, s, k =>
    match s with
    | [] => none
    | c :: r => if clsHas ic neg items c then k r else none
  | .any, s, k =>
    match s with
    | [] => none
    | c :: r => if c = '\n' then none else k r
  | .seq a b, s, k => mK n a s (fun s' => mK n b s' k)
  | .alt a b, s, k => (mK n a s k).orElse (fun _ => mK n b s k)
  | .opt a, s, k => (mK n a s k).orElse (fun _ => k s)
  | .star a, s, k => starK (fun s' k' => mK n a s' k') k (s.length + 1) s
  | .plus a, s, k => mK n a s (fun s' => starK (fun s'' k' => mK n a s'' k') k (s'.length + 1) s')
  | .group a, s, k => mK n a s k
  | .bos, s, k => if s.length = n then k s else none
  | .eos, s, k => if s = [] || s = ['\n'] then k s else none
  | .eosZ, s, k => if s = [] then k s else none

/-- the text left after the match of `r` at the head of `s`; `n` = length of the whole subject -/
def matchRest (r : Re) (n : Nat) (s : List Char) : Option (List Char) := mK n r s some

/-- `pattern.match(subject, pos)` for `pos ≤ len(subject)`: the span `(pos, end)` -/
def pyMatch (r : Re) (subject : List Char) (pos : Nat) : Option (Nat × Nat) :=
  if pos ≤ subject.length then
    (matchRest r subject.length (subject.drop pos)).map (fun rest => (pos, subject.length - rest.length))
  else none

/-- leftmost match at or after the head of `s`: (skipped text reversed, matched text, rest) -/
def searchFrom (r : Re) (n : Nat) : List Char → List Char → Option (List Char × List Char × List Char)
  | acc, [] =>
    match matchRest r n [] with
    | some _ => some (acc, [], [])
    | none => none
  | acc, c :: s =>
    match matchRest r n (c :: s) with
    | some rest => some (acc, (c :: s).take ((c :: s).length - rest.length), rest)
    | none => searchFrom r n (c :: acc) s

/-- `pattern.search(subject)`: the span of the leftmost match -/
def pySearch (r : Re) (subject : List Char) : Option (Nat × Nat) :=
  (searchFrom r subject.length [] subject).map (fun x => (x.1.length, x.1.length + x.2.1.length))

/-- can `r` match the empty text somewhere (syntactic over-approximation) -/
def nullable : Re → Bool
  | .empty => true
  | .cls _ _ _ => false
  | .any => false
  | .seq a b => nullable a && nullable b
  | .alt a b => nullable a || nullable b
  | .opt _ => true
  | .star _ => true
  | .plus a => nullable a
  | .group a => nullable a
  | .bos => true
  | .eos => true
  | .eosZ => true

/-- pieces of `re.split` for a pattern that never matches the empty text: the text between the matches and,
if `keep` (the whole pattern is one capturing group), the matched texts in between -/
def splitGo (r : Re) (n : Nat) (keep : Bool) : Nat → List Char → List (List Char)
  | 0, s => [s]
  | fuel + 1, s =>
    match searchFrom r n [] s with
    | none => [s]
    | some (acc, m, rest) =>
      if m.isEmpty then [s]
      else if keep then acc.reverse :: m :: splitGo r n keep fuel rest
      else acc.reverse :: splitGo r n keep fuel rest

/-- `re.split(pattern, subject)` for a non-nullable pattern; `keep` = the pattern is `(…)`, one capturing
group around everything.  `none`: outside the modelled subset. -/
def pySplit (r : Re) (keep : Bool) (subject : List Char) : Option (List (List Char)) :=
  if nullable r then none else some (splitGo r subject.length keep (subject.length + 1) subject)

end DS.Rx

/-! ## Python values and string primitives (exact-rational reading of `float`) -/
namespace DS.PyStr
open DS.SymText

/-- the exceptions a transliterated function can end in; `fuel` marks a loop that ran out of the
iteration bound (never a Python outcome: the theorems show it does not occur) and `outside` an operation
whose arguments left the modelled subset -/
inductive Exn where
  | structureFormatError
  | indexError
  | keyError
  | valueError
  | zeroDivisionError
  | fuel
  | outside
deriving DecidableEq, Repr

abbrev Vec := Int × Int × Int

/-- `s.replace(c, "")` for a one-character `c` -/
def removeAll (c : Char) (s : List Char) : List Char := s.filter (· ≠ c)

/-- `s.split(sep)` for a one-character separator -/
def split (sep : Char) : List Char → List (List Char)
  | [] => [[]]
  | c :: r =>
    match split sep r with
    | [] => [[c]]
    | h :: t => if c = sep then [] :: h :: t else (c :: h) :: t

/-- `s.partition(sep)` for a one-character separator -/
def partition (sep : Char) : List Char → List Char × List Char × List Char
  | [] => ([], [], [])
  | c :: r =>
    if c = sep then ([], [c], r)
    else let p := partition sep r; (c :: p.1, p.2.1, p.2.2)

/-- `s.lower()` (ASCII) -/
def lower (s : List Char) : List Char := s.map Char.toLower

/-- `l[start::step]` for `step ≥ 1` -/
def sliceStep {α : Type} (start step : Nat) (l : List α) : List α :=
  let rec go : Nat → List α → List α
    | _, [] => []
    | 0, x :: r => x :: go (step - 1) r
    | k + 1, _ :: r => go k r
  go start l

/-- `l[i]` for `i ≥ 0` -/
def listIndex {α : Type} (l : List α) (i : Nat) : Except Exn α :=
  match l[i]? with
  | some x => .ok x
  | none => .error .indexError

/-- `d[key]` on a dictionary given as its item list -/
def dictGet {β : Type} (d : List (List Char × β)) (key : List Char) : Except Exn β :=
  match d.find? (fun kv => kv.1 = key) with
  | some kv => .ok kv.2
  | none => .error .keyError

/-- `mx.group()` for a match span on `subject` -/
def group (subject : List Char) (mx : Nat × Nat) : List Char := (subject.drop mx.1).take (mx.2 - mx.1)

/-- unsigned decimal `d+`, `d+.d*`, `.d+` filling the whole text: exact value -/
def decimal (cs : List Char) : Option Frac :=
  match scanLit cs with
  | some (v, []) => some v
  | _ => none

/-- `float(text)` for the literal forms `[+-]?(d+ | d+.d* | .d+)`, read exactly; any other text is
`outside` (Python's `float` accepts more: exponents, blanks, underscores, `inf`, `nan`) -/
def float (cs : List Char) : Except Exn Frac :=
  match cs with
  | '+' :: r => match decimal r with | some v => .ok v | none => .error .outside
  | '-' :: r => match decimal r with | some v => .ok v.neg | none => .error .outside
  | _ => match decimal cs with | some v => .ok v | none => .error .outside

/-- `a / b` on floats read exactly -/
def fdiv (a b : Frac) : Except Exn Frac :=
  if b.num = 0 then .error .zeroDivisionError
  else if 0 < b.num then .ok (a.div b) else .ok (a.neg.div b.neg)

/-- `numpy.zeros((3, 3))` / `numpy.zeros(3)` -/
def zeros33 : Vec × Vec × Vec := ((0, 0, 0), (0, 0, 0), (0, 0, 0))
def zeros3 : Frac × Frac × Frac := (Frac.zero, Frac.zero, Frac.zero)

/-- `R[i, :] += v` -/
def addRow (R : Vec × Vec × Vec) (i : Nat) (v : Vec) : Except Exn (Vec × Vec × Vec) :=
  if i = 0 then .ok (addVec R.1 v, R.2.1, R.2.2)
  else if i = 1 then .ok (R.1, addVec R.2.1 v, R.2.2)
  else if i = 2 then .ok (R.1, R.2.1, addVec R.2.2 v)
  else .error .indexError

/-- `t[i] += c` -/
def addAt (t : Frac × Frac × Frac) (i : Nat) (c : Frac) : Except Exn (Frac × Frac × Frac) :=
  if i = 0 then .ok (t.1.add c, t.2.1, t.2.2)
  else if i = 1 then .ok (t.1, t.2.1.add c, t.2.2)
  else if i = 2 then .ok (t.1, t.2.1, t.2.2.add c)
  else .error .indexError

/-- `t -= numpy.floor(t)` -/
def subFloor (t : Frac × Frac × Frac) : Frac × Frac × Frac := (t.1.fract, t.2.1.fract, t.2.2.fract)

/-- `SymOp(R, t)` -/
def mkSymOp (R : Vec × Vec × Vec) (t : Frac × Frac × Frac) : SymOp :=
  { r1 := R.1, r2 := R.2.1, r3 := R.2.2, t1 := t.1, t2 := t.2.1, t3 := t.2.2 }

end DS.PyStr

/-! ## driver: `rx.match`, `rx.search`, `rx.split` on a pattern sent as a prefix-notation word list -/
namespace DS.Rx
open DS.SymText

def parseItems : Nat → List String → Option (List Item × List String)
  | 0, ws => some ([], ws)
  | k + 1, ws =>
    match ws with
    | "c" :: n :: rest => do
      let (its, r) ← parseItems k rest
      pure (.chr (Char.ofNat n.toNat!) :: its, r)
    | "r" :: a :: b :: rest => do
      let (its, r) ← parseItems k rest
      pure (.range (Char.ofNat a.toNat!) (Char.ofNat b.toNat!) :: its, r)
    | "d" :: rest => do
      let (its, r) ← parseItems k rest
      pure (.digit :: its, r)
    | _ => none

def parseRe : Nat → List String → Option (Re × List String)
  | 0, _ => none
  | fuel + 1, ws =>
    match ws with
    | "empty" :: r => some (.empty, r)
    | "any" :: r => some (.any, r)
    | "bos" :: r => some (.bos, r)
    | "eos" :: r => some (.eos, r)
    | "eosZ" :: r => some (.eosZ, r)
    | "cls" :: ic :: neg :: n :: r => do
      let (its, r') ← parseItems n.toNat! r
      pure (.cls (ic = "1") (neg = "1") its, r')
    | "seq" :: r => do
      let (a, r1) ← parseRe fuel r
      let (b, r2) ← parseRe fuel r1
      pure (.seq a b, r2)
    | "alt" :: r => do
      let (a, r1) ← parseRe fuel r
      let (b, r2) ← parseRe fuel r1
      pure (.alt a b, r2)
    | "opt" :: r => do
      let (a, r1) ← parseRe fuel r
      pure (.opt a, r1)
    | "star" :: r => do
      let (a, r1) ← parseRe fuel r
      pure (.star a, r1)
    | "plus" :: r => do
      let (a, r1) ← parseRe fuel r
      pure (.plus a, r1)
    | "group" :: r => do
      let (a, r1) ← parseRe fuel r
      pure (.group a, r1)
    | _ => none

def showSpan : Option (Nat × Nat) → String
  | none => "none"
  | some (a, b) => s!"{a} {b}"

def hexOf (cs : List Char) : String :=
  String.ofList (cs.flatMap (fun c =>
    let n := c.toNat
    let h (d : Nat) : Char := if d < 10 then Char.ofNat (48 + d) else Char.ofNat (87 + d)
    [h (n / 16), h (n % 16)]))

/-- `rx.match x<hex subject> <pos> <pattern words…>` -> `<start> <end>` | `none`;
`rx.search x<hex> <pattern…>` -> span | `none`;
`rx.split x<hex> <keep 0|1> <pattern…>` -> `n x<hex piece> …` | `outside` -/
def rxHandle (ws : List String) : Option String :=
  let subj (w : String) : Option (List Char) :=
    match w.toList with
    | 'x' :: h => hexChars h
    | _ => none
  match ws with
  | "rx.match" :: w :: pos :: pat =>
    some <| match subj w, parseRe (pat.length + 1) pat with
      | some s, some (r, []) => showSpan (pyMatch r s pos.toNat!)
      | _, _ => "bad-op"
  | "rx.search" :: w :: pat =>
    some <| match subj w, parseRe (pat.length + 1) pat with
      | some s, some (r, []) => showSpan (pySearch r s)
      | _, _ => "bad-op"
  | "rx.split" :: w :: keep :: pat =>
    some <| match subj w, parseRe (pat.length + 1) pat with
      | some s, some (r, []) =>
        match pySplit r (keep = "1") s with
        | none => "outside"
        | some ps => s!"{ps.length}" ++ String.join (ps.map (fun p => " x" ++ hexOf p))
      | _, _ => "bad-op"
  | _ => none

end DS.Rx
