import DS.Model.Sym
/-!
Specification-level predicates for M1 (no Mathlib).  These are the *statements* the
property theorems are about; the Boolean checkers of `DS.Model.Sym` are proved sound
with respect to them in `DS.Lemmas.Group`.
-/
namespace DS

/-- A list of operations is a group modulo lattice translations, listed without repetition,
identity first, with crystallographic rotation parts. -/
structure IsGroup (ops : List Op) : Prop where
  one_first : ops.head? = some Op.one
  nodup : ops.Nodup
  closed : ∀ a ∈ ops, ∀ b ∈ ops, a.comp b ∈ ops
  inv : ∀ a ∈ ops, ∃ b ∈ ops, a.comp b = Op.one ∧ b.comp a = Op.one
  det : ∀ a ∈ ops, a.det = 1 ∨ a.det = -1
  range : ∀ a ∈ ops, a.inRange = true

/-- The declared counts agree with the operation list. -/
structure CountsOK (g : SG) : Prop where
  nsym : g.ops.length = g.nsym
  nprim : ncentring g.ops * g.nprim = g.nsym

end DS
