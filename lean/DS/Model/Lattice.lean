import DS.Model.Lin
/-!
M2 — scalar-generic model of `diffpy.structure.lattice.Lattice` (no Mathlib import).

* `Lattice α`           : the ~30 cached attributes of the Python object.
* `Lattice.ofCS`        : lines 350–374 of `setLatPar` (everything after the cosines, sines and the unit
                          volume are known): reciprocal quantities, metrics, `stdbase`,
                          `base = stdbase·baserot`, `recbase = inv base`, `normbase`, `recnormbase`,
                          `isotropicunit`.
* `Lattice.ofPar`       : `setLatPar` with all seven arguments = `Lattice(a,b,c,alpha,beta,gamma,baserot)`.
* `Lattice.ofBase`      : `setLatBase` = `Lattice(base=B)`.
* methods               : `cartesian fractional dot norm rnorm dist angle udev reciprocal unitvolume volume`.
* update-history machine: `setLatPar` / `setLatBase` written as the *sequence of attribute assignments*
                          the Python code performs on an existing object, `Op`, `step`, `run` on a world
                          (list) of lattice objects: constructors, copy construction, `reciprocal`,
                          `setLatPar` with any subset of its seven arguments, property assignment, `setLatBase`.
* `latHandle`           : line-protocol handler (`lat.q`, `lat.hist`, `lat.ctorform`), `Float` instance,
                          floats as bit patterns, Python's exceptions as `err <Kind>`.
-/
namespace DS

/-- all cached attributes of a `Lattice` object (`_a … _sgr` and the eight arrays) -/
@[ext] structure Lattice (α : Type) where
  a : α
  b : α
  c : α
  alpha : α
  beta : α
  gamma : α
  ca : α
  cb : α
  cg : α
  sa : α
  sb : α
  sg : α
  ar : α
  br : α
  cr : α
  alphar : α
  betar : α
  gammar : α
  car : α
  cbr : α
  cgr : α
  sar : α
  sbr : α
  sgr : α
  metrics : Mat3 α
  stdbase : Mat3 α
  baserot : Mat3 α
  base : Mat3 α
  recbase : Mat3 α
  normbase : Mat3 α
  recnormbase : Mat3 α
  isotropicunit : Mat3 α
deriving Inhabited

/-- the cell lengths, stored angles (degrees), their cosines and sines and the unit-cell volume
factor `V = √(1 + 2·ca·cb·cg − ca² − cb² − cg²)`: what lines 350–374 of `setLatPar` start from -/
@[ext] structure CellCS (α : Type) where
  a : α
  b : α
  c : α
  alpha : α
  beta : α
  gamma : α
  ca : α
  cb : α
  cg : α
  sa : α
  sb : α
  sg : α
  V : α

section
variable {α : Type} [Add α] [Mul α] [Sub α] [Neg α] [Div α] [OfNat α 0] [OfNat α 1] [OfNat α 2]
  [OfNat α 3] [OfNat α 90] [Max α] [Min α] [Elem α]

namespace Lattice

/-- `sqrt(1.0 + 2.0*ca*cb*cg - ca*ca - cb*cb - cg*cg)` (property `unitvolume`, line 205) -/
def unitvol (ca cb cg : α) : α :=
  Elem.sqrt (1 + 2 * ca * cb * cg - ca * ca - cb * cb - cg * cg)

/-- the metrics array exactly as written at lines 356–363 / 436–439 -/
def metricsOf (a b c ca cb cg : α) : Mat3 α :=
  ⟨a * a, a * b * cg, a * c * cb,
   b * a * cg, b * b, b * c * ca,
   c * a * cb, c * b * ca, c * c⟩

/-- `stdbase` exactly as written at lines 365–368 / 424–426 -/
def stdbaseOf (a b c ca cb sa ar cgr sgr : α) : Mat3 α :=
  ⟨1 / ar, -cgr / sgr / ar, cb * a,
   0, b * sa, b * ca,
   0, 0, c⟩

/-- `base * [[ar],[br],[cr]]`: row `i` scaled by the `i`-th reciprocal length -/
def normbaseOf (m : Mat3 α) (ar br cr : α) : Mat3 α :=
  ⟨m.a11 * ar, m.a12 * ar, m.a13 * ar,
   m.a21 * br, m.a22 * br, m.a23 * br,
   m.a31 * cr, m.a32 * cr, m.a33 * cr⟩

/-- `recbase / [ar, br, cr]`: column `j` divided by the `j`-th reciprocal length -/
def recnormbaseOf (m : Mat3 α) (ar br cr : α) : Mat3 α :=
  ⟨m.a11 / ar, m.a12 / br, m.a13 / cr,
   m.a21 / ar, m.a22 / br, m.a23 / cr,
   m.a31 / ar, m.a32 / br, m.a33 / cr⟩

/-- `_isotropicunit`: `recnormbaseᵀ · recnormbase` with the diagonal forced to 1 -/
def isounitOf (m : Mat3 α) : Mat3 α :=
  let p := m.transpose.mul m
  ⟨1, p.a12, p.a13, p.a21, 1, p.a23, p.a31, p.a32, 1⟩

/-- Common tail of `setLatPar` (lines 350–374) and `setLatBase` (lines 410–440).  `orient` maps
`stdbase` to the pair `(baserot, base)`: `S ↦ (Q, S·Q)` in `setLatPar`, `S ↦ (S⁻¹·B, B)` in `setLatBase`. -/
def assemble (p : CellCS α) (orient : Mat3 α → Mat3 α × Mat3 α) : Lattice α :=
  let ar := p.sa / (p.a * p.V)
  let br := p.sb / (p.b * p.V)
  let cr := p.sg / (p.c * p.V)
  let car := (p.cb * p.cg - p.ca) / (p.sb * p.sg)
  let cbr := (p.ca * p.cg - p.cb) / (p.sa * p.sg)
  let cgr := (p.ca * p.cb - p.cg) / (p.sa * p.sb)
  let sar := Elem.sqrt (1 - car * car)
  let sbr := Elem.sqrt (1 - cbr * cbr)
  let sgr := Elem.sqrt (1 - cgr * cgr)
  let stdbase := stdbaseOf p.a p.b p.c p.ca p.cb p.sa ar cgr sgr
  let rb := orient stdbase
  let base := rb.2
  let recbase := base.inv
  let recnormbase := recnormbaseOf recbase ar br cr
  { a := p.a, b := p.b, c := p.c, alpha := p.alpha, beta := p.beta, gamma := p.gamma
    ca := p.ca, cb := p.cb, cg := p.cg, sa := p.sa, sb := p.sb, sg := p.sg
    ar := ar, br := br, cr := cr
    alphar := Elem.acosd car, betar := Elem.acosd cbr, gammar := Elem.acosd cgr
    car := car, cbr := cbr, cgr := cgr, sar := sar, sbr := sbr, sgr := sgr
    metrics := metricsOf p.a p.b p.c p.ca p.cb p.cg
    stdbase := stdbase
    baserot := rb.1
    base := base
    recbase := recbase
    normbase := normbaseOf base ar br cr
    recnormbase := recnormbase
    isotropicunit := isounitOf recnormbase }

/-- lines 350–374 of `setLatPar`: all attributes from cosines/sines/`V` and the rotation `Q` -/
def ofCS (p : CellCS α) (Q : Mat3 α) : Lattice α := assemble p (fun S => (Q, S.mul Q))

/-- lines 344–349: `cosd`, `sind` of the stored angles and the unit volume -/
def csOfPar (a b c alpha beta gamma : α) : CellCS α :=
  let ca := Elem.cosd alpha
  let cb := Elem.cosd beta
  let cg := Elem.cosd gamma
  { a := a, b := b, c := c, alpha := alpha, beta := beta, gamma := gamma
    ca := ca, cb := cb, cg := cg
    sa := Elem.sind alpha, sb := Elem.sind beta, sg := Elem.sind gamma
    V := unitvol ca cb cg }

/-- `Lattice(a, b, c, alpha, beta, gamma, baserot=Q)` -/
def ofPar (a b c alpha beta gamma : α) (Q : Mat3 α) : Lattice α := ofCS (csOfPar a b c alpha beta gamma) Q

/-- lines 398–411 of `setLatBase`: lengths, cosines, sines and angles recovered from the rows of `B`;
the unit volume is recomputed from `cosd` of the *recovered angles* (property `unitvolume`) -/
def csOfBase (B : Mat3 α) : CellCS α :=
  let a := Elem.sqrt (Vec3.dot B.row1 B.row1)
  let b := Elem.sqrt (Vec3.dot B.row2 B.row2)
  let c := Elem.sqrt (Vec3.dot B.row3 B.row3)
  let ca := Vec3.dot B.row2 B.row3 / (b * c)
  let cb := Vec3.dot B.row1 B.row3 / (a * c)
  let cg := Vec3.dot B.row1 B.row2 / (a * b)
  let alpha := Elem.acosd ca
  let beta := Elem.acosd cb
  let gamma := Elem.acosd cg
  { a := a, b := b, c := c, alpha := alpha, beta := beta, gamma := gamma
    ca := ca, cb := cb, cg := cg
    sa := Elem.sqrt (1 - ca * ca), sb := Elem.sqrt (1 - cb * cb), sg := Elem.sqrt (1 - cg * cg)
    V := unitvol (Elem.cosd alpha) (Elem.cosd beta) (Elem.cosd gamma) }

/-- `Lattice(base=B)` / `setLatBase(B)` (the determinant test is the caller's guard) -/
def ofBase (B : Mat3 α) : Lattice α := assemble (csOfBase B) (fun S => (S.inv.mul B, B))

/-! ### read-only derived properties and methods -/

/-- property `unitvolume`: recomputed from `cosd` of the stored angles on every read -/
def unitvolume (L : Lattice α) : α := unitvol (Elem.cosd L.alpha) (Elem.cosd L.beta) (Elem.cosd L.gamma)
/-- property `volume` -/
def volume (L : Lattice α) : α := L.a * L.b * L.c * L.unitvolume
/-- `numpy.dot(u, self.base)` -/
def cartesian (L : Lattice α) (u : Vec3 α) : Vec3 α := Mat3.vecMul u L.base
/-- `numpy.dot(rc, self.recbase)` -/
def fractional (L : Lattice α) (r : Vec3 α) : Vec3 α := Mat3.vecMul r L.recbase
/-- `(u * numpy.dot(v, self.metrics)).sum(axis=-1)` -/
def dot (L : Lattice α) (u v : Vec3 α) : α := Vec3.dot u (Mat3.vecMul v L.metrics)
/-- `sqrt((self.cartesian(xyz)**2).sum(axis=-1))` -/
def norm (L : Lattice α) (u : Vec3 α) : α := let r := L.cartesian u; Elem.sqrt (Vec3.dot r r)
/-- `hklcartn = dot(hkl, self.recbase.T); sqrt((hklcartn**2).sum(axis=-1))` -/
def rnorm (L : Lattice α) (h : Vec3 α) : α :=
  let r := Mat3.vecMul h L.recbase.transpose; Elem.sqrt (Vec3.dot r r)
/-- `self.norm(u - v)` -/
def dist (L : Lattice α) (u v : Vec3 α) : α := L.norm (Vec3.sub u v)
/-- `ca = dot(u,v)/(norm(u)*norm(v)); ca = max(min(ca, 1), -1); degrees(acos(ca))` -/
def angle (L : Lattice α) (u v : Vec3 α) : α :=
  let ca := L.dot u v / (L.norm u * L.norm v)
  Elem.acosd (max (min ca 1) (-1))
/-- `umx - trace(umx)/3 * self.isotropicunit` (the matrix whose largest modulus `isanisotropic` tests) -/
def udev (L : Lattice α) (U : Mat3 α) : Mat3 α := U.sub (Mat3.smul (U.trace / 3) L.isotropicunit)
/-- `Lattice(base=numpy.transpose(self.recbase))` -/
def reciprocal (L : Lattice α) : Lattice α := ofBase L.recbase.transpose

/-! ### updates of an existing object (C10)

`setLatPar` and `setLatBase` are written as the sequence of attribute assignments of the Python
methods, reading `self.…` where the code reads `self.…`; `DS.Lattice.setLatPar_eq` /
`setLatBase_eq` (Lemmas) prove that nothing of the previous state survives. -/

/-- the seven optional arguments of `setLatPar` (`none` = argument not given / `None`) -/
structure ParArgs (α : Type) where
  a : Option α := none
  b : Option α := none
  c : Option α := none
  alpha : Option α := none
  beta : Option α := none
  gamma : Option α := none
  baserot : Option (Mat3 α) := none

/-- lines 330–343 of `setLatPar`: the arguments that are not `None` overwrite the stored values -/
def assignArgs (L : Lattice α) (p : ParArgs α) : Lattice α :=
  let L := match p.a with | some v => { L with a := v } | none => L
  let L := match p.b with | some v => { L with b := v } | none => L
  let L := match p.c with | some v => { L with c := v } | none => L
  let L := match p.alpha with | some v => { L with alpha := v } | none => L
  let L := match p.beta with | some v => { L with beta := v } | none => L
  let L := match p.gamma with | some v => { L with gamma := v } | none => L
  match p.baserot with | some v => { L with baserot := v } | none => L

/-- lines 344–374 of `setLatPar`: every other attribute is recomputed from `self.a … self.gamma`, `self.baserot` -/
def refresh (L : Lattice α) : Lattice α :=
  -- lines 344–349
  let L := { L with ca := Elem.cosd L.alpha }
  let L := { L with cb := Elem.cosd L.beta }
  let L := { L with cg := Elem.cosd L.gamma }
  let L := { L with sa := Elem.sind L.alpha }
  let L := { L with sb := Elem.sind L.beta }
  let L := { L with sg := Elem.sind L.gamma }
  let V := L.unitvolume
  -- lines 352–366
  let L := { L with ar := L.sa / (L.a * V) }
  let L := { L with br := L.sb / (L.b * V) }
  let L := { L with cr := L.sg / (L.c * V) }
  let L := { L with car := (L.cb * L.cg - L.ca) / (L.sb * L.sg) }
  let L := { L with cbr := (L.ca * L.cg - L.cb) / (L.sa * L.sg) }
  let L := { L with cgr := (L.ca * L.cb - L.cg) / (L.sa * L.sb) }
  let L := { L with sar := Elem.sqrt (1 - L.car * L.car) }
  let L := { L with sbr := Elem.sqrt (1 - L.cbr * L.cbr) }
  let L := { L with sgr := Elem.sqrt (1 - L.cgr * L.cgr) }
  let L := { L with alphar := Elem.acosd L.car }
  let L := { L with betar := Elem.acosd L.cbr }
  let L := { L with gammar := Elem.acosd L.cgr }
  -- lines 356–374
  let L := { L with metrics := metricsOf L.a L.b L.c L.ca L.cb L.cg }
  let L := { L with stdbase := stdbaseOf L.a L.b L.c L.ca L.cb L.sa L.ar L.cgr L.sgr }
  let L := { L with base := L.stdbase.mul L.baserot }
  let L := { L with recbase := L.base.inv }
  let L := { L with normbase := normbaseOf L.base L.ar L.br L.cr }
  let L := { L with recnormbase := recnormbaseOf L.recbase L.ar L.br L.cr }
  { L with isotropicunit := isounitOf L.recnormbase }

def setLatPar (L : Lattice α) (p : ParArgs α) : Lattice α := (L.assignArgs p).refresh

def setLatBase (L : Lattice α) (B : Mat3 α) : Lattice α :=
  -- lines 390, 398–409
  let L := { L with base := B }
  let L := { L with a := Elem.sqrt (Vec3.dot L.base.row1 L.base.row1) }
  let L := { L with b := Elem.sqrt (Vec3.dot L.base.row2 L.base.row2) }
  let L := { L with c := Elem.sqrt (Vec3.dot L.base.row3 L.base.row3) }
  let L := { L with ca := Vec3.dot L.base.row2 L.base.row3 / (L.b * L.c) }
  let L := { L with cb := Vec3.dot L.base.row1 L.base.row3 / (L.a * L.c) }
  let L := { L with cg := Vec3.dot L.base.row1 L.base.row2 / (L.a * L.b) }
  let L := { L with sa := Elem.sqrt (1 - L.ca * L.ca) }
  let L := { L with sb := Elem.sqrt (1 - L.cb * L.cb) }
  let L := { L with sg := Elem.sqrt (1 - L.cg * L.cg) }
  let L := { L with alpha := Elem.acosd L.ca }
  let L := { L with beta := Elem.acosd L.cb }
  let L := { L with gamma := Elem.acosd L.cg }
  let V := L.unitvolume
  -- lines 413–440
  let L := { L with ar := L.sa / (L.a * V) }
  let L := { L with br := L.sb / (L.b * V) }
  let L := { L with cr := L.sg / (L.c * V) }
  let L := { L with car := (L.cb * L.cg - L.ca) / (L.sb * L.sg) }
  let L := { L with cbr := (L.ca * L.cg - L.cb) / (L.sa * L.sg) }
  let L := { L with cgr := (L.ca * L.cb - L.cg) / (L.sa * L.sb) }
  let L := { L with sar := Elem.sqrt (1 - L.car * L.car) }
  let L := { L with sbr := Elem.sqrt (1 - L.cbr * L.cbr) }
  let L := { L with sgr := Elem.sqrt (1 - L.cgr * L.cgr) }
  let L := { L with alphar := Elem.acosd L.car }
  let L := { L with betar := Elem.acosd L.cbr }
  let L := { L with gammar := Elem.acosd L.cgr }
  let L := { L with stdbase := stdbaseOf L.a L.b L.c L.ca L.cb L.sa L.ar L.cgr L.sgr }
  let L := { L with baserot := L.stdbase.inv.mul L.base }
  let L := { L with recbase := L.base.inv }
  let L := { L with normbase := normbaseOf L.base L.ar L.br L.cr }
  let L := { L with recnormbase := recnormbaseOf L.recbase L.ar L.br L.cr }
  let L := { L with isotropicunit := isounitOf L.recnormbase }
  { L with metrics := metricsOf L.a L.b L.c L.ca L.cb L.cg }

/-- property assignment `lat.a = v` … `lat.gamma = v` (`k = 0 … 5`): `setLatPar` with that one argument -/
def propArgs (k : Nat) (v : α) : Option (ParArgs α) :=
  match k with
  | 0 => some { a := some v }
  | 1 => some { b := some v }
  | 2 => some { c := some v }
  | 3 => some { alpha := some v }
  | 4 => some { beta := some v }
  | 5 => some { gamma := some v }
  | _ => none

/-- one operation of an update history on a world of lattice objects (objects are numbered in order
of creation) -/
inductive Op (α : Type) where
  /-- `Lattice()` -/
  | newDefault
  /-- `Lattice(a, b, c, alpha, beta, gamma[, baserot])` -/
  | newPar (a b c alpha beta gamma : α) (rot : Option (Mat3 α))
  /-- `Lattice(base=B)` -/
  | newBase (B : Mat3 α)
  /-- `Lattice(w[i])`: copy construction (`__dict__.update`) -/
  | copy (i : Nat)
  /-- `w[i].reciprocal()` -/
  | recip (i : Nat)
  /-- `w[i].setLatPar(...)` with any subset of the seven arguments -/
  | setPar (i : Nat) (p : ParArgs α)
  /-- `w[i].<name> = v` for the `k`-th of `a b c alpha beta gamma` -/
  | setProp (i : Nat) (k : Nat) (v : α)
  /-- `w[i].setLatBase(B)` -/
  | setBase (i : Nat) (B : Mat3 α)

/-- effect of one operation; `none` when the operation names an object that does not exist -/
def step (w : List (Lattice α)) : Op α → Option (List (Lattice α))
  | .newDefault => some (w ++ [ofPar 1 1 1 90 90 90 Mat3.one])
  | .newPar a b c al be ga rot => some (w ++ [ofPar a b c al be ga (rot.getD Mat3.one)])
  | .newBase B => some (w ++ [ofBase B])
  | .copy i => w[i]?.map (fun L => w ++ [L])
  | .recip i => w[i]?.map (fun L => w ++ [L.reciprocal])
  | .setPar i p => w[i]?.map (fun L => w.set i (L.setLatPar p))
  | .setProp i k v => w[i]?.bind (fun L => (propArgs k v).map (fun p => w.set i (L.setLatPar p)))
  | .setBase i B => w[i]?.map (fun L => w.set i (L.setLatBase B))

def run (w : List (Lattice α)) : List (Op α) → Option (List (Lattice α))
  | [] => some w
  | op :: ops => (step w op).bind (fun w' => run w' ops)

end Lattice
end

/-! ### `Float` side: guards reproducing Python's exceptions, and the line-protocol handler -/
namespace Lattice

/-- exceptions raised by the tail shared by `setLatPar`/`setLatBase` (Python float arithmetic:
`math.sqrt`/`math.acos` domain errors are `ValueError`, float `/` by zero is `ZeroDivisionError`,
`numpy.linalg.inv` of an exactly singular matrix is `LinAlgError`), in evaluation order -/
def tailGuard (p : CellCS Float) (v2 : Float) : Option String :=
  if v2 < 0 then some "ValueError"
  else if p.a * p.V == 0 || p.b * p.V == 0 || p.c * p.V == 0 then some "ZeroDivisionError"
  else if p.sb * p.sg == 0 || p.sa * p.sg == 0 || p.sa * p.sb == 0 then some "ZeroDivisionError"
  else
    let car := (p.cb * p.cg - p.ca) / (p.sb * p.sg)
    let cbr := (p.ca * p.cg - p.cb) / (p.sa * p.sg)
    let cgr := (p.ca * p.cb - p.cg) / (p.sa * p.sb)
    if 1 - car * car < 0 || 1 - cbr * cbr < 0 || 1 - cgr * cgr < 0 then some "ValueError"
    else if p.sa / (p.a * p.V) == 0 || Float.sqrt (1 - cgr * cgr) == 0 then some "ZeroDivisionError"
    else none

def parGuard (a b c al be ga : Float) (Q : Mat3 Float) : Option String :=
  let p := csOfPar a b c al be ga
  let v2 := 1 + 2 * p.ca * p.cb * p.cg - p.ca * p.ca - p.cb * p.cb - p.cg * p.cg
  match tailGuard p v2 with
  | some e => some e
  | none => if (ofPar a b c al be ga Q).base.det == 0 then some "LinAlgError" else none

def baseGuard (B : Mat3 Float) : Option String :=
  let d := B.det
  if d.abs < 1.0e-8 then some "LatticeError"
  else if d < 0 then some "LatticeError"
  else
    let p := csOfBase B
    if 1 - p.ca * p.ca < 0 || 1 - p.cb * p.cb < 0 || 1 - p.cg * p.cg < 0 then some "ValueError"
    else
      let ca := Elem.cosd p.alpha
      let cb := Elem.cosd p.beta
      let cg := Elem.cosd p.gamma
      let v2 := 1 + 2 * ca * cb * cg - ca * ca - cb * cb - cg * cg
      match tailGuard p v2 with
      | some e => some e
      | none => if (ofBase B).stdbase.det == 0 then some "LinAlgError" else none

/-- arguments of `setLatPar` applied to the current parameters (for the guard) -/
def parGuardUpd (L : Lattice Float) (p : ParArgs Float) : Option String :=
  parGuard (p.a.getD L.a) (p.b.getD L.b) (p.c.getD L.c) (p.alpha.getD L.alpha) (p.beta.getD L.beta)
    (p.gamma.getD L.gamma) (p.baserot.getD L.baserot)

/-- guarded step: `Except.error kind` where the Python call raises -/
def stepF (w : List (Lattice Float)) (op : Op Float) : Except String (List (Lattice Float)) :=
  let guard : Option String :=
    match op with
    | .newDefault => none
    | .newPar a b c al be ga rot => parGuard a b c al be ga (rot.getD Mat3.one)
    | .newBase B => baseGuard B
    | .copy _ => none
    | .recip i => (w[i]?).bind (fun L => baseGuard L.recbase.transpose)
    | .setPar i p => (w[i]?).bind (fun L => parGuardUpd L p)
    | .setProp i k v => (w[i]?).bind (fun L => (propArgs k v).bind (fun p => parGuardUpd L p))
    | .setBase _ B => baseGuard B
  match guard with
  | some e => .error e
  | none =>
    match step w op with
    | some w' => .ok w'
    | none => .error "bad-op"

/-- index of the object an operation touched or created (in the world *after* the step) -/
def touched (n : Nat) : Op Float → Nat
  | .newDefault | .newPar .. | .newBase _ | .copy _ | .recip _ => n - 1
  | .setPar i _ | .setProp i _ _ | .setBase i _ => i

def showScalars (L : Lattice Float) : String :=
  " ".intercalate ([L.a, L.b, L.c, L.alpha, L.beta, L.gamma, L.ca, L.cb, L.cg, L.sa, L.sb, L.sg,
    L.ar, L.br, L.cr, L.alphar, L.betar, L.gammar, L.car, L.cbr, L.cgr, L.sar, L.sbr, L.sgr,
    L.unitvolume, L.volume].map bitsOfFloat)

/-- 26 scalars then the eight arrays row-major: 98 numbers -/
def showAttrs (L : Lattice Float) : String :=
  " ".intercalate [showScalars L, showMat L.metrics, showMat L.stdbase, showMat L.baserot, showMat L.base,
    showMat L.recbase, showMat L.normbase, showMat L.recnormbase, showMat L.isotropicunit]

def maxAbs (m : Mat3 Float) : Float :=
  [m.a11, m.a12, m.a13, m.a21, m.a22, m.a23, m.a31, m.a32, m.a33].foldl (fun acc x => max acc x.abs) 0

/-- `isanisotropic`: `fabs(umx - utr*isotropicunit).max() > 1e-8` -/
def isanisotropic (L : Lattice Float) (U : Mat3 Float) : Bool := maxAbs (L.udev U) > 1.0e-8

/-- which of the three forms `__repr__` prints -/
def reprClass (L : Lattice Float) : String :=
  if maxAbs (L.baserot.sub Mat3.one) > 1.0e-8 then "base"
  else
    let d := [1 - L.a, 1 - L.b, 1 - L.c, 90 - L.alpha, 90 - L.beta, 90 - L.gamma].foldl (fun acc x => max acc x.abs) 0
    if d < 1.0e-8 then "unit" else "par"

/-- which branch of `__init__` runs for a given set of supplied arguments
(bits 0..7 = a b c alpha beta gamma baserot base; `aIsLat`: the first argument is a `Lattice`) -/
def ctorForm (mask : Nat) (aIsLat : Bool) : String :=
  let n := (List.range 8).foldl (fun acc i => acc + (mask >>> i) % 2) 0
  if mask == 0 then "default"
  else if (mask >>> 7) % 2 == 1 then (if n > 1 then "err ValueError" else "base")
  else if aIsLat && mask % 2 == 1 then (if n > 1 then "err ValueError" else "copy")
  else if mask % 64 == 63 then "par" else "err ValueError"

/-! #### parsing -/

def takeF (n : Nat) (ws : List String) : Option (List Float × List String) :=
  if ws.length < n then none else (parseFloats (ws.take n)).map (fun l => (l, ws.drop n))

def takeMat (ws : List String) : Option (Mat3 Float × List String) :=
  (takeF 9 ws).bind (fun (l, r) => (matOfList l).map (fun m => (m, r)))

def takeVec (ws : List String) : Option (Vec3 Float × List String) :=
  (takeF 3 ws).bind (fun (l, r) => (vecOfList l).map (fun m => (m, r)))

/-- the values announced by the 7-bit mask of a `setLatPar` call, in argument order -/
def takeParArgs (mask : Nat) (ws : List String) : Option (ParArgs Float × List String) := do
  let bit (i : Nat) : Bool := (mask >>> i) % 2 == 1
  let opt (i : Nat) (ws : List String) : Option (Option Float × List String) :=
    if bit i then (takeF 1 ws).bind (fun (l, r) => l.head?.map (fun x => (some x, r))) else some (none, ws)
  if mask ≥ 128 then none
  let (a, ws) ← opt 0 ws
  let (b, ws) ← opt 1 ws
  let (c, ws) ← opt 2 ws
  let (al, ws) ← opt 3 ws
  let (be, ws) ← opt 4 ws
  let (ga, ws) ← opt 5 ws
  let (rot, ws) ← if bit 6 then (takeMat ws).map (fun (m, r) => (some m, r)) else some (none, ws)
  return ({ a := a, b := b, c := c, alpha := al, beta := be, gamma := ga, baserot := rot }, ws)

/-- one operation:
`D` | `P a b c al be ga N` | `P a b c al be ga R q×9` | `B b×9` | `C i` | `X i` |
`S i mask vals…` | `A i k v` | `L i b×9` -/
def takeOp (ws : List String) : Option (Op Float × List String) :=
  match ws with
  | "D" :: r => some (.newDefault, r)
  | "P" :: r => do
    let (l, r) ← takeF 6 r
    match l, r with
    | [a, b, c, al, be, ga], "N" :: r => some (.newPar a b c al be ga none, r)
    | [a, b, c, al, be, ga], "R" :: r => (takeMat r).map (fun (m, r) => (.newPar a b c al be ga (some m), r))
    | _, _ => none
  | "B" :: r => (takeMat r).map (fun (m, r) => (.newBase m, r))
  | "C" :: i :: r => i.toNat?.map (fun i => (.copy i, r))
  | "X" :: i :: r => i.toNat?.map (fun i => (.recip i, r))
  | "S" :: i :: m :: r => do
    let i ← i.toNat?
    let m ← m.toNat?
    let (p, r) ← takeParArgs m r
    return (.setPar i p, r)
  | "A" :: i :: k :: r => do
    let i ← i.toNat?
    let k ← k.toNat?
    let (l, r) ← takeF 1 r
    let v ← l.head?
    if k < 6 then return (.setProp i k v, r) else none
  | "L" :: i :: r => do
    let i ← i.toNat?
    let (m, r) ← takeMat r
    return (.setBase i m, r)
  | _ => none

/-- run a history; after every step print the attributes of the touched object, at the end those of
every object.  Sections are separated by `|`; a raising step prints `err <Kind>` and ends the line. -/
def histLoop (fuel : Nat) (w : List (Lattice Float)) (ws : List String) (acc : List String) : List String :=
  match fuel with
  | 0 => acc ++ ["bad-op"]
  | fuel + 1 =>
    match ws with
    | [] => acc ++ ["end"] ++ w.map showAttrs
    | _ =>
      match takeOp ws with
      | none => acc ++ ["bad-op"]
      | some (op, rest) =>
        match stepF w op with
        | .error e => acc ++ [if e == "bad-op" then e else "err " ++ e]
        | .ok w' =>
          match w'[touched w'.length op]? with
          | some L => histLoop fuel w' rest (acc ++ [showAttrs L ++ " " ++ reprClass L])
          | none => acc ++ ["bad-op"]

/-- build a world by a history (`lat.hq`): operations up to the separator `Q`; `Except.error kind` when a step raises -/
def buildHist (fuel : Nat) (w : List (Lattice Float)) (ws : List String) :
    Except String (List (Lattice Float) × List String) :=
  match fuel with
  | 0 => .error "bad-op"
  | fuel + 1 =>
    match ws with
    | "Q" :: rest => .ok (w, rest)
    | _ =>
      match takeOp ws with
      | none => .error "bad-op"
      | some (op, rest) =>
        match stepF w op with
        | .error e => .error e
        | .ok w' => buildHist fuel w' rest

def showBool (b : Bool) : String := if b then "1" else "0"

/-- queries on one lattice: `attrs` | `cart u` | `frac r` | `dot u v` | `norm u` | `rnorm h` |
`dist u v` | `angle u v` | `aniso U` | `recip` | `repr` -/
def queryLoop (fuel : Nat) (L : Lattice Float) (ws : List String) (acc : List String) : List String :=
  match fuel with
  | 0 => acc ++ ["bad-op"]
  | fuel + 1 =>
    let one (r : List String) (f : Vec3 Float → String) : List String :=
      match takeVec r with
      | some (u, r) => queryLoop fuel L r (acc ++ [f u])
      | none => acc ++ ["bad-op"]
    let two (r : List String) (f : Vec3 Float → Vec3 Float → String) : List String :=
      match takeVec r with
      | some (u, r) =>
        match takeVec r with
        | some (v, r) => queryLoop fuel L r (acc ++ [f u v])
        | none => acc ++ ["bad-op"]
      | none => acc ++ ["bad-op"]
    match ws with
    | [] => acc
    | "attrs" :: r => queryLoop fuel L r (acc ++ [showAttrs L])
    | "repr" :: r => queryLoop fuel L r (acc ++ [reprClass L])
    | "recip" :: r =>
      match baseGuard L.recbase.transpose with
      | some e => queryLoop fuel L r (acc ++ ["err " ++ e])
      | none => queryLoop fuel L r (acc ++ [showAttrs L.reciprocal])
    | "cart" :: r => one r (fun u => showVec (L.cartesian u))
    | "frac" :: r => one r (fun u => showVec (L.fractional u))
    | "norm" :: r => one r (fun u => bitsOfFloat (L.norm u))
    | "rnorm" :: r => one r (fun u => bitsOfFloat (L.rnorm u))
    | "dot" :: r => two r (fun u v => bitsOfFloat (L.dot u v))
    | "dist" :: r => two r (fun u v => bitsOfFloat (L.dist u v))
    | "angle" :: r => two r (fun u v => bitsOfFloat (L.angle u v))
    | "aniso" :: r =>
      match takeMat r with
      | some (U, r) => queryLoop fuel L r (acc ++ [showBool (L.isanisotropic U)])
      | none => acc ++ ["bad-op"]
    | _ => acc ++ ["bad-op"]

end Lattice

/-- line-protocol handler of the lattice model:
* `lat.q <ctor op> <query>…`   → answers separated by ` | ` (or `err <Kind>` when the constructor raises)
* `lat.hq <k> <op>… Q <query>…` → the same queries on object `k` reached through an update history
* `lat.hist <op>…`             → per-step attributes of the touched object, `end`, all objects
* `lat.ctorform <mask> <0|1>`  → branch of `__init__` taken
* `lat.cosd x` / `lat.sind x`  → the helper functions -/
def latHandle (ws : List String) : Option String :=
  match ws with
  | "lat.q" :: rest =>
    match Lattice.takeOp rest with
    | some (op, qs) =>
      match Lattice.stepF [] op with
      | .ok [L] => some (" | ".intercalate (Lattice.queryLoop (qs.length + 1) L qs []))
      | .ok _ => some "bad-op"
      | .error e => some (if e == "bad-op" then e else "err " ++ e)
    | none => some "bad-op"
  -- lat.hq <k> <op>… Q <query>… : queries on object k of the world reached by the history
  | "lat.hq" :: k :: rest =>
    match k.toNat? with
    | none => some "bad-op"
    | some k =>
      match Lattice.buildHist (rest.length + 1) [] rest with
      | .error e => some (if e == "bad-op" then e else "err " ++ e)
      | .ok (w, qs) =>
        match w[k]? with
        | some L => some (" | ".intercalate (Lattice.queryLoop (qs.length + 1) L qs []))
        | none => some "bad-op"
  | "lat.hist" :: rest => some (" | ".intercalate (Lattice.histLoop (rest.length + 1) [] rest []))
  | ["lat.ctorform", m, f] =>
    match m.toNat?, f.toNat? with
    | some m, some f => if m < 256 && f < 2 then some (Lattice.ctorForm m (f == 1)) else some "bad-op"
    | _, _ => some "bad-op"
  | ["lat.cosd", x] => some (((floatOfBits? x).map (fun x => bitsOfFloat (Elem.cosd x))).getD "bad-op")
  | ["lat.sind", x] => some (((floatOfBits? x).map (fun x => bitsOfFloat (Elem.sind x))).getD "bad-op")
  | w :: _ => if w.startsWith "lat." then some "bad-op" else none
  | [] => none

end DS
