import DS.Gen.SrcSym
import DS.Lemmas.SrcSym
import Mathlib.Data.Rat.Floor
import Mathlib.Algebra.Order.Archimedean.Real.Basic
/-!
# Source tie for `expandPosition` (property C02): the integer model `DS.Orbit` IS the current source, over ℚ/ℝ

`DS/Gen/SrcSym.lean` is written on every run by `translate/src_sym.py` from the CURRENT text of
`symmetryutilities.py` (`_Position2Tuple.__init__/__call__`, `positionDifference`, `nearestSiteIndex`,
`equalPositions`, `expandPosition`) and `spacegroupmod.py` (`SymOp.__call__`): every function as a composition of the
numpy/Python primitives of `DS/Model/SymReal.lean` over a generic scalar; the dictionary `site_symops` as
key ↦ list OBJECT ↦ contents, so that `site_symops[tpl] = site_symops[pos2tuple(nearpos)]` shares one list.

This file proves, for every linearly ordered field with floor (`refines`; `refines_rat`, `refines_real` for ℚ, ℝ):
running that transliteration on `x/D`, `off/D`, `eps = E/D` (`D = 24k`) with the operations `(R, t/24)` raises no
exception and returns `Orbit.result ops k E off x / D` — positions, operation lists, multiplicity.  So the C02 theorems
about `Orbit.expand` are theorems about the real-number semantics of the source as it is now.  Floating point stays
with the correspondence of `harness/c02.py`.

Layers: `*_shape` (`rfl`: each helper is coordinate-wise the scalar form `foldCell`/`pdiffS`/… of
`DS/Lemmas/SrcSym.lean`), `*_refines` per helper, `loop_*` (the four ways through one iteration), `step_refines`
(one iteration refines `Orbit.stepOp`, by the simulation `SymTie.Sim` that tolerates the unreferenced `[]`),
`fold_refines` (induction over the operation list), `refines`.  `facts_eq` pins the statements kept as text.
-/

namespace DS.Props.SrcSym
open DS DS.SymTie
set_option linter.unusedSectionVars false
set_option linter.unusedVariables false

variable {α : Type} [Field α] [LinearOrder α] [IsStrictOrderedRing α] [FloorRing α]

/-! ### shape of the transliterated helpers: each is, coordinate by coordinate, the scalar form of `DS.SymTie` -/

theorem symopCall_shape (s : SymOp α) (v : V3 α) : Src.Sym.symopCall s v = Np.add (Np.dot s.R v) s.t := rfl

theorem image_shape (s : SymOp α) (x o : V3 α) (eps : α) :
    Src.Sym.image s x o eps = Np.map3 foldCell (Np.sub (Src.Sym.symopCall s (Np.add x o)) o) := rfl

theorem pos2tupleCall_shape (e : α) (x : V3 α) :
    Src.Sym.pos2tupleCall e x = Np.map3 (fun xi => Py.int ((xi - Np.floorS xi) / e)) x := rfl

theorem positionDifference_shape (u v : V3 α) : Src.Sym.positionDifference u v = Np.zip3 pdiffS u v := rfl

theorem equalPositions_shape (u v : V3 α) (e : α) : Src.Sym.equalPositions u v e =
    (decide (pdiffS u.1 v.1 ≤ e) && decide (pdiffS u.2.1 v.2.1 ≤ e) && decide (pdiffS u.2.2 v.2.2 ≤ e)) := rfl

theorem nearestSiteIndex_shape (l : List (V3 α)) (p : V3 α) : Src.Sym.nearestSiteIndex l p =
    Np.argmin (l.map fun r => Np.max2 (Np.max2 (pdiffS r.1 p.1) (pdiffS r.2.1 p.2.1)) (pdiffS r.2.2 p.2.2)) := by
  simp only [Src.Sym.nearestSiteIndex, Np.maxAxis1, List.map_map]
  rfl

/-! ### refinement of the helpers on the grid -/

section
variable {k : Int} (hk : 0 < k)
include hk

/-- `_Position2Tuple.__init__`: `(eps + 1.0) - 1.0` is `eps` in exact arithmetic -/
theorem pos2tupleInit_refines (e : α) : Src.Sym.pos2tupleInit e = e := by
  have e1 : (1.0 : α) = 1 := by norm_num
  simp only [Src.Sym.pos2tupleInit, e1, add_sub_cancel_right]

/-- `pos = symop(xyz + sgoffset) - sgoffset` folded into the cell is `Orbit.img` -/
theorem img_refines (a : Op) (off x : P3) (eps : α) :
    Src.Sym.image (toSym a) (castP k x) (castP k off) eps = castP k (Orbit.img a k off x) := by
  obtain ⟨x1, x2, x3⟩ := x
  obtain ⟨o1, o2, o3⟩ := off
  rw [image_shape, symopCall_shape]
  simp only [Np.map3, Np.sub, Np.add, Np.dot, Np.dotRow, Np.zip3, toSym, castP, sc_add, sc_mul, sc_t hk, sc_sub,
    foldCell_sc hk, Orbit.img]

/-- `_Position2Tuple.__call__` on a position inside the cell is `Orbit.bucket` -/
theorem bucket_refines {E : Int} (hE : 0 < E) {p : P3} (hp : Orbit.InCell (24 * k) p) :
    Src.Sym.pos2tupleCall (sc k E : α) (castP k p) = Orbit.bucket E p := by
  obtain ⟨p1, p2, p3⟩ := p
  obtain ⟨⟨a1, b1⟩, ⟨a2, b2⟩, ⟨a3, b3⟩⟩ := hp
  simp only at a1 b1 a2 b2 a3 b3
  rw [pos2tupleCall_shape]
  simp only [Np.map3, castP, floorS_eq, sc_sub_floor hk, Orbit.bucket,
    Int.emod_eq_of_lt a1 b1, Int.emod_eq_of_lt a2 b2, Int.emod_eq_of_lt a3 b3,
    pyInt_sc hk a1 hE, pyInt_sc hk a2 hE, pyInt_sc hk a3 hE]

/-- `positionDifference`, one coordinate at a time, is `Orbit.pdiff1` -/
theorem pdiff1_refines (q p : P3) :
    Src.Sym.positionDifference (castP k q : V3 α) (castP k p) =
      castP k (Orbit.pdiff1 (24 * k) q.1 p.1, Orbit.pdiff1 (24 * k) q.2.1 p.2.1, Orbit.pdiff1 (24 * k) q.2.2 p.2.2) := by
  rw [positionDifference_shape]
  simp only [Np.zip3, castP, pdiffS_sc hk]

/-- the row maximum of `positionDifference` is `Orbit.boxDist` -/
theorem boxDist_refines (q p : P3) :
    Np.maxAxis1 [Src.Sym.positionDifference (castP k q : V3 α) (castP k p)] = [sc k (Orbit.boxDist (24 * k) q p)] := by
  rw [pdiff1_refines hk]
  simp only [Np.maxAxis1, List.map_cons, List.map_nil, castP, max2_sc hk, Orbit.boxDist, max_assoc]

/-- `equalPositions(nearpos, pos, eps)` is `boxDist ≤ E` -/
theorem equalPositions_refines (E : Int) (q p : P3) :
    Src.Sym.equalPositions (castP k q : V3 α) (castP k p) (sc k E) = decide (Orbit.boxDist (24 * k) q p ≤ E) := by
  rw [equalPositions_shape]
  simp only [castP, pdiffS_sc hk, sc_le hk, Orbit.boxDist]
  rw [Bool.eq_iff_iff]
  simp only [Bool.and_eq_true, decide_eq_true_eq, max_le_iff, and_assoc]

/-- `nearestSiteIndex(positions, pos)` on a non-empty list is `Orbit.nearestIdx` -/
theorem nearestIdx_refines (ps : List P3) (p : P3) (h : ps ≠ []) :
    Src.Sym.nearestSiteIndex (ps.map (castP k) : List (V3 α)) (castP k p) = some (Orbit.nearestIdx (24 * k) ps p) := by
  rw [nearestSiteIndex_shape, List.map_map, ← argmin_sc (α := α) hk p ps h]
  congr 1
  apply List.map_congr_left
  intro q _
  exact boxS_sc hk q p

end

/-! ### the four ways through one iteration of the loop, on the transliteration alone -/

section exec
variable {β : Type} [Add β] [Sub β] [Mul β] [Div β] [Neg β] [LT β] [LE β] [DecidableLT β] [DecidableLE β]
  [OfNat β 0] [OfScientific β] [IntCast β] [FloorOrd β]
variable (xyz off : V3 β) (eps e2 : β) (st : LoopSt β) (sym : SymOp β)

local notation "POS" => Src.Sym.image sym xyz off eps
local notation "TPL" => Src.Sym.pos2tupleCall e2 (Src.Sym.image sym xyz off eps)

/-- the bucket is already a key: only `site_symops[tpl].append(symop)` -/
theorem loop_known {n : Nat} (h : RefDict.lookup st.site_symops.keys TPL = some n) :
    Src.Sym.loopBody xyz off eps e2 st sym =
      some ⟨st.positions, { st.site_symops with objs := st.site_symops.objs.modify n (fun l => l ++ [sym]) }⟩ := by
  simp [Src.Sym.loopBody, RefDict.contains, RefDict.appendAt, h]

/-- a new bucket, no position listed yet: a new list object, a new position -/
theorem loop_first (h : RefDict.lookup st.site_symops.keys TPL = none) (hp : st.positions = []) :
    Src.Sym.loopBody xyz off eps e2 st sym =
      some ⟨[POS], ⟨RefDict.assocSet st.site_symops.keys TPL st.site_symops.objs.length,
        (st.site_symops.objs ++ [[]]).modify st.site_symops.objs.length (fun l => l ++ [sym])⟩⟩ := by
  simp [Src.Sym.loopBody, RefDict.contains, RefDict.appendAt, RefDict.bindFresh, h, hp, lookup_assocSet]

/-- a new bucket whose position is equal (within `eps`) to the nearest listed one: the key is bound to THAT
position's list object; the fresh list object stays unreferenced -/
theorem loop_alias {j m : Nat} {near : V3 β} (h : RefDict.lookup st.site_symops.keys TPL = none) (hp : st.positions ≠ [])
    (hj : Src.Sym.nearestSiteIndex st.positions POS = some j) (hn : st.positions[j]? = some near)
    (he : Src.Sym.equalPositions near POS eps = true)
    (hm : RefDict.lookup (RefDict.assocSet st.site_symops.keys TPL st.site_symops.objs.length)
            (Src.Sym.pos2tupleCall e2 near) = some m) :
    Src.Sym.loopBody xyz off eps e2 st sym =
      some ⟨st.positions, ⟨RefDict.assocSet (RefDict.assocSet st.site_symops.keys TPL st.site_symops.objs.length) TPL m,
        (st.site_symops.objs ++ [[]]).modify m (fun l => l ++ [sym])⟩⟩ := by
  have hp' : st.positions.isEmpty = false := by
    cases hh : st.positions with
    | nil => exact absurd hh hp
    | cons _ _ => rfl
  simp [Src.Sym.loopBody, RefDict.contains, RefDict.appendAt, RefDict.bindFresh, RefDict.bindSame, h, hp', hj, hn, he, hm]
  simp [lookup_assocSet]

/-- a new bucket, the nearest listed position is farther than `eps`: a new list object, a new position -/
theorem loop_new {j : Nat} {near : V3 β} (h : RefDict.lookup st.site_symops.keys TPL = none) (hp : st.positions ≠ [])
    (hj : Src.Sym.nearestSiteIndex st.positions POS = some j) (hn : st.positions[j]? = some near)
    (he : Src.Sym.equalPositions near POS eps = false) :
    Src.Sym.loopBody xyz off eps e2 st sym =
      some ⟨st.positions ++ [POS], ⟨RefDict.assocSet st.site_symops.keys TPL st.site_symops.objs.length,
        (st.site_symops.objs ++ [[]]).modify st.site_symops.objs.length (fun l => l ++ [sym])⟩⟩ := by
  have hp' : st.positions.isEmpty = false := by
    cases hh : st.positions with
    | nil => exact absurd hh hp
    | cons _ _ => rfl
  simp [Src.Sym.loopBody, RefDict.contains, RefDict.appendAt, RefDict.bindFresh, h, hp', hj, hn, he, lookup_assocSet]

end exec

/-! ### one iteration of the loop refines `Orbit.stepOp` -/

theorem step_refines {k E : Int} (hk : 0 < k) (hE : 0 < E) (off x : P3) {s : LoopSt α} {o : Orbit.St} {ρ : Nat → Nat}
    (hs : Sim k s o ρ) (hw : WF (24 * k) E o) (a : Op) :
    ∃ s' ρ', Src.Sym.loopBody (castP k x) (castP k off) (sc k E) (sc k E) s (toSym a) = some s' ∧
      Sim k s' (Orbit.stepOp k E off x o a) ρ' := by
  have himg := img_refines (α := α) hk a off x (sc k E)
  have hcell := Orbit.img_inCell a hk off x
  have htpl : Src.Sym.pos2tupleCall (sc k E : α) (Src.Sym.image (toSym a) (castP k x) (castP k off) (sc k E))
      = Orbit.bucket E (Orbit.img a k off x) := by rw [himg, bucket_refines hk hE hcell]
  cases hl : Orbit.lookupKey o.keymap (Orbit.bucket E (Orbit.img a k off x)) with
  | some i =>
    have hi := hw.keys_lt _ _ hl
    have h1 : RefDict.lookup s.site_symops.keys (Src.Sym.pos2tupleCall (sc k E : α)
        (Src.Sym.image (toSym a) (castP k x) (castP k off) (sc k E))) = some (ρ i) := by rw [htpl, hs.keys, hl]; rfl
    refine ⟨_, ρ, loop_known _ _ _ _ _ _ h1, ?_⟩
    rw [stepOp_known k E off x o a hl]
    exact sim_known hs hi a
  | none =>
    have h1 : RefDict.lookup s.site_symops.keys (Src.Sym.pos2tupleCall (sc k E : α)
        (Src.Sym.image (toSym a) (castP k x) (castP k off) (sc k E))) = none := by rw [htpl, hs.keys, hl]; rfl
    by_cases hp : o.positions = []
    · -- the first position
      have hsp : s.positions = [] := by rw [hs.pos, hp]; rfl
      refine ⟨_, (fun j => if j = o.classes.length then s.site_symops.objs.length else ρ j), loop_first _ _ _ _ _ _ h1 hsp, ?_⟩
      rw [stepOp_first k E off x o a hl hp]
      have := sim_new hs hw.len hw.keys_lt hl (Orbit.img a k off x) a
      rw [hsp, hp, hw.nil hp] at this
      rw [htpl, himg]
      have hc : o.classes = [] := by
        have := hw.len; rw [hp] at this
        exact List.eq_nil_of_length_eq_zero this.symm
      rw [hc] at this ⊢
      exact this
    · have hsp : s.positions ≠ [] := by
        rw [hs.pos]; intro h; exact hp (List.map_eq_nil_iff.1 h)
      have hjlt := Orbit.nearestIdx_lt (24 * k) o.positions (Orbit.img a k off x) hp
      have hgetD : o.positions.getD (Orbit.nearestIdx (24 * k) o.positions (Orbit.img a k off x)) (Orbit.img a k off x)
          = o.positions[Orbit.nearestIdx (24 * k) o.positions (Orbit.img a k off x)] := by
        rw [List.getD_eq_getElem?_getD, List.getElem?_eq_getElem hjlt]; rfl
      have hmem : o.positions[Orbit.nearestIdx (24 * k) o.positions (Orbit.img a k off x)] ∈ o.positions :=
        List.getElem_mem hjlt
      have hnsi : Src.Sym.nearestSiteIndex s.positions (Src.Sym.image (toSym a) (castP k x) (castP k off) (sc k E : α))
          = some (Orbit.nearestIdx (24 * k) o.positions (Orbit.img a k off x)) := by
        rw [hs.pos, himg]; exact nearestIdx_refines hk _ _ hp
      have hn : s.positions[Orbit.nearestIdx (24 * k) o.positions (Orbit.img a k off x)]?
          = some (castP k o.positions[Orbit.nearestIdx (24 * k) o.positions (Orbit.img a k off x)]) := by
        rw [hs.pos, List.getElem?_map, List.getElem?_eq_getElem hjlt]; rfl
      have heq := equalPositions_refines (α := α) hk E
        o.positions[Orbit.nearestIdx (24 * k) o.positions (Orbit.img a k off x)] (Orbit.img a k off x)
      rw [← himg] at heq
      by_cases hd : Orbit.boxDist (24 * k) o.positions[Orbit.nearestIdx (24 * k) o.positions (Orbit.img a k off x)]
          (Orbit.img a k off x) ≤ E
      · -- equal to the nearest listed position: alias
        obtain ⟨i, hi⟩ := hw.reg _ hmem
        have hilt := hw.keys_lt _ _ hi
        have hbn := bucket_refines (α := α) hk hE (hw.incell _ hmem)
        have hne : Orbit.bucket E o.positions[Orbit.nearestIdx (24 * k) o.positions (Orbit.img a k off x)]
            ≠ Orbit.bucket E (Orbit.img a k off x) := by
          intro h; rw [h, hl] at hi; cases hi
        have hm : RefDict.lookup (RefDict.assocSet s.site_symops.keys (Src.Sym.pos2tupleCall (sc k E : α)
              (Src.Sym.image (toSym a) (castP k x) (castP k off) (sc k E))) s.site_symops.objs.length)
            (Src.Sym.pos2tupleCall (sc k E : α) (castP k o.positions[Orbit.nearestIdx (24 * k) o.positions (Orbit.img a k off x)]))
            = some (ρ i) := by
          rw [lookup_assocSet, hbn, htpl, hs.keys, hi]
          simp [hne]
        refine ⟨_, ρ, loop_alias _ _ _ _ _ _ h1 hsp hnsi hn (by rw [heq]; exact decide_eq_true hd) hm, ?_⟩
        rw [stepOp_alias k E off x o a hl hp (by rw [hgetD]; exact hd) (by rw [hgetD]; exact hi), htpl]
        exact sim_alias hs hl hilt a
      · -- a new position
        refine ⟨_, (fun j => if j = o.classes.length then s.site_symops.objs.length else ρ j), loop_new _ _ _ _ _ _ h1 hsp hnsi hn (by rw [heq]; exact decide_eq_false hd), ?_⟩
        rw [stepOp_new k E off x o a hl hp (by rw [hgetD]; exact hd), htpl, himg]
        exact sim_new hs hw.len hw.keys_lt hl (Orbit.img a k off x) a


/-! ### the whole loop, and what `expandPosition` returns -/

theorem fold_refines {k E : Int} (hk : 0 < k) (hE : 0 < E) (off x : P3) :
    ∀ (ops : List Op) (s : LoopSt α) (o : Orbit.St) (ρ : Nat → Nat), Sim k s o ρ → WF (24 * k) E o →
      ∃ s' ρ', (ops.map toSym).foldlM (Src.Sym.loopBody (castP k x) (castP k off) (sc k E) (sc k E)) s = some s' ∧
        Sim k s' (ops.foldl (Orbit.stepOp k E off x) o) ρ' ∧ WF (24 * k) E (ops.foldl (Orbit.stepOp k E off x) o)
  | [], s, o, ρ, hs, hw => ⟨s, ρ, rfl, hs, hw⟩
  | a :: ops, s, o, ρ, hs, hw => by
    obtain ⟨s1, ρ1, h1, hs1⟩ := step_refines hk hE off x hs hw a
    obtain ⟨s2, ρ2, h2, hs2, hw2⟩ := fold_refines hk hE off x ops s1 _ ρ1 hs1 (wf_step hk off x a hw)
    refine ⟨s2, ρ2, ?_, hs2, hw2⟩
    rw [List.map_cons, List.foldlM_cons, h1]
    exact h2

theorem mapOpt_map {β γ δ : Type} (f : γ → Option δ) (g : β → γ) (h : β → δ) :
    ∀ (l : List β), (∀ p ∈ l, f (g p) = some (h p)) → Py.mapOpt f (l.map g) = some (l.map h)
  | [], _ => rfl
  | p :: l, hl => by
    rw [List.map_cons, Py.mapOpt, hl p (List.mem_cons_self ..),
      mapOpt_map f g h l (fun q hq => hl q (List.mem_cons_of_mem _ hq))]
    rfl

/-- **Refinement.**  For every list of tabulated operations `ops`, every grid `D = 24 k` (`k > 0`), tolerance `E > 0`,
origin offset `off` and site `x` on the grid: the transliteration of the CURRENT source of `expandPosition`
(with `_Position2Tuple`, `positionDifference`, `nearestSiteIndex`, `equalPositions`, `SymOp.__call__`), evaluated in
any linearly ordered field with floor on `x/D`, `off/D`, `eps = E/D` and the operations `(R, t/24)`, raises no
exception and returns exactly `Orbit.result ops k E off x` divided by `D`: the same positions in the same order, the
same list of operations for each position, the same multiplicity. -/
theorem refines (ops : List Op) {k E : Int} (hk : 0 < k) (hE : 0 < E) (off x : P3) :
    Src.Sym.expandPosition (ops.map (toSym (α := α))) (castP k x) (castP k off) (sc k E) =
      some (castResult k (Orbit.result ops k E off x)) := by
  obtain ⟨s', ρ', hfold, hs, hw⟩ := fold_refines (α := α) hk hE off x ops _ _ _ (sim_init k) (wf_init (24 * k) E)
  change Sim k s' (Orbit.expand ops k E off x) ρ' at hs
  change WF (24 * k) E (Orbit.expand ops k E off x) at hw
  unfold Src.Sym.expandPosition
  simp only [pos2tupleInit_refines hk]
  rw [hfold, Option.bind_some, hs.pos]
  have hcls : ∀ p ∈ (Orbit.expand ops k E off x).positions,
      (fun q => s'.site_symops.get (Src.Sym.pos2tupleCall (sc k E : α) q)) (castP k p) =
        some ((match Orbit.lookupKey (Orbit.expand ops k E off x).keymap (Orbit.bucket E p) with
          | some i => (Orbit.expand ops k E off x).classes.getD i []
          | none => []).map toSym) := by
    intro p hp
    obtain ⟨i, hi⟩ := hw.reg p hp
    have hilt := hw.keys_lt _ _ hi
    simp only
    rw [bucket_refines hk hE (hw.incell p hp), RefDict.get, hs.keys, hi]
    simp only [Option.map_some, Option.bind_some]
    rw [hs.objs i hilt, List.getElem?_eq_getElem hilt, Option.map_some, List.getD_eq_getElem?_getD,
      List.getElem?_eq_getElem hilt]
    rfl
  rw [mapOpt_map _ (castP k) _ _ hcls, Option.bind_some]
  simp only [castResult, Orbit.result, List.length_map, List.map_map]
  rfl

/-- the refinement over the rationals -/
theorem refines_rat (ops : List Op) {k E : Int} (hk : 0 < k) (hE : 0 < E) (off x : P3) :
    Src.Sym.expandPosition (ops.map (toSym (α := ℚ))) (castP k x) (castP k off) (sc k E) =
      some (castResult k (Orbit.result ops k E off x)) := refines ops hk hE off x

/-- the refinement over the reals -/
theorem refines_real (ops : List Op) {k E : Int} (hk : 0 < k) (hE : 0 < E) (off x : P3) :
    Src.Sym.expandPosition (ops.map (toSym (α := ℝ))) (castP k x) (castP k off) (sc k E) =
      some (castResult k (Orbit.result ops k E off x)) := refines ops hk hE off x

/-! ### non-vacuity: the hypotheses are satisfiable and all branches of the loop are exercised -/

/-- `x ↦ −x` -/
def inv : Op := ⟨-1, 0, 0, 0, -1, 0, 0, 0, -1, 0, 0, 0⟩

/-- `D = 24`, `E = 5`, site `(1,0,0)/24`: the image `(23,0,0)/24` falls into another bucket (4 ≠ 0) but is within
`eps` of the listed position (periodic distance 2/24): the ALIAS branch — one position, both operations in its list -/
example : Src.Sym.expandPosition ([Op.one, inv].map (toSym (α := ℚ))) (castP 1 (1, 0, 0)) (castP 1 (0, 0, 0)) (sc 1 5) =
    some ([castP 1 (1, 0, 0)], [[toSym Op.one, toSym inv]], 1) := by
  rw [refines_rat _ (by decide) (by decide)]
  have : Orbit.result [Op.one, inv] 1 5 (0, 0, 0) (1, 0, 0) = ([(1, 0, 0)], [[Op.one, inv]], 1) := by decide
  rw [this]; rfl

/-- `E = 1`: the two images are farther apart than `eps`: the NEW-position branch — two positions, one operation each;
a third operation equal to the first exercises the KNOWN-key branch -/
example : Src.Sym.expandPosition ([Op.one, inv, Op.one].map (toSym (α := ℚ))) (castP 1 (1, 0, 0)) (castP 1 (0, 0, 0)) (sc 1 1) =
    some ([castP 1 (1, 0, 0), castP 1 (23, 0, 0)], [[toSym Op.one, toSym Op.one], [toSym inv]], 2) := by
  rw [refines_rat _ (by decide) (by decide)]
  have : Orbit.result [Op.one, inv, Op.one] 1 1 (0, 0, 0) (1, 0, 0) =
      ([(1, 0, 0), (23, 0, 0)], [[Op.one, Op.one], [inv]], 2) := by decide
  rw [this]; rfl

example : Orbit.InCell (24 * 1) (1, 2, 3) := by simp [Orbit.InCell]
example : ([(1, 2, 3)] : List P3) ≠ [] := by decide

/-- the statements of the source that are kept as text: the default `eps`, the branch of `_Position2Tuple` for a
tolerance that is zero or smaller than `1/sys.maxsize` (keys are then floats; outside the model, which needs
`E > 0` and `D/E ≤ sys.maxsize`), `iter_symops` = the tabulated list in order, the conversion of `sgoffset`, and the
construction of the returned triple -/
theorem facts_eq : Src.Sym.facts = [
    ("SpaceGroup.iter_symops", "return iter(self.symop_list)"),
    ("SymOp.__init__", "self.R = R; self.t = t; return"),
    ("_Position2Tuple.__call__ eps == 0 branch", "if self.eps == 0.0:     tpl = tuple(xyz % 1.0)     return tpl"),
    ("_Position2Tuple.__init__ default", "if eps is None:     eps = epsilon"),
    ("_Position2Tuple.__init__ small-eps guard", "if self.eps == 0.0 or 1.0 / self.eps > sys.maxsize:     self.eps = 0.0"),
    ("expandPosition epilogue", "pos_symops = [site_symops[pos2tuple(p)] for p in positions]; multiplicity = len(positions); return (positions, pos_symops, multiplicity)"),
    ("expandPosition prologue", "sgoffset = numpy.asarray(sgoffset, dtype=float); if eps is None:     eps = epsilon; pos2tuple = _Position2Tuple(eps); positions = []; site_symops = {}")] := rfl

end DS.Props.SrcSym
