import DS.Gen.SrcLookup
import DS.Gen.Lookup
import DS.Gen.Protocol
import DS.Lemmas.Lookup
import DS.Props.C19
/-!
# Source tie for the space-group lookup functions (serves C11 and C19)

`DS/Gen/SrcLookup.lean` is regenerated on every run by `translate/src_lookup.py` from the CURRENT
`spacegroups.py` / `spacegroupmod.py`: `GetSpaceGroup`, `IsSpaceGroupIdentifier`, `_buildSGLookupTable`,
`_hashSymOpList`, `_getSGHashLookupTable`, `FindSpaceGroup`, `SpaceGroup.iter_symops`, `SpaceGroup.check_group_name`
statement by statement over the model's `Table`/`Key`/`Op`, `SymOp.__str__` as data, and the ordered events of the
reader/builder functions on the two module-level dictionaries.

The theorems below identify these transliterations with the model of `DS/Model/Lookup.lean` that the C11 theorems
speak about (`getSG`, `buildTable`, `canon`, `findSG`, `sameOrder`) — for ALL tables, identifiers, setting lists and
operation lists — and decide, from the extracted statement skeleton, that both dictionaries are built by the
`publish` protocol of `DS/Model/Sched.lean` that the C19 theorems speak about.  Python primitives are defined in the
generated file (`sliceTo`, `sliceFrom`, `upper`, `lower`, `replaceChar`, `hset`, `hsetdefault`, `zipLongest`); the
equalities with the model's `removeBlanks`, `capitalise`, last-match-wins accumulator and `sameOrder` are proved here.
-/

namespace DS.Props.SrcLookup
open DS DS.Lookup

/-! ## 1. string primitives -/

theorem flatMap_drop_char (c : Char) : ∀ l : List Char,
    (l.flatMap fun x => if x = c then [] else [x]) = l.filter (· ≠ c)
  | [] => rfl
  | x :: xs => by
    rw [List.flatMap_cons, flatMap_drop_char c xs, List.filter_cons]
    by_cases h : x = c <;> simp [h]

/-- `x.replace(" ", "")` is the model's `removeBlanks` -/
theorem replaceChar_blank (s : String) : Src.Lookup.replaceChar s ' ' "" = removeBlanks s := by
  unfold Src.Lookup.replaceChar removeBlanks
  congr 1
  exact flatMap_drop_char ' ' s.toList

/-- `x[:1].upper() + x[1:].lower()` is the model's `capitalise` -/
theorem capFirstLowerRest_eq (s : String) :
    Src.Lookup.upper (Src.Lookup.sliceTo s 1) ++ Src.Lookup.lower (Src.Lookup.sliceFrom s 1)
      = capitalise s := by
  rw [capitalise_eq, ← String.toList_inj]
  simp only [Src.Lookup.upper, Src.Lookup.lower, Src.Lookup.sliceTo, Src.Lookup.sliceFrom,
    String.toList_append, String.toList_ofList]
  cases s.toList <;> simp [capL]

/-- `GetSpaceGroup` as written — exact key, non-string rejection, `strip`, blank removal + capitalisation, lookup,
capitalisation of the stripped identifier, lookup, `ValueError`, in this order — is the model's `getSG` -/
theorem GetSpaceGroup_eq (t : Table) (id : Key) : Src.Lookup.GetSpaceGroup t id = getSG t id := by
  unfold Src.Lookup.GetSpaceGroup getSG normShort normFull
  simp only [replaceChar_blank, capFirstLowerRest_eq]
  cases lookup t id with
  | some i => rfl
  | none =>
    cases id with
    | num n => rfl
    | str s =>
      dsimp only
      cases lookup t (.str (capitalise (removeBlanks (strip s)))) with
      | some i => rfl
      | none => dsimp only; cases lookup t (.str (capitalise (strip s))) <;> rfl

/-- `IsSpaceGroupIdentifier` is "`GetSpaceGroup` does not raise ValueError" -/
theorem IsSpaceGroupIdentifier_eq (t : Table) (id : Key) :
    Src.Lookup.IsSpaceGroupIdentifier t id = (getSG t id).isSome := by
  unfold Src.Lookup.IsSpaceGroupIdentifier
  rw [GetSpaceGroup_eq]
  cases getSG t id <;> rfl

/-! ## 2. `_buildSGLookupTable` -/

/-- the `setdefault` calls of the settings loop, in source order, are the model's `addSG` -/
theorem build_settings_body_eq (t : Table) (g : SG) (i : Nat) :
    Src.Lookup.build_settings_body t g i = addSG t g i := by rfl

theorem build_settings_eq : ∀ (sgs : List SG) (t : Table) (i : Nat),
    Src.Lookup.build_settings t sgs i = addAll t sgs i
  | [], t, i => by rw [Src.Lookup.build_settings, addAll]
  | g :: gs, t, i => by
    rw [Src.Lookup.build_settings, addAll, build_settings_body_eq, build_settings_eq gs]

/-- the alias loop (`hm.replace(" ", "")`, `table[hmbare]` may raise, `setdefault`) is the model's `addAliases` -/
theorem build_aliases_eq : ∀ (al : List (String × String)) (t : Table),
    Src.Lookup.build_aliases t al = addAliases t al
  | [], t => by rw [Src.Lookup.build_aliases, addAliases]
  | (a, hm) :: rest, t => by
    rw [Src.Lookup.build_aliases, addAliases, Src.Lookup.build_alias_body]
    simp only [replaceChar_blank]
    cases lookup t (.str (removeBlanks hm)) with
    | none => rfl
    | some v => exact build_aliases_eq rest _

/-- the alias list of the source is the hand-written copy and the list extracted by translate/lookup.py -/
theorem alias_hmname_eq : Src.Lookup.alias_hmname = stdAliases := by rfl
theorem alias_hmname_eq_gen : Src.Lookup.alias_hmname = Gen.aliases := by rfl

/-- the private dictionary `_buildSGLookupTable` publishes is the model's `buildTable` (the table of the C11 theorems),
for every list of settings -/
theorem buildSGLookupTable_eq (sgl : List SG) :
    Src.Lookup._buildSGLookupTable sgl = buildTable sgl Gen.aliases := by
  unfold Src.Lookup._buildSGLookupTable buildTable
  simp only [build_settings_eq, build_aliases_eq, alias_hmname_eq_gen]

/-! ## 3. fingerprints and `FindSpaceGroup` -/

/-- `hash(tuple(sorted(str(o) for o in symops)))` is the model's fingerprint `canon` -/
theorem hashSymOpList_eq (ops : List Op) : Src.Lookup._hashSymOpList ops = canon ops := by rfl

open Src.Lookup in
theorem hget_nil (c : List Nat) : hget [] c = none := by rfl

open Src.Lookup in
theorem hget_cons (e : List Nat × Nat) (t : HTable) (c : List Nat) :
    hget (e :: t) c = if e.1 = c then some e.2 else hget t c := by
  unfold hget
  rw [List.find?_cons]
  by_cases h : e.1 = c
  · simp [h]
  · have : (e.1 == c) = false := by simpa using h
    simp [h, this]

open Src.Lookup in
theorem hget_append_single (t : HTable) (k c : List Nat) (v : Nat) :
    hget (t ++ [(k, v)]) c = (hget t c).or (if k = c then some v else none) := by
  induction t with
  | nil => simp [hget_cons, hget_nil]
  | cons e t ih =>
    rw [List.cons_append, hget_cons, hget_cons, ih]
    by_cases h : e.1 = c <;> simp [h]

open Src.Lookup in
theorem hget_map_set (t : HTable) (k c : List Nat) (v : Nat) :
    hget (t.map fun e => if e.1 == k then (k, v) else e) c
      = if k = c then (hget t k).map (fun _ => v) else hget t c := by
  induction t with
  | nil => by_cases h : k = c <;> simp [hget_nil, h]
  | cons e t ih =>
    rw [List.map_cons, hget_cons, ih, hget_cons, hget_cons]
    by_cases h1 : e.1 = k
    · by_cases h2 : k = c
      · subst h2; simp [h1]
      · have : ¬ e.1 = c := fun h => h2 (h1 ▸ h)
        simp [h1, h2]
    · by_cases h2 : k = c
      · subst h2; simp [h1]
      · simp [h1, h2]

open Src.Lookup in
/-- `table[k] = v`: afterwards `k` maps to `v`, every other key is untouched -/
theorem hget_hset (t : HTable) (k c : List Nat) (v : Nat) :
    hget (hset t k v) c = if k = c then some v else hget t c := by
  unfold hset
  cases h : hget t k with
  | some w =>
    simp only
    rw [hget_map_set, h]
    rfl
  | none =>
    simp only
    rw [hget_append_single]
    by_cases h2 : k = c
    · subst h2; simp [h]
    · simp [h2]

open Src.Lookup in
/-- the dictionary built by the loop answers a fingerprint with the LAST position that has it (`table[h] = sg`
overwrites): exactly the accumulator of the model's `findSG` -/
theorem hget_hash_loop (c : List Nat) : ∀ (sgs : List SG) (t : HTable) (i : Nat),
    hget (hash_loop t sgs i) c = findSG.go c sgs i (hget t c)
  | [], t, i => by rw [hash_loop, go_nil]
  | g :: gs, t, i => by
    rw [hash_loop, go_cons, hget_hash_loop c gs, hash_body]
    simp only [hget_hset, hashSymOpList_eq]
    congr 1
    by_cases h : canon g.ops = c <;> simp [h]

/-- looking a fingerprint up in the dictionary of `_getSGHashLookupTable` is the model's `findSG` -/
theorem hashTable_eq (sgl : List SG) (ops : List Op) :
    Src.Lookup.hget (Src.Lookup._getSGHashLookupTable sgl) (Src.Lookup._hashSymOpList ops)
      = findSG sgl ops := by
  unfold Src.Lookup._getSGHashLookupTable findSG
  simp only [hget_hash_loop, hashSymOpList_eq, hget_nil]

open Src.Lookup in
theorem zipLongest_all_aux : ∀ (a b : List Op),
    ((zipLongest a b).all fun x => pyStrFill x.1 == pyStrFill x.2) = sameOrder a b
  | [], [] => by simp [zipLongest, sameOrder]
  | a :: as, [] => by simp [zipLongest, pyStrFill, sameOrder]
  | [], b :: bs => by simp [zipLongest, pyStrFill, sameOrder]
  | a :: as, b :: bs => by
    simp only [zipLongest, List.all_cons]
    rw [zipLongest_all_aux as bs]
    by_cases h : a.key = b.key <;> simp [h, pyStrFill, pyStr, sameOrder]

open Src.Lookup in
/-- `all(str(o0) == str(o1) for o0, o1 in zip_longest(a, b, fillvalue=""))` is the model's `sameOrder`:
lists of different lengths differ (the fill value prints as `""`, no operation does) -/
theorem zipLongest_all_eq (a b : List Op) :
    ((zipLongest a b).all fun (o0, o1) => pyStrFill o0 == pyStrFill o1) = sameOrder a b :=
  zipLongest_all_aux a b

/-- what the model predicts for `FindSpaceGroup`: the tabulated object when `shuffle` is set or the
operations come in the tabulated order, otherwise a copy carrying the caller's list -/
def expectedFound (sgl : List SG) (ops : List Op) (shuffle : Bool) (i : Nat) : Src.Lookup.Found :=
  if shuffle || sameOrder (Src.Lookup.tabulated sgl i).ops ops then Src.Lookup.tabulated sgl i
  else ⟨i, false, ops⟩

set_option linter.unusedSimpArgs false in
theorem FindSpaceGroup_eq (sgl : List SG) (ops : List Op) (shuffle : Bool) :
    Src.Lookup.FindSpaceGroup sgl ops shuffle = (findSG sgl ops).map (expectedFound sgl ops shuffle) := by
  unfold Src.Lookup.FindSpaceGroup
  simp only [hashTable_eq, zipLongest_all_eq, Src.Lookup.iter_symops]
  cases findSG sgl ops with
  | none => rfl
  | some i =>
    simp only [Option.map_some, expectedFound]
    cases shuffle <;> cases h : sameOrder (Src.Lookup.tabulated sgl i).ops ops <;> simp [h, Src.Lookup.tabulated]

/-- the setting identified is the model's, whatever the flag -/
theorem FindSpaceGroup_pos (sgl : List SG) (ops : List Op) (shuffle : Bool) :
    (Src.Lookup.FindSpaceGroup sgl ops shuffle).map (·.pos) = findSG sgl ops := by
  rw [FindSpaceGroup_eq]
  cases findSG sgl ops with
  | none => rfl
  | some i =>
    simp only [Option.map_some, expectedFound]
    split <;> rfl

/-- `shuffle=True` always returns the tabulated object -/
theorem FindSpaceGroup_shuffle (sgl : List SG) (ops : List Op) (r : Src.Lookup.Found)
    (h : Src.Lookup.FindSpaceGroup sgl ops true = some r) :
    ∃ i, findSG sgl ops = some i ∧ r = Src.Lookup.tabulated sgl i := by
  rw [FindSpaceGroup_eq] at h
  cases hf : findSG sgl ops with
  | none => rw [hf] at h; cases h
  | some i =>
    rw [hf] at h
    simp only [Option.map_some, expectedFound, Bool.true_or, if_true, Option.some.injEq] at h
    exact ⟨i, rfl, h.symm⟩

theorem sameOrder_refl (a : List Op) : sameOrder a a = true := by simp [sameOrder]

/-- `shuffle=False`: the object returned carries the operations in the caller's order, and it is the tabulated
object exactly when that is the tabulated order -/
theorem FindSpaceGroup_order (sgl : List SG) (ops : List Op) (r : Src.Lookup.Found)
    (h : Src.Lookup.FindSpaceGroup sgl ops false = some r) :
    sameOrder r.ops ops = true ∧
    (r.isTabulated = sameOrder (Src.Lookup.tabulated sgl r.pos).ops ops) := by
  rw [FindSpaceGroup_eq] at h
  cases hf : findSG sgl ops with
  | none => rw [hf] at h; cases h
  | some i =>
    rw [hf] at h
    simp only [Option.map_some, expectedFound, Bool.false_or, Option.some.injEq] at h
    cases hs : sameOrder (Src.Lookup.tabulated sgl i).ops ops
    · rw [hs] at h
      simp only [Bool.false_eq_true, if_false] at h
      subst h
      exact ⟨sameOrder_refl _, hs.symm⟩
    · rw [hs] at h
      simp only [if_true] at h
      subst h
      exact ⟨hs, hs.symm ▸ rfl⟩

/-! ## 4. `SpaceGroup.check_group_name`, `SymOp.__str__` -/

theorem check_group_name_iff (g : SG) (k : Key) :
    Src.Lookup.check_group_name g k = true ↔
      k = .str g.short ∨ k = .str g.pdb ∨ k = .str g.pgname ∨ k = .num g.number := by
  unfold Src.Lookup.check_group_name
  by_cases h1 : k = .str g.short
  · simp [h1]
  by_cases h2 : k = .str g.pdb
  · simp [h2]
  by_cases h3 : k = .str g.pgname
  · simp [h3]
  by_cases h4 : k = .num g.number
  · simp [h4]
  simp [h1, h2, h3, h4]

/-- every key under which the settings loop registers `g`, except the decimal string of its number, is a
name `check_group_name` accepts -/
theorem check_group_name_of_carries {g : SG} {k : Key} (h : Carries g k)
    (hn : k ≠ .str (toString g.number)) : Src.Lookup.check_group_name g k = true := by
  rw [check_group_name_iff]
  rcases h with h | h | h | h
  · exact Or.inr (Or.inr (Or.inr h))
  · exact absurd h hn
  · exact Or.inl h
  · exact Or.inr (Or.inl h)

/-- the printable form of an operation: three rows, the nine rotation entries and three translations, each as
`%6.3f` in row-major order (a function of these twelve numbers only; `Op.key` packs the same twelve numbers) -/
theorem symop_str_rows_eq : Src.Lookup.symop_str_rows =
    [("[%6.3f %6.3f %6.3f %6.3f]\n", ["self.R[0, 0]", "self.R[0, 1]", "self.R[0, 2]", "self.t[0]"]),
     ("[%6.3f %6.3f %6.3f %6.3f]\n", ["self.R[1, 0]", "self.R[1, 1]", "self.R[1, 2]", "self.t[1]"]),
     ("[%6.3f %6.3f %6.3f %6.3f]\n", ["self.R[2, 0]", "self.R[2, 1]", "self.R[2, 2]", "self.t[2]"])] := by rfl

/-! ## 5. the two lazily built dictionaries: extracted statement skeleton = the `publish` protocol of `DS.Sched` (C19) -/


/-- stage of a build: 0 nothing yet, 1 private dictionary being filled, 2 published -/
def publishScan : List Src.Lookup.Ev → (depth stage : Nat) → Bool
  | [], depth, stage => depth == 0 && stage == 2
  | e :: es, depth, stage =>
    match e with
    | .newPrivate => depth == 0 && stage == 0 && publishScan es depth 1
    | .storePrivate | .readPrivate => stage == 1 && publishScan es depth stage
    | .publish => depth == 0 && stage == 1 && publishScan es depth 2
    | .loopBegin | .branch | .testEmpty _ | .contains _ _ => publishScan es (depth + 1) stage
    | .loopEnd | .endIf => depth != 0 && publishScan es (depth - 1) stage
    | .orElse | .assertion | .raise | .ret | .returnShared | .local | .get _ => publishScan es depth stage
    | .storeShared | .clearShared | .rebindShared | .other | .callBuild | .callAccessor | .getUnchecked => false

/-- the protocol a build function follows, decided from its events: `publish` iff a fresh private dictionary is
created first (outside any loop/branch), every store goes to it, the shared dictionary is touched by exactly one
`update(<private>)` outside any loop/branch, and nothing is stored afterwards -/
def protocolOf (es : List Src.Lookup.Ev) : Sched.Protocol :=
  if publishScan es 0 0 then .publish
  else if es.any (· == .storeShared) then .inplace (es.any (· == .clearShared))
  else .unknown

/-- after the emptiness test: only `k in T` / `T[k]` on keys tested before, and statements that do not touch `T` -/
def lookupsOnly : List Src.Lookup.Ev → (ntests : Nat) → Bool
  | [], _ => true
  | e :: es, n =>
    match e with
    | .contains c _ => c == n && lookupsOnly es (n + 1)
    | .get c => decide (c < n) && lookupsOnly es n
    | .branch | .orElse | .endIf | .raise | .ret | .local | .loopBegin | .loopEnd => lookupsOnly es n
    | _ => false

/-- shape of a reader: `ensureFirst` iff its first event is the emptiness test guarding the build — written in the
reader (`if not T: build()`) or in the accessor it calls first (`if T: return T`, build, publish, `return T`) — and
everything after is `lookupsOnly` -/
def readerOf (reader accessor : List Src.Lookup.Ev) : Sched.Reader :=
  match reader with
  | .testEmpty true :: .callBuild :: .endIf :: rest => if lookupsOnly rest 0 then .ensureFirst else .other
  | .callAccessor :: rest =>
    match accessor with
    | .testEmpty false :: .returnShared :: .endIf :: build =>
      if lookupsOnly rest 0 && publishScan build 0 0 && build.getLast? == some .returnShared then .ensureFirst
      else .other
    | _ => .other
  | _ => .other

/-- number of candidate keys a reader tries -/
def candidates (es : List Src.Lookup.Ev) : Nat := (es.filter fun e => match e with | .contains _ _ => true | _ => false).length

theorem id_protocol : protocolOf Src.Lookup.idBuilder = .publish := by decide
theorem hash_protocol : protocolOf Src.Lookup.hashBuilder = .publish := by decide
theorem id_reader : readerOf Src.Lookup.idReader [] = .ensureFirst := by decide
theorem hash_reader : readerOf Src.Lookup.hashReader Src.Lookup.hashBuilder = .ensureFirst := by decide

/-- `GetSpaceGroup` tries three keys, `FindSpaceGroup` one: the candidate lists of the schedule model -/
theorem reader_candidates :
    candidates Src.Lookup.idReader = 3 ∧ candidates Src.Lookup.hashReader = 1 := by decide

/-- no other function (and no module-level statement besides the initialisation `= {}`) mentions the two dictionaries;
`IsSpaceGroupIdentifier` reaches them only through `GetSpaceGroup` -/
theorem no_other_users : Src.Lookup.otherUsers = ([], []) ∧ Src.Lookup.isIdCalls = ["GetSpaceGroup"] := by decide

/-- the publication steps and the assertions before them, as written (`PRIVATE` is the private dictionary) -/
theorem facts_eq : Src.Lookup.facts =
    [("hash.assert", "assert len(PRIVATE) == len(SpaceGroupList)"), ("hash.publish", "_sg_hash_lookup_table.update(PRIVATE)"),
     ("id.assert", "assert None not in PRIVATE"), ("id.publish", "_sg_lookup_table.update(PRIVATE)")] := by rfl

/-- the statement-level extraction of this file and the module-level classification of translate/protocol.py agree -/
theorem protocol_agrees :
    Gen.idProtocol = protocolOf Src.Lookup.idBuilder ∧ Gen.hashProtocol = protocolOf Src.Lookup.hashBuilder ∧
    Gen.idReader = readerOf Src.Lookup.idReader [] ∧
    Gen.hashReader = readerOf Src.Lookup.hashReader Src.Lookup.hashBuilder := by decide

section
open Sched
variable {K : Nat} {val : Nat → Nat} {lookups : List (List Nat)} {s : State}

/-- C19 for the identifier table, with the protocol decided from the statement skeleton of `_buildSGLookupTable` -/
theorem id_table_linearizable_src (h : Reach (protocolOf Src.Lookup.idBuilder) K val lookups s)
    (i : Nat) (r : Result) (hr : (results s)[i]? = some (some r)) :
    ∃ qs, lookups[i]? = some qs ∧ r = seqResult K val qs := by
  rw [id_protocol] at h
  exact C19.linearizable h i r hr

/-- C19 for the fingerprint table, with the protocol decided from the skeleton of `_getSGHashLookupTable` -/
theorem hash_table_linearizable_src (h : Reach (protocolOf Src.Lookup.hashBuilder) K val lookups s)
    (i : Nat) (r : Result) (hr : (results s)[i]? = some (some r)) :
    ∃ qs, lookups[i]? = some qs ∧ r = seqResult K val qs := by
  rw [hash_protocol] at h
  exact C19.linearizable h i r hr

theorem never_partial_src (h : Reach (protocolOf Src.Lookup.idBuilder) K val lookups s) :
    classOf K val s.shared ≠ .part := by
  rw [id_protocol] at h
  exact C19.never_partial h
end

/-- the keys `GetSpaceGroup` tries, in order (at most `candidates idReader`) -/
def candidateKeys : Key → List Key
  | .num n => [.num n]
  | .str s => [.str s, .str (normShort s), .str (normFull s)]

/-- sequential meaning of the reader: the first candidate present in the table (the shape of `Sched.seqResult`) -/
theorem GetSpaceGroup_first_candidate (t : Table) (id : Key) :
    Src.Lookup.GetSpaceGroup t id = (candidateKeys id).findSome? (lookup t) := by
  rw [GetSpaceGroup_eq, getSG_eq]
  cases id with
  | num n => cases h : lookup t (.num n) <;> simp [candidateKeys, h]
  | str s =>
    simp only [candidateKeys, List.findSome?_cons, List.findSome?_nil]
    cases lookup t (.str s) <;> cases lookup t (.str (normShort s)) <;>
      cases lookup t (.str (normFull s)) <;> rfl

theorem candidateKeys_length (id : Key) : (candidateKeys id).length ≤ candidates Src.Lookup.idReader := by
  rw [reader_candidates.1]
  cases id <;> simp [candidateKeys]

/-! ## non-vacuity: the transliterations compute -/

/-- a two-setting table: exact key, blank/case variant through the first normalisation, unknown name -/
theorem nonvacuous_get :
    let sgl : List SG := [⟨1, 1, 1, "P1", "P 1", "1", .triclinic, [Op.one]⟩,
                          ⟨2, 2, 2, "P-1", "P -1", "-1", .triclinic, [Op.one, ⟨-1, 0, 0, 0, -1, 0, 0, 0, -1, 0, 0, 0⟩]⟩]
    let t := (addAll [] sgl 0)
    Src.Lookup.GetSpaceGroup t (.num 2) = some 1 ∧ Src.Lookup.GetSpaceGroup t (.str " p -1 ") = some 1 ∧
    Src.Lookup.GetSpaceGroup t (.str "P 1") = some 0 ∧ Src.Lookup.GetSpaceGroup t (.str "P2") = none ∧
    Src.Lookup.IsSpaceGroupIdentifier t (.num 3) = false := by decide

/-- reversed operations of the second setting: found, as a copy when `shuffle` is off, as the tabulated object when on -/
theorem nonvacuous_find :
    let inv : Op := ⟨-1, 0, 0, 0, -1, 0, 0, 0, -1, 0, 0, 0⟩
    let sgl : List SG := [⟨1, 1, 1, "P1", "P 1", "1", .triclinic, [Op.one]⟩,
                          ⟨2, 2, 2, "P-1", "P -1", "-1", .triclinic, [Op.one, inv]⟩]
    Src.Lookup.FindSpaceGroup sgl [inv, Op.one] false = some ⟨1, false, [inv, Op.one]⟩ ∧
    Src.Lookup.FindSpaceGroup sgl [inv, Op.one] true = some ⟨1, true, [Op.one, inv]⟩ ∧
    Src.Lookup.FindSpaceGroup sgl [inv] false = none := by decide

end DS.Props.SrcLookup
