import DS.Lemmas.C12Matrix
import DS.Lemmas.FormatsX
import DS.Props.C12
/-!
# C12 — the written-format × parser matrix, proved on the models of `DS.Model.Formats`

`f_on_g` : what the model of parser `f` does with the lines the model of writer `g` produces
(`P_f.parseLines(P_g.toLines(s))`), for `f ≠ g`.  The real library (tabulated with every writer × every
parser on ordinary and edge structures, see the table at the end of this comment) rejects foreign text with
`StructureFormatError` in every cell, EXCEPT for the following inputs, which are genuine counter-examples of
the written-text clause of C12 and therefore appear as explicit decidable hypotheses:

* `kwFree` (no record word `cell` / `dcell`: `xyzKwFree`, `rawKwFree`, `xcfgKwFree`): when this file was written, an XYZ
  title `cell 1 1 1` or an element named `cell` (xyz, rawxyz, xcfg text) made the DISCUS reader accept the foreign text as
  a structure WITHOUT atoms (`Structure(title="cell 1 1 1")`, 1 atom `C`, `writeStr("xyz")` →
  `getParser("discus").parse` → 0 atoms; `getParser("auto")` then reported `discus`), the PDFfit reader likewise — a
  genuine defect, repaired in the library (56ab7f4: both readers require the `atoms` record; the models follow:
  `discusHeader [] _ = pdffitHeader [] _ = .error .sfe`).  Entries `discus_on_xyz`, `pdffit_on_xyz`, `…_on_rawxyz`,
  `…_on_xcfg`, rows `matrix_xyz`, `matrix_rawxyz`, `matrix_xcfg`, theorem `written_text_detected_models`: proved from
  "no line begins with `cell`" (`parseDiscus_noCell`, `parsePdffit_noCell`), kept as proved.  (`dcell` is excluded for
  the model's sake: a `dcell` record with other than six numbers is outside the PDFfit document type,
  `PErr.unmodelled`.)
* `atomsFree` (no record word `atoms`: `xyzAtomsFree`, `rawAtomsFree`, `xcfgAtomsFree` — the title's first word, where the
  text has a title line, and every element name): the second, independent criterion since the repair — "no line begins
  with `atoms`" (`parseDiscus_noAtoms`, `parsePdffit_noAtoms`; for PDFfit even "no `atoms` line after the first `cell`
  line", `parsePdffit_noAtomsAfterCell`).  Entries `discus_on_xyz_atoms`, `discus_on_rawxyz_atoms`,
  `discus_on_xcfg_atoms` need `…AtomsFree` only; `pdffit_on_…_atoms` need `…AtomsFree` and `…DcellFree` (no word `dcell`,
  again only because the MODEL answers `unmodelled` at a short `dcell` record where the real reader goes on and raises
  `StructureFormatError` at the end of the header; `pdffit_on_…_atoms'` are the entries without it, conclusion
  `sfe ∨ unmodelled`).
* either of the two: `discus_on_…_either` under `…KwFree ∨ …AtomsFree`, `pdffit_on_…_either` under
  `…KwFree ∨ (…AtomsFree ∧ …DcellFree)`, rows `matrix_xyz'`, `matrix_rawxyz'`, `matrix_xcfg'` and
  `written_text_detected_models'` under the latter disjunction.  What remains excluded is exactly a text with a `cell`
  word AND an `atoms` word in record position (finding `cross:word-formats:atoms-element`): XYZ text of the two atoms
  `cell 1 1 1`, `atoms 0 0 0` is still a DISCUS file without atoms, for the model as for the real reader (example beside
  `discus_on_xyz_either`), so the disjunction cannot be dropped; the title `cell 1 1 1` over ordinary elements - the
  original counter-example - is now covered (`xyzAtomsFree` holds) and detected as `xyz` (last example of the file).
* `rawPdbFree` (the first element of raw XYZ text is not a PDB record name): raw XYZ text of a structure whose
  elements are all named `TITLE` / `END` / `REMARK` … is accepted by the PDB reader with zero atoms.

```
written\parser  xyz   rawxyz  discus      pdffit      pdb          xcfg   cif
xyz             own   SFE     SFE [W]     SFE [W]     SFE          SFE    SFE
rawxyz          SFE   own     SFE [W]     SFE [W]     SFE [rawPdbFree] SFE SFE
discus          SFE   SFE     own         SFE         SFE          SFE    SFE
pdffit          SFE   SFE     SFE         own         SFE          SFE    SFE
pdb             SFE   SFE     SFE         SFE         own          SFE    SFE
xcfg            SFE   SFE     SFE [W]     SFE [W]     SFE          own    SFE
cif             SFE   SFE     SFE         SFE         SFE          SFE    own
```
([W] = `kwFree`, or `atomsFree` (with `dcellFree` in the pdffit column), or either - see above.)
(SFE = `StructureFormatError`; no cell of the real table is "accepted and agreeing".)
-/
namespace DS.Props.C12Matrix
open DS DS.Dec DS.Formats

/-! ## character facts -/

theorem digit_facts {c : Char} (h : isDigit c = true) :
    isWs c = false ∧ isUpperA c = false ∧ c ≠ '#' ∧ c ≠ 'N' ∧ c ≠ 'c' ∧ c ≠ 'd' ∧ c ≠ '-' := by
  refine ⟨isWs_of_isDigit h, ?_, ?_, ?_, ?_, ?_, ?_⟩
  · simp only [isDigit, Bool.and_eq_true, decide_eq_true_eq] at h
    simp only [isUpperA, Bool.and_eq_false_iff, decide_eq_false_iff_not]
    omega
  all_goals (intro e; subst e; revert h; decide)

theorem numHead_facts {c : Char} (h : numHead c = true) :
    isUpperA c = false ∧ c ≠ 'c' ∧ c ≠ 'd' ∧ c ≠ 'o' ∧ c ≠ 'N' := by
  simp only [numHead, Bool.or_eq_true, beq_iff_eq] at h
  rcases h with ((h | h) | h) | h
  · obtain ⟨_, h2, _, h4, h5, h6, _⟩ := digit_facts h
    exact ⟨h2, h5, h6, by intro e; subst e; revert h; decide, h4⟩
  all_goals (subst h; decide)

theorem upper_facts {c : Char} (h : isUpperA c = true) : isWs c = false ∧ c ≠ '#' ∧ isDigit c = false ∧ c ≠ '-' ∧ c ≠ 'c' ∧ c ≠ 'd' := by
  simp only [isUpperA, Bool.and_eq_true, decide_eq_true_eq] at h
  refine ⟨?_, ?_, ?_, ?_, ?_, ?_⟩
  · apply isWs_of_isGraphA
    simp only [isGraphA, Bool.and_eq_true, decide_eq_true_eq]; omega
  · intro e; subst e; revert h; decide
  · simp only [isDigit, Bool.and_eq_false_iff, decide_eq_false_iff_not]; omega
  all_goals (intro e; subst e; revert h; decide)

/-- no record word `cell` / `dcell` -/
def kwFree (w : Str) : Bool := w != kwCell && w != kwDcell

theorem kwFree_not_mem {w : Str} (h : kwFree w = true) : w ∉ [kwCell, kwDcell] := by
  simp only [kwFree, Bool.and_eq_true, bne_iff_ne, ne_eq] at h
  simp [h.1, h.2]

theorem firstWordNot_words {l w : Str} {ws : List Str} (hs : splitWs l = w :: ws) (h : w ∉ [kwCell, kwDcell]) :
    FirstWordNot [kwCell, kwDcell] l := by
  intro w' ws' e
  rw [hs] at e; cases e; exact h

theorem firstWordNot_numHead {l w : Str} {ws : List Str} (hs : splitWs l = w :: ws) {c : Char} {cs : Str}
    (hw : w = c :: cs) (hc : numHead c = true) : FirstWordNot [kwCell, kwDcell] l := by
  apply firstWordNot_words hs
  obtain ⟨_, h2, h3, _, _⟩ := numHead_facts hc
  subst hw
  simp only [List.mem_cons, List.not_mem_nil, or_false, not_or]
  exact ⟨by intro e; cases e; exact h2 rfl, by intro e; cases e; exact h3 rfl⟩

theorem noCell_weaken {lines : List Str} (h : ∀ l ∈ lines, FirstWordNot [kwCell, kwDcell] l) :
    ∀ l ∈ lines, FirstWordNot [kwCell] l :=
  fun l hl => (h l hl).mono (by intro k hk; simp at hk; subst hk; simp)

theorem kwNumber_eq : kwNumber = 'N' :: "umber of particles =".toList := by decide

theorem not_prefix_of_head {l : Str} (h : l.head? ≠ some 'N') : isPrefixOf kwNumber l = false := by
  cases hp : isPrefixOf kwNumber l with
  | false => rfl
  | true => exact absurd (isPrefixOf_head kwNumber_eq hp) h

/-- a line that starts with `Number of particles =` has `of` as its second word -/
theorem prefix_words {l : Str} (h : isPrefixOf kwNumber l = true) :
    ∃ ws, splitWs l = "Number".toList :: "of".toList :: ws := by
  have e : l = kwNumber ++ l.drop kwNumber.length := by
    simp only [isPrefixOf, beq_iff_eq] at h
    conv_lhs => rw [← List.take_append_drop kwNumber.length l, h]
  have e2 : kwNumber = "Number".toList ++ ' ' :: ("of".toList ++ ' ' :: "particles =".toList) := by decide
  rw [e, e2]
  simp only [List.append_assoc, List.cons_append]
  rw [splitWs_tok_ws ⟨by decide, by intro c hc; revert c; decide⟩ isWs_space,
    splitWs_tok_ws ⟨by decide, by intro c hc; revert c; decide⟩ isWs_space]
  exact ⟨_, rfl⟩

/-! ## text written as XYZ -/

/-- hypothesis of the `discus` / `pdffit` columns for XYZ text: neither the title's first word nor an element is
`cell` / `dcell` -/
def xyzKwFree (d : XyzS) : Bool :=
  (match splitWs d.title with | w :: _ => kwFree w | [] => true) && d.atoms.all (fun a => kwFree a.el)

theorem xyz_first (d : XyzS) : ∃ c cs, natDigits d.atoms.length = c :: cs ∧ isDigit c = true ∧
    lstrip (natDigits d.atoms.length) = c :: cs ∧ splitWs (natDigits d.atoms.length) = [natDigits d.atoms.length] := by
  obtain ⟨c, cs, e, hc⟩ := natDigits_head d.atoms.length
  refine ⟨c, cs, e, hc, ?_, splitWs_tok_end (IsTok_natDigits _)⟩
  rw [lstrip_noWs (IsTok_natDigits _).2, e]

/-- the raw XYZ reader rejects XYZ text: the count line has one column (any title, any atoms) -/
theorem rawxyz_on_xyz (d : XyzS) : parseRaw (writeXyz d) = .error .sfe := by
  obtain ⟨c, cs, _, _, _, hs⟩ := xyz_first d
  unfold writeXyz
  apply parseRaw_reject
  · rw [hs]; exact isSkip_tok_digits _
  · exact ⟨_, List.mem_cons_self, by rw [hs]; simp⟩

/-- the PDB reader rejects XYZ text: the count is not a record name -/
theorem pdb_on_xyz (d : XyzS) : parsePdb (writeXyz d) = .error .sfe := by
  obtain ⟨c, cs, _, hc, hl, _⟩ := xyz_first d
  obtain ⟨h1, h2, _⟩ := digit_facts hc
  exact parsePdb_reject_head _ _ c cs hl h1 h2

/-- the XCFG reader rejects XYZ text: the count line is not `Number of particles = …` -/
theorem xcfg_on_xyz (d : XyzS) : parseXcfg (writeXyz d) = .error .sfe := by
  obtain ⟨c, cs, e, hc, _, hs⟩ := xyz_first d
  obtain ⟨_, _, h3, h4, _⟩ := digit_facts hc
  unfold writeXyz
  apply parseXcfg_reject_head
  · exact strip_ne_of_split (by rw [hs]; simp)
  · rw [e]; simp only [List.head?_cons, ne_eq, Option.some.injEq]; exact h3
  · apply not_prefix_of_head; rw [e]; simp only [List.head?_cons, ne_eq, Option.some.injEq]; exact h4

theorem xyz_noCell (d : XyzS) (hr : reprXyz d = true) (hk : xyzKwFree d = true) :
    ∀ l ∈ writeXyz d, FirstWordNot [kwCell, kwDcell] l := by
  simp only [reprXyz, rangeXyz, Bool.and_eq_true] at hr
  simp only [xyzKwFree, Bool.and_eq_true] at hk
  intro l hl
  simp only [writeXyz, List.mem_cons, List.mem_map] at hl
  rcases hl with rfl | rfl | ⟨a, ha, rfl⟩
  · obtain ⟨c, cs, e, hc, _, hs⟩ := xyz_first d
    exact firstWordNot_numHead hs e (by simp [numHead, hc])
  · intro w ws e
    have := hk.1
    rw [e] at this
    exact kwFree_not_mem this
  · have hel := List.all_eq_true.mp hr.2 a ha
    exact firstWordNot_words (splitWs_xyzLine a hel) (kwFree_not_mem (List.all_eq_true.mp hk.2 a ha))

/-- the DISCUS reader rejects XYZ text that has no `cell` record -/
theorem discus_on_xyz (d : XyzS) (hr : reprXyz d = true) (hk : xyzKwFree d = true) :
    parseDiscus (writeXyz d) = .error .sfe ∨ parseDiscus (writeXyz d) = .error .notImpl :=
  parseDiscus_noCell _ (noCell_weaken (xyz_noCell d hr hk))

/-- the PDFfit reader rejects XYZ text that has no `cell` record -/
theorem pdffit_on_xyz (d : XyzS) (hr : reprXyz d = true) (hk : xyzKwFree d = true) :
    parsePdffit (writeXyz d) = .error .sfe :=
  parsePdffit_noCell _ (xyz_noCell d hr hk)

/-- non-vacuity, and a hypothesis of this kind is needed: XYZ text of two atoms named `cell` (at 1 1 1) and `atoms` has a
`cell` record and an `atoms` record, and the DISCUS model (like the real reader) accepts it as a structure without atoms.
(Before the repair 56ab7f4 of the library the `atoms` record was not required and the title `cell 1 1 1` alone was enough -
found by the cross stream of harness/c12.py; with the repair the title alone is rejected, second example.) -/
example : reprXyz ⟨"NaCl".toList, [⟨"Na".toList, 0, 1/2, -1/3⟩]⟩ = true ∧
    xyzKwFree ⟨"NaCl".toList, [⟨"Na".toList, 0, 1/2, -1/3⟩]⟩ = true := by decide
example : (match parseDiscus (writeXyz ⟨"t".toList, [⟨"cell".toList, 1, 1, 1⟩, ⟨"atoms".toList, 0, 0, 0⟩]⟩) with
    | .ok r => r.atoms.isEmpty | .error _ => false) = true := by decide +kernel
example : parseDiscus (writeXyz ⟨"cell 1 1 1".toList, [⟨"C".toList, 0, 0, 0⟩]⟩) = .error .sfe := by decide +kernel

/-! ## text written as raw XYZ -/

def rawKwFree (atoms : List PAtom) : Bool := atoms.all (fun a => kwFree a.el)

/-- hypothesis of the `pdb` column for raw XYZ text: the first element is not a PDB record name -/
def rawPdbFree (atoms : List PAtom) : Bool :=
  match atoms with
  | a :: _ => !isPdbRecord a.el
  | [] => true

theorem raw_line (atoms : List PAtom) (hr : reprRaw atoms = true) (a : PAtom) (ha : a ∈ atoms) :
    (rawElOk a.el = true ∧ splitWs (rawLine a) = [a.el, fmtG 6 a.x, fmtG 6 a.y, fmtG 6 a.z]) ∨
    (a.el = [] ∧ splitWs (rawLine a) = [fmtG 6 a.x, fmtG 6 a.y, fmtG 6 a.z]) := by
  simp only [reprRaw, Bool.or_eq_true, List.all_eq_true] at hr
  rcases hr with he | he
  · left
    have h := he a ha
    refine ⟨h, splitWs_rawLine_el a ?_⟩
    simp only [rawElOk, Bool.and_eq_true] at h
    exact h.1.1
  · right
    have h : a.el = [] := by simpa using he a ha
    exact ⟨h, splitWs_rawLine_noel a h⟩

/-- the XYZ reader rejects raw XYZ text: the first line has three or four columns, not one -/
theorem xyz_on_rawxyz (atoms : List PAtom) (hr : reprRaw atoms = true) (hne : atoms ≠ []) :
    parseXyz (writeRaw atoms) = .error .sfe := by
  cases atoms with
  | nil => exact absurd rfl hne
  | cons a as =>
    simp only [writeRaw, List.map_cons]
    rcases raw_line _ hr a List.mem_cons_self with ⟨hel, hs⟩ | ⟨_, hs⟩
    · apply parseXyz_reject_words _ _ _ _ hs _ (Or.inl (by simp))
      simp only [rawElOk, Bool.and_eq_true, bne_iff_ne, ne_eq] at hel
      exact hel.2
    · exact parseXyz_reject_words _ _ _ _ hs (fmtG_ne_hash _ _) (Or.inl (by simp))

theorem raw_noCell (atoms : List PAtom) (hr : reprRaw atoms = true) (hk : rawKwFree atoms = true) :
    ∀ l ∈ writeRaw atoms, FirstWordNot [kwCell, kwDcell] l := by
  intro l hl
  simp only [writeRaw, List.mem_map] at hl
  obtain ⟨a, ha, rfl⟩ := hl
  rcases raw_line _ hr a ha with ⟨_, hs⟩ | ⟨_, hs⟩
  · exact firstWordNot_words hs (kwFree_not_mem (List.all_eq_true.mp hk a ha))
  · obtain ⟨c, cs, e, hc⟩ := fmtG_numHead 6 a.x
    exact firstWordNot_numHead hs e hc

theorem discus_on_rawxyz (atoms : List PAtom) (hr : reprRaw atoms = true) (hk : rawKwFree atoms = true) :
    parseDiscus (writeRaw atoms) = .error .sfe ∨ parseDiscus (writeRaw atoms) = .error .notImpl :=
  parseDiscus_noCell _ (noCell_weaken (raw_noCell atoms hr hk))

theorem pdffit_on_rawxyz (atoms : List PAtom) (hr : reprRaw atoms = true) (hk : rawKwFree atoms = true) :
    parsePdffit (writeRaw atoms) = .error .sfe :=
  parsePdffit_noCell _ (raw_noCell atoms hr hk)

/-- the PDB reader rejects raw XYZ text whose first element is not a record name -/
theorem pdb_on_rawxyz (atoms : List PAtom) (hr : reprRaw atoms = true) (hne : atoms ≠ []) (hp : rawPdbFree atoms = true) :
    parsePdb (writeRaw atoms) = .error .sfe := by
  cases atoms with
  | nil => exact absurd rfl hne
  | cons a as =>
    simp only [writeRaw, List.map_cons]
    rcases raw_line _ hr a List.mem_cons_self with ⟨_, hs⟩ | ⟨_, hs⟩
    · exact parsePdb_reject_words _ _ _ _ hs (by simpa [rawPdbFree] using hp)
    · apply parsePdb_reject_words _ _ _ _ hs
      cases hrec : isPdbRecord (fmtG 6 a.x) with
      | false => rfl
      | true =>
        obtain ⟨c, cs, e, hu⟩ := isPdbRecord_head hrec
        obtain ⟨c', cs', e', hn⟩ := fmtG_numHead 6 a.x
        rw [e] at e'; cases e'
        rw [(numHead_facts hn).1] at hu; cases hu

/-- the XCFG reader rejects raw XYZ text: no line starts with `Number of particles =` -/
theorem xcfg_on_rawxyz (atoms : List PAtom) (hr : reprRaw atoms = true) :
    parseXcfg (writeRaw atoms) = .error .sfe := by
  apply parseXcfg_reject_noNumber
  intro l hl
  simp only [writeRaw, List.mem_map] at hl
  obtain ⟨a, ha, rfl⟩ := hl
  cases hp : isPrefixOf kwNumber (rawLine a) with
  | false => rfl
  | true =>
    obtain ⟨ws, e⟩ := prefix_words hp
    rcases raw_line _ hr a ha with ⟨_, hs⟩ | ⟨_, hs⟩
    · rw [hs] at e
      obtain ⟨c, cs, e', hn⟩ := fmtG_numHead 6 a.x
      simp only [List.cons.injEq] at e
      rw [e'] at e
      have := e.2.1
      cases this
      exact absurd rfl (numHead_facts hn).2.2.2.1
    · rw [hs] at e
      obtain ⟨c, cs, e', hn⟩ := fmtG_numHead 6 a.x
      simp only [List.cons.injEq] at e
      rw [e'] at e
      have := e.1
      cases this
      exact absurd rfl (numHead_facts hn).2.2.2.2

example : reprRaw [⟨"Na".toList, 0, 1/2, -1/3⟩] = true ∧ rawKwFree [⟨"Na".toList, 0, 1/2, -1/3⟩] = true ∧
    rawPdbFree [⟨"Na".toList, 0, 1/2, -1/3⟩] = true := by decide
/-- `rawPdbFree` is needed: raw XYZ text of one atom named `END` is an (empty) PDB file for the model as for the
real reader -/
example : (match parsePdb (writeRaw [⟨"END".toList, 0, 0, 0⟩]) with
    | .ok r => r.atoms.isEmpty | .error _ => false) = true := by decide +kernel

/-! ## text written as DISCUS or PDFfit: the first record is `title` -/

theorem canon_title : canonInt kwTitle = none := by decide
theorem title_not_hash : kwTitle ≠ ['#'] := by decide
theorem title_not_record : isPdbRecord kwTitle = false := by decide

/-- what the other readers do with a text whose first line is a `title` record and which has an `atoms` line -/
theorem title_first (k : Nat) (hk : 1 ≤ k) (t : Str) (rest : List Str) :
    parseXyz (strip (kwTitle ++ sp k ++ t) :: rest) = .error .sfe ∧
    parsePdb (strip (kwTitle ++ sp k ++ t) :: rest) = .error .sfe ∧
    parseXcfg (strip (kwTitle ++ sp k ++ t) :: rest) = .error .sfe ∧
    (kwAtoms ∈ rest → parseRaw (strip (kwTitle ++ sp k ++ t) :: rest) = .error .sfe) := by
  obtain ⟨hs, _⟩ := title_line k hk t
  refine ⟨?_, ?_, ?_, ?_⟩
  · cases hws : splitWs t with
    | nil => exact parseXyz_reject_words _ _ _ _ hs title_not_hash (Or.inr canon_title)
    | cons a as => exact parseXyz_reject_words _ _ _ _ hs title_not_hash (Or.inl (by simp [hws]))
  · exact parsePdb_reject_words _ _ _ _ hs title_not_record
  · have e : strip (kwTitle ++ sp k ++ t) = kwTitle ++ rstrip (sp k ++ t) := by
      rw [List.append_assoc, strip_tok_append IsTok_kw.1]
    apply parseXcfg_reject_head
    · exact strip_ne_of_split (by rw [hs]; simp)
    · rw [e]; simp [kwTitle]
    · apply not_prefix_of_head; rw [e]; simp [kwTitle]
  · intro hmem
    apply parseRaw_reject
    · rw [hs]; simp [isSkip, title_not_hash]
    · refine ⟨kwAtoms, List.mem_cons_of_mem _ hmem, ?_⟩
      rw [splitWs_tok_end IsTok_kw.2.2.2.2.2.1]; simp

theorem xyz_on_discus (d : DiscusS) : parseXyz (writeDiscus d) = .error .sfe := by
  simp only [writeDiscus, List.cons_append, List.nil_append]; exact (title_first 3 (by omega) _ _).1
theorem pdb_on_discus (d : DiscusS) : parsePdb (writeDiscus d) = .error .sfe := by
  simp only [writeDiscus, List.cons_append, List.nil_append]; exact (title_first 3 (by omega) _ _).2.1
theorem xcfg_on_discus (d : DiscusS) : parseXcfg (writeDiscus d) = .error .sfe := by
  simp only [writeDiscus, List.cons_append, List.nil_append]; exact (title_first 3 (by omega) _ _).2.2.1
/-- the raw XYZ reader rejects DISCUS text: the `atoms` line has one column -/
theorem rawxyz_on_discus (d : DiscusS) : parseRaw (writeDiscus d) = .error .sfe := by
  simp only [writeDiscus, List.cons_append, List.nil_append]
  exact (title_first 3 (by omega) _ _).2.2.2 (by simp)

theorem xyz_on_pdffit (d : PdffitS) : parseXyz (writePdffit d) = .error .sfe := by
  simp only [writePdffit, List.cons_append, List.nil_append]; exact (title_first 2 (by omega) _ _).1
theorem pdb_on_pdffit (d : PdffitS) : parsePdb (writePdffit d) = .error .sfe := by
  simp only [writePdffit, List.cons_append, List.nil_append]; exact (title_first 2 (by omega) _ _).2.1
theorem xcfg_on_pdffit (d : PdffitS) : parseXcfg (writePdffit d) = .error .sfe := by
  simp only [writePdffit, List.cons_append, List.nil_append]; exact (title_first 2 (by omega) _ _).2.2.1
theorem rawxyz_on_pdffit (d : PdffitS) : parseRaw (writePdffit d) = .error .sfe := by
  simp only [writePdffit, List.cons_append, List.nil_append]
  exact (title_first 2 (by omega) _ _).2.2.2 (by simp)

/-! ## DISCUS text read as PDFfit, PDFfit text read as DISCUS (the two share the header grammar) -/

theorem dropTrailingBlank_cons_eq (l : Str) (ls : List Str) (h : (strip l).isEmpty = false) :
    dropTrailingBlank (l :: ls) = l :: dropTrailingBlank ls := by
  unfold dropTrailingBlank
  rw [List.reverse_cons]
  have key : ∀ A : List Str, (A ++ [l]).dropWhile (fun l => (strip l).isEmpty) =
      A.dropWhile (fun l => (strip l).isEmpty) ++ [l] := by
    intro A
    induction A with
    | nil => simp [h]
    | cons a A ih =>
      simp only [List.cons_append, List.dropWhile_cons]
      split
      · exact ih
      · rfl
  rw [key]; simp

theorem dh_title2 (t : Str) (rest : List Str) (h : DHdr) :
    discusHeader (strip (kwTitle ++ sp 2 ++ t) :: rest) h = discusHeader rest { h with title := strip t } := by
  obtain ⟨h1, h2⟩ := title_line 2 (by omega) t
  rw [discusHeader, h1]
  simp only
  rw [if_neg (by decide), if_neg (by decide), discusRecord_title, h2]

theorem format_words : splitWs (kwFormat ++ sp 1 ++ kwPdffit) = [kwFormat, kwPdffit] := by
  rw [List.append_assoc, splitWs_tok_blanks IsTok_kw.2.2.2.2.2.2.2.1 (AllWs_sp 1) (sp_ne_nil (by omega)),
    splitWs_tok_end IsTok_kw.2.2.2.2.2.2.2.2.1]

/-- `format pdffit` makes the DISCUS reader give up -/
theorem dh_format (rest : List Str) (h : DHdr) :
    discusHeader ((kwFormat ++ sp 1 ++ kwPdffit) :: rest) h = .error .sfe := by
  rw [discusHeader, format_words]
  simp only
  rw [if_neg (by decide), if_neg (by decide)]
  unfold discusRecord
  rw [if_neg (by decide), if_pos rfl]
  simp

/-- the DISCUS reader rejects PDFfit text: the `format pdffit` record comes before `cell` (any document) -/
theorem discus_on_pdffit (d : PdffitS) : parseDiscus (writePdffit d) = .error .sfe := by
  simp only [writePdffit, List.cons_append, List.nil_append]
  unfold parseDiscus
  rw [dropTrailingBlank_cons_eq _ _ (strip_ne_of_split (by rw [(title_line 2 (by omega) d.title).1]; simp)),
    dropTrailingBlank_cons_eq _ _ (strip_ne_of_split (by rw [format_words]; simp)), dh_title2, dh_format]

theorem pdffitAtoms_spec (L : List Str) :
    pdffitAtoms L = .error .sfe ∨ ∃ as, pdffitAtoms L = .ok as ∧ L.length = 6 * as.length := by
  fun_induction pdffitAtoms L <;> (simp_all; try omega)

theorem ph_title3 (t : Str) (rest : List Str) (h : PHdr) :
    pdffitHeader (strip (kwTitle ++ sp 3 ++ t) :: rest) h = pdffitHeader rest { h with title := strip t } := by
  obtain ⟨h1, h2⟩ := title_line 3 (by omega) t
  rw [pdffitHeader, h1]
  simp only
  rw [if_neg (by decide), if_neg (fun hh => absurd hh.1 (by decide))]
  unfold pdffitRecord
  simp only
  rw [if_pos trivial, h2]

/-- the PDFfit reader's pass over the header of a written DISCUS file -/
theorem pdffitHeader_discus (d : DiscusS) (rest : List Str) :
    pdffitHeader ([strip (kwTitle ++ sp 3 ++ d.title), kwSpcgr ++ sp 3 ++ d.spcgr] ++ shapeLines d.spd d.stepcut ++
        [cellLine kwCell 3 d.cell, ncellLine d.atoms.length, kwAtoms] ++ rest) PHdr.init =
      .ok (⟨strip d.title, 1, 0, 0, 1, 0, strip d.spcgr, quantShape d.spd, quantShape d.stepcut,
            d.cell.map (roundTo 6), true, ⟨0, 0, 0, 0, 0, 0⟩, [1, 1, 1, (d.atoms.length : Int)]⟩, rest) := by
  unfold shapeLines quantShape
  by_cases h1 : 0 < d.spd <;> by_cases h2 : 0 < d.stepcut <;>
  simp only [h1, h2, if_true, if_false, List.cons_append, List.nil_append, List.append_nil, ph_title3, ph_spcgr, ph_sphere,
    ph_stepcut, ph_cell, ph_ncell, PHdr.init] <;>
  rw [ph_atoms _ _ rfl]

theorem dropTrailingBlank_writeDiscus (d : DiscusS) (h : d.atoms.all (fun a => elemOkD a.el) = true) :
    dropTrailingBlank (writeDiscus d) = writeDiscus d := by
  have hne : writeDiscus d ≠ [] := by simp [writeDiscus]
  apply dropTrailingBlank_of_last _ hne
  have hpre : [strip (kwTitle ++ sp 3 ++ d.title), kwSpcgr ++ sp 3 ++ d.spcgr] ++ shapeLines d.spd d.stepcut ++
      [cellLine kwCell 3 d.cell, ncellLine d.atoms.length, kwAtoms] ≠ [] := by simp
  rcases getLast_append_map _ hpre discusAtomLine d.atoms hne with e | ⟨a, ha, e⟩
  · simp only [writeDiscus] at e ⊢
    rw [e]; simp only [List.getLast_append_of_ne_nil _ (show [cellLine kwCell 3 d.cell, ncellLine d.atoms.length, kwAtoms] ≠ [] by simp)]
    have : [cellLine kwCell 3 d.cell, ncellLine d.atoms.length, kwAtoms].getLast (by simp) = kwAtoms := rfl
    rw [this]; decide
  · simp only [writeDiscus] at e ⊢
    rw [e]; exact discusAtomLine_nonblank a (List.all_eq_true.1 h a ha)

/-- the PDFfit reader rejects DISCUS text of a non-empty structure: it reads the header, then takes the one-line atom
records for six-line blocks; the count announced by `ncell` cannot match -/
theorem pdffit_on_discus (d : DiscusS) (hr : reprDiscus d = true) (hne : d.atoms ≠ []) :
    parsePdffit (writeDiscus d) = .error .sfe := by
  simp only [reprDiscus, rangeDiscus, Bool.and_eq_true] at hr
  unfold parsePdffit
  rw [dropTrailingBlank_writeDiscus d hr.2]
  unfold writeDiscus
  rw [pdffitHeader_discus d (d.atoms.map discusAtomLine)]
  simp only [Bool.true_eq_false, if_false]
  rcases pdffitAtoms_spec (d.atoms.map discusAtomLine) with e | ⟨as, e, hlen⟩
  · rw [e]
  · rw [e]
    simp only [intProd_ncell]
    have hpos : 0 < d.atoms.length := List.length_pos_iff.mpr hne
    rw [List.length_map] at hlen
    have : ((d.atoms.length : Int) ≠ (as.length : Int)) := by omega
    simp [this]

example : reprDiscus ⟨"Ni fcc".toList, "F m -3 m".toList, 25, 0, ⟨3, 3, 3, 90, 90, 90⟩,
    [⟨"Ni".toList, ⟨0, 1/2, 1/2⟩, 1/3⟩]⟩ = true := by decide
/-- non-emptiness is needed: DISCUS text of a structure without atoms IS a PDFfit file without atoms for the model
(the real writer/reader pair behaves the same way; the clause of C12 is about non-empty structures) -/
example : (match parsePdffit (writeDiscus ⟨"t".toList, "P1".toList, 0, 0, ⟨3, 3, 3, 90, 90, 90⟩, []⟩) with
    | .ok r => r.atoms.isEmpty | .error _ => false) = true := by decide +kernel

/-! ## assembly: rows of the matrix and automatic detection on the models -/

open DS.Load DS.Props.C12

/-- what a parser returns: the document type of its format -/
inductive Res where
  | xyz (d : XyzS) | rawxyz (d : List PAtom) | discus (d : DiscusS) | pdffit (d : PdffitS) | pdb (d : PdbS)
  | xcfg (d : XcfgRead) | cif (d : CifRead)

def lift {α : Type} (tag : α → Res) : PRes α → Outcome Res
  | .ok r => .ok (tag r)
  | .error e => .err (showErr e) ""

/-- the candidate formats of the registry under test -/
def allFormats : List String := ["cif", "discus", "pdb", "pdffit", "rawxyz", "xcfg", "xyz"]

/-- the parser table on the lines `t`: the six modelled readers; the CIF reader (PyCifRW + glue) is the parameter
`cifP` -/
def modelParse (cifP : List Str → Outcome Res) (t : List Str) (f : String) : Outcome Res :=
  if f = "xyz" then lift .xyz (parseXyz t)
  else if f = "rawxyz" then lift .rawxyz (parseRaw t)
  else if f = "discus" then lift .discus (parseDiscus t)
  else if f = "pdffit" then lift .pdffit (parsePdffit t)
  else if f = "pdb" then lift .pdb (parsePdb t)
  else if f = "xcfg" then lift .xcfg (parseXcfg t)
  else if f = "cif" then cifP t
  else .err "StructureFormatError" ""

/-- one row of the matrix, for the lines `t` written in format `g`: `g`'s reader returns `r`, every other candidate
raises an exception that the automatic parser swallows -/
structure Row (cifP : List Str → Outcome Res) (t : List Str) (g : String) (r : Res) : Prop where
  own : modelParse cifP t g = .ok r
  others : ∀ f ∈ allFormats, f ≠ g → Swallowed genAutoCfg (modelParse cifP t) f

theorem swallowed_sfe {parse : String → Outcome Res} {f : String} (h : parse f = .err "StructureFormatError" "") :
    Swallowed genAutoCfg parse f := ⟨_, _, h, by decide⟩

theorem swallowed_notImpl {parse : String → Outcome Res} {f : String} (h : parse f = .err "NotImplementedError" "") :
    Swallowed genAutoCfg parse f := ⟨_, _, h, by decide⟩

theorem lift_sfe {α : Type} {tag : α → Res} {p : PRes α} (h : p = .error .sfe) :
    lift tag p = .err "StructureFormatError" "" := by subst h; rfl

theorem lift_sfe_or {α : Type} {tag : α → Res} {p : PRes α} (h : p = .error .sfe ∨ p = .error .notImpl) :
    lift tag p = .err "StructureFormatError" "" ∨ lift tag p = .err "NotImplementedError" "" := by
  rcases h with h | h <;> subst h
  · left; rfl
  · right; rfl

theorem candidates_eq : candidates genOrderCfg genRegistry = allFormats := by decide

/-- a row of the matrix decides automatic detection, for every file name: the format reported is the one the text was
written in, and the structure is the one its own reader returns -/
theorem detected_of_row (cifP : List Str → Outcome Res) (t : List Str) (g : String) (r : Res) (hg : g ∈ allFormats)
    (row : Row cifP t g r) (fn : Option String) :
    auto genAutoCfg (modelParse cifP t) (orderFor genOrderCfg genRegistry fn) = .ok g r := by
  have hperm := gen_order_perm fn
  rw [candidates_eq] at hperm
  have hgo : g ∈ orderFor genOrderCfg genRegistry fn := hperm.mem_iff.mpr hg
  have hroa : RejectOrAgree genAutoCfg (modelParse cifP t) (fun a b => a = b) (orderFor genOrderCfg genRegistry fn) g r := by
    refine ⟨row.own, ?_⟩
    intro f hf
    by_cases hfg : f = g
    · right; subst hfg; exact ⟨r, row.own, rfl⟩
    · left; exact row.others f (hperm.mem_iff.mp hf) hfg
  obtain ⟨f, r', ha, hfo, hf, hs⟩ := written_text_detected_partial genAutoCfg _ _ _ g r hgo hroa
  by_cases hfg : f = g
  · subst hfg; subst hs; exact ha
  · obtain ⟨k, m, hk, _⟩ := row.others f (hperm.mem_iff.mp hfo) hfg
    rw [hk] at hf; cases hf

/-- case split over the seven candidates -/
theorem forall_formats {P : String → Prop} (hcif : P "cif") (hdiscus : P "discus") (hpdb : P "pdb") (hpdffit : P "pdffit")
    (hraw : P "rawxyz") (hxcfg : P "xcfg") (hxyz : P "xyz") : ∀ f ∈ allFormats, P f := by
  intro f hf
  simp only [allFormats, List.mem_cons, List.not_mem_nil, or_false] at hf
  rcases hf with rfl | rfl | rfl | rfl | rfl | rfl | rfl <;> assumption

/-- row `xyz`: the `cif` entry is the hypothesis `hcif` -/
theorem matrix_xyz (cifP : List Str → Outcome Res) (d : XyzS) (hr : reprXyz d = true) (hk : xyzKwFree d = true)
    (hcif : Swallowed genAutoCfg (modelParse cifP (writeXyz d)) "cif") :
    Row cifP (writeXyz d) "xyz" (.xyz (quantXyz d)) := by
  have hr' := hr
  simp only [reprXyz, rangeXyz, Bool.and_eq_true] at hr'
  refine ⟨by simp [modelParse, parseXyz_writeXyz d hr'.2, lift], ?_⟩
  apply forall_formats (P := fun f => f ≠ "xyz" → Swallowed genAutoCfg (modelParse cifP (writeXyz d)) f)
  · intro _; exact hcif
  · intro _
    rcases lift_sfe_or (tag := Res.discus) (discus_on_xyz d hr hk) with h | h
    · exact swallowed_sfe (by simpa [modelParse] using h)
    · exact swallowed_notImpl (by simpa [modelParse] using h)
  · intro _; exact swallowed_sfe (by simpa [modelParse] using lift_sfe (tag := Res.pdb) (pdb_on_xyz d))
  · intro _; exact swallowed_sfe (by simpa [modelParse] using lift_sfe (tag := Res.pdffit) (pdffit_on_xyz d hr hk))
  · intro _; exact swallowed_sfe (by simpa [modelParse] using lift_sfe (tag := Res.rawxyz) (rawxyz_on_xyz d))
  · intro _; exact swallowed_sfe (by simpa [modelParse] using lift_sfe (tag := Res.xcfg) (xcfg_on_xyz d))
  · intro h; exact absurd rfl h

/-- row `rawxyz` -/
theorem matrix_rawxyz (cifP : List Str → Outcome Res) (d : List PAtom) (hr : reprRaw d = true) (hne : d ≠ [])
    (hk : rawKwFree d = true) (hp : rawPdbFree d = true)
    (hcif : Swallowed genAutoCfg (modelParse cifP (writeRaw d)) "cif") :
    Row cifP (writeRaw d) "rawxyz" (.rawxyz (quantRaw d)) := by
  refine ⟨by simp [modelParse, parseRaw_writeRaw d hr, lift], ?_⟩
  apply forall_formats (P := fun f => f ≠ "rawxyz" → Swallowed genAutoCfg (modelParse cifP (writeRaw d)) f)
  · intro _; exact hcif
  · intro _
    rcases lift_sfe_or (tag := Res.discus) (discus_on_rawxyz d hr hk) with h | h
    · exact swallowed_sfe (by simpa [modelParse] using h)
    · exact swallowed_notImpl (by simpa [modelParse] using h)
  · intro _; exact swallowed_sfe (by simpa [modelParse] using lift_sfe (tag := Res.pdb) (pdb_on_rawxyz d hr hne hp))
  · intro _; exact swallowed_sfe (by simpa [modelParse] using lift_sfe (tag := Res.pdffit) (pdffit_on_rawxyz d hr hk))
  · intro h; exact absurd rfl h
  · intro _; exact swallowed_sfe (by simpa [modelParse] using lift_sfe (tag := Res.xcfg) (xcfg_on_rawxyz d hr))
  · intro _; exact swallowed_sfe (by simpa [modelParse] using lift_sfe (tag := Res.xyz) (xyz_on_rawxyz d hr hne))

/-- row `discus` -/
theorem matrix_discus (cifP : List Str → Outcome Res) (d : DiscusS) (hr : reprDiscus d = true) (hne : d.atoms ≠ [])
    (hcif : Swallowed genAutoCfg (modelParse cifP (writeDiscus d)) "cif") :
    Row cifP (writeDiscus d) "discus" (.discus (quantDiscus d)) := by
  have hr' := hr
  simp only [reprDiscus, rangeDiscus, Bool.and_eq_true] at hr'
  refine ⟨by simp [modelParse, parseDiscus_writeDiscus d hr'.2, lift], ?_⟩
  apply forall_formats (P := fun f => f ≠ "discus" → Swallowed genAutoCfg (modelParse cifP (writeDiscus d)) f)
  · intro _; exact hcif
  · intro h; exact absurd rfl h
  · intro _; exact swallowed_sfe (by simpa [modelParse] using lift_sfe (tag := Res.pdb) (pdb_on_discus d))
  · intro _; exact swallowed_sfe (by simpa [modelParse] using lift_sfe (tag := Res.pdffit) (pdffit_on_discus d hr hne))
  · intro _; exact swallowed_sfe (by simpa [modelParse] using lift_sfe (tag := Res.rawxyz) (rawxyz_on_discus d))
  · intro _; exact swallowed_sfe (by simpa [modelParse] using lift_sfe (tag := Res.xcfg) (xcfg_on_discus d))
  · intro _; exact swallowed_sfe (by simpa [modelParse] using lift_sfe (tag := Res.xyz) (xyz_on_discus d))

/-- row `pdffit` -/
theorem matrix_pdffit (cifP : List Str → Outcome Res) (d : PdffitS) (hr : reprPdffit d = true)
    (hcif : Swallowed genAutoCfg (modelParse cifP (writePdffit d)) "cif") :
    Row cifP (writePdffit d) "pdffit" (.pdffit (quantPdffit d)) := by
  have hr' := hr
  simp only [reprPdffit, rangePdffit, Bool.and_eq_true] at hr'
  refine ⟨by simp [modelParse, parsePdffit_writePdffit d hr'.2, lift], ?_⟩
  apply forall_formats (P := fun f => f ≠ "pdffit" → Swallowed genAutoCfg (modelParse cifP (writePdffit d)) f)
  · intro _; exact hcif
  · intro _; exact swallowed_sfe (by simpa [modelParse] using lift_sfe (tag := Res.discus) (discus_on_pdffit d))
  · intro _; exact swallowed_sfe (by simpa [modelParse] using lift_sfe (tag := Res.pdb) (pdb_on_pdffit d))
  · intro h; exact absurd rfl h
  · intro _; exact swallowed_sfe (by simpa [modelParse] using lift_sfe (tag := Res.rawxyz) (rawxyz_on_pdffit d))
  · intro _; exact swallowed_sfe (by simpa [modelParse] using lift_sfe (tag := Res.xcfg) (xcfg_on_pdffit d))
  · intro _; exact swallowed_sfe (by simpa [modelParse] using lift_sfe (tag := Res.xyz) (xyz_on_pdffit d))

/-! ## text written as PDB: every record starts with `T`, `C`, `A` or `E` -/

def pdbHead (c : Char) : Bool := c == 'T' || c == 'C' || c == 'A' || c == 'E'

def StartsPdb (l : Str) : Prop := ∃ c cs, l = c :: cs ∧ pdbHead c = true

theorem pdbHead_facts {c : Char} (h : pdbHead c = true) :
    isWs c = false ∧ isUpperA c = true ∧ c ≠ '#' ∧ c ≠ 'N' ∧ c ≠ 'c' ∧ c ≠ 'd' ∧ isDigit c = false ∧ c ≠ '-' := by
  simp only [pdbHead, Bool.or_eq_true, beq_iff_eq] at h
  rcases h with ((h | h) | h) | h <;> subst h <;> decide

theorem startsPdb_atomsLines (as : List PdbAtom) : ∀ k, ∀ l ∈ pdbAtomsLines k as, StartsPdb l := by
  induction as with
  | nil => intro k l hl; simp [pdbAtomsLines] at hl
  | cons a as ih =>
    intro k l hl
    simp only [pdbAtomsLines, List.mem_append] at hl
    rcases hl with hl | hl
    · simp only [pdbAtomLines] at hl
      split at hl
      · simp only [List.mem_cons, List.not_mem_nil, or_false] at hl; subst hl
        exact ⟨'A', _, rfl, by decide⟩
      · simp only [List.mem_cons, List.not_mem_nil, or_false] at hl
        rcases hl with rfl | rfl
        · exact ⟨'A', _, rfl, by decide⟩
        · exact ⟨'A', _, rfl, by decide⟩
    · exact ih _ l hl

theorem startsPdb_write (d : PdbS) : ∀ l ∈ writePdb d, StartsPdb l := by
  intro l hl
  simp only [writePdb, List.mem_append, List.mem_cons, List.not_mem_nil, or_false] at hl
  rcases hl with ((hl | hl) | hl) | (rfl | rfl)
  · simp only [pdbTitleLines, List.mem_map] at hl
    obtain ⟨p, _, rfl⟩ := hl
    exact ⟨'T', _, rfl, by decide⟩
  · cases hc : d.cell with
    | none => simp [hc] at hl
    | some c =>
      simp only [hc, List.mem_cons, List.not_mem_nil, or_false] at hl; subst hl
      exact ⟨'C', _, rfl, by decide⟩
  · exact startsPdb_atomsLines d.atoms 0 l hl
  · exact ⟨'T', _, rfl, by decide⟩
  · exact ⟨'E', _, rfl, by decide⟩

theorem writePdb_cons (d : PdbS) : ∃ l ls, writePdb d = l :: ls := by
  cases h : writePdb d with
  | nil => simp [writePdb] at h
  | cons l ls => exact ⟨l, ls, rfl⟩

theorem lstrip_cons_noWs {c : Char} {cs : Str} (h : isWs c = false) : lstrip (c :: cs) = c :: cs := by
  simp [lstrip, h]

theorem pdb_noCell (d : PdbS) : ∀ l ∈ writePdb d, FirstWordNot [kwCell, kwDcell] l := by
  intro l hl
  obtain ⟨c, cs, rfl, hc⟩ := startsPdb_write d l hl
  obtain ⟨h1, _, _, _, h5, h6, _⟩ := pdbHead_facts hc
  apply firstWordNot_of_head
  intro c' cs' e
  rw [lstrip_cons_noWs h1] at e; cases e
  exact ⟨h5, h6⟩

theorem xyz_on_pdb (d : PdbS) : parseXyz (writePdb d) = .error .sfe := by
  obtain ⟨l, ls, e⟩ := writePdb_cons d
  obtain ⟨c, cs, rfl, hc⟩ := startsPdb_write d l (by rw [e]; simp)
  obtain ⟨h1, _, h3, _, _, _, h7, h8⟩ := pdbHead_facts hc
  rw [e]
  exact parseXyz_reject_head _ _ c cs (lstrip_cons_noWs h1) h1 h3 h7 h8

theorem end_words : splitWs (padRight 80 kwEND) = [kwEND] := by
  rw [padRight_eq, splitWs_append_allWs (AllWs_replicate _)]
  exact splitWs_tok_end ⟨by decide, by intro c hc; revert c; decide⟩

/-- the raw XYZ reader rejects PDB text: the `END` record has one column -/
theorem rawxyz_on_pdb (d : PdbS) : parseRaw (writePdb d) = .error .sfe := by
  obtain ⟨l, ls, e⟩ := writePdb_cons d
  obtain ⟨c, cs, rfl, hc⟩ := startsPdb_write d l (by rw [e]; simp)
  obtain ⟨h1, _, h3, _⟩ := pdbHead_facts hc
  have hend : padRight 80 kwEND ∈ writePdb d := by simp [writePdb]
  rw [e] at hend ⊢
  apply parseRaw_reject
  · obtain ⟨t, rest, es⟩ := splitWs_cons_head (s := cs) h1
    rw [es]
    simp only [isSkip, beq_eq_false_iff_ne, ne_eq]
    intro e'; cases e'; exact h3 rfl
  · exact ⟨_, hend, by rw [end_words]; simp⟩

theorem discus_on_pdb (d : PdbS) :
    parseDiscus (writePdb d) = .error .sfe ∨ parseDiscus (writePdb d) = .error .notImpl :=
  parseDiscus_noCell _ (noCell_weaken (pdb_noCell d))

theorem pdffit_on_pdb (d : PdbS) : parsePdffit (writePdb d) = .error .sfe :=
  parsePdffit_noCell _ (pdb_noCell d)

theorem xcfg_on_pdb (d : PdbS) : parseXcfg (writePdb d) = .error .sfe := by
  obtain ⟨l, ls, e⟩ := writePdb_cons d
  obtain ⟨c, cs, rfl, hc⟩ := startsPdb_write d l (by rw [e]; simp)
  obtain ⟨h1, _, h3, h4, _⟩ := pdbHead_facts hc
  rw [e]
  apply parseXcfg_reject_head
  · obtain ⟨t, rest, es⟩ := splitWs_cons_head (s := cs) h1
    exact strip_ne_of_split (by rw [es]; simp)
  · simp only [List.head?_cons, ne_eq, Option.some.injEq]; exact h3
  · apply not_prefix_of_head; simp only [List.head?_cons, ne_eq, Option.some.injEq]; exact h4

/-- row `pdb` (no condition beyond the round-trip range) -/
theorem matrix_pdb (cifP : List Str → Outcome Res) (d : PdbS) (hr : reprPdb d = true)
    (hcif : Swallowed genAutoCfg (modelParse cifP (writePdb d)) "cif") :
    Row cifP (writePdb d) "pdb" (.pdb (quantPdb d)) := by
  refine ⟨by simp [modelParse, parsePdb_writePdb d hr, lift], ?_⟩
  apply forall_formats (P := fun f => f ≠ "pdb" → Swallowed genAutoCfg (modelParse cifP (writePdb d)) f)
  · intro _; exact hcif
  · intro _
    rcases lift_sfe_or (tag := Res.discus) (discus_on_pdb d) with h | h
    · exact swallowed_sfe (by simpa [modelParse] using h)
    · exact swallowed_notImpl (by simpa [modelParse] using h)
  · intro h; exact absurd rfl h
  · intro _; exact swallowed_sfe (by simpa [modelParse] using lift_sfe (tag := Res.pdffit) (pdffit_on_pdb d))
  · intro _; exact swallowed_sfe (by simpa [modelParse] using lift_sfe (tag := Res.rawxyz) (rawxyz_on_pdb d))
  · intro _; exact swallowed_sfe (by simpa [modelParse] using lift_sfe (tag := Res.xcfg) (xcfg_on_pdb d))
  · intro _; exact swallowed_sfe (by simpa [modelParse] using lift_sfe (tag := Res.xyz) (xyz_on_pdb d))

/-! ## text written as XCFG -/

/-- hypothesis of the `discus` / `pdffit` columns for XCFG text: no element is named `cell` / `dcell` (an element
line `cell` is a complete `cell` record for both readers) -/
def xcfgKwFree (d : XcfgS) : Bool := d.atoms.all (fun a => kwFree a.el)

theorem numLine_words (n : Nat) :
    splitWs (numLine n) = ["Number".toList, "of".toList, "particles".toList, "=".toList, natDigits n] := by
  have e : numLine n = "Number".toList ++ ' ' :: ("of".toList ++ ' ' :: ("particles".toList ++ ' ' :: ("=".toList ++ ' ' :: natDigits n))) := rfl
  have tk : ∀ s : Str, (!s.isEmpty && s.all (fun c => !isWs c)) = true → IsTok s := IsTok_lit
  rw [e, splitWs_tok_ws (tk _ (by decide)) isWs_space, splitWs_tok_ws (tk _ (by decide)) isWs_space,
    splitWs_tok_ws (tk _ (by decide)) isWs_space, splitWs_tok_ws (tk _ (by decide)) isWs_space,
    splitWs_tok_end (IsTok_natDigits n)]

theorem writeXcfg_cons (d : XcfgS) : ∃ ls, writeXcfg d = numLine d.atoms.length :: ls := by
  rw [writeXcfg_eq, writeXcfgL]; exact ⟨_, rfl⟩

theorem xyz_on_xcfg (d : XcfgS) : parseXyz (writeXcfg d) = .error .sfe := by
  obtain ⟨ls, e⟩ := writeXcfg_cons d
  rw [e]
  exact parseXyz_reject_words _ _ _ _ (numLine_words _) (by decide) (Or.inl (by simp))

/-- the raw XYZ reader rejects XCFG text: the first line has five columns -/
theorem rawxyz_on_xcfg (d : XcfgS) : parseRaw (writeXcfg d) = .error .sfe := by
  obtain ⟨ls, e⟩ := writeXcfg_cons d
  rw [e]
  apply parseRaw_reject
  · rw [numLine_words]; exact (by decide : ("Number".toList == ['#']) = false)
  · exact ⟨_, List.mem_cons_self, by rw [numLine_words]; simp⟩

theorem pdb_on_xcfg (d : XcfgS) : parsePdb (writeXcfg d) = .error .sfe := by
  obtain ⟨ls, e⟩ := writeXcfg_cons d
  rw [e]
  exact parsePdb_reject_words _ _ _ _ (numLine_words _) (by decide)

theorem headNot {l : Str} {c : Char} {cs : Str} (e : l = c :: cs) (h1 : isWs c = false) (h2 : c ≠ 'c') (h3 : c ≠ 'd') :
    FirstWordNot [kwCell, kwDcell] l := by
  apply firstWordNot_of_head
  intro c' cs' e'
  rw [e, lstrip_cons_noWs h1] at e'; cases e'
  exact ⟨h2, h3⟩

theorem xcfgAtomLines_noCell (L : XLayout) (as : List XAtom) (hel : ∀ a ∈ as, elemOk a.el = true)
    (hk : ∀ a ∈ as, kwFree a.el = true) :
    ∀ prev, ∀ l ∈ xcfgAtomLines L prev as, FirstWordNot [kwCell, kwDcell] l := by
  induction as with
  | nil => intro prev l hl; simp [xcfgAtomLines] at hl
  | cons a as ih =>
    intro prev l hl
    have hentry : FirstWordNot [kwCell, kwDcell] (xcfgEntry L a) := by
      cases hv : entryVals L a with
      | nil => exact absurd hv (entryVals_ne_nil L a)
      | cons v vs =>
        have hs : splitWs (xcfgEntry L a) = g8 v :: vs.map g8 := by
          rw [xcfgEntry_eq, splitWs_entry, hv]; rfl
        obtain ⟨c, cs, e, hc⟩ := fmtG_numHead 8 v
        exact firstWordNot_numHead hs e hc
    have hrest := ih (fun b hb => hel b (List.mem_cons_of_mem _ hb)) (fun b hb => hk b (List.mem_cons_of_mem _ hb))
    simp only [xcfgAtomLines, List.mem_append, List.mem_cons] at hl
    rcases hl with hl | rfl | hl
    · split at hl
      · cases hl
      · simp only [List.mem_cons, List.not_mem_nil, or_false] at hl
        rcases hl with rfl | rfl
        · have hs : splitWs (fmtF 0 4 a.mass) = [fmtFbody 4 a.mass] := (PadOf_fmtF 0 4 a.mass).split_last
          obtain ⟨c, cs, e, hc⟩ := fmtFbody_numHead 4 a.mass
          exact firstWordNot_numHead hs e hc
        · exact firstWordNot_words (splitWs_tok_end (IsTok_of_elemOk (hel a List.mem_cons_self)))
            (kwFree_not_mem (hk a List.mem_cons_self))
    · exact hentry
    · exact hrest _ l hl

theorem xcfg_noCell (d : XcfgS) (hr : reprXcfg d = true) (hk : xcfgKwFree d = true) :
    ∀ l ∈ writeXcfg d, FirstWordNot [kwCell, kwDcell] l := by
  obtain ⟨_, _, _, hwf⟩ := reprXcfg_spec d hr
  intro l hl
  rw [writeXcfg_eq, ← writeXcfgL_eq] at hl
  simp only [List.mem_append, List.mem_cons, List.mem_map, List.not_mem_nil, or_false] at hl
  rcases hl with ((((((rfl | rfl) | ⟨k, _, rfl⟩) | hl) | rfl) | ⟨p, _, rfl⟩) | rfl) | hl
  · exact headNot (c := 'N') rfl (by decide) (by decide) (by decide)
  · exact headNot (c := 'A') rfl (by decide) (by decide) (by decide)
  · exact headNot (c := 'H') rfl (by decide) (by decide) (by decide)
  · split at hl
    · simp only [List.mem_cons, List.not_mem_nil, or_false] at hl; subst hl
      exact headNot (c := '.') rfl (by decide) (by decide) (by decide)
    · cases hl
  · exact headNot (c := 'e') rfl (by decide) (by decide) (by decide)
  · exact headNot (c := 'a') rfl (by decide) (by decide) (by decide)
  · intro w ws e; cases e
  · exact xcfgAtomLines_noCell _ d.atoms (fun a ha => (hwf a ha).1) (fun a ha => List.all_eq_true.mp hk a ha) none l hl

theorem discus_on_xcfg (d : XcfgS) (hr : reprXcfg d = true) (hk : xcfgKwFree d = true) :
    parseDiscus (writeXcfg d) = .error .sfe ∨ parseDiscus (writeXcfg d) = .error .notImpl :=
  parseDiscus_noCell _ (noCell_weaken (xcfg_noCell d hr hk))

theorem pdffit_on_xcfg (d : XcfgS) (hr : reprXcfg d = true) (hk : xcfgKwFree d = true) :
    parsePdffit (writeXcfg d) = .error .sfe :=
  parsePdffit_noCell _ (xcfg_noCell d hr hk)

/-- line level own entry for XCFG -/
theorem parseXcfg_writeXcfg (d : XcfgS) (h : reprXcfg d = true) : parseXcfg (writeXcfg d) = .ok (quantXcfg d) := by
  obtain ⟨hne, hb, hs, hwf⟩ := reprXcfg_spec d h
  rw [writeXcfg_eq, quantXcfg_eq]
  exact parseXcfg_writeXcfgL _ d hne hb (layout_aux_tok d hs) _ (layout_aux_length d) hwf

/-- row `xcfg` -/
theorem matrix_xcfg (cifP : List Str → Outcome Res) (d : XcfgS) (hr : reprXcfg d = true) (hk : xcfgKwFree d = true)
    (hcif : Swallowed genAutoCfg (modelParse cifP (writeXcfg d)) "cif") :
    Row cifP (writeXcfg d) "xcfg" (.xcfg (quantXcfg d)) := by
  refine ⟨by simp [modelParse, parseXcfg_writeXcfg d hr, lift], ?_⟩
  apply forall_formats (P := fun f => f ≠ "xcfg" → Swallowed genAutoCfg (modelParse cifP (writeXcfg d)) f)
  · intro _; exact hcif
  · intro _
    rcases lift_sfe_or (tag := Res.discus) (discus_on_xcfg d hr hk) with h | h
    · exact swallowed_sfe (by simpa [modelParse] using h)
    · exact swallowed_notImpl (by simpa [modelParse] using h)
  · intro _; exact swallowed_sfe (by simpa [modelParse] using lift_sfe (tag := Res.pdb) (pdb_on_xcfg d))
  · intro _; exact swallowed_sfe (by simpa [modelParse] using lift_sfe (tag := Res.pdffit) (pdffit_on_xcfg d hr hk))
  · intro _; exact swallowed_sfe (by simpa [modelParse] using lift_sfe (tag := Res.rawxyz) (rawxyz_on_xcfg d))
  · intro h; exact absurd rfl h
  · intro _; exact swallowed_sfe (by simpa [modelParse] using lift_sfe (tag := Res.xyz) (xyz_on_xcfg d))

example : xcfgKwFree ⟨[3, 0, 0, 0, 3, 0, 0, 0, 3], false, [],
    [⟨"C".toList, 12, ⟨0, 0, 0⟩, 1, [0, 0, 0, 0, 0, 0, 0, 0, 0], none, []⟩]⟩ = true ∧
  reprXcfg ⟨[3, 0, 0, 0, 3, 0, 0, 0, 3], false, [],
    [⟨"C".toList, 12, ⟨0, 0, 0⟩, 1, [0, 0, 0, 0, 0, 0, 0, 0, 0], none, []⟩]⟩ = true := by decide +kernel

/-! ## the written-text clause of C12 on the models -/

/-- the `cif` column — the only entries of the 6 × 7 matrix that remain hypotheses: the CIF reader (PyCifRW's
tokeniser and grammar, not modelled for foreign text) raises a swallowed exception on the lines `t` -/
def CifRejects (cifP : List Str → Outcome Res) (t : List Str) : Prop :=
  Swallowed genAutoCfg (modelParse cifP t) "cif"

/-- **Written text is detected (models).**  For the lines produced by the model of the writer of `g ∈ {xyz, rawxyz,
discus, pdffit, pdb, xcfg}` from a document in the round-trip range of `g` (non-empty where that range does not say
so already; `kwFree` / `rawPdbFree` where the real library has counter-examples), and for EVERY file name `fn`, the
automatic parser over the candidate order of the registry under test — with the models of the six readers and any CIF
reader that rejects these lines — succeeds, reports `g`, and returns exactly what `g`'s own reader returns
(`quant_g d`).  All 30 off-diagonal entries among the six formats are proved from the models; the six `cif`-column
entries are the hypothesis `CifRejects`. -/
theorem written_text_detected_models (cifP : List Str → Outcome Res) (fn : Option String) :
    (∀ d : XyzS, reprXyz d = true → xyzKwFree d = true → CifRejects cifP (writeXyz d) →
      auto genAutoCfg (modelParse cifP (writeXyz d)) (orderFor genOrderCfg genRegistry fn) = .ok "xyz" (.xyz (quantXyz d))) ∧
    (∀ d : List PAtom, reprRaw d = true → d ≠ [] → rawKwFree d = true → rawPdbFree d = true → CifRejects cifP (writeRaw d) →
      auto genAutoCfg (modelParse cifP (writeRaw d)) (orderFor genOrderCfg genRegistry fn) = .ok "rawxyz" (.rawxyz (quantRaw d))) ∧
    (∀ d : DiscusS, reprDiscus d = true → d.atoms ≠ [] → CifRejects cifP (writeDiscus d) →
      auto genAutoCfg (modelParse cifP (writeDiscus d)) (orderFor genOrderCfg genRegistry fn) = .ok "discus" (.discus (quantDiscus d))) ∧
    (∀ d : PdffitS, reprPdffit d = true → CifRejects cifP (writePdffit d) →
      auto genAutoCfg (modelParse cifP (writePdffit d)) (orderFor genOrderCfg genRegistry fn) = .ok "pdffit" (.pdffit (quantPdffit d))) ∧
    (∀ d : PdbS, reprPdb d = true → CifRejects cifP (writePdb d) →
      auto genAutoCfg (modelParse cifP (writePdb d)) (orderFor genOrderCfg genRegistry fn) = .ok "pdb" (.pdb (quantPdb d))) ∧
    (∀ d : XcfgS, reprXcfg d = true → xcfgKwFree d = true → CifRejects cifP (writeXcfg d) →
      auto genAutoCfg (modelParse cifP (writeXcfg d)) (orderFor genOrderCfg genRegistry fn) = .ok "xcfg" (.xcfg (quantXcfg d))) :=
  ⟨fun d hr hk hc => detected_of_row cifP _ _ _ (by decide) (matrix_xyz cifP d hr hk hc) fn,
   fun d hr hne hk hp hc => detected_of_row cifP _ _ _ (by decide) (matrix_rawxyz cifP d hr hne hk hp hc) fn,
   fun d hr hne hc => detected_of_row cifP _ _ _ (by decide) (matrix_discus cifP d hr hne hc) fn,
   fun d hr hc => detected_of_row cifP _ _ _ (by decide) (matrix_pdffit cifP d hr hc) fn,
   fun d hr hc => detected_of_row cifP _ _ _ (by decide) (matrix_pdb cifP d hr hc) fn,
   fun d hr hk hc => detected_of_row cifP _ _ _ (by decide) (matrix_xcfg cifP d hr hk hc) fn⟩

/-- non-vacuity: a CIF reader that answers every text with the format error satisfies `CifRejects` everywhere, and
the theorem then applies to a concrete document under a misleading file name (`x.cif` puts `cif` first) -/
example : ∀ t, CifRejects (fun _ => .err "StructureFormatError" "not a CIF") t :=
  fun _ => ⟨_, _, rfl, by decide⟩
example : auto genAutoCfg (modelParse (fun _ => .err "StructureFormatError" "not a CIF")
      (writeXyz ⟨"NaCl".toList, [⟨"Na".toList, 0, 1/2, -1/3⟩]⟩)) (orderFor genOrderCfg genRegistry (some "x.cif")) =
    .ok "xyz" (.xyz (quantXyz ⟨"NaCl".toList, [⟨"Na".toList, 0, 1/2, -1/3⟩]⟩)) :=
  (written_text_detected_models _ _).1 _ (by decide) (by decide) ⟨_, _, rfl, by decide⟩

/-! ## the second criterion: no `atoms` record (readers repaired by 56ab7f4) -/

/-- `w` is not the word `k` -/
def wordFree (k w : Str) : Bool := w != k

/-- not the record word `atoms` -/
def atomsFree (w : Str) : Bool := wordFree kwAtoms w
/-- not the record word `dcell` -/
def dcellFree (w : Str) : Bool := wordFree kwDcell w

theorem wordFree_ne {k w : Str} (h : wordFree k w = true) : w ≠ k := by
  simpa [wordFree] using h

/-- a word that none of the fixed lines of the XYZ / raw XYZ / XCFG writers begins with: it has two characters at
least, does not start like a number, nor with `N` (`Number of particles`), `A` (`A =`), `H` (`H0(…)`), `e`
(`entry_count`), `au` (`auxiliary[…]`) -/
def plainWord (k : Str) : Bool :=
  match k with
  | c :: c2 :: _ => !numHead c && c != 'N' && c != 'A' && c != 'H' && c != 'e' && !(c == 'a' && c2 == 'u')
  | _ => false

theorem plainWord_spec {k : Str} (h : plainWord k = true) :
    ∃ c c2 t, k = c :: c2 :: t ∧ numHead c = false ∧ c ≠ 'N' ∧ c ≠ 'A' ∧ c ≠ 'H' ∧ c ≠ 'e' ∧ (c = 'a' → c2 ≠ 'u') := by
  match k, h with
  | c :: c2 :: t, h =>
    simp only [plainWord, Bool.and_eq_true, Bool.not_eq_true', bne_iff_ne, ne_eq, Bool.and_eq_false_iff,
      beq_eq_false_iff_ne] at h
    obtain ⟨⟨⟨⟨⟨h1, h2⟩, h3⟩, h4⟩, h5⟩, h6⟩ := h
    refine ⟨c, c2, t, rfl, h1, h2, h3, h4, h5, ?_⟩
    intro e; rcases h6 with h6 | h6
    · exact absurd e h6
    · exact h6

theorem plain_atoms : plainWord kwAtoms = true := by decide
theorem plain_dcell : plainWord kwDcell = true := by decide

theorem firstWordNot_one {l w k : Str} {ws : List Str} (hs : splitWs l = w :: ws) (h : w ≠ k) :
    FirstWordNot [k] l := by
  intro w' ws' e hm
  rw [hs] at e; cases e
  simp only [List.mem_cons, List.not_mem_nil, or_false] at hm
  exact h hm

theorem firstWordNot_pair {l k1 k2 : Str} (h1 : FirstWordNot [k1] l) (h2 : FirstWordNot [k2] l) :
    FirstWordNot [k1, k2] l := by
  intro w ws e hm
  simp only [List.mem_cons, List.not_mem_nil, or_false] at hm
  rcases hm with rfl | rfl
  · exact h1 _ ws e (by simp)
  · exact h2 _ ws e (by simp)

theorem firstWordNot_num {k : Str} (hk : plainWord k = true) {l w : Str} {ws : List Str} (hs : splitWs l = w :: ws)
    {c : Char} {cs : Str} (hw : w = c :: cs) (hc : numHead c = true) : FirstWordNot [k] l := by
  apply firstWordNot_one hs
  obtain ⟨c', c2, t, rfl, hn, _⟩ := plainWord_spec hk
  intro e; rw [hw] at e; cases e
  rw [hc] at hn; cases hn

/-- a line that begins with the non-blank character `c`: its first word is not a word that begins otherwise -/
theorem headNot1 {k l : Str} {c : Char} {cs : Str} (e : l = c :: cs) (h1 : isWs c = false)
    (hk : ∀ t, k ≠ c :: t) : FirstWordNot [k] l := by
  obtain ⟨t, rest, es⟩ := splitWs_cons_head (s := cs) h1
  subst e
  exact firstWordNot_one es (fun e' => hk t e'.symm)

theorem splitWs_cons2_head {c c2 : Char} {s : Str} (hc : isWs c = false) (hc2 : isWs c2 = false) :
    ∃ t rest, splitWs (c :: c2 :: s) = (c :: c2 :: t) :: rest := by
  obtain ⟨t, rest, e⟩ := splitAux_acc s [c2, c] (by simp)
  refine ⟨t, rest, ?_⟩
  simp only [splitWs, splitAux, hc, hc2, Bool.false_eq_true, if_false]
  simpa using e

theorem headNot2 {k l : Str} {c c2 : Char} {cs : Str} (e : l = c :: c2 :: cs) (h1 : isWs c = false)
    (h2 : isWs c2 = false) (hk : ∀ t, k ≠ c :: c2 :: t) : FirstWordNot [k] l := by
  obtain ⟨t, rest, es⟩ := splitWs_cons2_head (s := cs) h1 h2
  subst e
  exact firstWordNot_one es (fun e' => hk t e'.symm)

/-! ### XYZ text -/

/-- neither the title's first word nor an element is the word `k` -/
def xyzWordFree (k : Str) (d : XyzS) : Bool :=
  (match splitWs d.title with | w :: _ => wordFree k w | [] => true) && d.atoms.all (fun a => wordFree k a.el)

/-- hypothesis of the `discus` / `pdffit` columns for XYZ text, second form: neither the title's first word nor an
element is `atoms` -/
def xyzAtomsFree (d : XyzS) : Bool := xyzWordFree kwAtoms d
/-- … nor `dcell` (for the model of the PDFfit reader: a `dcell` record that has not six numbers is `PErr.unmodelled`) -/
def xyzDcellFree (d : XyzS) : Bool := xyzWordFree kwDcell d

theorem xyz_noWord (k : Str) (hp : plainWord k = true) (d : XyzS) (hr : reprXyz d = true)
    (hk : xyzWordFree k d = true) : ∀ l ∈ writeXyz d, FirstWordNot [k] l := by
  simp only [reprXyz, rangeXyz, Bool.and_eq_true] at hr
  simp only [xyzWordFree, Bool.and_eq_true] at hk
  intro l hl
  simp only [writeXyz, List.mem_cons, List.mem_map] at hl
  rcases hl with rfl | rfl | ⟨a, ha, rfl⟩
  · obtain ⟨c, cs, e, hc, _, hs⟩ := xyz_first d
    exact firstWordNot_num hp hs e (by simp [numHead, hc])
  · intro w ws e hm
    have := hk.1
    rw [e] at this
    simp only [List.mem_cons, List.not_mem_nil, or_false] at hm
    exact wordFree_ne this hm
  · have hel := List.all_eq_true.mp hr.2 a ha
    exact firstWordNot_one (splitWs_xyzLine a hel) (wordFree_ne (List.all_eq_true.mp hk.2 a ha))

/-- XYZ text of a document whose title and elements avoid the word `atoms` has no line that begins with `atoms` -/
theorem xyz_noAtoms (d : XyzS) (hr : reprXyz d = true) (hk : xyzAtomsFree d = true) :
    ∀ l ∈ writeXyz d, FirstWordNot [kwAtoms] l := xyz_noWord _ plain_atoms d hr hk

theorem xyz_noDcell (d : XyzS) (hr : reprXyz d = true) (hk : xyzDcellFree d = true) :
    ∀ l ∈ writeXyz d, FirstWordNot [kwDcell] l := xyz_noWord _ plain_dcell d hr hk

/-- the DISCUS reader rejects XYZ text that has no `atoms` record -/
theorem discus_on_xyz_atoms (d : XyzS) (hr : reprXyz d = true) (ha : xyzAtomsFree d = true) :
    parseDiscus (writeXyz d) = .error .sfe ∨ parseDiscus (writeXyz d) = .error .notImpl :=
  parseDiscus_noAtoms _ (xyz_noAtoms d hr ha)

/-- the PDFfit reader rejects XYZ text that has no `atoms` record (and no `dcell` record, for the model's sake) -/
theorem pdffit_on_xyz_atoms (d : XyzS) (hr : reprXyz d = true) (ha : xyzAtomsFree d = true)
    (hd : xyzDcellFree d = true) : parsePdffit (writeXyz d) = .error .sfe :=
  parsePdffit_noAtoms _ (fun l hl => firstWordNot_pair (xyz_noAtoms d hr ha l hl) (xyz_noDcell d hr hd l hl))

/-- … without the `dcell` condition: the model of the PDFfit reader never accepts -/
theorem pdffit_on_xyz_atoms' (d : XyzS) (hr : reprXyz d = true) (ha : xyzAtomsFree d = true) :
    parsePdffit (writeXyz d) = .error .sfe ∨ parsePdffit (writeXyz d) = .error .unmodelled :=
  (parsePdffit_noAtoms' _ (xyz_noAtoms d hr ha)).imp id And.left

/-- either criterion: no `cell` record or no `atoms` record -/
theorem discus_on_xyz_either (d : XyzS) (hr : reprXyz d = true) (h : xyzKwFree d = true ∨ xyzAtomsFree d = true) :
    parseDiscus (writeXyz d) = .error .sfe ∨ parseDiscus (writeXyz d) = .error .notImpl :=
  h.elim (discus_on_xyz d hr) (discus_on_xyz_atoms d hr)

theorem pdffit_on_xyz_either (d : XyzS) (hr : reprXyz d = true)
    (h : xyzKwFree d = true ∨ (xyzAtomsFree d = true ∧ xyzDcellFree d = true)) :
    parsePdffit (writeXyz d) = .error .sfe :=
  h.elim (pdffit_on_xyz d hr) (fun h => pdffit_on_xyz_atoms d hr h.1 h.2)

/-- non-vacuity of the new hypotheses -/
example : reprXyz ⟨"NaCl".toList, [⟨"Na".toList, 0, 1/2, -1/3⟩]⟩ = true ∧
    xyzAtomsFree ⟨"NaCl".toList, [⟨"Na".toList, 0, 1/2, -1/3⟩]⟩ = true ∧
    xyzDcellFree ⟨"NaCl".toList, [⟨"Na".toList, 0, 1/2, -1/3⟩]⟩ = true := by decide
/-- the new criterion covers what the old one does not: the title `cell 1 1 1` (the input the cross stream found before
the repair) fails `xyzKwFree`, satisfies `xyzAtomsFree`, and is rejected by both models -/
example : reprXyz ⟨"cell 1 1 1".toList, [⟨"C".toList, 0, 0, 0⟩]⟩ = true ∧
    xyzKwFree ⟨"cell 1 1 1".toList, [⟨"C".toList, 0, 0, 0⟩]⟩ = false ∧
    xyzAtomsFree ⟨"cell 1 1 1".toList, [⟨"C".toList, 0, 0, 0⟩]⟩ = true ∧
    xyzDcellFree ⟨"cell 1 1 1".toList, [⟨"C".toList, 0, 0, 0⟩]⟩ = true := by decide
/-- … and the old one covers what the new one does not: an atom named `atoms` without any `cell` -/
example : reprXyz ⟨"t".toList, [⟨"atoms".toList, 0, 0, 0⟩]⟩ = true ∧
    xyzKwFree ⟨"t".toList, [⟨"atoms".toList, 0, 0, 0⟩]⟩ = true ∧
    xyzAtomsFree ⟨"t".toList, [⟨"atoms".toList, 0, 0, 0⟩]⟩ = false := by decide
/-- the disjunction cannot be dropped: XYZ text of the atoms `cell 1 1 1`, `atoms 0 0 0` fails both hypotheses, and the
DISCUS model (like the real reader) accepts it as a structure without atoms -/
example : xyzKwFree ⟨"t".toList, [⟨"cell".toList, 1, 1, 1⟩, ⟨"atoms".toList, 0, 0, 0⟩]⟩ = false ∧
    xyzAtomsFree ⟨"t".toList, [⟨"cell".toList, 1, 1, 1⟩, ⟨"atoms".toList, 0, 0, 0⟩]⟩ = false ∧
    (match parseDiscus (writeXyz ⟨"t".toList, [⟨"cell".toList, 1, 1, 1⟩, ⟨"atoms".toList, 0, 0, 0⟩]⟩) with
      | .ok r => r.atoms.isEmpty | .error _ => false) = true := by decide +kernel
/-- why `xyzDcellFree` stands beside `xyzAtomsFree` in the PDFfit entries: the model of the PDFfit reader leaves a
`dcell` record with two numbers as `unmodelled` (the real reader stores the two numbers and fails at the end of the
header, `StructureFormatError`) -/
example : parsePdffit (writeXyz ⟨"dcell 1 2".toList, [⟨"C".toList, 0, 0, 0⟩]⟩) = .error .unmodelled := by decide +kernel

/-! ### raw XYZ text -/

def rawWordFree (k : Str) (atoms : List PAtom) : Bool := atoms.all (fun a => wordFree k a.el)
/-- no element is named `atoms` -/
def rawAtomsFree (atoms : List PAtom) : Bool := rawWordFree kwAtoms atoms
def rawDcellFree (atoms : List PAtom) : Bool := rawWordFree kwDcell atoms

theorem raw_noWord (k : Str) (hp : plainWord k = true) (atoms : List PAtom) (hr : reprRaw atoms = true)
    (hk : rawWordFree k atoms = true) : ∀ l ∈ writeRaw atoms, FirstWordNot [k] l := by
  intro l hl
  simp only [writeRaw, List.mem_map] at hl
  obtain ⟨a, ha, rfl⟩ := hl
  rcases raw_line _ hr a ha with ⟨_, hs⟩ | ⟨_, hs⟩
  · exact firstWordNot_one hs (wordFree_ne (List.all_eq_true.mp hk a ha))
  · obtain ⟨c, cs, e, hc⟩ := fmtG_numHead 6 a.x
    exact firstWordNot_num hp hs e hc

theorem raw_noAtoms (atoms : List PAtom) (hr : reprRaw atoms = true) (hk : rawAtomsFree atoms = true) :
    ∀ l ∈ writeRaw atoms, FirstWordNot [kwAtoms] l := raw_noWord _ plain_atoms atoms hr hk

theorem raw_noDcell (atoms : List PAtom) (hr : reprRaw atoms = true) (hk : rawDcellFree atoms = true) :
    ∀ l ∈ writeRaw atoms, FirstWordNot [kwDcell] l := raw_noWord _ plain_dcell atoms hr hk

theorem discus_on_rawxyz_atoms (atoms : List PAtom) (hr : reprRaw atoms = true) (ha : rawAtomsFree atoms = true) :
    parseDiscus (writeRaw atoms) = .error .sfe ∨ parseDiscus (writeRaw atoms) = .error .notImpl :=
  parseDiscus_noAtoms _ (raw_noAtoms atoms hr ha)

theorem pdffit_on_rawxyz_atoms (atoms : List PAtom) (hr : reprRaw atoms = true) (ha : rawAtomsFree atoms = true)
    (hd : rawDcellFree atoms = true) : parsePdffit (writeRaw atoms) = .error .sfe :=
  parsePdffit_noAtoms _ (fun l hl => firstWordNot_pair (raw_noAtoms atoms hr ha l hl) (raw_noDcell atoms hr hd l hl))

theorem pdffit_on_rawxyz_atoms' (atoms : List PAtom) (hr : reprRaw atoms = true) (ha : rawAtomsFree atoms = true) :
    parsePdffit (writeRaw atoms) = .error .sfe ∨ parsePdffit (writeRaw atoms) = .error .unmodelled :=
  (parsePdffit_noAtoms' _ (raw_noAtoms atoms hr ha)).imp id And.left

theorem discus_on_rawxyz_either (atoms : List PAtom) (hr : reprRaw atoms = true)
    (h : rawKwFree atoms = true ∨ rawAtomsFree atoms = true) :
    parseDiscus (writeRaw atoms) = .error .sfe ∨ parseDiscus (writeRaw atoms) = .error .notImpl :=
  h.elim (discus_on_rawxyz atoms hr) (discus_on_rawxyz_atoms atoms hr)

theorem pdffit_on_rawxyz_either (atoms : List PAtom) (hr : reprRaw atoms = true)
    (h : rawKwFree atoms = true ∨ (rawAtomsFree atoms = true ∧ rawDcellFree atoms = true)) :
    parsePdffit (writeRaw atoms) = .error .sfe :=
  h.elim (pdffit_on_rawxyz atoms hr) (fun h => pdffit_on_rawxyz_atoms atoms hr h.1 h.2)

/-- non-vacuity; an element `cell` alone (fails `rawKwFree`) is covered by the new criterion -/
example : reprRaw [⟨"Na".toList, 0, 1/2, -1/3⟩] = true ∧ rawAtomsFree [⟨"Na".toList, 0, 1/2, -1/3⟩] = true ∧
    rawDcellFree [⟨"Na".toList, 0, 1/2, -1/3⟩] = true := by decide
example : reprRaw [⟨"cell".toList, 1, 1, 1⟩, ⟨"C".toList, 0, 0, 0⟩] = true ∧
    rawKwFree [⟨"cell".toList, 1, 1, 1⟩, ⟨"C".toList, 0, 0, 0⟩] = false ∧
    rawAtomsFree [⟨"cell".toList, 1, 1, 1⟩, ⟨"C".toList, 0, 0, 0⟩] = true ∧
    rawDcellFree [⟨"cell".toList, 1, 1, 1⟩, ⟨"C".toList, 0, 0, 0⟩] = true := by decide
/-- the disjunction cannot be dropped: raw XYZ text of the atoms `cell 1 1 1`, `atoms 0 0 0` is a DISCUS file without
atoms for the model -/
example : rawKwFree [⟨"cell".toList, 1, 1, 1⟩, ⟨"atoms".toList, 0, 0, 0⟩] = false ∧
    rawAtomsFree [⟨"cell".toList, 1, 1, 1⟩, ⟨"atoms".toList, 0, 0, 0⟩] = false ∧
    (match parseDiscus (writeRaw [⟨"cell".toList, 1, 1, 1⟩, ⟨"atoms".toList, 0, 0, 0⟩]) with
      | .ok r => r.atoms.isEmpty | .error _ => false) = true := by decide +kernel

/-! ### XCFG text -/

def xcfgWordFree (k : Str) (d : XcfgS) : Bool := d.atoms.all (fun a => wordFree k a.el)
/-- no element is named `atoms` (XCFG text has no title line) -/
def xcfgAtomsFree (d : XcfgS) : Bool := xcfgWordFree kwAtoms d
def xcfgDcellFree (d : XcfgS) : Bool := xcfgWordFree kwDcell d

theorem xcfgAtomLines_noWord (k : Str) (hp : plainWord k = true) (L : XLayout) (as : List XAtom)
    (hel : ∀ a ∈ as, elemOk a.el = true) (hk : ∀ a ∈ as, wordFree k a.el = true) :
    ∀ prev, ∀ l ∈ xcfgAtomLines L prev as, FirstWordNot [k] l := by
  induction as with
  | nil => intro prev l hl; simp [xcfgAtomLines] at hl
  | cons a as ih =>
    intro prev l hl
    have hentry : FirstWordNot [k] (xcfgEntry L a) := by
      cases hv : entryVals L a with
      | nil => exact absurd hv (entryVals_ne_nil L a)
      | cons v vs =>
        have hs : splitWs (xcfgEntry L a) = g8 v :: vs.map g8 := by
          rw [xcfgEntry_eq, splitWs_entry, hv]; rfl
        obtain ⟨c, cs, e, hc⟩ := fmtG_numHead 8 v
        exact firstWordNot_num hp hs e hc
    have hrest := ih (fun b hb => hel b (List.mem_cons_of_mem _ hb)) (fun b hb => hk b (List.mem_cons_of_mem _ hb))
    simp only [xcfgAtomLines, List.mem_append, List.mem_cons] at hl
    rcases hl with hl | rfl | hl
    · split at hl
      · cases hl
      · simp only [List.mem_cons, List.not_mem_nil, or_false] at hl
        rcases hl with rfl | rfl
        · have hs : splitWs (fmtF 0 4 a.mass) = [fmtFbody 4 a.mass] := (PadOf_fmtF 0 4 a.mass).split_last
          obtain ⟨c, cs, e, hc⟩ := fmtFbody_numHead 4 a.mass
          exact firstWordNot_num hp hs e hc
        · exact firstWordNot_one (splitWs_tok_end (IsTok_of_elemOk (hel a List.mem_cons_self)))
            (wordFree_ne (hk a List.mem_cons_self))
    · exact hentry
    · exact hrest _ l hl

theorem xcfg_noWord (k : Str) (hp : plainWord k = true) (d : XcfgS) (hr : reprXcfg d = true)
    (hk : xcfgWordFree k d = true) : ∀ l ∈ writeXcfg d, FirstWordNot [k] l := by
  obtain ⟨_, _, _, hwf⟩ := reprXcfg_spec d hr
  obtain ⟨c, c2, t, rfl, hn, hN, hA, hH, he, hau⟩ := plainWord_spec hp
  have hdot : c ≠ '.' := by intro e; subst e; revert hn; decide
  intro l hl
  rw [writeXcfg_eq, ← writeXcfgL_eq] at hl
  simp only [List.mem_append, List.mem_cons, List.mem_map, List.not_mem_nil, or_false] at hl
  rcases hl with ((((((rfl | rfl) | ⟨k, _, rfl⟩) | hl) | rfl) | ⟨p, _, rfl⟩) | rfl) | hl
  · exact headNot1 (c := 'N') rfl (by decide) (by intro t e; cases e; exact hN rfl)
  · exact headNot1 (c := 'A') rfl (by decide) (by intro t e; cases e; exact hA rfl)
  · exact headNot1 (c := 'H') rfl (by decide) (by intro t e; cases e; exact hH rfl)
  · split at hl
    · simp only [List.mem_cons, List.not_mem_nil, or_false] at hl; subst hl
      exact headNot1 (c := '.') rfl (by decide) (by intro t e; cases e; exact hdot rfl)
    · cases hl
  · exact headNot1 (c := 'e') rfl (by decide) (by intro t e; cases e; exact he rfl)
  · exact headNot2 (c := 'a') (c2 := 'u') rfl (by decide) (by decide) (by intro t e; cases e; exact hau rfl rfl)
  · intro w ws e; cases e
  · exact xcfgAtomLines_noWord _ hp _ d.atoms (fun a ha => (hwf a ha).1) (fun a ha => List.all_eq_true.mp hk a ha) none l hl

theorem xcfg_noAtoms (d : XcfgS) (hr : reprXcfg d = true) (hk : xcfgAtomsFree d = true) :
    ∀ l ∈ writeXcfg d, FirstWordNot [kwAtoms] l := xcfg_noWord _ plain_atoms d hr hk

theorem xcfg_noDcell (d : XcfgS) (hr : reprXcfg d = true) (hk : xcfgDcellFree d = true) :
    ∀ l ∈ writeXcfg d, FirstWordNot [kwDcell] l := xcfg_noWord _ plain_dcell d hr hk

theorem discus_on_xcfg_atoms (d : XcfgS) (hr : reprXcfg d = true) (ha : xcfgAtomsFree d = true) :
    parseDiscus (writeXcfg d) = .error .sfe ∨ parseDiscus (writeXcfg d) = .error .notImpl :=
  parseDiscus_noAtoms _ (xcfg_noAtoms d hr ha)

theorem pdffit_on_xcfg_atoms (d : XcfgS) (hr : reprXcfg d = true) (ha : xcfgAtomsFree d = true)
    (hd : xcfgDcellFree d = true) : parsePdffit (writeXcfg d) = .error .sfe :=
  parsePdffit_noAtoms _ (fun l hl => firstWordNot_pair (xcfg_noAtoms d hr ha l hl) (xcfg_noDcell d hr hd l hl))

theorem pdffit_on_xcfg_atoms' (d : XcfgS) (hr : reprXcfg d = true) (ha : xcfgAtomsFree d = true) :
    parsePdffit (writeXcfg d) = .error .sfe ∨ parsePdffit (writeXcfg d) = .error .unmodelled :=
  (parsePdffit_noAtoms' _ (xcfg_noAtoms d hr ha)).imp id And.left

theorem discus_on_xcfg_either (d : XcfgS) (hr : reprXcfg d = true)
    (h : xcfgKwFree d = true ∨ xcfgAtomsFree d = true) :
    parseDiscus (writeXcfg d) = .error .sfe ∨ parseDiscus (writeXcfg d) = .error .notImpl :=
  h.elim (discus_on_xcfg d hr) (discus_on_xcfg_atoms d hr)

theorem pdffit_on_xcfg_either (d : XcfgS) (hr : reprXcfg d = true)
    (h : xcfgKwFree d = true ∨ (xcfgAtomsFree d = true ∧ xcfgDcellFree d = true)) :
    parsePdffit (writeXcfg d) = .error .sfe :=
  h.elim (pdffit_on_xcfg d hr) (fun h => pdffit_on_xcfg_atoms d hr h.1 h.2)

/-- non-vacuity; an element `cell` (fails `xcfgKwFree`) is covered by the new criterion -/
example : xcfgAtomsFree ⟨[3, 0, 0, 0, 3, 0, 0, 0, 3], false, [],
    [⟨"C".toList, 12, ⟨0, 0, 0⟩, 1, [0, 0, 0, 0, 0, 0, 0, 0, 0], none, []⟩]⟩ = true ∧
  xcfgDcellFree ⟨[3, 0, 0, 0, 3, 0, 0, 0, 3], false, [],
    [⟨"C".toList, 12, ⟨0, 0, 0⟩, 1, [0, 0, 0, 0, 0, 0, 0, 0, 0], none, []⟩]⟩ = true ∧
  reprXcfg ⟨[3, 0, 0, 0, 3, 0, 0, 0, 3], false, [],
    [⟨"C".toList, 12, ⟨0, 0, 0⟩, 1, [0, 0, 0, 0, 0, 0, 0, 0, 0], none, []⟩]⟩ = true := by decide +kernel
example : xcfgKwFree ⟨[3, 0, 0, 0, 3, 0, 0, 0, 3], false, [],
    [⟨"cell".toList, 12, ⟨0, 0, 0⟩, 1, [0, 0, 0, 0, 0, 0, 0, 0, 0], none, []⟩]⟩ = false ∧
  xcfgAtomsFree ⟨[3, 0, 0, 0, 3, 0, 0, 0, 3], false, [],
    [⟨"cell".toList, 12, ⟨0, 0, 0⟩, 1, [0, 0, 0, 0, 0, 0, 0, 0, 0], none, []⟩]⟩ = true ∧
  xcfgDcellFree ⟨[3, 0, 0, 0, 3, 0, 0, 0, 3], false, [],
    [⟨"cell".toList, 12, ⟨0, 0, 0⟩, 1, [0, 0, 0, 0, 0, 0, 0, 0, 0], none, []⟩]⟩ = true ∧
  reprXcfg ⟨[3, 0, 0, 0, 3, 0, 0, 0, 3], false, [],
    [⟨"cell".toList, 12, ⟨0, 0, 0⟩, 1, [0, 0, 0, 0, 0, 0, 0, 0, 0], none, []⟩]⟩ = true := by decide +kernel

/-! ### rows of the matrix and the detection theorem under either criterion -/

theorem swallowed_discus {cifP : List Str → Outcome Res} {t : List Str}
    (h : parseDiscus t = .error .sfe ∨ parseDiscus t = .error .notImpl) :
    Swallowed genAutoCfg (modelParse cifP t) "discus" := by
  rcases lift_sfe_or (tag := Res.discus) h with h | h
  · exact swallowed_sfe (by simpa [modelParse] using h)
  · exact swallowed_notImpl (by simpa [modelParse] using h)

theorem swallowed_pdffit {cifP : List Str → Outcome Res} {t : List Str} (h : parsePdffit t = .error .sfe) :
    Swallowed genAutoCfg (modelParse cifP t) "pdffit" :=
  swallowed_sfe (by simpa [modelParse] using lift_sfe (tag := Res.pdffit) h)

/-- row `xyz` under either criterion -/
theorem matrix_xyz' (cifP : List Str → Outcome Res) (d : XyzS) (hr : reprXyz d = true)
    (hk : xyzKwFree d = true ∨ (xyzAtomsFree d = true ∧ xyzDcellFree d = true))
    (hcif : Swallowed genAutoCfg (modelParse cifP (writeXyz d)) "cif") :
    Row cifP (writeXyz d) "xyz" (.xyz (quantXyz d)) := by
  have hr' := hr
  simp only [reprXyz, rangeXyz, Bool.and_eq_true] at hr'
  refine ⟨by simp [modelParse, parseXyz_writeXyz d hr'.2, lift], ?_⟩
  apply forall_formats (P := fun f => f ≠ "xyz" → Swallowed genAutoCfg (modelParse cifP (writeXyz d)) f)
  · intro _; exact hcif
  · intro _; exact swallowed_discus (discus_on_xyz_either d hr (hk.imp id And.left))
  · intro _; exact swallowed_sfe (by simpa [modelParse] using lift_sfe (tag := Res.pdb) (pdb_on_xyz d))
  · intro _; exact swallowed_pdffit (pdffit_on_xyz_either d hr hk)
  · intro _; exact swallowed_sfe (by simpa [modelParse] using lift_sfe (tag := Res.rawxyz) (rawxyz_on_xyz d))
  · intro _; exact swallowed_sfe (by simpa [modelParse] using lift_sfe (tag := Res.xcfg) (xcfg_on_xyz d))
  · intro h; exact absurd rfl h

/-- row `rawxyz` under either criterion -/
theorem matrix_rawxyz' (cifP : List Str → Outcome Res) (d : List PAtom) (hr : reprRaw d = true) (hne : d ≠ [])
    (hk : rawKwFree d = true ∨ (rawAtomsFree d = true ∧ rawDcellFree d = true)) (hp : rawPdbFree d = true)
    (hcif : Swallowed genAutoCfg (modelParse cifP (writeRaw d)) "cif") :
    Row cifP (writeRaw d) "rawxyz" (.rawxyz (quantRaw d)) := by
  refine ⟨by simp [modelParse, parseRaw_writeRaw d hr, lift], ?_⟩
  apply forall_formats (P := fun f => f ≠ "rawxyz" → Swallowed genAutoCfg (modelParse cifP (writeRaw d)) f)
  · intro _; exact hcif
  · intro _; exact swallowed_discus (discus_on_rawxyz_either d hr (hk.imp id And.left))
  · intro _; exact swallowed_sfe (by simpa [modelParse] using lift_sfe (tag := Res.pdb) (pdb_on_rawxyz d hr hne hp))
  · intro _; exact swallowed_pdffit (pdffit_on_rawxyz_either d hr hk)
  · intro h; exact absurd rfl h
  · intro _; exact swallowed_sfe (by simpa [modelParse] using lift_sfe (tag := Res.xcfg) (xcfg_on_rawxyz d hr))
  · intro _; exact swallowed_sfe (by simpa [modelParse] using lift_sfe (tag := Res.xyz) (xyz_on_rawxyz d hr hne))

/-- row `xcfg` under either criterion -/
theorem matrix_xcfg' (cifP : List Str → Outcome Res) (d : XcfgS) (hr : reprXcfg d = true)
    (hk : xcfgKwFree d = true ∨ (xcfgAtomsFree d = true ∧ xcfgDcellFree d = true))
    (hcif : Swallowed genAutoCfg (modelParse cifP (writeXcfg d)) "cif") :
    Row cifP (writeXcfg d) "xcfg" (.xcfg (quantXcfg d)) := by
  refine ⟨by simp [modelParse, parseXcfg_writeXcfg d hr, lift], ?_⟩
  apply forall_formats (P := fun f => f ≠ "xcfg" → Swallowed genAutoCfg (modelParse cifP (writeXcfg d)) f)
  · intro _; exact hcif
  · intro _; exact swallowed_discus (discus_on_xcfg_either d hr (hk.imp id And.left))
  · intro _; exact swallowed_sfe (by simpa [modelParse] using lift_sfe (tag := Res.pdb) (pdb_on_xcfg d))
  · intro _; exact swallowed_pdffit (pdffit_on_xcfg_either d hr hk)
  · intro _; exact swallowed_sfe (by simpa [modelParse] using lift_sfe (tag := Res.rawxyz) (rawxyz_on_xcfg d))
  · intro h; exact absurd rfl h
  · intro _; exact swallowed_sfe (by simpa [modelParse] using lift_sfe (tag := Res.xyz) (xyz_on_xcfg d))

/-- **Written text is detected (models), either criterion.**  `written_text_detected_models` with the hypotheses on the
words of the document weakened to: no word `cell` / `dcell` (`…KwFree`, the criterion the theorem was first proved with),
OR no word `atoms` and no word `dcell` (`…AtomsFree`, `…DcellFree`: since 56ab7f4 the DISCUS and PDFfit readers require an
`atoms` record).  The rows `discus`, `pdffit`, `pdb` are unconditional as before. -/
theorem written_text_detected_models' (cifP : List Str → Outcome Res) (fn : Option String) :
    (∀ d : XyzS, reprXyz d = true → (xyzKwFree d = true ∨ (xyzAtomsFree d = true ∧ xyzDcellFree d = true)) →
      CifRejects cifP (writeXyz d) →
      auto genAutoCfg (modelParse cifP (writeXyz d)) (orderFor genOrderCfg genRegistry fn) = .ok "xyz" (.xyz (quantXyz d))) ∧
    (∀ d : List PAtom, reprRaw d = true → d ≠ [] →
      (rawKwFree d = true ∨ (rawAtomsFree d = true ∧ rawDcellFree d = true)) → rawPdbFree d = true →
      CifRejects cifP (writeRaw d) →
      auto genAutoCfg (modelParse cifP (writeRaw d)) (orderFor genOrderCfg genRegistry fn) = .ok "rawxyz" (.rawxyz (quantRaw d))) ∧
    (∀ d : DiscusS, reprDiscus d = true → d.atoms ≠ [] → CifRejects cifP (writeDiscus d) →
      auto genAutoCfg (modelParse cifP (writeDiscus d)) (orderFor genOrderCfg genRegistry fn) = .ok "discus" (.discus (quantDiscus d))) ∧
    (∀ d : PdffitS, reprPdffit d = true → CifRejects cifP (writePdffit d) →
      auto genAutoCfg (modelParse cifP (writePdffit d)) (orderFor genOrderCfg genRegistry fn) = .ok "pdffit" (.pdffit (quantPdffit d))) ∧
    (∀ d : PdbS, reprPdb d = true → CifRejects cifP (writePdb d) →
      auto genAutoCfg (modelParse cifP (writePdb d)) (orderFor genOrderCfg genRegistry fn) = .ok "pdb" (.pdb (quantPdb d))) ∧
    (∀ d : XcfgS, reprXcfg d = true → (xcfgKwFree d = true ∨ (xcfgAtomsFree d = true ∧ xcfgDcellFree d = true)) →
      CifRejects cifP (writeXcfg d) →
      auto genAutoCfg (modelParse cifP (writeXcfg d)) (orderFor genOrderCfg genRegistry fn) = .ok "xcfg" (.xcfg (quantXcfg d))) :=
  ⟨fun d hr hk hc => detected_of_row cifP _ _ _ (by decide) (matrix_xyz' cifP d hr hk hc) fn,
   fun d hr hne hk hp hc => detected_of_row cifP _ _ _ (by decide) (matrix_rawxyz' cifP d hr hne hk hp hc) fn,
   (written_text_detected_models cifP fn).2.2.1,
   (written_text_detected_models cifP fn).2.2.2.1,
   (written_text_detected_models cifP fn).2.2.2.2.1,
   fun d hr hk hc => detected_of_row cifP _ _ _ (by decide) (matrix_xcfg' cifP d hr hk hc) fn⟩

/-- non-vacuity on the input that was the counter-example before the repair: XYZ text with the title `cell 1 1 1`, under a
misleading file name, is detected as `xyz` (the right disjunct holds, the left one does not) -/
example : auto genAutoCfg (modelParse (fun _ => .err "StructureFormatError" "not a CIF")
      (writeXyz ⟨"cell 1 1 1".toList, [⟨"C".toList, 0, 0, 0⟩]⟩)) (orderFor genOrderCfg genRegistry (some "x.discus")) =
    .ok "xyz" (.xyz (quantXyz ⟨"cell 1 1 1".toList, [⟨"C".toList, 0, 0, 0⟩]⟩)) :=
  (written_text_detected_models' _ _).1 _ (by decide) (Or.inr (by decide)) ⟨_, _, rfl, by decide⟩

end DS.Props.C12Matrix
