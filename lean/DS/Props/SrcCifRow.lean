import DS.Gen.SrcCifRow
import DS.Model.CifRow
/-!
# Source tie for the atom-site row phase of the CIF reader (serves C07)

`DS/Gen/SrcCifRow.lean` is regenerated on every run by `translate/src_cifrow.py` from the *current*
`parsers/p_cif.py` (and the attributes of `Atom` it writes, from `atom.py`; `Structure.addNewAtom` from `structure.py`).

1. **Transliterated** (Lean definitions, compared with the model as functions): `P_cif.BtoU`; the body of every one of
   the 26 `_tr_*` setters; the dictionary `_atom_setters` as it is after the class body has run; the binding of every
   `_tr_*` class attribute (`getattr`); `_get_atom_setters`.  The theorems say that `DS.CifRow.applySetter`,
   `setterTable`, `setterAttrs`, `fncName`, `itemOfName?` — the objects of the theorems of `DS.Props.C07Row` — *are* that
   transliteration, for every scalar type (hence for ℝ and for `Float`).
2. **Recorded as text** (compared verbatim): the pattern of `_psymb` (what `DS.CifRow.symbolMatch` was written for; the
   matcher itself is validated by the `cifrow.symbol` correspondence stream), the statements of the two loop methods and
   of `_parseCifBlock` (what `siteLoop`, `anisoLoop`, `parseAtoms` were written from), of `Atom.xyz_cartn`,
   `_AtomCartesianCoordinates.__init__/__setitem__` (what `setCartnIx` was written from), `Structure.addNewAtom`,
   `getLastAtom` and the defaults of `Atom` (what `Atom.fresh` was written from).

Any edit of these pieces of source breaks the corresponding theorem (a harmless one too — then the check widens its
search and reports `no-failing-input-found` at most).
-/
namespace DS.Props.SrcCifRow
open DS DS.CifRow
set_option linter.unusedSectionVars false

/-! ## 1. transliterated -/

section
variable {α : Type} [Add α] [Mul α] [Sub α] [Neg α] [Div α] [OfNat α 0] [OfNat α 1]
  [OfNat α 2] [OfNat α 3] [OfNat α 8] [LT α] [DecidableLT α] [Elem α] [AdpConst α]

/-- `P_cif.BtoU` is the constant `_BtoU` of `atom.py` (model `DS.BtoU`) -/
theorem BtoU_eq : (Src.CifRow.BtoU : α) = DS.BtoU := rfl

variable (a : Atom α) (v : Value α)

theorem tr_ignore_eq : Src.CifRow.tr_ignore a v = applySetter .ignore v a := rfl
/-- element symbol: group 0 of `_psymb` or the whole text, first character upper case, the rest lower case -/
theorem tr_type_symbol_eq : Src.CifRow.tr_atom_site_type_symbol a v = applySetter .typeSymbol v a := rfl
/-- the label is stored; the element is derived from it only when the atom has none yet -/
theorem tr_label_eq : Src.CifRow.tr_atom_site_label a v = applySetter .label v a := by
  unfold Src.CifRow.tr_atom_site_label
  show (if (a.element == "") = true then Src.CifRow.tr_atom_site_type_symbol (Atom.setLabel v.text a) v else Atom.setLabel v.text a) =
    ({ a with element := (labelNames v.text a.element a.label).1, label := (labelNames v.text a.element a.label).2 } : Atom α)
  unfold labelNames
  cases (a.element == "") <;> rfl
theorem tr_fract_x_eq : Src.CifRow.tr_atom_site_fract_x a v = applySetter (.fract .i0) v a := rfl
theorem tr_fract_y_eq : Src.CifRow.tr_atom_site_fract_y a v = applySetter (.fract .i1) v a := rfl
theorem tr_fract_z_eq : Src.CifRow.tr_atom_site_fract_z a v = applySetter (.fract .i2) v a := rfl
theorem tr_cartn_x_eq : Src.CifRow.tr_atom_site_cartn_x a v = applySetter (.cartn .i0) v a := rfl
theorem tr_cartn_y_eq : Src.CifRow.tr_atom_site_cartn_y a v = applySetter (.cartn .i1) v a := rfl
theorem tr_cartn_z_eq : Src.CifRow.tr_atom_site_cartn_z a v = applySetter (.cartn .i2) v a := rfl
theorem tr_U_iso_eq : Src.CifRow.tr_atom_site_U_iso_or_equiv a v = applySetter .uiso v a := rfl
theorem tr_B_iso_eq : Src.CifRow.tr_atom_site_B_iso_or_equiv a v = applySetter .biso v a := rfl
/-- `value not in ("Uiso", "Biso")` -/
theorem tr_adp_type_eq : Src.CifRow.tr_atom_site_adp_type a v = applySetter .adpType v a := rfl
/-- default occupancy `1.0` for `.` and `?` -/
theorem tr_occupancy_eq : Src.CifRow.tr_atom_site_occupancy a v = applySetter .occupancy v a := rfl
theorem tr_aniso_U_11_eq : Src.CifRow.tr_atom_site_aniso_U_11 a v = applySetter (.anisoU .p11) v a := rfl
theorem tr_aniso_U_22_eq : Src.CifRow.tr_atom_site_aniso_U_22 a v = applySetter (.anisoU .p22) v a := rfl
theorem tr_aniso_U_33_eq : Src.CifRow.tr_atom_site_aniso_U_33 a v = applySetter (.anisoU .p33) v a := rfl
theorem tr_aniso_U_12_eq : Src.CifRow.tr_atom_site_aniso_U_12 a v = applySetter (.anisoU .p12) v a := rfl
theorem tr_aniso_U_13_eq : Src.CifRow.tr_atom_site_aniso_U_13 a v = applySetter (.anisoU .p13) v a := rfl
theorem tr_aniso_U_23_eq : Src.CifRow.tr_atom_site_aniso_U_23 a v = applySetter (.anisoU .p23) v a := rfl
theorem tr_aniso_B_11_eq : Src.CifRow.tr_atom_site_aniso_B_11 a v = applySetter (.anisoB .p11) v a := rfl
theorem tr_aniso_B_22_eq : Src.CifRow.tr_atom_site_aniso_B_22 a v = applySetter (.anisoB .p22) v a := rfl
theorem tr_aniso_B_33_eq : Src.CifRow.tr_atom_site_aniso_B_33 a v = applySetter (.anisoB .p33) v a := rfl
theorem tr_aniso_B_12_eq : Src.CifRow.tr_atom_site_aniso_B_12 a v = applySetter (.anisoB .p12) v a := rfl
theorem tr_aniso_B_13_eq : Src.CifRow.tr_atom_site_aniso_B_13 a v = applySetter (.anisoB .p13) v a := rfl
theorem tr_aniso_B_23_eq : Src.CifRow.tr_atom_site_aniso_B_23 a v = applySetter (.anisoB .p23) v a := rfl

omit a v

/-- `getattr(P_cif, name)`: every `_tr_*` attribute is bound to the function of the item the model gives it
(`_tr_atom_site_thermal_displace_type` is the adp-type setter) -/
theorem attrs_eq : (Src.CifRow.attrs : List (String × (Atom α → Value α → Atom α))) =
    setterAttrs.map (fun p => (p.1, fun a v => applySetter p.2 v a)) := by
  simp only [Src.CifRow.attrs, setterAttrs, List.map_cons, List.map_nil]
  have h : (Src.CifRow.tr_atom_site_label : Atom α → Value α → Atom α) = fun a v => applySetter .label v a :=
    funext fun a => funext fun v => tr_label_eq a v
  rw [h]
  rfl

theorem lookup_map_snd {β γ : Type} (f : β → γ) (k : String) :
    ∀ l : List (String × β), (l.map (fun p => (p.1, f p.2))).lookup k = (l.lookup k).map f
  | [] => rfl
  | (k', b) :: l => by
    simp only [List.map_cons, List.lookup_cons]
    split
    · rfl
    · exact lookup_map_snd f k l

end

/-- the dictionary `_atom_setters` (every method name and its lower-case form) -/
theorem atom_setters_eq : Src.CifRow.atom_setters = setterTable := rfl

/-- `"_tr" + p.lower()`, looked up with the default `"_tr_ignore"` -/
theorem fncName_eq (p : String) : Src.CifRow.fncName p = fncName p := rfl

section
variable {α : Type} [Add α] [Mul α] [Sub α] [Neg α] [Div α] [OfNat α 0] [OfNat α 1]
  [OfNat α 2] [OfNat α 3] [OfNat α 8] [LT α] [DecidableLT α] [Elem α] [AdpConst α]

/-- `_get_atom_setters`, one loop item: the setter selected is the setter of the item the model selects -/
theorem get_atom_setter_eq (p : String) :
    (Src.CifRow.get_atom_setter p : Option (Atom α → Value α → Atom α)) =
      (itemOfName? p).map (fun it a v => applySetter it v a) := by
  unfold Src.CifRow.get_atom_setter itemOfName?
  rw [attrs_eq, fncName_eq]
  exact lookup_map_snd (fun it a v => applySetter it v a) (fncName p) setterAttrs

/-- `_get_atom_setters(cifloop)`: the setters in the order of `cifloop.keys()` -/
theorem get_atom_setters_eq (keys : List String) :
    (Src.CifRow.get_atom_setters keys : Option (List (Atom α → Value α → Atom α))) =
      (keys.mapM itemOfName?).map (List.map (fun it a v => applySetter it v a)) := by
  unfold Src.CifRow.get_atom_setters
  induction keys with
  | nil => rfl
  | cons k ks ih =>
    simp only [List.mapM_cons, get_atom_setter_eq, ih]
    cases itemOfName? k with
    | none => rfl
    | some it =>
      cases List.mapM itemOfName? ks with
      | none => rfl
      | some its => rfl
end

/-! ## 2. recorded as text -/

theorem leading_float_default_eq : Src.CifRow.leading_float_default = "0.0" := rfl

/-- the regular expression `DS.CifRow.symbolMatch` transcribes -/
theorem psymb_pattern_eq : Src.CifRow.psymb_pattern = psymbPattern := rfl

/-- `_parse_atom_site_label` (model `DS.CifRow.siteLoop` / `parseSite`): `?` label → `continue`; `labelindex[label] = len(stru)`
before the atom is added; fresh atom in the structure's lattice; setters in column order; `anisotropy[label]` recorded
iff the loop has an adp-type column -/
theorem parse_atom_site_label_eq : Src.CifRow.parse_atom_site_label =
  ["(self, block)",
   "atom_site_loop = block.GetLoop('_atom_site_label')",
   "does_adp_type = '_atom_site_adp_type' in atom_site_loop or '_atom_site_thermal_displace_type' in atom_site_loop",
   "prop_setters = P_cif._get_atom_setters(atom_site_loop)",
   "ilb = atom_site_loop.keys().index('_atom_site_label')",
   "sitedatalist = zip(*atom_site_loop.values())",
   "for values in sitedatalist:",
   "    curlabel = values[ilb]",
   "    if curlabel == '?':",
   "        continue",
   "    self.labelindex[curlabel] = len(self.stru)",
   "    self.stru.addNewAtom()",
   "    a = self.stru.getLastAtom()",
   "    for fset, val in zip(prop_setters, values):",
   "        fset(a, val)",
   "    if does_adp_type:",
   "        self.anisotropy[curlabel] = a.anisotropy",
   "return"] := rfl

/-- `_parse_atom_site_aniso_label` (model `DS.CifRow.anisoLoop` / `parseAniso`): `?` label → `break`; `labelindex[lb]`
(KeyError otherwise); flag forced on iff the label is not in `anisotropy`; setters in column order -/
theorem parse_atom_site_aniso_label_eq : Src.CifRow.parse_atom_site_aniso_label =
  ["(self, block)",
   "if '_atom_site_aniso_label' not in block:",
   "    return",
   "adp_loop = block.GetLoop('_atom_site_aniso_label')",
   "ilb = adp_loop.keys().index('_atom_site_aniso_label')",
   "prop_setters = P_cif._get_atom_setters(adp_loop)",
   "sitedatalist = zip(*adp_loop.values())",
   "for values in sitedatalist:",
   "    lb = values[ilb]",
   "    if lb == '?':",
   "        break",
   "    idx = self.labelindex[lb]",
   "    a = self.stru[idx]",
   "    if lb not in self.anisotropy:",
   "        a.anisotropy = True",
   "        self.anisotropy[lb] = True",
   "    for fset, val in zip(prop_setters, values):",
   "        fset(a, val)",
   "return"] := rfl

/-- `_parseCifBlock` (model `DS.CifRow.parseAtoms`): fresh structure and dictionaries, lattice, site loop, aniso loop, symmetry -/
theorem parseCifBlock_eq : Src.CifRow.parseCifBlock =
  ["(self, blockname)",
   "block = self.ciffile[blockname]",
   "if '_atom_site_label' not in block:",
   "    return",
   "self.stru = Structure()",
   "self.labelindex.clear()",
   "self.anisotropy.clear()",
   "self._parse_lattice(block)",
   "self._parse_atom_site_label(block)",
   "self._parse_atom_site_aniso_label(block)",
   "self._parse_space_group_symop_operation_xyz(block)",
   "return"] := rfl

/-- `Atom.xyz_cartn` and `_AtomCartesianCoordinates` (model `DS.CifRow.setCartnIx`): without a lattice the array is `xyz`
itself; with one, `a.xyz_cartn[k] = v` recomputes the Cartesian triple, replaces component `k` and assigns
`xyz[:] = lattice.fractional(triple)` -/
theorem xyz_cartn_eq :
    Src.CifRow.xyz_cartn_get = ["(self)", "if not self.lattice:", "    rv = self.xyz", "else:",
      "    rv = _AtomCartesianCoordinates(self)", "return rv"] ∧
    Src.CifRow.xyz_cartn_set = ["(self, value)", "if not self.lattice:", "    self.xyz[:] = value", "else:",
      "    self.xyz[:] = self.lattice.fractional(value)", "return"] ∧
    Src.CifRow.cartn_init = ["(self, atom)", "self._atom = atom", "self.asarray[:] = atom.lattice.cartesian(atom.xyz)", "return"] ∧
    Src.CifRow.cartn_setitem = ["(self, idx, value)", "self.asarray[idx] = value",
      "self._atom.xyz[:] = self._atom.lattice.fractional(self)", "return"] := ⟨rfl, rfl, rfl, rfl⟩

/-- the atom a site row starts from (model `DS.CifRow.Atom.fresh`): `Atom()` defaults, linked to the structure's lattice -/
theorem fresh_atom_eq :
    Src.CifRow.atom_defaults = [("element", "''"), ("label", "''"), ("occupancy", "1.0"), ("_anisotropy", "False"), ("lattice", "None")] ∧
    Src.CifRow.atom_init_arrays = ["self.xyz = numpy.zeros(3, dtype=float)", "self._U = numpy.zeros((3, 3), dtype=float)"] ∧
    Src.CifRow.addNewAtom = ["(self, *args, **kwargs)", "kwargs['lattice'] = self.lattice", "a = Atom(*args, **kwargs)",
      "self.append(a, copy=False)", "return"] ∧
    Src.CifRow.getLastAtom = ["(self)", "last_atom = self[-1]", "return last_atom"] := ⟨rfl, rfl, rfl, rfl⟩

end DS.Props.SrcCifRow
