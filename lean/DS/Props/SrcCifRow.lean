import DS.Gen.SrcCifRow
import DS.Model.CifRow
/-!
# Source tie for the atom-site row phase of the CIF reader (serves C07)

`DS/Gen/SrcCifRow.lean` is regenerated on every run by `translate/src_cifrow.py` from the *current*
`parsers/p_cif.py` (and the attributes of `Atom` it writes, from `atom.py`; `Structure.addNewAtom` from `structure.py`).

1. **Transliterated** (Lean definitions, compared with the model as functions): `P_cif.BtoU`; the body of every one of
   the 26 `_tr_*` setters; the dictionary `_atom_setters` as it is after the class body has run; the binding of every
   `_tr_*` class attribute (`getattr`); `_get_atom_setters`.  The theorems say that `DS.CifRow.applySetter`,
   `setterTable`, `setterAttrs`, `fncName`, `itemOfName?` — the objects of the theorems of `DS.Props.C07Row` — *are* that
   transliteration, for every scalar type (hence for ℝ and for `Float`).
   The two loop methods `_parse_atom_site_label` and `_parse_atom_site_aniso_label` (section 1b): transliterated statement by
   statement (`continue` / `break` / the exception kinds kept); `parse_atom_site_label_eq` and `parse_atom_site_aniso_label_eq`
   say that the model's `parseSite` / `parseAniso` (`siteLoop`, `anisoLoop`) are those transliterations for every input, with
   every exception kind collapsed to the model's `none` (`_parseCifDataSource` turns all of them into `StructureFormatError`);
   `attrs_chk_eq`: the setters that can raise are those the model marks `needsNum`, on the values `valueOK` rejects.
2. **Recorded as text** (compared verbatim): the pattern of `_psymb` (what `DS.CifRow.symbolMatch` was written for; the
   matcher itself is validated by the `cifrow.symbol` correspondence stream), the statements
   of `_parseCifBlock` (what `parseAtoms` was written from: fresh structure and dictionaries, the order of the two loops), of `Atom.xyz_cartn`,
   `_AtomCartesianCoordinates.__init__/__setitem__` (what `setCartnIx` was written from), `Structure.addNewAtom`,
   `getLastAtom` and the defaults of `Atom` (what `Atom.fresh` was written from).

Any edit of these pieces of source breaks the corresponding theorem (a harmless one too — then the check widens its
search and reports `no-failing-input-found` at most).
-/
namespace DS.Props.SrcCifRow
open DS DS.CifRow
set_option linter.unusedSectionVars false

/-! ## 1. transliterated -/

section
variable {α : Type} [Add α] [Mul α] [Sub α] [Neg α] [Div α] [OfNat α 0] [OfNat α 1]
  [OfNat α 2] [OfNat α 3] [OfNat α 8] [LT α] [DecidableLT α] [Elem α] [AdpConst α]

/-- `P_cif.BtoU` is the constant `_BtoU` of `atom.py` (model `DS.BtoU`) -/
theorem BtoU_eq : (Src.CifRow.BtoU : α) = DS.BtoU := rfl

variable (a : Atom α) (v : Value α)

theorem tr_ignore_eq : Src.CifRow.tr_ignore a v = applySetter .ignore v a := rfl
/-- element symbol: group 0 of `_psymb` or the whole text, first character upper case, the rest lower case -/
theorem tr_type_symbol_eq : Src.CifRow.tr_atom_site_type_symbol a v = applySetter .typeSymbol v a := rfl
/-- the label is stored; the element is derived from it only when the atom has none yet -/
theorem tr_label_eq : Src.CifRow.tr_atom_site_label a v = applySetter .label v a := by
  unfold Src.CifRow.tr_atom_site_label
  show (if (a.element == "") = true then Src.CifRow.tr_atom_site_type_symbol (Atom.setLabel v.text a) v else Atom.setLabel v.text a) =
    ({ a with element := (labelNames v.text a.element a.label).1, label := (labelNames v.text a.element a.label).2 } : Atom α)
  unfold labelNames
  cases (a.element == "") <;> rfl
theorem tr_fract_x_eq : Src.CifRow.tr_atom_site_fract_x a v = applySetter (.fract .i0) v a := rfl
theorem tr_fract_y_eq : Src.CifRow.tr_atom_site_fract_y a v = applySetter (.fract .i1) v a := rfl
theorem tr_fract_z_eq : Src.CifRow.tr_atom_site_fract_z a v = applySetter (.fract .i2) v a := rfl
theorem tr_cartn_x_eq : Src.CifRow.tr_atom_site_cartn_x a v = applySetter (.cartn .i0) v a := rfl
theorem tr_cartn_y_eq : Src.CifRow.tr_atom_site_cartn_y a v = applySetter (.cartn .i1) v a := rfl
theorem tr_cartn_z_eq : Src.CifRow.tr_atom_site_cartn_z a v = applySetter (.cartn .i2) v a := rfl
theorem tr_U_iso_eq : Src.CifRow.tr_atom_site_U_iso_or_equiv a v = applySetter .uiso v a := rfl
theorem tr_B_iso_eq : Src.CifRow.tr_atom_site_B_iso_or_equiv a v = applySetter .biso v a := rfl
/-- `value not in ("Uiso", "Biso")` -/
theorem tr_adp_type_eq : Src.CifRow.tr_atom_site_adp_type a v = applySetter .adpType v a := rfl
/-- default occupancy `1.0` for `.` and `?` -/
theorem tr_occupancy_eq : Src.CifRow.tr_atom_site_occupancy a v = applySetter .occupancy v a := rfl
theorem tr_aniso_U_11_eq : Src.CifRow.tr_atom_site_aniso_U_11 a v = applySetter (.anisoU .p11) v a := rfl
theorem tr_aniso_U_22_eq : Src.CifRow.tr_atom_site_aniso_U_22 a v = applySetter (.anisoU .p22) v a := rfl
theorem tr_aniso_U_33_eq : Src.CifRow.tr_atom_site_aniso_U_33 a v = applySetter (.anisoU .p33) v a := rfl
theorem tr_aniso_U_12_eq : Src.CifRow.tr_atom_site_aniso_U_12 a v = applySetter (.anisoU .p12) v a := rfl
theorem tr_aniso_U_13_eq : Src.CifRow.tr_atom_site_aniso_U_13 a v = applySetter (.anisoU .p13) v a := rfl
theorem tr_aniso_U_23_eq : Src.CifRow.tr_atom_site_aniso_U_23 a v = applySetter (.anisoU .p23) v a := rfl
theorem tr_aniso_B_11_eq : Src.CifRow.tr_atom_site_aniso_B_11 a v = applySetter (.anisoB .p11) v a := rfl
theorem tr_aniso_B_22_eq : Src.CifRow.tr_atom_site_aniso_B_22 a v = applySetter (.anisoB .p22) v a := rfl
theorem tr_aniso_B_33_eq : Src.CifRow.tr_atom_site_aniso_B_33 a v = applySetter (.anisoB .p33) v a := rfl
theorem tr_aniso_B_12_eq : Src.CifRow.tr_atom_site_aniso_B_12 a v = applySetter (.anisoB .p12) v a := rfl
theorem tr_aniso_B_13_eq : Src.CifRow.tr_atom_site_aniso_B_13 a v = applySetter (.anisoB .p13) v a := rfl
theorem tr_aniso_B_23_eq : Src.CifRow.tr_atom_site_aniso_B_23 a v = applySetter (.anisoB .p23) v a := rfl

omit a v

/-- `getattr(P_cif, name)`: every `_tr_*` attribute is bound to the function of the item the model gives it
(`_tr_atom_site_thermal_displace_type` is the adp-type setter) -/
theorem attrs_eq : (Src.CifRow.attrs : List (String × (Atom α → Value α → Atom α))) =
    setterAttrs.map (fun p => (p.1, fun a v => applySetter p.2 v a)) := by
  simp only [Src.CifRow.attrs, setterAttrs, List.map_cons, List.map_nil]
  have h : (Src.CifRow.tr_atom_site_label : Atom α → Value α → Atom α) = fun a v => applySetter .label v a :=
    funext fun a => funext fun v => tr_label_eq a v
  rw [h]
  rfl

theorem lookup_map_snd {β γ : Type} (f : β → γ) (k : String) :
    ∀ l : List (String × β), (l.map (fun p => (p.1, f p.2))).lookup k = (l.lookup k).map f
  | [] => rfl
  | (k', b) :: l => by
    simp only [List.map_cons, List.lookup_cons]
    split
    · rfl
    · exact lookup_map_snd f k l

end

/-- the dictionary `_atom_setters` (every method name and its lower-case form) -/
theorem atom_setters_eq : Src.CifRow.atom_setters = setterTable := rfl

/-- `"_tr" + p.lower()`, looked up with the default `"_tr_ignore"` -/
theorem fncName_eq (p : String) : Src.CifRow.fncName p = fncName p := rfl

section
variable {α : Type} [Add α] [Mul α] [Sub α] [Neg α] [Div α] [OfNat α 0] [OfNat α 1]
  [OfNat α 2] [OfNat α 3] [OfNat α 8] [LT α] [DecidableLT α] [Elem α] [AdpConst α]

/-- `_get_atom_setters`, one loop item: the setter selected is the setter of the item the model selects -/
theorem get_atom_setter_eq (p : String) :
    (Src.CifRow.get_atom_setter p : Option (Atom α → Value α → Atom α)) =
      (itemOfName? p).map (fun it a v => applySetter it v a) := by
  unfold Src.CifRow.get_atom_setter itemOfName?
  rw [attrs_eq, fncName_eq]
  exact lookup_map_snd (fun it a v => applySetter it v a) (fncName p) setterAttrs

/-- `_get_atom_setters(cifloop)`: the setters in the order of `cifloop.keys()` -/
theorem get_atom_setters_eq (keys : List String) :
    (Src.CifRow.get_atom_setters keys : Option (List (Atom α → Value α → Atom α))) =
      (keys.mapM itemOfName?).map (List.map (fun it a v => applySetter it v a)) := by
  unfold Src.CifRow.get_atom_setters
  induction keys with
  | nil => rfl
  | cons k ks ih =>
    simp only [List.mapM_cons, get_atom_setter_eq, ih]
    cases itemOfName? k with
    | none => rfl
    | some it =>
      cases List.mapM itemOfName? ks with
      | none => rfl
      | some its => rfl
end


/-! ## 1b. the two loop methods, transliterated -/

section
variable {α : Type} [Add α] [Mul α] [Sub α] [Neg α] [Div α] [OfNat α 0] [OfNat α 1]
  [OfNat α 2] [OfNat α 3] [OfNat α 8] [LT α] [DecidableLT α] [Elem α] [AdpConst α]


/-- the setter of an item together with the condition under which its call returns (`valueOK`) -/
def setterOf (it : Item) : Src.CifRow.Setter α := { ok := valueOK it, run := fun a v => applySetter it v a }

/-- `leading_float(value, d)` returns iff the text starts with a number or is `.` / `?` -/
theorem leadingFloat_isSome (d : α) : (fun v : Value α => (leadingFloat? v d).isSome) = fun v => v.num.isSome || isUnknown v.text := by
  funext v
  unfold leadingFloat?
  cases v.num with
  | some x => rfl
  | none => cases isUnknown v.text <;> rfl

/-- which setters can raise: exactly those the model marks `needsNum`, on exactly the values `valueOK` rejects -/
theorem attrs_chk_eq : (Src.CifRow.attrs_chk : List (String × Src.CifRow.Setter α)) = setterAttrs.map (fun p => (p.1, setterOf p.2)) := by
  simp only [Src.CifRow.attrs_chk, setterAttrs, List.map_cons, List.map_nil]
  have h : (Src.CifRow.tr_atom_site_label : Atom α → Value α → Atom α) = fun a v => applySetter .label v a :=
    funext fun a => funext fun v => tr_label_eq a v
  rw [h]
  unfold Src.CifRow.tr_atom_site_fract_x_ok Src.CifRow.tr_atom_site_fract_y_ok Src.CifRow.tr_atom_site_fract_z_ok
    Src.CifRow.tr_atom_site_cartn_x_ok Src.CifRow.tr_atom_site_cartn_y_ok Src.CifRow.tr_atom_site_cartn_z_ok
    Src.CifRow.tr_atom_site_U_iso_or_equiv_ok Src.CifRow.tr_atom_site_B_iso_or_equiv_ok Src.CifRow.tr_atom_site_occupancy_ok
    Src.CifRow.tr_atom_site_aniso_U_11_ok Src.CifRow.tr_atom_site_aniso_U_22_ok Src.CifRow.tr_atom_site_aniso_U_33_ok
    Src.CifRow.tr_atom_site_aniso_U_12_ok Src.CifRow.tr_atom_site_aniso_U_13_ok Src.CifRow.tr_atom_site_aniso_U_23_ok
    Src.CifRow.tr_atom_site_aniso_B_11_ok Src.CifRow.tr_atom_site_aniso_B_22_ok Src.CifRow.tr_atom_site_aniso_B_33_ok
    Src.CifRow.tr_atom_site_aniso_B_12_ok Src.CifRow.tr_atom_site_aniso_B_13_ok Src.CifRow.tr_atom_site_aniso_B_23_ok
  simp only [leadingFloat_isSome]
  rfl

/-- `_get_atom_setters(cifloop)` with the raise conditions = the model's items -/
theorem get_atom_setters_chk_eq (keys : List String) :
    (Src.CifRow.get_atom_setters_chk keys : Option (List (Src.CifRow.Setter α))) = (keys.mapM itemOfName?).map (List.map setterOf) := by
  unfold Src.CifRow.get_atom_setters_chk
  induction keys with
  | nil => rfl
  | cons k ks ih =>
    have hk : (Src.CifRow.attrs_chk (α := α)).lookup (Src.CifRow.fncName k) = (itemOfName? k).map setterOf := by
      rw [attrs_chk_eq, fncName_eq]
      exact lookup_map_snd setterOf (fncName k) setterAttrs
    simp only [List.mapM_cons, hk, ih]
    cases itemOfName? k with
    | none => rfl
    | some it =>
      cases List.mapM itemOfName? ks with
      | none => rfl
      | some its => rfl

/-- the inner loop `for fset, val in zip(prop_setters, values): fset(a, val)`: the setters run in column order; a `ValueError`
of any of them is the failure of the model's `colsValid` test (which the model makes before the first setter runs) -/
theorem runSetters_eq : ∀ (its : List Item) (vals : List (Value α)) (a : Atom α),
    Src.CifRow.runSetters (its.map setterOf) vals a =
      if colsValid (its.zip vals) then .ok (applyCols (its.zip vals) a) else .error Src.CifRow.Exc.ValueError
  | [], vals, a => by simp [Src.CifRow.runSetters, Src.CifRow.forLoop, colsValid, applyCols]
  | it :: its, [], a => by simp [Src.CifRow.runSetters, Src.CifRow.forLoop, colsValid, applyCols]
  | it :: its, v :: vals, a => by
    have ih := runSetters_eq its vals (applySetter it v a)
    unfold Src.CifRow.runSetters at ih ⊢
    simp only [List.map_cons, List.zip_cons_cons, Src.CifRow.forLoop, setterOf] at ih ⊢
    cases hv : valueOK it v with
    | false => simp [colsValid, hv]
    | true =>
      simp only [if_true]
      rw [ih]
      simp only [colsValid, applyCols, List.all_cons, List.foldl_cons, hv, Bool.true_and]
      rfl

/-- `Src.CifRow.Flow` seen through the model's loop state -/
def collapse {σ : Type} : Src.CifRow.Flow σ → LoopSt σ
  | .next s => .run s
  | .brk s => .done s
  | .raise _ => .err

/-- a round function on running states, as a step of a fold over `LoopSt` (the shape of `anisoStep`) -/
def liftStep {σ β : Type} (step : σ → β → LoopSt σ) : LoopSt σ → β → LoopSt σ
  | .run s, x => step s x
  | y, _ => y

theorem foldl_liftStep_done {σ β : Type} (step : σ → β → LoopSt σ) (s : σ) : ∀ l : List β, l.foldl (liftStep step) (.done s) = .done s
  | [] => rfl
  | _ :: l => foldl_liftStep_done step s l

theorem foldl_liftStep_err {σ β : Type} (step : σ → β → LoopSt σ) : ∀ l : List β, l.foldl (liftStep step) .err = .err
  | [] => rfl
  | _ :: l => foldl_liftStep_err step l

/-- a `for` loop with `continue` / `break` / exceptions is the fold of its rounds over the model's loop state -/
theorem forLoop_foldl {σ β : Type} (body : σ → β → Src.CifRow.Flow σ) (step : σ → β → LoopSt σ) (h : ∀ s x, collapse (body s x) = step s x) :
    ∀ (xs : List β) (s : σ), (Src.CifRow.forLoop body s xs).toOption = (xs.foldl (liftStep step) (.run s)).result
  | [], s => rfl
  | x :: xs, s => by
    have hx := h s x
    simp only [Src.CifRow.forLoop, List.foldl_cons, liftStep]
    rw [← hx]
    cases hb : body s x with
    | next s' => simp only [collapse]; exact forLoop_foldl body step h xs s'
    | brk s' => simp only [collapse]; rw [foldl_liftStep_done]; rfl
    | raise e => simp only [collapse]; rw [foldl_liftStep_err]; rfl

/-- a `for` loop without `break` whose rounds are the model's `siteRow` is the model's `siteLoop` -/
theorem forLoop_siteLoop (lat : Option (LatData α)) (its : List Item) (ilb : Nat) (doesAdp : Bool)
    (body : PState α → List (Value α) → Src.CifRow.Flow (PState α))
    (h : ∀ s v, collapse (body s v) = match siteRow lat its ilb doesAdp s v with | some s' => LoopSt.run s' | none => LoopSt.err) :
    ∀ (rows : List (List (Value α))) (s : PState α), (Src.CifRow.forLoop body s rows).toOption = siteLoop lat its ilb doesAdp s rows
  | [], s => rfl
  | v :: rows, s => by
    have hv := h s v
    simp only [Src.CifRow.forLoop, siteLoop]
    cases hb : body s v with
    | next s' =>
      rw [hb] at hv
      cases hr : siteRow lat its ilb doesAdp s v with
      | none => rw [hr] at hv; simp [collapse] at hv
      | some s'' =>
        rw [hr] at hv
        simp only [collapse, LoopSt.run.injEq] at hv
        subst hv
        exact forLoop_siteLoop lat its ilb doesAdp body h rows s'
    | brk s' =>
      rw [hb] at hv
      cases hr : siteRow lat its ilb doesAdp s v with
      | none => rw [hr] at hv; simp [collapse] at hv
      | some s'' => rw [hr] at hv; simp [collapse] at hv
    | raise e =>
      rw [hb] at hv
      cases hr : siteRow lat its ilb doesAdp s v with
      | none => rfl
      | some s'' => rw [hr] at hv; simp [collapse] at hv

/-- **`P_cif._parse_atom_site_label`** (transliterated statement by statement) **is the model's `parseSite`**: `does_adp_type` from the two
`in atom_site_loop` tests, the setters of `_get_atom_setters`, `ilb = keys().index("_atom_site_label")` (a `ValueError` here is kept
as an error on both sides; after the `in block` test of `_parseCifBlock` it does not occur), and per row: `?` label → `continue`,
`labelindex[label] = len(stru)`, a fresh atom appended, the setters in column order, `anisotropy[label] = a.anisotropy` iff
`does_adp_type`.  Every exception kind (`KeyError`, `IndexError`, `ValueError`, `AttributeError`) is the model's `none`. -/
theorem parse_atom_site_label_eq (lat : Option (LatData α)) (lp : Loop α) :
    (Src.CifRow.parse_atom_site_label lat lp PState.empty).toOption = parseSite lat lp := by
  unfold Src.CifRow.parse_atom_site_label parseSite
  simp only [get_atom_setters_chk_eq]
  cases hm : lp.names.mapM itemOfName? with
  | none => rfl
  | some its =>
    cases hi : lp.names.idxOf? "_atom_site_label" with
    | none => rfl
    | some ilb =>
      simp only [Option.map_some]
      refine forLoop_siteLoop lat its ilb _ _ ?_ lp.rows PState.empty
      intro s v
      simp only [siteRow, rowLabel]
      cases v[ilb]? with
      | none => rfl
      | some c =>
        simp only [Option.map_some, runSetters_eq]
        cases hq : (c.text == "?") with
        | true => simp [collapse]
        | false =>
          simp only [Bool.false_eq_true, if_false]
          cases hc : colsValid (its.zip v) with
          | false => simp [collapse]
          | true =>
            simp only [if_true, Bool.not_true, Bool.false_eq_true, if_false, collapse]
            cases (lp.names.contains "_atom_site_adp_type" || lp.names.contains "_atom_site_thermal_displace_type") <;> rfl

/-- **`P_cif._parse_atom_site_aniso_label`** (transliterated statement by statement) **is the model's `parseAniso`**:
`"_atom_site_aniso_label" not in block` → nothing happens; per row: `?` label → `break` (the remaining rows are not read),
`idx = labelindex[lb]` (`KeyError` for a label the site loop did not record — an error kind of the transliteration, `none` in the
model, `StructureFormatError` in `_parseCifDataSource`), `a = stru[idx]`, `lb not in anisotropy` → `a.anisotropy = True;
anisotropy[lb] = True` (the dictionary consulted is `anisotropy`, and it is consulted before the setters run), the setters in column
order, the atom written back at `idx`. -/
theorem parse_atom_site_aniso_label_eq (lat : Option (LatData α)) (lp : Option (Loop α)) (st : PState α) :
    (Src.CifRow.parse_atom_site_aniso_label lat lp st).toOption = parseAniso lp st := by
  unfold Src.CifRow.parse_atom_site_aniso_label parseAniso
  cases lp with
  | none => rfl
  | some lp =>
    simp only [get_atom_setters_chk_eq]
    cases hi : lp.names.idxOf? "_atom_site_aniso_label" with
    | none => cases lp.names.mapM itemOfName? <;> rfl
    | some ilb =>
      cases hm : lp.names.mapM itemOfName? with
      | none => rfl
      | some its =>
        simp only [Option.map_some, anisoLoop]
        have hstep : anisoStep its ilb = liftStep (anisoRow (α := α) its ilb) := by
          funext x vals; cases x <;> rfl
        rw [hstep]
        refine forLoop_foldl _ _ ?_ lp.rows st
        intro s v
        simp only [anisoRow, rowLabel]
        cases v[ilb]? with
        | none => rfl
        | some c =>
          simp only [Option.map_some, runSetters_eq]
          cases hq : (c.text == "?") with
          | true => simp [collapse]
          | false =>
            simp only [Bool.false_eq_true, if_false]
            cases s.labelindex c.text with
            | none => rfl
            | some idx =>
              simp only []
              cases s.atoms[idx]? with
              | none => rfl
              | some a0 =>
                simp only []
                cases hk : (s.anisotropy c.text).isSome <;>
                  cases hc : colsValid (its.zip v) <;> simp [collapse]

/-- the loop item each method fetches with `block.GetLoop` (what the `Loop` argument of the two definitions stands for) -/
theorem loop_items_eq : Src.CifRow.parse_atom_site_label_item = "_atom_site_label" ∧
    Src.CifRow.parse_atom_site_aniso_label_item = "_atom_site_aniso_label" := ⟨rfl, rfl⟩

end

/-- the error kind of an outcome (`none`: the method returned) -/
def excOf {σ : Type} : Except Src.CifRow.Exc σ → Option Src.CifRow.Exc
  | .ok _ => none
  | .error e => some e

/-- the error kind is kept by the transliteration: an aniso row whose label the site loop did not record is a `KeyError` -/
example : excOf (Src.CifRow.parse_atom_site_aniso_label (α := Float) none
    (some { names := ["_atom_site_aniso_label"], rows := [[{ text := "X1", num := none }]] }) PState.empty)
    = some .KeyError := by decide
/-- … and a `?` label ends the loop before that row is looked at -/
example : excOf (Src.CifRow.parse_atom_site_aniso_label (α := Float) none
    (some { names := ["_atom_site_aniso_label"], rows := [[{ text := "?", num := none }], [{ text := "X1", num := none }]] }) PState.empty)
    = none := by decide

/-! ## 2. recorded as text -/

theorem leading_float_default_eq : Src.CifRow.leading_float_default = "0.0" := rfl

/-- the regular expression `DS.CifRow.symbolMatch` transcribes -/
theorem psymb_pattern_eq : Src.CifRow.psymb_pattern = psymbPattern := rfl

/-- `_parseCifBlock` (model `DS.CifRow.parseAtoms`): fresh structure and dictionaries, lattice, site loop, aniso loop, symmetry -/
theorem parseCifBlock_eq : Src.CifRow.parseCifBlock =
  ["(self, blockname)",
   "block = self.ciffile[blockname]",
   "if '_atom_site_label' not in block:",
   "    return",
   "self.stru = Structure()",
   "self.labelindex.clear()",
   "self.anisotropy.clear()",
   "self._parse_lattice(block)",
   "self._parse_atom_site_label(block)",
   "self._parse_atom_site_aniso_label(block)",
   "self._parse_space_group_symop_operation_xyz(block)",
   "return"] := rfl

/-- `Atom.xyz_cartn` and `_AtomCartesianCoordinates` (model `DS.CifRow.setCartnIx`): without a lattice the array is `xyz`
itself; with one, `a.xyz_cartn[k] = v` recomputes the Cartesian triple, replaces component `k` and assigns
`xyz[:] = lattice.fractional(triple)` -/
theorem xyz_cartn_eq :
    Src.CifRow.xyz_cartn_get = ["(self)", "if not self.lattice:", "    rv = self.xyz", "else:",
      "    rv = _AtomCartesianCoordinates(self)", "return rv"] ∧
    Src.CifRow.xyz_cartn_set = ["(self, value)", "if not self.lattice:", "    self.xyz[:] = value", "else:",
      "    self.xyz[:] = self.lattice.fractional(value)", "return"] ∧
    Src.CifRow.cartn_init = ["(self, atom)", "self._atom = atom", "self.asarray[:] = atom.lattice.cartesian(atom.xyz)", "return"] ∧
    Src.CifRow.cartn_setitem = ["(self, idx, value)", "self.asarray[idx] = value",
      "self._atom.xyz[:] = self._atom.lattice.fractional(self)", "return"] := ⟨rfl, rfl, rfl, rfl⟩

/-- the atom a site row starts from (model `DS.CifRow.Atom.fresh`): `Atom()` defaults, linked to the structure's lattice -/
theorem fresh_atom_eq :
    Src.CifRow.atom_defaults = [("element", "''"), ("label", "''"), ("occupancy", "1.0"), ("_anisotropy", "False"), ("lattice", "None")] ∧
    Src.CifRow.atom_init_arrays = ["self.xyz = numpy.zeros(3, dtype=float)", "self._U = numpy.zeros((3, 3), dtype=float)"] ∧
    Src.CifRow.addNewAtom = ["(self, *args, **kwargs)", "kwargs['lattice'] = self.lattice", "a = Atom(*args, **kwargs)",
      "self.append(a, copy=False)", "return"] ∧
    Src.CifRow.getLastAtom = ["(self)", "last_atom = self[-1]", "return last_atom"] := ⟨rfl, rfl, rfl, rfl⟩

end DS.Props.SrcCifRow
