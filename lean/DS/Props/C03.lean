import DS.Lemmas.Group
import DS.Gen.Index
/-!
# C03 — every tabulated setting is a group with consistent metadata

`Gen.allC` is regenerated from the repository's tables on every run; `Gen.allC_ok` is the
conjunction of the per-setting kernel obligations (`decide +kernel`).  Here the Boolean
checks are turned into the mathematical statements.
-/
namespace DS.Props.C03
open DS

/-- group axioms, for every tabulated setting and *all* pairs of operations -/
theorem all_groups : ∀ p ∈ Gen.allC, IsGroup p.1.ops := by
  intro p hp
  have h := Gen.allC_ok p hp
  simp only [checkSG, Bool.and_eq_true] at h
  exact checkGroup_sound h.1.1.1

/-- declared counts: `len(symop_list) = num_sym_equiv` and
`num_sym_equiv = (#centring translations) * num_primitive_sym_equiv` -/
theorem all_counts : ∀ p ∈ Gen.allC, CountsOK p.1 := by
  intro p hp
  have h := Gen.allC_ok p hp
  simp only [checkSG, checkCounts, Bool.and_eq_true, decide_eq_true_eq] at h
  exact ⟨h.1.1.2.1, h.1.1.2.2⟩

/-- the centring letter of both symbols agrees with the set of pure translations -/
theorem all_centring : ∀ p ∈ Gen.allC, checkCentring p.1 = true := by
  intro p hp
  have h := Gen.allC_ok p hp
  simp only [checkSG, Bool.and_eq_true] at h
  exact h.1.2

/-- the rotation-type census of the operations is that of the crystal class of
`number % 1000`, and `crystal_system` is the system of that class -/
theorem all_class : ∀ p ∈ Gen.allC, checkClass p.1 = true := by
  intro p hp
  have h := Gen.allC_ok p hp
  simp only [checkSG, Bool.and_eq_true] at h
  exact h.2

/-- closure stated for arbitrary pairs, the form the property uses -/
theorem closure_all_pairs (p : SG × Cert) (hp : p ∈ Gen.allC) (a b : Op)
    (ha : a ∈ p.1.ops) (hb : b ∈ p.1.ops) : a.comp b ∈ p.1.ops :=
  (all_groups p hp).closed a ha b hb

/-- non-vacuity: the generated list has as many entries as `SpaceGroupList` minus the rejected
ones, and contains a concrete setting for which all conclusions hold -/
example : Gen.allC.length + Gen.nBad = Gen.nListed := by
  rw [Gen.allC_length]; decide

example : IsGroup Gen.witness.1.ops ∧ 0 < Gen.witness.1.ops.length :=
  ⟨all_groups _ Gen.witness_mem, by decide +kernel⟩

end DS.Props.C03
