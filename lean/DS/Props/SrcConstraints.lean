import DS.Gen.SrcConstraints
import DS.Lemmas.SrcConstraints
import DS.Props.SrcSym
import DS.Props.C05
import DS.Props.C06
import DS.Props.C05Partition
/-!
# Source tie for the constraint code (properties C05, C06): the models of `DS.Con` / `DS.Partition` ARE the current source

`DS/Gen/SrcConstraints.lean` is written on every run by `translate/src_constraints.py` from the CURRENT text of
`symmetryutilities.py`; every function as a composition of the numpy/Python primitives of `DS/Model/ConReal.lean`
(and `DS/Model/SymReal.lean`) over a generic scalar.  The SVD based `_findNullSpace` / `_findUSpace` are NOT transliterated:
their outputs are parameters here (certificate-checked per site by `harness/c05.py`, `harness/c06.py`).

Main theorems (all inputs; ℚ where the models of `DS.Con` are involved, any ordered field with floor otherwise):
* `findInvariants_eq` — the first class of operations that contains the identity;
* `findPosParameters_eq` — values `Con.posParams` (first non-zero coordinate, order of elimination), names `Con.posNames`;
* `findUParameters_eq`, `findeqUij_eq`, `stored_tensor_eq` — `Con.projCoefs`, `Con.proj`, `eqUij_j = rotT R_j U` with the FIRST
  operation of class `j`;
* `findEquivalent_grid`, `eqIndex_grid` — the lookup of the equivalent site is `Orbit.nearestIdx` / `Orbit.boxDist ≤ E`;
* `positionFormula_eq`, `UFormula_eq` — numeric content `Con.posFormula` / `R B_k Rᵀ`, which symbols appear (`Con.posPieces`,
  `Con.uPieces`); `evalPieces_posPieces`, `evalPieces_uPieces`: the pieces denote the affine maps of C05 / the tensors of C06;
* `findConstraints_eq` — the loop of `_findConstraints` is the greedy partition `Partition.partRel`; `coremap_eq_partRel`,
  `adoption_iff_inOrbit`: that partition is `Partition.coremap` (C05Partition) on exact listings; `findConstraints_grid` (the
  end-to-end statement `findConstraints_grid_statement`, with the transliterated `GeneratorSite.__init__` and `expandPosition`);
* `positionFormulas_eq`, `UFormulas_sub_eq`, `translation_exact` — `re.sub` with `\b[xyz]\d+` / `\bU\d\d\d+` is the homomorphic
  renaming, for all indices (no prefix confusion);
* `signedRatStr_eq`, `signedRatStr_parses` — the printed fraction parses back to the value within `eps / den`;
* `snapSite_shape`, `snapSite_exact`, `snapDelta_eq`, `generatorSiteInit_eq`, `expandAsymmetricUnit_eq`,
  `pruneFormulaDictionary_eq`, `facts_eq` (statements kept as text).
-/

namespace DS.Props.SrcConstraints
open DS DS.ConTie DS.SymTie DS.Con
set_option linter.unusedSectionVars false
set_option linter.unusedVariables false

variable {α : Type} [Field α] [LinearOrder α] [IsStrictOrderedRing α] [FloorRing α]

/-! ### 1. `_findInvariants`: the first class of operations that contains the identity -/

/-- `numpy.all(op.R == identity(3)) and numpy.all(op.t == zeros(3))` -/
def isIdOp (op : SymOp α) : Bool :=
  Np.allM (Np.eqM op.R (Np.identity3 : M3 α)) && Np.all (Np.eq op.t (Np.zeros3 : V3 α))

theorem findInvariants_inner_eq (c : List (SymOp α)) (l : List (SymOp α)) :
    Py.forBreak l none (Src.Constraints.findInvariants_inner c (Np.identity3 : M3 α) Np.zeros3) =
      if l.any isIdOp then some c else none := by
  induction l with
  | nil => rfl
  | cons op l ih =>
    rw [forBreak_cons, List.any_cons]
    by_cases h : isIdOp op = true
    · have : (Src.Constraints.findInvariants_inner c (Np.identity3 : M3 α) Np.zeros3 none op) = (some c, true) := by
        unfold Src.Constraints.findInvariants_inner
        unfold isIdOp at h
        rw [if_pos h]
      rw [this]; simp [h]
    · have : (Src.Constraints.findInvariants_inner c (Np.identity3 : M3 α) Np.zeros3 none op) = (none, false) := by
        unfold Src.Constraints.findInvariants_inner
        unfold isIdOp at h
        rw [if_neg h]
      rw [this]
      simp only [Bool.not_eq_true] at h
      simp [h, ih]

/-- **`_findInvariants`** returns the first list of `symops` that contains the identity operation (`R == identity(3)`,
`t == zeros(3)`), and raises `ValueError` (`none`) iff there is none. -/
theorem findInvariants_eq (symops : List (List (SymOp α))) :
    Src.Constraints.findInvariants symops = symops.find? (fun ops => ops.any isIdOp) := by
  have key : ∀ l : List (List (SymOp α)),
      Py.forBreak l none (Src.Constraints.findInvariants_outer (Np.identity3 : M3 α) Np.zeros3) =
        l.find? (fun ops => ops.any isIdOp) := by
    intro l
    induction l with
    | nil => rfl
    | cons ops l ih =>
      rw [forBreak_cons, List.find?_cons]
      unfold Src.Constraints.findInvariants_outer
      simp only [findInvariants_inner_eq]
      by_cases h : ops.any isIdOp = true
      · have hne : ops.isEmpty = false := by
          cases ops with
          | nil => simp at h
          | cons _ _ => rfl
        simp [h, Py.truthyOL, hne]
      · simp only [Bool.not_eq_true] at h
        simp [h, Py.truthyOL]
        exact ih
  unfold Src.Constraints.findInvariants
  simp only [key]
  cases symops.find? (fun ops => ops.any isIdOp) <;> rfl

/-! ### 2. `_findPosParameters` = `Con.posParams` (values) and `Con.posNames` (names) -/

def toVec (v : V3 ℚ) : Vec3 ℚ := ⟨v.1, v.2.1, v.2.2⟩
def toMat (m : M3 ℚ) : Mat3 ℚ := ⟨m.1.1, m.1.2.1, m.1.2.2, m.2.1.1, m.2.1.2.1, m.2.1.2.2, m.2.2.1, m.2.2.2.1, m.2.2.2.2⟩

theorem eps_pos : (0 : ℚ) < (Src.Constraints.epsilon : ℚ) := by
  unfold Src.Constraints.epsilon; norm_num

theorem absS_eq (x : ℚ) : Np.absS x = |x| := by
  unfold Np.absS
  split
  · rw [abs_of_neg ‹_›]
  · rw [abs_of_nonneg (not_lt.1 ‹_›)]

/-- gap hypothesis on the certificate: every entry is exactly zero or at least `epsilon` in absolute value (what the
rationalisation of `_findNullSpace` produces: small integers divided by the smallest one) -/
def Gap (c : ℚ) : Prop := c = 0 ∨ (Src.Constraints.epsilon : ℚ) ≤ |c|
def GapV (v : V3 ℚ) : Prop := Gap v.1 ∧ Gap v.2.1 ∧ Gap v.2.2

theorem gap_iff {c : ℚ} (h : Gap c) : (Src.Constraints.epsilon : ℚ) ≤ Np.absS c ↔ c ≠ 0 := by
  rw [absS_eq]
  rcases h with rfl | h
  · have := eps_pos
    simp only [abs_zero, ne_eq, not_true_eq_false, iff_false, not_le]
    exact this
  · have hc : c ≠ 0 := by
      intro h0; rw [h0, abs_zero] at h; exact absurd h (not_le.2 eps_pos)
    simp [hc, h]

theorem where3_head (b1 b2 b3 : Bool) :
    (Np.where3 (b1, b2, b3)).head? = if b1 then some 0 else if b2 then some 1 else if b3 then some 2 else none := by
  cases b1 <;> cases b2 <;> cases b3 <;> rfl

theorem firstIdx_eq (v : V3 ℚ) (hv : GapV v) :
    Py.getIdx (Np.where3 (Np.ge (Np.fabs v) (Np.fill (Src.Constraints.epsilon : ℚ)))) (0 : Int) = Con.firstNZ (toVec v) := by
  obtain ⟨v1, v2, v3⟩ := v
  obtain ⟨h1, h2, h3⟩ := hv
  simp only at h1 h2 h3
  rw [getIdx_zero]
  simp only [Np.ge, Np.fabs, Np.fill, Np.zip3, Np.map3, where3_head, ge_iff_le, gap_iff h1, gap_iff h2, gap_iff h3, Con.firstNZ, toVec,
    decide_eq_true_eq]
  by_cases e1 : v1 = 0 <;> by_cases e2 : v2 = 0 <;> by_cases e3 : v3 = 0 <;> simp [e1, e2, e3]

theorem usedDict_has (used : List (List Char)) (s : List Char) :
    Py.dictHas (used.map fun c => (c, true)) s = used.contains s := by
  rw [dictHas_iff_mem_keys, List.map_map]
  congr 1
  exact List.map_id _

/-- one iteration of the loop of `_findPosParameters` -/
theorem findPos_step (t : V3 ℚ) (acc : List (List Char × ℚ)) (used : List (List Char)) (v : V3 ℚ) (hv : GapV v) :
    Src.Constraints.findPosParameters_body (t, acc, used.map fun c => (c, true)) v =
      (Con.firstNZ (toVec v)).bind fun idx =>
      ((([['x'], ['y'], ['z']] : List (List Char)).drop idx).filter fun s => !used.contains s).head?.bind fun c =>
      let val := if (toVec v).x ≠ 0 then (toVec t).x / (toVec v).x else if (toVec v).y ≠ 0 then (toVec t).y / (toVec v).y
        else if (toVec v).z ≠ 0 then (toVec t).z / (toVec v).z else 0
      some (Np.sub t (Np.mulS val v), acc ++ [(c, val)], (used ++ [c]).map fun c => (c, true)) := by
  unfold Src.Constraints.findPosParameters_body
  simp only [firstIdx_eq v hv]
  obtain ⟨v1, v2, v3⟩ := v
  obtain ⟨t1, t2, t3⟩ := t
  have hfilt : ∀ idx : Nat, ((Py.sliceFrom (Py.chars ['x', 'y', 'z']) idx).filter fun s =>
        !(Py.dictHas (used.map fun c => (c, true)) s)) =
      ((([['x'], ['y'], ['z']] : List (List Char)).drop idx).filter fun s => !used.contains s) := by
    intro idx
    simp only [usedDict_has]
    rfl
  have hset : ∀ c : List Char, used.contains c = false →
      Py.dictSet (used.map fun c => (c, true)) c true = (used ++ [c]).map fun c => (c, true) := by
    intro c hc
    rw [dictSet_fresh _ _ _ (by rw [usedDict_has]; exact hc)]
    simp
  simp only [Con.firstNZ, toVec]
  by_cases e1 : v1 = 0
  · by_cases e2 : v2 = 0
    · by_cases e3 : v3 = 0
      · simp [e1, e2, e3]
      · simp only [e1, e2, e3, ne_eq, not_true_eq_false, not_false_eq_true, if_false, if_true, Option.bind_some, Np.get3?, hfilt,
          getIdx_zero]
        cases hh : (List.filter (fun s => !used.contains s) (List.drop 2 [['x'], ['y'], ['z']])).head? with
        | none => rfl
        | some c =>
          have hc : used.contains c = false := by
            have := List.mem_of_mem_head? hh
            simpa using (List.mem_filter.1 this).2
          simp only [Option.bind_some, hset c hc]
    · simp only [e1, e2, ne_eq, not_true_eq_false, not_false_eq_true, if_false, if_true, Option.bind_some, Np.get3?, hfilt,
        getIdx_zero]
      cases hh : (List.filter (fun s => !used.contains s) (List.drop 1 [['x'], ['y'], ['z']])).head? with
      | none => rfl
      | some c =>
        have hc : used.contains c = false := by
          have := List.mem_of_mem_head? hh
          simpa using (List.mem_filter.1 this).2
        simp only [Option.bind_some, hset c hc]
  · simp only [e1, ne_eq, not_false_eq_true, if_true, Option.bind_some, Np.get3?, hfilt, getIdx_zero]
    cases hh : (List.filter (fun s => !used.contains s) (List.drop 0 [['x'], ['y'], ['z']])).head? with
    | none => rfl
    | some c =>
      have hc : used.contains c = false := by
        have := List.mem_of_mem_head? hh
        simpa using (List.mem_filter.1 this).2
      simp only [Option.bind_some, hset c hc]

theorem toVec_sub_mulS (t v : V3 ℚ) (c : ℚ) : toVec (Np.sub t (Np.mulS c v)) = (toVec t).sub (Vec3.smul c (toVec v)) := rfl

theorem findPos_fold : ∀ (rows : List (V3 ℚ)), (∀ v ∈ rows, GapV v) → ∀ (t : V3 ℚ) (acc : List (List Char × ℚ)) (used : List (List Char)),
    (Py.forM rows (t, acc, used.map fun c => (c, true)) Src.Constraints.findPosParameters_body).map (·.2.1) =
      (Con.posNamesAux used (rows.map toVec)).map fun names =>
        acc ++ names.zip (Con.posParams (rows.map toVec) (toVec t)).1
  | [], _, t, acc, used => by simp [Con.posNamesAux, Con.posParams]
  | v :: rows, hg, t, acc, used => by
    rw [forM_cons, findPos_step t acc used v (hg v (List.mem_cons_self ..))]
    simp only [List.map_cons, Con.posNamesAux, Con.posParams]
    cases Con.firstNZ (toVec v) with
    | none => rfl
    | some idx =>
      simp only [Option.bind_some]
      cases (List.filter (fun s => !used.contains s) (List.drop idx [['x'], ['y'], ['z']])).head? with
      | none => rfl
      | some c =>
        simp only [Option.bind_some]
        rw [findPos_fold rows (fun w hw => hg w (List.mem_cons_of_mem _ hw)), toVec_sub_mulS]
        cases Con.posNamesAux (used ++ [c]) (rows.map toVec) with
        | none => rfl
        | some names => simp

/-- **`_findPosParameters`**: on a certificate `rows` whose entries are zero or at least `epsilon` in size, the pairs appended to
`self.pparameters` are the names `Con.posNames rows` with the values `Con.posParams rows xyz` — the FIRST non-zero coordinate of
each direction is eliminated, in the order of the rows — and the method raises exactly when `Con.posNames` is `none`. -/
theorem findPosParameters_eq (rows : List (V3 ℚ)) (xyz : V3 ℚ) (hg : ∀ v ∈ rows, GapV v) :
    Src.Constraints.findPosParameters rows xyz =
      (Con.posNames (rows.map toVec)).map fun names => names.zip (Con.posParams (rows.map toVec) (toVec xyz)).1 := by
  have := findPos_fold rows hg xyz [] []
  unfold Src.Constraints.findPosParameters
  simp only [List.map_nil, List.nil_append] at this
  unfold Con.posNames
  rw [← this]
  show (Py.forM rows (xyz, [], []) Src.Constraints.findPosParameters_body).bind (fun st => some st.2.1) = _
  cases Py.forM rows (xyz, [], []) Src.Constraints.findPosParameters_body <;> rfl

/-! ### 3. `_findUParameters` = `Con.projCoefs` (values) and `Con.uName` (names) -/

theorem dot1_frob (A B : M3 ℚ) : Np.dot1 (Np.flatten A) (Np.flatten B) = Con.frob (toMat A) (toMat B) := by
  obtain ⟨⟨a1, a2, a3⟩, ⟨a4, a5, a6⟩, ⟨a7, a8, a9⟩⟩ := A
  obtain ⟨⟨b1, b2, b3⟩, ⟨b4, b5, b6⟩, ⟨b7, b8, b9⟩⟩ := B
  simp only [Np.dot1, Np.flatten, Np.toList3, Con.frob, toMat, List.cons_append, List.nil_append, List.zipWith_cons_cons,
    List.zipWith_nil_right, List.foldl_cons, List.foldl_nil]
  ring

theorem next_cons_if (i : Nat) (x c : ℚ) (rest : List (Nat × ℚ)) :
    Py.next? (((i, x) :: rest).filterMap fun p => if p.2 = c then some p.1 else none) =
      if x = c then some i else Py.next? (rest.filterMap fun p => if p.2 = c then some p.1 else none) := by
  by_cases h : x = c <;> simp [h, Py.next?]

theorem ite_bind {β γ : Type} (c : Prop) [Decidable c] (a b : Option β) (k : β → Option γ) :
    (if c then a else b).bind k = if c then a.bind k else b.bind k := by
  split <;> rfl

/-- `Con.uName` with the numerals of this (Mathlib) context -/
theorem uName_spec (B : Mat3 ℚ) : Con.uName B =
    if B.a11 = 1 then some ['U', '1', '1'] else if B.a22 = 1 then some ['U', '2', '2'] else if B.a33 = 1 then some ['U', '3', '3']
    else if B.a12 = 1 then some ['U', '1', '2'] else if B.a13 = 1 then some ['U', '1', '3'] else if B.a23 = 1 then some ['U', '2', '3']
    else if B.a21 = 1 then some ['U', '1', '2'] else if B.a31 = 1 then some ['U', '1', '3'] else if B.a32 = 1 then some ['U', '2', '3']
    else none := rfl

/-- the name of a basis tensor: the first entry equal to 1 in the order `00 11 22 01 02 12 10 20 21` -/
theorem uName_eq {γ : Type} (B : M3 ℚ) (k : List Char → Option γ) :
    ((Py.takeIdx (Np.flatten B) [0, 4, 8, 1, 2, 5, 3, 6, 7]).bind fun t =>
      (Py.next? ((Py.enumerate t).filterMap fun p => if p.2 = ((1 : Int) : ℚ) then some p.1 else none)).bind fun permidx =>
      (Py.getIdx ([0, 4, 8, 1, 2, 5, 3, 6, 7] : List Nat) (Int.ofNat permidx)).bind fun idx =>
      (Py.dictGet Src.Constraints.idx2Usymbol idx).bind k) = (Con.uName (toMat B)).bind k := by
  obtain ⟨⟨b1, b2, b3⟩, ⟨b4, b5, b6⟩, ⟨b7, b8, b9⟩⟩ := B
  have ht : Py.takeIdx (Np.flatten ((b1, b2, b3), (b4, b5, b6), (b7, b8, b9))) [0, 4, 8, 1, 2, 5, 3, 6, 7] =
      some [b1, b5, b9, b2, b3, b6, b4, b7, b8] := rfl
  have he : Py.enumerate [b1, b5, b9, b2, b3, b6, b4, b7, b8] =
      [(0, b1), (1, b5), (2, b9), (3, b2), (4, b3), (5, b6), (6, b4), (7, b7), (8, b8)] := rfl
  rw [ht, Option.bind_some, he]
  simp only [next_cons_if, List.filterMap_nil, uName_spec, toMat, Int.cast_one, ite_bind]
  by_cases hb1 : b1 = 1
  · simp only [if_pos hb1]; rfl
  simp only [if_neg hb1]
  by_cases hb5 : b5 = 1
  · simp only [if_pos hb5]; rfl
  simp only [if_neg hb5]
  by_cases hb9 : b9 = 1
  · simp only [if_pos hb9]; rfl
  simp only [if_neg hb9]
  by_cases hb2 : b2 = 1
  · simp only [if_pos hb2]; rfl
  simp only [if_neg hb2]
  by_cases hb3 : b3 = 1
  · simp only [if_pos hb3]; rfl
  simp only [if_neg hb3]
  by_cases hb6 : b6 = 1
  · simp only [if_pos hb6]; rfl
  simp only [if_neg hb6]
  by_cases hb4 : b4 = 1
  · simp only [if_pos hb4]; rfl
  simp only [if_neg hb4]
  by_cases hb7 : b7 = 1
  · simp only [if_pos hb7]; rfl
  simp only [if_neg hb7]
  by_cases hb8 : b8 = 1
  · simp only [if_pos hb8]; rfl
  simp only [if_neg hb8]
  rfl

theorem findU_step (acc : List (List Char × ℚ)) (U B : M3 ℚ) :
    Src.Constraints.findUParameters_body [0, 4, 8, 1, 2, 5, 3, 6, 7] (Np.flatten U) acc B =
      (Con.uName (toMat B)).map fun n => acc ++ [(n, Con.frob (toMat U) (toMat B) / Con.frob (toMat B) (toMat B))] := by
  unfold Src.Constraints.findUParameters_body
  simp only [dot1_frob]
  rw [uName_eq B]
  cases Con.uName (toMat B) <;> rfl

theorem findU_fold (U : M3 ℚ) : ∀ (bs : List (M3 ℚ)) (acc : List (List Char × ℚ)),
    Py.forM bs acc (Src.Constraints.findUParameters_body [0, 4, 8, 1, 2, 5, 3, 6, 7] (Np.flatten U)) =
      (Py.mapOpt (fun b => Con.uName (toMat b)) bs).map fun names =>
        acc ++ names.zip (Con.projCoefs (bs.map toMat) (toMat U))
  | [], acc => by simp [Py.mapOpt, Con.projCoefs]
  | b :: bs, acc => by
    rw [forM_cons, findU_step, Py.mapOpt]
    cases Con.uName (toMat b) with
    | none => rfl
    | some n =>
      simp only [Option.map_some, Option.bind_some]
      rw [findU_fold U bs]
      cases Py.mapOpt (fun b => Con.uName (toMat b)) bs with
      | none => rfl
      | some names => simp [Con.projCoefs]

/-- **`_findUParameters`**: the pairs appended to `self.Uparameters` are the names `Con.uName B_k` with the values
`Con.projCoefs Uspace Uij` (`⟨Uij, B_k⟩ / ⟨B_k, B_k⟩`, Frobenius product over all nine entries), in the order of `Uspace`; the method
raises (`StopIteration`) exactly when some basis tensor has no entry equal to 1. -/
theorem findUParameters_eq (bs : List (M3 ℚ)) (U : M3 ℚ) :
    Src.Constraints.findUParameters bs U =
      (Py.mapOpt (fun b => Con.uName (toMat b)) bs).map fun names => names.zip (Con.projCoefs (bs.map toMat) (toMat U)) := by
  unfold Src.Constraints.findUParameters
  have := findU_fold U bs []
  simp only [List.nil_append] at this
  exact this

theorem mapOpt_length {β γ : Type} (f : β → Option γ) : ∀ (l : List β) (r : List γ), Py.mapOpt f l = some r → r.length = l.length
  | [], r, h => by simp [Py.mapOpt] at h; subst h; rfl
  | x :: xs, r, h => by
    rw [Py.mapOpt] at h
    cases hx : f x with
    | none => simp [hx] at h
    | some y =>
      cases hxs : Py.mapOpt f xs with
      | none => simp [hx, hxs] at h
      | some ys =>
        simp [hx, hxs] at h
        subst h
        simp [mapOpt_length f xs ys hxs]

/-! ### 4. `_findeqUij`: the stored tensor is `Con.proj`, the equivalent tensors are `rotT R_j U` with the FIRST operation of class `j` -/

theorem toMat_add (A B : M3 ℚ) : toMat (Np.addM A B) = (toMat A).add (toMat B) := rfl
theorem toMat_smul (c : ℚ) (A : M3 ℚ) : toMat (Np.smulM c A) = Mat3.smul c (toMat A) := rfl
theorem toMat_zeros : toMat (Np.zerosM : M3 ℚ) = Mat3.zero := rfl

theorem toMat_rot (R U : M3 ℚ) : toMat (Np.matmul R (Np.matmul U (Np.transpose R))) = Con.rotT (toMat R) (toMat U) := by
  obtain ⟨⟨a1, a2, a3⟩, ⟨a4, a5, a6⟩, ⟨a7, a8, a9⟩⟩ := R
  obtain ⟨⟨b1, b2, b3⟩, ⟨b4, b5, b6⟩, ⟨b7, b8, b9⟩⟩ := U
  simp only [Np.matmul, Np.vecMat, Np.transpose, Np.map3, Np.dotRow, toMat, Con.rotT, Mat3.mul, Mat3.transpose]
  congr 1 <;> ring

theorem forM_congr {β σ : Type} (l : List β) (s : σ) (f g : σ → β → Option σ) (h : ∀ x ∈ l, ∀ s, f s x = g s x) :
    Py.forM l s f = Py.forM l s g := by
  induction l generalizing s with
  | nil => rfl
  | cons x xs ih =>
    rw [forM_cons, forM_cons, h x (List.mem_cons_self ..)]
    cases g s x with
    | none => rfl
    | some s' => exact ih s' (fun y hy => h y (List.mem_cons_of_mem _ hy))

/-- `for i in range(len(L)): x = L[i]; …` is `for x in L: …` -/
theorem forM_range_getElem {β σ : Type} (L : List β) (s : σ) (f : σ → β → Option σ) :
    Py.forM (List.range L.length) s (fun s i => (L[i]?).bind (f s)) = Py.forM L s f := by
  induction L using List.reverseRecOn generalizing s with
  | nil => rfl
  | append_singleton L x ih =>
    rw [List.length_append, List.length_singleton, List.range_succ, forM_append, forM_append]
    have h1 : Py.forM (List.range L.length) s (fun s i => ((L ++ [x])[i]?).bind (f s)) =
        Py.forM (List.range L.length) s (fun s i => (L[i]?).bind (f s)) := by
      apply forM_congr
      intro i hi s
      rw [List.getElem?_append_left (List.mem_range.1 hi)]
    rw [h1, ih]
    cases Py.forM L s f with
    | none => rfl
    | some s' => simp


theorem body1_eq (bs : List (M3 ℚ)) (pars : List (List Char × ℚ)) (U : M3 ℚ) (i : Nat) :
    Src.Constraints.findeqUij_body1 bs pars U i =
      ((bs.zip pars)[i]?).bind fun e => some (Np.addM U (Np.smulM e.2.2 e.1)) := by
  unfold Src.Constraints.findeqUij_body1
  rw [getIdx_nat, getIdx_nat, show bs.zip pars = List.zipWith Prod.mk bs pars from rfl, List.getElem?_zipWith]
  cases bs[i]? with
  | none => rfl
  | some b =>
    cases pars[i]? with
    | none => rfl
    | some p => rfl

theorem uij_fold : ∀ (l : List (M3 ℚ × (List Char × ℚ))) (U : M3 ℚ),
    toMat (l.foldl (fun U e => Np.addM U (Np.smulM e.2.2 e.1)) U) =
      (toMat U).add (Con.lincombT (l.map (·.2.2)) (l.map fun e => toMat e.1))
  | [], U => by
    show toMat U = (toMat U).add Mat3.zero
    mat3_tac
  | e :: l, U => by
    rw [List.foldl_cons, uij_fold l, toMat_add, toMat_smul]
    show ((toMat U).add (Mat3.smul e.2.2 (toMat e.1))).add _ = (toMat U).add ((Mat3.smul e.2.2 (toMat e.1)).add _)
    generalize Con.lincombT (l.map (·.2.2)) (l.map fun e => toMat e.1) = W
    mat3_tac

theorem body2_fold (U : M3 ℚ) : ∀ (symops : List (List (SymOp ℚ))) (acc : List (M3 ℚ)),
    Py.forM symops acc (Src.Constraints.findeqUij_body2 U) =
      (Py.mapOpt List.head? symops).map fun firsts =>
        acc ++ firsts.map fun op => Np.matmul op.R (Np.matmul U (Np.transpose op.R))
  | [], acc => by simp [Py.mapOpt]
  | ops :: symops, acc => by
    have step : Src.Constraints.findeqUij_body2 U acc ops =
        ops.head?.bind fun op => some (acc ++ [Np.matmul op.R (Np.matmul U (Np.transpose op.R))]) := by
      unfold Src.Constraints.findeqUij_body2
      rw [getIdx_zero]
    rw [forM_cons, Py.mapOpt, step]
    cases ops.head? with
    | none => rfl
    | some op =>
      simp only [Option.bind_some]
      rw [body2_fold U symops]
      cases Py.mapOpt List.head? symops with
      | none => rfl
      | some firsts => simp

/-- **`_findeqUij`**: for parameter values `pars` (one per basis tensor), `self.Uij` becomes `Σ_k value_k · B_k` and `self.eqUij[j]`
is `R_j · Uij · R_jᵀ` where `R_j` is the rotation of the FIRST operation listed for the `j`-th equivalent site; the method raises
(`IndexError`) exactly when some class of operations is empty. -/
theorem findeqUij_eq (bs : List (M3 ℚ)) (pars : List (List Char × ℚ)) (symops : List (List (SymOp ℚ)))
    (hlen : pars.length = bs.length) :
    (Src.Constraints.findeqUij bs pars symops).map (fun r => (toMat r.1, r.2.map toMat)) =
      (Py.mapOpt List.head? symops).map fun firsts =>
        (Con.lincombT (pars.map (·.2)) (bs.map toMat),
         firsts.map fun op => Con.rotT (toMat op.R) (Con.lincombT (pars.map (·.2)) (bs.map toMat))) := by
  unfold Src.Constraints.findeqUij
  have h1 : Py.forM (List.range pars.length) (Np.zerosM : M3 ℚ) (Src.Constraints.findeqUij_body1 bs pars) =
      some ((bs.zip pars).foldl (fun U e => Np.addM U (Np.smulM e.2.2 e.1)) Np.zerosM) := by
    have hl : (bs.zip pars).length = pars.length := by simp [hlen]
    rw [← hl]
    have := forM_range_getElem (bs.zip pars) (Np.zerosM : M3 ℚ) (fun U e => some (Np.addM U (Np.smulM e.2.2 e.1)))
    rw [forM_total (bs.zip pars) (Np.zerosM : M3 ℚ) (fun U e => some (Np.addM U (Np.smulM e.2.2 e.1)))
      (fun U e => Np.addM U (Np.smulM e.2.2 e.1)) (fun _ _ => rfl)] at this
    rw [← this]
    apply forM_congr
    intro i _ s
    exact body1_eq bs pars s i
  simp only [h1, Option.bind_some, body2_fold, List.nil_append]
  have hU : toMat ((bs.zip pars).foldl (fun U e => Np.addM U (Np.smulM e.2.2 e.1)) Np.zerosM) =
      Con.lincombT (pars.map (·.2)) (bs.map toMat) := by
    rw [uij_fold, toMat_zeros]
    have e1 : (bs.zip pars).map (·.2.2) = pars.map (·.2) := by
      rw [show (fun e : M3 ℚ × (List Char × ℚ) => e.2.2) = (fun p : List Char × ℚ => p.2) ∘ Prod.snd from rfl,
        ← List.map_map, List.map_snd_zip (by omega)]
    have e2 : ((bs.zip pars).map fun e => toMat e.1) = bs.map toMat := by
      rw [show (fun e : M3 ℚ × (List Char × ℚ) => toMat e.1) = toMat ∘ Prod.fst from rfl,
        ← List.map_map, List.map_fst_zip (by omega)]
    rw [e1, e2]
    generalize Con.lincombT (pars.map (·.2)) (bs.map toMat) = W
    mat3_tac
  cases Py.mapOpt List.head? symops with
  | none => rfl
  | some firsts =>
    simp only [Option.map_some, Option.bind_some, hU, List.map_map, Prod.mk.injEq, true_and, Option.some.injEq]
    apply List.map_congr_left
    intro op _
    simp only [Function.comp, toMat_rot, hU]

/-- `_findUParameters` followed by `_findeqUij`: the stored tensor is the projection `Con.proj Uspace Uij` -/
theorem stored_tensor_eq (bs : List (M3 ℚ)) (U : M3 ℚ) (symops : List (List (SymOp ℚ))) (pars : List (List Char × ℚ))
    (hp : Src.Constraints.findUParameters bs U = some pars) :
    (Src.Constraints.findeqUij bs pars symops).map (fun r => (toMat r.1, r.2.map toMat)) =
      (Py.mapOpt List.head? symops).map fun firsts =>
        (Con.proj (bs.map toMat) (toMat U), firsts.map fun op => Con.rotT (toMat op.R) (Con.proj (bs.map toMat) (toMat U))) := by
  rw [findUParameters_eq] at hp
  cases hn : Py.mapOpt (fun b => Con.uName (toMat b)) bs with
  | none => simp [hn] at hp
  | some names =>
    simp only [hn, Option.map_some, Option.some.injEq] at hp
    have hl := mapOpt_length _ _ _ hn
    have hc : (Con.projCoefs (bs.map toMat) (toMat U)).length = bs.length := by simp [Con.projCoefs]
    have hpl : pars.length = bs.length := by rw [← hp]; simp [hl, hc]
    have hv : pars.map (·.2) = Con.projCoefs (bs.map toMat) (toMat U) := by
      rw [← hp]; exact List.map_snd_zip (by omega)
    rw [findeqUij_eq bs pars symops hpl, hv]
    rfl

set_option linter.unusedSectionVars false
set_option linter.unusedVariables false
variable {α : Type} [Field α] [LinearOrder α] [IsStrictOrderedRing α] [FloorRing α]

/-! ### 5. `positionFormula` / `UFormula` / `eqIndex`: the lookup of the equivalent site -/

/-- **the lookup** ("find pos in eqxyz") on the grid `D = 24k`: with `self.eqxyz = ps/D` (non-empty), `self.eps = E/D` and
`pos = q/D` the index is `Orbit.nearestIdx` (first position of minimal periodic box distance), the test is
`Orbit.boxDist ≤ E`, and the rotation is that of the FIRST operation of class `j` -/
theorem findEquivalent_grid {k : Int} (hk : 0 < k) (E : Int) (g : GenSite α) (ps : List P3) (q : P3) (hps : ps ≠ [])
    (hx : g.eqxyz = ps.map (castP k)) (he : g.eps = sc k E) :
    Src.Constraints.findEquivalent g (castP k q) =
      if Orbit.boxDist (24 * k) (ps.getD (Orbit.nearestIdx (24 * k) ps q) q) q ≤ E then
        (g.symops[Orbit.nearestIdx (24 * k) ps q]?).bind fun ops => ops.head?.bind fun op =>
          some (some (castP k (ps.getD (Orbit.nearestIdx (24 * k) ps q) q), op.R))
      else some none := by
  have hj := Orbit.nearestIdx_lt (24 * k) ps q hps
  unfold Src.Constraints.findEquivalent
  rw [hx, he, DS.Props.SrcSym.nearestIdx_refines hk ps q hps]
  simp only [Option.bind_some, getIdx_nat, List.getElem?_map, List.getElem?_eq_getElem hj, Option.map_some,
    DS.Props.SrcSym.equalPositions_refines hk E, getIdx_zero]
  have hgd : ps.getD (Orbit.nearestIdx (24 * k) ps q) q = ps[Orbit.nearestIdx (24 * k) ps q] := by
    rw [List.getD_eq_getElem?_getD, List.getElem?_eq_getElem hj]; rfl
  rw [hgd]
  by_cases hd : Orbit.boxDist (24 * k) ps[Orbit.nearestIdx (24 * k) ps q] q ≤ E
  · simp [hd]
  · simp [hd]

/-- `eqIndex` on the grid is `Orbit.nearestIdx` -/
theorem eqIndex_grid {k : Int} (hk : 0 < k) (g : GenSite α) (ps : List P3) (q : P3) (hps : ps ≠ [])
    (hx : g.eqxyz = ps.map (castP k)) :
    Src.Constraints.eqIndex g (castP k q) = some (Orbit.nearestIdx (24 * k) ps q) := by
  unfold Src.Constraints.eqIndex
  rw [hx, DS.Props.SrcSym.nearestIdx_refines hk ps q hps]


/-! ### 6. `positionFormula`: numeric content = `Con.posFormula`, pieces = `Con.posPieces` -/

theorem absQ_eq (x : ℚ) : Con.absQ x = Np.absS x := rfl

theorem toVec_vecMat_transpose (v : V3 ℚ) (R : M3 ℚ) :
    toVec (Np.vecMat v (Np.transpose R)) = (toMat R).mulVec (toVec v) := by
  obtain ⟨⟨a1, a2, a3⟩, ⟨a4, a5, a6⟩, ⟨a7, a8, a9⟩⟩ := R
  obtain ⟨v1, v2, v3⟩ := v
  simp only [Np.vecMat, Np.transpose, Np.map3, Np.dotRow, toVec, toMat, Mat3.mulVec]
  congr 1 <;> ring

theorem nsrotated_eq (ns : List (V3 ℚ)) (R : M3 ℚ) :
    (Np.dotLM ns (Np.transpose R)).map toVec = (ns.map toVec).map fun v => (toMat R).mulVec v := by
  simp only [Np.dotLM, List.map_map]
  apply List.map_congr_left
  intro v _
  exact toVec_vecMat_transpose v R

theorem toVec_sub_mulVS (t v : V3 ℚ) (c : ℚ) : toVec (Np.sub t (Np.mulVS v c)) = (toVec t).sub (Vec3.smul c (toVec v)) := by
  obtain ⟨t1, t2, t3⟩ := t
  obtain ⟨v1, v2, v3⟩ := v
  simp only [Np.sub, Np.mulVS, Np.zip3, Np.map3, toVec, Vec3.sub, Vec3.smul]
  congr 1 <;> ring

/-- `teqpos -= nvec * varvalue` over `zip(nsrotated, self.pparameters)` -/
theorem teqpos_fold : ∀ (rot : List (V3 ℚ)) (pars : List (List Char × ℚ)) (t : V3 ℚ),
    toVec ((rot.zip pars).foldl (fun teqpos e => Np.sub teqpos (Np.mulVS e.1 e.2.2)) t) =
      (toVec t).sub (Con.lincomb (pars.map (·.2)) (rot.map toVec))
  | [], _, t => by
    cases ‹List (List Char × ℚ)› <;> (show toVec t = (toVec t).sub Vec3.zero; vec3_tac)
  | _ :: _, [], t => by
    show toVec t = (toVec t).sub Vec3.zero; vec3_tac
  | r :: rot, p :: pars, t => by
    rw [List.zip_cons_cons, List.foldl_cons, teqpos_fold rot pars, toVec_sub_mulVS]
    show ((toVec t).sub (Vec3.smul p.2 (toVec r))).sub _ = (toVec t).sub ((Vec3.smul p.2 (toVec r)).add _)
    generalize Con.lincomb (pars.map (·.2)) (rot.map toVec) = W
    vec3_tac

/-- the symbol the caller gave for the standard name `c` (`name2sym[vname]`) -/
def symOf (syms : List (List Char)) (c : List Char) : Option (List Char) :=
  Py.dictGet (Py.dictZip [['x'], ['y'], ['z']] syms) c

def coordV (v : V3 ℚ) (i : Nat) : ℚ := match i with | 0 => v.1 | 1 => v.2.1 | _ => v.2.2

theorem coord_toVec (v : V3 ℚ) (i : Nat) : Con.coord (toVec v) i = coordV v i := by
  match i with
  | 0 => rfl
  | 1 => rfl
  | _ + 2 => rfl

/-- the term that one parameter contributes to coordinate `i` -/
def termOf (i : Nat) (nvec : V3 ℚ) (sym : List Char) : FStr ℚ :=
  if Np.absS (coordV nvec i) < (Src.Constraints.epsilon : ℚ) then [] else [FPiece.term (coordV nvec i) sym]

theorem term_step0 (n2s : List (List Char × List Char)) (a0 a1 a2 : FStr ℚ) (nvec : V3 ℚ) (vname sym : List Char)
    (hs : Py.dictGet n2s vname = some sym) :
    Src.Constraints.positionFormula_term n2s nvec vname [a0, a1, a2] 0 = some [a0 ++ termOf 0 nvec sym, a1, a2] := by
  obtain ⟨v1, v2, v3⟩ := nvec
  simp only [Src.Constraints.positionFormula_term, Np.get3?, termOf, coordV, getIdx_nat, List.getElem?_cons_zero, Option.bind_some, hs,
    decide_eq_true_eq]
  by_cases h : Np.absS v1 < (Src.Constraints.epsilon : ℚ)
  · rw [if_pos h, if_pos h, List.append_nil]
  · rw [if_neg h, if_neg h]; rfl

theorem term_step1 (n2s : List (List Char × List Char)) (a0 a1 a2 : FStr ℚ) (nvec : V3 ℚ) (vname sym : List Char)
    (hs : Py.dictGet n2s vname = some sym) :
    Src.Constraints.positionFormula_term n2s nvec vname [a0, a1, a2] 1 = some [a0, a1 ++ termOf 1 nvec sym, a2] := by
  obtain ⟨v1, v2, v3⟩ := nvec
  simp only [Src.Constraints.positionFormula_term, Np.get3?, termOf, coordV, getIdx_nat, List.getElem?_cons_succ,
    List.getElem?_cons_zero, Option.bind_some, hs, decide_eq_true_eq]
  by_cases h : Np.absS v2 < (Src.Constraints.epsilon : ℚ)
  · rw [if_pos h, if_pos h, List.append_nil]
  · rw [if_neg h, if_neg h]; rfl

theorem term_step2 (n2s : List (List Char × List Char)) (a0 a1 a2 : FStr ℚ) (nvec : V3 ℚ) (vname sym : List Char)
    (hs : Py.dictGet n2s vname = some sym) :
    Src.Constraints.positionFormula_term n2s nvec vname [a0, a1, a2] 2 = some [a0, a1, a2 ++ termOf 2 nvec sym] := by
  obtain ⟨v1, v2, v3⟩ := nvec
  simp only [Src.Constraints.positionFormula_term, Np.get3?, termOf, coordV, getIdx_nat, List.getElem?_cons_succ,
    List.getElem?_cons_zero, Option.bind_some, hs, decide_eq_true_eq]
  by_cases h : Np.absS v3 < (Src.Constraints.epsilon : ℚ)
  · rw [if_pos h, if_pos h, List.append_nil]
  · rw [if_neg h, if_neg h]; rfl

theorem terms_step (n2s : List (List Char × List Char)) (a0 a1 a2 : FStr ℚ) (nvec : V3 ℚ) (vname sym : List Char) (val : ℚ)
    (hs : Py.dictGet n2s vname = some sym) :
    Src.Constraints.positionFormula_terms n2s [a0, a1, a2] (nvec, (vname, val)) =
      some [a0 ++ termOf 0 nvec sym, a1 ++ termOf 1 nvec sym, a2 ++ termOf 2 nvec sym] := by
  unfold Src.Constraints.positionFormula_terms
  rw [show List.range 3 = [0, 1, 2] from rfl]
  simp only [forM_cons, forM_nil, term_step0 n2s _ _ _ _ _ _ hs, term_step1 n2s _ _ _ _ _ _ hs, term_step2 n2s _ _ _ _ _ _ hs,
    Option.bind_some]

/-- `name2sym[vname]`, `[]` if the name is not a key -/
def symD (n2s : List (List Char × List Char)) (c : List Char) : List Char := (Py.dictGet n2s c).getD []

theorem terms_fold (n2s : List (List Char × List Char)) : ∀ (l : List (V3 ℚ × (List Char × ℚ))) (a0 a1 a2 : FStr ℚ),
    (∀ e ∈ l, (Py.dictGet n2s e.2.1).isSome) →
    Py.forM l [a0, a1, a2] (Src.Constraints.positionFormula_terms n2s) =
      some [a0 ++ l.flatMap (fun e => termOf 0 e.1 (symD n2s e.2.1)), a1 ++ l.flatMap (fun e => termOf 1 e.1 (symD n2s e.2.1)),
        a2 ++ l.flatMap (fun e => termOf 2 e.1 (symD n2s e.2.1))]
  | [], a0, a1, a2, _ => by simp
  | (nvec, (vname, val)) :: l, a0, a1, a2, h => by
    have hs := h (nvec, (vname, val)) (List.mem_cons_self ..)
    obtain ⟨sym, hsym⟩ := Option.isSome_iff_exists.1 hs
    rw [forM_cons, terms_step n2s a0 a1 a2 nvec vname sym val hsym, Option.bind_some,
      terms_fold n2s l _ _ _ (fun e he => h e (List.mem_cons_of_mem _ he))]
    simp only [List.flatMap_cons, List.append_assoc, symD, hsym, Option.getD_some]

/-- the constant that is appended to coordinate `i` -/
def constOf (i : Nat) (t : V3 ℚ) (f : FStr ℚ) : FStr ℚ :=
  if (!f.isEmpty && decide (Np.absS (coordV t i) < (Src.Constraints.epsilon : ℚ))) = true then [] else [FPiece.const (coordV t i)]

theorem const_step0 (t : V3 ℚ) (f0 f1 f2 : FStr ℚ) :
    Src.Constraints.positionFormula_const t [f0, f1, f2] 0 = some [f0 ++ constOf 0 t f0, f1, f2] := by
  obtain ⟨t1, t2, t3⟩ := t
  simp only [Src.Constraints.positionFormula_const, Np.get3?, constOf, coordV, getIdx_nat, List.getElem?_cons_zero, Option.bind_some]
  by_cases h : (!f0.isEmpty && decide (Np.absS t1 < (Src.Constraints.epsilon : ℚ))) = true
  · rw [if_pos h, if_pos h, List.append_nil]
  · rw [if_neg h, if_neg h]; rfl

theorem const_step1 (t : V3 ℚ) (f0 f1 f2 : FStr ℚ) :
    Src.Constraints.positionFormula_const t [f0, f1, f2] 1 = some [f0, f1 ++ constOf 1 t f1, f2] := by
  obtain ⟨t1, t2, t3⟩ := t
  simp only [Src.Constraints.positionFormula_const, Np.get3?, constOf, coordV, getIdx_nat, List.getElem?_cons_succ,
    List.getElem?_cons_zero, Option.bind_some]
  by_cases h : (!f1.isEmpty && decide (Np.absS t2 < (Src.Constraints.epsilon : ℚ))) = true
  · rw [if_pos h, if_pos h, List.append_nil]
  · rw [if_neg h, if_neg h]; rfl

theorem const_step2 (t : V3 ℚ) (f0 f1 f2 : FStr ℚ) :
    Src.Constraints.positionFormula_const t [f0, f1, f2] 2 = some [f0, f1, f2 ++ constOf 2 t f2] := by
  obtain ⟨t1, t2, t3⟩ := t
  simp only [Src.Constraints.positionFormula_const, Np.get3?, constOf, coordV, getIdx_nat, List.getElem?_cons_succ,
    List.getElem?_cons_zero, Option.bind_some]
  by_cases h : (!f2.isEmpty && decide (Np.absS t3 < (Src.Constraints.epsilon : ℚ))) = true
  · rw [if_pos h, if_pos h, List.append_nil]
  · rw [if_neg h, if_neg h]; rfl

theorem const_fold (t : V3 ℚ) (f0 f1 f2 : FStr ℚ) :
    Py.forM (List.range 3) [f0, f1, f2] (Src.Constraints.positionFormula_const t) =
      some [f0 ++ constOf 0 t f0, f1 ++ constOf 1 t f1, f2 ++ constOf 2 t f2] := by
  rw [show List.range 3 = [0, 1, 2] from rfl]
  simp only [forM_cons, forM_nil, const_step0, const_step1, const_step2, Option.bind_some]

theorem flatMap_terms (i : Nat) (n2s : List (List Char × List Char)) : ∀ (rot : List (V3 ℚ)) (pars : List (List Char × ℚ)),
    (rot.zip pars).flatMap (fun e => termOf i e.1 (symD n2s e.2.1)) =
      ((rot.map toVec).zip (pars.map fun p => symD n2s p.1)).filterMap fun e =>
        if Con.absQ (Con.coord e.1 i) < (Src.Constraints.epsilon : ℚ) then none else some (FPiece.term (Con.coord e.1 i) e.2)
  | [], _ => by simp
  | _ :: _, [] => by simp
  | r :: rot, p :: pars => by
    rw [List.zip_cons_cons, List.flatMap_cons, flatMap_terms i n2s rot pars, List.map_cons, List.map_cons, List.zip_cons_cons,
      List.filterMap_cons]
    simp only [coord_toVec, absQ_eq, termOf]
    by_cases h : Np.absS (coordV r i) < (Src.Constraints.epsilon : ℚ) <;> simp [h]

theorem dictZip_xyz (f0 f1 f2 : FStr ℚ) :
    Py.dictZip [['x'], ['y'], ['z']] [f0, f1, f2] = [(['x'], f0), (['y'], f1), (['z'], f2)] := by
  simp [Py.dictZip, Py.dictSet, Py.dictHas, Py.dictGet]

/-- **`positionFormula`, numeric content.**  When the lookup finds the equivalent site `eqpos` with rotation `R`, and every
parameter name is a key of `name2sym` (`"x"`, `"y"`, `"z"` with at least that many caller symbols), the returned dictionary is
`Con.posPieces epsilon (Con.posFormula R null_space values eqpos) symbols`: coefficient vectors `R v_k` (`nsrotated`), constant part
`eqpos − Σ value_k · R v_k` (`teqpos`), per coordinate a term for every parameter with `|coefficient| ≥ epsilon` carrying the
caller's symbol of that parameter's name, then the constant unless there are terms and `|constant| < epsilon`. -/
theorem positionFormula_eq (g : GenSite ℚ) (pos : V3 ℚ) (syms : List (List Char)) (eqpos : V3 ℚ) (R : M3 ℚ)
    (hf : Src.Constraints.findEquivalent g pos = some (some (eqpos, R)))
    (hn : ∀ p ∈ g.pparameters, (symOf syms p.1).isSome) :
    Src.Constraints.positionFormula g pos syms =
      some (Con.posPieces (Src.Constraints.epsilon : ℚ)
        (Con.posFormula (toMat R) (g.null_space.map toVec) (g.pparameters.map (·.2)) (toVec eqpos))
        (g.pparameters.map fun p => symD (Py.dictZip [['x'], ['y'], ['z']] syms) p.1)) := by
  unfold Src.Constraints.positionFormula
  rw [hf]
  simp only [Option.bind_some]
  have hn' : ∀ e ∈ (Np.dotLM g.null_space (Np.transpose R)).zip g.pparameters,
      (Py.dictGet (Py.dictZip [['x'], ['y'], ['z']] syms) e.2.1).isSome := by
    intro e he
    exact hn e.2 (List.of_mem_zip he).2
  rw [show (List.replicate 3 [] : List (FStr ℚ)) = [[], [], []] from rfl,
    terms_fold _ _ _ _ _ hn', Option.bind_some, const_fold, Option.bind_some, dictZip_xyz]
  have hT := teqpos_fold (Np.dotLM g.null_space (Np.transpose R)) g.pparameters eqpos
  rw [nsrotated_eq] at hT
  generalize List.foldl (fun teqpos e => Np.sub teqpos (Np.mulVS e.1 e.2.2)) eqpos
    ((Np.dotLM g.null_space (Np.transpose R)).zip g.pparameters) = X at hT ⊢
  simp only [List.nil_append, Con.posPieces, Con.posPieces1, Con.posFormula, flatMap_terms, nsrotated_eq, absQ_eq, constOf]
  rw [← coord_toVec X 0, ← coord_toVec X 1, ← coord_toVec X 2, hT]
  congr!


/-! the piece lists denote the affine maps of `DS.Props.C05` -/

theorem evalPieces_append (env : List Char → ℚ) : ∀ (a b : FStr ℚ),
    Con.evalPieces env (a ++ b) = Con.evalPieces env a + Con.evalPieces env b
  | [], b => by simp [Con.evalPieces]
  | FPiece.term c s :: a, b => by
    rw [List.cons_append, Con.evalPieces, Con.evalPieces, evalPieces_append env a b]; ring
  | FPiece.const c :: a, b => by
    rw [List.cons_append, Con.evalPieces, Con.evalPieces, evalPieces_append env a b]; ring

theorem coord_add (u v : Vec3 ℚ) (i : Nat) : Con.coord (u.add v) i = Con.coord u i + Con.coord v i := by
  match i with
  | 0 => rfl
  | 1 => rfl
  | _ + 2 => rfl

theorem coord_smul (c : ℚ) (v : Vec3 ℚ) (i : Nat) : Con.coord (Vec3.smul c v) i = c * Con.coord v i := by
  match i with
  | 0 => rfl
  | 1 => rfl
  | _ + 2 => rfl

theorem coord_zero (i : Nat) : Con.coord (Vec3.zero : Vec3 ℚ) i = 0 := by
  match i with
  | 0 => rfl
  | 1 => rfl
  | _ + 2 => rfl

theorem evalTerms (eps : ℚ) (env : List Char → ℚ) (i : Nat) : ∀ (rot : List (Vec3 ℚ)) (syms : List (List Char)),
    (∀ v ∈ rot, Con.absQ (Con.coord v i) < eps → Con.coord v i = 0) →
    Con.evalPieces env ((rot.zip syms).filterMap fun e =>
        if Con.absQ (Con.coord e.1 i) < eps then none else some (FPiece.term (Con.coord e.1 i) e.2)) =
      Con.coord (Con.lincomb (syms.map env) rot) i
  | [], syms, _ => by
    cases syms <;> simp [Con.evalPieces, Con.lincomb, coord_zero]
  | _ :: _, [], _ => by simp [Con.evalPieces, Con.lincomb, coord_zero]
  | v :: rot, s :: syms, h => by
    rw [List.zip_cons_cons, List.filterMap_cons, List.map_cons]
    have ih := evalTerms eps env i rot syms (fun w hw => h w (List.mem_cons_of_mem _ hw))
    show _ = Con.coord ((Vec3.smul (env s) v).add (Con.lincomb (syms.map env) rot)) i
    rw [coord_add, coord_smul, ← ih]
    by_cases hc : Con.absQ (Con.coord v i) < eps
    · simp only [hc, if_true]
      rw [h v (List.mem_cons_self ..) hc]; ring
    · simp only [hc, if_false, Con.evalPieces]
      ring

/-- **the formula pieces denote the affine map of `Con.posFormula`/`Con.evalFormula`**: when no coefficient and no constant is
lost to the `epsilon` cut (each is zero or at least `eps` in size) the value of coordinate `i` of the returned formula, for values
`env` of the symbols, is coordinate `i` of `Con.evalFormula f` at the parameter values `env(symbol_k)` — so `DS.Props.C05.formula_eval`,
`formula_at_values`, `formula_image` speak about the strings the API returns. -/
theorem evalPieces_posPieces (eps : ℚ) (f : List (Vec3 ℚ) × Vec3 ℚ) (syms : List (List Char)) (env : List Char → ℚ) (i : Nat)
    (hc : ∀ v ∈ f.1, Con.absQ (Con.coord v i) < eps → Con.coord v i = 0)
    (hk : Con.absQ (Con.coord f.2 i) < eps → Con.coord f.2 i = 0) :
    Con.evalPieces env (Con.posPieces1 eps f syms i) = Con.coord (Con.evalFormula f (syms.map env)) i := by
  unfold Con.posPieces1 Con.evalFormula
  simp only
  rw [evalPieces_append, evalTerms eps env i f.1 syms hc, coord_add]
  by_cases hb : (!(List.filterMap (fun e => if Con.absQ (Con.coord e.1 i) < eps then none
      else some (FPiece.term (Con.coord e.1 i) e.2)) (f.1.zip syms)).isEmpty && decide (Con.absQ (Con.coord f.2 i) < eps)) = true
  · rw [if_pos hb]
    simp only [Bool.and_eq_true, decide_eq_true_eq] at hb
    rw [hk hb.2]; simp [Con.evalPieces]
  · rw [if_neg hb]
    simp [Con.evalPieces]; ring

set_option linter.unusedSectionVars false
set_option linter.unusedVariables false
variable {α : Type} [Field α] [LinearOrder α] [IsStrictOrderedRing α] [FloorRing α]

/-! ### 7. `UFormula`: numeric content = `R B_k Rᵀ`, pieces = `Con.uPieces` -/

/-- `numpy.where(mask)[0]` from index `s` on -/
def whereFrom (s : Nat) (m : List Bool) : List Nat :=
  ((List.range' s m.length).zip m).filterMap fun p => if p.2 then some p.1 else none

theorem whereFrom_cons (s : Nat) (b : Bool) (m : List Bool) :
    whereFrom s (b :: m) = (if b then [s] else []) ++ whereFrom (s + 1) m := by
  unfold whereFrom
  rw [List.length_cons, List.range'_succ, List.zip_cons_cons, List.filterMap_cons]
  cases b <;> simp

theorem whereL_eq (m : List Bool) : Np.whereL m = whereFrom 0 m := by
  unfold Np.whereL whereFrom
  rw [List.range_eq_range']

theorem forM_ite {σ : Type} (b : Bool) (i : Nat) (s : σ) (f : σ → Nat → Option σ) :
    Py.forM (if b then [i] else []) s f = if b then f s i else some s := by
  cases b <;> simp

/-- what one parameter contributes to an entry -/
def uAdd (x : ℚ) (sym : List Char) : FStr ℚ := if x = 0 then [] else [FPiece.term x sym]

abbrev U11 : List Char := ['U', '1', '1']
abbrev U22 : List Char := ['U', '2', '2']
abbrev U33 : List Char := ['U', '3', '3']
abbrev U12 : List Char := ['U', '1', '2']
abbrev U13 : List Char := ['U', '1', '3']
abbrev U23 : List Char := ['U', '2', '3']

def udict (s1 s2 s3 s4 s5 s6 : FStr ℚ) : FDict ℚ := [(U11, s1), (U22, s2), (U33, s3), (U12, s4), (U13, s5), (U23, s6)]

theorem upd11 (s1 s2 s3 s4 s5 s6 : FStr ℚ) (f : FStr ℚ → FStr ℚ) :
    Py.dictUpd (udict s1 s2 s3 s4 s5 s6) U11 f = some (udict (f s1) s2 s3 s4 s5 s6) := by
  simp [Py.dictUpd, Py.dictGet, Py.dictSet, Py.dictHas, udict]
theorem upd22 (s1 s2 s3 s4 s5 s6 : FStr ℚ) (f : FStr ℚ → FStr ℚ) :
    Py.dictUpd (udict s1 s2 s3 s4 s5 s6) U22 f = some (udict s1 (f s2) s3 s4 s5 s6) := by
  simp [Py.dictUpd, Py.dictGet, Py.dictSet, Py.dictHas, udict]
theorem upd33 (s1 s2 s3 s4 s5 s6 : FStr ℚ) (f : FStr ℚ → FStr ℚ) :
    Py.dictUpd (udict s1 s2 s3 s4 s5 s6) U33 f = some (udict s1 s2 (f s3) s4 s5 s6) := by
  simp [Py.dictUpd, Py.dictGet, Py.dictSet, Py.dictHas, udict]
theorem upd12 (s1 s2 s3 s4 s5 s6 : FStr ℚ) (f : FStr ℚ → FStr ℚ) :
    Py.dictUpd (udict s1 s2 s3 s4 s5 s6) U12 f = some (udict s1 s2 s3 (f s4) s5 s6) := by
  simp [Py.dictUpd, Py.dictGet, Py.dictSet, Py.dictHas, udict]
theorem upd13 (s1 s2 s3 s4 s5 s6 : FStr ℚ) (f : FStr ℚ → FStr ℚ) :
    Py.dictUpd (udict s1 s2 s3 s4 s5 s6) U13 f = some (udict s1 s2 s3 s4 (f s5) s6) := by
  simp [Py.dictUpd, Py.dictGet, Py.dictSet, Py.dictHas, udict]
theorem upd23 (s1 s2 s3 s4 s5 s6 : FStr ℚ) (f : FStr ℚ → FStr ℚ) :
    Py.dictUpd (udict s1 s2 s3 s4 s5 s6) U23 f = some (udict s1 s2 s3 s4 s5 (f s6)) := by
  simp [Py.dictUpd, Py.dictGet, Py.dictSet, Py.dictHas, udict]

theorem idx2U_0 : Py.dictGet Src.Constraints.idx2Usymbol 0 = some U11 := rfl
theorem idx2U_1 : Py.dictGet Src.Constraints.idx2Usymbol 1 = some U12 := rfl
theorem idx2U_2 : Py.dictGet Src.Constraints.idx2Usymbol 2 = some U13 := rfl
theorem idx2U_4 : Py.dictGet Src.Constraints.idx2Usymbol 4 = some U22 := rfl
theorem idx2U_5 : Py.dictGet Src.Constraints.idx2Usymbol 5 = some U23 := rfl
theorem idx2U_8 : Py.dictGet Src.Constraints.idx2Usymbol 8 = some U33 := rfl

theorem uterm_0 (n2s : List (List Char × List Char)) (x0 x1 x2 x3 x4 x5 x6 x7 x8 : ℚ) (vname sym : List Char)
    (hs : Py.dictGet n2s vname = some sym) (s1 s2 s3 s4 s5 s6 : FStr ℚ) :
    Src.Constraints.UFormula_term n2s [x0, x1, x2, x3, x4, x5, x6, x7, x8] vname (udict s1 s2 s3 s4 s5 s6) 0 =
      some (udict (s1 ++ [FPiece.term x0 sym]) s2 s3 s4 s5 s6) := by
  simp only [Src.Constraints.UFormula_term, getIdx_nat, hs, idx2U_0, upd11, Option.bind_some, List.getElem?_cons_zero]
theorem uterm_1 (n2s : List (List Char × List Char)) (x0 x1 x2 x3 x4 x5 x6 x7 x8 : ℚ) (vname sym : List Char)
    (hs : Py.dictGet n2s vname = some sym) (s1 s2 s3 s4 s5 s6 : FStr ℚ) :
    Src.Constraints.UFormula_term n2s [x0, x1, x2, x3, x4, x5, x6, x7, x8] vname (udict s1 s2 s3 s4 s5 s6) 1 =
      some (udict s1 s2 s3 (s4 ++ [FPiece.term x1 sym]) s5 s6) := by
  simp only [Src.Constraints.UFormula_term, getIdx_nat, hs, idx2U_1, upd12, Option.bind_some, List.getElem?_cons_zero,
    List.getElem?_cons_succ]
theorem uterm_2 (n2s : List (List Char × List Char)) (x0 x1 x2 x3 x4 x5 x6 x7 x8 : ℚ) (vname sym : List Char)
    (hs : Py.dictGet n2s vname = some sym) (s1 s2 s3 s4 s5 s6 : FStr ℚ) :
    Src.Constraints.UFormula_term n2s [x0, x1, x2, x3, x4, x5, x6, x7, x8] vname (udict s1 s2 s3 s4 s5 s6) 2 =
      some (udict s1 s2 s3 s4 (s5 ++ [FPiece.term x2 sym]) s6) := by
  simp only [Src.Constraints.UFormula_term, getIdx_nat, hs, idx2U_2, upd13, Option.bind_some, List.getElem?_cons_zero,
    List.getElem?_cons_succ]
theorem uterm_4 (n2s : List (List Char × List Char)) (x0 x1 x2 x3 x4 x5 x6 x7 x8 : ℚ) (vname sym : List Char)
    (hs : Py.dictGet n2s vname = some sym) (s1 s2 s3 s4 s5 s6 : FStr ℚ) :
    Src.Constraints.UFormula_term n2s [x0, x1, x2, x3, x4, x5, x6, x7, x8] vname (udict s1 s2 s3 s4 s5 s6) 4 =
      some (udict s1 (s2 ++ [FPiece.term x4 sym]) s3 s4 s5 s6) := by
  simp only [Src.Constraints.UFormula_term, getIdx_nat, hs, idx2U_4, upd22, Option.bind_some, List.getElem?_cons_zero,
    List.getElem?_cons_succ]
theorem uterm_5 (n2s : List (List Char × List Char)) (x0 x1 x2 x3 x4 x5 x6 x7 x8 : ℚ) (vname sym : List Char)
    (hs : Py.dictGet n2s vname = some sym) (s1 s2 s3 s4 s5 s6 : FStr ℚ) :
    Src.Constraints.UFormula_term n2s [x0, x1, x2, x3, x4, x5, x6, x7, x8] vname (udict s1 s2 s3 s4 s5 s6) 5 =
      some (udict s1 s2 s3 s4 s5 (s6 ++ [FPiece.term x5 sym])) := by
  simp only [Src.Constraints.UFormula_term, getIdx_nat, hs, idx2U_5, upd23, Option.bind_some, List.getElem?_cons_zero,
    List.getElem?_cons_succ]
theorem uterm_8 (n2s : List (List Char × List Char)) (x0 x1 x2 x3 x4 x5 x6 x7 x8 : ℚ) (vname sym : List Char)
    (hs : Py.dictGet n2s vname = some sym) (s1 s2 s3 s4 s5 s6 : FStr ℚ) :
    Src.Constraints.UFormula_term n2s [x0, x1, x2, x3, x4, x5, x6, x7, x8] vname (udict s1 s2 s3 s4 s5 s6) 8 =
      some (udict s1 s2 (s3 ++ [FPiece.term x8 sym]) s4 s5 s6) := by
  simp only [Src.Constraints.UFormula_term, getIdx_nat, hs, idx2U_8, upd33, Option.bind_some, List.getElem?_cons_zero,
    List.getElem?_cons_succ]

theorem ite_some_some {β : Type} (c : Prop) [Decidable c] (a b : β) : (if c then some a else some b) = some (if c then a else b) := by
  split <;> rfl
theorem udict_ite1 (c : Prop) [Decidable c] (a b s2 s3 s4 s5 s6 : FStr ℚ) :
    (if c then udict a s2 s3 s4 s5 s6 else udict b s2 s3 s4 s5 s6) = udict (if c then a else b) s2 s3 s4 s5 s6 := by split <;> rfl
theorem udict_ite2 (c : Prop) [Decidable c] (a b s1 s3 s4 s5 s6 : FStr ℚ) :
    (if c then udict s1 a s3 s4 s5 s6 else udict s1 b s3 s4 s5 s6) = udict s1 (if c then a else b) s3 s4 s5 s6 := by split <;> rfl
theorem udict_ite3 (c : Prop) [Decidable c] (a b s1 s2 s4 s5 s6 : FStr ℚ) :
    (if c then udict s1 s2 a s4 s5 s6 else udict s1 s2 b s4 s5 s6) = udict s1 s2 (if c then a else b) s4 s5 s6 := by split <;> rfl
theorem udict_ite4 (c : Prop) [Decidable c] (a b s1 s2 s3 s5 s6 : FStr ℚ) :
    (if c then udict s1 s2 s3 a s5 s6 else udict s1 s2 s3 b s5 s6) = udict s1 s2 s3 (if c then a else b) s5 s6 := by split <;> rfl
theorem udict_ite5 (c : Prop) [Decidable c] (a b s1 s2 s3 s4 s6 : FStr ℚ) :
    (if c then udict s1 s2 s3 s4 a s6 else udict s1 s2 s3 s4 b s6) = udict s1 s2 s3 s4 (if c then a else b) s6 := by split <;> rfl
theorem udict_ite6 (c : Prop) [Decidable c] (a b s1 s2 s3 s4 s5 : FStr ℚ) :
    (if c then udict s1 s2 s3 s4 s5 a else udict s1 s2 s3 s4 s5 b) = udict s1 s2 s3 s4 s5 (if c then a else b) := by split <;> rfl
theorem append_ite (x : ℚ) (s t : FStr ℚ) : (if ¬x = 0 then s ++ t else s) = s ++ (if x = 0 then [] else t) := by
  by_cases h : x = 0 <;> simp [h]

/-- one iteration of the loop over `zip(Usrotated, self.Uparameters)` for a symmetric rotated tensor -/
theorem uterms_step (n2s : List (List Char × List Char)) (s1 s2 s3 s4 s5 s6 : FStr ℚ) (Usr : M3 ℚ) (vname sym : List Char) (val : ℚ)
    (hs : Py.dictGet n2s vname = some sym) (hsym : (toMat Usr).isSymm) :
    Src.Constraints.UFormula_terms n2s (udict s1 s2 s3 s4 s5 s6) (Usr, (vname, val)) =
      some (udict (s1 ++ uAdd (toMat Usr).a11 sym) (s2 ++ uAdd (toMat Usr).a22 sym) (s3 ++ uAdd (toMat Usr).a33 sym)
        (s4 ++ uAdd (toMat Usr).a12 sym) (s5 ++ uAdd (toMat Usr).a13 sym) (s6 ++ uAdd (toMat Usr).a23 sym)) := by
  obtain ⟨⟨u1, u2, u3⟩, ⟨u4, u5, u6⟩, ⟨u7, u8, u9⟩⟩ := Usr
  obtain ⟨h12, h13, h23⟩ := hsym
  simp only [toMat] at h12 h13 h23
  subst h12 h13 h23
  unfold Src.Constraints.UFormula_terms
  have hassert : (!(Np.allM (Np.eqM ((u1, u2, u3), (u2, u5, u6), (u3, u6, u9)) (Np.transpose ((u1, u2, u3), (u2, u5, u6), (u3, u6, u9)))))) = false := by
    simp [Np.allM, Np.eqM, Np.zipM3, Np.zip3, Np.transpose, Np.all]
  simp only [hassert, Bool.false_eq_true, if_false]
  have hflat : Np.flatten (Np.subM ((u1, u2, u3), (u2, u5, u6), (u3, u6, u9)) (Np.tril1 ((u1, u2, u3), (u2, u5, u6), (u3, u6, u9)))) =
      [u1, u2, u3, 0, u5, u6, 0, 0, u9] := by
    simp [Np.flatten, Np.subM, Np.tril1, Np.zipM3, Np.zip3, Np.toList3]
  rw [hflat]
  simp only [Np.whereNZ, whereL_eq, List.map_cons, List.map_nil, whereFrom_cons, forM_append, forM_ite]
  simp only [ne_eq, not_true_eq_false, decide_false, Bool.false_eq_true, if_false, Option.bind_some, whereFrom, List.length_nil,
    List.range'_zero, List.zip_nil_left, List.filterMap_nil, forM_nil, toMat, uAdd]
  simp only [Nat.zero_add, Nat.reduceAdd, uterm_0 n2s _ _ _ _ _ _ _ _ _ vname sym hs, uterm_1 n2s _ _ _ _ _ _ _ _ _ vname sym hs,
    uterm_2 n2s _ _ _ _ _ _ _ _ _ vname sym hs, uterm_4 n2s _ _ _ _ _ _ _ _ _ vname sym hs, uterm_5 n2s _ _ _ _ _ _ _ _ _ vname sym hs,
    uterm_8 n2s _ _ _ _ _ _ _ _ _ vname sym hs, decide_eq_true_eq, ite_some_some, Option.bind_some, udict_ite1, udict_ite2, udict_ite3,
    udict_ite4, udict_ite5, udict_ite6, append_ite]
  congr!


theorem uterms_fold (n2s : List (List Char × List Char)) : ∀ (l : List (M3 ℚ × (List Char × ℚ))) (s1 s2 s3 s4 s5 s6 : FStr ℚ),
    (∀ e ∈ l, (Py.dictGet n2s e.2.1).isSome) → (∀ e ∈ l, (toMat e.1).isSymm) →
    Py.forM l (udict s1 s2 s3 s4 s5 s6) (Src.Constraints.UFormula_terms n2s) =
      some (udict (s1 ++ l.flatMap fun e => uAdd (toMat e.1).a11 (symD n2s e.2.1)) (s2 ++ l.flatMap fun e => uAdd (toMat e.1).a22 (symD n2s e.2.1))
        (s3 ++ l.flatMap fun e => uAdd (toMat e.1).a33 (symD n2s e.2.1)) (s4 ++ l.flatMap fun e => uAdd (toMat e.1).a12 (symD n2s e.2.1))
        (s5 ++ l.flatMap fun e => uAdd (toMat e.1).a13 (symD n2s e.2.1)) (s6 ++ l.flatMap fun e => uAdd (toMat e.1).a23 (symD n2s e.2.1)))
  | [], s1, s2, s3, s4, s5, s6, _, _ => by simp
  | (Usr, (vname, val)) :: l, s1, s2, s3, s4, s5, s6, h, hsy => by
    have hs := h (Usr, (vname, val)) (List.mem_cons_self ..)
    obtain ⟨sym, hsym⟩ := Option.isSome_iff_exists.1 hs
    rw [forM_cons, uterms_step n2s s1 s2 s3 s4 s5 s6 Usr vname sym val hsym (hsy _ (List.mem_cons_self ..)), Option.bind_some,
      uterms_fold n2s l _ _ _ _ _ _ (fun e he => h e (List.mem_cons_of_mem _ he)) (fun e he => hsy e (List.mem_cons_of_mem _ he))]
    simp only [List.flatMap_cons, List.append_assoc, symD, hsym, Option.getD_some]

theorem flatMap_uAdd (n2s : List (List Char × List Char)) (R : M3 ℚ) (ent : Mat3 ℚ → ℚ) (s : List Char)
    (hent : ∀ B, Con.entryU B s = ent B) : ∀ (bs : List (M3 ℚ)) (pars : List (List Char × ℚ)),
    ((bs.map fun Us => Np.matmul R (Np.matmul Us (Np.transpose R))).zip pars).flatMap (fun e => uAdd (ent (toMat e.1)) (symD n2s e.2.1)) =
      Con.uPieces1 ((bs.map toMat).map (Con.rotT (toMat R))) (pars.map fun p => symD n2s p.1) s
  | [], _ => by simp [Con.uPieces1]
  | _ :: _, [] => by simp [Con.uPieces1]
  | b :: bs, p :: pars => by
    have ih := flatMap_uAdd n2s R ent s hent bs pars
    rw [List.map_cons, List.zip_cons_cons, List.flatMap_cons, ih]
    unfold Con.uPieces1
    rw [List.map_cons, List.map_cons, List.map_cons, List.zip_cons_cons, List.filterMap_cons]
    simp only [toMat_rot, hent, uAdd]
    by_cases h : ent (Con.rotT (toMat R) (toMat b)) = 0 <;> simp [h]

theorem dictFromKeys_std : Py.dictFromKeys Src.Constraints.stdUsymbols ([] : FStr ℚ) = udict [] [] [] [] [] [] := by
  simp [Py.dictFromKeys, Py.dictSet, Py.dictHas, Py.dictGet, Src.Constraints.stdUsymbols, udict]

/-- **`UFormula`, numeric content.**  When the lookup finds the equivalent site with rotation `R`, the basis tensors are symmetric
and every parameter name is a key of `name2sym`, the returned dictionary is `Con.uPieces [R B_k Rᵀ] symbols`: for each of the six
standard entries a term for every parameter whose rotated basis tensor `R B_k Rᵀ` has a non-zero entry there (the upper triangle
only: off-diagonal entries are not counted twice), carrying the caller's symbol of that parameter's name.  An empty list is printed
as `"0"`. -/
theorem UFormula_eq (g : GenSite ℚ) (pos : V3 ℚ) (syms : List (List Char)) (eqpos : V3 ℚ) (R : M3 ℚ)
    (hf : Src.Constraints.findEquivalent g pos = some (some (eqpos, R)))
    (hsy : ∀ B ∈ g.Uspace, (toMat B).isSymm)
    (hn : ∀ p ∈ g.Uparameters, (Py.dictGet (Py.dictZip Src.Constraints.stdUsymbols syms) p.1).isSome) :
    Src.Constraints.UFormula g pos syms =
      some (Con.uPieces ((g.Uspace.map toMat).map (Con.rotT (toMat R)))
        (g.Uparameters.map fun p => symD (Py.dictZip Src.Constraints.stdUsymbols syms) p.1)) := by
  unfold Src.Constraints.UFormula
  rw [hf]
  simp only [Option.bind_some, dictFromKeys_std]
  have hn' : ∀ e ∈ (g.Uspace.map fun Us => Np.matmul R (Np.matmul Us (Np.transpose R))).zip g.Uparameters,
      (Py.dictGet (Py.dictZip Src.Constraints.stdUsymbols syms) e.2.1).isSome := by
    intro e he
    exact hn e.2 (List.of_mem_zip he).2
  have hsy' : ∀ e ∈ (g.Uspace.map fun Us => Np.matmul R (Np.matmul Us (Np.transpose R))).zip g.Uparameters,
      (toMat e.1).isSymm := by
    intro e he
    obtain ⟨B, hB, hBe⟩ := List.mem_map.1 (List.of_mem_zip he).1
    rw [← hBe, toMat_rot]
    exact DS.Props.C06.rotT_symm _ _ (hsy B hB)
  rw [uterms_fold _ _ _ _ _ _ _ _ hn' hsy']
  simp only [List.nil_append, Con.uPieces, List.map_cons, List.map_nil, udict,
    flatMap_uAdd _ R (fun B => B.a11) U11 (fun _ => rfl), flatMap_uAdd _ R (fun B => B.a22) U22 (fun _ => rfl),
    flatMap_uAdd _ R (fun B => B.a33) U33 (fun _ => rfl), flatMap_uAdd _ R (fun B => B.a12) U12 (fun _ => rfl),
    flatMap_uAdd _ R (fun B => B.a13) U13 (fun _ => rfl), flatMap_uAdd _ R (fun B => B.a23) U23 (fun _ => rfl)]

/-- the pieces of entry `s` denote that entry of the rotated tensor `R (Σ c_k B_k) Rᵀ` (`DS.Props.C06.Uformula_eval`) -/
theorem evalPieces_uPieces (env : List Char → ℚ) (s : List Char) : ∀ (rot : List (Mat3 ℚ)) (syms : List (List Char)),
    Con.evalPieces env (Con.uPieces1 rot syms s) = Con.entryU (Con.lincombT (syms.map env) rot) s
  | [], syms => by
    have hz : Con.entryU (Mat3.zero : Mat3 ℚ) s = 0 := by unfold Con.entryU; split_ifs <;> rfl
    cases syms <;> simp [Con.uPieces1, Con.evalPieces, Con.lincombT, hz]
  | _ :: _, [] => by
    have hz : Con.entryU (Mat3.zero : Mat3 ℚ) s = 0 := by unfold Con.entryU; split_ifs <;> rfl
    simp [Con.uPieces1, Con.evalPieces, Con.lincombT, hz]
  | B :: rot, c :: syms => by
    have ih := evalPieces_uPieces env s rot syms
    unfold Con.uPieces1 at ih ⊢
    rw [List.zip_cons_cons, List.filterMap_cons, List.map_cons]
    have hadd : Con.entryU (Con.lincombT (env c :: syms.map env) (B :: rot)) s =
        env c * Con.entryU B s + Con.entryU (Con.lincombT (syms.map env) rot) s := by
      show Con.entryU ((Mat3.smul (env c) B).add _) s = _
      unfold Con.entryU
      split_ifs <;> rfl
    rw [hadd, ← ih]
    by_cases h : Con.entryU B s = 0
    · simp [h]
    · simp [h, Con.evalPieces]; ring

set_option linter.unusedSectionVars false
set_option linter.unusedVariables false
variable {α : Type} [Field α] [LinearOrder α] [IsStrictOrderedRing α] [FloorRing α]

/-! ### 8. `_findConstraints`: the greedy orbit partition `Partition.partRel` -/

/-- what the partition loop needs to know about `GeneratorSite` for the listed positions (`dom`): construction succeeds, the
parameter names are standard ones, `positionFormula` is empty exactly for the positions that are not related (`rel`), and for a
related position the other calls succeed and the position is left where it is -/
structure GenOK (mk : V3 α → M3 α → Option (GenSite α)) (rel : V3 α → V3 α → Bool) (dom : V3 α → Prop) : Prop where
  mk_ok : ∀ p u, dom p → ∃ g, mk p u = some g
  pnames : ∀ p u g, dom p → mk p u = some g → ∀ kv ∈ g.pparameters, kv.1 ∈ ([['x'], ['y'], ['z']] : List (List Char))
  unames : ∀ p u g, dom p → mk p u = some g → ∀ kv ∈ g.Uparameters, kv.1 ∈ (Src.Constraints.stdUsymbols : List (List Char))
  formula : ∀ p u g q syms, dom p → dom q → mk p u = some g → syms.length = 3 →
    ∃ f, Src.Constraints.positionFormula g q syms = some f ∧ f.isEmpty = !rel p q
  adopt : ∀ p u g q syms, dom p → dom q → mk p u = some g → syms.length = 6 → rel p q = true →
    (∃ uf, Src.Constraints.UFormula g q syms = some uf) ∧
    ∃ j e ue, Src.Constraints.eqIndex g q = some j ∧ g.eqxyz[j]? = some e ∧ g.eqUij[j]? = some ue ∧
      Np.add q (Np.sub (Np.sub e q) (Np.round (Np.sub e q))) = q

theorem index_chars (k : List Char) (hk : k ∈ ([['x'], ['y'], ['z']] : List (List Char))) :
    ∃ j, Py.index? (Py.chars ['x', 'y', 'z']) k = some j ∧ j < 3 := by
  simp only [List.mem_cons, List.not_mem_nil, or_false] at hk
  rcases hk with rfl | rfl | rfl
  · exact ⟨0, by decide, by decide⟩
  · exact ⟨1, by decide, by decide⟩
  · exact ⟨2, by decide, by decide⟩

theorem index_std (k : List Char) (hk : k ∈ (Src.Constraints.stdUsymbols : List (List Char))) :
    ∃ j, Py.index? Src.Constraints.stdUsymbols k = some j ∧ j < 6 := by
  simp only [Src.Constraints.stdUsymbols, List.mem_cons, List.not_mem_nil, or_false] at hk
  rcases hk with rfl | rfl | rfl | rfl | rfl | rfl
  · exact ⟨0, by decide, by decide⟩
  · exact ⟨1, by decide, by decide⟩
  · exact ⟨2, by decide, by decide⟩
  · exact ⟨3, by decide, by decide⟩
  · exact ⟨4, by decide, by decide⟩
  · exact ⟨5, by decide, by decide⟩

theorem pospars_ok (gxyz : List (List Char)) (hl : gxyz.length = 3) : ∀ (l : List (List Char × α)) (acc : List (List Char × α)),
    (∀ kv ∈ l, kv.1 ∈ ([['x'], ['y'], ['z']] : List (List Char))) →
    ∃ r, Py.forM l acc (Src.Constraints.findConstraints_pospars gxyz) = some r
  | [], acc, _ => ⟨acc, rfl⟩
  | kv :: l, acc, h => by
    obtain ⟨j, hj, hj3⟩ := index_chars kv.1 (h kv (List.mem_cons_self ..))
    have hg : gxyz[j]? = some gxyz[j] := List.getElem?_eq_getElem (by omega)
    rw [forM_cons]
    unfold Src.Constraints.findConstraints_pospars
    simp only [hj, Option.bind_some, getIdx_nat, hg]
    exact pospars_ok gxyz hl l _ (fun kv' h' => h kv' (List.mem_cons_of_mem _ h'))

theorem Upars_ok (gU : List (List Char)) (hl : gU.length = 6) : ∀ (l : List (List Char × α)) (acc : List (List Char × α)),
    (∀ kv ∈ l, kv.1 ∈ (Src.Constraints.stdUsymbols : List (List Char))) →
    ∃ r, Py.forM l acc (Src.Constraints.findConstraints_Upars gU) = some r
  | [], acc, _ => ⟨acc, rfl⟩
  | kv :: l, acc, h => by
    obtain ⟨j, hj, hj6⟩ := index_std kv.1 (h kv (List.mem_cons_self ..))
    have hg : gU[j]? = some gU[j] := List.getElem?_eq_getElem (by omega)
    rw [forM_cons]
    unfold Src.Constraints.findConstraints_Upars
    simp only [hj, Option.bind_some, getIdx_nat, hg]
    exact Upars_ok gU hl l _ (fun kv' h' => h kv' (List.mem_cons_of_mem _ h'))

theorem length_flatMap_const {β γ : Type} (F : β → List γ) (m : Nat) (hF : ∀ i, (F i).length = m) (l : List β) :
    (l.flatMap F).length = m * l.length := by
  induction l with
  | nil => simp
  | cons x xs ih => rw [List.flatMap_cons, List.length_append, ih, hF, List.length_cons]; ring

theorem slice_length {β : Type} (l : List β) (m g n : Nat) (hl : l.length = m * n) (hg : g < n) :
    (Py.slice l (m * g) (m * (g + 1))).length = m := by
  unfold Py.slice
  rw [List.length_take, List.length_drop, hl]
  have : m * (g + 1) - m * g = m := by rw [Nat.mul_succ]; omega
  rw [this]
  have : m * (g + 1) ≤ m * n := Nat.mul_le_mul_left m hg
  rw [Nat.mul_succ] at this
  omega

/-- the state of the loop over `indies` for the generator `g`: positions untouched, `independent = ind`,
`coremap = acc ++ [(g, mem)]`, the per-site lists keep their length -/
structure InnerInv (P : List (V3 α)) (n g : Nat) (acc : List (Nat × List Nat)) (ind mem : List Nat) (st : FCSt α) : Prop where
  pos : st.positions = P
  ind : st.independent = ind
  cm : st.coremap = acc ++ [(g, mem)]
  lU : st.Uijs.length = n
  lp : st.poseqns.length = n
  lu : st.Ueqns.length = n
  li : st.Uisotropy.length = n

theorem inner_step {mk : V3 α → M3 α → Option (GenSite α)} {rel : V3 α → V3 α → Bool} {dom : V3 α → Prop}
    (hok : GenOK mk rel dom) {P : List (V3 α)} {n g : Nat} (hP : P.length = n) (hdom : ∀ p ∈ P, dom p)
    {acc : List (Nat × List Nat)} (hfresh : Py.dictHas acc g = false) {ind mem : List Nat} {st : FCSt α}
    (hinv : InnerInv P n g acc ind mem st) {gen : GenSite α} {p : V3 α} {u : M3 α} (hp : p ∈ P) (hgen : mk p u = some gen)
    (s3 s6 : List (List Char)) (h3 : s3.length = 3) (h6 : s6.length = 6) (j : Nat) (hj : j < n) (hji : j ∈ ind) :
    ∃ st', Src.Constraints.findConstraints_inner gen g s3 s6 st j = some st' ∧
      InnerInv P n g acc (if rel p (P.getD j p) then ind.filter (fun y => y != j) else ind)
        (if rel p (P.getD j p) then mem ++ [j] else mem) st' := by
  have hjP : j < P.length := by omega
  have hq : P[j]? = some P[j] := List.getElem?_eq_getElem hjP
  have hgd : P.getD j p = P[j] := by rw [List.getD_eq_getElem?_getD, hq]; rfl
  have hdq : dom P[j] := hdom _ (List.getElem_mem hjP)
  obtain ⟨f, hf, hfe⟩ := hok.formula p u gen P[j] s3 (hdom p hp) hdq hgen h3
  unfold Src.Constraints.findConstraints_inner
  rw [getIdx_nat, hinv.pos, hq]
  simp only [Option.bind_some, hf, hgd]
  by_cases hr : rel p P[j] = true
  · have hfe' : f.isEmpty = false := by rw [hfe, hr]; rfl
    obtain ⟨⟨uf, huf⟩, jj, e, ue, hjj, he, hue, hstable⟩ := hok.adopt p u gen P[j] s6 (hdom p hp) hdq hgen h6 hr
    have hmem : st.independent.contains j = true := by rw [hinv.ind]; simpa using hji
    simp only [hfe', Bool.false_eq_true, if_false, Py.setRemove, hmem, if_true, Option.bind_some, hinv.cm,
      dictUpd_last acc g mem _ hfresh, huf, hjj, getIdx_nat, he, hue, hstable, hr]
    rw [listSet_eq _ _ _ (by rw [hinv.lp]; exact hj), listSet_eq _ _ _ (by rw [hinv.lu]; exact hj),
      listSet_eq _ _ _ hjP, listSet_eq _ _ _ (by rw [hinv.lU]; exact hj),
      listSet_eq _ _ _ (by rw [hinv.li]; exact hj)]
    simp only [Option.bind_some]
    refine ⟨_, rfl, ?_⟩
    constructor
    · show P.set j P[j] = P
      exact List.set_getElem_self hjP
    · show st.independent.filter (fun y => y != j) = _
      rw [hinv.ind]
    · rfl
    · show (st.Uijs.set j ue).length = n
      rw [List.length_set, hinv.lU]
    · show (st.poseqns.set j (some f)).length = n
      rw [List.length_set, hinv.lp]
    · show (st.Ueqns.set j (some uf)).length = n
      rw [List.length_set, hinv.lu]
    · show (st.Uisotropy.set j gen.Uisotropy).length = n
      rw [List.length_set, hinv.li]
  · have hr' : rel p P[j] = false := by simpa using hr
    have hfe' : f.isEmpty = true := by rw [hfe, hr']; rfl
    simp only [hfe', if_true, hr', Bool.false_eq_true, if_false]
    exact ⟨st, rfl, hinv⟩


theorem filt1 (r : Nat → Bool) (j : Nat) (todo ind : List Nat) :
    (if r j then ind.filter (fun y => y != j) else ind).filter (fun y => !(todo.contains y && r y)) =
      ind.filter fun y => !((j :: todo).contains y && r y) := by
  by_cases hr : r j = true
  · rw [if_pos hr, List.filter_filter]
    apply List.filter_congr
    intro y _
    by_cases hy : y = j
    · subst hy; simp [hr]
    · simp [hy]
  · rw [if_neg hr]
    apply List.filter_congr
    intro y _
    by_cases hy : y = j
    · subst hy
      have : r y = false := by simpa using hr
      simp [this]
    · simp [hy]

theorem filt2 (r : Nat → Bool) (j : Nat) (todo mem : List Nat) :
    (if r j then mem ++ [j] else mem) ++ todo.filter r = mem ++ (j :: todo).filter r := by
  by_cases hr : r j = true
  · simp [hr]
  · have : r j = false := by simpa using hr
    simp [this]

theorem inner_fold {mk : V3 α → M3 α → Option (GenSite α)} {rel : V3 α → V3 α → Bool} {dom : V3 α → Prop}
    (hok : GenOK mk rel dom) {P : List (V3 α)} {n g : Nat} (hP : P.length = n) (hdom : ∀ p ∈ P, dom p)
    {acc : List (Nat × List Nat)} (hfresh : Py.dictHas acc g = false)
    {gen : GenSite α} {p : V3 α} {u : M3 α} (hp : p ∈ P) (hgen : mk p u = some gen)
    (s3 s6 : List (List Char)) (h3 : s3.length = 3) (h6 : s6.length = 6) :
    ∀ (todo ind mem : List Nat) (st : FCSt α), InnerInv P n g acc ind mem st → (∀ j ∈ todo, j < n ∧ j ∈ ind) → todo.Nodup →
      ∃ st', Py.forM todo st (Src.Constraints.findConstraints_inner gen g s3 s6) = some st' ∧
        InnerInv P n g acc (ind.filter fun y => !(todo.contains y && rel p (P.getD y p)))
          (mem ++ todo.filter fun j => rel p (P.getD j p)) st'
  | [], ind, mem, st, hinv, _, _ => by
    refine ⟨st, rfl, ?_⟩
    simpa using hinv
  | j :: todo, ind, mem, st, hinv, hmem, hnd => by
    obtain ⟨hjn, hji⟩ := hmem j (List.mem_cons_self ..)
    obtain ⟨st1, h1, hinv1⟩ := inner_step hok hP hdom hfresh hinv hp hgen s3 s6 h3 h6 j hjn hji
    rw [List.nodup_cons] at hnd
    have hmem1 : ∀ j' ∈ todo, j' < n ∧ j' ∈ (if rel p (P.getD j p) then ind.filter (fun y => y != j) else ind) := by
      intro j' hj'
      obtain ⟨a, b⟩ := hmem j' (List.mem_cons_of_mem _ hj')
      refine ⟨a, ?_⟩
      split
      · rw [List.mem_filter]
        refine ⟨b, ?_⟩
        have : j' ≠ j := fun e => hnd.1 (e ▸ hj')
        simpa using this
      · exact b
    obtain ⟨st2, h2, hinv2⟩ := inner_fold hok hP hdom hfresh hp hgen s3 s6 h3 h6 todo _ _ st1 hinv1 hmem1 hnd.2
    refine ⟨st2, by rw [forM_cons, h1]; exact h2, ?_⟩
    have e1 := filt1 (fun y => rel p (P.getD y p)) j todo ind
    have e2 := filt2 (fun y => rel p (P.getD y p)) j todo mem
    rw [e1, e2] at hinv2
    exact hinv2

/-- the state of the loop over `genidx`: positions untouched, `independent = L`, `coremap = acc` -/
structure OuterInv (P : List (V3 α)) (n : Nat) (L : List Nat) (acc : List (Nat × List Nat)) (st : FCSt α) : Prop where
  pos : st.positions = P
  ind : st.independent = L
  cm : st.coremap = acc
  lU : st.Uijs.length = n
  lp : st.poseqns.length = n
  lu : st.Ueqns.length = n
  li : st.Uisotropy.length = n

/-- `rel` on the listed positions, by index -/
def relI (rel : V3 α → V3 α → Bool) (P : List (V3 α)) (i j : Nat) : Bool :=
  match P[i]?, P[j]? with
  | some a, some b => rel a b
  | _, _ => false

theorem partRel_nil (rel : Nat → Nat → Bool) (fuel : Nat) : Partition.partRel rel fuel [] = [] := by
  cases fuel <;> rfl

def xyzsymbolsOf (n : Nat) : List (List Char) :=
  (List.range n).flatMap fun i => (Py.chars ['x', 'y', 'z']).map fun smbl => smbl ++ Py.strNat i
def UsymbolsOf (n : Nat) : List (List Char) :=
  (List.range n).flatMap fun i => Src.Constraints.stdUsymbols.map fun smbl => smbl ++ Py.strNat i

theorem xyzsymbols_length (n : Nat) : (xyzsymbolsOf n).length = 3 * n := by
  unfold xyzsymbolsOf
  rw [length_flatMap_const _ 3 (fun i => by simp [Py.chars]), List.length_range]
theorem Usymbols_length (n : Nat) : (UsymbolsOf n).length = 6 * n := by
  unfold UsymbolsOf
  rw [length_flatMap_const _ 6 (fun i => by simp [Src.Constraints.stdUsymbols]), List.length_range]

theorem outer_step {mk : V3 α → M3 α → Option (GenSite α)} {rel : V3 α → V3 α → Bool} {dom : V3 α → Prop}
    (hok : GenOK mk rel dom) (hrefl : ∀ p, dom p → rel p p = true) {P : List (V3 α)} {n : Nat} (hP : P.length = n)
    (hdom : ∀ p ∈ P, dom p) {g : Nat} (hg : g < n) {L : List Nat} {acc : List (Nat × List Nat)} {st : FCSt α}
    (hinv : OuterInv P n L acc st) (hsort : L.Pairwise (· < ·)) (hL : ∀ x ∈ L, g ≤ x ∧ x < n) (hacc : ∀ k ∈ acc.map (·.1), k < g) :
    ∃ st', Src.Constraints.findConstraints_outer mk (xyzsymbolsOf n) (UsymbolsOf n) st g = some st' ∧
      ((g ∉ L ∧ OuterInv P n L acc st') ∨
       (∃ rest, L = g :: rest ∧ OuterInv P n (rest.filter fun j => !relI rel P g j)
          (acc ++ [(g, g :: rest.filter fun j => relI rel P g j)]) st')) := by
  unfold Src.Constraints.findConstraints_outer
  by_cases hgL : g ∈ L
  · -- a generator
    obtain ⟨rest, rfl⟩ : ∃ rest, L = g :: rest := by
      cases L with
      | nil => simp at hgL
      | cons x rest =>
        rw [List.pairwise_cons] at hsort
        rcases List.mem_cons.1 hgL with rfl | h
        · exact ⟨rest, rfl⟩
        · have h1 := (hL x (List.mem_cons_self ..)).1
          have h2 := hsort.1 g h
          omega
    have hc : st.independent.contains g = true := by rw [hinv.ind]; simp
    have hgP : g < P.length := by omega
    have hfresh : Py.dictHas acc g = false := by
      rw [dictHas_iff_mem_keys]
      by_contra hcon
      simp only [Bool.not_eq_false, List.contains_iff_mem] at hcon
      exact absurd (hacc g hcon) (lt_irrefl _)
    have hgU : g < st.Uijs.length := by rw [hinv.lU]; exact hg
    obtain ⟨gen, hgen⟩ := hok.mk_ok P[g] st.Uijs[g] (hdom _ (List.getElem_mem hgP))
    have h3 := slice_length (xyzsymbolsOf n) 3 g n (xyzsymbols_length n) hg
    have h6 := slice_length (UsymbolsOf n) 6 g n (Usymbols_length n) hg
    obtain ⟨pp, hpp⟩ := pospars_ok _ h3 gen.pparameters st.pospars (hok.pnames _ _ _ (hdom _ (List.getElem_mem hgP)) hgen)
    obtain ⟨up, hup⟩ := Upars_ok _ h6 gen.Uparameters st.Upars (hok.unames _ _ _ (hdom _ (List.getElem_mem hgP)) hgen)
    have hgP' : st.positions[g]? = some P[g] := by rw [hinv.pos]; exact List.getElem?_eq_getElem hgP
    have hsorted : Py.sortedNat st.independent = g :: rest := by rw [hinv.ind]; exact sortedNat_of_lt _ hsort
    simp only [hc, Bool.not_true, Bool.false_eq_true, if_false, getIdx_nat, hgP',
      List.getElem?_eq_getElem hgU, Option.bind_some, hgen, hpp, hup, hsorted]
    have hinv0 : InnerInv P n g acc (g :: rest) []
        { st with coremap := Py.dictSet st.coremap g [], pospars := pp, Upars := up } := by
      refine ⟨hinv.pos, hinv.ind, ?_, hinv.lU, hinv.lp, hinv.lu, hinv.li⟩
      show Py.dictSet st.coremap g [] = acc ++ [(g, [])]
      rw [hinv.cm, dictSet_fresh _ _ _ hfresh]
    have hnd : (g :: rest).Nodup := hsort.imp (fun h => Nat.ne_of_lt h)
    obtain ⟨st', hst', hinv'⟩ := inner_fold hok hP hdom hfresh (List.getElem_mem hgP) hgen _ _ h3 h6 (g :: rest) (g :: rest) [] _ hinv0
      (fun j hj => ⟨(hL j hj).2, hj⟩) hnd
    refine ⟨st', hst', Or.inr ⟨rest, rfl, ?_⟩⟩
    have hrel : ∀ j ∈ g :: rest, rel P[g] (P.getD j P[g]) = relI rel P g j := by
      intro j hj
      have hjn : j < P.length := by have := (hL j hj).2; omega
      unfold relI
      rw [List.getElem?_eq_getElem hgP, List.getElem?_eq_getElem hjn, List.getD_eq_getElem?_getD, List.getElem?_eq_getElem hjn]
      rfl
    have hgg : relI rel P g g = true := by
      rw [← hrel g (List.mem_cons_self ..), List.getD_eq_getElem?_getD, List.getElem?_eq_getElem hgP]
      exact hrefl _ (hdom _ (List.getElem_mem hgP))
    have e1 : ((g :: rest).filter fun y => !((g :: rest).contains y && rel P[g] (P.getD y P[g]))) =
        rest.filter fun j => !relI rel P g j := by
      rw [List.filter_congr (q := fun j => !relI rel P g j)]
      · rw [List.filter_cons]
        simp [hgg]
      · intro y hy
        rw [hrel y hy]
        have : (g :: rest).contains y = true := by simpa using hy
        rw [this, Bool.true_and]
    have e2 : ([] ++ (g :: rest).filter fun j => rel P[g] (P.getD j P[g])) = g :: rest.filter fun j => relI rel P g j := by
      rw [List.nil_append, List.filter_congr (q := fun j => relI rel P g j) (fun y hy => hrel y hy), List.filter_cons]
      simp [hgg]
    rw [e1, e2] at hinv'
    exact ⟨hinv'.pos, hinv'.ind, hinv'.cm, hinv'.lU, hinv'.lp, hinv'.lu, hinv'.li⟩
  · have hc : st.independent.contains g = false := by rw [hinv.ind]; simpa using hgL
    simp only [hc, Bool.not_false, if_true]
    exact ⟨st, rfl, Or.inl ⟨hgL, hinv⟩⟩


theorem outer_fold {mk : V3 α → M3 α → Option (GenSite α)} {rel : V3 α → V3 α → Bool} {dom : V3 α → Prop}
    (hok : GenOK mk rel dom) (hrefl : ∀ p, dom p → rel p p = true) {P : List (V3 α)} {n : Nat} (hP : P.length = n)
    (hdom : ∀ p ∈ P, dom p) :
    ∀ (m g : Nat), g + m = n → ∀ (L : List Nat) (acc : List (Nat × List Nat)) (st : FCSt α) (fuel : Nat),
      OuterInv P n L acc st → L.Pairwise (· < ·) → (∀ x ∈ L, g ≤ x ∧ x < n) → (∀ k ∈ acc.map (·.1), k < g) → L.length ≤ fuel →
      ∃ st', Py.forM (List.range' g m) st (Src.Constraints.findConstraints_outer mk (xyzsymbolsOf n) (UsymbolsOf n)) = some st' ∧
        OuterInv P n [] (acc ++ Partition.partRel (relI rel P) fuel L) st'
  | 0, g, hgm, L, acc, st, fuel, hinv, _, hL, _, _ => by
    have hLnil : L = [] := by
      cases L with
      | nil => rfl
      | cons x xs => have := hL x (List.mem_cons_self ..); omega
    subst hLnil
    refine ⟨st, rfl, ?_⟩
    rw [partRel_nil, List.append_nil]
    exact hinv
  | m + 1, g, hgm, L, acc, st, fuel, hinv, hsort, hL, hacc, hfuel => by
    have hg : g < n := by omega
    obtain ⟨st1, h1, hcase⟩ := outer_step hok hrefl hP hdom hg hinv hsort hL hacc
    rw [List.range'_succ, forM_cons, h1, Option.bind_some]
    rcases hcase with ⟨hgL, hinv1⟩ | ⟨rest, rfl, hinv1⟩
    · exact outer_fold hok hrefl hP hdom m (g + 1) (by omega) L acc st1 fuel hinv1 hsort
        (fun x hx => ⟨by
          have := (hL x hx).1
          have : x ≠ g := fun e => hgL (e ▸ hx)
          omega, (hL x hx).2⟩)
        (fun k hk => Nat.lt_succ_of_lt (hacc k hk)) hfuel
    · cases fuel with
      | zero => simp at hfuel
      | succ fuel =>
        rw [List.pairwise_cons] at hsort
        have hsub : (rest.filter fun j => !relI rel P g j).Sublist rest := List.filter_sublist
        obtain ⟨st2, h2, hinv2⟩ := outer_fold hok hrefl hP hdom m (g + 1) (by omega) _ _ st1 fuel hinv1
          (hsort.2.sublist hsub)
          (fun x hx => by
            have hx' := hsub.subset hx
            exact ⟨hsort.1 x hx', (hL x (List.mem_cons_of_mem _ hx')).2⟩)
          (fun k hk => by
            rw [List.map_append, List.mem_append] at hk
            rcases hk with hk | hk
            · exact Nat.lt_succ_of_lt (hacc k hk)
            · simp at hk; omega)
          (by
            have := hsub.length_le
            simp only [List.length_cons] at hfuel
            omega)
        refine ⟨st2, h2, ?_⟩
        have : acc ++ Partition.partRel (relI rel P) (fuel + 1) (g :: rest) =
            (acc ++ [(g, g :: rest.filter fun j => relI rel P g j)]) ++
              Partition.partRel (relI rel P) fuel (rest.filter fun j => !relI rel P g j) := by
          rw [List.append_assoc]; rfl
        rw [this]
        exact hinv2

theorem partRel_keys_sublist (r : Nat → Nat → Bool) : ∀ (fuel : Nat) (l : List Nat),
    ((Partition.partRel r fuel l).map (·.1)).Sublist l
  | 0, l => by cases l <;> simp [Partition.partRel]
  | fuel + 1, [] => by simp [Partition.partRel]
  | fuel + 1, i :: rest => by
    show (i :: (Partition.partRel r fuel (rest.filter fun j => !r i j)).map (·.1)).Sublist (i :: rest)
    exact ((partRel_keys_sublist r fuel _).trans List.filter_sublist).cons_cons i

/-- **`_findConstraints` = the greedy partition.**  Let `GeneratorSite` behave on the listed positions as `GenOK` says, with an
adoption relation `rel` that is reflexive there.  Then `_findConstraints` raises nothing, leaves the positions where they are,
empties `independent`, and `coremap` is `Partition.partRel` of the relation on the listing `0 … n−1`: the FIRST still independent
position becomes a generator, it adopts — in listing order — itself and every still independent position related to it, and
`corepos` lists the positions of the generators in increasing index order. -/
theorem findConstraints_eq {mk : V3 α → M3 α → Option (GenSite α)} {rel : V3 α → V3 α → Bool} {dom : V3 α → Prop}
    (hok : GenOK mk rel dom) (hrefl : ∀ p, dom p → rel p p = true) (P : List (V3 α)) (U : List (M3 α)) (hU : U.length = P.length)
    (hdom : ∀ p ∈ P, dom p) :
    ∃ st, Src.Constraints.findConstraints mk P U =
        some (st, (st.coremap.map (·.1)).map fun i => P.getD i (0, 0, 0)) ∧
      st.coremap = Partition.partRel (relI rel P) P.length (List.range P.length) ∧
      st.positions = P ∧ st.independent = [] := by
  let s0 : FCSt α :=
      { positions := P, Uijs := U, independent := Py.setRange P.length, coremap := [], pospars := [], Upars := [],
        poseqns := List.replicate P.length none, Ueqns := List.replicate P.length none,
        Uisotropy := List.replicate P.length false }
  have hinv0 : OuterInv P P.length (List.range P.length) [] s0 :=
    ⟨rfl, rfl, rfl, hU, by simp [s0], by simp [s0], by simp [s0]⟩
  obtain ⟨st, hst, hinv⟩ := outer_fold hok hrefl rfl hdom P.length 0 (by omega) (List.range P.length) [] s0 P.length hinv0
    (List.pairwise_lt_range) (fun x hx => ⟨Nat.zero_le _, List.mem_range.1 hx⟩) (by simp) (by simp)
  rw [List.nil_append] at hinv
  rw [← List.range_eq_range'] at hst
  have hkeys := partRel_keys_sublist (relI rel P) P.length (List.range P.length)
  have hsortedKeys : Py.sortedNat (st.coremap.map (·.1)) = st.coremap.map (·.1) := by
    rw [hinv.cm]
    exact sortedNat_of_lt _ (List.pairwise_lt_range.sublist hkeys)
  have hlt : ∀ i ∈ st.coremap.map (·.1), i < P.length := by
    intro i hi
    rw [hinv.cm] at hi
    exact List.mem_range.1 (hkeys.subset hi)
  have hmo : Py.mapOpt (fun i => Py.getIdx st.positions (Int.ofNat i)) (st.coremap.map (·.1)) =
      some ((st.coremap.map (·.1)).map fun i => P.getD i (0, 0, 0)) := by
    apply mapOpt_total
    intro i hi
    rw [getIdx_nat, hinv.pos, List.getD_eq_getElem?_getD, List.getElem?_eq_getElem (hlt i hi)]
    rfl
  refine ⟨st, ?_, hinv.cm, hinv.pos, hinv.ind⟩
  show ((Py.forM (List.range P.length) s0
      (Src.Constraints.findConstraints_outer mk (xyzsymbolsOf P.length) (UsymbolsOf P.length))).bind fun self =>
      (Py.mapOpt (fun i => Py.getIdx self.positions (Int.ofNat i)) (Py.sortedNat (self.coremap.map fun e => e.1))).bind
        fun corepos => some (self, corepos)) = _
  rw [hst, Option.bind_some, hsortedKeys, hmo, Option.bind_some]

set_option linter.unusedSectionVars false
set_option linter.unusedVariables false
variable {α : Type} [Field α] [LinearOrder α] [IsStrictOrderedRing α] [FloorRing α]

/-! ### 9. `Partition.coremap` (the model of `DS.Props.C05Partition`) is this greedy partition for the relation "same orbit" -/

theorem partAux_eq_partRel (ops : List Op) (k : Int) (positions : List P3) :
    ∀ (fuel : Nat) (l : List (Nat × P3)), (∀ e ∈ l, positions[e.1]? = some e.2) →
      Partition.partAux ops k fuel l =
        Partition.partRel (fun i j => Partition.inOrbit ops k (positions.getD i (0, 0, 0)) (positions.getD j (0, 0, 0))) fuel (l.map (·.1))
  | 0, l, _ => by cases l <;> rfl
  | fuel + 1, [], _ => rfl
  | fuel + 1, (i, p) :: rest, h => by
    have hi : positions.getD i (0, 0, 0) = p := by
      rw [List.getD_eq_getElem?_getD, h (i, p) (List.mem_cons_self ..)]; rfl
    have hrest : ∀ q ∈ rest, positions.getD q.1 (0, 0, 0) = q.2 := by
      intro q hq
      rw [List.getD_eq_getElem?_getD, h q (List.mem_cons_of_mem _ hq)]; rfl
    rw [Partition.partAux_cons, List.map_cons]
    show _ = (i, i :: (rest.map (·.1)).filter _) :: Partition.partRel _ fuel ((rest.map (·.1)).filter _)
    have e1 : (rest.map (·.1)).filter (fun j => Partition.inOrbit ops k (positions.getD i (0, 0, 0)) (positions.getD j (0, 0, 0))) =
        (rest.filter fun q => Partition.inOrbit ops k p q.2).map (·.1) := by
      rw [List.filter_map]
      congr 1
      apply List.filter_congr
      intro q hq
      simp only [Function.comp, hi, hrest q hq]
    have e2 : (rest.map (·.1)).filter (fun j => !Partition.inOrbit ops k (positions.getD i (0, 0, 0)) (positions.getD j (0, 0, 0))) =
        (rest.filter fun q => !Partition.inOrbit ops k p q.2).map (·.1) := by
      rw [List.filter_map]
      congr 1
      apply List.filter_congr
      intro q hq
      simp only [Function.comp, hi, hrest q hq]
    rw [e1, e2, partAux_eq_partRel ops k positions fuel _ (fun e he => h e (List.mem_cons_of_mem _ (List.mem_filter.1 he).1))]

/-- `Partition.coremap` — the model that `DS.Props.C05Partition` proves to be the orbit partition — is `Partition.partRel` for the
relation "listed position `j` lies in the orbit of listed position `i`" -/
theorem coremap_eq_partRel (ops : List Op) (k : Int) (positions : List P3) :
    Partition.coremap ops k positions =
      Partition.partRel (fun i j => Partition.inOrbit ops k (positions.getD i (0, 0, 0)) (positions.getD j (0, 0, 0)))
        positions.length (List.range positions.length) := by
  unfold Partition.coremap
  rw [partAux_eq_partRel ops k positions]
  · congr 1
    rw [List.map_map]
    apply List.ext_getElem
    · simp
    · intro i h1 h2
      simp
  · intro e he
    obtain ⟨pi, hpi, rfl⟩ := List.mem_map.1 he
    obtain ⟨p, i⟩ := pi
    have := List.mem_zipIdx hpi
    simp only at this ⊢
    obtain ⟨_, hlt, hp⟩ := this
    simp only [Nat.zero_add, Nat.sub_zero] at hlt hp
    rw [List.getElem?_eq_getElem hlt, hp]

set_option linter.unusedSectionVars false
set_option linter.unusedVariables false

/-! ### 10. `positionFormulas(symbols)` / `UFormulas(symbols)`: the regular-expression substitution is the homomorphic renaming -/

/-- the pattern of `positionFormulas` is `\b[xyz]\d+` -/
theorem positionFormulas_pat_eq : Src.Constraints.positionFormulas_pat = symPat ['x', 'y', 'z'] 0 := rfl
/-- the pattern of `UFormulas` is `\bU\d\d\d+` -/
theorem UFormulas_pat_eq : Src.Constraints.UFormulas_pat = symPat ['U'] 2 := rfl

/-- a formula dictionary given by its tokens -/
def renderDict (d : List (List Char × List FTok)) : List (List Char × List Char) := d.map fun e => (e.1, renderAll e.2)

/-- the renaming of one formula dictionary -/
def renameDict (fn : List Char → Option (List Char)) (d : List (List Char × List FTok)) : Option (List (List Char × List Char)) :=
  Py.mapOpt (fun e => (Py.mapOpt (tokSub fn) e.2).map fun r => (e.1, r.flatten)) d

theorem translate_items (C : List Char) (m : Nat) (trsmbl : List (List Char × List Char)) :
    ∀ (d : List (List Char × List FTok)) (acc : List (List Char × List Char)),
      (∀ e ∈ d, WFToks C m none e.2) → (d.map (·.1)).Nodup → (∀ e ∈ d, Py.dictHas acc e.1 = false) →
      Py.forM (renderDict d) acc (Src.Constraints.translateFormulas_item (symPat C m) trsmbl) =
        (renameDict (fun s => Py.dictGet trsmbl s) d).map fun r => acc ++ r
  | [], acc, _, _, _ => by simp [renderDict, renameDict, Py.mapOpt]
  | e :: d, acc, hwf, hnd, hfresh => by
    rw [List.map_cons, List.nodup_cons] at hnd
    simp only [renderDict, List.map_cons, forM_cons, Src.Constraints.translateFormulas_item, renameDict, Py.mapOpt]
    rw [sub_tokens C m _ e.2 (hwf e (List.mem_cons_self ..))]
    cases hme : Py.mapOpt (tokSub fun s => Py.dictGet trsmbl s) e.2 with
    | none => rfl
    | some r =>
      simp only [Option.map_some, Option.bind_some]
      rw [dictSet_fresh acc e.1 _ (hfresh e (List.mem_cons_self ..))]
      have ih := translate_items C m trsmbl d (acc ++ [(e.1, r.flatten)])
        (fun e' he' => hwf e' (List.mem_cons_of_mem _ he')) hnd.2
        (fun e' he' => by
          rw [dictHas_iff_mem_keys, List.map_append, List.map_cons, List.map_nil]
          have h1 := hfresh e' (List.mem_cons_of_mem _ he')
          rw [dictHas_iff_mem_keys] at h1
          have h2 : e'.1 ≠ e.1 := fun h => hnd.1 (h ▸ List.mem_map_of_mem he')
          simp only [List.contains_eq_mem, List.mem_append, List.mem_cons, List.not_mem_nil, or_false, decide_eq_false_iff_not,
            not_or] at h1 ⊢
          exact ⟨h1, h2⟩)
      simp only [renderDict, renameDict] at ih
      rw [ih]
      cases Py.mapOpt (fun e => (Py.mapOpt (tokSub fun s => Py.dictGet trsmbl s) e.2).map fun r => (e.1, r.flatten)) d <;> simp

theorem translate_all (C : List Char) (m : Nat) (trsmbl : List (List Char × List Char)) :
    ∀ (ds : List (List (List Char × List FTok))) (rv : List (List (List Char × List Char))),
      (∀ d ∈ ds, (∀ e ∈ d, WFToks C m none e.2) ∧ (d.map (·.1)).Nodup) →
      Py.forM (ds.map renderDict) rv (Src.Constraints.translateFormulas_eqns (symPat C m) trsmbl) =
        (Py.mapOpt (renameDict fun s => Py.dictGet trsmbl s) ds).map fun r => rv ++ r
  | [], rv, _ => by simp [Py.mapOpt]
  | d :: ds, rv, h => by
    obtain ⟨hwf, hnd⟩ := h d (List.mem_cons_self ..)
    simp only [List.map_cons, forM_cons, Src.Constraints.translateFormulas_eqns, Py.mapOpt]
    rw [translate_items C m trsmbl d [] hwf hnd (fun _ _ => rfl)]
    cases renameDict (fun s => Py.dictGet trsmbl s) d with
    | none => rfl
    | some r =>
      simp only [Option.map_some, Option.bind_some, List.nil_append]
      rw [translate_all C m trsmbl ds _ (fun d' hd' => h d' (List.mem_cons_of_mem _ hd'))]
      cases Py.mapOpt (renameDict fun s => Py.dictGet trsmbl s) ds <;> simp

/-- **`positionFormulas(xyzsymbols)`.**  For formula strings made of literal text without the letters `x y z` and parameter
symbols `<letter><index>` (each after a non-word character and before a non-digit) and distinct parameter symbols `pars`, the call
with at least as many caller symbols returns every dictionary with each parameter symbol replaced by the caller's symbol at the
position of exactly that (letter, index) pair in `pars` (`translation_exact`), all other text unchanged; `KeyError` (`some none`)
iff a symbol of a formula is not a parameter; `SymmetryError` (`none`) iff there are fewer caller symbols than parameters. -/
theorem positionFormulas_eq (ds : List (List (List Char × List FTok))) (pars custom : List (List Char))
    (hne : custom ≠ []) (hnd : pars.Nodup)
    (hwf : ∀ d ∈ ds, (∀ e ∈ d, WFToks ['x', 'y', 'z'] 0 none e.2) ∧ (d.map (·.1)).Nodup) :
    Src.Constraints.positionFormulas (ds.map renderDict) pars custom =
      if custom.length < pars.length then none
      else some (Py.mapOpt (renameDict fun s => Py.dictGet (pars.zip custom) s) ds) := by
  unfold Src.Constraints.positionFormulas
  have : custom.isEmpty = false := by cases custom <;> simp_all
  simp only [this, Bool.false_eq_true, if_false, positionFormulas_pat_eq, dictZip_nodup pars custom hnd]
  split
  · rfl
  · rw [translate_all _ _ _ ds [] hwf]
    cases Py.mapOpt (renameDict fun s => Py.dictGet (pars.zip custom) s) ds <;> simp

/-- **`UFormulas(Usymbols)`**: the same for the symbols `U<jk><index>` (pattern `\bU\d\d\d+`) -/
theorem UFormulas_sub_eq (ds : List (List (List Char × List FTok))) (pars custom : List (List Char))
    (hne : custom ≠ []) (hnd : pars.Nodup)
    (hwf : ∀ d ∈ ds, (∀ e ∈ d, WFToks ['U'] 2 none e.2) ∧ (d.map (·.1)).Nodup) :
    Src.Constraints.UFormulas (ds.map renderDict) pars custom =
      if custom.length < pars.length then none
      else some (Py.mapOpt (renameDict fun s => Py.dictGet (pars.zip custom) s) ds) := by
  unfold Src.Constraints.UFormulas
  have : custom.isEmpty = false := by cases custom <;> simp_all
  simp only [this, Bool.false_eq_true, if_false, UFormulas_pat_eq, dictZip_nodup pars custom hnd]
  split
  · rfl
  · rw [translate_all _ _ _ ds [] hwf]
    cases Py.mapOpt (renameDict fun s => Py.dictGet (pars.zip custom) s) ds <;> simp

/-- the translation dictionary sends the `i`-th parameter symbol to the `i`-th caller symbol — and to nothing else: two
parameter symbols with the same letters are equal only if their indices are (`symKey_inj`: `x1` is not a prefix case of `x10`) -/
theorem translation_exact (pars custom : List (List Char)) (hnd : pars.Nodup) (i : Nat) (hi : i < pars.length)
    (hc : i < custom.length) : Py.dictGet (pars.zip custom) pars[i] = some custom[i] :=
  dictGet_zip pars custom hnd i hi hc

/-- the standard parameter symbols of distinct (letter, index) pairs are distinct strings -/
theorem parSymbols_inj (c c' : Char) (i i' : Nat) (h : [c] ++ Py.strNat i = [c'] ++ Py.strNat i') : c = c' ∧ i = i' := by
  obtain ⟨h1, h2⟩ := symKey_inj [c] [c'] i i' rfl h
  exact ⟨by simpa using h1, h2⟩

theorem UparSymbols_inj (s s' : List Char) (i i' : Nat) (hs : s.length = 3) (hs' : s'.length = 3)
    (h : s ++ Py.strNat i = s' ++ Py.strNat i') : s = s' ∧ i = i' :=
  symKey_inj s s' i i' (by omega) h

set_option linter.unusedSectionVars false
set_option linter.unusedVariables false

/-! ### 11. `signedRatStr`: the fraction that is printed is within `eps / den` of the value -/

/-- the integer `x.round()` (ties to even) -/
def roundZ (x : ℚ) : Int :=
  let f := ⌊x⌋
  let d := x - (f : ℚ)
  if d < (0.5 : ℚ) then f else if (0.5 : ℚ) < d then f + 1 else if f % 2 = 0 then f else f + 1

theorem roundS_eq (x : ℚ) : Np.roundS x = ((roundZ x : Int) : ℚ) := by
  have hfl : FloorOrd.floor x = ⌊x⌋ := rfl
  unfold Np.roundS roundZ
  simp only [hfl]
  split_ifs <;> rfl

theorem roundZ_close (x : ℚ) : |x - (roundZ x : ℚ)| ≤ 1 / 2 := by
  have h1 := Int.floor_le x
  have h2 := Int.lt_floor_add_one x
  have e : (0.5 : ℚ) = 1 / 2 := by norm_num
  unfold roundZ
  simp only [e]
  split_ifs with a b c
  · rw [abs_le]; constructor <;> linarith
  · rw [abs_le]; push_cast; constructor <;> linarith
  · rw [abs_le]; constructor <;> linarith
  · rw [abs_le]; push_cast; constructor <;> linarith

/-- the first denominator among 3, 6, 7, 9 for which `x * den` is within `eps` of an integer -/
def firstDen (eps x : ℚ) : Option ℚ :=
  ([3, 6, 7, 9] : List ℚ).find? fun d => decide (|x * d - (roundZ (x * d) : ℚ)| < eps)

theorem whereL_head (m : List Bool) : (Np.whereL m).head? = (if m.idxOf true < m.length then some (m.idxOf true) else none) := by
  rw [whereL_eq]
  have key : ∀ (s : Nat) (m : List Bool), (whereFrom s m).head? = if m.idxOf true < m.length then some (s + m.idxOf true) else none := by
    intro s m
    induction m generalizing s with
    | nil => rfl
    | cons b m ih =>
      rw [whereFrom_cons]
      cases b with
      | true => simp
      | false =>
        simp only [Bool.false_eq_true, if_false, List.nil_append, ih, List.idxOf_cons_ne _ (by decide : false ≠ true),
          List.length_cons, Nat.succ_lt_succ_iff]
        split <;> simp; omega
  simpa using key 0 m

/-- **`signedRatStr`**: `"%+g" % x` for a short decimal (`len("{:.8g}".format(x)) < 6`) or when no denominator fits; otherwise
`"%+.0f/%.0f" % (x·den, den)` for the FIRST `den` among 3, 6, 7, 9 with `|x·den − round(x·den)| < eps` -/
theorem signedRatStr_eq (short8g : ℚ → Bool) (eps x : ℚ) :
    Src.Constraints.signedRatStr short8g eps x =
      some (if short8g x = true then Sum.inl x else
        match firstDen eps x with
        | none => Sum.inl x
        | some d => Sum.inr (x * d, d)) := by
  unfold Src.Constraints.signedRatStr
  by_cases hs : short8g x = true
  · simp [hs]
  · simp only [hs, Bool.false_eq_true, if_false]
    have e3 : (3.0 : ℚ) = 3 := by norm_num
    have e6 : (6.0 : ℚ) = 6 := by norm_num
    have e7 : (7.0 : ℚ) = 7 := by norm_num
    have e9 : (9.0 : ℚ) = 9 := by norm_num
    simp only [e3, e6, e7, e9, List.map_cons, List.map_nil, List.zipWith_cons_cons, List.zipWith_nil_right, roundS_eq, absS_eq,
      firstDen, List.find?_cons, List.find?_nil]
    by_cases h3 : |x * 3 - (roundZ (x * 3) : ℚ)| < eps
    · simp [h3, whereL_eq, whereFrom_cons, getIdx_zero]
    · by_cases h6 : |x * 6 - (roundZ (x * 6) : ℚ)| < eps
      · simp [h3, h6, whereL_eq, whereFrom_cons, getIdx_zero] <;> rfl
      · by_cases h7 : |x * 7 - (roundZ (x * 7) : ℚ)| < eps
        · simp [h3, h6, h7, whereL_eq, whereFrom_cons, getIdx_zero] <;> rfl
        · by_cases h9 : |x * 9 - (roundZ (x * 9) : ℚ)| < eps
          · simp [h3, h6, h7, h9, whereL_eq, whereFrom_cons, getIdx_zero] <;> rfl
          · simp only [h3, h6, h7, h9, decide_false, whereL_eq, whereFrom_cons, Bool.false_eq_true, if_false, List.nil_append]
            rfl

/-- `"%+.0f/%.0f" % (n, d)` for an integer-valued `n` and a positive integer `d` -/
def fmtFrac (z : Int) (d : Nat) : List Char :=
  (if z < 0 then '-' else '+') :: (Dec.natDigits z.natAbs ++ '/' :: Dec.natDigits d)

/-- the constant term of the formula parser of the harness (`harness/symcommon.py`, `parse_linear`): sign, digits, `/`, digits -/
def parseFrac (s : List Char) : Option ℚ :=
  match s with
  | [] => none
  | sgn :: rest =>
    if sgn = '+' ∨ sgn = '-' then
      let a := Rx.takeDigits rest
      match a.2 with
      | '/' :: r2 =>
        let b := Rx.takeDigits r2
        if a.1 ≠ [] ∧ b.1 ≠ [] ∧ b.2 = [] then
          some ((if sgn = '-' then -1 else 1) * (Dec.numOf a.1 : ℚ) / (Dec.numOf b.1 : ℚ))
        else none
      | _ => none
    else none

theorem parseFrac_fmtFrac (z : Int) (d : Nat) : parseFrac (fmtFrac z d) = some ((z : ℚ) / (d : ℚ)) := by
  unfold parseFrac fmtFrac
  have h1 : Rx.takeDigits (Dec.natDigits z.natAbs ++ '/' :: Dec.natDigits d) = (Dec.natDigits z.natAbs, '/' :: Dec.natDigits d) :=
    takeDigits_all _ _ (Dec.allDigits_natDigits _) rfl
  have h2 : Rx.takeDigits (Dec.natDigits d) = (Dec.natDigits d, []) := by
    have := takeDigits_all (Dec.natDigits d) [] (Dec.allDigits_natDigits _) rfl
    simpa using this
  by_cases hz : z < 0
  · simp only [hz, if_true, or_true, h1, h2, ne_eq, Dec.natDigits_ne_nil, not_false_eq_true, and_self, Dec.numOf_natDigits]
    have : ((z.natAbs : Nat) : ℚ) = -(z : ℚ) := by
      have h0 : (z.natAbs : Int) = -z := by omega
      have h1 : (((z.natAbs : Nat) : Int) : ℚ) = ((-z : Int) : ℚ) := by rw [h0]
      simpa using h1
    rw [this]; congr 1; ring
  · simp only [hz, if_false, true_or, h1, h2, ne_eq, Dec.natDigits_ne_nil, not_false_eq_true, and_self, Dec.numOf_natDigits]
    have : ((z.natAbs : Nat) : ℚ) = (z : ℚ) := by
      have h0 : (z.natAbs : Int) = z := by omega
      have h1 : (((z.natAbs : Nat) : Int) : ℚ) = ((z : Int) : ℚ) := by rw [h0]
      simpa using h1
    rw [this]
    simp

/-- **the printed fraction parses back to the value within the tolerance**: when `signedRatStr` chooses the fraction branch
`(n, den)`, the string `"%+.0f/%.0f"` (= `fmtFrac (round n) den`) is read by the parser as `round(n)/den`, which differs from
`x` by less than `eps / den` (`den ∈ {3, 6, 7, 9}`) -/
theorem signedRatStr_parses (short8g : ℚ → Bool) (eps x n d : ℚ)
    (h : Src.Constraints.signedRatStr short8g eps x = some (Sum.inr (n, d))) :
    ∃ dn : Nat, dn ∈ [3, 6, 7, 9] ∧ d = (dn : ℚ) ∧ n = x * d ∧
      parseFrac (fmtFrac (roundZ n) dn) = some ((roundZ n : ℚ) / d) ∧ |x - (roundZ n : ℚ) / d| < eps / d := by
  rw [signedRatStr_eq] at h
  by_cases hs : short8g x = true
  · simp [hs] at h
  · simp only [hs, Bool.false_eq_true, if_false, Option.some.injEq] at h
    cases hf : firstDen eps x with
    | none => simp [hf] at h
    | some d' =>
      simp only [hf, Sum.inr.injEq, Prod.mk.injEq] at h
      obtain ⟨hn, hd⟩ := h
      subst hd
      have hmem := List.mem_of_find?_eq_some hf
      have hp := List.find?_some hf
      simp only [decide_eq_true_eq] at hp
      have hcases : ∃ dn : Nat, dn ∈ [3, 6, 7, 9] ∧ d' = (dn : ℚ) := by
        simp only [List.mem_cons, List.not_mem_nil, or_false] at hmem
        rcases hmem with rfl | rfl | rfl | rfl
        · exact ⟨3, by decide, by norm_num⟩
        · exact ⟨6, by decide, by norm_num⟩
        · exact ⟨7, by decide, by norm_num⟩
        · exact ⟨9, by decide, by norm_num⟩
      obtain ⟨dn, hdn, hdd⟩ := hcases
      have hpos : (0 : ℚ) < d' := by
        simp only [List.mem_cons, List.not_mem_nil, or_false] at hdn
        rcases hdn with rfl | rfl | rfl | rfl <;> (rw [hdd]; norm_num)
      refine ⟨dn, hdn, hdd, hn.symm, ?_, ?_⟩
      · rw [parseFrac_fmtFrac, hdd]
      · rw [← hn]
        have : x - (roundZ (x * d') : ℚ) / d' = (x * d' - (roundZ (x * d') : ℚ)) / d' := by
          field_simp
        rw [this, abs_div, abs_of_pos hpos]
        exact div_lt_div_of_pos_right hp hpos

set_option linter.unusedSectionVars false
set_option linter.unusedVariables false
variable {α : Type} [Field α] [LinearOrder α] [IsStrictOrderedRing α] [FloorRing α]

/-! ### 12. `GeneratorSite.__init__`: snapping of the site onto its special position -/

/-- `d − d.round()` -/
def centreV (v : V3 α) : V3 α := Np.sub v (Np.round v)

/-- `numpy.mean(dxyz − dxyz.round(), axis=0)` with `dxyz = [op(xyz + sgoffset) − sgoffset for op in invariants] − xyz` -/
def snapDeltaG (inv : List (SymOp α)) (xyz off : V3 α) : V3 α :=
  Np.mean0 (inv.map fun op => centreV (Np.sub (Np.sub (Src.Sym.symopCall op (Np.add xyz off)) off) xyz))

/-- `self.xyz[numpy.fabs(self.xyz) < self.eps] = 0.0` -/
def zeroSmallG (eps : α) (v : V3 α) : V3 α := Np.assignMask v (Np.lt (Np.fabs v) (Np.fill eps)) (Np.fill (0.0 : α))

theorem zipWith_sub_map_round (l : List (V3 α)) : List.zipWith Np.sub l (l.map Np.round) = l.map centreV := by
  induction l with
  | nil => rfl
  | cons x xs ih => simp [ih, centreV]

/-- **the snapping step, as written**: expand; find the site-symmetry operations; if the multiplicity is above 1 and the mean
of `d − round(d)` over them is not exactly zero: move the site by that mean, set coordinates smaller than `eps` in size to zero,
expand and find the invariants AGAIN with the moved site; otherwise keep everything -/
theorem snapSite_shape (sg : List (SymOp α)) (xyz off : V3 α) (eps : α) :
    Src.Constraints.snapSite sg xyz off eps =
      (Src.Sym.expandPosition sg xyz off eps).bind fun r =>
      (Src.Constraints.findInvariants r.2.1).bind fun inv =>
      if r.2.2 > 1 ∧ Np.any (Np.ne (snapDeltaG inv xyz off) (Np.fill (0.0 : α))) = true then
        (Src.Sym.expandPosition sg (zeroSmallG eps (Np.add xyz (snapDeltaG inv xyz off))) off eps).bind fun r' =>
        (Src.Constraints.findInvariants r'.2.1).bind fun inv' =>
        some (zeroSmallG eps (Np.add xyz (snapDeltaG inv xyz off)), r'.1, r'.2.1, r'.2.2, inv')
      else some (xyz, r.1, r.2.1, r.2.2, inv) := by
  unfold Src.Constraints.snapSite
  cases Src.Sym.expandPosition sg xyz off eps with
  | none => rfl
  | some r =>
    simp only [Option.bind_some]
    cases Src.Constraints.findInvariants r.2.1 with
    | none => rfl
    | some inv =>
      simp only [Option.bind_some, zipWith_sub_map_round]
      simp only [List.map_map]
      have hd : Np.mean0 (inv.map (centreV ∘ (fun row => Np.sub row xyz) ∘ fun op =>
          Np.sub (Src.Sym.symopCall op (Np.add xyz off)) off)) = snapDeltaG inv xyz off := rfl
      rw [hd]
      by_cases hm : r.2.2 > 1
      · simp only [hm, if_true, true_and]
        rfl
      · simp only [hm, if_false, false_and]


/-- the image of `x` before it is folded into the cell: `a(x + off) − off` in units of `1/D` -/
def rawImg (a : Op) (k : Int) (off x : P3) : P3 :=
  (a.r11 * (x.1 + off.1) + a.r12 * (x.2.1 + off.2.1) + a.r13 * (x.2.2 + off.2.2) + k * a.t1 - off.1,
   a.r21 * (x.1 + off.1) + a.r22 * (x.2.1 + off.2.1) + a.r23 * (x.2.2 + off.2.2) + k * a.t2 - off.2.1,
   a.r31 * (x.1 + off.1) + a.r32 * (x.2.1 + off.2.1) + a.r33 * (x.2.2 + off.2.2) + k * a.t3 - off.2.2)

theorem img_eq_raw (a : Op) (k : Int) (off x : P3) : Orbit.img a k off x = Orbit.red k (rawImg a k off x) := rfl

theorem raw_refines {k : Int} (hk : 0 < k) (a : Op) (off x : P3) :
    Np.sub (Src.Sym.symopCall (toSym a) (Np.add (castP k x) (castP k off))) (castP k off) =
      (castP k (rawImg a k off x) : V3 α) := by
  obtain ⟨x1, x2, x3⟩ := x
  obtain ⟨o1, o2, o3⟩ := off
  rw [DS.Props.SrcSym.symopCall_shape]
  simp only [Np.map3, Np.sub, Np.add, Np.dot, Np.dotRow, Np.zip3, toSym, castP, sc_add, sc_mul, sc_t hk, sc_sub, rawImg]

theorem roundS_int (m : Int) : Np.roundS ((m : Int) : α) = (m : α) := by
  have hfl : FloorOrd.floor ((m : Int) : α) = m := Int.floor_intCast m
  have h5 : (0 : α) < (0.5 : α) := by norm_num
  unfold Np.roundS
  simp only [hfl, sub_self, h5, if_true]

theorem sc_mul_D {k : Int} (hk : 0 < k) (m : Int) : (sc k (24 * k * m) : α) = (m : α) := by
  unfold sc
  have := ne_of_gt (D_pos (α := α) hk)
  push_cast at this ⊢
  field_simp

/-- a displacement by a lattice vector is removed completely by `d − round(d)` -/
theorem centre_lattice {k : Int} (hk : 0 < k) (y x : P3)
    (h : Orbit.red k y = Orbit.red k x) : centreV (Np.sub (castP k y : V3 α) (castP k x)) = ((0 : α), (0 : α), (0 : α)) := by
  obtain ⟨y1, y2, y3⟩ := y
  obtain ⟨x1, x2, x3⟩ := x
  simp only [Orbit.red, Prod.mk.injEq] at h
  obtain ⟨h1, h2, h3⟩ := h
  have key : ∀ u v : Int, u % (24 * k) = v % (24 * k) → ∃ m : Int, u - v = 24 * k * m := by
    intro u v huv
    exact ⟨(u - v) / (24 * k), by
      have := Int.emod_emod_of_dvd u (dvd_refl (24 * k))
      have hd : (24 * k) ∣ (u - v) := Int.dvd_of_emod_eq_zero (by rw [Int.sub_emod, huv, sub_self]; simp)
      rw [Int.mul_ediv_cancel' hd]⟩
  obtain ⟨m1, e1⟩ := key _ _ h1
  obtain ⟨m2, e2⟩ := key _ _ h2
  obtain ⟨m3, e3⟩ := key _ _ h3
  simp only [centreV, Np.sub, Np.round, Np.zip3, Np.map3, castP, sc_sub, e1, e2, e3, sc_mul_D hk, roundS_int, sub_self]

theorem mean0_zero (n : Nat) : Np.mean0 (List.replicate n ((0 : α), (0 : α), (0 : α))) = ((0 : α), (0 : α), (0 : α)) := by
  have : ∀ (n : Nat), (List.replicate n ((0 : α), (0 : α), (0 : α))).foldl Np.add (Np.fill 0) = ((0 : α), (0 : α), (0 : α)) := by
    intro n
    induction n with
    | zero => rfl
    | succ n ih =>
      rw [List.replicate_succ, List.foldl_cons]
      have : Np.add (Np.fill (0 : α)) ((0 : α), (0 : α), (0 : α)) = Np.fill 0 := by
        simp [Np.add, Np.fill, Np.zip3]
      rw [this, ih]
  simp only [Np.mean0, this, Np.map3, zero_div]

/-- **a site that lies exactly on its special position is not moved**: if every operation of the class of the identity maps
`x` onto itself modulo lattice translations, `GeneratorSite.__init__` keeps `xyz` and the first expansion
(`Orbit.result`, by `DS.Props.SrcSym.refines`) -/
theorem snapSite_exact (ops : List Op) {k E : Int} (hk : 0 < k) (hE : 0 < E) (off x : P3) (cls0 : List Op)
    (hinv : (Orbit.result ops k E off x).2.1.find? (fun c => c.any fun a => isIdOp (toSym a : SymOp α)) = some cls0)
    (hexact : ∀ a ∈ cls0, Orbit.img a k off x = Orbit.red k x) :
    Src.Constraints.snapSite (ops.map (toSym (α := α))) (castP k x) (castP k off) (sc k E) =
      some (castP k x, (Orbit.result ops k E off x).1.map (castP k), (Orbit.result ops k E off x).2.1.map (List.map toSym),
        (Orbit.result ops k E off x).2.2, cls0.map toSym) := by
  rw [snapSite_shape, DS.Props.SrcSym.refines ops hk hE off x]
  simp only [Option.bind_some, castResult, findInvariants_eq]
  have hfind : ((Orbit.result ops k E off x).2.1.map (List.map (toSym (α := α)))).find? (fun c => c.any isIdOp) =
      some (cls0.map toSym) := by
    rw [List.find?_map]
    have : ((fun c : List (SymOp α) => c.any isIdOp) ∘ List.map (toSym (α := α))) =
        fun c : List Op => c.any fun a => isIdOp (toSym a : SymOp α) := by
      funext c; simp [List.any_map, Function.comp_def]
    rw [this, hinv]; rfl
  rw [hfind]
  simp only [Option.bind_some]
  have hdelta : snapDeltaG (cls0.map (toSym (α := α))) (castP k x) (castP k off) = ((0 : α), (0 : α), (0 : α)) := by
    unfold snapDeltaG
    rw [List.map_map]
    have : (cls0.map ((fun op : SymOp α => centreV (Np.sub (Np.sub (Src.Sym.symopCall op (Np.add (castP k x) (castP k off)))
        (castP k off)) (castP k x))) ∘ toSym)) = List.replicate cls0.length ((0 : α), (0 : α), (0 : α)) := by
      apply List.ext_getElem
      · simp
      · intro i h1 h2
        have hi : i < cls0.length := by simpa using h2
        simp only [List.getElem_map, List.getElem_replicate, Function.comp]
        rw [raw_refines hk]
        apply centre_lattice hk
        have ha := hexact cls0[i] (List.getElem_mem hi)
        rw [img_eq_raw] at ha
        have hrr : ∀ y : P3, Orbit.red k (Orbit.red k y) = Orbit.red k y := by
          intro y; simp [Orbit.red, Int.emod_emod_of_dvd _ (dvd_refl _)]
        rw [← hrr, ha, hrr]
    rw [this, mean0_zero]
  have h0 : (0.0 : α) = 0 := by norm_num
  have hany : Np.any (Np.ne ((0 : α), (0 : α), (0 : α)) (Np.fill (0.0 : α))) = false := by
    simp [Np.any, Np.ne, Np.fill, Np.zip3, h0]
  rw [hdelta, hany]
  simp

set_option linter.unusedSectionVars false
set_option linter.unusedVariables false
variable {α : Type} [Field α] [LinearOrder α] [IsStrictOrderedRing α] [FloorRing α]

/-! ### 13. the rest of `GeneratorSite.__init__`, `eqIndex`, `ExpandAsymmetricUnit.__init__`, `pruneFormulaDictionary` -/

/-- **`GeneratorSite.__init__` after the snapping**: `_findNullSpace` and `_findUSpace` see the invariants of the ADJUSTED site,
`_findPosParameters` expresses the ADJUSTED `self.xyz`, `_findUParameters` projects the tensor the caller gave, `_findeqUij` uses the
operation lists of the adjusted expansion; `Uisotropy` is `len(Uspace) == 1` -/
theorem generatorSiteInit_eq (sg : List (SymOp α)) (fns : List (SymOp α) → List (V3 α)) (fus : List (SymOp α) → List (M3 α))
    (xyz : V3 α) (Uij : M3 α) (off : V3 α) (eps : α) :
    Src.Constraints.generatorSiteInit sg fns fus xyz Uij off eps =
      (Src.Constraints.snapSite sg xyz off eps).bind fun s =>
      (Src.Constraints.findPosParameters (fns s.2.2.2.2) s.1).bind fun pp =>
      (Src.Constraints.findUParameters (fus s.2.2.2.2) Uij).bind fun up =>
      (Src.Constraints.findeqUij (fus s.2.2.2.2) up s.2.2.1).bind fun u =>
      some { xyz := s.1, Uij := u.1, sgoffset := off, eps := eps, eqxyz := s.2.1, eqUij := u.2, symops := s.2.2.1,
             multiplicity := s.2.2.2.1, Uisotropy := decide ((fus s.2.2.2.2).length = 1), invariants := s.2.2.2.2,
             null_space := fns s.2.2.2.2, Uspace := fus s.2.2.2.2, pparameters := pp, Uparameters := up } := rfl

/-- `eqIndex` is `nearestSiteIndex(self.eqxyz, pos)` (on the grid: `Orbit.nearestIdx`, `eqIndex_grid`) -/
theorem eqIndex_eq (g : GenSite α) (pos : V3 α) :
    Src.Constraints.eqIndex g pos = Src.Sym.nearestSiteIndex g.eqxyz pos := rfl

/-- **`ExpandAsymmetricUnit.__init__`**: every listed site is expanded on its own, with its own tensor (zeros when no tensors are
given), in listing order; an exception of any site aborts -/
theorem expandAsymmetricUnit_eq (mk : V3 α → M3 α → Option (GenSite α)) (corepos : List (V3 α)) (coreUijs : Option (List (M3 α))) :
    Src.Constraints.expandAsymmetricUnit mk corepos coreUijs =
      (Py.mapOpt (fun e : V3 α × M3 α => mk e.1 e.2)
        (corepos.zip (if Py.truthyOL coreUijs = true then coreUijs.getD [] else List.replicate corepos.length Np.zerosM))).map
        fun gens => (gens.map (·.multiplicity), gens.map (·.Uisotropy), gens.map (·.eqxyz), gens.map (·.eqUij)) := by
  unfold Src.Constraints.expandAsymmetricUnit
  have key : ∀ (l : List (V3 α × M3 α)) (st : List Nat × List Bool × List (List (V3 α)) × List (List (M3 α))),
      Py.forM l st (Src.Constraints.expandAsymmetricUnit_body mk) =
        (Py.mapOpt (fun e : V3 α × M3 α => mk e.1 e.2) l).map fun gens =>
          (st.1 ++ gens.map (·.multiplicity), st.2.1 ++ gens.map (·.Uisotropy), st.2.2.1 ++ gens.map (·.eqxyz),
            st.2.2.2 ++ gens.map (·.eqUij)) := by
    intro l
    induction l with
    | nil => intro st; simp [Py.mapOpt]
    | cons e l ih =>
      intro st
      have step : Src.Constraints.expandAsymmetricUnit_body mk st e = (mk e.1 e.2).bind fun gen =>
          some (st.1 ++ [gen.multiplicity], st.2.1 ++ [gen.Uisotropy], st.2.2.1 ++ [gen.eqxyz], st.2.2.2 ++ [gen.eqUij]) := rfl
      rw [forM_cons, Py.mapOpt, step]
      cases mk e.1 e.2 with
      | none => rfl
      | some g =>
        simp only [Option.bind_some]
        rw [ih]
        cases Py.mapOpt (fun e : V3 α × M3 α => mk e.1 e.2) l <;> simp
  simpa using key (corepos.zip (if Py.truthyOL coreUijs = true then coreUijs.getD [] else List.replicate corepos.length Np.zerosM)) ([], [], [], [])

/-- **`pruneFormulaDictionary`** keeps, in order, exactly the entries whose formula is not constant (distinct keys) -/
theorem pruneFormulaDictionary_eq {β : Type} (isconst : β → Bool) (d : List (List Char × β)) (hnd : (d.map (·.1)).Nodup) :
    Src.Constraints.pruneFormulaDictionary isconst d = d.filter fun e => !isconst e.2 := by
  unfold Src.Constraints.pruneFormulaDictionary
  have key : ∀ (l acc : List (List Char × β)), (l.map (·.1)).Nodup → (∀ e ∈ l, Py.dictHas acc e.1 = false) →
      l.foldl (fun pruned e => if (!(isconst e.2)) = true then Py.dictSet pruned e.1 e.2 else pruned) acc =
        acc ++ l.filter fun e => !isconst e.2 := by
    intro l
    induction l with
    | nil => intro acc _ _; simp
    | cons e l ih =>
      intro acc hnd hfr
      rw [List.map_cons, List.nodup_cons] at hnd
      rw [List.foldl_cons, List.filter_cons]
      by_cases hc : (!(isconst e.2)) = true
      · rw [if_pos hc, if_pos hc, dictSet_fresh acc e.1 e.2 (hfr e (List.mem_cons_self ..)), ih _ hnd.2, List.append_assoc]
        · rfl
        · intro e' he'
          rw [dictHas_iff_mem_keys, List.map_append, List.map_cons, List.map_nil]
          have h1 := hfr e' (List.mem_cons_of_mem _ he')
          rw [dictHas_iff_mem_keys] at h1
          have h2 : e'.1 ≠ e.1 := fun h => hnd.1 (h ▸ List.mem_map_of_mem he')
          simp only [List.contains_eq_mem, List.mem_append, List.mem_cons, List.not_mem_nil, or_false, decide_eq_false_iff_not,
            not_or] at h1 ⊢
          exact ⟨h1, h2⟩
      · rw [if_neg hc, if_neg hc, ih _ hnd.2 (fun e' he' => hfr e' (List.mem_cons_of_mem _ he'))]
  simpa using key d [] hnd (fun _ _ => rfl)

/-- the model `Con.snapDelta` is the snapping displacement of the source over ℚ -/
theorem roundQ_eq (x : ℚ) : Con.roundQ x = Np.roundS x := by
  have e : (0.5 : ℚ) = 1 / 2 := by norm_num
  unfold Con.roundQ Np.roundS
  simp only [e]
  rfl


theorem toVec_centre (v : V3 ℚ) : toVec (centreV v) = Con.centre (toVec v) := by
  obtain ⟨v1, v2, v3⟩ := v
  simp only [centreV, Np.sub, Np.round, Np.zip3, Np.map3, toVec, Con.centre, roundQ_eq]

theorem toVec_image (op : SymOp ℚ) (x off : V3 ℚ) :
    toVec (Np.sub (Np.sub (Src.Sym.symopCall op (Np.add x off)) off) x) =
      ((((toMat op.R).mulVec ((toVec x).add (toVec off))).add (toVec op.t)).sub (toVec off)).sub (toVec x) := by
  obtain ⟨⟨⟨a1, a2, a3⟩, ⟨a4, a5, a6⟩, ⟨a7, a8, a9⟩⟩, ⟨t1, t2, t3⟩⟩ := op
  obtain ⟨x1, x2, x3⟩ := x
  obtain ⟨o1, o2, o3⟩ := off
  rfl

/-- **the snapping displacement** of the source, over ℚ, is the model `Con.snapDelta`: the mean over the site-symmetry operations
`(R, t)` of `d − round(d)`, `d = R (x + off) + t − off − x` -/
theorem snapDelta_eq (inv : List (SymOp ℚ)) (x off : V3 ℚ) :
    toVec (snapDeltaG inv x off) = Con.snapDelta (inv.map fun op => (toMat op.R, toVec op.t)) (toVec off) (toVec x) := by
  unfold snapDeltaG Con.snapDelta Np.mean0
  have key : ∀ (l : List (SymOp ℚ)) (acc : V3 ℚ),
      toVec ((l.map fun op => centreV (Np.sub (Np.sub (Src.Sym.symopCall op (Np.add x off)) off) x)).foldl Np.add acc) =
        (l.map fun op => (toMat op.R, toVec op.t)).foldl (fun s h => s.add (Con.centre
          ((((h.1.mulVec ((toVec x).add (toVec off))).add h.2).sub (toVec off)).sub (toVec x)))) (toVec acc) := by
    intro l
    induction l with
    | nil => intro acc; rfl
    | cons op l ih =>
      intro acc
      rw [List.map_cons, List.foldl_cons, ih, List.map_cons, List.foldl_cons]
      congr 1
      show toVec (Np.add acc _) = (toVec acc).add _
      rw [← toVec_image, ← toVec_centre]
      rfl
  have h0 : toVec (Np.fill (0 : ℚ)) = (Vec3.zero : Vec3 ℚ) := rfl
  rw [← h0, ← key inv (Np.fill 0)]
  generalize (inv.map fun op => centreV (Np.sub (Np.sub (Src.Sym.symopCall op (Np.add x off)) off) x)).foldl Np.add (Np.fill 0) = S
  obtain ⟨s1, s2, s3⟩ := S
  simp only [Np.map3, toVec, Vec3.smul, List.length_map, Int.cast_natCast]
  congr 1 <;> ring

set_option linter.unusedSectionVars false
set_option linter.unusedVariables false

/-! ### 14. what is kept as text; non-vacuity of the conditional theorems -/

/-- the statements of the source that are recorded as text: declarations of the attributes (initial values `[]`, `{}`,
`numpos * [None]` that the definitions above start from), the default `eps`, how the formula pieces are printed
(`"%s*%s " % (signedRatStr(c), symbol)`, `"%+g*%s"`, the final `re.sub`/`strip`, `""` -> `"0"`), the `%+g` fallback and the
short-decimal test of `signedRatStr`, and `isconstantFormula` with its regular expression -/
theorem facts_eq : Src.Constraints.facts = [
    ("ExpandAsymmetricUnit.__init__ declarations", "if eps is None:     eps = epsilon; self.spacegroup = spacegroup; self.corepos = corepos; self.coreUijs = None; self.sgoffset = numpy.array(sgoffset); self.eps = eps; self.multiplicity = []; self.Uisotropy = []; self.expandedpos = []; self.expandedUijs = []"),
    ("GeneratorSite.__init__ declarations", "self.xyz = numpy.array(xyz, dtype=float); self.Uij = numpy.array(Uij, dtype=float); self.sgoffset = numpy.array(sgoffset, dtype=float); self.eps = eps; self.eqxyz = []; self.eqUij = []; self.symops = None; self.multiplicity = None; self.Uisotropy = False; self.invariants = []; self.null_space = None; self.Uspace = None; self.pparameters = []; self.Uparameters = []"),
    ("GeneratorSite.__init__ default eps", "if eps is None: eps = epsilon"),
    ("SymmetryConstraints.__init__ declarations", "if eps is None:     eps = epsilon; self.spacegroup = spacegroup; self.positions = None; self.Uijs = None; self.sgoffset = numpy.array(sgoffset); self.eps = eps; self.corepos = []; self.coremap = {}; self.poseqns = None; self.pospars = []; self.Ueqns = None; self.Upars = []; self.Uisotropy = None"),
    ("SymmetryConstraints.__init__ positions", "if len(positions) and isinstance(positions[0], list): flatpos = sum(positions, []) flatpos = numpy.array(flatpos, dtype=float).flatten() self.positions = flatpos.reshape((-1, 3)) else: flatpos = numpy.array(positions, dtype=float).flatten() self.positions = flatpos.reshape((-1, 3))"),
    ("SymmetryConstraints.__init__ tail", "numpos = len(self.positions); if Uijs is not None:     self.Uijs = numpy.array(Uijs, dtype=float) else:     self.Uijs = numpy.zeros((numpos, 3, 3), dtype=float); self.poseqns = numpos * [None]; self.Ueqns = numpos * [None]; self.Uisotropy = numpos * [False]; self._findConstraints(); return"),
    ("UFormula clean-up", "for smbl, f in Uformula.items(): if not f: f = '0'; f = re.sub('^[+]?1[*]|^[+](?=\\d)|(?<=[+-])1[*]', '', f).strip(); Uformula[smbl] = f"),
    ("UFormula term format", "f = '%+g*%s' % (Usrflat[i], name2sym[vname]); Uformula[smbl] += f"),
    ("_rx_constant_formula", "[-+]?(\\d+(\\.\\d*)?|\\.\\d+)([eE][-+]?\\d+)??(/[-+]?\\d+)?$"),
    ("isconstantFormula", "res = _rx_constant_formula.match(s.replace(' ', '')); return bool(res)"),
    ("positionFormula clean-up", "xyzformula = [re.sub('^[+]1[*]|(?<=[+-])1[*]', '', f).strip() for f in xyzformula]"),
    ("positionFormula term format", "xyzformula[i] += '%s*%s ' % (self.signedRatStr(coefficient), name2sym[vname])"),
    ("signedRatStr fallback", "return '%+g' % x"),
    ("signedRatStr fraction format", "return '%+.0f/%.0f' % (nom[idx[0]], den[idx[0]])"),
    ("signedRatStr short decimals", "s = '{:.8g}'.format(x); if len(s) < 6: return '%+g' % x")] := rfl

/-! #### examples -/

/-- `x ↦ −x` -/
def invOp : Op := ⟨-1, 0, 0, 0, -1, 0, 0, 0, -1, 0, 0, 0⟩

-- `_findInvariants`: the class that contains the identity is found, wherever the identity stands in it
theorem isIdOp_one : isIdOp (toSym Op.one : SymOp ℚ) = true := by
  simp [isIdOp, Np.allM, Np.eqM, Np.all, Np.eq, Np.zipM3, Np.zip3, Np.identity3, Np.zeros3, toSym, Op.one]
  norm_num
theorem isIdOp_inv : isIdOp (toSym invOp : SymOp ℚ) = false := by
  simp [isIdOp, Np.allM, Np.eqM, Np.all, Np.eq, Np.zipM3, Np.zip3, Np.identity3, Np.zeros3, toSym, invOp]
  norm_num

example : Src.Constraints.findInvariants [[(toSym invOp : SymOp ℚ)], [toSym invOp, toSym Op.one]] =
    some [toSym invOp, toSym Op.one] := by
  rw [findInvariants_eq]; simp [List.find?, isIdOp_one, isIdOp_inv]
example : Src.Constraints.findInvariants [[(toSym invOp : SymOp ℚ)]] = none := by
  rw [findInvariants_eq]; simp [List.find?, isIdOp_inv]

theorem gapV_001 : GapV ((0 : ℚ), (0 : ℚ), (1 : ℚ)) := by
  refine ⟨Or.inl rfl, Or.inl rfl, Or.inr ?_⟩
  unfold Src.Constraints.epsilon; norm_num

-- `_findPosParameters` on the site `(0, 1/2, z)` of `mm2` (free direction `(0,0,1)`): parameter `z = 1/4`
example : Src.Constraints.findPosParameters [((0 : ℚ), (0 : ℚ), (1 : ℚ))] (0, 1 / 2, 1 / 4) = some [(['z'], 1 / 4)] := by
  rw [findPosParameters_eq _ _ (fun v hv => by rw [List.mem_singleton.1 hv]; exact gapV_001)]
  decide +kernel

-- a second direction starting at the same coordinate takes the next free letter
example : Con.posNames [⟨1, 0, 0⟩, ⟨1, 1, 0⟩] = some [['x'], ['y']] := by decide +kernel
example : (Con.posNames [⟨1, 0, 0⟩, ⟨1, 1, 0⟩]).isSome ∧ ([['x'], ['y']] : List (List Char)).Nodup :=
  ⟨by decide +kernel, (posNames_spec _ _ (by decide +kernel : Con.posNames [⟨1, 0, 0⟩, ⟨1, 1, 0⟩] = some [['x'], ['y']])).2.1⟩

/-- the unit tensor as an array -/
def idM : M3 ℚ := ((1, 0, 0), (0, 1, 0), (0, 0, 1))

-- `_findUParameters`: isotropic site, one basis tensor `1`, input tensor diag(2, 4, 6): parameter `U11 = 12/3 = 4`
example : Src.Constraints.findUParameters [idM] ((2, 0, 0), (0, 4, 0), (0, 0, 6)) = some [(['U', '1', '1'], 4)] := by
  rw [findUParameters_eq]; decide +kernel

-- `_findeqUij`: stored tensor `4·1`, one equivalent tensor per class, rotated by the first operation of the class
example : (Src.Constraints.findeqUij [idM] [(['U', '1', '1'], (4 : ℚ))] [[toSym invOp, toSym Op.one]]).map
      (fun r => (toMat r.1, r.2.map toMat)) =
    some (Con.lincombT [4] [toMat idM], [Con.rotT (toMat (toSym invOp : SymOp ℚ).R) (Con.lincombT [4] [toMat idM])]) := by
  rw [findeqUij_eq _ _ _ rfl]; rfl

example : Src.Constraints.findUParameters [idM] ((2, 0, 0), (0, 4, 0), (0, 0, 6)) = some [(['U', '1', '1'], 4)] ∧
    (Src.Constraints.findeqUij [idM] [(['U', '1', '1'], (4 : ℚ))] [[toSym Op.one]]).map (fun r => toMat r.1) =
      some (Con.proj [toMat idM] (toMat ((2, 0, 0), (0, 4, 0), (0, 0, 6)))) := by
  have h : Src.Constraints.findUParameters [idM] ((2, 0, 0), (0, 4, 0), (0, 0, 6)) = some [(['U', '1', '1'], 4)] := by
    rw [findUParameters_eq]; decide +kernel
  refine ⟨h, ?_⟩
  have := stored_tensor_eq [idM] ((2, 0, 0), (0, 4, 0), (0, 0, 6)) [[toSym Op.one]] _ h
  have h2 := congrArg (Option.map Prod.fst) this
  simpa [Option.map_map, Function.comp_def, Py.mapOpt] using h2

set_option linter.unusedSectionVars false
set_option linter.unusedVariables false

/-- a generator site on the grid `D = 24`: the site `(0, 0, 6)/24` of the group `{1, −1}`… with one free direction `z`
(parameter `z = 1/4`), equivalent positions `(0,0,6)/24` and `(0,0,18)/24`, tolerance `1/24` -/
def demoGen : GenSite ℚ :=
  { xyz := castP 1 (0, 0, 6), Uij := idM, sgoffset := castP 1 (0, 0, 0), eps := sc 1 1,
    eqxyz := [castP 1 (0, 0, 6), castP 1 (0, 0, 18)], eqUij := [idM, idM],
    symops := [[toSym Op.one], [toSym invOp]], multiplicity := 2, Uisotropy := true, invariants := [toSym Op.one],
    null_space := [(0, 0, 1)], Uspace := [idM], pparameters := [(['z'], 1 / 4)], Uparameters := [(['U', '1', '1'], 4)] }

-- the lookup on the grid: the listed position `(0, 0, 19)/24` is nearest to the second equivalent position (box distance 1 ≤ E)
theorem demo_lookup : Src.Constraints.findEquivalent demoGen (castP 1 (0, 0, 19)) =
    some (some (castP 1 (0, 0, 18), (toSym invOp : SymOp ℚ).R)) := by
  rw [findEquivalent_grid (by decide : (0 : Int) < 1) 1 demoGen [(0, 0, 6), (0, 0, 18)] (0, 0, 19) (by decide) rfl rfl]
  have h1 : Orbit.nearestIdx (24 * 1) [(0, 0, 6), (0, 0, 18)] (0, 0, 19) = 1 := by decide
  rw [h1]
  have h2 : Orbit.boxDist (24 * 1) (([(0, 0, 6), (0, 0, 18)] : List P3).getD 1 (0, 0, 19)) (0, 0, 19) ≤ 1 := by decide
  rw [if_pos h2]
  rfl

-- … and a position farther than `E` from every equivalent position is not adopted: `positionFormula` returns `{}`
example : Src.Constraints.positionFormula demoGen (castP 1 (0, 0, 12)) [['a'], ['b'], ['c']] = some [] := by
  have : Src.Constraints.findEquivalent demoGen (castP 1 (0, 0, 12)) = some none := by
    rw [findEquivalent_grid (by decide : (0 : Int) < 1) 1 demoGen [(0, 0, 6), (0, 0, 18)] (0, 0, 12) (by decide) rfl rfl]
    have h2 : ¬ Orbit.boxDist (24 * 1) (([(0, 0, 6), (0, 0, 18)] : List P3).getD
        (Orbit.nearestIdx (24 * 1) [(0, 0, 6), (0, 0, 18)] (0, 0, 12)) (0, 0, 12)) (0, 0, 12) ≤ 1 := by decide
    rw [if_neg h2]
  unfold Src.Constraints.positionFormula
  rw [this]; rfl

-- `positionFormula_eq` applies: the formula of the second equivalent position is `z ↦ −z` in the caller's third symbol
example : Src.Constraints.positionFormula demoGen (castP 1 (0, 0, 19)) [['a'], ['b'], ['c']] =
    some (Con.posPieces (Src.Constraints.epsilon : ℚ)
      (Con.posFormula (toMat (toSym invOp : SymOp ℚ).R) [⟨0, 0, 1⟩] [1 / 4] (toVec (castP 1 (0, 0, 18))))
      [['c']]) := by
  rw [positionFormula_eq demoGen _ _ _ _ demo_lookup (by intro p hp; simp [demoGen] at hp; subst hp; decide)]
  rfl

-- `UFormula_eq` applies
example : Src.Constraints.UFormula demoGen (castP 1 (0, 0, 19)) Src.Constraints.stdUsymbols =
    some (Con.uPieces [Con.rotT (toMat (toSym invOp : SymOp ℚ).R) (toMat idM)] [['U', '1', '1']]) := by
  rw [UFormula_eq demoGen _ _ _ _ demo_lookup
    (by intro B hB; simp [demoGen] at hB; subst hB; exact ⟨rfl, rfl, rfl⟩)
    (by intro p hp; simp [demoGen] at hp; subst hp; decide)]
  rfl

example : Src.Constraints.eqIndex demoGen (castP 1 (0, 0, 19)) = some 1 := by
  rw [eqIndex_grid (by decide : (0 : Int) < 1) demoGen [(0, 0, 6), (0, 0, 18)] (0, 0, 19) (by decide) rfl]
  decide

-- the pieces denote the affine map: `z ↦ 3/4 − …` evaluated at `c = 1/3`
example : Con.evalPieces (fun _ => 1 / 3) (Con.posPieces1 (1 / 100000) ([⟨0, 0, -1⟩], ⟨0, 1 / 2, 0⟩) [['c']] 2) =
    Con.coord (Con.evalFormula ([⟨0, 0, -1⟩], ⟨0, 1 / 2, 0⟩) ([['c']].map fun _ => 1 / 3)) 2 :=
  evalPieces_posPieces _ _ _ _ _ (by decide +kernel) (by decide +kernel)

set_option linter.unusedSectionVars false
set_option linter.unusedVariables false

/-! #### `findConstraints_eq` is not vacuous: a `GenOK` instance (both listed positions belong to the orbit of `demoGen`) -/

def demoDom (p : V3 ℚ) : Prop := p = castP 1 (0, 0, 6) ∨ p = castP 1 (0, 0, 18)

theorem demo_find (q : V3 ℚ) (hq : demoDom q) :
    ∃ j R, Src.Constraints.findEquivalent demoGen q = some (some (q, R)) ∧ Src.Constraints.eqIndex demoGen q = some j ∧
      demoGen.eqxyz[j]? = some q ∧ demoGen.eqUij[j]? = some idM := by
  rcases hq with rfl | rfl
  · refine ⟨0, (toSym Op.one : SymOp ℚ).R, ?_, ?_, rfl, rfl⟩
    · rw [findEquivalent_grid (by decide : (0 : Int) < 1) 1 demoGen [(0, 0, 6), (0, 0, 18)] (0, 0, 6) (by decide) rfl rfl]
      have h1 : Orbit.nearestIdx (24 * 1) [(0, 0, 6), (0, 0, 18)] (0, 0, 6) = 0 := by decide
      rw [h1]
      have h2 : Orbit.boxDist (24 * 1) (([(0, 0, 6), (0, 0, 18)] : List P3).getD 0 (0, 0, 6)) (0, 0, 6) ≤ 1 := by decide
      rw [if_pos h2]; rfl
    · rw [eqIndex_grid (by decide : (0 : Int) < 1) demoGen [(0, 0, 6), (0, 0, 18)] (0, 0, 6) (by decide) rfl]; decide
  · refine ⟨1, (toSym invOp : SymOp ℚ).R, ?_, ?_, rfl, rfl⟩
    · rw [findEquivalent_grid (by decide : (0 : Int) < 1) 1 demoGen [(0, 0, 6), (0, 0, 18)] (0, 0, 18) (by decide) rfl rfl]
      have h1 : Orbit.nearestIdx (24 * 1) [(0, 0, 6), (0, 0, 18)] (0, 0, 18) = 1 := by decide
      rw [h1]
      have h2 : Orbit.boxDist (24 * 1) (([(0, 0, 6), (0, 0, 18)] : List P3).getD 1 (0, 0, 18)) (0, 0, 18) ≤ 1 := by decide
      rw [if_pos h2]; rfl
    · rw [eqIndex_grid (by decide : (0 : Int) < 1) demoGen [(0, 0, 6), (0, 0, 18)] (0, 0, 18) (by decide) rfl]; decide

theorem stable_self (q : V3 ℚ) : Np.add q (Np.sub (Np.sub q q) (Np.round (Np.sub q q))) = q := by
  obtain ⟨a, b, c⟩ := q
  have h0 : Np.roundS (0 : ℚ) = 0 := by simpa using roundS_int (α := ℚ) 0
  simp [Np.add, Np.sub, Np.round, Np.zip3, Np.map3, h0]

theorem demoOK : GenOK (fun _ _ => some demoGen) (fun _ _ => true) demoDom where
  mk_ok := fun _ _ _ => ⟨demoGen, rfl⟩
  pnames := by
    intro p u g _ hg kv hkv
    simp only [Option.some.injEq] at hg
    subst hg
    simp [demoGen] at hkv; subst hkv; decide
  unames := by
    intro p u g _ hg kv hkv
    simp only [Option.some.injEq] at hg
    subst hg
    simp [demoGen] at hkv; subst hkv; decide
  formula := by
    intro p u g q syms _ hq hg hs
    simp only [Option.some.injEq] at hg
    subst hg
    obtain ⟨j, R, hf, -, -, -⟩ := demo_find q hq
    obtain ⟨a, b, c, rfl⟩ : ∃ a b c, syms = [a, b, c] := by
      match syms, hs with
      | [a, b, c], _ => exact ⟨a, b, c, rfl⟩
    refine ⟨_, positionFormula_eq demoGen q _ q R hf ?_, rfl⟩
    intro p hp
    simp [demoGen] at hp; subst hp
    simp [symOf, Py.dictZip, Py.dictSet, Py.dictHas, Py.dictGet]
  adopt := by
    intro p u g q syms _ hq hg hs _
    simp only [Option.some.injEq] at hg
    subst hg
    obtain ⟨j, R, hf, hj, he, hu⟩ := demo_find q hq
    obtain ⟨a, b, c, d, e, f, rfl⟩ : ∃ a b c d e f, syms = [a, b, c, d, e, f] := by
      match syms, hs with
      | [a, b, c, d, e, f], _ => exact ⟨a, b, c, d, e, f, rfl⟩
    refine ⟨⟨_, UFormula_eq demoGen q _ q R hf ?_ ?_⟩, j, q, idM, hj, he, hu, stable_self q⟩
    · intro B hB; simp [demoGen] at hB; subst hB; exact ⟨rfl, rfl, rfl⟩
    · intro p hp
      simp [demoGen] at hp; subst hp
      simp [Src.Constraints.stdUsymbols, Py.dictZip, Py.dictSet, Py.dictHas, Py.dictGet]

-- the two listed positions form one class with generator 0
example : ∃ st, Src.Constraints.findConstraints (fun _ _ => some demoGen) [castP 1 (0, 0, 6), castP 1 (0, 0, 18)] [idM, idM] =
      some (st, [castP 1 (0, 0, 6)]) ∧ st.coremap = [(0, [0, 1])] ∧ st.independent = [] := by
  obtain ⟨st, h1, h2, h3, h4⟩ := findConstraints_eq demoOK (fun _ _ => rfl) [castP 1 (0, 0, 6), castP 1 (0, 0, 18)] [idM, idM] rfl
    (by intro p hp; simp at hp; exact hp)
  have hcm : st.coremap = [(0, [0, 1])] := by
    rw [h2]; simp [Partition.partRel, relI, List.range, List.range.loop]
  refine ⟨st, ?_, hcm, h4⟩
  rw [h1, hcm]; rfl

set_option linter.unusedSectionVars false
set_option linter.unusedVariables false

/-! #### symbol translation: `x1` and `x10` are different symbols; the substitution, run on concrete strings -/

-- `re.sub(r"\b[xyz]\d+", …)` on `"x10 -2*x1 +0.5"` with `x1 -> A`, `x10 -> B` (computed by the transliteration itself)
example : Src.Constraints.positionFormulas
    [[(['x'], "x10 -2*x1 +0.5".toList)]] ["x1".toList, "x10".toList] ["A".toList, "B".toList] =
    some (some [[(['x'], "B -2*A +0.5".toList)]]) := by decide +kernel

-- the same through the theorem: tokens, well-formedness, renaming
example : Src.Constraints.positionFormulas
    ([[(['x'], [FTok.sym ['x'] 10, FTok.lit [' ', '-', '2', '*'], FTok.sym ['x'] 1, FTok.lit [' ', '+', '0', '.', '5']])]].map renderDict)
    [['x'] ++ Py.strNat 1, ['x'] ++ Py.strNat 10] [['A'], ['B']] =
    some (Py.mapOpt (renameDict fun s => Py.dictGet (([['x'] ++ Py.strNat 1, ['x'] ++ Py.strNat 10] : List (List Char)).zip [['A'], ['B']]) s)
      [[(['x'], [FTok.sym ['x'] 10, FTok.lit [' ', '-', '2', '*'], FTok.sym ['x'] 1, FTok.lit [' ', '+', '0', '.', '5']])]]) := by
  rw [positionFormulas_eq _ _ _ (by decide) (by decide +kernel)]
  · rfl
  · intro d hd
    simp only [List.mem_singleton] at hd
    subst hd
    refine ⟨?_, by decide⟩
    intro e he
    simp only [List.mem_singleton] at he
    subst he
    refine ⟨rfl, ⟨'x', [], rfl, by decide, by decide, rfl, rfl⟩, by decide +kernel, ?_, rfl, ⟨'x', [], rfl, by decide, by decide, rfl, rfl⟩,
      by decide +kernel, ?_, trivial⟩
    · decide +kernel
    · decide +kernel

-- too few caller symbols: `SymmetryError`; a formula symbol that is not a parameter: `KeyError`
example : Src.Constraints.positionFormulas [[(['x'], "x1".toList)]] ["x1".toList, "y1".toList] ["A".toList] = none := by
  decide +kernel
example : Src.Constraints.positionFormulas [[(['x'], "x7".toList)]] ["x1".toList] ["A".toList] = some none := by
  decide +kernel

-- U symbols: `U110` (parameter U11 of site 0) and `U1110` (site 10) do not collide
example : Src.Constraints.UFormulas [[(['U', '1', '1'], "0.5*U1110+U110".toList)]] ["U110".toList, "U1110".toList]
    ["p".toList, "q".toList] = some (some [[(['U', '1', '1'], "0.5*q+p".toList)]]) := by decide +kernel

example : Py.dictGet (([['x'] ++ Py.strNat 1, ['x'] ++ Py.strNat 10] : List (List Char)).zip [['A'], ['B']]) (['x'] ++ Py.strNat 10) =
    some ['B'] :=
  translation_exact [['x'] ++ Py.strNat 1, ['x'] ++ Py.strNat 10] [['A'], ['B']] (by decide +kernel) 1 (by decide) (by decide)

/-! #### `signedRatStr`, `snapSite`, adoption, pruning -/

theorem roundZ_int (m : Int) : roundZ ((m : Int) : ℚ) = m := by
  have h5 : (0 : ℚ) < (0.5 : ℚ) := by norm_num
  unfold roundZ
  simp only [Int.floor_intCast, sub_self, h5, if_true]

theorem firstDen_third : firstDen (1 / 100000) (1 / 3 : ℚ) = some 3 := by
  unfold firstDen
  apply List.find?_cons_of_pos
  have e : (1 / 3 : ℚ) * 3 = ((1 : Int) : ℚ) := by norm_num
  rw [e, roundZ_int]
  norm_num

-- `1/3` is printed as `+1/3`, which the parser reads back exactly
example : Src.Constraints.signedRatStr (fun _ => false) (1 / 100000) (1 / 3 : ℚ) = some (Sum.inr (1 / 3 * 3, 3)) := by
  rw [signedRatStr_eq]
  simp only [Bool.false_eq_true, if_false, firstDen_third]

example : ∃ dn : Nat, dn ∈ [3, 6, 7, 9] ∧ (3 : ℚ) = (dn : ℚ) ∧ (1 / 3 * 3 : ℚ) = 1 / 3 * 3 ∧
    parseFrac (fmtFrac (roundZ (1 / 3 * 3)) dn) = some ((roundZ (1 / 3 * 3 : ℚ) : ℚ) / 3) ∧
    |(1 / 3 : ℚ) - (roundZ (1 / 3 * 3 : ℚ) : ℚ) / 3| < 1 / 100000 / 3 := by
  apply signedRatStr_parses (fun _ => false) (1 / 100000) (1 / 3) (1 / 3 * 3) 3
  rw [signedRatStr_eq]
  simp only [Bool.false_eq_true, if_false, firstDen_third]

example : parseFrac (fmtFrac (-2) 3) = some (((-2 : Int) : ℚ) / ((3 : Nat) : ℚ)) := parseFrac_fmtFrac (-2) 3

-- the site `(0,0,0)` of `{1, −1}` lies exactly on its special position: it is not moved
example : Src.Constraints.snapSite ([Op.one, invOp].map (toSym (α := ℚ))) (castP 1 (0, 0, 0)) (castP 1 (0, 0, 0)) (sc 1 1) =
    some (castP 1 (0, 0, 0), [castP 1 (0, 0, 0)], [[toSym Op.one, toSym invOp]], 1, [toSym Op.one, toSym invOp]) := by
  have hres : Orbit.result [Op.one, invOp] 1 1 (0, 0, 0) (0, 0, 0) = ([(0, 0, 0)], [[Op.one, invOp]], 1) := by decide
  have := snapSite_exact (α := ℚ) [Op.one, invOp] (by decide : (0 : Int) < 1) (by decide : (0 : Int) < 1) (0, 0, 0) (0, 0, 0) [Op.one, invOp]
    (by rw [hres]; simp [List.find?, isIdOp_one]) (by decide)
  rw [this, hres]; rfl

-- adoption = same orbit, on the images of `(0,0,6)/24` under `{1, −1}`
example : Orbit.boxDist (24 * 1) ((Orbit.result [Op.one, invOp] 1 1 (0, 0, 0) (0, 0, 6)).1.getD
      (Orbit.nearestIdx (24 * 1) (Orbit.result [Op.one, invOp] 1 1 (0, 0, 0) (0, 0, 6)).1 (0, 0, 42)) (0, 0, 42)) (0, 0, 42) ≤ 1 ↔
    Partition.inOrbit [Op.one, invOp] 1 (0, 0, 6) (0, 0, 42) = true :=
  adoption_iff_inOrbit (by decide) (by decide) (by decide) (by decide +kernel) (by decide +kernel)

example : Src.Constraints.pruneFormulaDictionary (fun s : List Char => s == ['0']) [(['x'], ['x', '0']), (['y'], ['0'])] =
    [(['x'], ['x', '0'])] := by
  rw [pruneFormulaDictionary_eq _ _ (by decide)]; rfl

example : Src.Constraints.expandAsymmetricUnit (fun _ _ => some demoGen) [castP 1 (0, 0, 6)] none =
    some ([2], [true], [demoGen.eqxyz], [demoGen.eqUij]) := by
  rw [expandAsymmetricUnit_eq]; rfl

set_option linter.unusedSectionVars false
set_option linter.unusedVariables false

/-! ### 15. the end-to-end statement for `SymmetryConstraints` on exact positions (proved in section 16) -/

/-- what is assumed of the certificate-checked SVD routines (as functions of the site-symmetry operations): entries are zero or at
least `epsilon` in size, `_findPosParameters` / `_findUParameters` find a name for every row / tensor, the tensors are symmetric -/
structure OracleOK (fns : List (SymOp ℚ) → List (V3 ℚ)) (fus : List (SymOp ℚ) → List (M3 ℚ)) : Prop where
  gap : ∀ inv, ∀ v ∈ fns inv, GapV v
  names : ∀ inv, (Con.posNames ((fns inv).map toVec)).isSome
  unames : ∀ inv, ∀ B ∈ fus inv, (Con.uName (toMat B)).isSome ∧ (toMat B).isSymm

/-- **Full refinement of `SymmetryConstraints._findConstraints` (statement).**  For a group of operations, a listing of exact
positions on the grid `D = 24k` such that the images of every listed position are pairwise equal or farther apart than `E`
(`Orbit.Sep`, as in C02 — in particular every listed site lies exactly on its special position) and every image of a listed
position coincides with another listed position modulo lattice translations or is farther than `E` from it: the transliteration of
`_findConstraints` with the transliterated `GeneratorSite.__init__` (on top of the transliterated `expandPosition`) raises nothing,
leaves the positions where they are, and `coremap` is `Partition.coremap ops k positions` — the model that
`DS.Props.C05Partition` proves to be the orbit partition with first-in-listing-order generators.

Proved parts, each for all inputs: `findConstraints_eq` (the loop computes `Partition.partRel` for ANY generator sites that satisfy
`GenOK`), `coremap_eq_partRel` (`Partition.coremap` is that partition for "same orbit"), `adoption_iff_inOrbit` (the adoption test
is "same orbit" under exactly these separation hypotheses), `findEquivalent_grid` / `eqIndex_grid` (the lookup is
`Orbit.nearestIdx` / `Orbit.boxDist ≤ E`), `snapSite_exact` (an exact site is not moved; its expansion is `Orbit.result` by
`DS.Props.SrcSym.refines`), `findPosParameters_eq`, `findUParameters_eq`, `findeqUij_eq`, `positionFormula_eq`, `UFormula_eq`
(the per-site calls succeed with the stated values); assembled in section 16: `generatorSite_grid`, `genOK_grid`, and the theorem
`findConstraints_grid : findConstraints_grid_statement`.  Floating point and listings with noise stay with the stream
`con.partition` and the exact oracle of `harness/c05.py`. -/
def findConstraints_grid_statement : Prop :=
  ∀ (ops : List Op) (k E : Int) (positions : List P3) (U : List (M3 ℚ))
    (fns : List (SymOp ℚ) → List (V3 ℚ)) (fus : List (SymOp ℚ) → List (M3 ℚ)),
    0 < k → 0 < E → IsGroup ops → U.length = positions.length → OracleOK fns fus →
    (∀ p ∈ positions, Orbit.Sep ops k E (0, 0, 0) p) →
    (∀ p ∈ positions, ∀ q ∈ positions, ∀ a ∈ ops, Orbit.img a k (0, 0, 0) p = Orbit.red k q ∨
      E < Orbit.boxDist (24 * k) (Orbit.img a k (0, 0, 0) p) (Orbit.red k q)) →
    ∃ st, Src.Constraints.findConstraints
        (fun p u => Src.Constraints.generatorSiteInit (ops.map toSym) fns fus p u (castP k (0, 0, 0)) (sc k E))
        (positions.map (castP k)) U =
      some (st, (st.coremap.map (·.1)).map fun i => (positions.map (castP k)).getD i (0, 0, 0)) ∧
      st.coremap = Partition.coremap ops k positions ∧ st.positions = positions.map (castP k)

set_option linter.unusedSectionVars false
set_option linter.unusedVariables false

/-! ### 16. assembling the end-to-end statement -/

theorem isIdOp_iff (a : Op) : isIdOp (toSym a : SymOp ℚ) = true ↔ a = Op.one := by
  constructor
  · intro h
    obtain ⟨r11, r12, r13, r21, r22, r23, r31, r32, r33, t1, t2, t3⟩ := a
    simp [isIdOp, Np.allM, Np.eqM, Np.all, Np.eq, Np.zipM3, Np.zip3, Np.identity3, Np.zeros3, toSym] at h
    norm_num at h
    simp only [Op.one, Op.mk.injEq]
    tauto
  · rintro rfl; exact isIdOp_one

/-- the class of operations found by `_findInvariants` in an exact expansion fixes the site exactly -/
theorem invariants_exact {ops : List Op} (hG : IsGroup ops) {k E : Int} (hk : 0 < k) (hE : 0 < E) (x : P3)
    (hsep : Orbit.Sep ops k E (0, 0, 0) x) :
    ∃ cls0, (Orbit.result ops k E (0, 0, 0) x).2.1.find? (fun c => c.any fun a => isIdOp (toSym a : SymOp ℚ)) = some cls0 ∧
      ∀ a ∈ cls0, Orbit.img a k (0, 0, 0) x = Orbit.red k x := by
  rw [Orbit.result_exact hk hE hsep]
  simp only
  have hone : Op.one ∈ ops := Partition.one_mem hG
  have hmem : Orbit.red k x ∈ Orbit.dedupFirst (ops.map fun g => Orbit.img g k (0, 0, 0) x) := by
    rw [Orbit.mem_dedupFirst, List.mem_map]
    exact ⟨Op.one, hone, Orbit.img_one k _ x⟩
  have hex : ∃ c ∈ (Orbit.dedupFirst (ops.map fun g => Orbit.img g k (0, 0, 0) x)).map
      (fun p => ops.filter fun g => decide (Orbit.img g k (0, 0, 0) x = p)), (c.any fun a => isIdOp (toSym a : SymOp ℚ)) = true := by
    refine ⟨_, List.mem_map_of_mem hmem, ?_⟩
    rw [List.any_eq_true]
    exact ⟨Op.one, List.mem_filter.2 ⟨hone, by simpa using Orbit.img_one k _ x⟩, isIdOp_one⟩
  obtain ⟨c, hc, hcany⟩ := hex
  cases hf : ((Orbit.dedupFirst (ops.map fun g => Orbit.img g k (0, 0, 0) x)).map
      (fun p => ops.filter fun g => decide (Orbit.img g k (0, 0, 0) x = p))).find?
      (fun c => c.any fun a => isIdOp (toSym a : SymOp ℚ)) with
  | none =>
    rw [List.find?_eq_none] at hf
    exact absurd hcany (by simpa using hf c hc)
  | some cls0 =>
    refine ⟨cls0, rfl, ?_⟩
    have h1 := List.find?_some hf
    have h2 := List.mem_of_find?_eq_some hf
    obtain ⟨p, _, rfl⟩ := List.mem_map.1 h2
    rw [List.any_eq_true] at h1
    obtain ⟨a, ha, haid⟩ := h1
    rw [isIdOp_iff] at haid
    subst haid
    have hp : Orbit.img Op.one k (0, 0, 0) x = p := by simpa using (List.mem_filter.1 ha).2
    intro b hb
    have : Orbit.img b k (0, 0, 0) x = p := by simpa using (List.mem_filter.1 hb).2
    rw [this, ← hp, Orbit.img_one]


theorem mapOpt_some_of_all {β γ : Type} (f : β → Option γ) : ∀ (l : List β), (∀ x ∈ l, (f x).isSome) → ∃ r, Py.mapOpt f l = some r
  | [], _ => ⟨[], rfl⟩
  | x :: xs, h => by
    obtain ⟨y, hy⟩ := Option.isSome_iff_exists.1 (h x (List.mem_cons_self ..))
    obtain ⟨ys, hys⟩ := mapOpt_some_of_all f xs (fun z hz => h z (List.mem_cons_of_mem _ hz))
    exact ⟨y :: ys, by rw [Py.mapOpt, hy, hys]; rfl⟩

theorem mapOpt_mem {β γ : Type} (f : β → Option γ) : ∀ (l : List β) (r : List γ), Py.mapOpt f l = some r →
    ∀ y ∈ r, ∃ x ∈ l, f x = some y
  | [], r, h, y, hy => by simp [Py.mapOpt] at h; subst h; simp at hy
  | x :: xs, r, h, y, hy => by
    rw [Py.mapOpt] at h
    cases hx : f x with
    | none => simp [hx] at h
    | some z =>
      cases hxs : Py.mapOpt f xs with
      | none => simp [hx, hxs] at h
      | some zs =>
        simp [hx, hxs] at h
        subst h
        rcases List.mem_cons.1 hy with rfl | hy'
        · exact ⟨x, List.mem_cons_self .., hx⟩
        · obtain ⟨x', hx', e⟩ := mapOpt_mem f xs zs hxs y hy'
          exact ⟨x', List.mem_cons_of_mem _ hx', e⟩

theorem uName_mem_std (B : Mat3 ℚ) (n : List Char) (h : Con.uName B = some n) :
    n ∈ (Src.Constraints.stdUsymbols : List (List Char)) := by
  rw [uName_spec] at h
  simp only [Src.Constraints.stdUsymbols]
  split_ifs at h <;> simp_all

/-- the generator site that `GeneratorSite.__init__` builds for an exact site of a group (`Orbit.Sep`): construction succeeds
and its attributes are those of the exact expansion `Orbit.result` -/
theorem generatorSite_grid {ops : List Op} (hG : IsGroup ops) {k E : Int} (hk : 0 < k) (hE : 0 < E)
    (fns : List (SymOp ℚ) → List (V3 ℚ)) (fus : List (SymOp ℚ) → List (M3 ℚ)) (hor : OracleOK fns fus) (x : P3) (u : M3 ℚ)
    (hsep : Orbit.Sep ops k E (0, 0, 0) x) :
    ∃ g, Src.Constraints.generatorSiteInit (ops.map toSym) fns fus (castP k x) u (castP k (0, 0, 0)) (sc k E) = some g ∧
      g.eqxyz = (Orbit.result ops k E (0, 0, 0) x).1.map (castP k) ∧
      g.symops = (Orbit.result ops k E (0, 0, 0) x).2.1.map (List.map toSym) ∧ g.eps = sc k E ∧
      g.eqUij.length = (Orbit.result ops k E (0, 0, 0) x).2.1.length ∧
      (∀ B ∈ g.Uspace, (toMat B).isSymm) ∧
      (∀ kv ∈ g.pparameters, kv.1 ∈ ([['x'], ['y'], ['z']] : List (List Char))) ∧
      (∀ kv ∈ g.Uparameters, kv.1 ∈ (Src.Constraints.stdUsymbols : List (List Char))) := by
  obtain ⟨cls0, hinv, hexact⟩ := invariants_exact hG hk hE x hsep
  rw [generatorSiteInit_eq, snapSite_exact ops hk hE (0, 0, 0) x cls0 hinv hexact]
  simp only [Option.bind_some]
  -- position parameters
  obtain ⟨names, hnames⟩ := Option.isSome_iff_exists.1 (hor.names (cls0.map toSym))
  have hpp := findPosParameters_eq (fns (cls0.map toSym)) (castP k x) (hor.gap _)
  rw [hnames, Option.map_some] at hpp
  rw [hpp]
  simp only [Option.bind_some]
  -- U parameters
  obtain ⟨unames, hunames⟩ := mapOpt_some_of_all (fun b => Con.uName (toMat b)) (fus (cls0.map toSym))
    (fun B hB => (hor.unames _ B hB).1)
  have hup := findUParameters_eq (fus (cls0.map toSym)) u
  rw [hunames, Option.map_some] at hup
  rw [hup]
  simp only [Option.bind_some]
  -- equivalent tensors: every class of the exact expansion is non-empty
  have hres := Orbit.result_exact hk hE hsep
  have hcls : ∀ c ∈ (Orbit.result ops k E (0, 0, 0) x).2.1.map (List.map (toSym (α := ℚ))), (List.head? c).isSome := by
    intro c hc
    rw [hres] at hc
    simp only [List.map_map, List.mem_map] at hc
    obtain ⟨p, hp, rfl⟩ := hc
    rw [Orbit.mem_dedupFirst, List.mem_map] at hp
    obtain ⟨a, ha, hap⟩ := hp
    have : a ∈ ops.filter (fun g => decide (Orbit.img g k (0, 0, 0) x = p)) := List.mem_filter.2 ⟨ha, by simpa using hap⟩
    cases hh : ops.filter (fun g => decide (Orbit.img g k (0, 0, 0) x = p)) with
    | nil => rw [hh] at this; simp at this
    | cons b bs => simp [Function.comp, hh]
  obtain ⟨firsts, hfirsts⟩ := mapOpt_some_of_all List.head? _ hcls
  have hlen : (unames.zip (Con.projCoefs ((fus (cls0.map toSym)).map toMat) (toMat u))).length = (fus (cls0.map toSym)).length := by
    have := mapOpt_length _ _ _ hunames
    simp [this, Con.projCoefs]
  have heq := findeqUij_eq (fus (cls0.map toSym)) (unames.zip (Con.projCoefs ((fus (cls0.map toSym)).map toMat) (toMat u)))
    ((Orbit.result ops k E (0, 0, 0) x).2.1.map (List.map toSym)) hlen
  rw [hfirsts, Option.map_some] at heq
  cases hfe : Src.Constraints.findeqUij (fus (cls0.map toSym))
      (unames.zip (Con.projCoefs ((fus (cls0.map toSym)).map toMat) (toMat u)))
      ((Orbit.result ops k E (0, 0, 0) x).2.1.map (List.map toSym)) with
  | none => rw [hfe] at heq; simp at heq
  | some r =>
    rw [hfe, Option.map_some, Option.some.injEq, Prod.mk.injEq] at heq
    simp only [Option.bind_some]
    refine ⟨_, rfl, rfl, rfl, rfl, ?_, fun B hB => (hor.unames _ B hB).2, ?_, ?_⟩
    · show r.2.length = _
      have h1 := congrArg List.length heq.2
      have h2 := mapOpt_length _ _ _ hfirsts
      simp only [List.length_map] at h1 h2
      omega
    · intro kv hkv
      have := (posNames_spec _ _ hnames).2.2
      exact this kv.1 (List.of_mem_zip (show (kv.1, kv.2) ∈ names.zip _ from hkv)).1
    · intro kv hkv
      have hm := (List.of_mem_zip (show (kv.1, kv.2) ∈ unames.zip _ from hkv)).1
      obtain ⟨B, _, hB⟩ := mapOpt_mem _ _ _ hunames kv.1 hm
      exact uName_mem_std _ _ hB

set_option linter.unusedSectionVars false
set_option linter.unusedVariables false

/-- the grid coordinates of a position `x/D` -/
def uncast (k : Int) (v : V3 ℚ) : P3 := (⌊v.1 * ((24 * k : Int) : ℚ)⌋, ⌊v.2.1 * ((24 * k : Int) : ℚ)⌋, ⌊v.2.2 * ((24 * k : Int) : ℚ)⌋)

theorem uncast_cast {k : Int} (hk : 0 < k) (x : P3) : uncast k (castP k x : V3 ℚ) = x := by
  obtain ⟨x1, x2, x3⟩ := x
  have hD := ne_of_gt (D_pos (α := ℚ) hk)
  have key : ∀ X : Int, ⌊(sc k X : ℚ) * ((24 * k : Int) : ℚ)⌋ = X := by
    intro X
    unfold sc
    rw [div_mul_cancel₀ _ hD]
    exact Int.floor_intCast X
  simp only [uncast, castP, key]

/-- "listed position `q` lies in the orbit of listed position `p`", on fractional coordinates -/
def relG (ops : List Op) (k : Int) (p q : V3 ℚ) : Bool := Partition.inOrbit ops k (uncast k p) (uncast k q)

theorem result_ne_nil {ops : List Op} (hG : IsGroup ops) {k E : Int} (hk : 0 < k) (hE : 0 < E) (x : P3)
    (hsep : Orbit.Sep ops k E (0, 0, 0) x) : (Orbit.result ops k E (0, 0, 0) x).1 ≠ [] := by
  rw [Orbit.result_exact hk hE hsep]
  intro h
  have : Orbit.red k x ∈ Orbit.dedupFirst (ops.map fun g => Orbit.img g k (0, 0, 0) x) := by
    rw [Orbit.mem_dedupFirst, List.mem_map]
    exact ⟨Op.one, Partition.one_mem hG, Orbit.img_one k _ x⟩
  simp only at h
  rw [h] at this; simp at this

theorem result_class_head {ops : List Op} {k E : Int} (hk : 0 < k) (hE : 0 < E) (x : P3)
    (hsep : Orbit.Sep ops k E (0, 0, 0) x) (j : Nat) (hj : j < (Orbit.result ops k E (0, 0, 0) x).1.length) :
    ∃ c op, ((Orbit.result ops k E (0, 0, 0) x).2.1.map (List.map (toSym (α := ℚ))))[j]? = some c ∧ c.head? = some op := by
  rw [Orbit.result_exact hk hE hsep] at hj ⊢
  simp only at hj ⊢
  set ps := Orbit.dedupFirst (ops.map fun g => Orbit.img g k (0, 0, 0) x)
  have hp : ps[j] ∈ ps := List.getElem_mem hj
  obtain ⟨a, ha, hap⟩ := List.mem_map.1 (Orbit.mem_dedupFirst.1 hp)
  have hmem : a ∈ ops.filter (fun g => decide (Orbit.img g k (0, 0, 0) x = ps[j])) := List.mem_filter.2 ⟨ha, by simpa using hap⟩
  rw [List.map_map, List.getElem?_map, List.getElem?_eq_getElem hj]
  simp only [Option.map_some, Function.comp]
  cases hh : ops.filter (fun g => decide (Orbit.img g k (0, 0, 0) x = ps[j])) with
  | nil => rw [hh] at hmem; simp at hmem
  | cons b bs => exact ⟨_, _, rfl, rfl⟩

/-- an adopted position coincides, modulo lattice translations, with the equivalent position it was matched to -/
theorem adopted_eq_red {k E : Int} (hk : 0 < k) (hE : 0 < E) {ops : List Op} {p q : P3} (hne : (Orbit.result ops k E (0, 0, 0) p).1 ≠ [])
    (hsep : Orbit.Sep ops k E (0, 0, 0) p)
    (hfar : ∀ a ∈ ops, Orbit.img a k (0, 0, 0) p = Orbit.red k q ∨ E < Orbit.boxDist (24 * k) (Orbit.img a k (0, 0, 0) p) (Orbit.red k q))
    (h : Orbit.boxDist (24 * k) ((Orbit.result ops k E (0, 0, 0) p).1.getD
      (Orbit.nearestIdx (24 * k) (Orbit.result ops k E (0, 0, 0) p).1 q) q) q ≤ E) :
    (Orbit.result ops k E (0, 0, 0) p).1.getD (Orbit.nearestIdx (24 * k) (Orbit.result ops k E (0, 0, 0) p).1 q) q = Orbit.red k q := by
  have hlt := Orbit.nearestIdx_lt (24 * k) _ q hne
  have hgd : (Orbit.result ops k E (0, 0, 0) p).1.getD (Orbit.nearestIdx (24 * k) (Orbit.result ops k E (0, 0, 0) p).1 q) q =
      (Orbit.result ops k E (0, 0, 0) p).1[Orbit.nearestIdx (24 * k) (Orbit.result ops k E (0, 0, 0) p).1 q] := by
    rw [List.getD_eq_getElem?_getD, List.getElem?_eq_getElem hlt]; rfl
  have hmem : (Orbit.result ops k E (0, 0, 0) p).1[Orbit.nearestIdx (24 * k) (Orbit.result ops k E (0, 0, 0) p).1 q] ∈
      (Orbit.result ops k E (0, 0, 0) p).1 := List.getElem_mem hlt
  have hall : ∀ y ∈ (Orbit.result ops k E (0, 0, 0) p).1, ∃ a ∈ ops, Orbit.img a k (0, 0, 0) p = y := by
    intro y hy
    rw [Orbit.result_exact hk hE hsep] at hy
    exact List.mem_map.1 (Orbit.mem_dedupFirst.1 hy)
  obtain ⟨a, ha, hax⟩ := hall _ hmem
  rw [hgd] at h ⊢
  rw [← hax] at h ⊢
  rw [← boxDist_red_right] at h
  rcases hfar a ha with he | hf
  · exact he
  · omega

set_option linter.unusedSectionVars false
set_option linter.unusedVariables false

theorem symOf_some (syms : List (List Char)) (hs : syms.length = 3) (c : List Char)
    (hc : c ∈ ([['x'], ['y'], ['z']] : List (List Char))) : (symOf syms c).isSome = true := by
  match syms, hs with
  | [a, b, d], _ =>
    simp only [List.mem_cons, List.not_mem_nil, or_false] at hc
    rcases hc with rfl | rfl | rfl <;> simp [symOf, Py.dictZip, Py.dictSet, Py.dictHas, Py.dictGet]

theorem usymOf_some (syms : List (List Char)) (hs : syms.length = 6) (c : List Char)
    (hc : c ∈ (Src.Constraints.stdUsymbols : List (List Char))) :
    (Py.dictGet (Py.dictZip Src.Constraints.stdUsymbols syms) c).isSome = true := by
  match syms, hs with
  | [a, b, d, e, f, g], _ =>
    simp only [Src.Constraints.stdUsymbols, List.mem_cons, List.not_mem_nil, or_false] at hc
    rcases hc with rfl | rfl | rfl | rfl | rfl | rfl <;>
      simp [Src.Constraints.stdUsymbols, Py.dictZip, Py.dictSet, Py.dictHas, Py.dictGet]

/-- **`GeneratorSite` on an exact listing satisfies `GenOK`** with the relation "same orbit" -/
theorem genOK_grid {ops : List Op} (hG : IsGroup ops) {k E : Int} (hk : 0 < k) (hE : 0 < E)
    (fns : List (SymOp ℚ) → List (V3 ℚ)) (fus : List (SymOp ℚ) → List (M3 ℚ)) (hor : OracleOK fns fus) (positions : List P3)
    (hsep : ∀ p ∈ positions, Orbit.Sep ops k E (0, 0, 0) p)
    (hfar : ∀ p ∈ positions, ∀ q ∈ positions, ∀ a ∈ ops, Orbit.img a k (0, 0, 0) p = Orbit.red k q ∨
      E < Orbit.boxDist (24 * k) (Orbit.img a k (0, 0, 0) p) (Orbit.red k q)) :
    GenOK (fun p u => Src.Constraints.generatorSiteInit (ops.map toSym) fns fus p u (castP k (0, 0, 0)) (sc k E))
      (relG ops k) (fun p => ∃ x ∈ positions, p = castP k x) := by
  have hopsne : ops ≠ [] := by
    intro h; have := hG.one_first; rw [h] at this; simp at this
  -- everything about one generator site and one listed position
  have key : ∀ x ∈ positions, ∀ y ∈ positions, ∀ (u : M3 ℚ) (g : GenSite ℚ),
      Src.Constraints.generatorSiteInit (ops.map toSym) fns fus (castP k x) u (castP k (0, 0, 0)) (sc k E) = some g →
      (∀ syms : List (List Char), syms.length = 3 →
        ∃ f, Src.Constraints.positionFormula g (castP k y) syms = some f ∧ f.isEmpty = !relG ops k (castP k x) (castP k y)) ∧
      (∀ syms : List (List Char), syms.length = 6 → relG ops k (castP k x) (castP k y) = true →
        (∃ uf, Src.Constraints.UFormula g (castP k y) syms = some uf) ∧
        ∃ j e ue, Src.Constraints.eqIndex g (castP k y) = some j ∧ g.eqxyz[j]? = some e ∧ g.eqUij[j]? = some ue ∧
          Np.add (castP k y) (Np.sub (Np.sub e (castP k y)) (Np.round (Np.sub e (castP k y)))) = castP k y) := by
    intro x hx y hy u g hg
    obtain ⟨g', hg', hxyz, hsym, heps, hlenU, hsy, hpn, hun⟩ := generatorSite_grid hG hk hE fns fus hor x u (hsep x hx)
    rw [hg] at hg'; cases hg'
    set ps := (Orbit.result ops k E (0, 0, 0) x).1 with hps
    have hne : ps ≠ [] := result_ne_nil hG hk hE x (hsep x hx)
    have hjlt := Orbit.nearestIdx_lt (24 * k) ps y hne
    have hfe := findEquivalent_grid (α := ℚ) hk E g ps y hne hxyz heps
    have hrel : relG ops k (castP k x) (castP k y) =
        decide (Orbit.boxDist (24 * k) (ps.getD (Orbit.nearestIdx (24 * k) ps y) y) y ≤ E) := by
      unfold relG
      rw [uncast_cast hk, uncast_cast hk, Bool.eq_iff_iff, decide_eq_true_eq]
      exact (adoption_iff_inOrbit hk hE hopsne (hsep x hx) (hfar x hx y hy)).symm
    obtain ⟨c, op, hc, hop⟩ := result_class_head hk hE x (hsep x hx) _ hjlt
    by_cases hA : Orbit.boxDist (24 * k) (ps.getD (Orbit.nearestIdx (24 * k) ps y) y) y ≤ E
    · rw [if_pos hA, hsym, hc, Option.bind_some, hop, Option.bind_some] at hfe
      refine ⟨fun syms hs => ?_, fun syms hs _ => ?_⟩
      · refine ⟨_, positionFormula_eq g _ syms _ _ hfe (fun p hp => symOf_some syms hs _ (hpn p hp)), ?_⟩
        rw [hrel, decide_eq_true hA]; rfl
      · refine ⟨⟨_, UFormula_eq g _ syms _ _ hfe hsy (fun p hp => usymOf_some syms hs _ (hun p hp))⟩,
          Orbit.nearestIdx (24 * k) ps y, castP k (ps.getD (Orbit.nearestIdx (24 * k) ps y) y), ?_⟩
        have hgd : ps.getD (Orbit.nearestIdx (24 * k) ps y) y = ps[Orbit.nearestIdx (24 * k) ps y] := by
          rw [List.getD_eq_getElem?_getD, List.getElem?_eq_getElem hjlt]; rfl
        have hlenc : (Orbit.result ops k E (0, 0, 0) x).2.1.length = ps.length := by
          simp [hps, Orbit.result]
        have hju : Orbit.nearestIdx (24 * k) ps y < g.eqUij.length := by rw [hlenU, hlenc]; exact hjlt
        refine ⟨g.eqUij[Orbit.nearestIdx (24 * k) ps y], eqIndex_grid hk g ps y hne hxyz, ?_, List.getElem?_eq_getElem hju, ?_⟩
        · rw [hxyz, List.getElem?_map, List.getElem?_eq_getElem hjlt, hgd]; rfl
        · have hred := adopted_eq_red hk hE hne (hsep x hx) (hfar x hx y hy) hA
          have hc0 := centre_lattice (α := ℚ) hk (ps.getD (Orbit.nearestIdx (24 * k) ps y) y) y (by
            rw [hred]; simp [Orbit.red, Int.emod_emod_of_dvd _ (dvd_refl _)])
          unfold centreV at hc0
          rw [hc0]
          obtain ⟨y1, y2, y3⟩ := y
          simp [Np.add, Np.zip3, castP]
    · rw [if_neg hA] at hfe
      refine ⟨fun syms hs => ⟨[], ?_, ?_⟩, fun syms hs hr => ?_⟩
      · unfold Src.Constraints.positionFormula
        rw [hfe]; rfl
      · rw [hrel, decide_eq_false hA]; rfl
      · rw [hrel, decide_eq_false hA] at hr; exact absurd hr (by simp)
  constructor
  · rintro p u ⟨x, hx, rfl⟩
    obtain ⟨g, hg, _⟩ := generatorSite_grid hG hk hE fns fus hor x u (hsep x hx)
    exact ⟨g, hg⟩
  · rintro p u g ⟨x, hx, rfl⟩ hg
    obtain ⟨g', hg', _, _, _, _, _, hpn, _⟩ := generatorSite_grid hG hk hE fns fus hor x u (hsep x hx)
    rw [hg] at hg'; cases hg'; exact hpn
  · rintro p u g ⟨x, hx, rfl⟩ hg
    obtain ⟨g', hg', _, _, _, _, _, _, hun⟩ := generatorSite_grid hG hk hE fns fus hor x u (hsep x hx)
    rw [hg] at hg'; cases hg'; exact hun
  · rintro p u g q syms ⟨x, hx, rfl⟩ ⟨y, hy, rfl⟩ hg hs
    exact (key x hx y hy u g hg).1 syms hs
  · rintro p u g q syms ⟨x, hx, rfl⟩ ⟨y, hy, rfl⟩ hg hs hr
    exact (key x hx y hy u g hg).2 syms hs hr

set_option linter.unusedSectionVars false
set_option linter.unusedVariables false

theorem partRel_congr (r r' : Nat → Nat → Bool) : ∀ (fuel : Nat) (l : List Nat), (∀ i ∈ l, ∀ j ∈ l, r i j = r' i j) →
    Partition.partRel r fuel l = Partition.partRel r' fuel l
  | 0, l, _ => by cases l <;> rfl
  | fuel + 1, [], _ => rfl
  | fuel + 1, i :: rest, h => by
    have e1 : rest.filter (fun j => r i j) = rest.filter (fun j => r' i j) :=
      List.filter_congr (fun j hj => h i (List.mem_cons_self ..) j (List.mem_cons_of_mem _ hj))
    have e2 : rest.filter (fun j => !r i j) = rest.filter (fun j => !r' i j) :=
      List.filter_congr (fun j hj => by rw [h i (List.mem_cons_self ..) j (List.mem_cons_of_mem _ hj)])
    show (i, i :: rest.filter (fun j => r i j)) :: Partition.partRel r fuel (rest.filter fun j => !r i j) =
      (i, i :: rest.filter (fun j => r' i j)) :: Partition.partRel r' fuel (rest.filter fun j => !r' i j)
    rw [e1, e2, partRel_congr r r' fuel _ (fun a ha b hb =>
      h a (List.mem_cons_of_mem _ (List.mem_filter.1 ha).1) b (List.mem_cons_of_mem _ (List.mem_filter.1 hb).1))]

/-- **Full refinement of `SymmetryConstraints._findConstraints` on exact listings** (`findConstraints_grid_statement`): with the
transliterated `GeneratorSite.__init__` on top of the transliterated `expandPosition`, for every group of operations and every exact
listing that is separated as in C02, `coremap` IS `Partition.coremap` — so `DS.Props.C05Partition` (`coremap_partition`,
`coremap_classes`, `coremap_generators`, `tables_coremap`: the classes are exactly the symmetry orbits, one generator each, the first
in listing order) speaks about the current source in exact arithmetic. -/
theorem findConstraints_grid : findConstraints_grid_statement := by
  intro ops k E positions U fns fus hk hE hG hU hor hsep hfar
  have hok := genOK_grid hG hk hE fns fus hor positions hsep hfar
  have hrefl : ∀ p, (∃ x ∈ positions, p = castP k x) → relG ops k p p = true := by
    rintro p ⟨x, hx, rfl⟩
    unfold relG
    rw [uncast_cast hk]
    exact Partition.R_refl hG k x
  obtain ⟨st, h1, h2, h3, h4⟩ := findConstraints_eq hok hrefl (positions.map (castP k)) U (by simpa using hU)
    (by intro p hp; obtain ⟨x, hx, rfl⟩ := List.mem_map.1 hp; exact ⟨x, hx, rfl⟩)
  refine ⟨st, h1, ?_, h3⟩
  rw [h2, coremap_eq_partRel, List.length_map]
  apply partRel_congr
  intro i hi j hj
  have hi' : i < positions.length := List.mem_range.1 hi
  have hj' : j < positions.length := List.mem_range.1 hj
  unfold relI relG
  rw [List.getElem?_map, List.getElem?_map, List.getElem?_eq_getElem hi', List.getElem?_eq_getElem hj']
  simp only [Option.map_some, uncast_cast hk]
  rw [List.getD_eq_getElem?_getD, List.getD_eq_getElem?_getD, List.getElem?_eq_getElem hi', List.getElem?_eq_getElem hj']
  rfl

-- non-vacuity: the group `{1, −1}`, `D = 24`, `E = 1`, the listing `(0,0,6), (0,0,18), (0,0,0)`: two orbits
example : ∃ st, Src.Constraints.findConstraints
      (fun p u => Src.Constraints.generatorSiteInit ([Op.one, invOp].map toSym) (fun _ => []) (fun _ => []) p u (castP 1 (0, 0, 0)) (sc 1 1))
      ([(0, 0, 6), (0, 0, 18), (0, 0, 0)].map (castP 1)) [idM, idM, idM] =
      some (st, (st.coremap.map (·.1)).map fun i => (([(0, 0, 6), (0, 0, 18), (0, 0, 0)] : List P3).map (castP 1)).getD i (0, 0, 0)) ∧
    st.coremap = [(0, [0, 1]), (2, [2])] := by
  have hG : IsGroup [Op.one, invOp] := ⟨by decide, by decide, by decide, by decide, by decide, by decide⟩
  obtain ⟨st, h1, h2, _⟩ := findConstraints_grid [Op.one, invOp] 1 1 [(0, 0, 6), (0, 0, 18), (0, 0, 0)] [idM, idM, idM]
    (fun _ => []) (fun _ => []) (by decide) (by decide) hG rfl
    ⟨fun _ v hv => by simp at hv, fun _ => rfl, fun _ B hB => by simp at hB⟩ (by decide +kernel) (by decide +kernel)
  refine ⟨st, h1, ?_⟩
  rw [h2]; decide +kernel

set_option linter.unusedSectionVars false
set_option linter.unusedVariables false

/-- the end-to-end refinement for every tabulated space-group setting (groups by `DS.Props.C03.all_groups`) -/
theorem findConstraints_tables : ∀ p ∈ Gen.allC, ∀ (k E : Int) (positions : List P3) (U : List (M3 ℚ))
    (fns : List (SymOp ℚ) → List (V3 ℚ)) (fus : List (SymOp ℚ) → List (M3 ℚ)),
    0 < k → 0 < E → U.length = positions.length → OracleOK fns fus →
    (∀ x ∈ positions, Orbit.Sep p.1.ops k E (0, 0, 0) x) →
    (∀ x ∈ positions, ∀ q ∈ positions, ∀ a ∈ p.1.ops, Orbit.img a k (0, 0, 0) x = Orbit.red k q ∨
      E < Orbit.boxDist (24 * k) (Orbit.img a k (0, 0, 0) x) (Orbit.red k q)) →
    ∃ st, Src.Constraints.findConstraints
        (fun x u => Src.Constraints.generatorSiteInit (p.1.ops.map toSym) fns fus x u (castP k (0, 0, 0)) (sc k E))
        (positions.map (castP k)) U =
      some (st, (st.coremap.map (·.1)).map fun i => (positions.map (castP k)).getD i (0, 0, 0)) ∧
      st.coremap = Partition.coremap p.1.ops k positions ∧ st.positions = positions.map (castP k) :=
  fun p hp k E positions U fns fus hk hE hU hor hsep hfar =>
    findConstraints_grid p.1.ops k E positions U fns fus hk hE (DS.Props.C03.all_groups p hp) hU hor hsep hfar

end DS.Props.SrcConstraints
