import DS.Model.Parsers
import DS.Gen.Handlers
import DS.Gen.SrcReaders
/-!
# Source tie for C13 (readers): the control-flow models ARE the transliterated `parseLines`

`DS/Gen/SrcReaders.lean` is regenerated on every run by `translate/src_readers.py` from the current
`parsers/p_xyz.py`, `parsers/p_rawxyz.py`, `parsers/p_discus.py` and `parsers/p_pdffit.py`: the body of `parseLines`, statement by statement, in the vocabulary
of `DS/Model/Parsers.lean` (every loop and every `try` body is its own definition; the handler tuples are the ones
written at that `try`).  The theorems below prove, for every abstract document, that the hand-written models the C13
theorems speak about (`Parsers.xyzRun`, `Parsers.rawxyzRun` under the generated handler configuration
`Gen.cfg_xyz`, `Gen.cfg_rawxyz`) return exactly what the transliteration returns:

* `parseXyz_eq`, `parseRawxyz_eq`       the tie itself (outcome of the model = outcome of the transliteration);
* `xyzRun_eq`, `rawxyzRun_eq`           the same in the monad `M` (before `toOutcome`);
* `xyz_for1_eq`, `rawxyz_for1_eq`       the comment-skipping loop with `break` = `takeWhile isSkip`;
* `xyz_try1_eq`                         first `try` body of `P_xyz` = `xyzHead` (and `start += 2`);
* `xyz_for2_eq`, `rawxyz_for2_eq`       the record loops = `xyzRecords` / `rawRecords` (induction);
* `while_eq`                            the trailing-blank loop = `stripTrailing` (induction on the fuel);
* `whileDec_unfold`                     the fuel `v - lo` makes `whileDec` satisfy the equation of the `while` loop;
* `parseDiscus_eq` (and `discusRun_eq`, `discusBody_eq`, `discusHeader_eq`, `discusAtoms_eq`, `discus_parse_*_eq`)
                                        the same tie for `P_discus.parseLines` of `parsers/p_discus.py` (`Parsers.parseDiscus` under
                                        `Gen.cfg_discus`), see the section `P_discus.parseLines`;
* `parsePdffit_eq` (and `pdffitRun_eq`, `pdffitBody_eq`, `pdffitHeader_eq`, `pdffitAtoms_eq`, `pdffit_parse_shape_eq`)
                                        the same for `P_pdffit.parseLines` of `parsers/p_pdffit.py`, see the last section.
-/
namespace DS.Props.SrcReaders
open DS DS.Parsers DS.Src.Readers

/-! ## `Except` bookkeeping -/

theorem err_bind {α β} (k : Kind) (f : α → M β) : ((Except.error k : M α) >>= f) = Except.error k := rfl
theorem ok_bind {α β} (a : α) (f : α → M β) : ((Except.ok a : M α) >>= f) = f a := rfl
theorem pure_eq {α} (a : α) : (pure a : M α) = Except.ok a := rfl
theorem err_map {α β} (k : Kind) (f : α → β) : (f <$> (Except.error k : M α)) = Except.error k := rfl
theorem ok_map {α β} (a : α) (f : α → β) : (f <$> (Except.ok a : M α)) = Except.ok (f a) := rfl

theorem tryExcept_bind_ok {α β} (H : List Kind) (x : M α) (f : α → β) :
    tryExcept H (x >>= fun v => Except.ok (f v)) = (tryExcept H x >>= fun v => Except.ok (f v)) := by
  cases x with
  | error k => by_cases h : k ∈ H <;> simp [tryExcept, err_bind, h]
  | ok a => simp [tryExcept, ok_bind]

/-! ## The `while stop > start and len(linefields[stop - 1]) == 0: stop -= 1` loop -/

/-- with the fuel `v - lo` the recursion is the loop: one unfolding of `while v > lo and c(v): v -= 1` -/
theorem whileDec_unfold (lo : Nat) (c : Nat → M Bool) (v : Nat) :
    whileDec lo c (v - lo) v =
      if v > lo then (c v >>= fun b => if b = true then whileDec lo c (v - 1 - lo) (v - 1) else pure v) else pure v := by
  by_cases h : v > lo
  · obtain ⟨m, hm⟩ : ∃ m, v - lo = m + 1 := ⟨v - lo - 1, by omega⟩
    have hm' : v - 1 - lo = m := by omega
    rw [hm, hm']
    simp [whileDec, h]
  · have : v - lo = 0 := by omega
    rw [this]
    simp [whileDec, h]

theorem stripTrailing_snoc {α} (p : α → Bool) (xs : List α) (t : α) :
    stripTrailing p (xs ++ [t]) = if p t then stripTrailing p xs else xs ++ [t] := by
  unfold stripTrailing
  cases h : p t <;> simp [List.dropWhile_cons, h]

theorem stripTrailing_nil {α} (p : α → Bool) : stripTrailing p ([] : List α) = [] := rfl

theorem stripTrailing_prefix {α} (p : α → Bool) (xs : List α) : stripTrailing p xs <+: xs := by
  unfold stripTrailing
  have := List.dropWhile_suffix (l := xs.reverse) p
  simpa using List.reverse_prefix.mpr this

theorem while_eq (ls : List WLine) (c : Nat → M Bool)
    (hc : ∀ k (hk : k < ls.length), c (k + 1) = Except.ok (ls[k]).isEmpty)
    (start : Nat) (n stop : Nat) (h1 : stop ≤ ls.length) (h2 : n = stop - start)
    (h3 : start ≤ stop) :
    whileDec start c n stop
      = Except.ok (start + (stripTrailing List.isEmpty ((ls.take stop).drop start)).length) := by
  induction n generalizing stop with
  | zero =>
    have : stop = start := by omega
    subst this
    simp [whileDec, stripTrailing_nil, pure_eq]
  | succ m ih =>
    have hs : stop > start := by omega
    obtain ⟨k, rfl⟩ : ∃ k, stop = k + 1 := ⟨stop - 1, by omega⟩
    have hk : k < ls.length := by omega
    have hd : (ls.take (k + 1)).drop start = (ls.take k).drop start ++ [ls[k]] := by
      rw [List.take_succ_eq_append_getElem hk, List.drop_append_of_le_length (by simp; omega)]
    simp only [whileDec, hs, if_true, Nat.add_sub_cancel, hc k hk, ok_bind]
    rw [hd, stripTrailing_snoc]
    cases hb : (ls[k]).isEmpty with
    | true => simp; exact ih k (by omega) (by omega) (by omega)
    | false => simp [pure_eq]; omega

/-- the test of that loop, as the translator writes it -/
theorem while_test (ls : List WLine) : ∀ k (hk : k < ls.length),
    (fun v_stop => (idx ls (v_stop - 1) >>= fun t => (pure (decide (List.length t = 0)) : M Bool))) (k + 1)
      = Except.ok (ls[k]).isEmpty := by
  intro k hk
  simp [idx, List.getElem?_eq_getElem hk, pure_eq, ok_bind]
  cases ls[k] <;> simp

/-- the whole loop from `stop = len(lines)`: how many lines remain once the trailing blank ones are cut -/
theorem while_full (ls : List WLine) (c : Nat → M Bool)
    (hc : ∀ k (hk : k < ls.length), c (k + 1) = Except.ok (ls[k]).isEmpty) (start : Nat) :
    whileDec start c (ls.length - start) ls.length
      = Except.ok (if start ≤ ls.length then start + (stripTrailing List.isEmpty (ls.drop start)).length else ls.length) := by
  by_cases h : start ≤ ls.length
  · rw [while_eq ls c hc start _ ls.length (Nat.le_refl _) rfl h]
    simp [h]
  · have hz : ls.length - start = 0 := by omega
    simp [hz, whileDec, pure_eq, h]

/-- the loop as the translator writes it -/
theorem while_src (ls : List WLine) (start : Nat) :
    whileDec start (fun v_stop => (idx ls (v_stop - 1) >>= fun t => (pure (decide (List.length t = 0)) : M Bool)))
        (ls.length - start) ls.length
      = Except.ok (if start ≤ ls.length then start + (stripTrailing List.isEmpty (ls.drop start)).length else ls.length) :=
  while_full ls (fun v_stop => (idx ls (v_stop - 1) >>= fun t => (pure (decide (List.length t = 0)) : M Bool)))
    (while_test ls) start

/-! ## The comment-skipping loop -/

theorem isSkip_nil : isSkip ([] : WLine) = true := rfl
theorem isSkip_cons (w : Tok) (ws : List Tok) : isSkip (w :: ws) = w.isHash := rfl

theorem xyz_for1_eq (it : List WLine) (s : Nat) :
    xyz_parseLines_for1 it s = Except.ok (s + (it.takeWhile isSkip).length) := by
  induction it generalizing s with
  | nil => simp [xyz_parseLines_for1, pure_eq, ok_bind]
  | cons f rest ih =>
    have ih' := ih (s + 1)
    simp only [xyz_parseLines_for1] at ih' ⊢
    cases f with
    | nil => simp [List.forIn_cons, List.takeWhile_cons, isSkip_nil, pure_eq, ok_bind] at ih' ⊢; rw [ih']; congr 1; omega
    | cons w ws =>
      cases hw : w.isHash <;> simp [idx, hw, isSkip_cons, List.forIn_cons, List.takeWhile_cons, pure_eq, ok_bind] at ih' ⊢
      rw [ih']; congr 1; omega

theorem rawxyz_for1_eq (it : List WLine) (s : Nat) :
    rawxyz_parseLines_for1 it s = Except.ok (s + (it.takeWhile isSkip).length) := by
  induction it generalizing s with
  | nil => simp [rawxyz_parseLines_for1, pure_eq, ok_bind]
  | cons f rest ih =>
    have ih' := ih (s + 1)
    simp only [rawxyz_parseLines_for1] at ih' ⊢
    cases f with
    | nil => simp [List.forIn_cons, List.takeWhile_cons, isSkip_nil, pure_eq, ok_bind] at ih' ⊢; rw [ih']; congr 1; omega
    | cons w ws =>
      cases hw : w.isHash <;> simp [idx, hw, isSkip_cons, List.forIn_cons, List.takeWhile_cons, pure_eq, ok_bind] at ih' ⊢
      rw [ih']; congr 1; omega

/-! ## `P_xyz.parseLines` -/

/-- first `try` body: the primitives of `xyzHead` in the same order, then `start += 2` -/
theorem xyz_try1_eq (ls : List WLine) (p0 : Int) (s : Nat) :
    xyz_parseLines_try1 ls ls p0 s = (xyzHead Gen.cfg_xyz ls s >>= fun v => Except.ok (v, s + 2)) := by
  simp only [xyz_parseLines_try1, xyzHead, xyzTitle, Gen.cfg_xyz, idx]
  cases h1 : ls[s]? with
  | none => simp [raise, err_bind, err_map]
  | some lfs =>
    cases lfs with
    | nil => simp [raise, err_bind, pure_eq, ok_bind]
    | cons w ws =>
      cases ws with
      | nil =>
        cases hi : w.int <;> cases hc : w.canon <;>
          simp [pyInt, hi, hc, raise, err_bind, pure_eq, ok_bind, err_map, ok_map]
        intro h; simp [List.getElem?_eq_getElem h, ok_bind]
      | cons w2 ws => simp [raise, err_bind, pure_eq, ok_bind, err_map, ok_map]

/-- record loop (second `try`) -/
theorem xyz_for2_eq (it : List WLine) (nf p n : Nat) :
    xyz_parseLines_for2 it nf p n = (xyzRecords nf it n >>= fun n' => Except.ok (p + it.length, n')) := by
  induction it generalizing n p with
  | nil => simp [xyz_parseLines_for2, xyzRecords, pure_eq, ok_bind]
  | cons f rest ih =>
    have ih1 := ih (p + 1) n
    have ih2 := ih (p + 1) (n + 1)
    have e : p + 1 + rest.length = p + (rest.length + 1) := by omega
    rw [e] at ih1 ih2
    simp only [xyz_parseLines_for2] at ih1 ih2 ⊢
    unfold xyzRecords
    cases f with
    | nil => simp [List.forIn_cons, pure_eq, ok_bind] at ih1 ⊢; rw [ih1]
    | cons w ws =>
      by_cases hl : ws.length + 1 = nf
      · simp [List.forIn_cons, hl, idx, pure_eq, ok_bind, List.drop_take] at ih2 ⊢
        cases hf : floats ((ws).take 3) with
        | error k => simp [err_bind, err_map, ok_bind]
        | ok u => simp [ok_bind, ok_map]; rw [ih2]
      · simp [List.forIn_cons, hl, raise, err_bind, err_map, pure_eq, ok_bind]

theorem xyz_try2_eq (ls : List WLine) (s nf n : Nat) :
    xyz_parseLines_try2 ls s nf n = xyzRecords nf (ls.drop s) n := by
  simp only [xyz_parseLines_try2, xyz_for2_eq, pure_eq]
  cases xyzRecords nf (ls.drop s) n <;> simp [err_bind, ok_bind]

/-- **the tie for XYZ**: the model of the C13 theorems is the transliteration of the current `P_xyz.parseLines` -/
theorem xyzRun_eq (d : XyzDoc) : xyzRun Gen.cfg_xyz d = xyz_parseLines d := by
  unfold xyzRun xyz_parseLines
  simp only [while_src]
  simp only [xyz_for1_eq, xyz_try1_eq, xyz_try2_eq, Nat.zero_add, pure_eq, ok_bind, tryExcept_bind_ok]
  generalize (List.takeWhile isSkip d.lines).length = s0
  -- the handler tuples of the generated configuration are the ones written at the two `try` statements
  have hH1 : Gen.cfg_xyz.H1 = xyz_parseLines_try1_handler := rfl
  have hH2 : Gen.cfg_xyz.H2 = xyz_parseLines_try2_handler := rfl
  rw [hH1, hH2]
  cases hx : tryExcept xyz_parseLines_try1_handler (xyzHead Gen.cfg_xyz d.lines s0) with
  | error k => simp [err_bind]
  | ok natoms =>
    simp only [ok_bind]
    by_cases hle : s0 + 2 ≤ d.lines.length
    · simp only [hle, if_true]
      have hp := stripTrailing_prefix List.isEmpty (d.lines.drop (s0 + 2))
      generalize stripTrailing List.isEmpty (d.lines.drop (s0 + 2)) = body at hp ⊢
      cases body with
      | nil => simp
      | cons f0 tl =>
        have h0 : d.lines[s0 + 2]? = some f0 := by
          obtain ⟨t, ht⟩ := hp
          have : (d.lines.drop (s0 + 2))[0]? = some f0 := by rw [← ht]; simp
          simpa using this
        simp [idx, h0, ok_bind, pure_eq]
        by_cases hn : natoms = 0
        · simp [hn]
        · have hlt : ¬ (s0 + 2 + (tl.length + 1) ≤ s0 + 2) := by omega
          by_cases h4 : f0.length = 4
          · simp only [hn, hlt, h4, or_self, if_false, if_true]
            cases tryExcept xyz_parseLines_try2_handler (xyzRecords 4 (List.drop (s0 + 2) d.lines) 0) with
            | error k => simp [err_bind]
            | ok n => by_cases hnn : (n : Int) = natoms <;> simp [ok_bind, hnn, raise, err_bind]
          · simp [hn, hlt, h4, raise, err_bind]
    · have hd : List.drop (s0 + 2) d.lines = [] := List.drop_eq_nil_of_le (by omega)
      have hge : s0 + 2 ≥ d.lines.length := by omega
      simp [hd, hle, stripTrailing_nil, hge]

theorem parseXyz_eq (d : XyzDoc) : parseXyz Gen.cfg_xyz d = toOutcome (xyz_parseLines d) := by
  unfold parseXyz; rw [xyzRun_eq]

/-! ## `P_rawxyz.parseLines` -/

/-- number of atoms the record loop adds -/
def cnt (it : List WLine) : Nat := (it.filter (fun f => !f.isEmpty)).length

/-- record loop: the optional element column is read at index 0 of a non-empty line (never raises), the three
coordinates from `x_idx` on -/
theorem rawxyz_for2_eq (it : List WLine) (nf : Nat) (el : Option Nat) (x p n : Nat) (hel : el = none ∨ el = some 0) :
    rawxyz_parseLines_for2 it nf el x p n
      = (rawRecords nf x it >>= fun _ => Except.ok (p + it.length, n + cnt it)) := by
  induction it generalizing n p with
  | nil => simp [rawxyz_parseLines_for2, rawRecords, cnt, pure_eq, ok_bind]
  | cons f rest ih =>
    have ih1 := ih (p + 1) n
    have ih2 := ih (p + 1) (n + 1)
    have e : p + 1 + rest.length = p + (rest.length + 1) := by omega
    rw [e] at ih1 ih2
    simp only [rawxyz_parseLines_for2] at ih1 ih2 ⊢
    unfold rawRecords
    cases f with
    | nil =>
      have hc : cnt ([] :: rest) = cnt rest := by simp [cnt]
      simp [List.forIn_cons, pure_eq, ok_bind, hc] at ih1 ⊢; rw [ih1]
    | cons w ws =>
      have hc : n + cnt ((w :: ws) :: rest) = n + 1 + cnt rest := by simp [cnt]; omega
      rw [hc]
      by_cases hl : ws.length + 1 = nf
      · rcases hel with rfl | rfl <;>
          simp [List.forIn_cons, hl, idx, pure_eq, ok_bind, List.drop_take] at ih2 ⊢ <;>
          (cases hf : floats (((w :: ws).drop x).take 3) with
           | error k => simp [err_bind, err_map, ok_bind]
           | ok u => simp [ok_bind, ok_map]; rw [ih2])
      · rcases hel with rfl | rfl <;> simp [List.forIn_cons, hl, raise, err_bind, err_map, pure_eq, ok_bind]

theorem rawxyz_try1_eq (ls : List WLine) (s nf : Nat) (el : Option Nat) (x n : Nat) (hel : el = none ∨ el = some 0) :
    rawxyz_parseLines_try1 ls s nf el x n = (rawRecords nf x (ls.drop s) >>= fun _ => Except.ok (n + cnt (ls.drop s))) := by
  simp only [rawxyz_parseLines_try1, rawxyz_for2_eq _ _ _ _ _ _ hel, pure_eq]
  cases rawRecords nf x (ls.drop s) <;> simp [err_bind, ok_bind]

theorem tryExcept_unit {α} (H : List Kind) (x : M Unit) (a : α) :
    (tryExcept H (x >>= fun _ => Except.ok a) >>= fun _ => (Except.ok () : M Unit)) = tryExcept H x := by
  cases x with
  | error k => by_cases h : k ∈ H <;> simp [tryExcept, err_bind, h]
  | ok u => simp [tryExcept, ok_bind]

/-- **the tie for RAWXYZ** -/
theorem rawxyzRun_eq (d : XyzDoc) : rawxyzRun Gen.cfg_rawxyz d = rawxyz_parseLines d := by
  unfold rawxyzRun rawxyz_parseLines
  simp only [while_src]
  simp only [rawxyz_for1_eq, Nat.zero_add, pure_eq, ok_bind]
  generalize (List.takeWhile isSkip d.lines).length = s0
  have hH : Gen.cfg_rawxyz.H = rawxyz_parseLines_try1_handler := rfl
  rw [hH]
  by_cases hle : s0 ≤ d.lines.length
  · simp only [hle, if_true]
    have hp := stripTrailing_prefix List.isEmpty (d.lines.drop s0)
    generalize stripTrailing List.isEmpty (d.lines.drop s0) = body at hp ⊢
    cases body with
    | nil => simp
    | cons f0 tl =>
      have h0 : d.lines[s0]? = some f0 := by
        obtain ⟨t, ht⟩ := hp
        have : (d.lines.drop s0)[0]? = some f0 := by rw [← ht]; simp
        simpa using this
      have hlt : ¬ (s0 + (tl.length + 1) ≤ s0) := by omega
      simp only [idx, h0, ok_bind, pure_eq, List.length_cons, ge_iff_le, hlt, if_false]
      simp only [rawxyz_try1_eq _ _ _ none _ _ (Or.inl rfl), rawxyz_try1_eq _ _ _ (some 0) _ _ (Or.inr rfl),
        tryExcept_unit]
      by_cases h3 : f0.length = 3 <;> by_cases h4 : f0.length = 4 <;>
        by_cases ha : List.take 3 (List.map (fun x => x.flt) f0) = [true, true, true] <;>
        by_cases hb : List.take 4 (List.map (fun x => x.flt) f0) = [false, true, true, true] <;>
        simp [h3, h4, ha, hb, raise, err_bind]
  · have hd : List.drop s0 d.lines = [] := List.drop_eq_nil_of_le (by omega)
    have hge : s0 ≥ d.lines.length := by omega
    simp [hd, hle, stripTrailing_nil, hge]

theorem parseRawxyz_eq (d : XyzDoc) : parseRawxyz Gen.cfg_rawxyz d = toOutcome (rawxyz_parseLines d) := by
  unfold parseRawxyz; rw [rawxyzRun_eq]

/-! ## The transliterations run (non-vacuity: accepted, rejected, and converted outcomes are all reached) -/

example : toOutcome (xyz_parseLines { lines := [[{ int := some 1, flt := true, canon := true }], [],
    [{}, { flt := true }, { flt := true }, { flt := true }]] }) = .ok := by decide
example : toOutcome (xyz_parseLines { lines := [[{}]] }) = .err .SFE := by decide
example : toOutcome (xyz_parseLines { lines := [[{ int := some 1, flt := true, canon := true }], [],
    [{}, { flt := true }, {}, { flt := true }]] }) = .err .SFE := by decide
example : toOutcome (rawxyz_parseLines { lines := [[{ flt := true }, { flt := true }, { flt := true }], []] }) = .ok := by decide
example : toOutcome (rawxyz_parseLines { lines := [[{}, { flt := true }, { flt := true }, { flt := true }],
    [{}, { flt := true }, {}, { flt := true }]] }) = .err .SFE := by decide

/-! ## `P_discus.parseLines`

`discus_parseLines` is the transliteration of the parser object: `discus__parse_*` are the record helper methods, the two
`for self.line in ilines` loops over the shared iterator are the recursions `discus_parseLines_for1/2`, the dispatch
dictionary `record_parsers` is the `match` on the keyword of the first word (default `_parse_unknown_record`).

* `parseDiscus_eq`, `discusRun_eq`      the tie itself (outcome / monad `M`);
* `discusBody_eq`                       body of the outer `try` = `discusBody`;
* `discusHeader_eq`, `discusAtoms_eq`   the two loops (induction over the remaining lines);
* `discus_parse_*_eq`                   the record helpers = the arms of `discusHeader` / the step of `discusAtoms`;
* `discus_handler_eq`, `discus_cell_handler_eq`   handler tuples, `rfl`.
-/


/-- the outer handler tuple of the generated configuration is the tuple written at the `try` of `P_discus.parseLines` -/
theorem discus_handler_eq : Gen.cfg_discus.H = discus_parseLines_try1_handler := rfl
/-- the inner handler tuple (`_parse_cell`, around `setLatPar`) likewise -/
theorem discus_cell_handler_eq : Gen.cfg_discus.Hcell = discus__parse_cell_try1_handler := rfl

/-! ### record helpers of `P_discus` = the arms of `discusHeader` -/

theorem discus_parse_cell_eq (l : Line) (ws : List Tok) (st : DState) (n : Nat) :
    discus__parse_cell l ws st n
      = (floats ((l.cwords.drop 1).take 6) >>= fun _ => tryExcept Gen.cfg_discus.Hcell l.lat.run >>= fun _ =>
          Except.ok ({ st with cellRead := true }, n)) := by
  simp [discus__parse_cell, discus_cell_handler_eq, pure_eq, List.drop_take]

theorem discus_parse_format_eq (l : Line) (ws : List Tok) (st : DState) (n : Nat) :
    discus__parse_format l ws st n
      = (idx ws 1 >>= fun w1 => if w1.kw = .pdffit then raise .SFE else Except.ok (st, n)) := by
  simp only [discus__parse_format, pure_eq]
  cases idx ws 1 with
  | error k => simp [err_bind]
  | ok w1 => by_cases h : w1.kw = .pdffit <;> simp [ok_bind, h, raise, err_bind]

theorem discus_parse_ni_eq (l : Line) (w0 : Tok) (ws : List Tok) (st : DState) (n : Nat) :
    discus__parse_not_implemented l (w0 :: ws) st n = raise .NotImpl := by
  simp [discus__parse_not_implemented, idx, pure_eq, ok_bind]

theorem discus_parse_ncell_eq (l : Line) (ws : List Tok) (st : DState) (n : Nat) :
    discus__parse_ncell l ws st n
      = (ints ((l.cwords.drop 1).take 4) >>= fun v => Except.ok ({ st with ncell := v, ncellRead := true }, n)) := by
  simp [discus__parse_ncell, pure_eq, List.drop_take]

theorem discus_parse_spcgr_eq (l : Line) (ws : List Tok) (st : DState) (n : Nat) :
    discus__parse_spcgr l ws st n = Except.ok (st, n) := rfl
theorem discus_parse_title_eq (l : Line) (ws : List Tok) (st : DState) (n : Nat) :
    discus__parse_title l ws st n = Except.ok (st, n) := rfl
theorem discus_parse_unknown_eq (l : Line) (ws : List Tok) (st : DState) (n : Nat) :
    discus__parse_unknown_record l ws st n = Except.ok (st, n) := rfl

theorem discus_parse_shape_eq (l : Line) (st : DState) (n : Nat) :
    discus__parse_shape l l.words st n = (discusShape l >>= fun _ => Except.ok (st, n)) := by
  simp only [discus__parse_shape, discusShape, floatAt, pure_eq]
  cases h1 : idx l.cwords 1 with
  | error k => simp [err_bind]
  | ok t =>
    simp only [ok_bind]
    by_cases hs : t.kw = .sphere
    · simp [hs]
    · by_cases hc : t.kw = .stepcut
      · simp [hc]
      · simp [hs, hc, raise, err_bind]

theorem discus_parse_atom_eq (l : Line) (w0 : Tok) (ws : List Tok) (st : DState) (n : Nat) :
    discus__parse_atom l (w0 :: ws) st n
      = (floats (((w0 :: ws).drop 1).take 3) >>= fun _ => floatAt (w0 :: ws) 4 >>= fun _ => Except.ok (st, n + 1)) := by
  simp [discus__parse_atom, floatAt, idx, pure_eq, ok_bind, List.drop_take]

/-- header loop (`for self.line in ilines: … break … else: raise`): the recursion over the shared iterator with the
dispatch through `record_parsers` is `discusHeader`; the atom counter is untouched -/
theorem discusHeader_eq (ls : List Line) (st : DState) (n : Nat) :
    discus_parseLines_for1 ls st n = (discusHeader Gen.cfg_discus ls st >>= fun p => Except.ok (p.1, n, p.2)) := by
  induction ls generalizing st with
  | nil => simp [discus_parseLines_for1, discusHeader, raise, err_bind]
  | cons l rest ih =>
    unfold discus_parseLines_for1 discusHeader
    cases hw : l.words with
    | nil => simp [ih, pure_eq, ok_bind]
    | cons w0 ws =>
      have hsh := discus_parse_shape_eq l st n
      rw [hw] at hsh
      cases hh : w0.hash
      · simp only [idx, hh, pure_eq]
        cases hk : w0.kw <;>
          simp [hk, hh, idx, discus_parse_cell_eq, discus_parse_format_eq, discus_parse_ni_eq, discus_parse_ncell_eq, discus_parse_spcgr_eq, discus_parse_title_eq,
            discus_parse_unknown_eq, hsh, ih, pure_eq, ok_bind, raise, err_bind]
        cases ws[0]? with
        | none => simp [err_bind]
        | some x => by_cases h : x.kw = .pdffit <;> simp [h, ok_bind, err_bind, ih]
      · simp [idx, hh, ih, pure_eq, ok_bind]

/-- atom loop over the rest of the iterator = `discusAtoms`; the parser state is untouched -/
theorem discusAtoms_eq (ls : List Line) (st : DState) (n : Nat) :
    discus_parseLines_for2 ls st n = (discusAtoms ls n >>= fun n' => Except.ok (st, n')) := by
  induction ls generalizing n with
  | nil => simp [discus_parseLines_for2, discusAtoms, pure_eq, ok_bind]
  | cons l rest ih =>
    unfold discus_parseLines_for2 discusAtoms
    cases hw : l.cwords with
    | nil => simp [ih, pure_eq, ok_bind]
    | cons w0 ws =>
      cases hh : w0.hash
      · simp [idx, hh, pure_eq, ok_bind, discus_parse_atom_eq, ih]
      · simp [idx, hh, ih, pure_eq, ok_bind]

/-- the body of the outer `try` -/
theorem discusBody_eq (d : DiscusDoc) : discusBody Gen.cfg_discus d = discus_parseLines_try1 d := by
  unfold discusBody discus_parseLines_try1
  simp only [discusHeader_eq, discusAtoms_eq, pure_eq]
  have hr : Gen.cfg_discus.reduceInit = true := rfl
  rw [hr]
  cases hx : discusHeader Gen.cfg_discus (stripTrailing Line.blank d.lines) { } with
  | error k => simp [err_bind]
  | ok p =>
    obtain ⟨st, rest⟩ := p
    simp only [ok_bind]
    cases hc : st.cellRead
    · simp [raise, err_bind]
    · simp only [Bool.not_true, Bool.false_eq_true, if_false, not_true_eq_false]
      cases ha : discusAtoms rest 0 with
      | error k => simp [err_bind]
      | ok n =>
        simp only [ok_bind]
        cases hp : pyProduct true st.ncell with
        | error k => simp [err_bind]
        | ok e =>
          simp only [ok_bind]
          by_cases h1 : st.ncellRead = true ∧ e ≠ (n : Int)
          · simp [h1, raise, err_bind]
          · by_cases h2 : List.take 3 st.ncell ≠ [1, 1, 1]
            · simp only [h1, h2, if_false, superCell]
              cases superStep 6 st.ncell 0 <;> cases superStep 6 st.ncell 1 <;> cases superStep 6 st.ncell 2 <;>
                cases d.superLat.run <;> simp [err_bind, ok_bind]
            · simp [h1, h2]

/-- the same in the monad `M` (before `toOutcome`) -/
theorem discusRun_eq (d : DiscusDoc) : tryExcept Gen.cfg_discus.H (discusBody Gen.cfg_discus d) = discus_parseLines d := by
  rw [discusBody_eq, discus_handler_eq]
  unfold discus_parseLines
  cases tryExcept discus_parseLines_try1_handler (discus_parseLines_try1 d) <;> simp [err_bind, ok_bind, pure_eq]

/-- **the tie for DISCUS** -/
theorem parseDiscus_eq (d : DiscusDoc) : parseDiscus Gen.cfg_discus d = toOutcome (discus_parseLines d) := by
  unfold parseDiscus; rw [discusRun_eq]

/-! non-vacuity for DISCUS: accepted, rejected, converted, and not-implemented outcomes are reached -/

example : toOutcome (discus_parseLines { lines := [
    { words := [{ kw := .cell }, { flt := true }, { flt := true }, { flt := true }, { flt := true }, { flt := true }, { flt := true }],
      cwords := [{ kw := .cell }, { flt := true }, { flt := true }, { flt := true }, { flt := true }, { flt := true }, { flt := true }] },
    { words := [{ kw := .atoms }], cwords := [{ kw := .atoms }] },
    { words := [{}, { flt := true }, { flt := true }, { flt := true }, { flt := true }],
      cwords := [{}, { flt := true }, { flt := true }, { flt := true }, { flt := true }] }] }) = .ok := by decide
example : toOutcome (discus_parseLines { lines := [
    { words := [{ kw := .cell }, { flt := true }], cwords := [{ kw := .cell }, { flt := true }] }] }) = .err .SFE := by decide
example : toOutcome (discus_parseLines { lines := [
    { words := [{ kw := .cell }, { flt := true }], cwords := [{ kw := .cell }, { flt := true }], lat := .zeroDiv },
    { words := [{ kw := .atoms }], cwords := [{ kw := .atoms }] }] }) = .err .SFE := by decide
example : toOutcome (discus_parseLines { lines := [
    { words := [{ kw := .cell }], cwords := [{ kw := .cell }] },
    { words := [{ kw := .atoms }], cwords := [{ kw := .atoms }] },
    { words := [{}, { flt := true }], cwords := [{}, { flt := true }] }] }) = .err .SFE := by decide
example : toOutcome (discus_parseLines { lines := [
    { words := [{ kw := .molecule }], cwords := [{ kw := .molecule }] }] }) = .err .NotImpl := by decide

/-! ## `P_pdffit.parseLines`

* `parsePdffit_eq`, `pdffitRun_eq`      the tie itself (outcome / monad `M`);
* `pdffitBody_eq`                       body of the `try` = `pdffitBody`;
* `pdffitHeader_eq`, `pdffitAtoms_eq`   the two loops over the shared iterator (induction over the lines / the fuel);
* `pdffit_parse_shape_eq`, `pdffit_handler_eq`   the helper and the handler tuple;
* `pdffitAtoms_fuel`, `pdffitAtoms_fuel_ge`, `pdffit_for2_fuel`   more fuel than remaining lines changes nothing.
-/


/-- the handler tuple of the generated configuration is the tuple written at the `try` of `P_pdffit.parseLines` -/
theorem pdffit_handler_eq : Gen.cfg_pdffit.H = pdffit_parseLines_try1_handler := rfl

/-- `P_pdffit._parse_shape(line)` = `pdffitShape` -/
theorem pdffit_parse_shape_eq (l : Line) (st : PState) (n : Nat) :
    pdffit__parse_shape l st n = (pdffitShape l >>= fun _ => Except.ok (st, n)) := by
  simp only [pdffit__parse_shape, pdffitShape, floatAt, pure_eq]
  cases h1 : idx l.cwords 1 with
  | error k => simp [err_bind]
  | ok t =>
    simp only [ok_bind]
    by_cases hs : t.kw = .sphere
    · simp [hs]
    · by_cases hc : t.kw = .stepcut
      · simp [hc]
      · simp [hs, hc, raise, err_bind]

/-- header loop (`if/elif` chain on `words[0]`, `break` on `atoms` once a cell was read, `else: raise`) = `pdffitHeader` -/
theorem pdffitHeader_eq (ls : List Line) (st : PState) (n : Nat) :
    pdffit_parseLines_for1 ls st n = (pdffitHeader ls st >>= fun p => Except.ok (p.1, n, p.2)) := by
  induction ls generalizing st with
  | nil => simp [pdffit_parseLines_for1, pdffitHeader, raise, err_bind]
  | cons l rest ih =>
    unfold pdffit_parseLines_for1 pdffitHeader
    cases hw : l.words with
    | nil => simp [ih, pure_eq, ok_bind]
    | cons w0 ws =>
      cases hh : w0.hash
      · simp only [idx, hh, pure_eq]
        cases hk : w0.kw <;>
          simp [hk, hh, idx, pdffit_parse_shape_eq, ih, ok_bind, raise, err_bind, floatAt, List.drop_take]
        case scale => cases ws[0]? <;> simp [pure_eq, ok_bind, err_bind]
        case sharp =>
          cases floats l.cwords.tail with
          | error k => simp [err_bind]
          | ok u =>
            simp only [ok_bind]
            generalize l.cwords.length - 1 = L
            rcases L with _ | _ | _ | _ | L <;> simp [olIdx, raise, err_bind, ok_bind, pure_eq]
            have h3 : ¬ (L + 1 + 1 + 1 + 1 < 3) := by omega
            simp [h3]
        case format =>
          cases ws[0]? with
          | none => simp [err_bind]
          | some x => by_cases h : x.kw = .pdffit <;> simp [h, ok_bind, err_bind]
        case atoms => cases hc : st.cellRead <;> simp [ok_bind]
      · simp [idx, hh, ih, pure_eq, ok_bind]

/-- atom loop (six lines per atom, five of them fetched with `next(ilines)`) = `pdffitAtoms`, for every fuel -/
theorem pdffitAtoms_eq (fuel : Nat) (ls : List Line) (st : PState) (n : Nat) :
    pdffit_parseLines_for2 fuel ls st n = (pdffitAtoms fuel ls n >>= fun n' => Except.ok (st, n')) := by
  induction fuel generalizing ls n with
  | zero => simp [pdffit_parseLines_for2, pdffitAtoms, pure_eq, ok_bind]
  | succ f ih =>
    cases ls with
    | nil => simp [pdffit_parseLines_for2, pdffitAtoms, pure_eq, ok_bind]
    | cons l1 rest =>
      unfold pdffit_parseLines_for2 pdffitAtoms
      simp only [floatAt, ih, List.drop_take, List.drop_zero]
      cases h0 : idx l1.words 0 with
      | error k => simp [err_bind]
      | ok t => simp [ok_bind, bind_assoc]

/-- the body of the `try` -/
theorem pdffitBody_eq (d : PdffitDoc) : pdffitBody Gen.cfg_pdffit d = pdffit_parseLines_try1 d := by
  unfold pdffitBody pdffit_parseLines_try1
  simp only [pdffitHeader_eq, pdffitAtoms_eq, pure_eq]
  have hr : Gen.cfg_pdffit.reduceInit = true := rfl
  rw [hr]
  cases hx : pdffitHeader (stripTrailing Line.blank d.lines) { } with
  | error k => simp [err_bind]
  | ok p =>
    obtain ⟨st, rest⟩ := p
    simp only [ok_bind]
    cases hc : st.cellRead
    · simp [raise, err_bind]
    · simp only [Bool.not_true, Bool.false_eq_true, if_false, not_true_eq_false]
      cases hp : pyProduct true st.ncell with
      | error k => simp [err_bind]
      | ok e =>
        simp only [ok_bind]
        cases ha : pdffitAtoms (rest.length + 1) rest 0 with
        | error k => simp [err_bind]
        | ok n =>
          simp only [ok_bind]
          by_cases h1 : (n : Int) ≠ e
          · simp [h1, raise, err_bind]
          · by_cases h2 : List.take 3 st.ncell ≠ [1, 1, 1]
            · simp only [h1, if_false, superCell]
              cases superStep st.nLatpars st.ncell 0 <;> cases superStep st.nLatpars st.ncell 1 <;>
                cases superStep st.nLatpars st.ncell 2 <;> cases d.superLat.run <;> simp [err_bind, ok_bind]
            · simp [h1, h2]

/-- the same in the monad `M` (before `toOutcome`) -/
theorem pdffitRun_eq (d : PdffitDoc) : tryExcept Gen.cfg_pdffit.H (pdffitBody Gen.cfg_pdffit d) = pdffit_parseLines d := by
  rw [pdffitBody_eq, pdffit_handler_eq]
  unfold pdffit_parseLines
  cases tryExcept pdffit_parseLines_try1_handler (pdffit_parseLines_try1 d) <;> simp [err_bind, ok_bind, pure_eq]

/-- **the tie for PDFfit** -/
theorem parsePdffit_eq (d : PdffitDoc) : parsePdffit Gen.cfg_pdffit d = toOutcome (pdffit_parseLines d) := by
  unfold parsePdffit; rw [pdffitRun_eq]

/-! the fuel of the atom loop (`len(remaining lines) + 1`, the translator's rendering of a `for` whose body calls `next`)
is never exhausted -/

/-- the fuel is never exhausted: with more fuel than remaining lines one more unit changes nothing -/
theorem pdffitAtoms_fuel (fuel : Nat) (ls : List Line) (n : Nat) (h : ls.length < fuel) :
    pdffitAtoms fuel ls n = pdffitAtoms (fuel + 1) ls n := by
  induction fuel generalizing ls n with
  | zero => omega
  | succ f ih =>
    cases ls with
    | nil => simp [pdffitAtoms]
    | cons l1 rest =>
      rcases rest with _ | ⟨l2, _ | ⟨l3, _ | ⟨l4, _ | ⟨l5, _ | ⟨l6, rest'⟩⟩⟩⟩⟩
      case cons.cons.cons.cons.cons.cons =>
        have hi := ih rest' (n + 1) (by simp at h; omega)
        unfold pdffitAtoms
        simp only [nextLine, pure_eq, ok_bind]
        rw [hi]
      all_goals
        unfold pdffitAtoms
        simp [nextLine, raise, pure_eq, ok_bind, err_bind]

/-- any fuel above the number of remaining lines gives the run with the fuel the parser model uses -/
theorem pdffitAtoms_fuel_ge (ls : List Line) (n k : Nat) :
    pdffitAtoms (ls.length + 1 + k) ls n = pdffitAtoms (ls.length + 1) ls n := by
  induction k with
  | zero => rfl
  | succ k ih => rw [← ih, ← Nat.add_assoc, ← pdffitAtoms_fuel _ ls n (by omega)]

/-- the same for the transliterated loop -/
theorem pdffit_for2_fuel (ls : List Line) (st : PState) (n k : Nat) :
    pdffit_parseLines_for2 (ls.length + 1 + k) ls st n = pdffit_parseLines_for2 (ls.length + 1) ls st n := by
  rw [pdffitAtoms_eq, pdffitAtoms_eq, pdffitAtoms_fuel_ge]

/-! non-vacuity for PDFfit -/

example : toOutcome (pdffit_parseLines { lines := [
    { words := [{ kw := .cell }], cwords := [{ kw := .cell }] },
    { words := [{ kw := .ncell }, { int := some 1 }, { int := some 1 }, { int := some 1 }, { int := some 0 }],
      cwords := [{ kw := .ncell }, { int := some 1 }, { int := some 1 }, { int := some 1 }, { int := some 0 }] },
    { words := [{ kw := .atoms }], cwords := [{ kw := .atoms }] }] }) = .ok := by decide
example : toOutcome (pdffit_parseLines { lines := [
    { words := [{ kw := .cell }], cwords := [{ kw := .cell }] }] }) = .err .SFE := by decide
example : toOutcome (pdffit_parseLines { lines := [
    { words := [{ kw := .cell }], cwords := [{ kw := .cell }] },
    { words := [{ kw := .atoms }], cwords := [{ kw := .atoms }] },
    { words := [{}, { flt := true }, { flt := true }, { flt := true }, { flt := true }],
      cwords := [{}, { flt := true }, { flt := true }, { flt := true }, { flt := true }] }] }) = .err .SFE := by decide
example : toOutcome (pdffit_parseLines { lines := [
    { words := [{ kw := .sharp }, { flt := true }], cwords := [{ kw := .sharp }, { flt := true }] }] }) = .err .SFE := by decide

end DS.Props.SrcReaders
