import DS.Gen.SrcSymOp
import DS.Lemmas.SrcSymOp
import DS.Lemmas.SrcSymOp4
/-!
# Source tie for the CIF symmetry-operator reader (serves C17 and C07; task T18)

`DS/Gen/SrcSymOp.lean` is written on every run by `translate/src_symop.py` from the current
`src/diffpy/structure/parsers/p_cif.py`: `getSymOp` and `_symop_constant` statement by statement (Python string / list /
dictionary / float primitives of `DS.PyStr`, floats read as exact fractions), the two regular expressions as data for the
matcher `DS.Rx.mK`, and the dictionary `symvec`.  A statement outside the strict templates (any `eval`, `exec`, `compile`,
`__import__`, `getattr`, another helper, a changed loop skeleton) yields `<name>_untranslatable` instead of the definition and
the theorems below that mention it no longer elaborate -> broken tie.

What is proved here, for ALL texts (no bound on length):
* `rx_symop_constant_is_grammar`: what `_rx_symop_constant.match(tpart, pos)` consumes is exactly an optional sign, a literal
  `d+ | d+.d* | .d+` of the model's `scanLit`, and `/ literal` when one follows — nothing else (no exponent, no parenthesis,
  no name, no operator) can be consumed; `rx_symop_constant_covers_model`: whatever the model's `scanQuot` accepts, the pattern
  consumes the same text.
* `rx_split_is_varterm`: a match of the split pattern is an axis letter or a sign directly followed by one, in either case
  (`isAxisCI`/`isSignCI`; on ASCII these are the model's `axisOf ∘ toLower` and `isSign`: `axis_class_ascii`, `sign_class_ascii`).
* `symvec_is_unitVec`: every key the split can produce is in `symvec`, with the signed unit vector of the model; no other keys.
* the data the transliterated control flow depends on (`…_data` theorems, `rfl`) and the statements themselves with every
  constant (`…_shape` theorems, `rfl`); `split_is_splitComma`, `normalize_is_lower_removeAll`: the outer text handling of the
  model is that of the source.
* **`getSymOp_eq : getSymOp_eq_statement`** — the general equality, for every ASCII text: `getSymOp s = lift (parseSymOp s)`.
  The transliteration of the current `getSymOp` and the model `parseSymOp` (the function the theorems of C17/C07 speak
  about) end in the same exception kind (`StructureFormatError` when a component is malformed, `IndexError` when there are
  fewer than three, in the same priority: components in order) — never `KeyError`, `ValueError`, `ZeroDivisionError`, never
  the iteration bound `fuel`, never an operation `outside` the modelled subset — or in the same matrix and the same
  fractions, representation included.  Proof (helper modules `DS/Lemmas/SrcSymOp2` … `SrcSymOp5`):
  - `DS.SrcSymOp3.symop_constant_eq`: `_symop_constant(piece)` is the model's number scanner without axis letters
    (`pieceToks`): a sum of signed quotient literals, every one after the first with an explicit sign, anything else
    `StructureFormatError`; includes fuel sufficiency of the `while` loop, `partition('/')`, `float`, the zero test;
  - `DS.SymText.scanLit_append` / `scanQuot_append`: look-ahead of the literal scanner across a piece boundary;
  - `DS.SrcSymOp4.decomp`: the one-pass scanner on `piece ++ tail` = piece scanner on `piece`, then scanner on `tail`,
    when no variable term starts inside `piece` and `tail` is empty or begins with one;
  - `DS.SrcSymOp4.searchFrom_spec`, `scan_split_none/some`: `re.split` at `[+-]?[xyz]` cuts exactly there;
  - `DS.SrcSymOp4.rowR`, `rowT`, `getSymOp_row_eq`: the loop over the odd pieces never fails and adds the model's row
    vector (`symvec` lookups never miss), the loop over the even pieces fails exactly when the model rejects the row and
    otherwise adds the model's constant (the two summation orders agree by `Frac.add_assoc`/`zero_add`);
  - `DS.SrcSymOp5.scanRow_lower`, `splitComma_lower`: the model lower-cases the whole text first, the source only the
    variable terms — the same on ASCII;
  - `getSymOp_three`, `getSymOp_rows`: the three passes, `t -= floor(t)`, the constructor.
* `getSymOp_samples`: the same agreement checked by kernel evaluation on a fixed list of operator texts covering every
  branch (kept as a regression test of the definitions; it is a consequence of `getSymOp_eq`).

ASCII: `DS.Rx` reads `\d` as `[0-9]` and `(?i)` through `Char.toLower/toUpper`; Python differs on non-ASCII text.  The
hypothesis is explicit in `getSymOp_eq_statement` and in `axis_class_ascii`/`sign_class_ascii`.
-/
namespace DS.Props.SrcSymOp
open DS.Rx DS.PyStr DS.SymText DS.Src.SymOp

/-! ## outcomes -/

def liftErr : Err → Exn
  | .format => .structureFormatError
  | .index => .indexError

/-- how an outcome of the model reads as an outcome of the transliterated function -/
def lift : Except Err SymOp → Except Exn SymOp
  | .ok o => .ok o
  | .error e => .error (liftErr e)

/-- the full statement: on every ASCII text the transliteration of the current `getSymOp` IS `parseSymOp` — same
`StructureFormatError` / `IndexError`, never another exception (`KeyError`, `ValueError`, `ZeroDivisionError`), never the
iteration bound, and on success the same matrix and the same fractions -/
def getSymOp_eq_statement : Prop :=
  ∀ s : List Char, (∀ c ∈ s, c.toNat < 128) → getSymOp s = lift (parseSymOp s)

/-! ## the data the control flow depends on -/

theorem rx_symop_constant_pattern_data :
    rx_symop_constant_pattern = "[+-]?(?:\\d+\\.?\\d*|\\.\\d+)(?:/(?:\\d+\\.?\\d*|\\.\\d+))?" := rfl

theorem rx_split_pattern_data : rx_split_pattern = "(?i)([+-]?[xyz])" := rfl

/-- the constant pattern is `[+-]? lit (/ lit)?` with `lit = \d+ \.? \d* | \. \d+` -/
theorem rx_symop_constant_data : rx_symop_constant = rxConst := rfl

/-- the split pattern is `[+-]?[xyz]`, case-insensitive, inside one capturing group (so the terms are kept) -/
theorem rx_split_data : rx_split = rxVar ∧ rx_split_keep = true := ⟨rfl, rfl⟩

theorem symvec_data : symvec =
    [(['x'], (1, 0, 0)), (['y'], (0, 1, 0)), (['z'], (0, 0, 1)),
     (['-', 'x'], (-1, 0, 0)), (['-', 'y'], (0, -1, 0)), (['-', 'z'], (0, 0, -1)),
     (['+', 'x'], (1, 0, 0)), (['+', 'y'], (0, 1, 0)), (['+', 'z'], (0, 0, 1))] := rfl

/-- both `raise` statements of `_symop_constant` raise `StructureFormatError` with these texts -/
theorem symop_constant_messages_data : symop_constant_messages =
    ["Invalid number %r in symmetry operator.", "Division by zero in symmetry operator term %r."] := rfl

/-! ## the statements themselves: the transliteration is this program, with these constants

Every constant the translator reads from the source (the blank that is removed, the separator, the index tuple, the two
slices, the sign characters, the `/` of `partition`, `0.0`) occurs below; a change of any of them breaks the `rfl`. -/

theorem symop_constant_loop_shape (tpart : List Char) (fuel : Nat) (total : Frac) (pos : Nat) :
    symop_constant_loop tpart (fuel + 1) total pos =
      if pos < tpart.length then
        match pyMatch rx_symop_constant tpart pos with
        | none => .error .structureFormatError
        | some mx => do
          let bad ← (if 0 < pos then (do let c ← listIndex tpart pos; pure (!(['+', '-'].contains c))) else pure false)
          if bad then .error .structureFormatError else
          let p := partition '/' (group tpart mx)
          let nom := p.1
          let den := p.2.2
          let z ← (if !den.isEmpty then (do let d ← float den; pure (decide (d.num = 0))) else pure false)
          if z then .error .structureFormatError else
          let v ← (if !den.isEmpty then (do let a ← float nom; let b ← float den; fdiv a b) else float nom)
          symop_constant_loop tpart fuel (total.add v) mx.2
      else pure total := rfl

theorem symop_constant_shape (tpart : List Char) :
    symop_constant tpart = symop_constant_loop tpart (tpart.length + 1) Frac.zero 0 := rfl

theorem getSymOp_row_shape (eqlist : List (List Char)) (st : (Vec × Vec × Vec) × (Frac × Frac × Frac)) (i : Nat) :
    getSymOp_row eqlist st i = (do
      let e ← listIndex eqlist i
      let eqparts ← (match pySplit rx_split rx_split_keep e with | some l => pure l | none => .error .outside)
      let R ← (sliceStep 1 2 eqparts).foldlM (fun R Rpart => do
          let v ← dictGet symvec (lower Rpart)
          addRow R i v) st.1
      let t ← (sliceStep 0 2 eqparts).foldlM (fun t tpart => do
          let c ← symop_constant tpart
          addAt t i c) st.2
      pure (R, t)) := rfl

theorem getSymOp_shape (s : List Char) :
    getSymOp s = (do
      let snoblanks := removeAll ' ' s
      let eqlist := split ',' snoblanks
      let st ← [0, 1, 2].foldlM (getSymOp_row eqlist) (zeros33, zeros3)
      let t := subFloor st.2
      pure (mkSymOp st.1 t)) := rfl

/-- the model splits and strips the same way: `splitComma` is `split ','`, `normalize` removes the same blank -/
theorem split_is_splitComma (s : List Char) : split ',' s = splitComma s := by
  induction s with
  | nil => rfl
  | cons c r ih =>
    rw [split, splitComma, ih]
    cases splitComma r <;> rfl

theorem normalize_is_lower_removeAll (s : List Char) : normalize s = lower (removeAll ' ' s) := rfl

/-! ## the two patterns, on every text -/

/-- **the constant pattern is the literal grammar** -/
theorem rx_symop_constant_is_grammar (n : Nat) (s : List Char) :
    matchRest rx_symop_constant n s = constRest s := by
  rw [rx_symop_constant_data]; exact matchRest_rxConst n s

/-- `_rx_symop_constant.match(tpart, pos)`: the span ends where the literal grammar stops -/
theorem rx_symop_constant_match (tpart : List Char) (pos : Nat) (h : pos ≤ tpart.length) :
    pyMatch rx_symop_constant tpart pos =
      (constRest (tpart.drop pos)).map (fun rest => (pos, tpart.length - rest.length)) := by
  simp [pyMatch, h, rx_symop_constant_is_grammar]

/-- a text the pattern does not consume at all: anything that does not start (after an optional sign) with a digit or
with `.` and a digit — in particular a letter, a parenthesis, an operator -/
theorem rx_symop_constant_rejects (n : Nat) (c : Char) (r : List Char)
    (hs : isSign c = false) (hd : c.isDigit = false) (hdot : c ≠ '.') :
    matchRest rx_symop_constant n (c :: r) = none := by
  rw [rx_symop_constant_is_grammar]
  simp [constRest, unsign, hs, scanLit_other hd hdot]

/-- whatever the model's quotient scanner accepts, the pattern consumes exactly that text -/
theorem rx_symop_constant_covers_model {s r : List Char} {v : Frac} (h : scanQuot s = some (v, r))
    (hs : ∀ c r', s = c :: r' → isSign c = false) (n : Nat) :
    matchRest rx_symop_constant n s = some r := by
  rw [rx_symop_constant_is_grammar]
  have := scanQuot_rest h
  cases s with
  | nil => simpa [constRest, unsign] using this
  | cons c r' => simpa [constRest, unsign, hs c r' rfl] using this

-- non-vacuity: the model accepts `1/2`, and the pattern consumes all of it; `(1/2)` is not consumed at all
example : ∃ v, scanQuot ['1', '/', '2', '+'] = some (v, ['+']) := ⟨_, rfl⟩
example : matchRest rx_symop_constant 4 ['1', '/', '2', '+'] = some ['+'] :=
  rx_symop_constant_covers_model (v := ⟨1 * 1, 1 * (2 : Int).toNat⟩) rfl (by intro c r h; cases h; rfl) 4
example : matchRest rx_symop_constant 5 ['(', '1', '/', '2', ')'] = none :=
  rx_symop_constant_rejects 5 '(' _ rfl rfl (by decide)

/-- **the split pattern is the variable term** -/
theorem rx_split_is_varterm (n : Nat) (s : List Char) : matchRest rx_split n s = varRest s := by
  rw [rx_split_data.1]; exact matchRest_rxVar n s

theorem axis_class_ascii {c : Char} (h : c.toNat < 128) : isAxisCI c = (axisOf c.toLower).isSome := isAxisCI_eq h
theorem sign_class_ascii {c : Char} (h : c.toNat < 128) : isSignCI c = isSign c := isSignCI_eq h

/-- the pattern cannot match the empty text, so `re.split` is inside the modelled subset: never `Exn.outside` -/
theorem rx_split_not_nullable (e : List Char) : (pySplit rx_split rx_split_keep e).isSome = true := by
  simp [pySplit, rx_split_data.1, rxVar, nullable]

/-! ## the dictionary -/

/-- every lower-cased term the split can produce is a key, with the model's signed unit vector -/
theorem symvec_is_unitVec :
    ∀ (c : Char) (a : Nat), axisOf c = some a →
      dictGet symvec [c] = .ok (unitVec false a) ∧
      dictGet symvec ['+', c] = .ok (unitVec false a) ∧
      dictGet symvec ['-', c] = .ok (unitVec true a) := by
  intro c a h
  unfold axisOf at h
  split at h
  · rename_i hc; subst hc; cases h; exact ⟨rfl, rfl, rfl⟩
  · split at h
    · rename_i hc; subst hc; cases h; exact ⟨rfl, rfl, rfl⟩
    · split at h
      · rename_i hc; subst hc; cases h; exact ⟨rfl, rfl, rfl⟩
      · cases h

/-! ## agreement on operator texts covering every branch (kernel-checked test) -/

def sampleTexts : List String :=
  [ "x,y,z", "X, Y ,Z+1/2", "-x+1/2,y-.5,z+1./3.0-1/4", "+x,+y,+z", "x-y,x,z", "x+x-x,y,z", "-X,-Y,-Z", "x,y,z,garbage",
    "1/2+x,y+0.25,.5-z", "x,y,z+12/24", "x,y,z-1/3", "x,y,z+1/3+1/3+1/3", "2x,y,z", "x2,y,z", "x1/2,y,z", "1/2x,y,z", "x,y,zz",
    "x,,z", "0,0,0", "x,y,z+08/016",
    "", "x", "x,y", ",", ",,",
    "x,y,1/0", "x,y,1/0.0", "x,y,1e0", "x,y,1E0", "x,y,(1/2)", "x,y,(1)/2", "x,y,z+1/2/3", "x,y,z-1/2+-1", "x,y,z+1/", "x,y,z+/2",
    "x,y,z+.", "x,y,z+", "x,y,z-", "x,y,2**-1", "x,y,0x1", "x,y,1_0", "x,y,1j", "x,y,z+1 2", "x,y,z+a", "x,y,--1", "x,y,+-1",
    "x,y,1.5.2", "x,y,1/+2", "x,y,z;1", "w,y,z", "x,y,__import__('os')" ]

/-- decidable form of `a = lift b` -/
def agree : Except Exn SymOp → Except Err SymOp → Bool
  | .ok x, .ok y => x = y
  | .error e, .error f => e = liftErr f
  | _, _ => false

theorem agree_iff (a : Except Exn SymOp) (b : Except Err SymOp) : agree a b = true ↔ a = lift b := by
  cases a <;> cases b <;> simp [agree, lift]

theorem getSymOp_samples_check : sampleTexts.all (fun t => agree (getSymOp t.toList) (parseSymOp t.toList)) = true := by
  decide

theorem getSymOp_samples : ∀ t ∈ sampleTexts, getSymOp t.toList = lift (parseSymOp t.toList) := by
  intro t ht
  exact (agree_iff _ _).mp (List.all_eq_true.mp getSymOp_samples_check t ht)

/-! ## the general theorem: the transliteration of the current `getSymOp` IS the model, on every ASCII text -/

open DS.SrcSymOp4 in
/-- after the three passes of the loop: the rows and constants of the model -/
theorem getSymOp_three (a b c : List Char) (rest : List (List Char)) (ha : Ascii a) (hb : Ascii b) (hc : Ascii c) :
    [0, 1, 2].foldlM (getSymOp_row (a :: b :: c :: rest)) (zeros33, zeros3) =
      match parseRow (lower a) with
      | none => .error .structureFormatError
      | some ta =>
        match parseRow (lower b) with
        | none => .error .structureFormatError
        | some tb =>
          match parseRow (lower c) with
          | none => .error .structureFormatError
          | some tc => .ok ((rowVec ta, rowVec tb, rowVec tc), (rowConst ta, rowConst tb, rowConst tc)) := by
  simp only [List.foldlM_cons, List.foldlM_nil]
  rw [getSymOp_row_eq (i := 0) (by omega) _ _ a rfl ha]
  cases parseRow (lower a) with
  | none => rfl
  | some ta =>
    simp only [ok_bind]
    rw [getSymOp_row_eq (i := 1) (by omega) _ _ b rfl hb]
    cases parseRow (lower b) with
    | none => rfl
    | some tb =>
      simp only [ok_bind]
      rw [getSymOp_row_eq (i := 2) (by omega) _ _ c rfl hc]
      cases parseRow (lower c) with
      | none => rfl
      | some tc =>
        simp [addRowP, addAtP, zeros33, zeros3, addVec_zero_left, Frac.zero_add]

/-- `parseSymOp` after the text has been split into components -/
def parseRows (L : List (List Char)) : Except Err SymOp :=
  match L with
  | [] => .error .index
  | a :: rest =>
    match parseRow a with
    | none => .error .format
    | some ta =>
      match rest with
      | [] => .error .index
      | b :: rest2 =>
        match parseRow b with
        | none => .error .format
        | some tb =>
          match rest2 with
          | [] => .error .index
          | c :: _ =>
            match parseRow c with
            | none => .error .format
            | some tc =>
              .ok { r1 := rowVec ta, r2 := rowVec tb, r3 := rowVec tc,
                    t1 := (rowConst ta).fract, t2 := (rowConst tb).fract, t3 := (rowConst tc).fract }

theorem parseSymOp_rows (s : List Char) : parseSymOp s = parseRows (splitComma (normalize s)) := rfl

open DS.SrcSymOp4 in
/-- the loop over the components, the floor and the constructor, for any list of ASCII components -/
theorem getSymOp_rows (L : List (List Char)) (hrows : ∀ e ∈ L, Ascii e) :
    (do let st ← [0, 1, 2].foldlM (getSymOp_row L) (zeros33, zeros3)
        pure (mkSymOp st.1 (subFloor st.2)) : Except Exn SymOp) = lift (parseRows (L.map lower)) := by
  match L, hrows with
  | [], _ =>
    simp only [List.foldlM_cons, List.map_nil]
    rw [getSymOp_row_index (i := 0) _ _ rfl]; rfl
  | [a], hrows =>
    have ha : Ascii a := hrows a (by simp)
    simp only [List.foldlM_cons, List.map_cons, List.map_nil, parseRows]
    rw [getSymOp_row_eq (i := 0) (by omega) _ _ a rfl ha]
    cases parseRow (lower a) with
    | none => rfl
    | some ta =>
      simp only [ok_bind]
      rw [getSymOp_row_index (i := 1) _ _ rfl]; rfl
  | [a, b], hrows =>
    have ha : Ascii a := hrows a (by simp)
    have hb : Ascii b := hrows b (by simp)
    simp only [List.foldlM_cons, List.map_cons, List.map_nil, parseRows]
    rw [getSymOp_row_eq (i := 0) (by omega) _ _ a rfl ha]
    cases parseRow (lower a) with
    | none => rfl
    | some ta =>
      simp only [ok_bind]
      rw [getSymOp_row_eq (i := 1) (by omega) _ _ b rfl hb]
      cases parseRow (lower b) with
      | none => rfl
      | some tb =>
        simp only [ok_bind]
        rw [getSymOp_row_index (i := 2) _ _ rfl]; rfl
  | a :: b :: c :: rest, hrows =>
    have ha : Ascii a := hrows a (by simp)
    have hb : Ascii b := hrows b (by simp)
    have hc : Ascii c := hrows c (by simp)
    rw [getSymOp_three a b c rest ha hb hc]
    simp only [List.map_cons, parseRows]
    cases parseRow (lower a) with
    | none => rfl
    | some ta =>
      cases parseRow (lower b) with
      | none => rfl
      | some tb =>
        cases parseRow (lower c) with
        | none => rfl
        | some tc => rfl

open DS.SrcSymOp4 in
/-- **`getSymOp` is `parseSymOp`**: on every ASCII text the transliteration of the current source and the model end in
the same exception (`StructureFormatError` / `IndexError`, never `KeyError`, `ValueError`, `ZeroDivisionError`, never
the iteration bound, never an operation outside the modelled subset) or in the same matrix and the same fractions -/
theorem getSymOp_eq : getSymOp_eq_statement := by
  intro s hs
  have ht : Ascii (removeAll ' ' s) := fun c hc => hs c (DS.SrcSymOp5.removeAll_mem _ _ c hc)
  have hrows : ∀ e ∈ split ',' (removeAll ' ' s), Ascii e :=
    fun e he c hc => ht c (DS.SrcSymOp5.split_mem ',' _ e he c hc)
  rw [parseSymOp_rows, normalize_is_lower_removeAll, DS.SrcSymOp5.splitComma_lower _ ht, ← split_is_splitComma,
    ← getSymOp_rows _ hrows]
  rfl

-- non-vacuity: the hypothesis holds for ordinary operator texts, and both outcomes occur
example : (∀ c ∈ "-x+1/2, Y, z-.25".toList, c.toNat < 128) := by decide
example : ∃ o, getSymOp "-x+1/2, Y, z-.25".toList = .ok o := ⟨_, rfl⟩
example : getSymOp "x,y,1/0".toList = .error .structureFormatError := by
  rw [getSymOp_eq _ (by decide)]; rfl

end DS.Props.SrcSymOp
