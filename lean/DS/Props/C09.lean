import DS.Lemmas.Adp
/-!
# C09 — an atom's displacement parameters stay coherent under any assignment history

Model: `DS.Model.Adp` (the storage / flag / lattice state machine of `atom.py`, every setter and
getter as written, including the `U` getter that rewrites the storage).  All theorems are over
the reals and hold after **every** history `ops` of admissible steps (`OpOK`: assigned tensors are
symmetric, assigned lattices satisfy `LatOK`), starting from a fresh `Atom()`; they are proved
through the invariant `AdpInv` (`runOps_inv`, induction over the op list).
-/
namespace DS.Props.C09
open DS DS.AtomS Real

/-- the state after an admissible history on a fresh `Atom()` -/
theorem reach_inv (ops : List (AdpOp ℝ)) (hops : ∀ op ∈ ops, OpOK op) : AdpInv (runOps AtomS.default ops) :=
  runOps_inv ops default_inv hops

/-! ## statements about an arbitrary state satisfying the invariant -/
section state
variable {s : AtomS ℝ}

theorem inv_U_symm (h : AdpInv s) : (s.getU).1.isSymm := getU_fst_symm h

/-- element getters read the tensor -/
theorem inv_getUij (i j : Ix) : s.getUij i j = (s.getU).1.get i j := by
  unfold getUij getU
  cases s.aniso with
  | true => rfl
  | false => cases i <;> cases j <;> rfl

theorem inv_iso_tensor (hs : s.aniso = false) :
    (s.getU).1 = Mat3.smul s.uisoequiv s.latOf.isotropicunit := by
  unfold getU uisoequiv; simp [hs]

theorem inv_B_eq (i j : Ix) :
    s.getBij i j = 8 * π ^ 2 * s.getUij i j ∧ s.bisoequiv = 8 * π ^ 2 * s.uisoequiv := by
  unfold getBij bisoequiv; rw [UtoB_eq]; exact ⟨rfl, rfl⟩

theorem inv_uiso_trace (h : AdpInv s) : s.uisoequiv = (ucart s.latOf (s.getU).1).trace / 3 :=
  uisoequiv_trace h

/-- switching the flag (either direction, or not at all) keeps the equivalent isotropic value -/
theorem inv_toggle (h : AdpInv s) (b : Bool) : (s.setAniso b).uisoequiv = s.uisoequiv := by
  by_cases hb : (b == s.aniso) = true
  · unfold setAniso; simp only [hb, if_true]
  · have hinv := setAniso_inv b h
    cases b with
    | true =>
      have hs : s.aniso = false := by cases hh : s.aniso <;> simp_all
      have e : s.setAniso true = { (s.getU).2 with aniso := true } := by
        unfold setAniso; simp [hs]
      have hU : (s.setAniso true).U = Mat3.smul s.U.a11 (s.setAniso true).latOf.isotropicunit := by
        rw [e]; unfold getU latOf; simp [hs]
      rw [uisoequiv_of_iso_storage hinv (by rw [e]) s.U.a11 hU]
      unfold uisoequiv; simp [hs]
    | false =>
      have hs : s.aniso = true := by cases hh : s.aniso <;> simp_all
      unfold setAniso
      simp only [hs, Bool.false_eq_true, if_false, beq_iff_eq]
      show (if (!false) = true then (s.U.set .i0 .i0 s.uisoequiv).a11 else _) = _
      simp [Mat3.set]

/-- off and on again (the tensor is replaced by the isotropic one of the same value) -/
theorem inv_toggle_twice (h : AdpInv s) (b : Bool) :
    ((s.setAniso b).setAniso (!b)).uisoequiv = s.uisoequiv := by
  rw [inv_toggle (setAniso_inv b h), inv_toggle h]

/-- assigning `Uisoequiv` and reading it back, all three branches of the setter -/
theorem inv_setUiso (h : AdpInv s) (v : ℝ) : (s.setUiso v).uisoequiv = v := by
  have hinv := setUiso_inv v h
  cases hs : s.aniso with
  | false =>
    unfold setUiso uisoequiv; simp [hs, Mat3.set]
  | true =>
    by_cases hc : absα s.uisoequiv < AdpConst.eps
    · have e : s.setUiso v = { s with U := Mat3.smul v s.latOf.isotropicunit } := by
        unfold setUiso; simp [hs, hc]
      refine uisoequiv_of_iso_storage hinv ?_ v ?_
      · rw [e]; exact hs
      · rw [e]; rfl
    · have e : s.setUiso v = { s with U := s.U.scaleR (v / s.uisoequiv) } := by
        unfold setUiso; simp [hs, hc]
      rw [e, uisoequiv_scaleR hs]
      have hne : s.uisoequiv ≠ 0 := by
        intro h0
        apply hc
        rw [h0, absα_zero]
        exact eps_pos
      field_simp

theorem inv_setBiso (h : AdpInv s) (v : ℝ) : (s.setBiso v).bisoequiv = v := by
  unfold setBiso bisoequiv
  rw [inv_setUiso h, ← mul_assoc, UtoB_mul_BtoU, one_mul]

/-- mean-square displacement along a direction: lattice and Cartesian coordinates agree -/
theorem inv_msd_agree (h : AdpInv s) (v : Vec3 ℝ) : s.msdLat v = s.msdCart (s.latOf.cart v) := by
  have hl := latOf_ok h
  unfold msdLat msdCart
  cases hs : s.aniso with
  | false => rfl
  | true =>
    have hg : (s.getU).1 = s.U := by unfold getU; simp [hs]
    simp only [Bool.not_true, Bool.false_eq_true, if_false, hg]
    rw [← hl.metrics_gram]
    unfold ucart LatData.norm
    rw [hl.normbase_def]
    simp only [LatData.cart, Mat3.vecMul, Mat3.mulVec, Mat3.mul, Mat3.transpose, Mat3.rowScale, Vec3.dot, Vec3.divS]
    ring

theorem inv_msd_iso (hs : s.aniso = false) (v : Vec3 ℝ) :
    s.msdLat v = s.uisoequiv ∧ s.msdCart v = s.uisoequiv := by
  unfold msdLat msdCart; simp [hs]

/-- the `U` getter rewrites the storage but no readable quantity changes -/
theorem inv_readU_transparent (h : AdpInv s) :
    ((s.getU).2.getU).1 = (s.getU).1 ∧ (s.getU).2.uisoequiv = s.uisoequiv
      ∧ ∀ i j, (s.getU).2.getUij i j = s.getUij i j := by
  have hd := (latOf_ok h).iso_diag
  have key : ∀ t : AtomS ℝ, t.aniso = false → t.latOf = s.latOf → t.U.a11 = s.U.a11 → s.aniso = false →
      (t.getU).1 = (s.getU).1 ∧ t.uisoequiv = s.uisoequiv ∧ ∀ i j, t.getUij i j = s.getUij i j := by
    intro t ht hl hu hs
    refine ⟨?_, ?_, ?_⟩
    · unfold getU; simp [ht, hs, hl, hu]
    · unfold uisoequiv; simp [ht, hs, hu]
    · intro i j; unfold getUij; simp [ht, hs, hl, hu]
  cases hs : s.aniso with
  | true =>
    have : (s.getU).2 = s := by unfold getU; simp [hs]
    rw [this]; exact ⟨rfl, rfl, fun _ _ => rfl⟩
  | false =>
    apply key _ _ _ _ hs
    · rw [getU_snd_aniso]; exact hs
    · unfold latOf; rw [getU_snd_lat]
    · unfold getU; simp [hs, Mat3.smul, hd.1]

/-- assigning a diagonal element and reading it back (either flag state) -/
theorem inv_setUii (h : AdpInv s) (i : Ix) (v : ℝ) : (s.setUij i i v).getUij i i = v := by
  have hd := (latOf_ok h).iso_diag
  have hl : (s.setUij i i v).latOf = s.latOf := rfl
  unfold getUij
  rw [hl]
  cases hs : s.aniso <;> cases i <;> simp [setUij, hs, Mat3.set, Mat3.get, hd.1, hd.2.1, hd.2.2]

/-- assigning an element of an anisotropic atom sets it and its mirror image, nothing else -/
theorem inv_setUij_aniso (hs : s.aniso = true) (i j : Ix) (v : ℝ) (p q : Ix) :
    (s.setUij i j v).getUij p q = if (p = i ∧ q = j) ∨ (p = j ∧ q = i) then v else s.getUij p q := by
  cases i <;> cases j <;> cases p <;> cases q <;> simp [setUij, getUij, hs, Mat3.set, Mat3.get]

end state

/-! ## the property: after every admissible history -/
section history
variable (ops : List (AdpOp ℝ)) (h : ∀ op ∈ ops, OpOK op)
include h

/-- the tensor is symmetric -/
theorem U_symm : ((runOps AtomS.default ops).getU).1.isSymm := inv_U_symm (reach_inv ops h)

omit h in
/-- `U11 … U23` are the elements of the tensor -/
theorem elements_eq (i j : Ix) :
    (runOps AtomS.default ops).getUij i j = ((runOps AtomS.default ops).getU).1.get i j :=
  inv_getUij i j

omit h in
/-- an isotropic atom's tensor is its isotropic value times the lattice's unit isotropic tensor -/
theorem iso_tensor (hs : (runOps AtomS.default ops).aniso = false) :
    ((runOps AtomS.default ops).getU).1 =
      Mat3.smul (runOps AtomS.default ops).uisoequiv (runOps AtomS.default ops).latOf.isotropicunit :=
  inv_iso_tensor hs

omit h in
/-- every B quantity is `8π²` times the U quantity -/
theorem B_eq (i j : Ix) :
    (runOps AtomS.default ops).getBij i j = 8 * π ^ 2 * (runOps AtomS.default ops).getUij i j
      ∧ (runOps AtomS.default ops).bisoequiv = 8 * π ^ 2 * (runOps AtomS.default ops).uisoequiv :=
  inv_B_eq i j

/-- the equivalent isotropic value is one third of the trace of the Cartesian tensor
`normbaseᵀ · U · normbase` (all three branches of the getter, six-term formula included) -/
theorem uiso_trace :
    (runOps AtomS.default ops).uisoequiv =
      (ucart (runOps AtomS.default ops).latOf ((runOps AtomS.default ops).getU).1).trace / 3 :=
  inv_uiso_trace (reach_inv ops h)

/-- switching the flag keeps the equivalent isotropic value, both directions -/
theorem toggle_preserves (b : Bool) :
    ((runOps AtomS.default ops).setAniso b).uisoequiv = (runOps AtomS.default ops).uisoequiv :=
  inv_toggle (reach_inv ops h) b

/-- … and so does switching it off and on (or on and off) again -/
theorem toggle_twice_preserves (b : Bool) :
    (((runOps AtomS.default ops).setAniso b).setAniso (!b)).uisoequiv = (runOps AtomS.default ops).uisoequiv :=
  inv_toggle_twice (reach_inv ops h) b

/-- setting the isotropic value then reading returns it -/
theorem setUiso_spec (v : ℝ) : ((runOps AtomS.default ops).setUiso v).uisoequiv = v :=
  inv_setUiso (reach_inv ops h) v

theorem setBiso_spec (v : ℝ) : ((runOps AtomS.default ops).setBiso v).bisoequiv = v :=
  inv_setBiso (reach_inv ops h) v

/-- mean-square displacements agree in lattice and Cartesian coordinates -/
theorem msd_agree (v : Vec3 ℝ) :
    (runOps AtomS.default ops).msdLat v = (runOps AtomS.default ops).msdCart ((runOps AtomS.default ops).latOf.cart v) :=
  inv_msd_agree (reach_inv ops h) v

/-- reading `U` (which rewrites the storage of an isotropic atom) changes nothing readable -/
theorem readU_transparent :
    (((runOps AtomS.default ops).getU).2.getU).1 = ((runOps AtomS.default ops).getU).1
      ∧ ((runOps AtomS.default ops).getU).2.uisoequiv = (runOps AtomS.default ops).uisoequiv
      ∧ ∀ i j, ((runOps AtomS.default ops).getU).2.getUij i j = (runOps AtomS.default ops).getUij i j :=
  inv_readU_transparent (reach_inv ops h)

/-- assigning a diagonal element then reading returns it -/
theorem setUii_spec (i : Ix) (v : ℝ) : ((runOps AtomS.default ops).setUij i i v).getUij i i = v :=
  inv_setUii (reach_inv ops h) i v

end history

/-! ## non-vacuity -/

/-- an oblique lattice with rational attributes: base vectors (5,0,0), (3,4,0), (0,0,1);
`a = b = 5`, `c = 1`, `cos γ = 3/5`, reciprocal lengths `1/4, 1/4, 1` -/
noncomputable def obl : LatData ℝ :=
  let base : Mat3 ℝ := ⟨5, 0, 0, 3, 4, 0, 0, 0, 1⟩
  let rcb : Mat3 ℝ := ⟨1 / 5, 0, 0, -3 / 20, 1 / 4, 0, 0, 0, 1⟩
  { a := 5, b := 5, c := 1, ca := 0, cb := 0, cg := 3 / 5, ar := 1 / 4, br := 1 / 4, cr := 1,
    base := base, recbase := rcb,
    normbase := base.rowScale (1 / 4) (1 / 4) 1,
    recnormbase := rcb.colDiv (1 / 4) (1 / 4) 1,
    isotropicunit := isotropicunitOf (rcb.colDiv (1 / 4) (1 / 4) 1),
    metrics := metricsOf 5 5 1 0 0 (3 / 5) }

theorem obl_ok : LatOK obl where
  base_rec := by apply Mat3.ext' <;> norm_num [obl, Mat3.mul, Mat3.one]
  rec_base := by apply Mat3.ext' <;> norm_num [obl, Mat3.mul, Mat3.one]
  normbase_def := rfl
  recnormbase_def := rfl
  ar_ne := by norm_num [obl]
  br_ne := by norm_num [obl]
  cr_ne := by norm_num [obl]
  iso_def := rfl
  iso_diag11 := by norm_num [obl, Mat3.mul, Mat3.transpose, Mat3.colDiv]
  iso_diag22 := by norm_num [obl, Mat3.mul, Mat3.transpose, Mat3.colDiv]
  iso_diag33 := by norm_num [obl, Mat3.mul, Mat3.transpose, Mat3.colDiv]
  metrics_def := rfl
  metrics_gram := by apply Mat3.ext' <;> norm_num [obl, Mat3.mul, Mat3.transpose, metricsOf]

/-- the unit isotropic tensor of `obl` is not the identity: off-diagonal `-3/5` -/
example : obl.isotropicunit.a12 = -3 / 5 := by
  norm_num [obl, isotropicunitOf, Mat3.forceDiag1, Mat3.mul, Mat3.transpose, Mat3.colDiv]

/-- an admissible history that uses every kind of step in the oblique lattice -/
noncomputable def demoOps : List (AdpOp ℝ) :=
  [ .setLattice (some obl), .setUiso 2, .setAniso true, .setUij .i0 .i1 1, .setBij .i2 .i2 3,
    .readU, .setU ⟨1, 2, 3, 2, 4, 5, 3, 5, 6⟩, .setAniso false, .setBiso 7, .setLattice none, .readU ]

theorem demoOps_ok : ∀ op ∈ demoOps, OpOK op := by
  intro op hop
  simp only [demoOps, List.mem_cons, List.mem_nil_iff, or_false] at hop
  rcases hop with rfl | rfl | rfl | rfl | rfl | rfl | rfl | rfl | rfl | rfl | rfl
  all_goals first
    | exact trivial
    | exact (fun l hl => by cases hl; exact obl_ok)
    | exact (fun l hl => by cases hl)
    | exact ⟨rfl, rfl, rfl⟩

/-- the hypotheses of all history theorems are satisfiable by a non-trivial history -/
example : AdpInv (runOps AtomS.default demoOps) := reach_inv demoOps demoOps_ok

/-- the six-term formula on a concrete anisotropic atom in the oblique lattice:
`U = [[1,2,3],[2,4,5],[3,5,6]]` has `Uisoequiv = 281/48` (not `trace/3 = 11/3`) -/
example :
    (runOps AtomS.default [.setLattice (some obl), .setAniso true, .setU ⟨1, 2, 3, 2, 4, 5, 3, 5, 6⟩]).uisoequiv
      = 281 / 48 := by
  norm_num [runOps, AdpOp.apply, setLattice, setAniso, setU, getU, uisoequiv, AtomS.default, obl]

end DS.Props.C09
