import DS.Props.C07Sym
import DS.Props.C11
/-!
# C07 — the symmetry source decided on the tabulated settings (C07Sym ∘ C11)

`DS.Props.C07Sym` treats `FindSpaceGroup` as a parameter.  Here it is instantiated with the model `Lookup.findSG` on the table
generated from the current source (`Gen.allSG`, C03/C11), whose specification `DS.Props.C11.tables_find_spec` is proved for all
operation lists: the CIF reader's decision, on the generated tables, for EVERY listed operator list.

* `listed_permutation_tabulated` — an operator list that is a reordering of a tabulated setting's operations is read as that
  setting (position `i` of the table), whatever identifiers the block carries: "the space group is identified as the tabulated
  setting" of C07, for all 514 settings and all orders;
* `listed_untabulated_custom` — a non-empty in-range operator list that is not a reordering of any tabulated list, in a block
  without usable identifier, is read as an ad-hoc group consisting of exactly the listed operators;
* `listed_untabulated_overridden` — the same list in a block WITH a known identifier is read as the identifier's setting (the
  open finding `symsource:listed-ops-overridden`, here on the generated tables).
-/
namespace DS.Props.C07SymTables
open DS DS.Lookup DS.CifSym

/-- the environment of the reader on the generated tables: `FindSpaceGroup` is the model `findSG` (a setting is named by its
position in `SpaceGroupList`); the other library functions stay parameters -/
def tableEnv (getSymOp : String → Except Exn Op) (isId : String → Bool) (getSG : String → Except Exn Nat) (upper : String → String) :
    Env Nat Op :=
  { getSymOp := getSymOp, find := fun l => findSG Gen.allSG l, isId := isId, getSG := getSG, upper := upper }

theorem tableEnv_find (getSymOp : String → Except Exn Op) (isId : String → Bool) (getSG : String → Except Exn Nat) (upper : String → String)
    (l : List Op) : (tableEnv getSymOp isId getSG upper).find l = findSG Gen.allSG l := by
  simp only [tableEnv]

theorem tableEnv_isId (getSymOp : String → Except Exn Op) (isId : String → Bool) (getSG : String → Except Exn Nat) (upper : String → String)
    (s : String) : (tableEnv getSymOp isId getSG upper).isId s = isId s := by
  unfold tableEnv; rfl

theorem tableEnv_getSG (getSymOp : String → Except Exn Op) (isId : String → Bool) (getSG : String → Except Exn Nat) (upper : String → String)
    (s : String) : (tableEnv getSymOp isId getSG upper).getSG s = getSG s := by
  unfold tableEnv; rfl

variable (getSymOp : String → Except Exn Op) (isId : String → Bool) (getSG : String → Except Exn Nat) (upper : String → String)

/-- **any reordering of a tabulated operation list is read as that setting**, whatever else the block says -/
theorem listed_permutation_tabulated (b : Block) {i : Nat} {g : SG} (hi : Gen.allSG[i]? = some g) {l : List Op}
    (hne : l ≠ []) (hp : l.Perm g.ops) :
    choose (tableEnv getSymOp isId getSG upper) b l = .ok (.tab i) :=
by
  have h := C11.tables_find_perm hi hp
  exact C07Sym.listed_tabulated_wins _ b l i hne (by rw [tableEnv_find]; exact h)

/-- **an untabulated list without usable identifier gives an ad-hoc group of exactly the listed operators** -/
theorem listed_untabulated_custom (b : Block) {l : List Op} (hne : l ≠ []) (hl : ∀ a ∈ l, a.inRange = true)
    (hno : ∀ g ∈ Gen.allSG, ¬ l.Perm g.ops) (hid : sgid b = "" ∨ isId (sgid b) = false) :
    choose (tableEnv getSymOp isId getSG upper) b l =
      .ok (.custom ("CIF " ++ pyOr (hall b) "data") (crystalSystem (tableEnv getSymOp isId getSG upper) b) l) :=
by
  have h := (C11.tables_find_spec hl).2.2 hno
  exact C07Sym.custom_when_unidentified _ b l hne (by rw [tableEnv_find]; exact h) (by simpa [tableEnv_isId] using hid)

/-- the finding on the generated tables: an untabulated list is overridden by a known identifier -/
theorem listed_untabulated_overridden (b : Block) {l : List Op} (hne : l ≠ []) (hl : ∀ a ∈ l, a.inRange = true)
    (hno : ∀ g ∈ Gen.allSG, ¬ l.Perm g.ops) (hs : sgid b ≠ "") (hi : isId (sgid b) = true) {j : Nat}
    (hg : getSG (sgid b) = .ok j) :
    choose (tableEnv getSymOp isId getSG upper) b l = .ok (.tab j) :=
by
  have h := (C11.tables_find_spec hl).2.2 hno
  exact C07Sym.listed_ops_overridden _ b l j hne (by rw [tableEnv_find]; exact h) hs (by rw [tableEnv_isId]; exact hi)
    (by rw [tableEnv_getSG]; exact hg)

/-- non-vacuity: the reversed operation list of a generated setting is non-empty and a reordering of it -/
example : ∃ (i : Nat) (g : SG), Gen.allSG[i]? = some g ∧ g.ops.reverse ≠ [] ∧ g.ops.reverse.Perm g.ops :=
  ⟨231, Gen.sg225, rfl, by decide +kernel, List.reverse_perm _⟩

end DS.Props.C07SymTables
