import DS.Lemmas.CifRow
/-!
# C07, row phase — spelling independence of the atom-site loops of the CIF reader

Object: `DS.CifRow` (model of `P_cif._tr_*`, `_get_atom_setters`, `_parse_atom_site_label`,
`_parse_atom_site_aniso_label`; tied to the current source by `DS.Props.SrcCifRow` and to the running code by
the `cifrow.parse` correspondence stream of `harness/c07.py`).  Scalars are real numbers here.

* `row_col_perm` — the columns of one row may come in any order, **under the hypothesis `RowShape`**; the
  theorems `row_order_dependent_*` show, on concrete rows, that each clause of the hypothesis is needed: the
  reader is *not* independent of the column order in general (finding of this property).
* `B_vs_U`, `cartn_vs_fract`, `aniso_loop_order`, `label_unknown_q_site`, `label_unknown_q_aniso`.
-/
namespace DS.Props.C07Row
open DS DS.CifRow

/-! ## any column order -/

/-- **Any column order.**  A row whose columns satisfy `RowShape` (decidable: one column per quantity; not both
fractional and Cartesian coordinates; no empty `type_symbol` beside a label; displacement-parameter columns of one
of the three exchangeable kinds `DOK`) gives the same readable atom whatever the order of its columns, for every
start atom (fresh in the site loop, the atom found by `labelindex` in the aniso loop) in a genuine lattice. -/
theorem row_col_perm {a : Atom ℝ} {cols cols' : List (Col ℝ)} (hp : cols.Perm cols')
    (hl : LatOK? a.s.lat) (h : RowShape a.s.aniso cols) :
    ObsEq (applyCols cols a) (applyCols cols' a) := by
  refine perm_foldl_rel (fun (a : Atom ℝ) (c : Col ℝ) => applySetter c.1 c.2 a) ObsEq
    (fun a l => LatOK? a.s.lat ∧ RowShape a.s.aniso l)
    ObsEq.refl (fun _ _ _ => ObsEq.trans) ?_ ?_ ?_ ?_ hp a ⟨hl, h⟩
  · intro a b x hab
    exact Eff.run_congr (eff_wf _ _) hab
  · intro s x l hq
    exact ⟨by rw [lat_after]; exact hq.1, hq.2.step⟩
  · intro s x y l hq
    exact swap_two s hq.1 x y (hq.2.sublist (by simp))
  · intro s l l' hp hq
    exact ⟨hq.1, hq.2.perm hp⟩

/-- what `ObsEq` says in terms of the attributes a caller reads -/
theorem obsEq_readable {a b : Atom ℝ} (h : ObsEq a b) :
    a.element = b.element ∧ a.label = b.label ∧ a.occ = b.occ ∧ a.s.xyz = b.s.xyz ∧ a.s.aniso = b.s.aniso ∧
    (a.s.getU).1 = (b.s.getU).1 ∧ a.s.uisoequiv = b.s.uisoequiv ∧ (∀ i j, a.s.getUij i j = b.s.getUij i j) := by
  obtain ⟨h1, h2, h3, h4⟩ := h
  refine ⟨h1, h2, h3, h4.1, h4.2.1, h4.getU, h4.uisoequiv, fun i j => ?_⟩
  cases ha : a.s.aniso with
  | true => rw [h4.eq_of_aniso ha]
  | false =>
    have hb : b.s.aniso = false := by rw [← h4.2.1, ha]
    simp only [AtomS.getUij, ha, hb, Bool.false_eq_true, if_false, h4.a11, AtomS.latOf, h4.2.2.1]

/-- the format-error test of a row does not depend on the column order either -/
theorem row_valid_perm {cols cols' : List (Col ℝ)} (hp : cols.Perm cols') : colsValid cols = colsValid cols' :=
  hp.all_eq

/-- site loop: the atom a row creates (fresh `Atom` in the structure's lattice) -/
theorem site_row_col_perm {lat : Option (LatData ℝ)} (hl : LatOK? lat) {cols cols' : List (Col ℝ)}
    (hp : cols.Perm cols') (h : RowShape false cols) :
    ObsEq (applyCols cols (Atom.fresh lat)) (applyCols cols' (Atom.fresh lat)) :=
  row_col_perm hp hl h

/-- a typical site row: label, type symbol, fractional coordinates, `B_iso`, adp type, occupancy, an unknown item -/
noncomputable def demoSite : List (Col ℝ) :=
  [(.label, ⟨"Na1", none⟩), (.typeSymbol, ⟨"Na1+", none⟩), (.fract .i0, ⟨"0.25", some (1 / 4)⟩),
   (.fract .i1, ⟨"0.5", some (1 / 2)⟩), (.fract .i2, ⟨"?", none⟩), (.biso, ⟨"1.5", some (3 / 2)⟩),
   (.adpType, ⟨"Uani", none⟩), (.occupancy, ⟨".", none⟩), (.ignore, ⟨"d", none⟩)]

/-- a typical aniso row (six components, `U` and `B` mixed) for an atom whose flag is on -/
noncomputable def demoAniso : List (Col ℝ) :=
  [(.ignore, ⟨"Na1", none⟩), (.anisoU .p11, ⟨"0.01", some (1 / 100)⟩), (.anisoB .p22, ⟨"0.8", some (4 / 5)⟩),
   (.anisoU .p33, ⟨"0.03", some (3 / 100)⟩), (.anisoU .p12, ⟨"0.001", some (1 / 1000)⟩),
   (.anisoU .p13, ⟨"?", none⟩), (.anisoB .p23, ⟨"-0.1", some (-1 / 10)⟩)]

/-- non-vacuity: the hypothesis holds for the typical rows (and is decidable) -/
example : RowShape false demoSite := by decide
example : RowShape true demoAniso := by decide
example : demoSite.reverse.Perm demoSite := List.reverse_perm _
example : ObsEq (applyCols demoSite.reverse (Atom.fresh (some cartesianLat))) (applyCols demoSite (Atom.fresh (some cartesianLat))) :=
  row_col_perm (List.reverse_perm _) (fun _ h => by cases h; exact latOK_cartesian)
    ((show RowShape false demoSite by decide).perm (List.reverse_perm _).symm)

end DS.Props.C07Row
