import DS.Lemmas.CifRow
import DS.Props.C09
/-!
# C07, row phase — spelling independence of the atom-site loops of the CIF reader

Object: `DS.CifRow` (model of `P_cif._tr_*`, `_get_atom_setters`, `_parse_atom_site_label`,
`_parse_atom_site_aniso_label`; tied to the current source by `DS.Props.SrcCifRow` and to the running code by
the `cifrow.parse` correspondence stream of `harness/c07.py`).  Scalars are real numbers here.

* `row_col_perm` — the columns of one row may come in any order, **under the hypothesis `RowShape`**; the
  theorems `row_order_dependent_*` show, on concrete rows, that each clause of the hypothesis is needed: the
  reader is *not* independent of the column order in general (finding of this property).
* `B_vs_U`, `cartn_vs_fract`, `aniso_loop_order`, `label_unknown_q_site`, `label_unknown_q_aniso`.
-/
namespace DS.Props.C07Row
open DS DS.CifRow Real

/-! ## any column order -/

/-- **Any column order.**  A row whose columns satisfy `RowShape` (decidable: one column per quantity; not both
fractional and Cartesian coordinates; no empty `type_symbol` beside a label; displacement-parameter columns of one
of the three exchangeable kinds `DOK`) gives the same readable atom whatever the order of its columns, for every
start atom (fresh in the site loop, the atom found by `labelindex` in the aniso loop) in a genuine lattice. -/
theorem row_col_perm {a : Atom ℝ} {cols cols' : List (Col ℝ)} (hp : cols.Perm cols')
    (hl : LatOK? a.s.lat) (h : RowShape a.s.aniso cols) :
    ObsEq (applyCols cols a) (applyCols cols' a) := by
  refine perm_foldl_rel (fun (a : Atom ℝ) (c : Col ℝ) => applySetter c.1 c.2 a) ObsEq
    (fun a l => LatOK? a.s.lat ∧ RowShape a.s.aniso l)
    ObsEq.refl (fun _ _ _ => ObsEq.trans) ?_ ?_ ?_ ?_ hp a ⟨hl, h⟩
  · intro a b x hab
    exact Eff.run_congr (eff_wf _ _) hab
  · intro s x l hq
    exact ⟨by rw [lat_after]; exact hq.1, hq.2.step⟩
  · intro s x y l hq
    exact swap_two s hq.1 x y (hq.2.sublist (by simp))
  · intro s l l' hp hq
    exact ⟨hq.1, hq.2.perm hp⟩

/-- what `ObsEq` says in terms of the attributes a caller reads -/
theorem obsEq_readable {a b : Atom ℝ} (h : ObsEq a b) :
    a.element = b.element ∧ a.label = b.label ∧ a.occ = b.occ ∧ a.s.xyz = b.s.xyz ∧ a.s.aniso = b.s.aniso ∧
    (a.s.getU).1 = (b.s.getU).1 ∧ a.s.uisoequiv = b.s.uisoequiv ∧ (∀ i j, a.s.getUij i j = b.s.getUij i j) := by
  obtain ⟨h1, h2, h3, h4⟩ := h
  refine ⟨h1, h2, h3, h4.1, h4.2.1, h4.getU, h4.uisoequiv, fun i j => ?_⟩
  cases ha : a.s.aniso with
  | true => rw [h4.eq_of_aniso ha]
  | false =>
    have hb : b.s.aniso = false := by rw [← h4.2.1, ha]
    simp only [AtomS.getUij, ha, hb, Bool.false_eq_true, if_false, h4.a11, AtomS.latOf, h4.2.2.1]

/-- the format-error test of a row does not depend on the column order either -/
theorem row_valid_perm {cols cols' : List (Col ℝ)} (hp : cols.Perm cols') : colsValid cols = colsValid cols' :=
  hp.all_eq

/-- site loop: the atom a row creates (fresh `Atom` in the structure's lattice) -/
theorem site_row_col_perm {lat : Option (LatData ℝ)} (hl : LatOK? lat) {cols cols' : List (Col ℝ)}
    (hp : cols.Perm cols') (h : RowShape false cols) :
    ObsEq (applyCols cols (Atom.fresh lat)) (applyCols cols' (Atom.fresh lat)) :=
  row_col_perm hp hl h

/-- a typical site row: label, type symbol, fractional coordinates, `B_iso`, adp type, occupancy, an unknown item -/
noncomputable def demoSite : List (Col ℝ) :=
  [(.label, ⟨"Na1", none⟩), (.typeSymbol, ⟨"Na1+", none⟩), (.fract .i0, ⟨"0.25", some (1 / 4)⟩),
   (.fract .i1, ⟨"0.5", some (1 / 2)⟩), (.fract .i2, ⟨"?", none⟩), (.biso, ⟨"1.5", some (3 / 2)⟩),
   (.adpType, ⟨"Uani", none⟩), (.occupancy, ⟨".", none⟩), (.ignore, ⟨"d", none⟩)]

/-- a typical aniso row (six components, `U` and `B` mixed) for an atom whose flag is on -/
noncomputable def demoAniso : List (Col ℝ) :=
  [(.ignore, ⟨"Na1", none⟩), (.anisoU .p11, ⟨"0.01", some (1 / 100)⟩), (.anisoB .p22, ⟨"0.8", some (4 / 5)⟩),
   (.anisoU .p33, ⟨"0.03", some (3 / 100)⟩), (.anisoU .p12, ⟨"0.001", some (1 / 1000)⟩),
   (.anisoU .p13, ⟨"?", none⟩), (.anisoB .p23, ⟨"-0.1", some (-1 / 10)⟩)]

/-- non-vacuity: the hypothesis holds for the typical rows (and is decidable) -/
example : RowShape false demoSite := by decide
example : RowShape true demoAniso := by decide
example : demoSite.reverse.Perm demoSite := List.reverse_perm _
example : ObsEq (applyCols demoSite.reverse (Atom.fresh (some cartesianLat))) (applyCols demoSite (Atom.fresh (some cartesianLat))) :=
  row_col_perm (List.reverse_perm _) (fun _ h => by cases h; exact latOK_cartesian)
    ((show RowShape false demoSite by decide).perm (List.reverse_perm _).symm)

/-! ## … but not every column order: each clause of `RowShape` is needed -/

theorem adpFlag_Uani : adpFlag "Uani" = true := by decide
theorem adpFlag_Uiso : adpFlag "Uiso" = false := by decide

/-- the fresh atom of the site loop in the default (Cartesian) lattice -/
noncomputable def a0 : Atom ℝ := Atom.fresh (some cartesianLat)

theorem obsEq_U_of_aniso {a b : Atom ℝ} (h : ObsEq a b) (ha : a.s.aniso = true) : a.s.U = b.s.U := by
  rw [h.2.2.2.eq_of_aniso ha]

/-- **Not any column order (1).**  `adp_type = Uani` before / after a tensor component: given after, the component is lost. -/
theorem row_order_dependent_adp_type_aniso :
    ¬ ObsEq (applyCols [(.adpType, ⟨"Uani", none⟩), (.anisoU .p12, ⟨"0.001", some (1 / 1000)⟩)] a0)
            (applyCols [(.anisoU .p12, ⟨"0.001", some (1 / 1000)⟩), (.adpType, ⟨"Uani", none⟩)] a0) := by
  intro h
  have hU := obsEq_U_of_aniso h (by
    simp [applyCols, applySetter, eff, Eff.run, Atom.liftS, a0, Atom.fresh, AtomS.default, setAniso_aniso, setUij_aniso, adpFlag_Uani])
  have := congrArg Mat3.a12 hU
  simp [applyCols, applySetter, eff, Eff.run, Atom.liftS, a0, Atom.fresh, AtomS.default, AtomS.setAniso, AtomS.getU,
    AtomS.setUij, adpFlag_Uani, numOf, Mat3.set, AtomS.latOf, cartesianLat, Mat3.smul, Mat3.one, Mat3.zero, Pair.i, Pair.j] at this


/-- **Not any column order (2).**  Isotropic atom, `U_iso_or_equiv` before / after `aniso_U_11 = .`: the later one wins. -/
theorem row_order_dependent_iso_aniso_flag_off :
    ¬ ObsEq (applyCols [(.uiso, ⟨"0.025", some (1 / 40)⟩), (.anisoU .p11, ⟨".", none⟩)] a0)
            (applyCols [(.anisoU .p11, ⟨".", none⟩), (.uiso, ⟨"0.025", some (1 / 40)⟩)] a0) := by
  intro h
  have := h.2.2.2.a11
  simp [applyCols, applySetter, eff, Eff.run, Atom.liftS, a0, Atom.fresh, AtomS.default, AtomS.setUiso,
    AtomS.setUij, numOf, Mat3.set, Mat3.zero, Pair.i, Pair.j] at this

/-- **Not any column order (3).**  Anisotropic atom, `U_iso_or_equiv` before / after a tensor component: given after,
it rescales the tensor. -/
theorem row_order_dependent_iso_aniso_flag_on :
    ¬ ObsEq (applyCols [(.adpType, ⟨"Uani", none⟩), (.uiso, ⟨"0.02", some (1 / 50)⟩), (.anisoU .p11, ⟨"0.01", some (1 / 100)⟩)] a0)
            (applyCols [(.adpType, ⟨"Uani", none⟩), (.anisoU .p11, ⟨"0.01", some (1 / 100)⟩), (.uiso, ⟨"0.02", some (1 / 50)⟩)] a0) := by
  intro h
  have hU := obsEq_U_of_aniso h (by
    simp [applyCols, applySetter, eff, Eff.run, Atom.liftS, a0, Atom.fresh, AtomS.default, setAniso_aniso, setUij_aniso,
      setUiso_aniso, adpFlag_Uani])
  have := congrArg Mat3.a11 hU
  simp [applyCols, applySetter, eff, Eff.run, Atom.liftS, a0, Atom.fresh, AtomS.default, AtomS.setAniso, AtomS.getU,
    AtomS.setUij, AtomS.setUiso, AtomS.uisoequiv, adpFlag_Uani, numOf, Mat3.set, AtomS.latOf, cartesianLat, Mat3.smul,
    Mat3.one, Mat3.zero, Mat3.scaleR, Pair.i, Pair.j, absα, AdpConst.eps] at this
  norm_num at this

/-- **Not any column order (4).**  An empty `type_symbol` before / after the label. -/
theorem row_order_dependent_label_type :
    ¬ ObsEq (applyCols [(.label, ⟨"C1", none⟩), (.typeSymbol, ⟨"", none⟩)] a0)
            (applyCols [(.typeSymbol, ⟨"", none⟩), (.label, ⟨"C1", none⟩)] a0) := by
  intro h
  have := h.1
  revert this
  simp only [applyCols, List.foldl, applySetter, eff, Eff.run, labelNames, a0, Atom.fresh]
  decide

/-- the atom of the site loop in the oblique lattice `obl` (base vectors (5,0,0), (3,4,0), (0,0,1)) -/
noncomputable def aObl : Atom ℝ := Atom.fresh (some DS.Props.C09.obl)

/-- **Not any column order (5).**  A fractional and a Cartesian coordinate in one row of an oblique cell. -/
theorem row_order_dependent_fract_cartn :
    ¬ ObsEq (applyCols [(.fract .i0, ⟨"0.1", some (1 / 10)⟩), (.cartn .i1, ⟨"1", some 1⟩)] aObl)
            (applyCols [(.cartn .i1, ⟨"1", some 1⟩), (.fract .i0, ⟨"0.1", some (1 / 10)⟩)] aObl) := by
  intro h
  have := congrArg Vec3.x h.2.2.2.1
  simp [applyCols, applySetter, eff, Eff.run, Atom.movePos, aObl, Atom.fresh, AtomS.default, setXyzIx, setCartnIx,
    Vec3.setIx, numOf, frac, LatData.cart, Mat3.vecMul, DS.Props.C09.obl, Vec3.zero] at this

/-! ## `B` values vs `U` values -/

/-- the `U` spelling of an item -/
def toUItem : Item → Item
  | .biso => .uiso
  | .anisoB p => .anisoU p
  | it => it

/-- the value of the `U` spelling: `B / (8π²)`; `.` and `?` stay what they are -/
noncomputable def toUVal (it : Item) (v : Value ℝ) : Value ℝ :=
  match it with
  | .biso | .anisoB _ => { text := v.text, num := v.num.map (· / (8 * π ^ 2)) }
  | _ => v

noncomputable def toUCol (c : Col ℝ) : Col ℝ := (toUItem c.1, toUVal c.1 c.2)

theorem numOf_toU (v : Value ℝ) :
    numOf ({ text := v.text, num := v.num.map (· / (8 * π ^ 2)) } : Value ℝ) 0 = BtoU * numOf v 0 := by
  rw [BtoU_eq]
  cases h : v.num with
  | none => simp [numOf, h]
  | some b => simp only [numOf, h, Option.map_some, Option.getD_some]; ring

/-- **B vs U, per item** (iso and the six aniso components): the setter of the `B` item on `b` does what the setter of
the `U` item does on `b / (8π²)`. -/
theorem B_vs_U_item (c : Col ℝ) (a : Atom ℝ) :
    applySetter (toUCol c).1 (toUCol c).2 a = applySetter c.1 c.2 a := by
  obtain ⟨it, v⟩ := c
  cases it <;> simp only [toUCol, toUItem, toUVal, applySetter, eff, numOf_toU]

/-- **B vs U, per row.** -/
theorem B_vs_U (cols : List (Col ℝ)) (a : Atom ℝ) : applyCols (cols.map toUCol) a = applyCols cols a := by
  induction cols generalizing a with
  | nil => rfl
  | cons c cs ih => simp only [applyCols, List.map_cons, List.foldl_cons, B_vs_U_item] at ih ⊢; exact ih _

theorem B_vs_U_valid (cols : List (Col ℝ)) : colsValid (cols.map toUCol) = colsValid cols := by
  simp only [colsValid, List.all_map]
  congr 1
  funext c
  obtain ⟨it, v⟩ := c
  cases it <;> simp [toUCol, toUItem, toUVal, valueOK, needsNum]


theorem toUVal_text (it : Item) (v : Value ℝ) : (toUVal it v).text = v.text := by cases it <;> rfl

/-- a row of values re-spelt column by column -/
noncomputable def toURow (its : List Item) (vals : List (Value ℝ)) : List (Value ℝ) := List.zipWith toUVal its vals

theorem zip_toU (its : List Item) (vals : List (Value ℝ)) :
    (its.map toUItem).zip (toURow its vals) = (its.zip vals).map toUCol := by
  induction its generalizing vals with
  | nil => rfl
  | cons it its ih =>
    cases vals with
    | nil => rfl
    | cons v vs => simp only [toURow, List.map_cons, List.zipWith_cons_cons, List.zip_cons_cons, toUCol] at ih ⊢; rw [ih]

theorem rowLabel_toU {its : List Item} {vals : List (Value ℝ)} (h : vals.length ≤ its.length) (ilb : Nat) :
    rowLabel ilb (toURow its vals) = rowLabel ilb vals := by
  induction its generalizing vals ilb with
  | nil => cases vals with
    | nil => rfl
    | cons v vs => simp at h
  | cons it its ih =>
    cases vals with
    | nil => rfl
    | cons v vs =>
      cases ilb with
      | zero => simp [rowLabel, toURow, toUVal_text]
      | succ n =>
        have := ih (vals := vs) (by simpa using h) n
        simpa [rowLabel, toURow] using this

/-- **B vs U, site loop**: the loop with every `B` column re-spelt as `U` builds the same parser state. -/
theorem B_vs_U_site (lat : Option (LatData ℝ)) (its : List Item) (ilb : Nat) (doesAdp : Bool)
    (rows : List (List (Value ℝ))) (hlen : ∀ r ∈ rows, r.length ≤ its.length) (st : PState ℝ) :
    siteLoop lat (its.map toUItem) ilb doesAdp st (rows.map (toURow its)) = siteLoop lat its ilb doesAdp st rows := by
  induction rows generalizing st with
  | nil => rfl
  | cons r rs ih =>
    have hr : siteRow lat (its.map toUItem) ilb doesAdp st (toURow its r) = siteRow lat its ilb doesAdp st r := by
      simp only [siteRow, rowLabel_toU (hlen r (by simp)), zip_toU, B_vs_U, B_vs_U_valid]
    simp only [List.map_cons, siteLoop, hr]
    cases siteRow lat its ilb doesAdp st r with
    | none => rfl
    | some st' => exact ih (fun r hr => hlen r (List.mem_cons_of_mem _ hr)) st'

/-- **B vs U, aniso loop.** -/
theorem B_vs_U_aniso (its : List Item) (ilb : Nat) (rows : List (List (Value ℝ)))
    (hlen : ∀ r ∈ rows, r.length ≤ its.length) (st : PState ℝ) :
    anisoLoop (its.map toUItem) ilb st (rows.map (toURow its)) = anisoLoop its ilb st rows := by
  unfold anisoLoop
  generalize LoopSt.run st = ls
  induction rows generalizing ls with
  | nil => rfl
  | cons r rs ih =>
    have hr : anisoStep (its.map toUItem) ilb ls (toURow its r) = anisoStep its ilb ls r := by
      cases ls with
      | run s => simp only [anisoStep, anisoRow, rowLabel_toU (hlen r (by simp)), zip_toU, B_vs_U, B_vs_U_valid]
      | done s => rfl
      | err => rfl
    simp only [List.map_cons, List.foldl_cons, hr]
    exact ih (fun r hr => hlen r (List.mem_cons_of_mem _ hr)) _

/-! ## Cartesian vs fractional coordinates -/

/-- equal except for the position -/
def EqUpToXyz (a b : Atom ℝ) : Prop :=
  a.element = b.element ∧ a.label = b.label ∧ a.occ = b.occ ∧ a.s.U = b.s.U ∧ a.s.aniso = b.s.aniso ∧ a.s.lat = b.s.lat

theorem EqUpToXyz.eq {a b : Atom ℝ} (h : EqUpToXyz a b) (hx : a.s.xyz = b.s.xyz) : a = b := by
  obtain ⟨h1, h2, h3, h4, h5, h6⟩ := h
  cases a with | mk e l o s => cases b with | mk e' l' o' s' =>
  cases s; cases s'; simp_all

theorem EqUpToXyz.run {e : Eff ℝ} (he : e.WF) {a b : Atom ℝ} (h : EqUpToXyz a b) : EqUpToXyz (e.run a) (e.run b) := by
  obtain ⟨h1, h2, h3, h4, h5, h6⟩ := h
  cases e with
  | nop => exact ⟨h1, h2, h3, h4, h5, h6⟩
  | names f => exact ⟨by simp only [Eff.run, h1, h2], by simp only [Eff.run, h1, h2], h3, h4, h5, h6⟩
  | pos f => exact ⟨h1, h2, h3, h4, h5, h6⟩
  | occ v => exact ⟨h1, h2, rfl, h4, h5, h6⟩
  | adp f =>
    have hb : b.s = { a.s with xyz := b.s.xyz } := by
      cases hs : b.s; cases ht : a.s; simp_all
    have := he.indep a.s b.s.xyz
    simp only [Eff.run, Atom.liftS]
    rw [hb, this]
    exact ⟨h1, h2, h3, rfl, rfl, rfl⟩

/-- a position effect leaves everything but the position -/
theorem EqUpToXyz.pos_left (f : Option (LatData ℝ) → Vec3 ℝ → Vec3 ℝ) {a b : Atom ℝ} (h : EqUpToXyz a b) :
    EqUpToXyz ((Eff.pos f).run a) b := h


/-- the fractional spelling of a column, given the fractional coordinates `f` of the point -/
noncomputable def toFractCol (f : Vec3 ℝ) (c : Col ℝ) : Col ℝ :=
  match c.1 with
  | .cartn k => (.fract k, { text := c.2.text, num := some (f.getIx k) })
  | _ => c

theorem upToXyz_map (f : Vec3 ℝ) (cols : List (Col ℝ)) :
    ∀ a b : Atom ℝ, EqUpToXyz a b → EqUpToXyz (applyCols (cols.map (toFractCol f)) a) (applyCols cols b) := by
  induction cols with
  | nil => intro a b h; exact h
  | cons c cs ih =>
    intro a b h
    simp only [applyCols, List.map_cons, List.foldl_cons] at ih ⊢
    apply ih
    obtain ⟨it, v⟩ := c
    cases it <;> exact EqUpToXyz.run (eff_wf _ _) h

/-- component writes -/
def wstep (tgt : Col ℝ → Option (Ix × ℝ)) (u : Vec3 ℝ) (c : Col ℝ) : Vec3 ℝ :=
  match tgt c with
  | some (k, v) => u.setIx k v
  | none => u

theorem getIx_setIx (u : Vec3 ℝ) (k k' : Ix) (v : ℝ) : (u.setIx k v).getIx k' = if k' = k then v else u.getIx k' := by
  cases k <;> cases k' <;> rfl

theorem Vec3.ext_getIx {u w : Vec3 ℝ} (h : ∀ k, u.getIx k = w.getIx k) : u = w := by
  cases u; cases w
  have h0 := h .i0; have h1 := h .i1; have h2 := h .i2
  simp only [Vec3.getIx] at h0 h1 h2
  simp [h0, h1, h2]

theorem foldl_wstep_keep (tgt : Col ℝ → Option (Ix × ℝ)) (r : Vec3 ℝ) (k : Ix) (cols : List (Col ℝ))
    (hr : ∀ c ∈ cols, ∀ k v, tgt c = some (k, v) → v = r.getIx k) :
    ∀ u : Vec3 ℝ, u.getIx k = r.getIx k → (cols.foldl (wstep tgt) u).getIx k = r.getIx k := by
  induction cols with
  | nil => intro u h; exact h
  | cons c cs ih =>
    intro u h
    simp only [List.foldl_cons]
    apply ih (fun c hc => hr c (List.mem_cons_of_mem _ hc))
    unfold wstep
    cases ht : tgt c with
    | none => exact h
    | some kv =>
      obtain ⟨k', v⟩ := kv
      simp only [getIx_setIx]
      split
      · rename_i hk; rw [hk]; exact hr c (by simp) k' v ht
      · exact h

theorem foldl_wstep_hit (tgt : Col ℝ → Option (Ix × ℝ)) (r : Vec3 ℝ) (k : Ix) (cols : List (Col ℝ))
    (hr : ∀ c ∈ cols, ∀ k v, tgt c = some (k, v) → v = r.getIx k)
    (hk : ∃ c ∈ cols, ∃ v, tgt c = some (k, v)) :
    ∀ u : Vec3 ℝ, (cols.foldl (wstep tgt) u).getIx k = r.getIx k := by
  induction cols with
  | nil => obtain ⟨c, hc, _⟩ := hk; simp at hc
  | cons c cs ih =>
    intro u
    simp only [List.foldl_cons]
    have hr' : ∀ c ∈ cs, ∀ k v, tgt c = some (k, v) → v = r.getIx k := fun c hc => hr c (List.mem_cons_of_mem _ hc)
    by_cases hcs : ∃ c ∈ cs, ∃ v, tgt c = some (k, v)
    · exact ih hr' hcs _
    · obtain ⟨c', hc', v, hv⟩ := hk
      have : c' = c := by
        rcases List.mem_cons.1 hc' with h | h
        · exact h
        · exact absurd ⟨c', h, v, hv⟩ hcs
      subst this
      apply foldl_wstep_keep tgt r k cs hr'
      simp only [wstep, hv, getIx_setIx, if_true]
      exact hr c' (by simp) k v hv

/-- when every component is written, and always with the component of `r`, the result is `r` -/
theorem foldl_wstep_all (tgt : Col ℝ → Option (Ix × ℝ)) (r : Vec3 ℝ) (cols : List (Col ℝ))
    (hr : ∀ c ∈ cols, ∀ k v, tgt c = some (k, v) → v = r.getIx k)
    (hall : ∀ k, ∃ c ∈ cols, ∃ v, tgt c = some (k, v)) (u : Vec3 ℝ) : cols.foldl (wstep tgt) u = r :=
  Vec3.ext_getIx fun k => foldl_wstep_hit tgt r k cols hr (hall k) u


/-- Cartesian component a column writes -/
noncomputable def cartnTgt (c : Col ℝ) : Option (Ix × ℝ) :=
  match c.1 with
  | .cartn k => some (k, numOf c.2 0)
  | _ => none

/-- fractional component a column writes -/
noncomputable def fractTgt (c : Col ℝ) : Option (Ix × ℝ) :=
  match c.1 with
  | .fract k => some (k, numOf c.2 0)
  | _ => none

/-- in Cartesian coordinates the `Cartn` columns are component writes (no fractional column in the row) -/
theorem cart_applyCols {l : LatData ℝ} (hl : LatOK l) (cols : List (Col ℝ)) (hnf : ∀ c ∈ cols, isFract c.1 = false) :
    ∀ a : Atom ℝ, a.s.lat = some l → l.cart (applyCols cols a).s.xyz = cols.foldl (wstep cartnTgt) (l.cart a.s.xyz) := by
  induction cols with
  | nil => intro a _; rfl
  | cons c cs ih =>
    intro a ha
    simp only [applyCols, List.foldl_cons] at ih ⊢
    rw [ih (fun c hc => hnf c (List.mem_cons_of_mem _ hc)) _ (by rw [lat_after]; exact ha)]
    congr 1
    have hc := hnf c (by simp)
    obtain ⟨it, v⟩ := c
    cases it <;> simp only [isFract, reduceCtorEq] at hc <;>
      simp only [applySetter, eff, Eff.run, Atom.liftS, Atom.movePos, Atom.setOcc, wstep, cartnTgt, setCartnIx, ha,
        cart_frac hl, (setUiso_adpFn _).xyz, (setAniso_adpFn _).xyz, (setUij_adpFn _ _ _).xyz]

/-- the fractional columns are component writes of `xyz` (no Cartesian column in the row) -/
theorem xyz_applyCols (cols : List (Col ℝ)) (hnc : ∀ c ∈ cols, isCartn c.1 = false) :
    ∀ a : Atom ℝ, (applyCols cols a).s.xyz = cols.foldl (wstep fractTgt) a.s.xyz := by
  induction cols with
  | nil => intro a; rfl
  | cons c cs ih =>
    intro a
    simp only [applyCols, List.foldl_cons] at ih ⊢
    rw [ih (fun c hc => hnc c (List.mem_cons_of_mem _ hc))]
    congr 1
    have hc := hnc c (by simp)
    obtain ⟨it, v⟩ := c
    cases it <;> simp only [isCartn, reduceCtorEq] at hc <;>
      simp only [applySetter, eff, Eff.run, Atom.liftS, Atom.movePos, Atom.setOcc, wstep, fractTgt, setXyzIx,
        (setUiso_adpFn _).xyz, (setAniso_adpFn _).xyz, (setUij_adpFn _ _ _).xyz]

/-- **Cartesian vs fractional.**  In a genuine lattice `l`, a row that gives the three Cartesian coordinates `r`
(columns in any position and order, no fractional column) builds the same atom as the row in which these columns give
the fractional coordinates `l.fractional r`. -/
theorem cartn_vs_fract {l : LatData ℝ} (hl : LatOK l) (a : Atom ℝ) (ha : a.s.lat = some l) (r : Vec3 ℝ)
    (cols : List (Col ℝ))
    (hr : ∀ c ∈ cols, ∀ k, c.1 = .cartn k → numOf c.2 0 = r.getIx k)
    (hall : ∀ k, ∃ c ∈ cols, c.1 = .cartn k)
    (hnf : ∀ c ∈ cols, isFract c.1 = false) :
    applyCols (cols.map (toFractCol (frac l r))) a = applyCols cols a := by
  refine (upToXyz_map (frac l r) cols a a ⟨rfl, rfl, rfl, rfl, rfl, rfl⟩).eq ?_
  -- the Cartesian side: `cart xyz = r`, hence `xyz = fractional r`
  have hc : l.cart (applyCols cols a).s.xyz = r := by
    rw [cart_applyCols hl cols hnf a ha]
    refine foldl_wstep_all cartnTgt r cols ?_ ?_ _
    · intro c hc k v ht
      obtain ⟨it, w⟩ := c
      cases it <;> simp only [cartnTgt, reduceCtorEq, Option.some.injEq, Prod.mk.injEq] at ht
      obtain ⟨rfl, rfl⟩ := ht
      exact hr _ hc _ rfl
    · intro k
      obtain ⟨c, hc, hk⟩ := hall k
      exact ⟨c, hc, numOf c.2 0, by simp only [cartnTgt, hk]⟩
  have hx : (applyCols cols a).s.xyz = frac l r := by rw [← hc, frac_cart hl]
  rw [hx, xyz_applyCols]
  · refine foldl_wstep_all fractTgt (frac l r) _ ?_ ?_ _
    · intro c hc k v ht
      obtain ⟨c0, hc0, rfl⟩ := List.mem_map.1 hc
      obtain ⟨it, w⟩ := c0
      cases it <;> simp only [toFractCol, fractTgt, reduceCtorEq, Option.some.injEq, Prod.mk.injEq] at ht
      · exact absurd (hnf _ hc0) (by simp [isFract])
      · obtain ⟨rfl, rfl⟩ := ht
        rfl
    · intro k
      obtain ⟨c, hc, hk⟩ := hall k
      refine ⟨toFractCol (frac l r) c, List.mem_map.2 ⟨c, hc, rfl⟩, (frac l r).getIx k, ?_⟩
      obtain ⟨it, w⟩ := c
      simp only at hk
      subst hk
      rfl
  · intro c hc
    obtain ⟨c0, _, rfl⟩ := List.mem_map.1 hc
    obtain ⟨it, w⟩ := c0
    cases it <;> rfl

/-- non-vacuity: Cartesian columns in the order z, x, y between other columns, in the oblique lattice `obl` -/
noncomputable def demoCartn : List (Col ℝ) :=
  [(.cartn .i2, ⟨"0.5", some (1 / 2)⟩), (.label, ⟨"O1", none⟩), (.cartn .i0, ⟨"4.0", some 4⟩),
   (.uiso, ⟨"0.01", some (1 / 100)⟩), (.cartn .i1, ⟨"2.0", some 2⟩)]

example : applyCols (demoCartn.map (toFractCol (frac DS.Props.C09.obl ⟨4, 2, 1 / 2⟩))) aObl = applyCols demoCartn aObl :=
  cartn_vs_fract DS.Props.C09.obl_ok aObl rfl ⟨4, 2, 1 / 2⟩ demoCartn
    (by intro c hc k hk
        simp only [demoCartn, List.mem_cons, List.mem_nil_iff, or_false] at hc
        rcases hc with rfl | rfl | rfl | rfl | rfl <;> simp only [reduceCtorEq, Item.cartn.injEq] at hk <;> subst hk <;>
          simp [numOf, Vec3.getIx])
    (by intro k; cases k <;> simp [demoCartn])
    (by intro c hc
        simp only [demoCartn, List.mem_cons, List.mem_nil_iff, or_false] at hc
        rcases hc with rfl | rfl | rfl | rfl | rfl <;> rfl)

/-! ## the aniso loop: any row order, and what a `?` label does -/

/-- the state after a row of the aniso loop that is processed without error -/
noncomputable def anisoUpd (its : List Item) (st : PState ℝ) (vals : List (Value ℝ)) (lb : String) (idx : Nat) (a0 : Atom ℝ) :
    PState ℝ :=
  { st with
    atoms := st.atoms.set idx
      (applyCols (its.zip vals) (if (st.anisotropy lb).isSome then a0 else a0.liftS (AtomS.setAniso true))),
    anisotropy := if (st.anisotropy lb).isSome then st.anisotropy else st.anisotropy.set lb true }

/-- a row is processed iff it has a label other than `?` that `labelindex` knows and all its numbers are readable -/
theorem anisoRow_run_iff (its : List Item) (ilb : Nat) (st st1 : PState ℝ) (vals : List (Value ℝ)) :
    anisoRow its ilb st vals = .run st1 ↔
      ∃ lb idx a0, rowLabel ilb vals = some lb ∧ lb ≠ "?" ∧ st.labelindex lb = some idx ∧ st.atoms[idx]? = some a0 ∧
        colsValid (its.zip vals) = true ∧ st1 = anisoUpd its st vals lb idx a0 := by
  unfold anisoRow
  cases hl : rowLabel ilb vals with
  | none => simp
  | some lb =>
    by_cases hq : lb = "?"
    · simp [hq]
    · cases hi : st.labelindex lb with
      | none => simp [hq, hi]
      | some idx =>
        cases ha : st.atoms[idx]? with
        | none => simp [hq, hi, ha]
        | some a0 =>
          cases hv : colsValid (its.zip vals) with
          | false => simp [hq, hi, ha, hv]
          | true =>
            simp only [beq_iff_eq, hq, if_false, hi, ha, hv, Bool.not_true, Bool.false_eq_true, LoopSt.run.injEq,
              Option.some.injEq, ne_eq, not_false_eq_true, true_and, exists_and_left, exists_eq_left', anisoUpd]
            exact eq_comm

theorem anisoRow_done_iff (its : List Item) (ilb : Nat) (st st1 : PState ℝ) (vals : List (Value ℝ)) :
    anisoRow its ilb st vals = .done st1 ↔ rowLabel ilb vals = some "?" ∧ st1 = st := by
  unfold anisoRow
  cases hl : rowLabel ilb vals with
  | none => simp
  | some lb =>
    by_cases hq : lb = "?"
    · simp [hq, eq_comm]
    · cases hi : st.labelindex lb with
      | none => simp [hq, hi]
      | some idx =>
        cases ha : st.atoms[idx]? with
        | none => simp [hq, hi, ha]
        | some a0 =>
          cases hv : colsValid (its.zip vals) <;> simp [hq, hi, ha, hv]


theorem anisoUpd_labelindex (its : List Item) (st : PState ℝ) (vals : List (Value ℝ)) (lb : String) (idx : Nat) (a0 : Atom ℝ) :
    (anisoUpd its st vals lb idx a0).labelindex = st.labelindex := rfl

theorem anisoUpd_length (its : List Item) (st : PState ℝ) (vals : List (Value ℝ)) (lb : String) (idx : Nat) (a0 : Atom ℝ) :
    (anisoUpd its st vals lb idx a0).atoms.length = st.atoms.length := by simp [anisoUpd]

/-- whether a row raises depends on the state only through `labelindex` and the number of atoms -/
theorem anisoRow_err_of (its : List Item) (ilb : Nat) {st st' : PState ℝ} (vals : List (Value ℝ))
    (hli : st'.labelindex = st.labelindex) (hlen : st'.atoms.length = st.atoms.length)
    (h : anisoRow its ilb st vals = .err) : anisoRow its ilb st' vals = .err := by
  cases h' : anisoRow its ilb st' vals with
  | err => rfl
  | done s =>
    have := (anisoRow_done_iff its ilb st' s vals).1 h'
    rw [(anisoRow_done_iff its ilb st st vals).2 ⟨this.1, rfl⟩] at h
    cases h
  | run s =>
    obtain ⟨lb, idx, a0', h1, h2, h3, h4, h5, -⟩ := (anisoRow_run_iff its ilb st' s vals).1 h'
    have hlt : idx < st.atoms.length := by
      rw [← hlen]
      exact (List.getElem?_eq_some_iff.1 h4).1
    have : anisoRow its ilb st vals = .run (anisoUpd its st vals lb idx st.atoms[idx]) :=
      (anisoRow_run_iff its ilb st _ vals).2 ⟨lb, idx, _, h1, h2, by rw [← hli]; exact h3,
        List.getElem?_eq_getElem hlt, h5, rfl⟩
    rw [this] at h
    cases h

theorem Dict.set_ne {β : Type} (d : Dict β) {k k' : String} (h : k' ≠ k) (v : β) : (d.set k v) k' = d k' := by
  simp [Dict.set, h]

theorem Dict.set_comm {β : Type} (d : Dict β) {k k' : String} (h : k ≠ k') (v w : β) :
    (d.set k v).set k' w = (d.set k' w).set k v := by
  funext x
  simp only [Dict.set]
  split_ifs with h1 h2
  · exact absurd (h2.symm.trans h1) h
  · rfl
  · rfl
  · rfl

/-- `labelindex` sends different labels to different atoms -/
def LabelInj (d : Dict Nat) : Prop := ∀ l l' i, d l = some i → d l' = some i → l = l'

/-- two processed rows with different labels can be exchanged -/
theorem anisoUpd_comm (its : List Item) (st : PState ℝ) (x y : List (Value ℝ)) {lb lb' : String} {i j : Nat} {a b : Atom ℝ}
    (hne : lb ≠ lb') (hij : i ≠ j) :
    anisoUpd its (anisoUpd its st x lb i a) y lb' j b = anisoUpd its (anisoUpd its st y lb' j b) x lb i a := by
  have n1 : ∀ (d : Dict Bool) (v : Bool), (d.set lb v) lb' = d lb' := fun d v => Dict.set_ne d hne.symm v
  have n2 : ∀ (d : Dict Bool) (v : Bool), (d.set lb' v) lb = d lb := fun d v => Dict.set_ne d hne v
  unfold anisoUpd
  by_cases h1 : (st.anisotropy lb).isSome = true <;> by_cases h2 : (st.anisotropy lb').isSome = true <;>
    simp only [h1, h2, if_true, if_false, n1, n2, Bool.false_eq_true] <;>
    rw [List.set_comm _ _ hij]
  rw [Dict.set_comm _ hne]


theorem anisoRow_comm (its : List Item) (ilb : Nat) (st : PState ℝ) (hinj : LabelInj st.labelindex)
    (x y : List (Value ℝ)) (hx : rowLabel ilb x ≠ some "?") (hy : rowLabel ilb y ≠ some "?")
    (hxy : rowLabel ilb x ≠ rowLabel ilb y) :
    anisoStep its ilb (anisoRow its ilb st x) y = anisoStep its ilb (anisoRow its ilb st y) x := by
  cases h1 : anisoRow its ilb st x with
  | done s => exact absurd ((anisoRow_done_iff its ilb st s x).1 h1).1 hx
  | err =>
    cases h2 : anisoRow its ilb st y with
    | done s => exact absurd ((anisoRow_done_iff its ilb st s y).1 h2).1 hy
    | err => rfl
    | run s2 =>
      obtain ⟨lb, idx, a0, -, -, -, -, -, rfl⟩ := (anisoRow_run_iff its ilb st s2 y).1 h2
      simp only [anisoStep]
      exact (anisoRow_err_of its ilb x (anisoUpd_labelindex ..) (anisoUpd_length ..) h1).symm
  | run s1 =>
    obtain ⟨lb, i, a, l1, q1, i1, a1, v1, rfl⟩ := (anisoRow_run_iff its ilb st s1 x).1 h1
    cases h2 : anisoRow its ilb st y with
    | done s => exact absurd ((anisoRow_done_iff its ilb st s y).1 h2).1 hy
    | err =>
      simp only [anisoStep]
      exact anisoRow_err_of its ilb y (anisoUpd_labelindex ..) (anisoUpd_length ..) h2
    | run s2 =>
      obtain ⟨lb', j, b, l2, q2, i2, a2, v2, rfl⟩ := (anisoRow_run_iff its ilb st s2 y).1 h2
      have hne : lb ≠ lb' := fun e => hxy (by rw [l1, l2, e])
      have hij : i ≠ j := fun e => hne (hinj lb lb' i i1 (by rw [e]; exact i2))
      simp only [anisoStep]
      have e1 : anisoRow its ilb (anisoUpd its st x lb i a) y =
          .run (anisoUpd its (anisoUpd its st x lb i a) y lb' j b) :=
        (anisoRow_run_iff its ilb _ _ y).2 ⟨lb', j, b, l2, q2, i2, by
          show (st.atoms.set i _)[j]? = some b
          rw [List.getElem?_set_ne hij]; exact a2, v2, rfl⟩
      have e2 : anisoRow its ilb (anisoUpd its st y lb' j b) x =
          .run (anisoUpd its (anisoUpd its st y lb' j b) x lb i a) :=
        (anisoRow_run_iff its ilb _ _ x).2 ⟨lb, i, a, l1, q1, i1, by
          show (st.atoms.set j _)[i]? = some a
          rw [List.getElem?_set_ne hij.symm]; exact a1, v1, rfl⟩
      rw [e1, e2, anisoUpd_comm its st x y hne hij]

/-- **Any row order in the aniso loop.**  When no row carries the label `?`, the labels are pairwise different and
`labelindex` sends different labels to different atoms (which the site loop guarantees, `siteLoop_labelInj`), the rows
of the `_atom_site_aniso_label` loop may come in any order: same atoms, same `anisotropy` dictionary, same errors. -/
theorem aniso_loop_order (its : List Item) (ilb : Nat) (st : PState ℝ) (hinj : LabelInj st.labelindex)
    {rows rows' : List (List (Value ℝ))} (hp : rows.Perm rows')
    (hq : ∀ r ∈ rows, rowLabel ilb r ≠ some "?")
    (hd : rows.Pairwise (fun r r' => rowLabel ilb r ≠ rowLabel ilb r')) :
    anisoLoop its ilb st rows = anisoLoop its ilb st rows' := by
  unfold anisoLoop
  refine perm_foldl_rel (anisoStep its ilb) Eq
    (fun ls l => (∀ r ∈ l, rowLabel ilb r ≠ some "?") ∧ l.Pairwise (fun r r' => rowLabel ilb r ≠ rowLabel ilb r') ∧
      ∀ s, ls = LoopSt.run s → LabelInj s.labelindex)
    (fun _ => rfl) (fun _ _ _ => Eq.trans) (fun _ _ _ h => by rw [h]) ?_ ?_ ?_ hp (.run st)
    ⟨hq, hd, fun s h => by cases h; exact hinj⟩
  · intro ls x l ⟨h1, h2, h3⟩
    refine ⟨fun r hr => h1 r (List.mem_cons_of_mem _ hr), (List.pairwise_cons.1 h2).2, ?_⟩
    intro s hs
    cases ls with
    | done s' => simp [anisoStep] at hs
    | err => simp [anisoStep] at hs
    | run s' =>
      simp only [anisoStep] at hs
      obtain ⟨lb, idx, a0, -, -, -, -, -, rfl⟩ := (anisoRow_run_iff its ilb s' s x).1 hs
      exact h3 s' rfl
  · intro ls x y l ⟨h1, h2, h3⟩
    cases ls with
    | done s' => rfl
    | err => rfl
    | run s' =>
      simp only [anisoStep]
      exact anisoRow_comm its ilb s' (h3 s' rfl) x y (h1 x (by simp)) (h1 y (by simp))
        ((List.pairwise_cons.1 h2).1 y (by simp))
  · intro ls l l' hp ⟨h1, h2, h3⟩
    exact ⟨fun r hr => h1 r (hp.mem_iff.2 hr), (hp.pairwise_iff (fun h => Ne.symm h)).1 h2, h3⟩


/-! ### the label `?` -/

/-- **Site loop: a row whose label is `?` contributes nothing** — no atom, no dictionary entry, and its other values
are not even read (a non-number in such a row is not an error). -/
theorem label_unknown_q_site (lat : Option (LatData ℝ)) (its : List Item) (ilb : Nat) (doesAdp : Bool)
    (r : List (Value ℝ)) (hr : rowLabel ilb r = some "?") (rows1 rows2 : List (List (Value ℝ))) (st : PState ℝ) :
    siteLoop lat its ilb doesAdp st (rows1 ++ r :: rows2) = siteLoop lat its ilb doesAdp st (rows1 ++ rows2) := by
  induction rows1 generalizing st with
  | nil =>
    have : siteRow lat its ilb doesAdp st r = some st := by simp [siteRow, hr]
    simp only [List.nil_append, siteLoop, this]
  | cons x xs ih =>
    simp only [List.cons_append, siteLoop]
    cases siteRow lat its ilb doesAdp st x with
    | none => rfl
    | some st' => exact ih st'

theorem foldl_anisoStep_done (its : List Item) (ilb : Nat) (s : PState ℝ) (rows : List (List (Value ℝ))) :
    rows.foldl (anisoStep its ilb) (.done s) = .done s := by
  induction rows with
  | nil => rfl
  | cons x xs ih => exact ih

theorem foldl_anisoStep_err (its : List Item) (ilb : Nat) (rows : List (List (Value ℝ))) :
    rows.foldl (anisoStep its ilb) (.err : LoopSt (PState ℝ)) = .err := by
  induction rows with
  | nil => rfl
  | cons x xs ih => exact ih

/-- **Aniso loop: a row whose label is `?` ends the loop** (`break`, not `continue`): the rows after it are not read at
all — their atoms keep what the site loop gave them, and an unknown label or a non-number among them is not an error. -/
theorem label_unknown_q_aniso (its : List Item) (ilb : Nat) (r : List (Value ℝ)) (hr : rowLabel ilb r = some "?")
    (rows1 rows2 : List (List (Value ℝ))) (st : PState ℝ) :
    (anisoLoop its ilb st (rows1 ++ r :: rows2)).result = (anisoLoop its ilb st rows1).result := by
  simp only [anisoLoop, List.foldl_append, List.foldl_cons]
  cases rows1.foldl (anisoStep its ilb) (.run st) with
  | run s =>
    have : anisoStep its ilb (.run s) r = .done s := by simp [anisoStep, anisoRow, hr]
    rw [this, foldl_anisoStep_done]; rfl
  | done s => simp only [anisoStep]; rw [foldl_anisoStep_done]
  | err => simp only [anisoStep]; rw [foldl_anisoStep_err]

/-- … so the rows after a `?` row are really not applied: not the same as skipping the `?` row -/
theorem label_unknown_q_aniso_not_continue :
    ∃ (its : List Item) (st : PState ℝ) (r x : List (Value ℝ)), rowLabel 0 r = some "?" ∧
      (anisoLoop its 0 st [r, x]).result ≠ (anisoLoop its 0 st [x]).result := by
  refine ⟨[.ignore], { atoms := [a0], labelindex := Dict.empty.set "C1" 0, anisotropy := Dict.empty },
    [⟨"?", none⟩], [⟨"C1", none⟩], rfl, ?_⟩
  intro h
  simp [anisoLoop, anisoStep, anisoRow, rowLabel, LoopSt.result, Dict.set, Dict.empty, colsValid, valueOK, needsNum,
    applyCols, applySetter, eff, Eff.run] at h
  have := congrArg (fun a : Atom ℝ => a.s.aniso) h.1
  simp [a0, Atom.fresh, AtomS.default, Atom.liftS, setAniso_aniso] at this


/-! ### what the site loop guarantees for the aniso loop -/

/-- invariant of the site loop: `labelindex` is injective and points into the atom list -/
def SiteInv (st : PState ℝ) : Prop :=
  LabelInj st.labelindex ∧ ∀ l i, st.labelindex l = some i → i < st.atoms.length

theorem siteRow_inv {lat : Option (LatData ℝ)} {its : List Item} {ilb : Nat} {doesAdp : Bool} {st st' : PState ℝ}
    {vals : List (Value ℝ)} (h : siteRow lat its ilb doesAdp st vals = some st') (hi : SiteInv st) : SiteInv st' := by
  unfold siteRow at h
  cases hl : rowLabel ilb vals with
  | none => simp [hl] at h
  | some cur =>
    simp only [hl] at h
    split at h
    · cases h; exact hi
    · split at h
      · cases h
      · cases h
        obtain ⟨h1, h2⟩ := hi
        constructor
        · intro l l' i e1 e2
          simp only [Dict.set] at e1 e2
          split at e1 <;> split at e2
          · rename_i p q; rw [p, q]
          · cases e1; exact absurd (h2 _ _ e2) (Nat.lt_irrefl _)
          · cases e2; exact absurd (h2 _ _ e1) (Nat.lt_irrefl _)
          · exact h1 l l' i e1 e2
        · intro l i e
          simp only [Dict.set] at e
          simp only [List.length_append, List.length_singleton]
          split at e
          · cases e; omega
          · have := h2 l i e; omega

theorem siteLoop_inv {lat : Option (LatData ℝ)} {its : List Item} {ilb : Nat} {doesAdp : Bool}
    (rows : List (List (Value ℝ))) : ∀ {st st' : PState ℝ}, siteLoop lat its ilb doesAdp st rows = some st' →
      SiteInv st → SiteInv st' := by
  induction rows with
  | nil => intro st st' h hi; cases h; exact hi
  | cons r rs ih =>
    intro st st' h hi
    simp only [siteLoop] at h
    cases hr : siteRow lat its ilb doesAdp st r with
    | none => simp [hr] at h
    | some s1 => rw [hr] at h; exact ih h (siteRow_inv hr hi)

/-- the site loop sends different labels to different atoms -/
theorem siteLoop_labelInj {lat : Option (LatData ℝ)} {lp : Loop ℝ} {st : PState ℝ} (h : parseSite lat lp = some st) :
    LabelInj st.labelindex := by
  unfold parseSite at h
  split at h
  · exact (siteLoop_inv _ h ⟨fun l l' i e => by simp [PState.empty, Dict.empty] at e,
      fun l i e => by simp [PState.empty, Dict.empty] at e⟩).1
  · cases h

/-- **Any row order in the aniso loop, whole row phase**: for the state the site loop produces. -/
theorem parseAtoms_aniso_order (lat : Option (LatData ℝ)) (site : Loop ℝ) (names : List String)
    {rows rows' : List (List (Value ℝ))} (hp : rows.Perm rows')
    (hq : ∀ ilb, names.idxOf? "_atom_site_aniso_label" = some ilb → ∀ r ∈ rows, rowLabel ilb r ≠ some "?")
    (hd : ∀ ilb, names.idxOf? "_atom_site_aniso_label" = some ilb →
      rows.Pairwise (fun r r' => rowLabel ilb r ≠ rowLabel ilb r')) :
    parseAtoms lat site (some ⟨names, rows⟩) = parseAtoms lat site (some ⟨names, rows'⟩) := by
  unfold parseAtoms
  cases hs : parseSite lat site with
  | none => rfl
  | some st =>
    simp only [Option.bind_some, parseAniso]
    cases names.mapM itemOfName? with
    | none => rfl
    | some its =>
      cases hi : names.idxOf? "_atom_site_aniso_label" with
      | none => rfl
      | some ilb =>
        simp only
        rw [aniso_loop_order its ilb st (siteLoop_labelInj hs) hp (hq ilb hi) (hd ilb hi)]


/-- non-vacuity of `aniso_loop_order`: two atoms, two rows -/
noncomputable def demoSt : PState ℝ :=
  { atoms := [a0, a0], labelindex := (Dict.empty.set "A" 0).set "B" 1, anisotropy := Dict.empty }
noncomputable def rowA : List (Value ℝ) := [⟨"A", none⟩, ⟨"0.01", some (1 / 100)⟩]
noncomputable def rowB : List (Value ℝ) := [⟨"B", none⟩, ⟨"?", none⟩]

example : anisoLoop [.ignore, .anisoU .p11] 0 demoSt [rowA, rowB] = anisoLoop [.ignore, .anisoU .p11] 0 demoSt [rowB, rowA] :=
  aniso_loop_order _ 0 demoSt
    (by intro l l' i e1 e2
        simp only [demoSt, Dict.set, Dict.empty] at e1 e2
        split at e1 <;> split at e2 <;> simp_all <;> omega)
    (List.Perm.swap rowB rowA [])
    (by intro r hr
        simp only [List.mem_cons, List.mem_nil_iff, or_false] at hr
        rcases hr with rfl | rfl <;> simp [rowLabel, rowA, rowB])
    (by simp [rowLabel, rowA, rowB])

/-! ## the name table -/

theorem lookup_mem_snd {β : Type} (k : String) : ∀ (l : List (String × β)) (v : β), l.lookup k = some v → v ∈ l.map Prod.snd
  | [], v, h => by simp at h
  | (k', w) :: l, v, h => by
    simp only [List.lookup_cons] at h
    split at h
    · cases h; simp
    · exact List.mem_cons_of_mem _ (lookup_mem_snd k l v h)

/-- `_get_atom_setters` never fails: every value of the name table (and the default) names a method of the class -/
theorem itemOfName?_isSome (p : String) : (itemOfName? p).isSome = true := by
  unfold itemOfName? fncName
  cases h : setterTable.lookup ("_tr" ++ pyLower p) with
  | none => rfl
  | some v =>
    have hv := lookup_mem_snd _ _ _ h
    have : ∀ v ∈ setterTable.map Prod.snd, (setterAttrs.lookup v).isSome = true := by decide
    exact this v hv

end DS.Props.C07Row
