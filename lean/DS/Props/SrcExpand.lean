import DS.Gen.SrcExpand
/-!
# Source tie for `supercell` (serves C15 and, through the block it cuts from, C18)

From the current `expansion/supercell_mod.py` (regenerated on every run): the index list, the image coordinates, the
new cell, the guards and the statements around the two loops.  The loops themselves (`for a in S: for ijk in ijklist`)
are checked for shape by the translator; the model's `flatMap` over parents of `map` over `ijkList` is that shape.
-/
namespace DS.Props.SrcExpand
open DS
set_option linter.unusedSectionVars false

section
variable {α β : Type} [Add α] [Mul α] [Div α] [Sub α] [NatCast α]

theorem ijkList_eq (l m n : Nat) : Src.Expand.ijkList l m n = Expand.ijkList l m n := rfl
/-- `adup = Atom(a); adup.xyz = (a.xyz + ijk) / mnofloats`: everything but the position is the parent's -/
theorem image_eq (l m n : Nat) (a : Expand.Atom α β) (t : Nat × Nat × Nat) :
    ({ a with xyz := Src.Expand.imageXyz l m n a t } : Expand.Atom α β) = Expand.image l m n a t := rfl
theorem scaleCell_eq (L : Expand.Cell α) (l m n : Nat) : Src.Expand.scaleCell L l m n = L.scale l m n := rfl
end

/-- rejections, in this order (the model: length, then `min < 1`; a non-Structure argument is outside the model) -/
theorem guards_eq : Src.Expand.supercell_guards =
    ["len(mno) != 3 -> ValueError", "min(mno) < 1 -> ValueError", "not isinstance(S, Structure) -> TypeError"] := rfl

/-- multipliers truncated to integers, result built on a copy `Structure(S)`, the `(1,1,1)` shortcut returns that
copy, every image is a fresh `Atom(a)`, the new atoms replace the copy's atoms without another copy -/
theorem facts_eq : Src.Expand.supercell_facts =
    [("append", "newAtoms.append(adup)"), ("dup", "Atom(a)"), ("mno", "(int(mno[0]), int(mno[1]), int(mno[2]))"),
     ("mnofloats", "numpy.array(mno, dtype=float)"), ("newAtoms", "[]"), ("newS", "Structure(S)"), ("return", "newS"),
     ("shortcut", "mno == (1, 1, 1) -> return newS"),
     ("store", "newS.__setitem__(slice(None), newAtoms, copy=False)")] := rfl

end DS.Props.SrcExpand
