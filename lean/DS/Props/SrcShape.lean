import DS.Gen.SrcShape
import DS.Lemmas.Expand
/-!
# Source tie for the nanoparticle cut-out (serves C18)

`DS/Gen/SrcShape.lean` is regenerated on every run from the current `expansion/shapeutils.py` (`findCenter`) and
`expansion/makeellipsoid.py` (`makeEllipsoid`, `makeSphere`) by `translate/src_shape.py`: the three functions as the
source writes them — Python `int` indices with negative values counting from the end, `for` loops as `foldlM` over
`range`, the list of indices to delete collected back to front and removed one `pop` at a time.

The model the C18 theorems speak about (`DS.Expand.findCenter`, `centreIndex`, `ellD`, `keeps`, `cutWith`, `ellMno`,
`ellipsoidWith`, `makeEllipsoid`, `makeSphere`) is written differently: recursion with a counter instead of a fold over
indices, `Option Nat` instead of `-1`, `List.filter` instead of collecting and popping.  The theorems below prove, for
every scalar type of the model's type-class context (hence for `ℝ`, where the C18 theorems live, and for `Float`,
which the driver runs), that the two coincide on all inputs.
-/
namespace DS.Props.SrcShape
open DS DS.Expand
set_option linter.unusedSectionVars false

/-! ### Python indexing -/

/-- a non-negative index is ordinary indexing (out of range = `none` on both sides) -/
theorem pyIndex_natCast (n i : Nat) : Src.Shape.pyIndex n (i : Int) = if i < n then some i else none := by
  unfold Src.Shape.pyIndex
  by_cases h : i < n
  · have h' : (i : Int) < (n : Int) := by omega
    simp [h, h']
  · have h' : ¬ (i : Int) < (n : Int) := by omega
    simp [h, h']

theorem pyGet_natCast {γ : Type} (xs : List γ) (i : Nat) : Src.Shape.pyGet xs (i : Int) = xs[i]? := by
  unfold Src.Shape.pyGet
  rw [pyIndex_natCast]
  by_cases h : i < xs.length
  · simp [h]
  · simp [h]

/-- `xs[-1]` is the last element, `IndexError` on the empty list -/
theorem pyIndex_neg_one (n : Nat) : Src.Shape.pyIndex n (-1) = if n = 0 then none else some (n - 1) := by
  unfold Src.Shape.pyIndex
  by_cases h : n = 0
  · subst h; simp
  · have h1 : -(n : Int) ≤ -1 := by omega
    have h2 : ((-1 : Int) + (n : Int)).toNat = n - 1 := by omega
    simp [h, h1, h2]

theorem pyPop_natCast {γ : Type} (xs : List γ) (i : Nat) (h : i < xs.length) :
    Src.Shape.pyPop xs (i : Int) = .ok (xs.eraseIdx i) := by
  unfold Src.Shape.pyPop
  rw [pyIndex_natCast]
  simp [h]

/-! ### `for` loops in the `Except` monad -/

theorem foldlM_ok_cons {σ ι : Type} (f : σ → ι → Except Err σ) (s s' : σ) (a : ι) (l : List ι) (h : f s a = .ok s') :
    (a :: l).foldlM f s = l.foldlM f s' := by
  rw [List.foldlM_cons, h]; rfl

theorem foldlM_snoc {σ ι : Type} (f : σ → ι → Except Err σ) (s s' : σ) (a : ι) (l : List ι)
    (h : l.foldlM f s = .ok s') : (l ++ [a]).foldlM f s = f s' a := by
  rw [List.foldlM_append, h]
  show List.foldlM f s' [a] = f s' a
  rw [List.foldlM_cons]
  cases f s' a <;> rfl

/-! ### deleting back to front with `pop` is `filter`

The shape of the second half of `makeEllipsoid`, for any list and any deletion test: walk the list from the last element
to the first with a counter `j` that starts at `len` and is decremented before use, append `j` to `delList` when the
element is to go, afterwards `pop` the collected indices in that order. -/

section pop
variable {γ : Type}

/-- one pass of the collecting loop leaves `(delList, j)` such that popping `delList` from the whole list removes
exactly the rejected elements among those already visited (`zs`) and nothing else -/
theorem collect_pop (del : γ → Bool) (xs : List γ) (step : List Int × Int → Nat → Except Err (List Int × Int))
    (hstep : ∀ (dl : List Int) (n i : Nat) (a : γ), xs[n]? = some a →
      step (dl, ((n + 1 : Nat) : Int)) i = .ok (if del a then dl ++ [(n : Int)] else dl, (n : Int))) :
    ∀ (zs ys : List γ), xs = ys ++ zs →
      ∃ dl : List Int, (List.range zs.length).foldlM step ([], (xs.length : Int)) = .ok (dl, (ys.length : Int)) ∧
        dl.foldlM Src.Shape.pyPop xs = .ok (ys ++ zs.filter fun a => !del a) := by
  intro zs
  induction zs with
  | nil =>
    intro ys h
    refine ⟨[], ?_, ?_⟩
    · simp [h]; rfl
    · simp [h]; rfl
  | cons a zs ih =>
    intro ys h
    have h' : xs = (ys ++ [a]) ++ zs := by rw [h]; simp
    obtain ⟨dl, hfold, hpop⟩ := ih (ys ++ [a]) h'
    have hget : xs[ys.length]? = some a := by
      rw [h, List.getElem?_append_right (Nat.le_refl _)]; simp
    have hlen : ((ys ++ [a]).length : Int) = ((ys.length + 1 : Nat) : Int) := by simp
    rw [hlen] at hfold
    refine ⟨if del a then dl ++ [(ys.length : Int)] else dl, ?_, ?_⟩
    · rw [List.length_cons, List.range_succ, foldlM_snoc _ _ _ _ _ hfold]
      exact hstep dl ys.length zs.length a hget
    · cases hd : del a
      · simp only [Bool.false_eq_true, if_false]
        rw [hpop]; simp [hd]
      · simp only [if_true]
        rw [foldlM_snoc _ _ _ _ _ hpop, pyPop_natCast _ _ (by simp)]
        simp [hd, List.eraseIdx_append_of_length_le]

end pop

/-! ### the three functions -/

section
variable {α β : Type} [Add α] [Mul α] [Sub α] [Neg α] [Div α] [OfNat α 0] [OfNat α 1] [OfNat α 2]
  [Elem α] [NatCast α] [LT α] [DecidableRel (α := α) (· < ·)] [IntCeil α]

/-- what `findCenter` returns: the index, or `-1` when no atom is closer to the middle than `len(S)` -/
def optInt : Option Nat → Int
  | some i => (i : Int)
  | none => -1

theorem optInt_inj (a b : Option Nat) (h : optInt a = optInt b) : a = b := by
  cases a <;> cases b <;> simp only [optInt] at h <;> first | rfl | omega | (congr 1; omega)

/-- one iteration of the source's loop on atom `i` = the model's test: strict `d < bestd`, distance to the canonical
centre `(½,½,½)` in the structure's lattice, `best = i`, `bestd = d` -/
theorem findCenter_step_eq (S : Stru α β) (i : Nat) (a : Atom α β) (h : S.atoms[i]? = some a) (best : Option Nat) (bestd : α) :
    Src.Shape.findCenter_step S ⟨1 / 2, 1 / 2, 1 / 2⟩ (optInt best, bestd) i =
      .ok (if S.cell.dist a.xyz ⟨1 / 2, 1 / 2, 1 / 2⟩ < bestd then (optInt (some i), S.cell.dist a.xyz ⟨1 / 2, 1 / 2, 1 / 2⟩)
           else (optInt best, bestd)) := by
  unfold Src.Shape.findCenter_step
  simp only [pyGet_natCast, h]
  split <;> rfl

/-- the fold over `range(len(S))` with `S[i]` is the model's recursion over the atom list with a counter -/
theorem findCenter_loop (L : Cell α) : ∀ (as pre : List (Atom α β)) (best : Option Nat) (bestd : α),
    ∃ bd, (List.range' pre.length as.length).foldlM (Src.Shape.findCenter_step ⟨L, pre ++ as⟩ ⟨1 / 2, 1 / 2, 1 / 2⟩)
        (optInt best, bestd) = .ok (optInt (findCenterAux L as pre.length best bestd), bd) := by
  intro as
  induction as with
  | nil => intro pre best bestd; exact ⟨bestd, rfl⟩
  | cons a as ih =>
    intro pre best bestd
    have hget : (⟨L, pre ++ a :: as⟩ : Stru α β).atoms[pre.length]? = some a := by
      show (pre ++ a :: as)[pre.length]? = some a
      rw [List.getElem?_append_right (Nat.le_refl _)]; simp
    have hstep := findCenter_step_eq ⟨L, pre ++ a :: as⟩ pre.length a hget best bestd
    have hsplit : pre ++ a :: as = (pre ++ [a]) ++ as := by simp
    have hlen : (pre ++ [a]).length = pre.length + 1 := by simp
    rw [List.length_cons, List.range'_succ]
    by_cases hd : L.dist a.xyz ⟨1 / 2, 1 / 2, 1 / 2⟩ < bestd
    · obtain ⟨bd, hbd⟩ := ih (pre ++ [a]) (some pre.length) (L.dist a.xyz ⟨1 / 2, 1 / 2, 1 / 2⟩)
      refine ⟨bd, ?_⟩
      rw [foldlM_ok_cons _ _ _ _ _ (hstep.trans (congrArg Except.ok (if_pos hd)))]
      rw [hsplit, ← hlen, hbd, hlen]
      simp only [findCenterAux, hd, if_true]
    · obtain ⟨bd, hbd⟩ := ih (pre ++ [a]) best bestd
      refine ⟨bd, ?_⟩
      rw [foldlM_ok_cons _ _ _ _ _ (hstep.trans (congrArg Except.ok (if_neg hd)))]
      rw [hsplit, ← hlen, hbd, hlen]
      simp only [findCenterAux, hd, if_false]

/-- **`findCenter`**: initial `best = -1`, `bestd = len(S)`, centre `[0.5, 0.5, 0.5]`, the loop, `return best` — the
source's function never raises and returns the model's answer (`-1` for the model's `none`) -/
theorem findCenter_eq (S : Stru α β) : Src.Shape.findCenter S = .ok (optInt (Expand.findCenter S)) := by
  obtain ⟨bd, h⟩ := findCenter_loop S.cell S.atoms [] none (S.atoms.length : α)
  unfold Src.Shape.findCenter
  simp only [List.range_eq_range']
  simp only [List.length_nil, List.nil_append, optInt] at h
  have hS : (⟨S.cell, S.atoms⟩ : Stru α β) = S := rfl
  rw [hS] at h
  rw [h]
  rfl

/-- **`newS[ncenter]`**: Python indexing with what `findCenter` returned is the model's `centreIndex` (`-1` = the last
atom; `IndexError` exactly for the empty structure) -/
theorem centreIndex_eq (T : Stru α β) :
    Src.Shape.pyIndex T.atoms.length (optInt (Expand.findCenter T)) = centreIndex T := by
  unfold centreIndex
  cases h : Expand.findCenter T with
  | none => simp only [optInt]; rw [pyIndex_neg_one]
  | some i =>
    simp only [optInt]
    rw [pyIndex_natCast, if_pos (findCenter_lt T i h)]

theorem centreAtom_eq (T : Stru α β) :
    Src.Shape.pyGet T.atoms (optInt (Expand.findCenter T)) = (centreIndex T).bind (T.atoms[·]?) := by
  unfold Src.Shape.pyGet
  rw [centreIndex_eq]
  cases centreIndex T <;> rfl

/-- **the deletion test**: `d = sum(((xyz - cxyz) / sabc) ** 2) ** 0.5`, delete when `d > 1` (strict) -/
theorem cut_step_eq (sabc cxyz : Vec3 α) (T : Stru α β) (dl : List Int) (n i : Nat) (a : Atom α β) (h : T.atoms[n]? = some a) :
    Src.Shape.makeEllipsoid_step sabc T T.cell cxyz (dl, ((n + 1 : Nat) : Int)) i =
      .ok (if (!keeps T.cell sabc cxyz a) then dl ++ [(n : Int)] else dl, (n : Int)) := by
  unfold Src.Shape.makeEllipsoid_step
  have hj : ((n + 1 : Nat) : Int) - 1 = (n : Int) := by omega
  simp only [hj, pyGet_natCast, h]
  unfold keeps ellD
  by_cases hd : 1 < Elem.sqrt (0 + (((T.cell.cartesian a.xyz).x - cxyz.x) / sabc.x) * (((T.cell.cartesian a.xyz).x - cxyz.x) / sabc.x)
      + (((T.cell.cartesian a.xyz).y - cxyz.y) / sabc.y) * (((T.cell.cartesian a.xyz).y - cxyz.y) / sabc.y)
      + (((T.cell.cartesian a.xyz).z - cxyz.z) / sabc.z) * (((T.cell.cartesian a.xyz).z - cxyz.z) / sabc.z))
  · simp only [gt_iff_lt, hd, if_true, decide_true, Bool.not_true, Bool.not_false]
  · simp only [gt_iff_lt, hd, if_false, decide_false, Bool.not_false, Bool.not_true, Bool.false_eq_true]

/-- **the block multiplier**: `max(ceil(2 * xi) for xi in S.lattice.fractional(sabc)) * array([1, 1, 1])` -/
theorem mno_eq (L : Cell α) (sabc : Vec3 α) :
    [max (max (IntCeil.ceilInt (2 * (L.fractional sabc).x)) (IntCeil.ceilInt (2 * (L.fractional sabc).y)))
        (IntCeil.ceilInt (2 * (L.fractional sabc).z)) * 1,
     max (max (IntCeil.ceilInt (2 * (L.fractional sabc).x)) (IntCeil.ceilInt (2 * (L.fractional sabc).y)))
        (IntCeil.ceilInt (2 * (L.fractional sabc).z)) * 1,
     max (max (IntCeil.ceilInt (2 * (L.fractional sabc).x)) (IntCeil.ceilInt (2 * (L.fractional sabc).y)))
        (IntCeil.ceilInt (2 * (L.fractional sabc).z)) * 1] = [ellMno L sabc, ellMno L sabc, ellMno L sabc] := by
  simp only [Int.mul_one]; rfl

/-- **the cutting loops**: collecting the indices with `d > 1` from the last atom to the first and popping them in that
order leaves `filter keeps`, in the block's order -/
theorem cut_eq (T : Stru α β) (sabc cxyz : Vec3 α) :
    ∃ dl j, (List.range T.atoms.length).foldlM (Src.Shape.makeEllipsoid_step sabc T T.cell cxyz) ([], (T.atoms.length : Int))
        = .ok (dl, j) ∧ dl.foldlM Src.Shape.pyPop T.atoms = .ok (T.atoms.filter (keeps T.cell sabc cxyz)) := by
  obtain ⟨dl, h1, h2⟩ := collect_pop (fun a => !keeps T.cell sabc cxyz a) T.atoms
    (Src.Shape.makeEllipsoid_step sabc T T.cell cxyz)
    (fun dl n i a h => cut_step_eq sabc cxyz T dl n i a h) T.atoms [] rfl
  refine ⟨dl, _, h1, ?_⟩
  rw [h2]
  simp

/-- all three radii given -/
theorem makeEllipsoid_abc (S : Stru α β) (a b c : α) :
    Src.Shape.makeEllipsoid S a (some b) (some c) = Expand.makeEllipsoid S a (some b) (some c) := by
  unfold Src.Shape.makeEllipsoid Expand.makeEllipsoid ellipsoidWith
  simp only [Option.getD_some, mno_eq, findCenter_eq, centreAtom_eq]
  split
  · next e he => simp only [he]
  · next T he =>
    simp only [he]
    cases hc : centreIndex T with
    | none => rfl
    | some nc =>
      simp only [Option.bind_some, cutWith]
      cases hca : T.atoms[nc]? with
      | none => rfl
      | some ca =>
        obtain ⟨dl, j, h1, h2⟩ := cut_eq T ⟨a, b, c⟩ (T.cell.cartesian ca.xyz)
        simp only [h1, h2]

/-- **`makeEllipsoid`**: the source's function is the model's, for every structure and every radii; an omitted `b`
or `c` is `a` (`if b is None: b = a`) -/
theorem makeEllipsoid_eq (S : Stru α β) (a : α) (b c : Option α) :
    Src.Shape.makeEllipsoid S a b c = Expand.makeEllipsoid S a b c := by
  cases b with
  | none =>
    cases c with
    | none => exact makeEllipsoid_abc S a a a
    | some c => exact makeEllipsoid_abc S a a c
  | some b =>
    cases c with
    | none => exact makeEllipsoid_abc S a b a
    | some c => exact makeEllipsoid_abc S a b c

/-- **`makeSphere`**: `return makeEllipsoid(S, radius)` (the radius for `a`; `b`, `c` omitted or the same radius) -/
theorem makeSphere_eq (S : Stru α β) (r : α) : Src.Shape.makeSphere S r = Expand.makeSphere S r := by
  unfold Src.Shape.makeSphere
  rw [makeEllipsoid_eq]
  -- whatever radii the source passes on: the call must be (definitionally) the model's `makeEllipsoid S r none none`
  split
  · next e h => exact h.symm
  · next R h => exact h.symm

end

/-- signatures (`b`, `c` default to `None`), and where the free names come from: `ceil` is `math.ceil`, `array` is
`numpy.array`, `findCenter` is the function of `shapeutils.py` tied above, `supercell` is `supercell_mod.supercell`
(tied by `DS.Props.SrcExpand`), each bound exactly once; `Structure` is a `list` whose `len`, `pop` are the list's own and
whose `__getitem__` hands an `int` index to `list.__getitem__` (the only sequence method it overrides) -/
theorem facts_eq : Src.Shape.shape_facts =
    [("Structure", "class Structure(list) overrides: __getitem__"),
     ("bindings", "makeEllipsoid: from diffpy.structure.expansion import supercell; module: from diffpy.structure.expansion.shapeutils import findCenter; module: from math import ceil; module: from numpy import array; expansion/__init__: from diffpy.structure.expansion.supercell_mod import supercell"),
     ("findCenter", "(S)"),
     ("makeEllipsoid", "(S, a, b=None, c=None)"),
     ("makeSphere", "(S, radius)")] := rfl

/-! ### non-vacuity (the theorems above are unconditional equalities; these show both sides are not trivially errors) -/

/-- Python indexing as the prelude defines it, on a list of three -/
example : Src.Shape.pyGet [10, 20, 30] (-1) = some 30 ∧ Src.Shape.pyGet [10, 20, 30] 0 = some 10 ∧
    Src.Shape.pyGet [10, 20, 30] (-3) = some 10 ∧ Src.Shape.pyGet [10, 20, 30] 3 = none ∧
    Src.Shape.pyGet [10, 20, 30] (-4) = none ∧ Src.Shape.pyGet ([] : List Nat) (-1) = none := by decide

/-- popping `[3, 1]` (collected back to front) from a list of four removes exactly those two -/
example : [3, 1].foldlM Src.Shape.pyPop [10, 20, 30, 40] = .ok [10, 30] := by decide

end DS.Props.SrcShape
