import DS.Gen.SrcCifSym
import DS.Props.SrcCifSym
import DS.Props.C07
/-!
# Source tie: the symmetry expansion step of the CIF reader (serves C07)

`DS/Gen/SrcCifSym.lean` is written on every run by `translate/src_cifsym.py` from the current
`src/diffpy/structure/parsers/p_cif.py`; besides `_parse_space_group_symop_operation_xyz` (tie: `DS.Props.SrcCifSym`) it holds
`P_cif._expandAsymmetricUnit` statement by statement: `Src.CifSym.expandAsymmetricUnit` with its loop bodies
`expandAsymmetricUnit_decide` (the `zip` loop that settles the displacement type of sites the file did not decide),
`expandAsymmetricUnit_image` (inner loop: one image atom), `expandAsymmetricUnit_site` (outer loop: one listed site), over abstract
atoms (`X.PAtom`: label, element, occupancy, xyz, anisotropy flag, U, opaque rest), an abstract `ExpandAsymmetricUnit` result
(`X.Eau`: `multiplicity`, `expandedpos`, `expandedUijs`, `Uisotropy`) and the `anisotropy` dictionary as an association list.
A statement outside the translator's templates yields `expandAsymmetricUnit_untranslatable`, and nothing below elaborates.

Proved here (every operation list, grid, listing, payload type, atom-setter implementation obeying `AtomLaws`):
* `expandAsymmetricUnit_eq` — when every listed label is already in the `anisotropy` dictionary (the case the C07 model covers:
  `Site.aniso` given) and the `ExpandAsymmetricUnit` object holds what the orbit model yields per site (`EauOf`), the method raises
  nothing, leaves the dictionary alone and replaces `self.stru` by `blocks`: per listed site, in order, the atoms of
  `DS.Cif.expandSite` with the parent's remaining attributes;
* `expandAsymmetricUnit_expand` — the same read against `DS.Cif.expand` (the list `DS.Props.C07` speaks about): all six data
  attributes of the atoms agree, in order, and each atom carries the opaque rest of its parent site;
* `eauModel_ok` + the example below it — `EauOf` is satisfiable for every listing (non-vacuity), and the transliteration evaluated
  on the witness setting with the two sites of `DS.Props.C07` yields the 12 atoms of the model;
* `aniso_default` — a site whose label is NOT in the dictionary (and is the first listed site with that label) gets the flag
  `!Uisotropy[i]`, and the decision is recorded under its label; `aniso_default_later` — a later site with a label already
  decided (in the file or by an earlier site) is left alone and the recorded decision stays; `decide_known` — all labels known:
  the loop changes nothing;
* `index_error_multiplicity`, `index_error_pos` — the Python indexing is kept: a too short `multiplicity` / `expandedpos` raises
  `IndexError` (the method has no guard).

Interface hypothesis (NOT discharged): `EauOf`.  Its clauses are what `DS.Props.SrcConstraints.expandAsymmetricUnit_eq` +
`generatorSiteInit_eq` + `DS.Props.SrcSym.refines` give for `multiplicity` and `expandedpos` on exact grid sites (over an ordered
field, positions `x/D`), but the cast from that scalar layer to the integer grid of `DS.Cif`, and the tensor clause
(`eqUij = R·U·Rᵀ` only for a tensor the site symmetry allows — the reader stores the projection, C06) are not proved here.
-/
namespace DS.Props.SrcCifExpand
open DS DS.Cif DS.CifSym DS.Src.CifSym DS.Src.CifSym.X

/-! ### 0. list plumbing -/

theorem mapM_ok {α β : Type} (f : α → Except Exn β) (g : α → β) :
    ∀ (l : List α), (∀ x ∈ l, f x = .ok (g x)) → l.mapM f = .ok (l.map g)
  | [], _ => rfl
  | a :: l, h => by
    rw [List.mapM_cons, h a List.mem_cons_self, mapM_ok f g l (fun x hx => h x (List.mem_cons_of_mem _ hx))]
    rfl

/-- a loop that appends one computed item per round, none of which raises -/
theorem foldlM_append_ok {α β : Type} (f : α → Except Exn β) (g : α → β) (l : List α) (init : List β)
    (h : ∀ x ∈ l, f x = .ok (g x)) :
    l.foldlM (fun acc t => do let o ← f t; pure (acc ++ [o])) init = .ok (init ++ l.map g) := by
  rw [DS.Props.SrcCifSym.foldlM_append, mapM_ok f g l h]; rfl

theorem mem_enumerateFrom {A : Type} : ∀ (l : List A) (n i : Nat) (a : A),
    (i, a) ∈ enumerateFrom n l → n ≤ i ∧ l[i - n]? = some a
  | [], _, _, _, h => by simp [enumerateFrom] at h
  | b :: l, n, i, a, h => by
    simp only [enumerateFrom, List.mem_cons, Prod.mk.injEq] at h
    rcases h with ⟨rfl, rfl⟩ | h
    · simp
    · obtain ⟨h1, h2⟩ := mem_enumerateFrom l (n + 1) i a h
      refine ⟨by omega, ?_⟩
      have : i - n = (i - (n + 1)) + 1 := by omega
      rw [this, List.getElem?_cons_succ]; exact h2

theorem pyIdx_some {A : Type} {l : List A} {n : Nat} {x : A} (h : l[n]? = some x) : pyIdx l n = .ok x := by
  simp [pyIdx, h, pure, Except.pure]

theorem pyIdx_none {A : Type} {l : List A} {n : Nat} (h : l.length ≤ n) : pyIdx l n = .error Exn.indexError := by
  simp [pyIdx, List.getElem?_eq_none h]

/-! ### 1. the vocabulary of the statement -/

/-- atoms over the exact grid of `DS.Cif`: positions in units `1/(24k)`, rational tensors and occupancies; `R` = everything else an
`Atom` carries -/
abbrev CAtom (R : Type) := PAtom P3 (Mat3 Rat) Rat R

/-- the listed site an atom of the asymmetric unit stands for -/
def siteOf {R : Type} (a : CAtom R) : Site :=
  { label := a.label, elem := a.element, x := a.xyz, occ := a.occupancy, aniso := a.anisotropy, U := a.U }

/-- the atom `Atom(ca)` becomes when it is given the label, position and tensor of an image -/
def ofOut {R : Type} (ca : CAtom R) (o : OutAtom) : CAtom R := { ca with label := o.label, xyz := o.pos, U := o.U }

/-- the six data attributes of an atom / of a model atom -/
def dataOf {R : Type} (a : CAtom R) : String × String × P3 × Rat × Bool × Mat3 Rat :=
  (a.label, a.element, a.xyz, a.occupancy, a.anisotropy, a.U)
def outData (o : OutAtom) : String × String × P3 × Rat × Bool × Mat3 Rat := (o.label, o.elem, o.pos, o.occ, o.aniso, o.U)

/-- what the two setters of `Atom` the method uses are assumed to do (their source: `atom.py`, C09 / `DS.Props.SrcAtom`) -/
structure AtomLaws {P T O R : Type} (ops : AtomOps P T O R) : Prop where
  /-- `a.U = v` on an anisotropic atom stores `v` and nothing else -/
  setU_aniso : ∀ (v : T) (a : PAtom P T O R), a.anisotropy = true → ops.setU v a = { a with U := v }
  /-- `a.anisotropy = b` sets the flag … -/
  setAnisotropy_flag : ∀ (b : Bool) (a : PAtom P T O R), (ops.setAnisotropy b a).anisotropy = b
  /-- … and keeps the label -/
  setAnisotropy_label : ∀ (b : Bool) (a : PAtom P T O R), (ops.setAnisotropy b a).label = a.label

/-- the `j`-th atom of the block of site `i` (the function `DS.Cif.expandSite` maps over `range`) -/
def outAt (G : List Op) (k E : Int) (i : Nat) (s : Site) (j : Nat) : OutAtom :=
  { site := i, img := j, label := imageLabel s.label j, elem := s.elem,
    pos := (Orbit.result G k E (0, 0, 0) s.x).1.getD j (0, 0, 0), occ := s.occ, aniso := s.aniso,
    U := if s.aniso then Con.rotT (Con.rotQ (((Orbit.result G k E (0, 0, 0) s.x).2.1.getD j []).headD Op.one)) s.U else s.U }

theorem expandSite_eq (G : List Op) (k E : Int) (i : Nat) (s : Site) :
    expandSite G k E i s = (List.range (Orbit.result G k E (0, 0, 0) s.x).1.length).map (outAt G k E i s) := rfl

/-- **the interface to `ExpandAsymmetricUnit`**: the object holds, per listed site, the number of positions and the positions
`expandPosition` returns (model `Orbit.result`), and — for the anisotropic sites — the parent's tensor rotated by the first
operation generating each image -/
structure EauOf (G : List Op) (k E : Int) (sites : List Site) (eau : Eau P3 (Mat3 Rat)) : Prop where
  multiplicity : eau.multiplicity = sites.map fun s => (Orbit.result G k E (0, 0, 0) s.x).1.length
  expandedpos : eau.expandedpos = sites.map fun s => (Orbit.result G k E (0, 0, 0) s.x).1
  expandedUijs : ∀ (i : Nat) (s : Site), sites[i]? = some s → s.aniso = true →
    ∃ row, eau.expandedUijs[i]? = some row ∧ ∀ j, j < (Orbit.result G k E (0, 0, 0) s.x).1.length →
      row[j]? = some (Con.rotT (Con.rotQ (((Orbit.result G k E (0, 0, 0) s.x).2.1.getD j []).headD Op.one)) s.U)

/-- the `ExpandAsymmetricUnit` object of the model -/
def eauModel (G : List Op) (k E : Int) (sites : List Site) : Eau P3 (Mat3 Rat) :=
  { multiplicity := sites.map fun s => (Orbit.result G k E (0, 0, 0) s.x).1.length
    expandedpos := sites.map fun s => (Orbit.result G k E (0, 0, 0) s.x).1
    expandedUijs := sites.map fun s => (List.range (Orbit.result G k E (0, 0, 0) s.x).1.length).map fun j =>
      Con.rotT (Con.rotQ (((Orbit.result G k E (0, 0, 0) s.x).2.1.getD j []).headD Op.one)) s.U
    Uisotropy := sites.map fun s => !s.aniso }

/-- non-vacuity of `EauOf`, for every listing -/
theorem eauModel_ok (G : List Op) (k E : Int) (sites : List Site) : EauOf G k E sites (eauModel G k E sites) := by
  refine ⟨rfl, rfl, ?_⟩
  intro i s hs _
  refine ⟨(List.range (Orbit.result G k E (0, 0, 0) s.x).1.length).map fun j =>
      Con.rotT (Con.rotQ (((Orbit.result G k E (0, 0, 0) s.x).2.1.getD j []).headD Op.one)) s.U, ?_, ?_⟩
  · simp only [eauModel, List.getElem?_map, hs, Option.map_some]
  · intro j hj
    simp [hj]

/-- the atoms the reader is to produce: per listed site, in order, the images of `DS.Cif.expandSite`, each with the remaining
attributes of its parent -/
def blocksFrom {R : Type} (G : List Op) (k E : Int) (n : Nat) (cas : List (CAtom R)) : List (CAtom R) :=
  (enumerateFrom n cas).flatMap fun e => (expandSite G k E e.1 (siteOf e.2)).map (ofOut e.2)

def blocks {R : Type} (G : List Op) (k E : Int) (cas : List (CAtom R)) : List (CAtom R) := blocksFrom G k E 0 cas

/-! ### 2. the loops -/

section
variable {R : Type}

/-- **inner loop body**: the `j`-th image of site `i` -/
theorem image_eq {ops : AtomOps P3 (Mat3 Rat) Rat R} (hops : AtomLaws ops) {G : List Op} {k E : Int} {sites : List Site}
    {eau : Eau P3 (Mat3 Rat)} (h : EauOf G k E sites eau) {i : Nat} {ca : CAtom R} (hi : sites[i]? = some (siteOf ca))
    {j : Nat} (hj : j < (Orbit.result G k E (0, 0, 0) ca.xyz).1.length) :
    expandAsymmetricUnit_image ops eau i ca j = .ok (ofOut ca (outAt G k E i (siteOf ca) j)) := by
  have hpos : eau.expandedpos[i]? = some (Orbit.result G k E (0, 0, 0) ca.xyz).1 := by
    rw [h.expandedpos, List.getElem?_map, hi]; rfl
  have hpj : (Orbit.result G k E (0, 0, 0) ca.xyz).1[j]? = some ((Orbit.result G k E (0, 0, 0) ca.xyz).1.getD j (0, 0, 0)) := by
    rw [List.getD_eq_getElem?_getD, List.getElem?_eq_getElem hj]; rfl
  have hlab : imageLabel ca.label j = if decide (j > 0) = true then ca.label ++ ("_" ++ toString (j + 1)) else ca.label := by
    unfold imageLabel
    rcases Nat.eq_zero_or_pos j with rfl | hp
    · simp
    · have : j ≠ 0 := by omega
      simp [hp, this, String.append_assoc]
  unfold expandAsymmetricUnit_image
  simp only [pyIdx_some hpos, pyIdx_some hpj, bind, Except.bind, pure, Except.pure, ofOut, outAt, siteOf, hlab]
  rcases Bool.eq_false_or_eq_true ca.anisotropy with han | han
  · obtain ⟨row, hrow, hr⟩ := h.expandedUijs i (siteOf ca) hi han
    have hrj := hr j hj
    simp only [siteOf] at hrj
    by_cases hp : j > 0 <;> simp [hp, han, pyIdx_some hrow, pyIdx_some hrj, hops.setU_aniso]
  · by_cases hp : j > 0 <;> simp [hp, han]

/-- **outer loop body**: the block of site `i` is appended -/
theorem site_eq {ops : AtomOps P3 (Mat3 Rat) Rat R} (hops : AtomLaws ops) {G : List Op} {k E : Int} {sites : List Site}
    {eau : Eau P3 (Mat3 Rat)} (h : EauOf G k E sites eau) {i : Nat} {ca : CAtom R} (hi : sites[i]? = some (siteOf ca))
    (acc : List (List (CAtom R))) :
    expandAsymmetricUnit_site ops eau acc (i, ca) = .ok (acc ++ [(expandSite G k E i (siteOf ca)).map (ofOut ca)]) := by
  have hm : eau.multiplicity[i]? = some (Orbit.result G k E (0, 0, 0) ca.xyz).1.length := by
    rw [h.multiplicity, List.getElem?_map, hi]; rfl
  have key := foldlM_append_ok (fun j => expandAsymmetricUnit_image ops eau i ca j) (fun j => ofOut ca (outAt G k E i (siteOf ca) j))
    (List.range (Orbit.result G k E (0, 0, 0) ca.xyz).1.length) [] (fun j hj => image_eq hops h hi (List.mem_range.1 hj))
  unfold expandAsymmetricUnit_site
  simp only [pyIdx_some hm, bind, Except.bind, pure, Except.pure] at key ⊢
  rw [key, expandSite_eq, List.map_map]
  rfl

/-- the outer loop -/
theorem sites_eq {ops : AtomOps P3 (Mat3 Rat) Rat R} (hops : AtomLaws ops) {G : List Op} {k E : Int} {sites : List Site}
    {eau : Eau P3 (Mat3 Rat)} (h : EauOf G k E sites eau) :
    ∀ (l : List (Nat × CAtom R)) (acc : List (List (CAtom R))), (∀ e ∈ l, sites[e.1]? = some (siteOf e.2)) →
      l.foldlM (expandAsymmetricUnit_site ops eau) acc =
        .ok (acc ++ l.map fun e => (expandSite G k E e.1 (siteOf e.2)).map (ofOut e.2))
  | [], acc, _ => by simp [pure, Except.pure]
  | e :: l, acc, hl => by
    rw [List.foldlM_cons, site_eq hops h (hl e List.mem_cons_self)]
    simp only [bind, Except.bind]
    rw [sites_eq hops h l _ (fun e' he' => hl e' (List.mem_cons_of_mem _ he'))]
    simp

/-- **all displacement types decided**: the `zip` loop changes neither the atoms nor the dictionary -/
theorem decide_known {P T O R : Type} (ops : AtomOps P T O R) (anis : Dict) :
    ∀ (stru : List (PAtom P T O R)) (uis : List Bool), (∀ a ∈ stru, dictHas anis a.label = true) →
      forZipMut (expandAsymmetricUnit_decide ops) anis stru uis = (stru, anis)
  | [], _, _ => by simp [forZipMut]
  | _ :: _, [], _ => by simp [forZipMut]
  | a :: stru, u :: uis, h => by
    have ha : expandAsymmetricUnit_decide ops anis a u = (a, anis) := by
      simp [expandAsymmetricUnit_decide, h a List.mem_cons_self]
    rw [forZipMut, ha]
    simp only
    rw [decide_known ops anis stru uis (fun b hb => h b (List.mem_cons_of_mem _ hb))]

/-- **the expansion step is the model** (atoms with their remaining attributes): every listed label decided, the
`ExpandAsymmetricUnit` object as the orbit model describes it -/
theorem expandAsymmetricUnit_eq {ops : AtomOps P3 (Mat3 Rat) Rat R} (hops : AtomLaws ops) (G : List Op) (k E : Int)
    (mkEau : List P3 → List (Mat3 Rat) → Except Exn (Eau P3 (Mat3 Rat))) (st : XState P3 (Mat3 Rat) Rat R) (eau : Eau P3 (Mat3 Rat))
    (hmk : mkEau (st.stru.map (·.xyz)) (st.stru.map (·.U)) = .ok eau)
    (h : EauOf G k E (st.stru.map siteOf) eau)
    (hknown : ∀ a ∈ st.stru, dictHas st.anisotropy a.label = true) :
    expandAsymmetricUnit ops mkEau st = .ok { stru := blocks G k E st.stru, anisotropy := st.anisotropy } := by
  unfold expandAsymmetricUnit
  simp only [hmk, bind, Except.bind, decide_known ops st.anisotropy st.stru eau.Uisotropy hknown]
  rw [sites_eq hops h]
  · simp [pure, Except.pure, blocks, blocksFrom, enumerate, List.flatMap_def]
  · intro e he
    obtain ⟨_, h2⟩ := mem_enumerateFrom _ _ _ _ (show (e.1, e.2) ∈ enumerateFrom 0 st.stru from he)
    rw [List.getElem?_map, show e.1 = e.1 - 0 from rfl, h2]; rfl

/-! ### 3. against `DS.Cif.expand` -/

theorem blocksFrom_cons (G : List Op) (k E : Int) (n : Nat) (a : CAtom R) (cas : List (CAtom R)) :
    blocksFrom G k E n (a :: cas) = (expandSite G k E n (siteOf a)).map (ofOut a) ++ blocksFrom G k E (n + 1) cas := by
  simp [blocksFrom, enumerateFrom]

theorem block_data (G : List Op) (k E : Int) (n : Nat) (a : CAtom R) :
    ((expandSite G k E n (siteOf a)).map (ofOut a)).map dataOf = (expandSite G k E n (siteOf a)).map outData := by
  rw [expandSite_eq, List.map_map, List.map_map, List.map_map]
  rfl

theorem blocksFrom_data (G : List Op) (k E : Int) : ∀ (n : Nat) (cas : List (CAtom R)),
    (blocksFrom G k E n cas).map dataOf = (expandFrom G k E n (cas.map siteOf)).map outData
  | _, [] => by simp [blocksFrom, enumerateFrom, expandFrom]
  | n, a :: cas => by
    rw [blocksFrom_cons, List.map_append, block_data, blocksFrom_data G k E (n + 1) cas]
    simp [expandFrom]

theorem site_ge (G : List Op) (k E : Int) : ∀ (n : Nat) (sites : List Site), ∀ o ∈ expandFrom G k E n sites, n ≤ o.site
  | _, [], o, h => by simp [expandFrom] at h
  | n, s :: ss, o, h => by
    simp only [expandFrom, List.mem_append] at h
    rcases h with h | h
    · exact (C07.image_attrs h).1.ge
    · exact Nat.le_of_succ_le (site_ge G k E (n + 1) ss o h)

theorem blocksFrom_rest (G : List Op) (k E : Int) : ∀ (n : Nat) (cas : List (CAtom R)),
    (blocksFrom G k E n cas).map (fun a => some a.rest) =
      (expandFrom G k E n (cas.map siteOf)).map (fun o => cas[o.site - n]?.map (·.rest))
  | _, [] => by simp [blocksFrom, enumerateFrom, expandFrom]
  | n, a :: cas => by
    rw [blocksFrom_cons, List.map_append, blocksFrom_rest G k E (n + 1) cas]
    simp only [List.map_cons, expandFrom, List.map_append, List.map_map]
    congr 1
    · apply List.map_congr_left
      intro o ho
      simp [(C07.image_attrs ho).1, ofOut]
    · apply List.map_congr_left
      intro o ho
      have := site_ge G k E (n + 1) _ o ho
      have e : o.site - n = (o.site - (n + 1)) + 1 := by omega
      simp [e]

/-- **the expansion step is `DS.Cif.expand`**: under the hypotheses of `expandAsymmetricUnit_eq` the method returns normally, keeps
the dictionary, and the new atom list agrees with the model's in all six data attributes, atom by atom in order; every atom
carries the remaining attributes of the listed site it was copied from -/
theorem expandAsymmetricUnit_expand {ops : AtomOps P3 (Mat3 Rat) Rat R} (hops : AtomLaws ops) (G : List Op) (k E : Int)
    (mkEau : List P3 → List (Mat3 Rat) → Except Exn (Eau P3 (Mat3 Rat))) (st : XState P3 (Mat3 Rat) Rat R) (eau : Eau P3 (Mat3 Rat))
    (hmk : mkEau (st.stru.map (·.xyz)) (st.stru.map (·.U)) = .ok eau)
    (h : EauOf G k E (st.stru.map siteOf) eau)
    (hknown : ∀ a ∈ st.stru, dictHas st.anisotropy a.label = true) :
    ∃ st', expandAsymmetricUnit ops mkEau st = .ok st' ∧ st'.anisotropy = st.anisotropy ∧
      st'.stru.map dataOf = (Cif.expand G k E (st.stru.map siteOf)).map outData ∧
      st'.stru.map (fun a => some a.rest) =
        (Cif.expand G k E (st.stru.map siteOf)).map (fun o => st.stru[o.site]?.map (·.rest)) :=
  ⟨_, expandAsymmetricUnit_eq hops G k E mkEau st eau hmk h hknown, rfl, blocksFrom_data G k E 0 st.stru,
    by simpa [blocks, Cif.expand] using blocksFrom_rest G k E 0 st.stru⟩

/-! ### 4. Python indexing is kept -/

/-- `self.eau.multiplicity[i]` past the end: `IndexError` -/
theorem index_error_multiplicity {P T O R : Type} (ops : AtomOps P T O R) (eau : Eau P T) (acc : List (List (PAtom P T O R)))
    (i : Nat) (ca : PAtom P T O R) (h : eau.multiplicity.length ≤ i) :
    expandAsymmetricUnit_site ops eau acc (i, ca) = .error Exn.indexError := by
  simp [expandAsymmetricUnit_site, pyIdx_none h, bind, Except.bind]

/-- `self.eau.expandedpos[i]` past the end: `IndexError` -/
theorem index_error_pos {P T O R : Type} (ops : AtomOps P T O R) (eau : Eau P T) (i j : Nat) (ca : PAtom P T O R)
    (h : eau.expandedpos.length ≤ i) : expandAsymmetricUnit_image ops eau i ca j = .error Exn.indexError := by
  simp [expandAsymmetricUnit_image, pyIdx_none h, bind, Except.bind]

/-- `self.eau.expandedpos[i][j]` past the end of the row: `IndexError` -/
theorem index_error_row {P T O R : Type} (ops : AtomOps P T O R) (eau : Eau P T) (i j : Nat) (ca : PAtom P T O R)
    (row : List P) (hi : eau.expandedpos[i]? = some row) (h : row.length ≤ j) :
    expandAsymmetricUnit_image ops eau i ca j = .error Exn.indexError := by
  simp [expandAsymmetricUnit_image, pyIdx_some hi, pyIdx_none h, bind, Except.bind]

end

/-! ### 5. the displacement type of sites the file did not decide -/

theorem dictHas_cons (p : String × Bool) (d : Dict) (k : String) : dictHas (p :: d) k = (p.1 == k || dictHas d k) := by
  simp [dictHas]

theorem dictGet_cons (p : String × Bool) (d : Dict) (k : String) :
    dictGet (p :: d) k = if p.1 == k then some p.2 else dictGet d k := by
  simp only [dictGet, List.find?_cons]
  cases p.1 == k <;> simp

theorem dictHas_of_get {d : Dict} {k : String} {v : Bool} (h : dictGet d k = some v) : dictHas d k = true := by
  induction d with
  | nil => simp [dictGet] at h
  | cons p d ih =>
    rw [dictGet_cons] at h; rw [dictHas_cons]
    cases hp : p.1 == k <;> simp_all

theorem dictGet_append_fresh (d : Dict) (k k' : String) (v : Bool) (h : dictHas d k' = false) :
    dictGet (d ++ [(k, v)]) k' = if k == k' then some v else none := by
  induction d with
  | nil => simp [dictGet]
  | cons p d ih =>
    rw [dictHas_cons] at h
    have h1 : (p.1 == k') = false := by cases hp : p.1 == k' <;> simp_all
    have h2 : dictHas d k' = false := by cases hp : dictHas d k' <;> simp_all
    rw [List.cons_append, dictGet_cons, h1, ih h2]; rfl

/-- `d[k] = v` on a key that is absent -/
theorem dictGet_set_fresh (d : Dict) (k : String) (v : Bool) (h : dictHas d k = false) : dictGet (dictSet d k v) k = some v := by
  simp [dictSet, h, dictGet_append_fresh d k k v h]

/-- `d[k] = v` leaves the entries of keys already present alone (when `k` itself is absent) -/
theorem dictGet_set_other (d : Dict) (k k' : String) (v w : Bool) (h : dictHas d k = false) (h' : dictGet d k' = some w) :
    dictGet (dictSet d k v) k' = some w := by
  simp only [dictSet, h, Bool.false_eq_true, if_false]
  induction d with
  | nil => simp [dictGet] at h'
  | cons p d ih =>
    rw [dictHas_cons] at h
    rw [dictGet_cons] at h'
    rw [List.cons_append, dictGet_cons]
    cases hp : p.1 == k'
    · rw [hp] at h'
      have h2 : dictHas d k = false := by cases hd : dictHas d k <;> simp_all
      simpa using ih h2 h'
    · simpa [hp] using h'

/-- `d[k] = v` (with `k` absent) does not make another absent key present -/
theorem dictHas_set_other (d : Dict) (k k' : String) (v : Bool) (h : dictHas d k = false) (hne : k ≠ k') (h' : dictHas d k' = false) :
    dictHas (dictSet d k v) k' = false := by
  simp only [dictSet, h, Bool.false_eq_true, if_false]
  simp only [dictHas, List.any_append, List.any_cons, List.any_nil, Bool.or_false] at h' ⊢
  simp [h', hne]

section
variable {P T O R : Type}

/-- the loop body on an undecided label: the flag becomes `not uisotropy`, the decision is recorded under the label -/
theorem decide_undecided {ops : AtomOps P T O R} (hops : AtomLaws ops) (anis : Dict) (ca : PAtom P T O R) (u : Bool)
    (h : dictHas anis ca.label = false) :
    expandAsymmetricUnit_decide ops anis ca u = (ops.setAnisotropy (!u) ca, dictSet anis ca.label (!u)) := by
  simp [expandAsymmetricUnit_decide, h, hops.setAnisotropy_flag, hops.setAnisotropy_label]

/-- the loop body on a decided label: nothing happens -/
theorem decide_decided (ops : AtomOps P T O R) (anis : Dict) (ca : PAtom P T O R) (u : Bool) (h : dictHas anis ca.label = true) :
    expandAsymmetricUnit_decide ops anis ca u = (ca, anis) := by
  simp [expandAsymmetricUnit_decide, h]

theorem forZipMut_cons {A B S : Type} (body : S → A → B → A × S) (s : S) (a : A) (as : List A) (b : B) (bs : List B) :
    forZipMut body s (a :: as) (b :: bs) =
      ((body s a b).1 :: (forZipMut body (body s a b).2 as bs).1, (forZipMut body (body s a b).2 as bs).2) := rfl

/-- a recorded decision is never changed by the loop -/
theorem loop_keeps {ops : AtomOps P T O R} (hops : AtomLaws ops) (l : String) (v : Bool) :
    ∀ (stru : List (PAtom P T O R)) (uis : List Bool) (anis : Dict), dictGet anis l = some v →
      dictGet (forZipMut (expandAsymmetricUnit_decide ops) anis stru uis).2 l = some v
  | [], _, _, h => by simpa [forZipMut] using h
  | _ :: _, [], _, h => by simpa [forZipMut] using h
  | a :: stru, u :: uis, anis, h => by
    rw [forZipMut_cons]
    apply loop_keeps hops l v stru uis
    rcases Bool.eq_false_or_eq_true (dictHas anis a.label) with hd | hd
    · rw [decide_decided ops anis a u hd]; exact h
    · rw [decide_undecided hops anis a u hd]; exact dictGet_set_other anis a.label l _ v hd h

/-- a site whose label is already decided (in the file, or by an earlier site) is left alone -/
theorem aniso_default_later {ops : AtomOps P T O R} (hops : AtomLaws ops) :
    ∀ (stru : List (PAtom P T O R)) (uis : List Bool) (anis : Dict) (i : Nat) (ca : PAtom P T O R) (v : Bool),
      stru[i]? = some ca → dictGet anis ca.label = some v →
      (forZipMut (expandAsymmetricUnit_decide ops) anis stru uis).1[i]? = some ca ∧
        dictGet (forZipMut (expandAsymmetricUnit_decide ops) anis stru uis).2 ca.label = some v := by
  intro stru uis anis i ca v hi hv
  refine ⟨?_, loop_keeps hops ca.label v stru uis anis hv⟩
  induction stru generalizing uis anis i with
  | nil => simp at hi
  | cons a stru ih =>
    cases uis with
    | nil => simpa [forZipMut] using hi
    | cons u uis =>
      rw [forZipMut_cons]
      cases i with
      | zero =>
        simp only [List.getElem?_cons_zero, Option.some.injEq] at hi
        subst hi
        simp [decide_decided ops anis a u (dictHas_of_get hv)]
      | succ i =>
        simp only [List.getElem?_cons_succ] at hi ⊢
        apply ih uis _ i hi
        rcases Bool.eq_false_or_eq_true (dictHas anis a.label) with hd | hd
        · rw [decide_decided ops anis a u hd]; exact hv
        · rw [decide_undecided hops anis a u hd]; exact dictGet_set_other anis a.label ca.label _ v hd hv

/-- **the anisotropy-defaulting clause**: a listed site `i` whose label is not in the dictionary, and is not the label of an earlier
listed site, gets the flag `not Uisotropy[i]` (through the `anisotropy` setter of `Atom`), and the dictionary records that decision
under its label -/
theorem aniso_default {ops : AtomOps P T O R} (hops : AtomLaws ops) :
    ∀ (stru : List (PAtom P T O R)) (uis : List Bool) (anis : Dict) (i : Nat) (ca : PAtom P T O R) (u : Bool),
      stru[i]? = some ca → uis[i]? = some u → dictHas anis ca.label = false →
      (∀ i' c, i' < i → stru[i']? = some c → c.label ≠ ca.label) →
      (forZipMut (expandAsymmetricUnit_decide ops) anis stru uis).1[i]? = some (ops.setAnisotropy (!u) ca) ∧
        ((forZipMut (expandAsymmetricUnit_decide ops) anis stru uis).1[i]?.map (·.anisotropy)) = some (!u) ∧
        dictGet (forZipMut (expandAsymmetricUnit_decide ops) anis stru uis).2 ca.label = some (!u) := by
  intro stru uis anis i ca u hi hu hd hfirst
  suffices hmain : (forZipMut (expandAsymmetricUnit_decide ops) anis stru uis).1[i]? = some (ops.setAnisotropy (!u) ca) ∧
      dictGet (forZipMut (expandAsymmetricUnit_decide ops) anis stru uis).2 ca.label = some (!u) by
    refine ⟨hmain.1, ?_, hmain.2⟩
    rw [hmain.1]; simp [hops.setAnisotropy_flag]
  induction stru generalizing uis anis i with
  | nil => simp at hi
  | cons a stru ih =>
    cases uis with
    | nil => simp at hu
    | cons u0 uis =>
      rw [forZipMut_cons]
      cases i with
      | zero =>
        simp only [List.getElem?_cons_zero, Option.some.injEq] at hi hu
        subst hi; subst hu
        rw [decide_undecided hops anis a u0 hd]
        exact ⟨by simp, loop_keeps hops a.label (!u0) stru uis _ (dictGet_set_fresh anis a.label _ hd)⟩
      | succ i =>
        simp only [List.getElem?_cons_succ] at hi hu ⊢
        have hne : a.label ≠ ca.label := hfirst 0 a (Nat.succ_pos i) (by simp)
        apply ih uis _ i hi hu
        · rcases Bool.eq_false_or_eq_true (dictHas anis a.label) with hd' | hd'
          · rw [decide_decided ops anis a u0 hd']; exact hd
          · rw [decide_undecided hops anis a u0 hd']; exact dictHas_set_other anis a.label ca.label _ hd' hne hd
        · intro i' c hlt hc
          exact hfirst (i' + 1) c (Nat.succ_lt_succ hlt) (by simpa using hc)

/-- … so that a later site with the same label keeps the flag it has, and the dictionary keeps the first decision -/
theorem aniso_default_same_label {ops : AtomOps P T O R} (hops : AtomLaws ops)
    (stru : List (PAtom P T O R)) (uis : List Bool) (anis : Dict) (i i' : Nat) (ca cb : PAtom P T O R) (u : Bool)
    (hi : stru[i]? = some ca) (hu : uis[i]? = some u) (hd : dictHas anis ca.label = false)
    (hfirst : ∀ n c, n < i → stru[n]? = some c → c.label ≠ ca.label)
    (hlt : i < i') (hi' : stru[i']? = some cb) (hl : cb.label = ca.label) :
    (forZipMut (expandAsymmetricUnit_decide ops) anis stru uis).1[i']? = some cb ∧
      dictGet (forZipMut (expandAsymmetricUnit_decide ops) anis stru uis).2 ca.label = some (!u) := by
  refine ⟨?_, (aniso_default hops stru uis anis i ca u hi hu hd hfirst).2.2⟩
  induction stru generalizing uis anis i i' with
  | nil => simp at hi
  | cons a stru ih =>
    cases uis with
    | nil => simp at hu
    | cons u0 uis =>
      rw [forZipMut_cons]
      obtain ⟨n', rfl⟩ : ∃ n', i' = n' + 1 := ⟨i' - 1, by omega⟩
      simp only [List.getElem?_cons_succ] at hi' ⊢
      cases i with
      | zero =>
        simp only [List.getElem?_cons_zero, Option.some.injEq] at hi hu
        subst hi; subst hu
        rw [decide_undecided hops anis a u0 hd]
        exact (aniso_default_later hops stru uis _ n' cb (!u0) hi' (hl ▸ dictGet_set_fresh anis a.label _ hd)).1
      | succ i =>
        simp only [List.getElem?_cons_succ] at hi hu
        have hne : a.label ≠ ca.label := hfirst 0 a (Nat.succ_pos i) (by simp)
        apply ih uis _ i n' hi hu
        · rcases Bool.eq_false_or_eq_true (dictHas anis a.label) with hd' | hd'
          · rw [decide_decided ops anis a u0 hd']; exact hd
          · rw [decide_undecided hops anis a u0 hd']; exact dictHas_set_other anis a.label ca.label _ hd' hne hd
        · intro n c hn hc
          exact hfirst (n + 1) c (Nat.succ_lt_succ hn) (by simpa using hc)
        · omega
        · exact hi'

end

/-! ### 6. non-vacuity -/

/-- setters that store and do nothing else (what `Atom` does on an anisotropic atom) -/
def recOps (P T O R : Type) : AtomOps P T O R :=
  { setAnisotropy := fun b a => { a with anisotropy := b }, setU := fun v a => { a with U := v } }

/-- `AtomLaws` is satisfiable -/
theorem recOps_laws (P T O R : Type) : AtomLaws (recOps P T O R) := ⟨fun _ _ _ => rfl, fun _ _ => rfl, fun _ _ => rfl⟩

/-- the two sites of `DS.Props.C07` as atoms of the asymmetric unit -/
def wAtom : CAtom Unit :=
  { label := "C1", element := "C", occupancy := 1, xyz := (600000, 600000, 312000), anisotropy := true,
    U := ⟨1/100, 1/300, 1/200, 1/300, 2/100, 0, 1/200, 0, 3/100⟩, rest := () }
def mAtom : CAtom Unit :=
  { label := "O1", element := "O", occupancy := 1/2, xyz := (600000, 0, 312000), anisotropy := true,
    U := ⟨1/100, 0, 1/200, 0, 2/100, 0, 1/200, 0, 3/100⟩, rest := () }

def wState : XState P3 (Mat3 Rat) Rat Unit := { stru := [wAtom, mAtom], anisotropy := [("C1", true), ("O1", true)] }

/-- `expandAsymmetricUnit_eq` / `_expand`: the hypotheses hold for the witness setting and the two sites of `DS.Props.C07`
(both labels decided by the file), and the method then returns the 8 + 4 atoms of the model -/
example : [wAtom, mAtom].map siteOf = [C07.wSite, C07.mSite] ∧
    (∀ a ∈ wState.stru, dictHas wState.anisotropy a.label = true) ∧
    EauOf Gen.witness.1.ops 100000 24 (wState.stru.map siteOf) (eauModel Gen.witness.1.ops 100000 24 (wState.stru.map siteOf)) ∧
    ∃ st', expandAsymmetricUnit (recOps _ _ _ _) (fun _ _ => .ok (eauModel Gen.witness.1.ops 100000 24 (wState.stru.map siteOf))) wState
        = .ok st' ∧ st'.stru.length = 12 ∧ st'.anisotropy = wState.anisotropy := by
  refine ⟨rfl, by decide, eauModel_ok _ _ _ _, ?_⟩
  obtain ⟨st', h1, h2, h3, _⟩ := expandAsymmetricUnit_expand (recOps_laws _ _ _ _) Gen.witness.1.ops 100000 24
    (fun _ _ => .ok (eauModel Gen.witness.1.ops 100000 24 (wState.stru.map siteOf))) wState _ rfl (eauModel_ok _ _ _ _) (by decide)
  refine ⟨st', h1, ?_, h2⟩
  have := congrArg List.length h3
  rw [List.length_map, List.length_map, C07.expand_length] at this
  rw [this]
  decide +kernel

/-- `aniso_default`, `aniso_default_same_label`: two listed sites with one undecided label; symmetry allows an anisotropic tensor at
the first (`Uisotropy = False`) and only an isotropic one at the second — the first is made anisotropic, the second is left as it
was, the dictionary records the first decision -/
example : let a1 : CAtom Unit := { wAtom with anisotropy := false }
    let a2 : CAtom Unit := { mAtom with label := "C1", anisotropy := false }
    let r := forZipMut (expandAsymmetricUnit_decide (recOps _ _ _ _)) [] [a1, a2] [false, true]
    dictHas [] a1.label = false ∧ r.1.map (·.anisotropy) = [true, false] ∧ r.2 = [("C1", true)] := by
  decide

/-- the Python indexing: an `ExpandAsymmetricUnit` object with fewer entries than listed sites raises `IndexError` -/
example : expandAsymmetricUnit (recOps _ _ _ _) (fun _ _ => .ok (eauModel Gen.witness.1.ops 100000 24 [C07.wSite])) wState
    = .error Exn.indexError := by
  have h := site_eq (recOps_laws _ _ _ _) (eauModel_ok Gen.witness.1.ops 100000 24 [C07.wSite]) (i := 0) (ca := wAtom) rfl []
  have h2 := index_error_multiplicity (recOps _ _ _ _) (eauModel Gen.witness.1.ops 100000 24 [C07.wSite])
    ([] ++ [(expandSite Gen.witness.1.ops 100000 24 0 (siteOf wAtom)).map (ofOut wAtom)]) 1 mAtom (by decide)
  simp only [expandAsymmetricUnit, bind, Except.bind, wState,
    decide_known (recOps _ _ _ _) [("C1", true), ("O1", true)] [wAtom, mAtom] _ (by decide), enumerate, enumerateFrom,
    List.foldlM_cons, h, h2]

end DS.Props.SrcCifExpand
