import DS.Lemmas.Lookup
import DS.Gen.DIndex
import DS.Gen.Lookup

/-!
# C11 — space-group lookup by identifier and by operation list

Model: `DS/Model/Lookup.lean` (`GetSpaceGroup`, `_buildSGLookupTable`, `FindSpaceGroup`).  Settings
are referred to by their position in `SpaceGroupList`.

* generic part (any list of settings, any alias list): soundness of the table, first
  registration wins, aliases never override, look-up by number, by name in any case/blank variant
  the function normalises, rejection of unknown identifiers, identification from operations in
  any order;
* kernel-decided facts about the generated tables (`Gen.allSG`, the alias list) and the
  instantiation of the generic theorems.
-/
namespace DS.Props.C11
open DS DS.Lookup

/-- the alias list of `_buildSGLookupTable` the table theorems are instantiated with
(generated; the hand-written copy is `Lookup.stdAliases`) -/
abbrev aliases : List (String × String) := Gen.aliases

/-! ## 1. every key of the table maps to a setting that carries it -/

/-- setting `g` at position `i` answers to `k`: it carries `k`, or `k` is an alias whose
blank-free target name resolves to `i` in the alias-free table -/
def Answers (sgs : List SG) (al : List (String × String)) (i : Nat) (g : SG) (k : Key) : Prop :=
  Carries g k ∨ ∃ a hm, (a, hm) ∈ al ∧ k = .str a ∧
    lookup (addAll [] sgs 0) (.str (removeBlanks hm)) = some i

/-- general form (no condition on the alias list): a key resolves directly or through a chain of
aliases -/
theorem lookup_chain {sgs : List SG} {al : List (String × String)} {t : Table} {k : Key} {i : Nat}
    (ht : buildTable sgs al = some t) (h : lookup t k = some i) :
    Resolves (addAll [] sgs 0) al k i := buildTable_resolves ht h

/-- the values of the table are positions of settings -/
theorem lookup_valid {sgs : List SG} {al : List (String × String)} {t : Table} {k : Key} {i : Nat}
    (ht : buildTable sgs al = some t) (h : lookup t k = some i) : i < sgs.length := by
  obtain ⟨g, _, hg, _⟩ := resolves_valid (buildTable_resolves ht h)
  exact (List.getElem?_eq_some_iff.1 hg).1

/-- soundness: the value stored under a key is the position of a setting that carries the key,
or the key is an alias and its target name resolves to that position -/
theorem lookup_sound {sgs : List SG} {al : List (String × String)} (hd : AliasesDirect al)
    {t : Table} {k : Key} {i : Nat}
    (ht : buildTable sgs al = some t) (h : lookup t k = some i) :
    ∃ g, sgs[i]? = some g ∧ Answers sgs al i g k := by
  rcases resolves_direct hd (buildTable_resolves ht h) with h0 | ⟨a, hm, hmem, hk, h0⟩
  · obtain ⟨g, hg, hc, _⟩ := lookup_base_eq_some_iff.1 h0
    exact ⟨g, hg, Or.inl hc⟩
  · obtain ⟨g, hg, _, _⟩ := lookup_base_eq_some_iff.1 h0
    exact ⟨g, hg, Or.inr ⟨a, hm, hmem, hk, h0⟩⟩

/-! ## 2. first registration wins; aliases never override -/

/-- in the alias-free table a key maps to the least position whose setting carries it -/
theorem first_wins {sgs : List SG} {k : Key} {i : Nat}
    (h : lookup (addAll [] sgs 0) k = some i) :
    ∃ g, sgs[i]? = some g ∧ Carries g k ∧ ∀ j g', j < i → sgs[j]? = some g' → ¬ Carries g' k :=
  lookup_base_eq_some_iff.1 h

/-- every identifier some setting carries is registered -/
theorem registered {sgs : List SG} {g : SG} {k : Key} (hg : g ∈ sgs) (hc : Carries g k) :
    ∃ i, lookup (addAll [] sgs 0) k = some i := by
  cases h : lookup (addAll [] sgs 0) k with
  | some i => exact ⟨i, rfl⟩
  | none => exact absurd hc (lookup_base_eq_none_iff.1 h g hg)

/-- `setdefault`: aliases never replace an entry of the settings loop -/
theorem lookup_alias_preserves {sgs : List SG} {al : List (String × String)} {t : Table}
    {k : Key} {i : Nat} (h : lookup (addAll [] sgs 0) k = some i)
    (ht : buildTable sgs al = some t) : lookup t k = some i := buildTable_preserves ht h

/-! ## 3. look-up by number -/

/-- distinct numbers: the integer number of the setting at position `i` returns `i` -/
theorem by_number {sgs : List SG} {al : List (String × String)} {t : Table}
    (hnd : (sgs.map (·.number)).Nodup) (ht : buildTable sgs al = some t)
    {i : Nat} {g : SG} (hi : sgs[i]? = some g) : lookup t (.num g.number) = some i := by
  apply buildTable_preserves ht
  refine lookup_base_eq_some_iff.2 ⟨g, hi, Or.inl rfl, ?_⟩
  intro j g' hj hg' hc
  have := nodup_map_getElem? hnd hg' hi (carries_num_iff.1 hc)
  omega

/-- distinct numbers and no name is a numeral: the decimal string of the number returns `i` -/
theorem by_number_str {sgs : List SG} {al : List (String × String)} {t : Table}
    (hnd : (sgs.map (·.number)).Nodup)
    (hnn : ∀ g ∈ sgs, notNumeral g.short = true ∧ notNumeral g.pdb = true)
    (ht : buildTable sgs al = some t)
    {i : Nat} {g : SG} (hi : sgs[i]? = some g) :
    lookup t (.str (toString g.number)) = some i := by
  apply buildTable_preserves ht
  refine lookup_base_eq_some_iff.2 ⟨g, hi, Or.inr (Or.inl rfl), ?_⟩
  intro j g' hj hg' hc
  have hm : g' ∈ sgs := List.mem_of_getElem? hg'
  have := nodup_map_getElem? hnd hg' hi
    ((carries_numstr_iff (hnn g' hm).1 (hnn g' hm).2).1 hc)
  omega

/-! ## 4. what `getSG` returns; unknown identifiers are rejected -/

/-- the identifier forms `getSG` tries, in order -/
def forms : Key → List Key
  | .num n => [.num n]
  | .str s => [.str s, .str (normShort s), .str (normFull s)]

theorem getSG_forms {t : Table} {id : Key} {i : Nat} (h : getSG t id = some i) :
    ∃ k ∈ forms id, lookup t k = some i := by
  rcases getSG_cases h with h1 | ⟨s, rfl, _, h2 | ⟨_, h2⟩⟩
  · refine ⟨id, ?_, h1⟩
    cases id <;> simp [forms]
  · exact ⟨_, by simp [forms], h2⟩
  · exact ⟨_, by simp [forms], h2⟩

/-- a successful `getSG` returns the position of a setting that answers to the identifier as
given or to one of its two normalised forms -/
theorem getSG_sound {sgs : List SG} {al : List (String × String)} (hd : AliasesDirect al)
    {t : Table} {id : Key} {i : Nat}
    (ht : buildTable sgs al = some t) (h : getSG t id = some i) :
    ∃ g, sgs[i]? = some g ∧ ∃ k ∈ forms id, Answers sgs al i g k := by
  obtain ⟨k, hk, hl⟩ := getSG_forms h
  obtain ⟨g, hg, ha⟩ := lookup_sound hd ht hl
  exact ⟨g, hg, k, hk, ha⟩

/-- a key that no setting carries and that is no alias name is not in the table -/
theorem lookup_none {sgs : List SG} {al : List (String × String)} {t : Table} {k : Key}
    (ht : buildTable sgs al = some t) (hc : ∀ g ∈ sgs, ¬ Carries g k)
    (ha : ∀ p ∈ al, k ≠ .str p.1) : lookup t k = none := by
  cases h : lookup t k with
  | none => rfl
  | some i =>
    rcases resolves_cases (buildTable_resolves ht h) with h0 | ⟨a, hm, hmem, hk⟩
    · obtain ⟨g, hg, hcg, _⟩ := lookup_base_eq_some_iff.1 h0
      exact absurd hcg (hc g (List.mem_of_getElem? hg))
    · exact absurd hk (ha (a, hm) hmem)

/-- unknown identifiers are rejected: if none of the forms tried is carried by a setting or is an
alias name, `getSG` fails (the `ValueError`) -/
theorem getSG_rejects {sgs : List SG} {al : List (String × String)} {t : Table} {id : Key}
    (ht : buildTable sgs al = some t)
    (h : ∀ k ∈ forms id, (∀ g ∈ sgs, ¬ Carries g k) ∧ ∀ p ∈ al, k ≠ .str p.1) :
    getSG t id = none := by
  cases hg : getSG t id with
  | none => rfl
  | some i =>
    obtain ⟨k, hk, hl⟩ := getSG_forms hg
    rw [lookup_none ht (h k hk).1 (h k hk).2] at hl
    cases hl

/-- an integer that is not a key is rejected without any normalisation -/
theorem getSG_num_none {t : Table} {n : Nat} (h : lookup t (.num n) = none) :
    getSG t (.num n) = none := Lookup.getSG_num_none h

/-! ## 5. look-up by name, in every spelling the function normalises -/

/-- every spelling `s` that is, or normalises to, a name of some setting is found, and the
setting returned answers to `s` or to one of its normalised forms -/
theorem by_name {sgs : List SG} {al : List (String × String)} (hd : AliasesDirect al) {t : Table}
    (ht : buildTable sgs al = some t) {g : SG} (hg : g ∈ sgs) {s : String}
    (hs : s = g.short ∨ s = g.pdb ∨ normShort s = g.short ∨ normFull s = g.pdb) :
    ∃ j g', getSG t (.str s) = some j ∧ sgs[j]? = some g' ∧
      ∃ k ∈ forms (.str s), Answers sgs al j g' k := by
  have hex : ∃ j, getSG t (.str s) = some j := by
    rcases hs with h | h | h | h
    · obtain ⟨i, hi⟩ := registered (k := .str s) hg (Or.inr (Or.inr (Or.inl (by rw [h]))))
      exact ⟨i, getSG_of_lookup (buildTable_preserves ht hi)⟩
    · obtain ⟨i, hi⟩ := registered (k := .str s) hg (Or.inr (Or.inr (Or.inr (by rw [h]))))
      exact ⟨i, getSG_of_lookup (buildTable_preserves ht hi)⟩
    · obtain ⟨i, hi⟩ := registered (k := .str (normShort s)) hg
        (Or.inr (Or.inr (Or.inl (by rw [h]))))
      exact getSG_isSome_of_short (buildTable_preserves ht hi)
    · obtain ⟨i, hi⟩ := registered (k := .str (normFull s)) hg
        (Or.inr (Or.inr (Or.inr (by rw [h]))))
      exact getSG_isSome_of_full (buildTable_preserves ht hi)
  obtain ⟨j, hj⟩ := hex
  obtain ⟨g', hg', hk⟩ := getSG_sound hd ht hj
  exact ⟨j, g', hj, hg', hk⟩

/-- exact spelling of a name: the first setting that carries that name is returned -/
theorem by_name_exact {sgs : List SG} {al : List (String × String)} {t : Table}
    (ht : buildTable sgs al = some t) {g : SG} (hg : g ∈ sgs) {s : String}
    (hs : s = g.short ∨ s = g.pdb) :
    ∃ j g', getSG t (.str s) = some j ∧ sgs[j]? = some g' ∧ Carries g' (.str s) ∧
      ∀ j' g'', j' < j → sgs[j']? = some g'' → ¬ Carries g'' (.str s) := by
  have hc : Carries g (.str s) := by
    rcases hs with h | h
    · exact Or.inr (Or.inr (Or.inl (by rw [h])))
    · exact Or.inr (Or.inr (Or.inr (by rw [h])))
  obtain ⟨i, hi⟩ := registered hg hc
  obtain ⟨g', hg', hc', hlt⟩ := first_wins hi
  exact ⟨i, g', getSG_of_lookup (buildTable_preserves ht hi), hg', hc', hlt⟩

/-- a spelling that is not itself a key but whose short-name normalisation is the short name of
a setting returns the first setting carrying that short name -/
theorem by_name_short {sgs : List SG} {al : List (String × String)} {t : Table}
    (ht : buildTable sgs al = some t) {g : SG} (hg : g ∈ sgs) {s : String}
    (hnone : lookup t (.str s) = none) (hs : normShort s = g.short) :
    ∃ j g', getSG t (.str s) = some j ∧ sgs[j]? = some g' ∧ Carries g' (.str g.short) ∧
      ∀ j' g'', j' < j → sgs[j']? = some g'' → ¬ Carries g'' (.str g.short) := by
  obtain ⟨i, hi⟩ := registered (k := .str g.short) hg (Or.inr (Or.inr (Or.inl rfl)))
  obtain ⟨g', hg', hc', hlt⟩ := first_wins hi
  refine ⟨i, g', ?_, hg', hc', hlt⟩
  rw [getSG_str, hnone, hs, buildTable_preserves ht hi]; rfl

/-- every alias is found, and the setting returned answers to it -/
theorem by_alias {sgs : List SG} {al : List (String × String)} (hd : AliasesDirect al) {t : Table}
    (ht : buildTable sgs al = some t) {a hm : String} (ha : (a, hm) ∈ al) :
    ∃ j g, getSG t (.str a) = some j ∧ sgs[j]? = some g ∧ Answers sgs al j g (.str a) := by
  obtain ⟨j, hj⟩ := addAliases_found al _ t a hm ht ha
  obtain ⟨g, hg, hans⟩ := lookup_sound hd ht hj
  exact ⟨j, g, getSG_of_lookup hj, hg, hans⟩

/-! ## 6. sorting and fingerprints -/

theorem sortNat_perm (l : List Nat) : (sortNat l).Perm l := Lookup.sortNat_perm l
theorem sortNat_sorted (l : List Nat) : (sortNat l).Pairwise (· ≤ ·) := Lookup.sortNat_sorted l
theorem canon_perm {l₁ l₂ : List Op} (h : l₁.Perm l₂) : canon l₁ = canon l₂ := Lookup.canon_perm h
theorem canon_eq_iff {l₁ l₂ : List Op} :
    canon l₁ = canon l₂ ↔ (l₁.map Op.key).Perm (l₂.map Op.key) := Lookup.canon_eq_iff
theorem key_inj {a b : Op} (ha : a.inRange = true) (hb : b.inRange = true)
    (h : a.key = b.key) : a = b := Lookup.key_inj ha hb h
theorem canon_eq_iff_perm {l₁ l₂ : List Op} (h₁ : ∀ a ∈ l₁, a.inRange = true)
    (h₂ : ∀ a ∈ l₂, a.inRange = true) : canon l₁ = canon l₂ ↔ l₁.Perm l₂ :=
  Lookup.canon_eq_iff_perm h₁ h₂
theorem sameOrder_iff {a b : List Op} (ha : ∀ x ∈ a, x.inRange = true)
    (hb : ∀ x ∈ b, x.inRange = true) : sameOrder a b = true ↔ a = b := Lookup.sameOrder_iff ha hb

/-! ## 7. identification from operations -/

/-- distinct fingerprints, operations in range: `findSG` returns position `i` exactly when the
list is a permutation of the operations tabulated at `i`; it fails exactly when the list is a
permutation of no tabulated list -/
theorem findSG_spec {sgs : List SG} (hnd : (sgs.map (fun g => canon g.ops)).Nodup)
    (hr : ∀ g ∈ sgs, ∀ a ∈ g.ops, a.inRange = true)
    {l : List Op} (hl : ∀ a ∈ l, a.inRange = true) :
    (∀ i, findSG sgs l = some i ↔ ∃ g, sgs[i]? = some g ∧ l.Perm g.ops) ∧
    (findSG sgs l = none ↔ ∀ g ∈ sgs, ¬ l.Perm g.ops) := by
  constructor
  · intro i
    rw [findSG_canon_iff hnd]
    constructor
    · rintro ⟨g, hg, hc⟩
      exact ⟨g, hg, ((Lookup.canon_eq_iff_perm (hr g (List.mem_of_getElem? hg)) hl).1 hc).symm⟩
    · rintro ⟨g, hg, hp⟩
      exact ⟨g, hg, Lookup.canon_perm hp.symm⟩
  · rw [findSG_none_canon_iff]
    constructor
    · intro h g hg hp
      exact h g hg (Lookup.canon_perm hp.symm)
    · intro h g hg hc
      exact h g hg ((Lookup.canon_eq_iff_perm (hr g hg) hl).1 hc).symm

/-- a list of a different length than the operations of `g` is never identified as `g`
(strict sublists and superlists of a tabulated list are not mistaken for it) -/
theorem findSG_length {sgs : List SG} (hr : ∀ g ∈ sgs, ∀ a ∈ g.ops, a.inRange = true)
    {l : List Op} (hl : ∀ a ∈ l, a.inRange = true) {i : Nat} {g : SG}
    (h : findSG sgs l = some i) (hg : sgs[i]? = some g) : l.length = g.ops.length := by
  obtain ⟨g', hg', hc⟩ := findSG_eq_some_imp h
  rw [hg] at hg'
  cases hg'
  exact ((Lookup.canon_eq_iff_perm (hr g (List.mem_of_getElem? hg)) hl).1 hc).length_eq.symm

/-- a list whose length is the length of no tabulated list is rejected -/
theorem findSG_none_of_length {sgs : List SG} {l : List Op}
    (h : ∀ g ∈ sgs, g.ops.length ≠ l.length) : findSG sgs l = none := by
  rw [findSG_none_canon_iff]
  intro g hg hc
  apply h g hg
  rw [← canon_length, hc, canon_length]

/-! ## kernel-decided facts about the generated tables -/

/-- the `number` fields of the tabulated settings are pairwise distinct -/
theorem numbers_nodupB : nodupNat (Gen.allSG.map (·.number)) = true := by decide +kernel

theorem numbers_nodup : (Gen.allSG.map (·.number)).Nodup := (nodupNat_iff _).1 numbers_nodupB

/-- every tabulated operation is in range (the packed key is injective there) -/
theorem all_in_rangeB : Gen.allSG.all (fun g => g.ops.all Op.inRange) = true := by decide +kernel

theorem all_in_range : ∀ g ∈ Gen.allSG, ∀ a ∈ g.ops, a.inRange = true := by
  have h := all_in_rangeB
  simp only [List.all_eq_true] at h
  exact h

set_option maxRecDepth 100000 in
/-- the order-independent fingerprints of the tabulated operation lists are pairwise distinct -/
theorem fingerprints_nodupB : nodupLL (Gen.allSG.map (fun g => canon g.ops)) = true := by
  decide +kernel

theorem fingerprints_nodup : (Gen.allSG.map (fun g => canon g.ops)).Nodup :=
  (nodupLL_iff _).1 fingerprints_nodupB

/-- one pass over the names: first character not a digit, and the name is a fixed point of the
normalisation `getSG` applies for it -/
def shortOKL (l : List Char) : Bool := notNumeralL l && decide (normShortL l = l)
def fullOKL (l : List Char) : Bool := notNumeralL l && decide (normFullL l = l)

set_option maxRecDepth 100000 in
theorem names_okB :
    Gen.allSG.all (fun g => shortOKL g.short.toList && fullOKL g.pdb.toList) = true := by
  decide +kernel

theorem names_ok : ∀ g ∈ Gen.allSG,
    (notNumeral g.short = true ∧ normShort g.short = g.short) ∧
    (notNumeral g.pdb = true ∧ normFull g.pdb = g.pdb) := by
  have h := names_okB
  simp only [List.all_eq_true, Bool.and_eq_true, shortOKL, fullOKL, decide_eq_true_eq] at h
  intro g hg
  obtain ⟨⟨h1, h2⟩, h3, h4⟩ := h g hg
  exact ⟨⟨h1, (normShort_fixed_iff _).2 h2⟩, h3, (normFull_fixed_iff _).2 h4⟩

/-- no name of a setting is a numeral -/
theorem names_not_numerals :
    ∀ g ∈ Gen.allSG, notNumeral g.short = true ∧ notNumeral g.pdb = true :=
  fun g hg => ⟨(names_ok g hg).1.1, (names_ok g hg).2.1⟩

/-- every tabulated name is a fixed point of its normalisation: each setting's names can be
reached through the case-insensitive fall-back of `GetSpaceGroup` (true for all 514 settings) -/
theorem names_normalised :
    ∀ g ∈ Gen.allSG, normShort g.short = g.short ∧ normFull g.pdb = g.pdb :=
  fun g hg => ⟨(names_ok g hg).1.2, (names_ok g hg).2.2⟩

/-- no alias target is an alias name -/
theorem aliases_direct : AliasesDirect aliases :=
  (aliasesDirectB_iff _).1 (by decide +kernel)

set_option maxRecDepth 100000 in
/-- every alias target (blanks removed) is the short or full name of a tabulated setting -/
theorem alias_targetsB : aliasTargetsB Gen.allSG aliases = true := by decide +kernel

/-- `_buildSGLookupTable` does not raise `KeyError`: the table exists.  (Evaluating
`buildTable Gen.allSG aliases` itself in the kernel is not feasible — 2 059 keys, each insertion a
linear scan with string comparisons, > 10 GB — so existence is derived from
`buildTable_isSome`; the concrete table is compared with the real dictionary by the driver-based
correspondence check.) -/
theorem table_exists : ∃ t, buildTable Gen.allSG aliases = some t :=
  buildTable_isSome (aliasTargetsB_sound alias_targetsB)

theorem table_ne_none : buildTable Gen.allSG aliases ≠ none := by
  obtain ⟨t, ht⟩ := table_exists
  rw [ht]; exact Option.some_ne_none t

/-! ## the generic theorems for the generated tables -/

/-- by number (int or decimal string): the setting registered at that very position -/
theorem tables_by_number {t : Table} (ht : buildTable Gen.allSG aliases = some t)
    {i : Nat} {g : SG} (hi : Gen.allSG[i]? = some g) :
    getSG t (.num g.number) = some i ∧ getSG t (.str (toString g.number)) = some i :=
  ⟨getSG_of_lookup (by_number numbers_nodup ht hi),
   getSG_of_lookup (by_number_str numbers_nodup names_not_numerals ht hi)⟩

/-- an integer or numeral that is the number of no setting is rejected -/
theorem tables_unknown_number {t : Table} (ht : buildTable Gen.allSG aliases = some t) {n : Nat}
    (hn : ∀ g ∈ Gen.allSG, g.number ≠ n) : getSG t (.num n) = none := by
  apply getSG_rejects ht
  intro k hk
  simp only [forms, List.mem_singleton] at hk
  subst hk
  exact ⟨fun g hg hc => hn g hg (carries_num_iff.1 hc), fun p _ h => by cases h⟩

/-- by name: any spelling that is or normalises to a tabulated name is found and the setting
returned answers to one of the forms tried -/
theorem tables_by_name {t : Table} (ht : buildTable Gen.allSG aliases = some t)
    {g : SG} (hg : g ∈ Gen.allSG) {s : String}
    (hs : s = g.short ∨ s = g.pdb ∨ normShort s = g.short ∨ normFull s = g.pdb) :
    ∃ j g', getSG t (.str s) = some j ∧ Gen.allSG[j]? = some g' ∧
      ∃ k ∈ forms (.str s), Answers Gen.allSG aliases j g' k :=
  by_name aliases_direct ht hg hs

/-- any letter case, any blanks: a string whose outer-stripped, blank-free letters agree up to
case with the short name of a setting — or whose outer-stripped letters agree up to case with its
full name — is found -/
theorem tables_by_name_variant {t : Table} (ht : buildTable Gen.allSG aliases = some t)
    {g : SG} (hg : g ∈ Gen.allSG) {s : String}
    (hs : ((stripL s.toList).filter (· ≠ ' ')).map Char.toLower = g.short.toList.map Char.toLower ∨
          (stripL s.toList).map Char.toLower = g.pdb.toList.map Char.toLower) :
    ∃ j g', getSG t (.str s) = some j ∧ Gen.allSG[j]? = some g' ∧
      ∃ k ∈ forms (.str s), Answers Gen.allSG aliases j g' k := by
  apply tables_by_name ht hg
  rcases hs with h | h
  · exact Or.inr (Or.inr (Or.inl (normShort_variant (names_normalised g hg).1 h)))
  · exact Or.inr (Or.inr (Or.inr (normFull_variant (names_normalised g hg).2 h)))

/-- every legacy alias is found -/
theorem tables_by_alias {t : Table} (ht : buildTable Gen.allSG aliases = some t)
    {a hm : String} (ha : (a, hm) ∈ aliases) :
    ∃ j g, getSG t (.str a) = some j ∧ Gen.allSG[j]? = some g ∧
      Answers Gen.allSG aliases j g (.str a) :=
  by_alias aliases_direct ht ha

/-- whatever `getSG` returns answers to the identifier or one of its normalised forms -/
theorem tables_sound {t : Table} (ht : buildTable Gen.allSG aliases = some t)
    {id : Key} {i : Nat} (h : getSG t id = some i) :
    ∃ g, Gen.allSG[i]? = some g ∧ ∃ k ∈ forms id, Answers Gen.allSG aliases i g k :=
  getSG_sound aliases_direct ht h

/-- identification from operations in any order: found exactly for the permutations of a
tabulated list (and then at the position of that list), rejected otherwise -/
theorem tables_find_spec {l : List Op} (hl : ∀ a ∈ l, a.inRange = true) :
    (∀ i, findSG Gen.allSG l = some i ↔ ∃ g, Gen.allSG[i]? = some g ∧ l.Perm g.ops) ∧
    (findSG Gen.allSG l = none ↔ ∀ g ∈ Gen.allSG, ¬ l.Perm g.ops) :=
  findSG_spec fingerprints_nodup all_in_range hl

/-- every reordering of a tabulated operation list is identified as that setting -/
theorem tables_find_perm {i : Nat} {g : SG} (hi : Gen.allSG[i]? = some g) {l : List Op}
    (hp : l.Perm g.ops) : findSG Gen.allSG l = some i := by
  have hl : ∀ a ∈ l, a.inRange = true :=
    fun a ha => all_in_range g (List.mem_of_getElem? hi) a (hp.subset ha)
  exact ((tables_find_spec hl).1 i).2 ⟨g, hi, hp⟩

/-! ## non-vacuity -/

/-- position 231 of `SpaceGroupList` is Fm-3m, number 225 -/
example : Gen.allSG[231]? = some Gen.sg225 := rfl

/-- "225" and 225 -/
example : ∃ t, buildTable Gen.allSG aliases = some t ∧
    getSG t (.num 225) = some 231 ∧ getSG t (.str "225") = some 231 := by
  obtain ⟨t, ht⟩ := table_exists
  exact ⟨t, ht, tables_by_number ht (g := Gen.sg225) rfl⟩

/-- "fm-3M" is no key itself (no setting carries it, no alias is spelled so); its short-name
normalisation is "Fm-3m", and the first setting with that name is at position 231 -/
example : ∃ t, buildTable Gen.allSG aliases = some t ∧ getSG t (.str "fm-3M") = some 231 := by
  obtain ⟨t, ht⟩ := table_exists
  refine ⟨t, ht, ?_⟩
  have hnone : lookup t (.str "fm-3M") = none := by
    apply lookup_none ht
    · have h : Gen.allSG.all (fun g => !carriesB (.str "fm-3M") g) = true := by decide +kernel
      intro g hg hc
      have := List.all_eq_true.1 h g hg
      rw [carriesB_iff.2 hc] at this; cases this
    · have h : aliases.all (fun p => decide (Key.str "fm-3M" ≠ .str p.1)) = true := by decide +kernel
      intro p hp
      exact of_decide_eq_true (List.all_eq_true.1 h p hp)
  have hn : normShort "fm-3M" = "Fm-3m" := by decide +kernel
  have hb : lookup (addAll [] Gen.allSG 0) (.str "Fm-3m") = some 231 := by
    rw [lookup_base]; decide +kernel
  rw [getSG_str, hnone, hn, buildTable_preserves ht hb]; rfl

/-- " F m -3 m " (blanks inside and outside, full-name spelling of an alias target) is found,
by the variant theorem, through its short-name normalisation "Fm-3m" -/
example : ∃ t j g', buildTable Gen.allSG aliases = some t ∧
    getSG t (.str " F m -3 m ") = some j ∧ Gen.allSG[j]? = some g' ∧
    ∃ k ∈ forms (.str " F m -3 m "), Answers Gen.allSG aliases j g' k := by
  obtain ⟨t, ht⟩ := table_exists
  have hg : Gen.sg225 ∈ Gen.allSG := List.mem_of_getElem? (i := 231) rfl
  obtain ⟨j, g', h1, h2, h3⟩ := tables_by_name_variant ht hg (s := " F m -3 m ")
    (Or.inl (by decide +kernel))
  exact ⟨t, j, g', ht, h1, h2, h3⟩

/-- the alias "Fm3m" -/
example : ∃ t j g, buildTable Gen.allSG aliases = some t ∧ getSG t (.str "Fm3m") = some j ∧
    Gen.allSG[j]? = some g ∧ Answers Gen.allSG aliases j g (.str "Fm3m") := by
  obtain ⟨t, ht⟩ := table_exists
  obtain ⟨j, g, h1, h2, h3⟩ := tables_by_alias ht (a := "Fm3m") (hm := "F m -3 m")
    (by decide +kernel)
  exact ⟨t, j, g, ht, h1, h2, h3⟩

/-- an unknown number is rejected -/
example : ∃ t, buildTable Gen.allSG aliases = some t ∧ getSG t (.num 231) = none := by
  obtain ⟨t, ht⟩ := table_exists
  refine ⟨t, ht, tables_unknown_number ht ?_⟩
  have h : Gen.allSG.all (fun g => decide (g.number ≠ 231)) = true := by decide +kernel
  intro g hg
  exact of_decide_eq_true (List.all_eq_true.1 h g hg)

/-- the reversed operation list of Fm-3m is identified as position 231; the order differs -/
example : findSG Gen.allSG Gen.sg225.ops.reverse = some 231 ∧
    sameOrder Gen.sg225.ops Gen.sg225.ops.reverse = false :=
  ⟨tables_find_perm (g := Gen.sg225) rfl (List.reverse_perm _), by decide +kernel⟩

/-- the empty list and a strict sublist of a tabulated list of a length no setting has -/
example : findSG Gen.allSG [] = none ∧ findSG Gen.allSG (Gen.sg225.ops.take 5) = none := by
  have h : Gen.allSG.all (fun g => decide (g.ops.length ≠ 0) && decide (g.ops.length ≠ 5)) = true := by
    decide +kernel
  simp only [List.all_eq_true, Bool.and_eq_true, decide_eq_true_eq] at h
  have h5 : (Gen.sg225.ops.take 5).length = 5 := by decide +kernel
  exact ⟨findSG_none_of_length (fun g hg => (h g hg).1),
    findSG_none_of_length (fun g hg => by rw [h5]; exact (h g hg).2)⟩

end DS.Props.C11
