import DS.Gen.SrcAtom
import DS.Model.Adp
/-!
# Source tie for the ADP code of `atom.py` (serves C09; indirectly C14, C07, C04)

`DS/Gen/SrcAtom.lean` is regenerated on every run by `translate/pysrc.py` from the current
`src/diffpy/structure/atom.py` by symbolic execution of the method bodies (branches become nested
`if`/`match`, in-place array updates become record updates, `_get_Uij/_set_Uij` are specialised to
the six index pairs the properties use).  The theorems state that the hand-written state machine
`DS.AtomS` — the object of every C09 theorem — computes the same function, for every scalar type.
-/
namespace DS.Props.SrcAtom
open DS
set_option linter.unusedSectionVars false

section
variable {α : Type} [Add α] [Mul α] [Sub α] [Neg α] [Div α] [OfNat α 0] [OfNat α 1]
  [OfNat α 2] [OfNat α 3] [OfNat α 8] [LT α] [DecidableLT α] [Elem α] [AdpConst α]

theorem BtoU_eq : (Src.Atom.BtoU : α) = BtoU := rfl
theorem UtoB_eq : (Src.Atom.UtoB : α) = UtoB := rfl
/-- `Uisoequiv` getter: flag off / no lattice / the six-term formula -/
theorem uisoequiv_eq (s : AtomS α) : Src.Atom.uisoequiv s = s.uisoequiv := by
  unfold Src.Atom.uisoequiv AtomS.uisoequiv
  cases s.aniso <;> cases s.lat <;> rfl
/-- `U` getter including the rewrite of the storage of an isotropic atom -/
theorem getU_eq (s : AtomS α) : Src.Atom.getU s = s.getU := by
  unfold Src.Atom.getU AtomS.getU
  cases s.aniso <;> rfl
theorem setU_eq (s : AtomS α) (m : Mat3 α) : Src.Atom.setU s m = s.setU m := rfl

theorem get_Uij_eq (s : AtomS α) :
    Src.Atom.get_Uij_00 s = s.getUij .i0 .i0 ∧ Src.Atom.get_Uij_11 s = s.getUij .i1 .i1 ∧
    Src.Atom.get_Uij_22 s = s.getUij .i2 .i2 ∧ Src.Atom.get_Uij_01 s = s.getUij .i0 .i1 ∧
    Src.Atom.get_Uij_02 s = s.getUij .i0 .i2 ∧ Src.Atom.get_Uij_12 s = s.getUij .i1 .i2 :=
  ⟨rfl, rfl, rfl, rfl, rfl, rfl⟩

theorem set_Uij_eq (s : AtomS α) (v : α) :
    Src.Atom.set_Uij_00 s v = s.setUij .i0 .i0 v ∧ Src.Atom.set_Uij_11 s v = s.setUij .i1 .i1 v ∧
    Src.Atom.set_Uij_22 s v = s.setUij .i2 .i2 v ∧ Src.Atom.set_Uij_01 s v = s.setUij .i0 .i1 v ∧
    Src.Atom.set_Uij_02 s v = s.setUij .i0 .i2 v ∧ Src.Atom.set_Uij_12 s v = s.setUij .i1 .i2 v := by
  refine ⟨?_, ?_, ?_, ?_, ?_, ?_⟩ <;>
    simp only [Src.Atom.set_Uij_00, Src.Atom.set_Uij_11, Src.Atom.set_Uij_22, Src.Atom.set_Uij_01,
      Src.Atom.set_Uij_02, Src.Atom.set_Uij_12, AtomS.setUij, Mat3.set] <;>
    cases s.aniso <;> rfl

theorem setUiso_eq (s : AtomS α) (v : α) : Src.Atom.setUiso s v = s.setUiso v := by
  unfold Src.Atom.setUiso AtomS.setUiso
  rw [uisoequiv_eq]
  cases s.aniso <;> rfl

theorem setAniso_eq (s : AtomS α) (b : Bool) : Src.Atom.setAniso s b = s.setAniso b := by
  unfold Src.Atom.setAniso AtomS.setAniso
  rw [uisoequiv_eq, getU_eq]
  cases b <;> cases s.aniso <;> rfl

theorem bisoequiv_eq (s : AtomS α) : Src.Atom.bisoequiv s = s.bisoequiv := by
  unfold Src.Atom.bisoequiv AtomS.bisoequiv
  rw [uisoequiv_eq]; rfl
theorem setBiso_eq (s : AtomS α) (v : α) : Src.Atom.setBiso s v = s.setBiso v := by
  unfold Src.Atom.setBiso AtomS.setBiso
  rw [setUiso_eq]; rfl

/-- the six `Bij` getters and setters -/
theorem get_Bij_eq (s : AtomS α) :
    Src.Atom.get_B11 s = s.getBij .i0 .i0 ∧ Src.Atom.get_B22 s = s.getBij .i1 .i1 ∧
    Src.Atom.get_B33 s = s.getBij .i2 .i2 ∧ Src.Atom.get_B12 s = s.getBij .i0 .i1 ∧
    Src.Atom.get_B13 s = s.getBij .i0 .i2 ∧ Src.Atom.get_B23 s = s.getBij .i1 .i2 :=
  ⟨rfl, rfl, rfl, rfl, rfl, rfl⟩
theorem set_Bij_eq (s : AtomS α) (v : α) :
    Src.Atom.set_B11 s v = s.setBij .i0 .i0 v ∧ Src.Atom.set_B22 s v = s.setBij .i1 .i1 v ∧
    Src.Atom.set_B33 s v = s.setBij .i2 .i2 v ∧ Src.Atom.set_B12 s v = s.setBij .i0 .i1 v ∧
    Src.Atom.set_B13 s v = s.setBij .i0 .i2 v ∧ Src.Atom.set_B23 s v = s.setBij .i1 .i2 v := by
  have h := fun w => set_Uij_eq s w
  refine ⟨?_, ?_, ?_, ?_, ?_, ?_⟩
  · exact (h _).1
  · exact (h _).2.1
  · exact (h _).2.2.1
  · exact (h _).2.2.2.1
  · exact (h _).2.2.2.2.1
  · exact (h _).2.2.2.2.2
end

/-- the twelve `Uij`/`Bij` properties are wired to `_get_Uij/_set_Uij` with the index pairs and the
`_UtoB`/`_BtoU` factors the model assumes -/
theorem tensorProps_eq : Src.Atom.tensorProps =
    [("U11", "self._get_Uij(0, 0)", "self._set_Uij(0, 0, value)"),
     ("U22", "self._get_Uij(1, 1)", "self._set_Uij(1, 1, value)"),
     ("U33", "self._get_Uij(2, 2)", "self._set_Uij(2, 2, value)"),
     ("U12", "self._get_Uij(0, 1)", "self._set_Uij(0, 1, value)"),
     ("U13", "self._get_Uij(0, 2)", "self._set_Uij(0, 2, value)"),
     ("U23", "self._get_Uij(1, 2)", "self._set_Uij(1, 2, value)"),
     ("B11", "_UtoB * self._get_Uij(0, 0)", "self._set_Uij(0, 0, _BtoU * value)"),
     ("B22", "_UtoB * self._get_Uij(1, 1)", "self._set_Uij(1, 1, _BtoU * value)"),
     ("B33", "_UtoB * self._get_Uij(2, 2)", "self._set_Uij(2, 2, _BtoU * value)"),
     ("B12", "_UtoB * self._get_Uij(0, 1)", "self._set_Uij(0, 1, _BtoU * value)"),
     ("B13", "_UtoB * self._get_Uij(0, 2)", "self._set_Uij(0, 2, _BtoU * value)"),
     ("B23", "_UtoB * self._get_Uij(1, 2)", "self._set_Uij(1, 2, _BtoU * value)")] := rfl

end DS.Props.SrcAtom
