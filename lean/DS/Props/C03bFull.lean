import DS.Props.C03b

/-!
# C03, last clause — unconditional form on a healthy tree

`DS.Props.C03b` builds on every tree (its statements range over the certified settings and over
the crystal systems whose source rule equals the model).  This module additionally checks, by
evaluation of the generated data, that **nothing is left out**: no uncertified setting and all
seven source rules equal to the model.  It therefore builds only when the translator certified
every tabulated setting against the rule that the source really states.
-/
namespace DS.Props.C03bFull
open DS DS.LatRule DS.Props.C03b

/-- the translator left no tabulated setting uncertified -/
theorem none_uncertified : Gen.nUncertified = 0 := by decide

/-- the seven rules read from the source are exactly the model `rule` -/
theorem all_agree : ∀ S : CSys, S ∈ agreeing Gen.ruleSrc := by
  intro S; cases S <;> decide

/-- the source's rule is the model's rule -/
theorem srcRule_iff_rule (S : CSys) (c : CellR) : srcRule S c ↔ rule S c :=
  (rule_of_src (all_agree S) c).symm

/-- **`isSpaceGroupLatPar` accepts every cell that the setting's operations leave invariant**:
for every tabulated setting `g`, every valid real cell (positive lengths, angles strictly between
0 and 180 degrees) whose metric tensor satisfies `Rᵀ G R = G` for the rotation part `R` of every
operation of `g` fulfils the rule of `g.crystal_system`, as the code states it. -/
theorem latpar_complete_all (g : SG) (hg : g ∈ Gen.allSG) (c : CellR) (hv : Valid c)
    (hinv : ∀ op ∈ g.ops, Invariant op (metric c)) : rule g.system c :=
  (srcRule_iff_rule g.system c).1 (latpar_complete_allSG none_uncertified g hg c hv hinv)

/-- **… while rejecting cells that only a lower crystal system allows**: the rule of every system
`S` rejects the generic cell of every strictly lower system (source rule = model rule). -/
theorem latpar_rejects_lower_all (sc : CSys × CellR) (hsc : sc ∈ shapes) (S : CSys)
    (hl : lower sc.1 S = true) : ¬ srcRule S sc.2 :=
  latpar_rejects_lower sc hsc S hl (all_agree S)

/-- non-vacuity: the witness setting is tabulated and its hypotheses are satisfiable -/
example : Gen.latWitness.1 ∈ Gen.allSG ∧ rule Gen.latWitness.1.system witnessCell := by
  have hm : Gen.latWitness.1 ∈ Gen.allSG := by
    rw [← Gen.allLC_cover none_uncertified]
    exact List.mem_map.2 ⟨_, Gen.latWitness_mem, rfl⟩
  exact ⟨hm, latpar_complete_all _ hm _ witnessCell_valid witness_invariant⟩

end DS.Props.C03bFull
