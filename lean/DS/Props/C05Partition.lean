import DS.Lemmas.Partition
import DS.Props.C03

/-!
C05, last clause: "constraining a whole list of positions partitions it into exactly its symmetry
orbits with one generator each" (`SymmetryConstraints._findConstraints`).

`Partition.coremap ops k positions` is the model of `coremap` (generator index ↦ member indices) on
exact positions (integers in units of `1/(24·k)`).  `Partition.R ops k p q` says that `q` is, modulo
lattice translations, an image of `p` under an operation of `ops`.
-/
namespace DS.Props.C05Partition
open DS DS.Partition

/-- **1.** For a group, "same orbit" is an equivalence relation on positions; it only depends on
the positions modulo lattice translations, and moving either point by an operation of the group
does not change it. -/
theorem sameOrbit_equiv {ops : List Op} (hG : IsGroup ops) (k : Int) :
    Equivalence (fun p q : P3 => inOrbit ops k p q = true) ∧
    (∀ p q : P3, inOrbit ops k p q = inOrbit ops k (redP k p) (redP k q)) ∧
    (∀ p q v w : P3, inOrbit ops k (shiftBy k p v) (shiftBy k q w) = inOrbit ops k p q) ∧
    (∀ g ∈ ops, ∀ p q : P3,
      inOrbit ops k (Orbit.img g k (0, 0, 0) p) q = inOrbit ops k p q ∧
      inOrbit ops k p (Orbit.img g k (0, 0, 0) q) = inOrbit ops k p q) :=
  ⟨R_equivalence hG k, inOrbit_red ops k,
   fun p q v w => by rw [inOrbit_red, redP_shiftBy, redP_shiftBy, ← inOrbit_red],
   fun _ hg p q => ⟨inOrbit_img_left hG hg k p q, inOrbit_img_right hG hg k p q⟩⟩

/-- **2.** `coremap` is a partition of the listing (true for every list of operations): the member
lists are pairwise disjoint, together they list every index `0 … n-1` exactly once, each member
list is increasing and starts with its generator index, and the generator indices increase. -/
theorem coremap_partition (ops : List Op) (k : Int) (positions : List P3) :
    ((coremap ops k positions).map (·.2)).Pairwise List.Disjoint ∧
    ((coremap ops k positions).flatMap (·.2)).Perm (List.range positions.length) ∧
    (∀ e ∈ coremap ops k positions, e.2.Pairwise (· < ·) ∧ e.2.head? = some e.1) ∧
    ((coremap ops k positions).map (·.1)).Pairwise (· < ·) :=
  ⟨coremap_disjoint ops k positions, coremap_perm ops k positions,
   fun _ he => ⟨coremap_members_sorted ops k positions he, coremap_head ops k positions he⟩,
   coremap_generators_sorted ops k positions⟩

/-- every listed index belongs to exactly one class -/
theorem coremap_unique_class (ops : List Op) (k : Int) (positions : List P3) {i : Nat}
    (hi : i < positions.length) : ∃ e ∈ coremap ops k positions, i ∈ e.2 ∧
      ∀ e' ∈ coremap ops k positions, i ∈ e'.2 → e' = e := by
  obtain ⟨e, he, hie⟩ := coremap_exists_class ops k positions hi
  refine ⟨e, he, hie, fun e' he' hie' => ?_⟩
  have hnd : ((coremap ops k positions).flatMap (·.2)).Nodup :=
    (coremap_perm ops k positions).nodup_iff.2 List.nodup_range
  have hd := (List.nodup_flatMap.1 hnd).2
  by_contra hne
  have hsym : Std.Symm (Function.onFun List.Disjoint (fun e : Nat × List Nat => e.2)) :=
    ⟨fun _ _ h => List.Disjoint.symm h⟩
  exact hd.forall he' he hne hie' hie

/-- **3.** The classes ARE the symmetry orbits: two listed indices lie in the same member list iff
their positions are in the same orbit. -/
theorem coremap_classes {ops : List Op} (hG : IsGroup ops) (k : Int) (positions : List P3)
    {i j : Nat} (hi : i < positions.length) (hj : j < positions.length) :
    SameClass (coremap ops k positions) i j ↔ inOrbit ops k positions[i] positions[j] = true :=
  sameClass_iff ops k positions (R_equivalence hG k) hi hj

/-- **3'.** The generator of a class is a listed index, its member list consists of exactly the listed
positions of its orbit, and it is the first listed position of that orbit; the generators are
exactly the indices that are the first of their orbit, hence the number of classes is the number of
distinct orbits met. -/
theorem coremap_generators {ops : List Op} (hG : IsGroup ops) (k : Int) (positions : List P3) :
    (∀ e ∈ coremap ops k positions, ∃ hg : e.1 < positions.length,
      (∀ (j : Nat) (hj : j < positions.length),
        j ∈ e.2 ↔ inOrbit ops k positions[e.1] positions[j] = true) ∧
      (∀ (j : Nat) (hj : j < positions.length),
        inOrbit ops k positions[j] positions[e.1] = true → e.1 ≤ j)) ∧
    (coremap ops k positions).map (·.1) =
      (List.range positions.length).filter (firstOfOrbit ops k positions) ∧
    (coremap ops k positions).length =
      ((List.range positions.length).filter (firstOfOrbit ops k positions)).length := by
  have hE := R_equivalence hG k
  refine ⟨fun e he => ?_, coremap_generators_eq ops k positions hE, ?_⟩
  · obtain ⟨hg, hcl⟩ := coremap_class ops k positions hE he
    exact ⟨hg, hcl, fun j hj hR => coremap_gen_first ops k positions hE he hj hg hR⟩
  · rw [← coremap_generators_eq ops k positions hE, List.length_map]

/-- **4.** Listing the same positions in another order gives the same classes, transported along
the permutation: the number of classes is the same, and two entries of the new listing share a
class iff the same two positions share a class in the old listing. -/
theorem coremap_shuffle {ops : List Op} (hG : IsGroup ops) (k : Int) {positions positions' : List P3}
    (hperm : positions'.Perm positions) :
    (coremap ops k positions').length = (coremap ops k positions).length ∧
    ∀ (i j i' j' : Nat) (hi : i < positions.length) (hj : j < positions.length)
      (hi' : i' < positions'.length) (hj' : j' < positions'.length),
      positions'[i'] = positions[i] → positions'[j'] = positions[j] →
      (SameClass (coremap ops k positions') i' j' ↔ SameClass (coremap ops k positions) i j) := by
  have hE := R_equivalence hG k
  refine ⟨Nat.le_antisymm (coremap_length_le ops k hE hperm.subset)
    (coremap_length_le ops k hE hperm.symm.subset), ?_⟩
  intro i j i' j' hi hj hi' hj' ei ej
  rw [sameClass_iff ops k positions' hE hi' hj', sameClass_iff ops k positions hE hi hj, ei, ej]

/-- **4, explicit form.** The new listing is given by the list `σ` of old indices (a permutation of
`0 … n-1`): new entries `i'`, `j'` share a class iff the old entries `σ[i']`, `σ[j']` do. -/
theorem coremap_shuffle_idx {ops : List Op} (hG : IsGroup ops) (k : Int) (positions : List P3)
    (σ : List Nat) (hσ : σ.Perm (List.range positions.length)) :
    (σ.map (fun i => positions.getD i (0, 0, 0))).Perm positions ∧
    (coremap ops k (σ.map (fun i => positions.getD i (0, 0, 0)))).length = (coremap ops k positions).length ∧
    ∀ (i' j' : Nat) (hi' : i' < σ.length) (hj' : j' < σ.length),
      (SameClass (coremap ops k (σ.map (fun i => positions.getD i (0, 0, 0)))) i' j' ↔
        SameClass (coremap ops k positions) σ[i'] σ[j']) := by
  have hrange : (List.range positions.length).map (fun i => positions.getD i (0, 0, 0)) = positions := by
    apply List.ext_getElem
    · simp
    · intro i h₁ h₂; simp [List.getElem?_eq_getElem h₂]
  have hperm : (σ.map (fun i => positions.getD i (0, 0, 0))).Perm positions := by
    have := hσ.map (fun i => positions.getD i (0, 0, 0))
    rwa [hrange] at this
  have hlt : ∀ (i' : Nat) (hi' : i' < σ.length), σ[i'] < positions.length := fun i' hi' =>
    List.mem_range.1 (hσ.subset (List.getElem_mem hi'))
  refine ⟨hperm, (coremap_shuffle hG k hperm).1, fun i' j' hi' hj' => ?_⟩
  refine (coremap_shuffle hG k hperm).2 σ[i'] σ[j'] i' j' (hlt i' hi') (hlt j' hj')
    (by simpa using hi') (by simpa using hj') ?_ ?_
  · rw [List.getElem_map, List.getD_eq_getElem _ _ (hlt i' hi')]
  · rw [List.getElem_map, List.getD_eq_getElem _ _ (hlt j' hj')]

/-- **4'.** Adding integer lattice vectors (`24·k` units per lattice step) to the listed positions
does not change `coremap` (true for every list of operations). -/
theorem coremap_shift (ops : List Op) (k : Int) (positions shifts : List P3)
    (h : positions.length ≤ shifts.length) :
    coremap ops k (List.zipWith (shiftBy k) positions shifts) = coremap ops k positions :=
  coremap_congr_red ops k (map_red_zipWith_shiftBy k positions shifts h)

/-- the same for a single listed position -/
theorem coremap_shift_one (ops : List Op) (k : Int) (positions : List P3) (i : Nat)
    (hi : i < positions.length) (v : P3) :
    coremap ops k (positions.set i (shiftBy k positions[i] v)) = coremap ops k positions := by
  apply coremap_congr_red
  rw [List.map_set, redP_shiftBy, ← List.getElem_map (redP k) (h := by simpa using hi), List.set_getElem_self]

/-- **5.** Every tabulated space-group setting: `coremap` partitions any listing into exactly its
symmetry orbits with one generator each — the first listed position of the orbit. -/
theorem tables_coremap : ∀ p ∈ Gen.allC, ∀ (k : Int) (positions : List P3),
    Equivalence (fun a b : P3 => inOrbit p.1.ops k a b = true) ∧
    ((coremap p.1.ops k positions).flatMap (·.2)).Perm (List.range positions.length) ∧
    ((coremap p.1.ops k positions).map (·.2)).Pairwise List.Disjoint ∧
    (∀ e ∈ coremap p.1.ops k positions, e.2.Pairwise (· < ·) ∧ e.2.head? = some e.1) ∧
    (∀ (i j : Nat) (hi : i < positions.length) (hj : j < positions.length),
      SameClass (coremap p.1.ops k positions) i j ↔
        inOrbit p.1.ops k positions[i] positions[j] = true) ∧
    (coremap p.1.ops k positions).map (·.1) =
      (List.range positions.length).filter (firstOfOrbit p.1.ops k positions) ∧
    (∀ positions' : List P3, positions'.Perm positions →
      (coremap p.1.ops k positions').length = (coremap p.1.ops k positions).length) ∧
    (∀ shifts : List P3, positions.length ≤ shifts.length →
      coremap p.1.ops k (List.zipWith (shiftBy k) positions shifts) = coremap p.1.ops k positions) := by
  intro p hp k positions
  have hG := DS.Props.C03.all_groups p hp
  have h2 := coremap_partition p.1.ops k positions
  exact ⟨(sameOrbit_equiv hG k).1, h2.2.1, h2.1, h2.2.2.1,
    fun i j hi hj => coremap_classes hG k positions hi hj,
    (coremap_generators hG k positions).2.1,
    fun _ hperm => (coremap_shuffle hG k hperm).1,
    fun shifts h => coremap_shift p.1.ops k positions shifts h⟩

/-! ### non-vacuity: the witness group (8 operations), two orbits interleaved plus a third -/

/-- positions 0, 2, 4 are one orbit (2: image under the third operation; 4: position 0 moved by the
lattice vector (1,−2,0)); 1 and 3 another (3: image under the third operation); 5 is alone -/
def demo : List P3 :=
  [(600000, 600000, 312000), (100, 200, 300), (1800000, 600000, 2088000), (2399900, 200, 2399700),
   (3000000, -4200000, 312000), (7, 7, 7)]

example : IsGroup Gen.witness.1.ops := DS.Props.C03.all_groups _ Gen.witness_mem

example : coremap Gen.witness.1.ops 100000 demo = [(0, [0, 2, 4]), (1, [1, 3]), (5, [5])] := by
  decide +kernel

-- the relation is neither empty nor total on the listing
example : inOrbit Gen.witness.1.ops 100000 (600000, 600000, 312000) (1800000, 600000, 2088000) = true ∧
    inOrbit Gen.witness.1.ops 100000 (600000, 600000, 312000) (100, 200, 300) = false := by
  decide +kernel

-- the listing in another order: same classes, transported (old indices 1,0,5,3,4,2)
example : coremap Gen.witness.1.ops 100000
    [(100, 200, 300), (600000, 600000, 312000), (7, 7, 7), (2399900, 200, 2399700),
     (3000000, -4200000, 312000), (1800000, 600000, 2088000)] = [(0, [0, 3]), (1, [1, 4, 5]), (2, [2])] := by
  decide +kernel

-- every listed position moved by a lattice vector: same `coremap` (evaluated, not via the theorem)
example : coremap Gen.witness.1.ops 100000 (List.zipWith (shiftBy 100000) demo
    [(1, 0, 0), (0, -1, 2), (0, 0, 0), (3, 3, 3), (0, 0, 0), (-1, -1, -1)]) =
    [(0, [0, 2, 4]), (1, [1, 3]), (5, [5])] := by
  decide +kernel

-- generators = first of orbit
example : (List.range demo.length).filter (firstOfOrbit Gen.witness.1.ops 100000 demo) = [0, 1, 5] := by
  decide +kernel

-- the conclusions of `tables_coremap` for the witness, on `demo`
example : SameClass (coremap Gen.witness.1.ops 100000 demo) 2 4 ∧
    ¬ SameClass (coremap Gen.witness.1.ops 100000 demo) 2 3 := by
  have h := (tables_coremap _ Gen.witness_mem 100000 demo).2.2.2.2.1
  refine ⟨(h 2 4 (by decide) (by decide)).2 (by decide +kernel), fun hc => ?_⟩
  have := (h 2 3 (by decide) (by decide)).1 hc
  revert this
  decide +kernel

end DS.Props.C05Partition
