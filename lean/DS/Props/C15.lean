import DS.Model.Expand
namespace DS.Props.C15
theorem stub : True := trivial
end DS.Props.C15
