import DS.Lemmas.Expand

/-!
# C15 — supercell expansion reproduces the same crystal on a larger cell

Model: `DS.Expand.supercell` (DS/Model/Expand.lean), a transcription of
`expansion/supercell_mod.py` with the lattice formulas of `Lattice.setLatPar`.
Theorems are over an arbitrary field `K` of characteristic 0 carrying the `Elem` primitives
(instantiated at `ℝ` at the end); the multipliers are naturals `≥ 1`, passed to the model as the
integer sequence `[l, m, n]` exactly as the caller passes them.

Every theorem takes the hypothesis `supercell S [l, m, n] = .ok T`; `runs` shows that it is
satisfiable for every `S` and all multipliers `≥ 1` (non-vacuity).
-/
namespace DS.Props.C15
open DS DS.Expand
set_option linter.unusedSectionVars false

section
variable {K β : Type} [Field K] [CharZero K] [Elem K]
variable {S T : Stru K β} {l m n : Nat}

theorem cne {x : Nat} (h : 1 ≤ x) : (x : K) ≠ 0 := Nat.cast_ne_zero.2 (by omega)

/-- valid multipliers never raise; the result is the general path (the `(1,1,1)` shortcut returning
the plain copy agrees with it) -/
theorem runs (S : Stru K β) (hl : 1 ≤ l) (hm : 1 ≤ m) (hn : 1 ≤ n) :
    supercell S [(l : Int), (m : Int), (n : Int)] = .ok (supercellGen S l m n) :=
  supercell_eq S hl hm hn

theorem res (hl : 1 ≤ l) (hm : 1 ≤ m) (hn : 1 ≤ n)
    (h : supercell S [(l : Int), (m : Int), (n : Int)] = .ok T) : T = supercellGen S l m n := by
  rw [runs S hl hm hn] at h; cases h; rfl

/-- exactly `l·m·n` images per original atom -/
theorem length_eq (hl : 1 ≤ l) (hm : 1 ≤ m) (hn : 1 ≤ n)
    (h : supercell S [(l : Int), (m : Int), (n : Int)] = .ok T) :
    T.atoms.length = l * m * n * S.atoms.length := by
  rw [res hl hm hn h]
  simp only [supercellGen, List.length_flatMap, images, List.length_map, length_ijkList, sum_map_const]
  ring

/-- grouped by parent atom in the original order; within a parent the images follow the index box
in the order of the source's list comprehension (`i` slowest, `k` fastest) -/
theorem grouped (hl : 1 ≤ l) (hm : 1 ≤ m) (hn : 1 ≤ n)
    (h : supercell S [(l : Int), (m : Int), (n : Int)] = .ok T) :
    T.atoms = S.atoms.flatMap fun a => (ijkList l m n).map (image l m n a) := by
  rw [res hl hm hn h]; rfl

/-- the same with explicit labels: the result is the list of images labelled by (index of the
parent in the input, box translation); the labels are pairwise different (no image twice) and each
atom is the image of the parent with that index -/
theorem labelled_result (hl : 1 ≤ l) (hm : 1 ≤ m) (hn : 1 ≤ n)
    (h : supercell S [(l : Int), (m : Int), (n : Int)] = .ok T) :
    T.atoms = (labelled S.atoms l m n).map (·.2.2) ∧
    ((labelled S.atoms l m n).map fun x => (x.1, x.2.1)).Nodup ∧
    ∀ x ∈ labelled S.atoms l m n, ∃ a, S.atoms[x.1]? = some a ∧ x.2.1 ∈ ijkList l m n ∧
      x.2.2 = image l m n a x.2.1 := by
  rw [res hl hm hn h]
  exact ⟨(labelled_atoms S.atoms l m n).symm, labelled_keys_nodup S.atoms l m n, labelled_mem S.atoms l m n⟩

/-- the index box is exactly `{0..l-1}×{0..m-1}×{0..n-1}`, each triple once -/
theorem box_exact (l m n : Nat) :
    (ijkList l m n).Nodup ∧ (ijkList l m n).length = l * m * n ∧
      ∀ t : Nat × Nat × Nat, t ∈ ijkList l m n ↔ t.1 < l ∧ t.2.1 < m ∧ t.2.2 < n :=
  ⟨nodup_ijkList l m n, length_ijkList l m n, fun _ => mem_ijkList⟩

/-- every atom of the result is an image of an original atom under a box translation, and the
Cartesian position of that image, measured in the *new* lattice, is the Cartesian position of the
parent in the *old* lattice plus `i·a⃗ + j·b⃗ + k·c⃗` of the old cell vectors -/
theorem image_cart (hl : 1 ≤ l) (hm : 1 ≤ m) (hn : 1 ≤ n)
    (h : supercell S [(l : Int), (m : Int), (n : Int)] = .ok T) (b : Atom K β) (hb : b ∈ T.atoms) :
    ∃ a ∈ S.atoms, ∃ t ∈ ijkList l m n, b = image l m n a t ∧ b.attrs = a.attrs ∧
      T.cell.cartesian b.xyz =
        (S.cell.cartesian a.xyz).add ((Vec3.smul (t.1 : K) S.cell.base.row1).add
          ((Vec3.smul (t.2.1 : K) S.cell.base.row2).add (Vec3.smul (t.2.2 : K) S.cell.base.row3))) := by
  rw [res hl hm hn h] at hb ⊢
  simp only [supercellGen, List.mem_flatMap, images, List.mem_map] at hb
  obtain ⟨a, ha, t, ht, rfl⟩ := hb
  exact ⟨a, ha, t, ht, rfl, rfl, Expand.image_cart S.cell a (cne hl) (cne hm) (cne hn) t⟩

/-- conversely every parent and every box translation occurs -/
theorem image_present (hl : 1 ≤ l) (hm : 1 ≤ m) (hn : 1 ≤ n)
    (h : supercell S [(l : Int), (m : Int), (n : Int)] = .ok T) (a : Atom K β) (ha : a ∈ S.atoms)
    (t : Nat × Nat × Nat) (ht : t.1 < l ∧ t.2.1 < m ∧ t.2.2 < n) : image l m n a t ∈ T.atoms := by
  rw [res hl hm hn h]
  simp only [supercellGen, List.mem_flatMap, images, List.mem_map]
  exact ⟨a, ha, t, mem_ijkList.2 ht, rfl⟩

/-- an image carries the parent's attribute bundle (element, label, occupancy, displacement
parameters, extras) unchanged -/
theorem attrs_kept (a : Atom K β) (t : Nat × Nat × Nat) : (image l m n a t).attrs = a.attrs := rfl

/-- the attribute sequence of the result is each parent's bundle repeated `l·m·n` times, in order -/
theorem attrs_sequence (hl : 1 ≤ l) (hm : 1 ≤ m) (hn : 1 ≤ n)
    (h : supercell S [(l : Int), (m : Int), (n : Int)] = .ok T) :
    T.atoms.map (·.attrs) = S.atoms.flatMap fun a => List.replicate (l * m * n) a.attrs := by
  rw [res hl hm hn h]
  simp only [supercellGen, List.map_flatMap, images, List.map_map]
  refine List.flatMap_congr fun a _ => ?_
  rw [← length_ijkList l m n]
  exact List.eq_replicate_iff.2 ⟨by simp, fun b hb => by
    simp only [List.mem_map, Function.comp] at hb
    obtain ⟨t, _, rfl⟩ := hb; rfl⟩

/-- the formula of `setLatPar` for `stdbase` at the multiplied lengths is `diag(l,m,n)·stdbase`
(pure field algebra on the source's expressions `ar`, `cgr`, `sgr`; no side condition) -/
theorem stdbase_scale (L : Cell K) (l m n : Nat) :
    (L.scale l m n).stdbase = (diag (l : K) m n).mul L.stdbase := Expand.stdbase_scale L l m n

/-- new cell: lengths multiplied; angles, rotation unchanged; standard and rotated base vectors are
the original ones multiplied by `l`, `m`, `n` -/
theorem cell_scaled (hl : 1 ≤ l) (hm : 1 ≤ m) (hn : 1 ≤ n)
    (h : supercell S [(l : Int), (m : Int), (n : Int)] = .ok T) :
    T.cell.a = l * S.cell.a ∧ T.cell.b = m * S.cell.b ∧ T.cell.c = n * S.cell.c ∧
    T.cell.alpha = S.cell.alpha ∧ T.cell.beta = S.cell.beta ∧ T.cell.gamma = S.cell.gamma ∧
    T.cell.baserot = S.cell.baserot ∧
    T.cell.stdbase = (diag (l : K) m n).mul S.cell.stdbase ∧
    T.cell.base.row1 = Vec3.smul (l : K) S.cell.base.row1 ∧
    T.cell.base.row2 = Vec3.smul (m : K) S.cell.base.row2 ∧
    T.cell.base.row3 = Vec3.smul (n : K) S.cell.base.row3 := by
  rw [res hl hm hn h]
  refine ⟨rfl, rfl, rfl, rfl, rfl, rfl, rfl, Expand.stdbase_scale _ _ _ _, ?_, ?_, ?_⟩ <;>
    simp only [supercellGen, base_scale, Mat3.mul, diag, Mat3.row1, Mat3.row2, Mat3.row3, Vec3.smul,
      Vec3.mk.injEq] <;> refine ⟨?_, ?_, ?_⟩ <;> ring

/-- `normbase` (and `recnormbase`) of the new lattice equal those of the old one: under the
multiplication `base` row i is multiplied and the reciprocal length `ar, br, cr` divided by the
same multiplier.  Hence the stored `U` components denote the same Cartesian tensor
`normbaseᵀ·U·normbase`. -/
theorem normbase_unchanged (hl : 1 ≤ l) (hm : 1 ≤ m) (hn : 1 ≤ n)
    (h : supercell S [(l : Int), (m : Int), (n : Int)] = .ok T) :
    T.cell.normbase = S.cell.normbase ∧ T.cell.recnormbase = S.cell.recnormbase ∧
    ∀ U : Mat3 K, T.cell.normbase.transpose.mul (U.mul T.cell.normbase)
      = S.cell.normbase.transpose.mul (U.mul S.cell.normbase) := by
  rw [res hl hm hn h]
  have e := normbase_scale S.cell (cne hl) (cne hm) (cne hn) (K := K)
  refine ⟨e, recnormbase_scale S.cell (cne hl) (cne hm) (cne hn), fun U => ?_⟩
  show (S.cell.scale l m n).normbase.transpose.mul (U.mul (S.cell.scale l m n).normbase) = _
  rw [e]

/-- reciprocal lengths are divided by the multipliers -/
theorem reciprocal_scaled (L : Cell K) (l m n : Nat) :
    (L.scale l m n).ar = L.ar / l ∧ (L.scale l m n).br = L.br / m ∧ (L.scale l m n).cr = L.cr / n :=
  ⟨ar_scale L l m n, br_scale L l m n, cr_scale L l m n⟩

/-- expanding in two steps gives the same lattice and the same atoms as expanding once by the
product — as a *rearrangement* (`List.Perm`): the order of the atoms differs in general, see
`two_step_order_differs` -/
theorem two_step {T₁ T₂ T₁₂ : Stru K β} {l₁ m₁ n₁ l₂ m₂ n₂ : Nat}
    (h1 : 1 ≤ l₁) (h2 : 1 ≤ m₁) (h3 : 1 ≤ n₁) (h4 : 1 ≤ l₂) (h5 : 1 ≤ m₂) (h6 : 1 ≤ n₂)
    (e1 : supercell S [(l₁ : Int), (m₁ : Int), (n₁ : Int)] = .ok T₁)
    (e2 : supercell T₁ [(l₂ : Int), (m₂ : Int), (n₂ : Int)] = .ok T₂)
    (e12 : supercell S [((l₁ * l₂ : Nat) : Int), ((m₁ * m₂ : Nat) : Int), ((n₁ * n₂ : Nat) : Int)] = .ok T₁₂) :
    T₂.cell = T₁₂.cell ∧ T₂.atoms.Perm T₁₂.atoms := by
  have hp : ∀ {x y : Nat}, 1 ≤ x → 1 ≤ y → 1 ≤ x * y := fun hx hy => Nat.mul_pos hx hy
  rw [res h1 h2 h3 e1] at e2
  rw [res h4 h5 h6 e2, res (hp h1 h4) (hp h2 h5) (hp h3 h6) e12]
  exact ⟨scale_scale _ _ _ _ _ _ _, two_step_atoms S.atoms h1 h2 h3 h4 h5 h6⟩

end

/-! ### rejection (any scalar type) -/
section
variable {α β : Type} [Add α] [Mul α] [Div α] [NatCast α]

/-- `supercell` raises iff the multiplier sequence has not exactly 3 entries or some entry is `< 1`;
what it raises is `ValueError`; otherwise it returns a structure -/
theorem rejects (S : Stru α β) (mno : List Int) :
    ((∃ e, supercell S mno = .error e) ↔ (mno.length ≠ 3 ∨ ∃ x ∈ mno, x < 1)) ∧
    (∀ e, supercell S mno = .error e → e = .ValueError) :=
  ⟨supercell_error S mno, supercell_error_kind S mno⟩

/-- the `(1,1,1)` shortcut returns the plain copy `Structure(S)` -/
theorem shortcut_is_copy (S : Stru α β) : supercell S [1, 1, 1] = .ok S := by
  simp [supercell_three]

theorem accepted (S : Stru α β) (mno : List Int) (T : Stru α β) (h : supercell S mno = .ok T) :
    ∃ l m n : Nat, 1 ≤ l ∧ 1 ≤ m ∧ 1 ≤ n ∧ mno = [(l : Int), (m : Int), (n : Int)] :=
  supercell_ok_inv S mno T h

/-! ### object identity: fresh result, input untouched (heap model `supercellH`) -/

/-- `supercell` on the heap does not write to any existing atom object: every address alive before
the call holds the same atom afterwards, and the input structure reads the same -/
theorem input_untouched (h : Heap α β) (S : HStru α) (mno : List Int) (h' : Heap α β) (T : HStru α)
    (run : supercellH h S mno = .ok (h', T)) :
    (∀ r, r < h.atoms.length → h'.atoms[r]? = h.atoms[r]?) ∧
    ((∀ r ∈ S.refs, r < h.atoms.length) → S.value h' = S.value h) := by
  unfold supercellH at run
  split at run
  · cases run
  · next T' _ =>
    cases run
    refine ⟨fun r hr => List.getElem?_append_left hr, fun hwf => ?_⟩
    simp only [HStru.value, Heap.read, read_old _ _ _ hwf]

/-- every atom of the result is a newly allocated object: its address is not an address alive
before the call (in particular none of the input's atoms), the new addresses are pairwise different,
the new lattice is the result's own value, and reading the result gives the pure model's value -/
theorem disjoint_from_input (h : Heap α β) (S : HStru α) (mno : List Int) (h' : Heap α β) (T : HStru α)
    (run : supercellH h S mno = .ok (h', T)) :
    (∀ r ∈ T.refs, h.atoms.length ≤ r) ∧ (∀ r ∈ S.refs, r < h.atoms.length → r ∉ T.refs) ∧
    T.refs.Nodup ∧ supercell (S.value h) mno = .ok (T.value h') := by
  unfold supercellH at run
  split at run
  · cases run
  · next T' hT' =>
    cases run
    have hfresh : ∀ r ∈ List.range' h.atoms.length T'.atoms.length, h.atoms.length ≤ r := by
      intro r hr; rw [List.mem_range'_1] at hr; exact hr.1
    refine ⟨hfresh, fun r _ hr hr' => ?_, List.nodup_range', ?_⟩
    · have := hfresh r hr'; omega
    · rw [hT']
      simp only [HStru.value, Heap.read, read_fresh]

end

/-! ### instance at ℝ and non-vacuity -/

/-- the scaling lemma at the reals, with `Real.sqrt` / `Real.cos` as the `Elem` primitives -/
theorem stdbase_scale_real (L : Cell ℝ) (l m n : Nat) :
    (L.scale l m n).stdbase = (diag (l : ℝ) m n).mul L.stdbase := stdbase_scale L l m n

/-- a concrete structure over ℚ used in the examples: one atom, payload `7` -/
def exS : Stru ℚ Nat := ⟨⟨3, 4, 5, 90, 90, 90, Mat3.one⟩, [⟨⟨1 / 4, 1 / 2, 0⟩, 7⟩]⟩

/-- the order of a two-step expansion really differs from the one-step order: for one atom and
`(2,1,1)` twice the offsets along `a` come as `0,2,1,3` instead of `0,1,2,3` -/
theorem two_step_order_differs :
    ((supercellGen (supercellGen exS 2 1 1) 2 1 1).atoms.map (·.xyz.x)) = [1 / 16, 9 / 16, 5 / 16, 13 / 16] ∧
    ((supercellGen exS 4 1 1).atoms.map (·.xyz.x)) = [1 / 16, 5 / 16, 9 / 16, 13 / 16] := by
  constructor <;>
    simp [supercellGen, exS, images, ijkList, image, List.range_succ, List.flatMap] <;> norm_num

-- non-vacuity: the hypotheses `1 ≤ l, …` and `supercell … = .ok T` are satisfiable for every input
example (S : Stru ℝ Nat) : ∃ T, supercell S [(2 : Nat), (1 : Nat), (3 : Nat)] = .ok T :=
  ⟨_, runs S (by omega) (by omega) (by omega)⟩
example : (supercellGen exS 2 1 3).atoms.length = 6 := by
  simp [supercellGen, exS, images, length_ijkList]
-- non-vacuity of `two_step`: all three runs exist
example (S : Stru ℝ Nat) : ∃ T₁ T₂ T₁₂, supercell S [(2 : Nat), (1 : Nat), (3 : Nat)] = .ok T₁ ∧
    supercell T₁ [(2 : Nat), (2 : Nat), (1 : Nat)] = .ok T₂ ∧
    supercell S [((2 * 2 : Nat) : Int), ((1 * 2 : Nat) : Int), ((3 * 1 : Nat) : Int)] = .ok T₁₂ :=
  ⟨_, _, _, runs S (by omega) (by omega) (by omega), runs _ (by omega) (by omega) (by omega),
    runs S (by omega) (by omega) (by omega)⟩
-- non-vacuity of the rejection clause: both sides occur
example (S : Stru ℝ Nat) : ∃ e, supercell S [2, 0, 1] = .error e :=
  ((rejects S [2, 0, 1]).1).2 (Or.inr ⟨0, by simp, by omega⟩)
example (S : Stru ℝ Nat) : ∃ e, supercell S [2, 2] = .error e :=
  ((rejects S [2, 2]).1).2 (Or.inl (by simp))
-- non-vacuity of the heap theorems: a run exists
example : ∃ h' T, supercellH (⟨exS.atoms⟩ : Heap ℚ Nat) ⟨exS.cell, [0]⟩ [2, 1, 1] = .ok (h', T) := by
  simp [supercellH, HStru.value, Heap.read, exS, supercell_three, supercellGen]

end DS.Props.C15
